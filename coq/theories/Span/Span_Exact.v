(* C15, clause 1 ("for slop >= 1 a document that contains the phrase exactly still matches") — DECIDED: FALSE
   in general, TRUE under three explicit restrictions.

   Part 1 — refutations (closed, by vm_compute; the same inputs fail on the implementation, /var/tmp/c15x/repro.py).
     Two independent causes:
     (R1) spans.pyx records the positions a span has used in a mask [1 << (posn % 64)] computed with a 32-bit shift
          (Span.pmask: positions alias modulo 32; a position = 31 (mod 32) sets 33 bits).  The position of a later term
          that is OUT of a span's window is OR-ed into the span's mask and never removed.  If that stale bit aliases
          the position where the exact occurrence continues, the continuation is rejected as "seen before".
          Witness A (one 33-token document, phrase [a;b], every slop 1..28), witness B (39 tokens, 3 terms).
     (R2) spans.py _intersect_all: [to_lhs = last_lhs_headers - (1 << 18)] wraps around for header 0 (document 0,
          bucket 0); the merged header list is then unsorted and the galloping slice skips needed headers.
          Witness C (two 19-token documents, no aliasing possible, every slop).

   Part 2 — what is true of the model:
     span_table_keeps_exact   (T1) the pure span table keeps an exact occurrence: positions < 31, table not full
     span_search_target       (T2) span_search credits document d, given the shape of the candidate segments
     intersect_all_keeps      (T3) _intersect_all keeps the left bucket of every shared/adjacent alignment and its
                                   right neighbour, provided header 0 is not a candidate of the first term
     full_credit_positive          the give-up path (full table) credits a positive count
     slop_keeps_exact_match_partial   the clause itself, on index/slop_freqs, under
          no_alias   : document d has at most 31 tokens                                   (R1 cannot occur)
          table_room : (2^|phrase| - 1) * |document d| < 512                              (the 512-slot table never fills)
          no_wrap    : the first phrase term does not occur in positions 0..17 of document 0   (R2 cannot occur)
     Witness A violates only no_alias, witness C only no_wrap (witA_/witC_other_restrictions_hold): neither can be
     dropped.  No input is known that needs table_room; it is what the proof uses to stay away from the give-up path
     (a table that fills exactly on the last word of the last term drops the remaining positions WITHOUT setting the
     "full" flag — Span.bits_loop's early exit — so the general case is not a consequence of full_credit_positive). *)
From Coq Require Import ZArith List Lia ZifyN ZifyNat ZifyBool Bool Sorted Permutation.
From SA Require Import Base.Prelude Gen.SourceConsts Kernels.Intersect Kernels.Spec Kernels.Intersect_Correct Kernels.Adjacent_Correct
  Kernels.Linear Kernels.Linear_Proofs Codec.Codec Codec.Codec_Spec Codec.Codec_Proofs
  Index.Index Index.Index_Spec Index.Index_Proofs Index.Index_Proofs2 Index.Index_Proofs3
  Query.Phrase Query.Phrase_Spec Span.Span Span.Span_Spec Span.Span_Proofs.
Import ListNotations.
Open Scope N_scope.

(* ------------------------------------------------------------------------------------------------------------ *)
(* Part 1 — refutations                                                                                         *)
(* ------------------------------------------------------------------------------------------------------------ *)

(* Witness A (smallest found: ONE document of 33 tokens, 2-term phrase, distinct terms).
     doc = b x^30 a b        (a = 1, b = 2, x = 9);  phrase [a; b];  exact occurrence at positions 31, 32.
   The span of a@31 has position mask pmask 31 = bits 31..63 (33 bits).  b@0 is out of its window (31 > 2 + slop
   for slop <= 28) and leaves the stale bit 0 in the mask; b@32 has pmask 32 = bit 0: "seen before", rejected.  The
   span is never complete (its popcount 34 is neither 2 terms nor 2 positions), so slop 1..28 all give 0. *)
Definition witA : list N := 2 :: repeat 9 30 ++ [1; 2].

Example slop_loses_exact_match_refuted :
  exists docs bs ix ts slop v d,
    wf_docs docs /\ index false bs docs = AOk ix /\ 1 <= slop /\ (2 <= length ts)%nat /\
    slop_freqs ix ts slop = AOk v /\ (d < length docs)%nat /\ occ ts (nth d docs []) > 0 /\ nth d v 0 = 0.
Proof.
  assert (E : exists ix, index false 100 [witA] = AOk ix /\ slop_freqs ix [1; 2] 1 = AOk [0]).
  { eexists. split; [vm_compute; reflexivity | vm_compute; reflexivity]. }
  destruct E as (ix & E1 & E2).
  exists [witA], 100%nat, ix, [1; 2], 1, [0], 0%nat.
  split. { split; [repeat constructor; vm_compute; discriminate | vm_compute; reflexivity]. }
  split; [exact E1|]. split; [lia|]. split; [cbn; lia|]. split; [exact E2|].
  split; [cbn; lia|]. split; [vm_compute; reflexivity | reflexivity].
Qed.

(* the same document loses the exact match for EVERY slop from 1 to 28 (29 and 30 find it again) *)
Example witA_all_slops :
  match index false 100 [witA] with
  | AOk ix => occ [1; 2] witA = 1 /\
              forallb (fun s => match slop_freqs ix [1; 2] s with AOk [0] => true | _ => false end)
                      (map N.of_nat (seq 1 28)) = true /\
              slop_freqs ix [1; 2] 29 = AOk [1]
  | _ => False
  end.
Proof. vm_compute. repeat split; reflexivity. Qed.

(* Witness B (no position = 31 mod 32 involved; 39 tokens, 3 distinct terms; pure modulo-32 aliasing + the strict
   width test of _collect_spans):
     doc = a x x x b x c x^25 b x x x a b c   (a@0 b@4 c@6 | b@32 a@36 b@37 c@38), phrase [a; b; c], slop 1.
   max width = 4.  The span of a@36 takes b@32 first (distance 4 <= 4), its copy {a,b} keeps beg = end = 36.
   c@6 is out of the copy's window and leaves the stale bit 6; c@38 aliases bit 6: rejected.  The two spans that do
   become "complete" (by 3 position bits) have width exactly 4, and _collect_spans wants width < 4. *)
Definition witB : list N := [1; 9; 9; 9; 2; 9; 3] ++ repeat 9 25 ++ [2; 9; 9; 9; 1; 2; 3].

Example slop_loses_exact_match_refuted_B :
  match index false 100 [witB] with
  | AOk ix => occ [1; 2; 3] witB = 1 /\ slop_freqs ix [1; 2; 3] 1 = AOk [0] /\ slop_freqs ix [1; 2; 3] 2 = AOk [2]
  | _ => False
  end.
Proof. vm_compute. repeat split; reflexivity. Qed.

(* Witness C — a SECOND, independent cause, in _intersect_all (no aliasing: both documents have 19 tokens).
     docs = [ x a x x x x a a x x x x x x x a b x a ;  x^9 a x^5 a x a b ],  phrase [a; b], any slop.
   Document 0 has both terms in its first 18 positions, so header 0 (doc 0, bucket 0) is a candidate;
   [to_lhs = last_lhs_headers - (1 << 18)] wraps around for header 0 and the merged header list is no longer
   sorted; the galloping slice then skips header (doc 1, bucket 1) and drops the word of b@18 in document 1, whose
   exact occurrence a@17 b@18 straddles buckets 0 and 1.  Document 1 gets 0 for every slop. *)
Definition witC0 : list N := [9;1;9;9;9;9;1;1;9;9;9;9;9;9;9;1;2;9;1].
Definition witC1 : list N := repeat 9 9 ++ [1;9;9;9;9;9;1;9;1;2].

Example slop_loses_exact_match_refuted_C :
  match index false 100 [witC0; witC1] with
  | AOk ix => occ [1; 2] witC1 = 1 /\ slop_freqs ix [1; 2] 1 = AOk [6; 0] /\ slop_freqs ix [1; 2] 40 = AOk [6; 0] /\
              match get_all_posts ix [1; 2] with
              | AOk [ea; eb] => length eb = 2%nat /\ (* b has a word in each document ... *)
                                match intersect_all [ea; eb] with
                                | AOk (_, lengths) => lengths = [0; 3; 4]   (* ... but only ONE of them survives *)
                                | _ => False end
              | _ => False end
  | _ => False
  end.
Proof. vm_compute. repeat split; reflexivity. Qed.

Print Assumptions slop_loses_exact_match_refuted.
Print Assumptions witA_all_slops.
Print Assumptions slop_loses_exact_match_refuted_B.
Print Assumptions slop_loses_exact_match_refuted_C.

(* ------------------------------------------------------------------------------------------------------------ *)
(* Part 2 — what is true: the span table itself keeps an exact occurrence when positions do not alias and the    *)
(* table does not fill                                                                                          *)
(* ------------------------------------------------------------------------------------------------------------ *)
(* ---------- bit facts ---------- *)
Lemma pc_double n : popcount (2 * n) = popcount n.
Proof. destruct n; reflexivity. Qed.
Lemma pc_succ_double n : popcount (2 * n + 1) = popcount n + 1.
Proof. destruct n as [|p]; [reflexivity|]. cbn. lia. Qed.

Lemma lor_2b x b y c : N.lor (2 * x + N.b2n b) (2 * y + N.b2n c) = 2 * N.lor x y + N.b2n (orb b c).
Proof.
  apply N.bits_inj. intros i. rewrite N.lor_spec. destruct (N.eq_dec i 0) as [->|Hi].
  - rewrite !N.testbit_0_r. reflexivity.
  - replace i with (N.succ (N.pred i)) by lia. rewrite !N.testbit_succ_r, N.lor_spec. reflexivity.
Qed.
Lemma pc_2b x b : popcount (2 * x + N.b2n b) = popcount x + N.b2n b.
Proof. destruct b; cbn [N.b2n]; [apply pc_succ_double | rewrite !N.add_0_r; apply pc_double]. Qed.

Lemma pc_lor_bit : forall k a, popcount (N.lor a (2 ^ k)) = if N.testbit a k then popcount a else popcount a + 1.
Proof.
  induction k as [|k IH] using N.peano_ind; intros a;
    pose proof (N.div2_odd a) as Ha; remember (N.div2 a) as x; remember (N.odd a) as b; clear Heqx Heqb; subst a.
  - change (2 ^ 0) with (2 * 0 + N.b2n true). rewrite lor_2b, N.testbit_0_r, !pc_2b, N.lor_0_r.
    destruct b; cbn; lia.
  - rewrite N.pow_succ_r'. replace (2 * 2 ^ k) with (2 * 2 ^ k + N.b2n false) by (cbn; lia).
    rewrite lor_2b, N.testbit_succ_r, !pc_2b, IH, orb_false_r. destruct (N.testbit x k); lia.
Qed.

Lemma pc_ones : forall i, popcount (N.ones i) = i.
Proof.
  induction i as [|i IH] using N.peano_ind; [reflexivity|].
  replace (N.ones (N.succ i)) with (2 * N.ones i + 1).
  - rewrite pc_succ_double, IH. lia.
  - rewrite !N.ones_equiv, N.pow_succ_r'. assert (0 < 2 ^ i) by (apply N.neq_0_lt_0, N.pow_nonzero; lia). lia.
Qed.

Lemma ones_bit i k : N.testbit (N.ones i) k = (k <? i).
Proof.
  destruct (N.ltb_spec k i).
  - apply N.ones_spec_low; lia.
  - apply N.ones_spec_high; lia.
Qed.

Lemma lor_ones_succ i : N.lor (N.ones i) (2 ^ i) = N.ones (N.succ i).
Proof.
  apply N.bits_inj. intros k. rewrite N.lor_spec, !ones_bit, N.pow2_bits_eqb.
  destruct (N.ltb_spec k i), (N.eqb_spec i k), (N.ltb_spec k (N.succ i)); try reflexivity; lia.
Qed.

Lemma wnot_bit x k : x < W64 -> N.testbit (wnot x) k = andb (k <? 64) (negb (N.testbit x k)).
Proof.
  intros Hx. unfold wnot. rewrite N.mod_small by exact Hx. rewrite N.lxor_spec.
  change wmask with (N.ones 64). rewrite ones_bit.
  destruct (N.ltb_spec k 64); cbn [andb].
  - rewrite xorb_true_r. reflexivity.
  - rewrite xorb_false_r. apply N.bits_above_log2.
    destruct (N.eq_dec x 0) as [->|Hx0]; [cbn; lia|].
    apply N.log2_lt_pow2; [lia|]. unfold W64 in Hx.
    apply N.lt_le_trans with (2 ^ 64); [exact Hx|]. apply N.pow_le_mono_r; lia.
Qed.

(* ---------- one position against the table, as a pure map (valid while the table has room) ---------- *)
Section Step.
Variables (nt : N) (maxw : Z) (tmask pm : N) (cp : Z).

Definition is_stuck (s : span) : bool := andb (popcount (sp_terms s) <? nt) (popcount (sp_posns s) =? nt).
Definition is_old (s : span) : bool := popcount (N.lor (sp_terms s) tmask) <=? popcount (sp_terms s).
Definition is_new (s : span) : bool := negb (is_old s).
Definition rejects (s : span) : bool :=
  orb (popcount (sp_posns s) =? popcount (N.lor (sp_posns s) pm)) (maxw <? Z.abs (cp - sp_beg s))%Z.
Definition forks (s : span) : bool := andb (negb (is_stuck s)) (andb (is_new s) (negb (rejects s))).
Definition upd_s (s : span) : span :=
  if is_stuck s then s else if is_old s then s
  else if rejects s then {| sp_terms := N.land (N.lor (sp_terms s) tmask) (wnot tmask); sp_posns := N.lor (sp_posns s) pm;
                            sp_beg := sp_beg s; sp_end := sp_end s |}
  else {| sp_terms := N.lor (sp_terms s) tmask; sp_posns := N.lor (sp_posns s) pm; sp_beg := sp_beg s; sp_end := cp |}.
Definition upd_c (s : span) : span :=
  {| sp_terms := N.lor (sp_terms s) tmask; sp_posns := N.land (N.lor (sp_posns s) pm) (wnot pm);
     sp_beg := sp_beg s; sp_end := sp_end s |}.

Lemma forks_def s : forks s = andb (negb (is_stuck s)) (andb (is_new s) (negb (rejects s))).
Proof. reflexivity. Qed.

Lemma update_spans_pure : forall old room full,
  N.of_nat (length (filter forks old)) <= room ->
  update_spans old room tmask pm cp nt maxw full =
    (map upd_s old, map upd_c (filter forks old), if existsb forks old then false else full,
     room - N.of_nat (length (filter forks old))).
Proof.
  induction old as [|s rest IH]; intros room full Hr.
  - cbn. f_equal. lia.
  - cbn [update_spans filter existsb map] in *. cbn zeta.
    change (andb (popcount (sp_terms s) <? nt) (popcount (sp_posns s) =? nt)) with (is_stuck s).
    change (popcount (N.lor (sp_terms s) tmask) <=? popcount (sp_terms s)) with (is_old s).
    change (orb (popcount (sp_posns s) =? popcount (N.lor (sp_posns s) pm)) (maxw <? Z.abs (cp - sp_beg s))%Z) with (rejects s).
    unfold upd_s at 1. rewrite (forks_def s) in *.
    destruct (is_stuck s) eqn:E1; cbn [negb andb orb] in *.
    { rewrite IH by exact Hr. reflexivity. }
    unfold is_new in *. destruct (is_old s) eqn:E2; cbn [negb andb orb] in *.
    { rewrite IH by exact Hr. reflexivity. }
    destruct (rejects s) eqn:E3; cbn [negb andb orb] in *.
    { rewrite IH by exact Hr. reflexivity. }
    cbn [length] in Hr.
    assert (Hroom : (0 <? room) = true) by (apply N.ltb_lt; lia). rewrite Hroom.
    rewrite IH by lia. cbn [map length]. f_equal; [f_equal|lia].
    destruct (existsb forks rest); reflexivity.
Qed.

Definition fresh_span : span := {| sp_terms := tmask; sp_posns := pm; sp_beg := cp; sp_end := cp |}.
Definition step_spans (spans : list span) : list span := map upd_s spans ++ fresh_span :: map upd_c (filter forks spans).
End Step.

Lemma pmask_small c : c < 31 -> pmask (Z.of_N c) = 2 ^ c.
Proof.
  intros H. unfold pmask. rewrite Z.mod_small by lia. rewrite N2Z.id.
  destruct (N.eqb_spec c 31); [lia|]. apply N.shiftl_1_l.
Qed.

Lemma is_old_bit t s : is_old (2 ^ t) s = N.testbit (sp_terms s) t.
Proof. unfold is_old. rewrite pc_lor_bit. destruct (N.testbit (sp_terms s) t); [apply N.leb_refl | apply N.leb_gt; lia]. Qed.

Lemma collide_bit a c : (popcount a =? popcount (N.lor a (2 ^ c))) = N.testbit a c.
Proof. rewrite pc_lor_bit. destruct (N.testbit a c); [apply N.eqb_refl | apply N.eqb_neq; lia]. Qed.

(* ---------- the lineage of the exact occurrence ---------- *)
Section Lineage.
Variables (nt : N) (maxw : Z) (p : N).
Hypothesis Hnt64 : nt <= 64.
Hypothesis Hmaxw : (Z.of_N nt <= maxw)%Z.
Hypothesis Hp31 : p + nt <= 31.

Definition lin (i : N) (G : span) : Prop :=
  sp_beg G = Z.of_N p /\ sp_end G = Z.of_N p /\ sp_terms G = N.ones i /\
  forall j, 1 <= j -> j < nt -> N.testbit (sp_posns G) (p + j) = false.

Definition good (t : N) (pending : bool) (G : span) : Prop :=
  exists i, lin i G /\ i <= nt /\
    (is_stuck nt G = true \/ i = nt \/ i = t + 1 \/ (i = t /\ pending = true /\ 1 <= t)).

Definition stepT (t c : N) (spans : list span) : list span :=
  step_spans nt maxw (2 ^ t) (pmask (Z.of_N c)) (Z.of_N c) spans.

Lemma upd_s_stuck tm pm cp s : is_stuck nt s = true -> upd_s nt maxw tm pm cp s = s.
Proof. intros H. unfold upd_s. rewrite H. reflexivity. Qed.
Lemma upd_s_old tm pm cp s : is_old tm s = true -> upd_s nt maxw tm pm cp s = s.
Proof. intros H. unfold upd_s. rewrite H. destruct (is_stuck nt s); reflexivity. Qed.

Lemma good_step t c pending spans G : t < nt -> c < 31 -> In G spans -> good t pending G ->
  exists G', In G' (stepT t c spans) /\ good t (andb pending (negb (c =? p + t))) G'.
Proof.
  intros Ht Hc HIn (i & HL & Hi & Hcase). unfold stepT, step_spans. rewrite pmask_small by exact Hc.
  set (US := upd_s nt maxw (2 ^ t) (2 ^ c) (Z.of_N c)).
  assert (Hkeep : US G = G -> exists G', In G' (map US spans ++ fresh_span (2 ^ t) (2 ^ c) (Z.of_N c)
                       :: map (upd_c (2 ^ t) (2 ^ c)) (filter (forks nt maxw (2 ^ t) (2 ^ c) (Z.of_N c)) spans)) /\ G' = G).
  { intros E. exists G. split; [|reflexivity]. apply in_or_app. left. rewrite <- E. apply in_map. exact HIn. }
  destruct (is_stuck nt G) eqn:Est.
  { destruct (Hkeep (upd_s_stuck _ _ _ _ Est)) as (G' & HG' & ->). exists G. split; [exact HG'|].
    exists i. split; [exact HL|]. split; [exact Hi|]. left. exact Est. }
  destruct HL as (Hb & He & Htm & Hclr).
  assert (Hold : i = nt \/ i = t + 1 -> is_old (2 ^ t) G = true).
  { intros Hor. rewrite is_old_bit, Htm, ones_bit. apply N.ltb_lt. lia. }
  destruct Hcase as [Hs|[Hn|[Hn|(Hn & Hpend & Ht1)]]].
  - congruence.
  - destruct (Hkeep (upd_s_old _ _ _ _ (Hold (or_introl Hn)))) as (G' & HG' & ->). exists G. split; [exact HG'|].
    exists i. repeat split; try assumption. right. left. exact Hn.
  - destruct (Hkeep (upd_s_old _ _ _ _ (Hold (or_intror Hn)))) as (G' & HG' & ->). exists G. split; [exact HG'|].
    exists i. repeat split; try assumption. right. right. left. exact Hn.
  - (* the span lacks term t *)
    subst i pending. cbn [andb].
    assert (Hnew : is_old (2 ^ t) G = false).
    { rewrite is_old_bit, Htm, ones_bit. apply N.ltb_ge. lia. }
    destruct (rejects maxw (2 ^ c) (Z.of_N c) G) eqn:Erej.
    + (* cancelled: the term bit is cleared again, the position bit stays *)
      assert (Hne : forall j, 1 <= j -> j < nt -> c <> p + j).
      { intros j Hj1 Hj2 ->. unfold rejects in Erej. rewrite collide_bit, Hclr in Erej by assumption.
        cbn [orb] in Erej. rewrite Hb in Erej. apply Z.ltb_lt in Erej. lia. }
      exists (US G). split; [apply in_or_app; left; apply in_map; exact HIn|].
      assert (E : US G = {| sp_terms := N.land (N.lor (sp_terms G) (2 ^ t)) (wnot (2 ^ t));
                            sp_posns := N.lor (sp_posns G) (2 ^ c); sp_beg := sp_beg G; sp_end := sp_end G |}).
      { unfold US, upd_s. rewrite Est, Hnew, Erej. reflexivity. }
      rewrite E. exists t. split; [|split; [lia|]].
      * repeat split; cbn [sp_beg sp_end sp_terms sp_posns]; try assumption.
        -- rewrite Htm. apply N.bits_inj. intros k.
           rewrite N.land_spec, N.lor_spec, wnot_bit, !ones_bit, N.pow2_bits_eqb.
           2:{ apply N.lt_le_trans with (2 ^ 64); [apply N.pow_lt_mono_r; lia | reflexivity]. }
           destruct (N.ltb_spec k t), (N.eqb_spec t k), (N.ltb_spec k 64); cbn; try reflexivity; lia.
        -- intros j Hj1 Hj2. rewrite N.lor_spec, Hclr, N.pow2_bits_eqb by assumption.
           cbn [orb]. apply N.eqb_neq. apply Hne; assumption.
      * right. right. right. destruct (N.eqb_spec c (p + t)) as [Ec|Ec].
        -- exfalso. apply (Hne t); [exact Ht1|exact Ht|exact Ec].
        -- cbn. repeat split; try reflexivity. exact Ht1.
    + (* accepted: the copy keeps beg = end = p and gains the term *)
      exists (upd_c (2 ^ t) (2 ^ c) G). split.
      * apply in_or_app. right. right. apply in_map. apply filter_In. split; [exact HIn|].
        unfold forks, is_new. rewrite Est, Hnew, Erej. reflexivity.
      * exists (t + 1). split; [|split; [lia|right; right; left; reflexivity]].
        repeat split; cbn [upd_c sp_beg sp_end sp_terms sp_posns]; try assumption.
        -- rewrite Htm, lor_ones_succ. f_equal. lia.
        -- intros j Hj1 Hj2. rewrite N.land_spec, N.lor_spec, Hclr by assumption. cbn [orb].
           rewrite wnot_bit.
           2:{ apply N.lt_le_trans with (2 ^ 64); [apply N.pow_lt_mono_r; lia | reflexivity]. }
           destruct (N.testbit (2 ^ c) (p + j)); [rewrite andb_false_r|]; reflexivity.
Qed.

Definition run_term (t : N) (spans : list span) (cs : list N) : list span :=
  fold_left (fun sp c => stepT t c sp) cs spans.

(* before the occurrence's first position has been processed there is no lineage yet *)
Definition good_opt (t : N) (pending : bool) (spans : list span) : Prop :=
  (t = 0 /\ pending = true) \/ exists G, In G spans /\ good t pending G.

Lemma fresh_lin : lin 1 (fresh_span (2 ^ 0) (2 ^ p) (Z.of_N p)).
Proof.
  repeat split; cbn [fresh_span sp_beg sp_end sp_terms sp_posns].
  intros j Hj1 Hj2. apply N.pow2_bits_false. lia.
Qed.

Lemma good_opt_step t c pending spans : t < nt -> c < 31 -> good_opt t pending spans ->
  good_opt t (andb pending (negb (c =? p + t))) (stepT t c spans).
Proof.
  intros Ht Hc [[-> ->]|(G & HIn & HG)].
  - rewrite N.add_0_r. cbn [andb]. destruct (N.eqb_spec c p) as [->|Hne]; cbn [negb].
    + right. exists (fresh_span (2 ^ 0) (2 ^ p) (Z.of_N p)). split.
      * unfold stepT, step_spans. rewrite pmask_small by exact Hc. apply in_or_app. right. left. reflexivity.
      * exists 1. split; [exact fresh_lin|]. split; [lia|]. right. right. left. reflexivity.
    + left. split; reflexivity.
  - right. apply (good_step t c pending spans G); assumption.
Qed.

Lemma good_opt_run t : t < nt -> forall cs pending spans, Forall (fun c => c < 31) cs -> good_opt t pending spans ->
  good_opt t (andb pending (negb (existsb (fun c => c =? p + t) cs))) (run_term t spans cs).
Proof.
  intros Ht. induction cs as [|c cs IH]; intros pending spans HF HG; cbn [run_term fold_left existsb].
  - rewrite andb_true_r. exact HG.
  - inversion HF as [|? ? Hc HF']; subst.
    pose proof (IH _ _ HF' (good_opt_step t c pending spans Ht Hc HG)) as H. unfold run_term in H.
    rewrite negb_orb. rewrite andb_assoc. exact H.
Qed.

Lemma good_next t G : good t false G -> good (t + 1) true G.
Proof.
  intros (i & HL & Hi & Hcase). exists i. split; [exact HL|]. split; [exact Hi|].
  destruct Hcase as [H|[H|[H|(_ & H & _)]]]; [left; exact H | right; left; exact H | | discriminate].
  right. right. right. repeat split; [exact H | lia].
Qed.

Fixpoint run_terms (t : N) (evs : list (list N)) (spans : list span) : list span :=
  match evs with
  | [] => spans
  | cs :: rest => run_terms (t + 1) rest (run_term t spans cs)
  end.

Lemma good_opt_terms : forall evs t spans, t + N.of_nat (length evs) = nt -> evs <> [] ->
  Forall (Forall (fun c => c < 31)) evs ->
  (forall k, (k < length evs)%nat -> In (p + t + N.of_nat k) (nth k evs [])) ->
  good_opt t true spans ->
  exists G, In G (run_terms t evs spans) /\ good (nt - 1) false G.
Proof.
  induction evs as [|cs rest IH]; intros t spans Hlen Hne HF Hocc HG; [congruence|].
  cbn [run_terms]. cbn [length] in Hlen.
  inversion HF as [|? ? Hcs HF']; subst.
  assert (Ht : t < nt) by lia.
  pose proof (good_opt_run t Ht cs true spans Hcs HG) as H1.
  assert (Hex : existsb (fun c => c =? p + t) cs = true).
  { apply existsb_exists. exists (p + t). split; [|apply N.eqb_refl].
    specialize (Hocc 0%nat ltac:(cbn; lia)). cbn in Hocc. rewrite N.add_0_r in Hocc. exact Hocc. }
  rewrite Hex in H1. cbn [andb negb] in H1.
  destruct H1 as [[_ H]|(G & HIn & HGd)]; [discriminate|].
  destruct rest as [|cs2 rest2].
  - cbn [run_terms]. exists G. split; [exact HIn|]. cbn [length] in Hlen. replace (nt - 1) with t by lia. exact HGd.
  - apply (IH (t + 1)); [cbn [length] in *; lia | discriminate | exact HF' | |].
    + intros k Hk. specialize (Hocc (S k) ltac:(cbn [length] in *; lia)). cbn [nth] in Hocc.
      replace (p + (t + 1) + N.of_nat k) with (p + t + N.of_nat (S k)) by lia. exact Hocc.
    + right. exists G. split; [exact HIn|]. apply good_next. exact HGd.
Qed.

Lemma good_final G : 1 <= nt -> good (nt - 1) false G -> is_complete G nt = true /\ sp_width G = 0%Z.
Proof.
  intros Hnt1 (i & (Hb & He & Htm & _) & Hi & Hcase). split.
  - unfold is_complete. destruct Hcase as [H|[H|[H|(_ & H & _)]]]; [| | |discriminate].
    + unfold is_stuck in H. apply andb_true_iff in H. destruct H as [_ H]. rewrite H. apply orb_true_r.
    + rewrite Htm, pc_ones, H, N.eqb_refl. reflexivity.
    + rewrite Htm, pc_ones. replace i with nt by lia. rewrite N.eqb_refl. reflexivity.
  - unfold sp_width. rewrite Hb, He. lia.
Qed.
End Lineage.

(* ---------- _collect_spans: a complete span narrower than the limit makes the result non-empty ---------- *)
Lemma collect_one_len s : forall coll r b, collect_one s coll = (r, b) -> length r = length coll /\ (b = true -> coll <> []).
Proof.
  induction coll as [|c rest IH]; intros r b H; cbn [collect_one] in H.
  - injection H as <- <-. split; [reflexivity|discriminate].
  - destruct (andb (overlap s c) (sp_width s <? sp_width c)%Z).
    + injection H as <- <-. split; [reflexivity|discriminate].
    + destruct (collect_one s rest) as [r' b'] eqn:E. injection H as <- <-.
      destruct (IH _ _ eq_refl) as [H1 _]. split; [cbn; lia|discriminate].
Qed.

Lemma collect_nonempty nt maxw : forall spans G, In G spans -> is_complete G nt = true -> (sp_width G < maxw)%Z ->
  collect spans nt maxw <> [].
Proof.
  intros spans G HIn Hc Hw. unfold collect.
  set (f := fun (coll : list span) (s : span) => _).
  assert (Hmono : forall l coll, coll <> [] -> fold_left f l coll <> []).
  { induction l as [|s l IH]; intros coll Hne; cbn [fold_left]; [exact Hne|]. apply IH. unfold f.
    destruct (andb (is_complete s nt) (sp_width s <? maxw)%Z); [|exact Hne].
    destruct (collect_one s coll) as [c' b] eqn:E. destruct (collect_one_len _ _ _ _ E) as [Hl _].
    destruct b; [|destruct coll; [congruence|discriminate]].
    destruct c'; [destruct coll; [congruence|discriminate]|discriminate]. }
  enough (Hgen : forall coll, fold_left f spans coll <> []) by apply Hgen.
  induction spans as [|s l IH]; intros coll; [destruct HIn|]. destruct HIn as [->|HIn]; cbn [fold_left].
  - apply Hmono. unfold f. rewrite Hc. apply Z.ltb_lt in Hw. rewrite Hw. cbn [andb].
    destruct (collect_one G coll) as [c' b] eqn:E. destruct (collect_one_len _ _ _ _ E) as [Hl Hb].
    destruct b; [|destruct coll; discriminate].
    specialize (Hb eq_refl). destruct c'; [destruct coll; [congruence|discriminate]|discriminate].
  - apply IH. exact HIn.
Qed.

(* ---------- the table does not fill: length + (number of spans lacking the current term) grows by one per position ---------- *)
Section Size.
Variables (nt : N) (maxw : Z).
Definition lacks (t : N) (s : span) : bool := negb (N.testbit (sp_terms s) t).
Definition lack (t : N) (spans : list span) : nat := length (filter (lacks t) spans).
Definition phi (t : N) (spans : list span) : nat := (length spans + lack t spans)%nat.

Lemma lack_le t spans : (lack t spans <= length spans)%nat.
Proof. unfold lack. induction spans as [|s l IH]; cbn [filter length]; [lia|]. destruct (lacks t s); cbn [length]; lia. Qed.

Lemma pow2_lt_W64 t : t < 64 -> 2 ^ t < W64.
Proof. intros H. apply N.lt_le_trans with (2 ^ 64); [apply N.pow_lt_mono_r; lia | reflexivity]. Qed.

Lemma forks_lacks t pm cp s : forks nt maxw (2 ^ t) pm cp s = true -> lacks t s = true.
Proof.
  unfold forks, is_new. intros H. apply andb_true_iff in H. destruct H as [_ H]. apply andb_true_iff in H. destruct H as [H _].
  rewrite is_old_bit in H. unfold lacks. exact H.
Qed.

Lemma lacks_upd_s t pm cp s : t < 64 ->
  lacks t (upd_s nt maxw (2 ^ t) pm cp s) = andb (lacks t s) (negb (forks nt maxw (2 ^ t) pm cp s)).
Proof.
  intros Ht. unfold upd_s, forks, is_new, lacks.
  destruct (is_stuck nt s); cbn [negb andb]; [rewrite andb_true_r; reflexivity|].
  rewrite is_old_bit. destruct (N.testbit (sp_terms s) t) eqn:Eb; cbn [negb andb]; [rewrite Eb; reflexivity|].
  destruct (rejects maxw pm cp s); cbn [negb andb sp_terms].
  - rewrite N.land_spec, wnot_bit by (apply pow2_lt_W64; exact Ht). rewrite N.pow2_bits_true. cbn [negb]. rewrite !andb_false_r. reflexivity.
  - rewrite N.lor_spec, N.pow2_bits_true, orb_true_r. reflexivity.
Qed.

Lemma phi_step t c spans : t < 64 -> phi t (stepT nt maxw t c spans) = S (phi t spans).
Proof.
  intros Ht. unfold phi, lack, stepT, step_spans. set (pm := pmask (Z.of_N c)). set (cp := Z.of_N c).
  rewrite filter_app, !app_length. cbn [filter length].
  assert (Hfresh : lacks t (fresh_span (2 ^ t) pm cp) = false).
  { unfold lacks, fresh_span. cbn [sp_terms]. rewrite N.pow2_bits_true. reflexivity. }
  rewrite Hfresh.
  assert (Hcopies : forall l, filter (lacks t) (map (upd_c (2 ^ t) pm) l) = []).
  { induction l as [|s l IH]; cbn [map filter]; [reflexivity|]. rewrite IH.
    unfold lacks at 1, upd_c. cbn [sp_terms]. rewrite N.lor_spec, N.pow2_bits_true, orb_true_r. reflexivity. }
  rewrite Hcopies. cbn [length]. rewrite !map_length.
  assert (Hbal : (length (filter (lacks t) (map (upd_s nt maxw (2 ^ t) pm cp) spans))
                  + length (filter (forks nt maxw (2 ^ t) pm cp) spans) = length (filter (lacks t) spans))%nat).
  { induction spans as [|s l IH]; cbn [map filter length]; [reflexivity|].
    rewrite lacks_upd_s by exact Ht.
    destruct (forks nt maxw (2 ^ t) pm cp s) eqn:Ef.
    - rewrite (forks_lacks _ _ _ _ Ef). cbn [negb andb length]. lia.
    - rewrite andb_true_r. destruct (lacks t s); cbn [length]; lia. }
  lia.
Qed.

Lemma forks_le_lack t pm cp spans : (length (filter (forks nt maxw (2 ^ t) pm cp) spans) <= lack t spans)%nat.
Proof.
  unfold lack. induction spans as [|s l IH]; cbn [filter length]; [lia|].
  destruct (forks nt maxw (2 ^ t) pm cp s) eqn:Ef.
  - rewrite (forks_lacks _ _ _ _ Ef). cbn [length]. lia.
  - destruct (lacks t s); cbn [length]; lia.
Qed.

Lemma phi_run t : t < 64 -> forall cs spans, phi t (run_term nt maxw t spans cs) = (phi t spans + length cs)%nat.
Proof.
  intros Ht. induction cs as [|c cs IH]; intros spans; cbn [run_term fold_left length]; [lia|].
  change (fold_left (fun sp c0 => stepT nt maxw t c0 sp) cs (stepT nt maxw t c spans)) with (run_term nt maxw t (stepT nt maxw t c spans) cs).
  rewrite IH, phi_step by exact Ht. lia.
Qed.

Lemma len_le_phi t spans : (length spans <= phi t spans)%nat.
Proof. unfold phi. lia. Qed.
Lemma phi_le_2len t spans : (phi t spans <= 2 * length spans)%nat.
Proof. unfold phi. pose proof (lack_le t spans). lia. Qed.
End Size.

(* ---------- T1: the pure table keeps the exact occurrence ---------- *)
Theorem span_table_keeps_exact nt maxw p evs :
  1 <= nt -> nt <= 64 -> (Z.of_N nt <= maxw)%Z -> p + nt <= 31 ->
  N.of_nat (length evs) = nt -> Forall (Forall (fun c => c < 31)) evs ->
  (forall k, (k < length evs)%nat -> In (p + N.of_nat k) (nth k evs [])) ->
  collect (run_terms nt maxw 0 evs []) nt maxw <> [].
Proof.
  intros H1 H64 Hw Hp Hlen HF Hocc.
  destruct (good_opt_terms nt maxw p H64 Hw Hp evs 0 []) as (G & HIn & HG).
  - lia.
  - destruct evs; [cbn in Hlen; lia|discriminate].
  - exact HF.
  - intros k Hk. rewrite N.add_0_r. apply Hocc. exact Hk.
  - left. split; reflexivity.
  - assert (Hfin : is_complete G nt = true /\ sp_width G = 0%Z) by (eapply good_final; eassumption).
    destruct Hfin as [Hc Hwd].
    apply (collect_nonempty nt maxw _ G HIn Hc). rewrite Hwd. lia.
Qed.

(* the table never fills when every term has at most C positions in the document and (2^n - 1) * C < 512 *)
Fixpoint fits (nt : N) (maxw : Z) (t : N) (evs : list (list N)) (spans : list span) : Prop :=
  match evs with
  | [] => True
  | cs :: rest => (phi t spans + length cs < 512)%nat /\ fits nt maxw (t + 1) rest (run_term nt maxw t spans cs)
  end.

Lemma fits_bound nt maxw C : forall evs t spans, t + N.of_nat (length evs) <= 64 ->
  Forall (fun cs => (length cs <= C)%nat) evs ->
  (2 ^ length evs * length spans + (2 ^ length evs - 1) * C < 512)%nat ->
  fits nt maxw t evs spans.
Proof.
  induction evs as [|cs rest IH]; intros t spans Ht HF Hb; cbn [fits]; [exact I|].
  inversion HF as [|? ? Hcs HF']; subst. cbn [length] in Hb, Ht. rewrite Nat.pow_succ_r' in Hb.
  pose proof (phi_le_2len t spans) as Hphi.
  assert (Hpow : (1 <= 2 ^ length rest)%nat) by (apply Nat.neq_0_lt_0, Nat.pow_nonzero; lia).
  split; [nia|].
  apply IH; [lia|exact HF'|].
  pose proof (len_le_phi t (run_term nt maxw t spans cs)) as Hl. rewrite phi_run in Hl by lia.
  nia.
Qed.

(* ---------- L2: the model loops compute the pure fold while the table has room ---------- *)
Lemma bind_inv' {A B} (r : result A) (f : A -> result B) b :
  bind r f = Done b -> exists a, r = Done a /\ f a = Done b.
Proof. destruct r; cbn; intro H; try discriminate. eauto. Qed.

Lemma pop_clear_pos' : forall p, popcount (N.land (Npos p) (Pos.pred_N p)) + 1 = pop_pos p.
Proof.
  induction p as [p IH|p IH|].
  - change (Pos.pred_N p~1) with (Npos p~0). change (N.land (Npos p~1) (Npos p~0)) with (Pos.Ndouble (N.land (Npos p) (Npos p))).
    rewrite N.land_diag. cbn [Pos.Ndouble popcount pop_pos]. lia.
  - change (Pos.pred_N p~0) with (Npos (Pos.pred_double p)).
    change (N.land (Npos p~0) (Npos (Pos.pred_double p))) with (Pos.land p~0 (Pos.pred_double p)).
    replace (Pos.land p~0 (Pos.pred_double p)) with (Pos.Ndouble (N.land (Npos p) (Pos.pred_N p))) by (destruct p; reflexivity).
    replace (popcount (Pos.Ndouble (N.land (N.pos p) (Pos.pred_N p)))) with (popcount (N.land (N.pos p) (Pos.pred_N p)))
      by (destruct (N.land (N.pos p) (Pos.pred_N p)); reflexivity).
    cbn [pop_pos]. exact IH.
  - reflexivity.
Qed.
Lemma pop_clear' n : n <> 0 -> popcount (N.land n (n - 1)) + 1 = popcount n.
Proof. destruct n as [|p]; [congruence|]. intros _. rewrite N.sub_1_r, <- N.pos_pred_spec. apply pop_clear_pos'. Qed.

(* the set bits in the order the loop consumes them *)
Fixpoint bits_of (fuel : nat) (term : N) : list N :=
  match fuel with
  | O => []
  | S f => if term =? 0 then [] else ctz term :: bits_of f (N.land term (term - 1))
  end.

Lemma bits_of_len : forall fuel term, (N.to_nat (popcount term) <= fuel)%nat ->
  length (bits_of fuel term) = N.to_nat (popcount term).
Proof.
  induction fuel as [|f IH]; intros term H; cbn [bits_of].
  - cbn [length]. lia.
  - destruct (N.eqb_spec term 0) as [->|Hne]; [reflexivity|].
    pose proof (pop_clear' term Hne). cbn [length]. rewrite IH by lia. lia.
Qed.

Section BitsLoop.
Variables (nt : N) (maxw : Z) (t : N) (base : N).
Hypothesis Ht : t < 64.

Lemma bits_loop_pure : forall fuel term spans,
  (N.to_nat (popcount term) < fuel)%nat ->
  (phi t spans + N.to_nat (popcount term) < 512)%nat ->
  bits_loop fuel term (Z.of_N base) (2 ^ t) nt maxw spans false =
    Done (run_term nt maxw t spans (map (fun b => b + base) (bits_of fuel term)), false).
Proof.
  induction fuel as [|f IH]; intros term spans Hf Hphi; [lia|].
  cbn [bits_loop bits_of]. destruct (N.eqb_spec term 0) as [->|Hne]; [reflexivity|].
  pose proof (pop_clear' term Hne) as Hpc.
  pose proof (len_le_phi t spans) as Hlen.
  assert (Hcap : (SPAN_CAP <=? N.of_nat (length spans)) = false).
  { apply N.leb_gt. unfold SPAN_CAP, src_span_cap. lia. }
  rewrite Hcap. cbv zeta.
  rewrite wr_ok_lt by (unfold SPAN_CAP, src_span_cap; lia). cbn [bind].
  rewrite <- N2Z.inj_add.
  set (c := ctz term + base).
  rewrite update_spans_pure.
  2:{ pose proof (forks_le_lack nt maxw t (pmask (Z.of_N c)) (Z.of_N c) spans) as Hfk. unfold phi in *.
      unfold SPAN_CAP, src_span_cap. lia. }
  change (map (upd_s nt maxw (2 ^ t) (pmask (Z.of_N c)) (Z.of_N c)) spans ++
          {| sp_terms := 2 ^ t; sp_posns := pmask (Z.of_N c); sp_beg := Z.of_N c; sp_end := Z.of_N c |}
          :: map (upd_c (2 ^ t) (pmask (Z.of_N c))) (filter (forks nt maxw (2 ^ t) (pmask (Z.of_N c)) (Z.of_N c)) spans))
    with (stepT nt maxw t c spans).
  pose proof (phi_step nt maxw t c spans Ht) as Hstep.
  pose proof (len_le_phi t (stepT nt maxw t c spans)) as Hlen'.
  assert (Hcap' : (SPAN_CAP <=? N.of_nat (length (stepT nt maxw t c spans))) = false).
  { apply N.leb_gt. unfold SPAN_CAP, src_span_cap. lia. }
  rewrite Hcap'.
  replace (if existsb (forks nt maxw (2 ^ t) (pmask (Z.of_N c)) (Z.of_N c)) spans then false else false) with false
    by (destruct (existsb _ spans); reflexivity).
  rewrite IH by lia. cbn [map run_term fold_left]. reflexivity.
Qed.
End BitsLoop.

Lemma pc_lt_pow2 : forall k x, x < 2 ^ k -> popcount x <= k.
Proof.
  induction k as [|k IH] using N.peano_ind; intros x Hx.
  - change (2 ^ 0) with 1 in Hx. assert (x = 0) by lia. subst. cbn. lia.
  - rewrite N.pow_succ_r' in Hx. rewrite (N.div2_odd x). rewrite pc_2b.
    assert (N.div2 x < 2 ^ k). { rewrite (N.div2_odd x) in Hx. destruct (N.odd x); cbn [N.b2n] in Hx; lia. }
    specialize (IH _ H). destruct (N.odd x); cbn [N.b2n]; lia.
Qed.

Definition wbase (w : N) : N := N.shiftr (N.land w payload_msb_mask) lsb_bits * lsb_bits.
Definition wpay (w : N) : N := N.land w (wnot header_mask).
Definition wcs (w : N) : list N := map (fun b => b + wbase w) (bits_of 70 (wpay w)).

Lemma wcs_eq w : map (fun b => b + wbase w) (bits_of 70 (wpay w)) = wcs w.
Proof. unfold wcs. reflexivity. Qed.
Lemma wpay_lt w : wpay w < 2 ^ 18.
Proof.
  unfold wpay. replace (wnot header_mask) with (N.ones 18) by (vm_compute; reflexivity).
  rewrite N.land_ones. apply N.mod_lt. discriminate.
Qed.
Lemma wpay_pc w : popcount (wpay w) <= 18.
Proof. apply pc_lt_pow2. apply wpay_lt. Qed.
Lemma wcs_len w : length (wcs w) = N.to_nat (popcount (wpay w)).
Proof. unfold wcs. rewrite map_length. apply bits_of_len. pose proof (wpay_pc w). lia. Qed.

Lemma run_term_app nt maxw t spans l1 l2 :
  run_term nt maxw t spans (l1 ++ l2) = run_term nt maxw t (run_term nt maxw t spans l1) l2.
Proof. unfold run_term. apply fold_left_app. Qed.

(* [bits_loop 70] sealed: conversion checks must never normalise it (2^70 blow-up otherwise) *)
Definition BL70 : {f : N -> Z -> N -> N -> Z -> list span -> bool -> result (list span * bool) | f = bits_loop 70}.
Proof. exists (bits_loop 70). reflexivity. Qed.
Definition bl70 := proj1_sig BL70.
Lemma bl70_eq : bl70 = bits_loop 70.
Proof. exact (proj2_sig BL70). Qed.

Lemma fits_cons nt maxw t cs rest spans :
  fits nt maxw t (cs :: rest) spans = ((phi t spans + length cs < 512)%nat /\ fits nt maxw (t + 1) rest (run_term nt maxw t spans cs)).
Proof. reflexivity. Qed.
Lemma run_terms_cons nt maxw t cs rest spans :
  run_terms nt maxw t (cs :: rest) spans = run_terms nt maxw (t + 1) rest (run_term nt maxw t spans cs).
Proof. reflexivity. Qed.

Section Nav.
Variables (P : mem) (g : N -> N) (n : N).
Hypothesis rdP : forall i, i < n -> rd 0 P i = Done (g i).
Variables (nt : N) (maxw : Z).

Lemma words_loop_S f hi tord spans full lk ck idx sum :
  words_loop P (S f) hi tord nt maxw
    {| ts_spans := spans; ts_full := full; ts_last_key := lk; ts_curr_key := ck; ts_idx := idx; ts_sum := sum |} =
  if idx <? hi then
    do w <- rd 0 P idx;
    do bl <- bl70 (wpay w) (Z.of_N (wbase w)) (N.shiftl 1 tord) nt maxw spans full;
    let '(spans1, full1) := bl in
    do ck1 <- (if idx + 1 <? hi then do w2 <- rd 0 P (idx + 1); Done (dkey w2) else Done ck);
    do cg <- (if SPAN_CAP <=? N.of_nat (length spans1) then
                let sp2 := compact spans1 maxw in
                if SPAN_CAP <=? N.of_nat (length sp2) then
                  do g0 <- give_up P (S (N.to_nat (hi - (idx + 1)))) (idx + 1) hi ck ck1;
                  Done (sp2, match fst g0 with Some i => i | None => idx + 1 end, snd g0)
                else Done (sp2, idx + 1, ck1)
              else Done (spans1, idx + 1, ck1));
    let '(spans2, idx2, ck2) := cg in
    let st' := {| ts_spans := spans2; ts_full := full1; ts_last_key := ck; ts_curr_key := ck2; ts_idx := idx2;
                  ts_sum := sum + popcount (wpay w) |} in
    if negb (ck2 =? ck) then Done st' else words_loop P f hi tord nt maxw st'
  else Done {| ts_spans := spans; ts_full := full; ts_last_key := lk; ts_curr_key := ck; ts_idx := idx; ts_sum := sum |}.
Proof. rewrite bl70_eq. reflexivity. Qed.

(* ---- general facts (any document, any table state): the loops only move over words of the current key ---- *)
Lemma give_up_spec : forall fuel i hi lk ck r, hi <= n -> give_up P fuel i hi lk ck = Done r ->
  match fst r with
  | Some i' => i <= i' /\ i' < hi /\ dkey (g i') <> lk /\ snd r = dkey (g i') /\ (forall j, i <= j -> j < i' -> dkey (g j) = lk)
  | None => (forall j, i <= j -> j < hi -> dkey (g j) = lk) /\ (snd r = lk \/ (hi <= i /\ snd r = ck))
  end.
Proof.
  induction fuel as [|f IH]; intros i hi lk ck r Hhi H; cbn [give_up] in H; [discriminate|].
  destruct (N.ltb_spec i hi) as [Hlt|Hge].
  - rewrite rdP in H by lia. cbn [bind] in H.
    destruct (N.eqb_spec (dkey (g i)) lk) as [E|E]; cbn [negb] in H.
    + apply IH in H; [|exact Hhi]. destruct (fst r) as [i'|].
      * destruct H as (H1 & H2 & H3 & H4 & H5). repeat split; try assumption; [lia|].
        intros j Hj1 Hj2. destruct (N.eq_dec j i) as [->|Hne]; [exact E|apply H5; lia].
      * destruct H as [H1 H2]. split.
        -- intros j Hj1 Hj2. destruct (N.eq_dec j i) as [->|Hne]; [exact E|apply H1; lia].
        -- left. destruct H2 as [H2|[_ H2]]; [exact H2|]. rewrite H2. exact E.
    + injection H as <-. cbn [fst snd]. repeat split; try assumption; try lia.
  - injection H as <-. cbn [fst snd]. split; [intros j Hj1 Hj2; lia|]. right. split; [lia|reflexivity].
Qed.

Lemma words_loop_gen tord : forall fuel hi st st', hi <= n ->
  (ts_idx st < hi -> dkey (g (ts_idx st)) = ts_curr_key st) ->
  words_loop P fuel hi tord nt maxw st = Done st' ->
  ts_idx st <= ts_idx st' /\ (ts_idx st < hi -> ts_idx st < ts_idx st') /\ (ts_idx st' <= N.max hi (ts_idx st)) /\
  forall j, ts_idx st <= j -> j < ts_idx st' -> dkey (g j) = ts_curr_key st.
Proof.
  induction fuel as [|f IH]; intros hi st st' Hhi Hinv H; [discriminate|].
  destruct st as [spans full lk ck idx sum]. cbn [ts_idx ts_curr_key] in *. rewrite words_loop_S in H.
  destruct (N.ltb_spec idx hi) as [Hlt|Hge].
  2:{ injection H as <-. cbn [ts_idx]. repeat split; try lia. }
  specialize (Hinv Hlt).
  rewrite rdP in H by lia. cbn [bind] in H.
  destruct (bl70 (wpay (g idx)) (Z.of_N (wbase (g idx))) (N.shiftl 1 tord) nt maxw spans full) as [[spans1 full1]| |] eqn:Ebl;
    cbn [bind] in H; try discriminate.
  set (ck1 := if idx + 1 <? hi then dkey (g (idx + 1)) else ck).
  assert (Eck : (if idx + 1 <? hi then do w2 <- rd 0 P (idx + 1); Done (dkey w2) else Done ck) = Done ck1).
  { unfold ck1. destruct (N.ltb_spec (idx + 1) hi); [rewrite rdP by lia|]; reflexivity. }
  rewrite Eck in H. cbn [bind] in H.
  (* what the compaction / give-up step returns *)
  assert (Hcg : forall spans2 idx2 ck2 rest,
     (idx2 = idx + 1 /\ ck2 = ck1) \/
     (ck2 <> ck /\ idx + 1 <= idx2 /\ idx2 < hi /\ ck2 = dkey (g idx2) /\ (forall j, idx + 1 <= j -> j < idx2 -> dkey (g j) = ck)) \/
     (idx2 = idx + 1 /\ ck2 = ck /\ (forall j, idx + 1 <= j -> j < hi -> dkey (g j) = ck)) ->
     (if negb (ck2 =? ck) then Done rest else words_loop P f hi tord nt maxw
         {| ts_spans := spans2; ts_full := full1; ts_last_key := ck; ts_curr_key := ck2; ts_idx := idx2;
            ts_sum := sum + popcount (wpay (g idx)) |}) = Done st' ->
     rest = {| ts_spans := spans2; ts_full := full1; ts_last_key := ck; ts_curr_key := ck2; ts_idx := idx2;
               ts_sum := sum + popcount (wpay (g idx)) |} ->
     idx <= ts_idx st' /\ (idx < hi -> idx < ts_idx st') /\ ts_idx st' <= N.max hi idx /\
     forall j, idx <= j -> j < ts_idx st' -> dkey (g j) = ck).
  { intros spans2 idx2 ck2 rest Hcases Hrun ->.
    destruct (N.eqb_spec ck2 ck) as [E|E]; cbn [negb] in Hrun.
    - (* the loop goes on with the next word of the same key *)
      subst ck2. apply IH in Hrun; [|exact Hhi|]; cbn [ts_idx ts_curr_key] in *.
      + destruct Hrun as (R1 & R2 & R3 & R4).
        assert (Hidx2 : idx2 = idx + 1) by (destruct Hcases as [[? _]|[[? _]|[? _]]]; [assumption|congruence|assumption]).
        subst idx2. repeat split; try lia. intros j Hj1 Hj2.
        destruct (N.eq_dec j idx) as [->|Hne]; [exact Hinv|apply R4; lia].
      + intros Hlt2. destruct Hcases as [[-> Hck]|[[Hne _]|[-> [_ Hall]]]]; [|congruence|apply Hall; lia].
        unfold ck1 in Hck. destruct (N.ltb_spec (idx + 1) hi); [congruence|lia].
    - injection Hrun as <-. cbn [ts_idx].
      destruct Hcases as [[-> Hck]|[(_ & H1 & H2 & H3 & H4)|[_ [Hck _]]]]; [| |congruence].
      + repeat split; try lia. intros j Hj1 Hj2. assert (j = idx) by lia. subst j. exact Hinv.
      + repeat split; try lia. intros j Hj1 Hj2. destruct (N.eq_dec j idx) as [->|Hne]; [exact Hinv|apply H4; lia]. }
  destruct (SPAN_CAP <=? N.of_nat (length spans1)).
  - cbv zeta in H. destruct (SPAN_CAP <=? N.of_nat (length (compact spans1 maxw))).
    + destruct (give_up P (S (N.to_nat (hi - (idx + 1)))) (idx + 1) hi ck ck1) as [g0| |] eqn:Eg; cbn [bind] in H; try discriminate.
      apply give_up_spec in Eg; [|exact Hhi]. destruct g0 as [[i'|] k']; cbn [fst snd] in *.
      * destruct Eg as (G1 & G2 & G3 & G4 & G5). eapply Hcg; [|exact H|reflexivity].
        right. left. subst k'. repeat split; assumption.
      * destruct Eg as [G1 G2]. eapply Hcg; [|exact H|reflexivity].
        destruct G2 as [G2|[G2 G3]].
        -- right. right. repeat split; assumption.
        -- left. split; [reflexivity|exact G3].
    + cbn [bind] in H. eapply Hcg; [|exact H|reflexivity]. left. split; reflexivity.
  - cbn [bind] in H. eapply Hcg; [|exact H|reflexivity]. left. split; reflexivity.
Qed.

Lemma skip_earlier_spec : forall fuel i hi dk i', hi <= n -> skip_earlier P fuel i hi dk = Done i' ->
  i <= i' /\ i' <= N.max hi i /\ (forall j, i <= j -> j < i' -> dkey (g j) < dk) /\ (i' < hi -> dk <= dkey (g i')).
Proof.
  induction fuel as [|f IH]; intros i hi dk i' Hhi H; cbn [skip_earlier] in H; [discriminate|].
  destruct (N.ltb_spec i hi) as [Hlt|Hge].
  - rewrite rdP in H by lia. cbn [bind] in H. destruct (N.ltb_spec (dkey (g i)) dk) as [Hk|Hk].
    + apply IH in H; [|exact Hhi]. destruct H as (H1 & H2 & H3 & H4).
      split; [lia|]. split; [lia|]. split; [|exact H4].
      intros j Hj1 Hj2. destruct (N.eq_dec j i) as [->|Hne]; [exact Hk|apply H3; lia].
    + injection H as <-. split; [lia|]. split; [lia|]. split; [intros j Hj1 Hj2; lia|]. intros _. exact Hk.
  - injection H as <-. split; [lia|]. split; [lia|]. split; intros; lia.
Qed.

End Nav.

Section Words.
Variables (P : mem) (g : N -> N) (n : N).
Hypothesis rdP : forall i, i < n -> rd 0 P i = Done (g i).
Variables (nt : N) (maxw : Z) (t : N).
Hypothesis Ht : t < 64.

Fixpoint wrun (a : N) (m : nat) : list N :=
  match m with O => [] | S m' => wcs (g a) ++ wrun (a + 1) m' end.

Lemma wrun_S a m : wrun a (S m) = wcs (g a) ++ wrun (a + 1) m.
Proof. reflexivity. Qed.

Lemma wrun_0 a : wrun a 0 = [].
Proof. reflexivity. Qed.

(* one word of the target document, the table having room *)
Lemma words_loop_word f hi a spans lk d sum : a < hi -> hi <= n ->
  (phi t spans + N.to_nat (popcount (wpay (g a))) < 512)%nat ->
  words_loop P (S f) hi t nt maxw
    {| ts_spans := spans; ts_full := false; ts_last_key := lk; ts_curr_key := d; ts_idx := a; ts_sum := sum |} =
  let sp1 := run_term nt maxw t spans (wcs (g a)) in
  let ck := if a + 1 <? hi then dkey (g (a + 1)) else d in
  let st' := {| ts_spans := sp1; ts_full := false; ts_last_key := d; ts_curr_key := ck; ts_idx := a + 1;
                ts_sum := sum + popcount (wpay (g a)) |} in
  if negb (ck =? d) then Done st' else words_loop P f hi t nt maxw st'.
Proof.
  intros Ha Hhi Hphi. rewrite (words_loop_S P nt maxw).
  assert (Hlt : (a <? hi) = true) by (apply N.ltb_lt; lia). rewrite Hlt.
  rewrite rdP by lia. cbn [bind]. rewrite N.shiftl_1_l.
  pose proof (wpay_pc (g a)) as Hpc.
  rewrite bl70_eq, (bits_loop_pure nt maxw t (wbase (g a)) Ht) by lia. cbn [bind].
  rewrite wcs_eq.
  assert (Hcap : (SPAN_CAP <=? N.of_nat (length (run_term nt maxw t spans (wcs (g a))))) = false).
  { apply N.leb_gt. pose proof (len_le_phi t (run_term nt maxw t spans (wcs (g a)))) as Hl.
    rewrite phi_run in Hl by exact Ht. rewrite wcs_len in Hl. unfold SPAN_CAP, src_span_cap. lia. }
  destruct (N.ltb_spec (a + 1) hi) as [Hlt1|Hge1].
  - rewrite rdP by lia. cbn [bind]. rewrite Hcap. cbn [bind]. reflexivity.
  - cbn [bind]. rewrite Hcap. cbn [bind]. reflexivity.
Qed.

Lemma words_loop_end f hi st : hi <= ts_idx st -> words_loop P (S f) hi t nt maxw st = Done st.
Proof.
  intros H. destruct st as [sp fl lk ck idx sm]. rewrite (words_loop_S P nt maxw). cbn [ts_idx] in H.
  assert (E : (idx <? hi) = false) by (apply N.ltb_ge; exact H). rewrite E. reflexivity.
Qed.

Lemma words_loop_pure d hi : hi <= n -> forall m fuel a spans sum lk,
  (S m < fuel)%nat -> a + N.of_nat (S m) <= hi ->
  (forall k, (k <= m)%nat -> dkey (g (a + N.of_nat k)) = d) ->
  (a + N.of_nat (S m) = hi \/ dkey (g (a + N.of_nat (S m))) <> d) ->
  (phi t spans + length (wrun a (S m)) < 512)%nat ->
  exists st', words_loop P fuel hi t nt maxw
      {| ts_spans := spans; ts_full := false; ts_last_key := lk; ts_curr_key := d; ts_idx := a; ts_sum := sum |} = Done st' /\
    ts_spans st' = run_term nt maxw t spans (wrun a (S m)) /\ ts_full st' = false /\ ts_idx st' = a + N.of_nat (S m).
Proof.
  intros Hhi. induction m as [|m IH]; intros fuel a spans sum lk Hfuel Ha Hkeys Hend Hphi;
    (destruct fuel as [|fuel]; [lia|]); rewrite (wrun_S a) in Hphi; rewrite app_length, wcs_len in Hphi;
    rewrite (wrun_S a); rewrite words_loop_word by lia; cbv zeta.
  - (* last word of the run *)
    rewrite wrun_0, app_nil_r. replace (a + N.of_nat 1) with (a + 1) in * by lia.
    destruct (N.ltb_spec (a + 1) hi) as [Hlt1|Hge1].
    + destruct Hend as [Hend|Hend]; [lia|].
      destruct (N.eqb_spec (dkey (g (a + 1))) d) as [E|_]; [congruence|]. cbn [negb].
      eexists. split; [reflexivity|]. cbn [ts_spans ts_full ts_idx]. split; [reflexivity|]. split; reflexivity.
    + rewrite N.eqb_refl. cbn [negb]. destruct fuel as [|fuel]; [lia|].
      rewrite words_loop_end by (cbn [ts_idx]; lia).
      eexists. split; [reflexivity|]. cbn [ts_spans ts_full ts_idx]. split; [reflexivity|]. split; reflexivity.
  - (* a word followed by more words of the same document *)
    assert (Hlt1 : (a + 1 <? hi) = true) by (apply N.ltb_lt; lia). rewrite Hlt1.
    assert (Hk1 : dkey (g (a + 1)) = d). { specialize (Hkeys 1%nat ltac:(lia)). replace (a + N.of_nat 1) with (a + 1) in Hkeys by lia. exact Hkeys. }
    rewrite Hk1, N.eqb_refl. cbn [negb].
    destruct (IH fuel (a + 1) (run_term nt maxw t spans (wcs (g a))) (sum + popcount (wpay (g a))) d) as (st' & Hrun & Hs & Hf & Hi).
    + lia.
    + lia.
    + intros k Hk. specialize (Hkeys (S k) ltac:(lia)). replace (a + 1 + N.of_nat k) with (a + N.of_nat (S k)) by lia. exact Hkeys.
    + replace (a + 1 + N.of_nat (S m)) with (a + N.of_nat (S (S m))) by lia. exact Hend.
    + rewrite phi_run by exact Ht. rewrite wcs_len. lia.
    + exists st'. split; [exact Hrun|]. split; [|split; [exact Hf|lia]].
      rewrite Hs. rewrite run_term_app. reflexivity.
Qed.

End Words.

Section Terms.
Variables (P : mem) (g : N -> N) (n : N).
Hypothesis rdP : forall i, i < n -> rd 0 P i = Done (g i).
Variables (nt : N) (maxw : Z).
(* ---- the per-term cursors with respect to the target document d ---- *)
Variable d : N.
(* cursor idx of a term whose words of document d are g a .. g (a+m-1), inside its segment ending at hi *)
Definition term_ok (idx hi : N) (am : N * nat) : Prop :=
  let '(a, m) := am in
  idx <= a /\ (forall j, idx <= j -> j < a -> dkey (g j) < d) /\ a + N.of_nat m <= hi /\ hi <= n /\ (1 <= m)%nat /\
  (forall k, (k < m)%nat -> dkey (g (a + N.of_nat k)) = d) /\ (a + N.of_nat m = hi \/ dkey (g (a + N.of_nat m)) <> d).

Inductive TL : list N -> list N -> list (N * nat) -> Prop :=
| TL_nil : TL [] [] []
| TL_cons idx hi am idxs his ams : term_ok idx hi am -> TL idxs his ams -> TL (idx :: idxs) (hi :: his) (am :: ams).

Lemma terms_loop_S hi lrest i0 irest tord dk spans full lk sums ap :
  terms_loop P (hi :: lrest) tord (i0 :: irest) nt maxw dk spans full lk sums ap =
  do i <- skip_earlier P (S (N.to_nat (hi - i0))) i0 hi dk;
  do st <- (if hi <=? i then
              Done ({| ts_spans := spans; ts_full := full; ts_last_key := lk; ts_curr_key := 0; ts_idx := i; ts_sum := 0 |}, false)
            else
              do w0 <- rd 0 P i;
              if negb (dkey w0 =? dk) then
                Done ({| ts_spans := spans; ts_full := full; ts_last_key := lk; ts_curr_key := dkey w0; ts_idx := i; ts_sum := 0 |}, false)
              else
                do s <- words_loop P (S (N.to_nat (hi - i))) hi tord nt maxw
                          {| ts_spans := spans; ts_full := full; ts_last_key := lk; ts_curr_key := dkey w0; ts_idx := i; ts_sum := 0 |};
                Done (s, true));
  let '(stt, present) := st in
  do r <- terms_loop P lrest (tord + 1) irest nt maxw dk (ts_spans stt) (ts_full stt) (ts_last_key stt)
            (sums ++ [ts_sum stt]) (andb ap present);
  let '(idxs', sp', f', lk', sums', ap') := r in
  Done (ts_idx stt :: idxs', sp', f', lk', sums', ap').
Proof. reflexivity. Qed.

(* an earlier document: every cursor stays at or before the first word of document d *)
Lemma terms_loop_gen : forall his idxs ams tord dk spans full lk sums ap idxs' sp' f' lk' sums' ap',
  dk < d -> TL idxs his ams ->
  terms_loop P his tord idxs nt maxw dk spans full lk sums ap = Done (idxs', sp', f', lk', sums', ap') ->
  TL idxs' his ams /\
  match idxs, idxs' with i0 :: _, i0' :: _ => dkey (g i0) = dk -> i0 < i0' | _, _ => True end.
Proof.
  induction his as [|hi lrest IH]; intros idxs ams tord dk spans full lk sums ap idxs' sp' f' lk' sums' ap' Hdk HTL H.
  - inversion HTL; subst. cbn [terms_loop] in H. injection H as <- <- <- <- <- <-. split; [constructor|exact I].
  - inversion HTL as [|idx hi' am idxs0 his0 ams0 Hok HTL']; subst. rewrite terms_loop_S in H.
    destruct am as [a m]. destruct Hok as (O1 & O2 & O3 & O4 & O5 & O6 & O7).
    destruct (skip_earlier P (S (N.to_nat (hi - idx))) idx hi dk) as [i| |] eqn:Esk; cbn [bind] in H; try discriminate.
    apply (skip_earlier_spec P g n rdP) in Esk; [|exact O4]. destruct Esk as (S1 & S2 & S3 & S4).
    assert (Ha_d : dkey (g a) = d). { specialize (O6 0%nat ltac:(lia)). rewrite N.add_0_r in O6. exact O6. }
    assert (Hia : i <= a).
    { destruct (N.le_gt_cases i a) as [Hle|Hgt]; [exact Hle|]. specialize (S3 a O1 Hgt). lia. }
    assert (Hlt : (hi <=? i) = false) by (apply N.leb_gt; lia). rewrite Hlt in H.
    rewrite rdP in H by lia. cbn [bind] in H.
    assert (Hpre : forall j, i <= j -> j < a -> dkey (g j) < d) by (intros j Hj1 Hj2; apply O2; lia).
    (* the state after this term *)
    assert (Hstt : forall stt present rest,
       (let '(stt, present) := (stt, present) in
        do r <- terms_loop P lrest (tord + 1) idxs0 nt maxw dk (ts_spans stt) (ts_full stt) (ts_last_key stt)
                  (sums ++ [ts_sum stt]) (andb ap present);
        let '(idxs', sp', f', lk', sums', ap') := r in Done (ts_idx stt :: idxs', sp', f', lk', sums', ap'))
         = Done (idxs', sp', f', lk', sums', ap') ->
       i <= ts_idx stt -> ts_idx stt <= a -> (dkey (g idx) = dk -> idx < ts_idx stt) -> rest = tt ->
       TL idxs' (hi :: lrest) ((a, m) :: ams0) /\
       match idxs' with i0' :: _ => dkey (g idx) = dk -> idx < i0' | _ => True end).
    { intros stt present rest Hr Hi1 Hi2 Hprog _.
      destruct (terms_loop P lrest (tord + 1) idxs0 nt maxw dk (ts_spans stt) (ts_full stt) (ts_last_key stt)
                  (sums ++ [ts_sum stt]) (andb ap present)) as [[[[[[idxs1 sp1] f1] lk1] sums1] ap1]| |] eqn:Er;
        cbn [bind] in Hr; try discriminate.
      injection Hr as <- <- <- <- <- <-.
      eapply IH in Er; [|exact Hdk|exact HTL']. destruct Er as [HTL1 _].
      split; [|exact Hprog]. constructor; [|exact HTL1].
      repeat split; try assumption; try lia. intros j Hj1 Hj2. apply O2; lia. }
    destruct (N.eqb_spec (dkey (g i)) dk) as [Ek|Ek]; cbn [negb] in H.
    + destruct (words_loop P (S (N.to_nat (hi - i))) hi tord nt maxw
                 {| ts_spans := spans; ts_full := full; ts_last_key := lk; ts_curr_key := dkey (g i); ts_idx := i; ts_sum := 0 |})
        as [s1| |] eqn:Ew; cbn [bind] in H; try discriminate.
      apply (words_loop_gen P g n rdP) in Ew; [|exact O4|cbn [ts_idx ts_curr_key]; reflexivity].
      cbn [ts_idx ts_curr_key] in Ew. destruct Ew as (W1 & W2 & W3 & W4).
      apply (Hstt s1 true tt); [exact H|exact W1| |intros _; specialize (W2 ltac:(lia)); lia|reflexivity].
      destruct (N.le_gt_cases (ts_idx s1) a) as [Hle|Hgt]; [exact Hle|].
      specialize (W4 a Hia Hgt). lia.
    + apply (Hstt {| ts_spans := spans; ts_full := full; ts_last_key := lk; ts_curr_key := dkey (g i); ts_idx := i; ts_sum := 0 |} false tt);
        [exact H|cbn [ts_idx]; lia|cbn [ts_idx]; exact Hia| |reflexivity].
      cbn [ts_idx]. intros Hk. destruct (N.eq_dec i idx) as [->|Hne]; [congruence|lia].
Qed.

Lemma skip_earlier_to dk : forall fuel idx hi a, a < hi -> hi <= n -> idx <= a ->
  (forall j, idx <= j -> j < a -> dkey (g j) < dk) -> dk <= dkey (g a) -> (N.to_nat (a - idx) < fuel)%nat ->
  skip_earlier P fuel idx hi dk = Done a.
Proof.
  induction fuel as [|f IH]; intros idx hi a Ha Hhi Hle Hpre Hge Hf; [lia|]. cbn [skip_earlier].
  assert (E : (idx <? hi) = true) by (apply N.ltb_lt; lia). rewrite E. rewrite rdP by lia. cbn [bind].
  destruct (N.eq_dec idx a) as [->|Hne].
  - assert (E2 : (dkey (g a) <? dk) = false) by (apply N.ltb_ge; exact Hge). rewrite E2. reflexivity.
  - assert (E2 : (dkey (g idx) <? dk) = true) by (apply N.ltb_lt; apply Hpre; lia). rewrite E2.
    apply IH; try assumption; try lia. intros j Hj1 Hj2. apply Hpre; lia.
Qed.

Lemma bind_Done {A B} (a : A) (k : A -> result B) : bind (Done a) k = k a.
Proof. reflexivity. Qed.

(* the target document: one term, present; its words are consumed into the pure fold *)
Lemma terms_loop_target_step hi lrest idx irest a m tord spans lk sums ap :
  tord < 64 -> term_ok idx hi (a, S m) -> (phi tord spans + length (wrun g a (S m)) < 512)%nat ->
  exists lk2 sm2,
  terms_loop P (hi :: lrest) tord (idx :: irest) nt maxw d spans false lk sums ap =
  do r <- terms_loop P lrest (tord + 1) irest nt maxw d (run_term nt maxw tord spans (wrun g a (S m))) false lk2 (sums ++ [sm2]) ap;
  let '(idxs', sp', f', lk', sums', ap') := r in Done (a + N.of_nat (S m) :: idxs', sp', f', lk', sums', ap').
Proof.
  intros Ht (O1 & O2 & O3 & O4 & O5 & O6 & O7) Hfit.
  assert (Ha_d : dkey (g a) = d). { specialize (O6 0%nat ltac:(lia)). rewrite N.add_0_r in O6. exact O6. }
  destruct (words_loop_pure P g n rdP nt maxw tord Ht d hi O4 m (S (N.to_nat (hi - a))) a spans 0 lk) as (st' & Hrun & Hs & Hf & Hi).
  { lia. } { exact O3. } { intros k Hk. apply O6. lia. } { exact O7. } { exact Hfit. }
  destruct st' as [sp1 fl1 lk1 ck1 idx1 sm1]. cbn [ts_spans ts_full ts_idx] in Hs, Hf, Hi. subst sp1 fl1 idx1.
  exists lk1, sm1.
  rewrite terms_loop_S.
  rewrite (skip_earlier_to d (S (N.to_nat (hi - idx))) idx hi a) by (try assumption; lia).
  rewrite bind_Done.
  assert (Hlt : (hi <=? a) = false) by (apply N.leb_gt; lia). rewrite Hlt.
  rewrite rdP by lia. rewrite bind_Done. rewrite Ha_d, N.eqb_refl. cbn [negb].
  rewrite Hrun. rewrite !bind_Done. cbv beta iota. cbn [ts_spans ts_full ts_last_key ts_sum ts_idx]. rewrite andb_true_r. reflexivity.
Qed.

(* the target document: every term is present, its words are consumed into the pure fold *)
Lemma terms_loop_target : forall his idxs ams tord spans lk sums ap idxs' sp' f' lk' sums' ap',
  tord + N.of_nat (length his) <= 64 -> TL idxs his ams ->
  fits nt maxw tord (map (fun am => wrun g (fst am) (snd am)) ams) spans ->
  terms_loop P his tord idxs nt maxw d spans false lk sums ap = Done (idxs', sp', f', lk', sums', ap') ->
  sp' = run_terms nt maxw tord (map (fun am => wrun g (fst am) (snd am)) ams) spans /\ f' = false /\ ap' = ap.
Proof.
  induction his as [|hi lrest IH]; intros idxs ams tord spans lk sums ap idxs' sp' f' lk' sums' ap' H64 HTL Hfits H.
  - inversion HTL; subst. cbn [terms_loop] in H. injection H as <- <- <- <- <- <-. cbn [map run_terms]. repeat split.
  - inversion HTL as [|idx hi' am idxs0 his0 ams0 Hok HTL']; subst.
    destruct am as [a m]. assert (Hm : (1 <= m)%nat) by (destruct Hok as (_ & _ & _ & _ & O5 & _); exact O5).
    destruct m as [|m']; [lia|].
    rewrite map_cons in Hfits |- *. cbn [fst snd] in Hfits |- *.
    rewrite fits_cons in Hfits. destruct Hfits as [Hfit1 Hfits'].
    assert (Ht : tord < 64) by (cbn [length] in H64; lia).
    destruct (terms_loop_target_step hi lrest idx idxs0 a m' tord spans lk sums ap Ht Hok Hfit1) as (lk2 & sm2 & E).
    rewrite E in H. clear E.
    destruct (terms_loop P lrest (tord + 1) idxs0 nt maxw d (run_term nt maxw tord spans (wrun g a (S m'))) false lk2
                (sums ++ [sm2]) ap) as [[[[[[idxs1 sp1] f1] lk1] sums1] ap1]| |] eqn:Er; cbn [bind] in H; try discriminate.
    injection H as <- <- <- <- <- <-.
    eapply IH in Er; [| |exact HTL'|exact Hfits'].
    + rewrite run_terms_cons. exact Er.
    + cbn [length] in H64. lia.
Qed.

(* ---- the Counter ---- *)
Lemma add_count_has k c : forall acc, exists c', In (k, c') (add_count k c acc) /\ c <= c'.
Proof.
  induction acc as [|[k0 c0] rest IH]; cbn [add_count].
  - exists c. split; [left; reflexivity|lia].
  - destruct (N.eqb_spec k k0) as [->|Hne].
    + exists (c0 + c). split; [left; reflexivity|lia].
    + destruct IH as (c' & Hin & Hle). exists c'. split; [right; exact Hin|exact Hle].
Qed.
Lemma add_count_old k c : forall acc k1 c1, In (k1, c1) acc -> exists c', In (k1, c') (add_count k c acc) /\ c1 <= c'.
Proof.
  induction acc as [|[k0 c0] rest IH]; intros k1 c1 Hin; [destruct Hin|]. cbn [add_count].
  destruct (N.eqb_spec k k0) as [->|Hne].
  - destruct Hin as [E|Hin]; [injection E as <- <-; exists (c0 + c); split; [left; reflexivity|lia]|].
    exists c1. split; [right; exact Hin|lia].
  - destruct Hin as [E|Hin]; [injection E as <- <-; exists c0; split; [left; reflexivity|lia]|].
    destruct (IH _ _ Hin) as (c' & Hin' & Hle). exists c'. split; [right; exact Hin'|exact Hle].
Qed.
Lemma add_count_keys k c : forall acc k1, In k1 (map fst (add_count k c acc)) -> k1 = k \/ In k1 (map fst acc).
Proof.
  induction acc as [|[k0 c0] rest IH]; intros k1 Hin; cbn [add_count] in Hin.
  - destruct Hin as [<-|[]]. left. reflexivity.
  - destruct (N.eqb_spec k k0) as [->|Hne]; cbn [map fst In] in *.
    + destruct Hin as [<-|Hin]; [left; reflexivity|right; right; exact Hin].
    + destruct Hin as [<-|Hin]; [right; left; reflexivity|]. apply IH in Hin. destruct Hin as [->|Hin]; [left; reflexivity|right; right; exact Hin].
Qed.
Lemma add_count_nodup k c : forall acc, NoDup (map fst acc) -> NoDup (map fst (add_count k c acc)).
Proof.
  induction acc as [|[k0 c0] rest IH]; intros Hnd; cbn [add_count].
  - cbn. constructor; [intros []|constructor].
  - cbn [map fst] in Hnd. inversion Hnd as [|? ? Hnin Hnd']; subst.
    destruct (N.eqb_spec k k0) as [->|Hne]; cbn [map fst].
    + constructor; assumption.
    + constructor; [|apply IH; exact Hnd']. intros Hin. apply add_count_keys in Hin. destruct Hin as [E|Hin]; [congruence|contradiction].
Qed.

Lemma docs_loop_S f his hi0 i0 irest acc :
  docs_loop P (S f) his hi0 (i0 :: irest) nt maxw acc =
  if i0 <? hi0 then
    do w <- rd 0 P i0;
    do r <- terms_loop P his 0 (i0 :: irest) nt maxw (dkey w) [] false 0 [] true;
    let '(idxs', spans, full, _, sums, all_present) := r in
    docs_loop P f his hi0 idxs' nt maxw
      (if negb all_present then acc
       else if full then add_count (dkey w) (min_popcount sums) acc
       else add_count (dkey w) (N.of_nat (length (collect spans nt maxw))) acc)
  else Done acc.
Proof. reflexivity. Qed.

Lemma docs_loop_mono : forall fuel his hi0 idxs acc res, docs_loop P fuel his hi0 idxs nt maxw acc = Done res ->
  (forall k c, In (k, c) acc -> exists c', In (k, c') res /\ c <= c') /\ (NoDup (map fst acc) -> NoDup (map fst res)).
Proof.
  induction fuel as [|f IH]; intros his hi0 idxs acc res H; [discriminate|].
  destruct idxs as [|i0 irest]; [cbn [docs_loop] in H; injection H as <-; split; [intros k c Hin; exists c; split; [exact Hin|lia]|auto]|].
  rewrite docs_loop_S in H. destruct (i0 <? hi0).
  2:{ injection H as <-. split; [intros k c Hin; exists c; split; [exact Hin|lia]|auto]. }
  destruct (rd 0 P i0) as [w| |]; cbn [bind] in H; try discriminate.
  destruct (terms_loop P his 0 (i0 :: irest) nt maxw (dkey w) [] false 0 [] true) as [[[[[[idxs1 sp1] f1] lk1] sums1] ap1]| |];
    cbn [bind] in H; try discriminate.
  apply IH in H. destruct H as [H1 H2].
  destruct ap1; cbn [negb] in *; [|split; assumption].
  destruct f1.
  - split.
    + intros k c Hin. destruct (add_count_old (dkey w) (min_popcount sums1) acc k c Hin) as (c1 & Hin1 & Hle1).
      destruct (H1 _ _ Hin1) as (c2 & Hin2 & Hle2). exists c2. split; [exact Hin2|lia].
    + intros Hnd. apply H2. apply add_count_nodup. exact Hnd.
  - split.
    + intros k c Hin. destruct (add_count_old (dkey w) (N.of_nat (length (collect sp1 nt maxw))) acc k c Hin) as (c1 & Hin1 & Hle1).
      destruct (H1 _ _ Hin1) as (c2 & Hin2 & Hle2). exists c2. split; [exact Hin2|lia].
    + intros Hnd. apply H2. apply add_count_nodup. exact Hnd.
Qed.

(* the outer loop reaches document d, where the pure fold is collected *)
Lemma docs_loop_target his ams : N.of_nat (length his) <= 64 ->
  fits nt maxw 0 (map (fun am => wrun g (fst am) (snd am)) ams) [] ->
  collect (run_terms nt maxw 0 (map (fun am => wrun g (fst am) (snd am)) ams) []) nt maxw <> [] ->
  forall fuel idxs acc res, TL idxs his ams ->
  match idxs, ams with i0 :: _, (a0, _) :: _ => (N.to_nat (a0 - i0) < fuel)%nat | _, _ => False end ->
  docs_loop P fuel his (hd 0 his) idxs nt maxw acc = Done res ->
  exists c, In (d, c) res /\ 1 <= c.
Proof.
  intros H64 Hfits Hcoll. induction fuel as [|f IH]; intros idxs acc res HTL Hfuel H; [discriminate|].
  inversion HTL as [|i0 hi0 am irest hrest ams0 Hok HTL']; subst; [destruct Hfuel|].
  destruct am as [a0 m0]. cbn [hd] in H. rewrite docs_loop_S in H.
  pose proof Hok as (O1 & O2 & O3 & O4 & O5 & O6 & O7).
  assert (Ha_d : dkey (g a0) = d). { specialize (O6 0%nat ltac:(lia)). rewrite N.add_0_r in O6. exact O6. }
  assert (Hlt : (i0 <? hi0) = true) by (apply N.ltb_lt; lia). rewrite Hlt in H.
  rewrite rdP in H by lia. cbn [bind] in H.
  destruct (terms_loop P (hi0 :: hrest) 0 (i0 :: irest) nt maxw (dkey (g i0)) [] false 0 [] true)
    as [[[[[[idxs1 sp1] f1] lk1] sums1] ap1]| |] eqn:Er; cbn [bind] in H; try discriminate.
  destruct (N.eq_dec i0 a0) as [->|Hne].
  - (* this is document d *)
    rewrite Ha_d in *.
    apply terms_loop_target with (ams := (a0, m0) :: ams0) in Er; [|lia|exact HTL|exact Hfits].
    destruct Er as (-> & -> & ->). cbn [negb] in H.
    apply docs_loop_mono in H. destruct H as [H1 _].
    destruct (add_count_has d (N.of_nat (length (collect (run_terms nt maxw 0 (map (fun am => wrun g (fst am) (snd am)) ((a0, m0) :: ams0)) []) nt maxw))) acc)
      as (c1 & Hin1 & Hle1).
    destruct (H1 _ _ Hin1) as (c2 & Hin2 & Hle2). exists c2. split; [exact Hin2|].
    destruct (collect (run_terms nt maxw 0 (map (fun am => wrun g (fst am) (snd am)) ((a0, m0) :: ams0)) []) nt maxw); [congruence|].
    cbn [length] in Hle1. lia.
  - (* an earlier document *)
    assert (Hk : dkey (g i0) < d) by (apply O2; lia).
    apply terms_loop_gen with (ams := (a0, m0) :: ams0) in Er; [|exact Hk|exact HTL].
    destruct Er as [HTL1 Hprog].
    inversion HTL1 as [|i1 hi1 am1 irest1 hrest1 ams1 Hok1 HTL1']; subst.
    specialize (Hprog eq_refl).
    apply (IH _ _ _ HTL1) in H; [exact H|].
    destruct Hok1 as (Q1 & _). lia.
Qed.
End Terms.

(* ---------- from segment lists to the cursors ---------- *)
Definition seg3 : Type := (list N * list N * list N)%type.
Definition seg_of (tr : seg3) : list N := let '(pre, run, post) := tr in pre ++ run ++ post.
Definition seg_run (tr : seg3) : list N := let '(_, run, _) := tr in run.
Definition seg_d (d : N) (tr : seg3) : Prop :=
  let '(pre, run, post) := tr in
  (forall w, In w pre -> dkey w < d) /\ run <> [] /\ (forall w, In w run -> dkey w = d) /\
  match post with [] => True | w :: _ => dkey w <> d end.
Fixpoint ams_from (off : N) (trs : list seg3) : list (N * nat) :=
  match trs with
  | [] => []
  | (pre, run, post) :: rest =>
      (off + N.of_nat (length pre), length run) :: ams_from (off + N.of_nat (length (pre ++ run ++ post))) rest
  end.

Lemma nth_mid {A} (l1 l2 l3 : list A) k dflt : (k < length l2)%nat -> nth (length l1 + k) (l1 ++ l2 ++ l3) dflt = nth k l2 dflt.
Proof. intros H. rewrite app_nth2 by lia. replace (length l1 + k - length l1)%nat with k by lia. apply app_nth1. exact H. Qed.

Lemma wrun_list g : forall run a, (forall k, (k < length run)%nat -> g (a + N.of_nat k) = nth k run 0) ->
  wrun g a (length run) = concat (map wcs run).
Proof.
  induction run as [|w r IH]; intros a H; [reflexivity|].
  cbn [length]. rewrite wrun_S. cbn [map concat]. f_equal.
  - specialize (H 0%nat ltac:(cbn; lia)). rewrite N.add_0_r in H. cbn [nth] in H. rewrite H. reflexivity.
  - apply IH. intros k Hk. specialize (H (S k) ltac:(cbn; lia)). cbn [nth] in H. rewrite <- H. f_equal. lia.
Qed.

Lemma layout_TL d : forall trs pm rest l off, Forall (seg_d d) trs ->
  l = pm ++ concat (map seg_of trs) ++ rest -> off = N.of_nat (length pm) ->
  TL (fun i => nth (N.to_nat i) l 0) (N.of_nat (length l)) d
     (removelast (cum off (map seg_of trs))) (tl (cum off (map seg_of trs))) (ams_from off trs).
Proof.
  induction trs as [|[[pre run] post] trs IH]; intros pm rest l off HF El Eoff.
  - cbn. constructor.
  - inversion HF as [|? ? Hd HF']; subst off. cbn [map cum ams_from concat] in *. rewrite removelast_cum. cbn [tl].
    rewrite (cum_hd _ (map seg_of trs)) at 2.
    destruct Hd as (D1 & D2 & D3 & D4).
    assert (El' : l = pm ++ pre ++ run ++ (post ++ concat (map seg_of trs) ++ rest)).
    { rewrite El. unfold seg_of at 1. rewrite <- !app_assoc. reflexivity. }
    constructor.
    + unfold term_ok. change (seg_of (pre, run, post)) with (pre ++ run ++ post). rewrite !app_length.
      split; [lia|]. split.
      { intros j Hj1 Hj2. apply D1. rewrite El'.
        replace (N.to_nat j) with (length pm + (N.to_nat j - length pm))%nat by lia.
        rewrite app_nth2_plus. rewrite app_nth1 by lia. apply nth_In. lia. }
      split; [lia|]. split; [rewrite El'; rewrite !app_length; lia|].
      split; [destruct run; [congruence|cbn; lia]|]. split.
      { intros k Hk. apply D3. rewrite El'.
        replace (N.to_nat (N.of_nat (length pm) + N.of_nat (length pre) + N.of_nat k)) with (length pm + (length pre + k))%nat by lia.
        rewrite app_nth2_plus. rewrite nth_mid by exact Hk. apply nth_In. exact Hk. }
      { destruct post as [|w0 post'].
        - left. cbn [length]. lia.
        - right. rewrite El'.
          replace (N.to_nat (N.of_nat (length pm) + N.of_nat (length pre) + N.of_nat (length run))) with (length pm + (length pre + (length run + 0)))%nat by lia.
          rewrite app_nth2_plus, app_nth2_plus, app_nth2_plus. cbn [app nth]. exact D4. }
    + apply (IH (pm ++ seg_of (pre, run, post)) rest); [exact HF'| |].
      * rewrite El. rewrite <- !app_assoc. reflexivity.
      * change (seg_of (pre, run, post)) with (pre ++ run ++ post). rewrite !app_length. lia.
Qed.

Definition seg_evs (trs : list seg3) : list (list N) := map (fun tr => concat (map wcs (seg_run tr))) trs.

Lemma layout_evs : forall trs pm rest l off,
  l = pm ++ concat (map seg_of trs) ++ rest -> off = N.of_nat (length pm) ->
  map (fun am => wrun (fun i => nth (N.to_nat i) l 0) (fst am) (snd am)) (ams_from off trs) = seg_evs trs.
Proof.
  induction trs as [|[[pre run] post] trs IH]; intros pm rest l off El Eoff; [reflexivity|].
  cbn [ams_from map seg_evs fst snd seg_run]. f_equal.
  - apply wrun_list. intros k Hk. subst off.
    replace (N.to_nat (N.of_nat (length pm) + N.of_nat (length pre) + N.of_nat k)) with (length pm + (length pre + k))%nat by lia.
    rewrite El. cbn [map concat]. change (seg_of (pre, run, post)) with (pre ++ run ++ post). rewrite <- !app_assoc.
    rewrite app_nth2_plus. apply nth_mid. exact Hk.
  - apply (IH (pm ++ pre ++ run ++ post) rest).
    + rewrite El. cbn [map concat]. change (seg_of (pre, run, post)) with (pre ++ run ++ post). rewrite <- !app_assoc. reflexivity.
    + subst off. rewrite !app_length. lia.
Qed.

Lemma store_many_nodup : forall ivs dense v dd c, store_many dense ivs = Done v -> NoDup (map fst ivs) ->
  In (N.of_nat dd, c) ivs -> nth dd v 0 = c.
Proof.
  induction ivs as [|[i c0] rest IH]; intros dense v dd c H Hnd Hin; [destruct Hin|].
  cbn [store_many] in H. apply bind_inv in H as (d1 & H1 & H2). unfold store in H1.
  destruct (i <? N.of_nat (length dense)) eqn:E; [|discriminate]. apply N.ltb_lt in E. injection H1 as <-.
  cbn [map fst] in Hnd. inversion Hnd as [|? ? Hnin Hnd']; subst.
  destruct Hin as [Heq|Hin].
  - injection Heq as -> ->.
    (* later stores do not touch index dd *)
    pose proof (store_many_inv _ _ _ H2) as [Hlen Hdiff].
    destruct (N.eq_dec (nth dd v 0) (nth dd (list_set dense (N.to_nat (N.of_nat dd)) c) 0)) as [Heq|Hne].
    + rewrite Heq. rewrite list_set_nth by lia. rewrite Nat2N.id, Nat.eqb_refl. reflexivity.
    + apply Hdiff in Hne. destruct Hne as [c' Hc']. exfalso. apply Hnin. change (N.of_nat dd) with (fst (N.of_nat dd, c')). apply in_map. exact Hc'.
  - eapply IH; [exact H2|exact Hnd'|exact Hin].
Qed.

(* ---------- T2: span_search credits document d ---------- *)
Theorem span_search_target encs slop pf trs d p C :
  intersect_all encs = AOk (concat (map seg_of trs), cum 0 (map seg_of trs)) ->
  Forall (seg_d d) trs ->
  (1 <= length trs)%nat -> (length trs <= 64)%nat -> p + N.of_nat (length trs) <= 31 ->
  Forall (Forall (fun c => c < 31)) (seg_evs trs) ->
  (forall k, (k < length trs)%nat -> In (p + N.of_nat k) (nth k (seg_evs trs) [])) ->
  Forall (fun cs => (length cs <= C)%nat) (seg_evs trs) -> ((2 ^ length trs - 1) * C < 512)%nat ->
  span_search encs slop = AOk pf ->
  exists c, In (d, c) pf /\ 1 <= c /\ NoDup (map fst pf).
Proof.
  intros Hia Hsegs H1 H64 Hp H31 Hocc HC Hbound H.
  unfold span_search in H. rewrite Hia in H. cbn [abind] in H.
  apply lift_inv in H.
  set (sl := map seg_of trs) in *. set (l := concat sl) in *.
  rewrite cum_length in H. replace (S (length sl) - 1)%nat with (length trs) in H by (unfold sl; rewrite map_length; lia).
  set (nt := N.of_nat (length trs)) in *. set (maxw := Z.of_N (nt + slop)) in *.
  set (g := fun i : N => nth (N.to_nat i) l 0).
  assert (rdP : forall i, i < N.of_nat (length l) -> rd 0 (mem_of_list l) i = Done (g i)).
  { intros i Hi. rewrite rd_mem_of_list. apply lrd_ok. exact Hi. }
  assert (El : l = [] ++ concat (map seg_of trs) ++ []) by (cbn [app]; rewrite app_nil_r; reflexivity).
  pose proof (layout_TL d trs [] [] l 0 Hsegs El eq_refl) as HTL.
  pose proof (layout_evs trs [] [] l 0 El eq_refl) as Hevs.
  fold g in HTL, Hevs. fold sl in HTL.
  assert (Hlen_evs : length (seg_evs trs) = length trs) by (unfold seg_evs; apply map_length).
  assert (Hfits : fits nt maxw 0 (seg_evs trs) []).
  { apply (fits_bound nt maxw C); [rewrite Hlen_evs; lia|exact HC|]. rewrite Hlen_evs. cbn [length]. lia. }
  assert (Hcoll : collect (run_terms nt maxw 0 (seg_evs trs) []) nt maxw <> []).
  { apply (span_table_keeps_exact nt maxw p).
    - unfold nt. lia.
    - unfold nt. lia.
    - unfold maxw, nt. lia.
    - unfold nt. lia.
    - rewrite Hlen_evs. reflexivity.
    - exact H31.
    - rewrite Hlen_evs. exact Hocc. }
  rewrite <- Hevs in Hfits, Hcoll.
  assert (Hhis : N.of_nat (length (tl (cum 0 sl))) <= 64).
  { rewrite tl_cum_length. unfold sl. rewrite map_length. lia. }
  assert (Hnd : NoDup (map fst pf)).
  { apply (docs_loop_mono (mem_of_list l) g (N.of_nat (length l)) rdP nt maxw) in H. destruct H as [_ H]. apply H. constructor. }
  destruct (docs_loop_target (mem_of_list l) g (N.of_nat (length l)) rdP nt maxw d (tl (cum 0 sl)) (ams_from 0 trs) Hhis Hfits Hcoll
              (S (length l)) (removelast (cum 0 sl)) [] pf HTL) as (c & Hin & Hc).
  - inversion HTL as [|i0 hi0 am irest hrest ams0 Hok HTL' E1 E2 E3].
    + destruct trs as [|[[pre run] post] trs']; [cbn [length] in H1; lia|]. cbn [ams_from] in *. discriminate.
    + destruct am as [a0 m0]. destruct Hok as (O1 & O2 & O3 & O4 & O5 & _). lia.
  - exact H.
  - exists c. repeat split; assumption.
Qed.

(* ---------- L3: _intersect_all keeps the words of an exact occurrence (when header 0 is not a candidate) ---------- *)

(* every word of an encoded posting list is word_of k b s with a small bucket *)
Definition wform (w : N) : Prop := exists k b s, w = word_of k b s /\ k < 2^28 /\ b * 18 < 2^18 /\ s < 2^18 /\ s <> 0.

Lemma enc_wform_aux : forall rest k b s, sorted2 rest -> bounded rest -> cur_ok k b s rest -> b * 18 < 2^18 ->
  Forall wform (encode_aux (Some (k, b, s)) rest).
Proof.
  intros rest k b s Hs Hb Hok. revert rest k b s Hs Hb Hok.
  apply (enc_ind (fun k b s rest => b * 18 < 2^18 -> Forall wform (encode_aux (Some (k, b, s)) rest))).
  - intros k b s (Hk & Hb & Hs & Hnz & _) Hb18. cbn [encode_aux]. constructor; [|constructor].
    exists k, b, s. repeat split; assumption.
  - intros k b s p rest _ Eb _ _ _ IH Hb18. rewrite encode_aux_same by assumption. apply IH. exact Hb18.
  - intros k b s k' p' rest (Hk & Hb & Hs & Hnz & _) E _ Hk' Hp' _ IH Hb18.
    rewrite encode_aux_diff by assumption. constructor.
    + exists k, b, s. repeat split; assumption.
    + apply IH. pose proof (N.mul_div_le p' 18 ltac:(lia)). lia.
Qed.

Lemma enc_wform ps : sorted2 ps -> bounded ps -> Forall wform (encode_spec ps).
Proof.
  intros Hs Hb. destruct ps as [|[k p] rest]; [constructor|]. unfold encode_spec. cbn [encode_aux].
  pose proof (cur_ok_init k p rest Hs Hb) as Hok.
  inversion Hb as [|x l [Hk Hp] Hb' Ex]; subst. destruct Hs as [_ Hs']. cbn [fst snd] in *.
  apply enc_wform_aux; try assumption. pose proof (N.mul_div_le p 18 ltac:(lia)). lia.
Qed.

Definition Hd (x : N) : N := N.land x header_mask.
Lemma header_mask_val : header_mask = 18446744073709289472. Proof. vm_compute. reflexivity. Qed.
Lemma header_of_Hd x : header_of x = Hd x.
Proof. unfold header_of, Hd. rewrite hmask_val, header_mask_val. reflexivity. Qed.
Lemma Hd_arith x : x < 2^64 -> Hd x = (x / 2^18) * 2^18.
Proof. intros H. rewrite <- header_of_Hd. apply header_as_arith. exact H. Qed.
Lemma Hd_mono x y : x <= y -> y < 2^64 -> Hd x <= Hd y.
Proof.
  intros Hxy Hy. rewrite !Hd_arith by lia. apply N.mul_le_mono_r. apply N.div_le_mono; [discriminate|exact Hxy].
Qed.
Lemma Hd_le x : x < 2^64 -> Hd x <= x.
Proof. intros H. rewrite Hd_arith by exact H. rewrite N.mul_comm. apply N.mul_div_le. discriminate. Qed.
Lemma Hd_idem x : x < 2^64 -> Hd (Hd x) = Hd x.
Proof.
  intros H. rewrite (Hd_arith (Hd x)); [|pose proof (Hd_le x H); lia].
  rewrite (Hd_arith x H). rewrite N.div_mul by discriminate. reflexivity.
Qed.
Lemma Hd_word k b s : k < 2^28 -> b < 2^18 -> s < 2^18 -> Hd (word_of k b s) = word_of k b 0.
Proof. intros. rewrite <- header_of_Hd. apply header_of_word; assumption. Qed.
Lemma Hd_add_unit x : x + 2^18 < 2^64 -> Hd (x + 2^18) = Hd x + 2^18.
Proof.
  intros H. rewrite !Hd_arith by lia. replace (x + 2^18) with (x + 1 * 2^18) by lia.
  rewrite N.div_add by discriminate. lia.
Qed.
Lemma hdr_unit_val : hdr_unit = 2^18. Proof. reflexivity. Qed.
Lemma lowbit_hm : lowbit header_mask = 2^18. Proof. vm_compute. reflexivity. Qed.

(* sortedness bookkeeping *)
Definition SSle := StronglySorted N.le.
Definition lt64 (l : list N) : Prop := Forall (fun x => x < 2^64) l.

Lemma ss_nth_le : forall l a b, SSle l -> (a <= b)%nat -> (b < length l)%nat -> nth a l 0 <= nth b l 0.
Proof.
  induction l as [|x l IH]; intros a b Hs Hab Hb; cbn [length] in Hb; [lia|].
  inversion Hs as [|? ? Hs' Hf]; subst. destruct b as [|b].
  - assert (a = 0)%nat by lia. subst. lia.
  - destruct a as [|a]; cbn [nth]; [|apply IH; [exact Hs'|lia|lia]].
    rewrite Forall_forall in Hf. apply Hf. apply nth_In. lia.
Qed.

Lemma take_idx_in l idxs x : In x (take_idx l idxs) <-> exists a, In a idxs /\ x = nth (N.to_nat a) l 0.
Proof.
  unfold take_idx. rewrite in_map_iff. split.
  - intros (a & H1 & H2). exists a. split; [exact H2|symmetry; exact H1].
  - intros (a & H1 & H2). exists a. split; [symmetry; exact H2|exact H1].
Qed.

Lemma take_idx_ss l : SSle l -> forall idxs, StronglySorted N.le idxs -> Forall (fun a => a < N.of_nat (length l)) idxs ->
  SSle (take_idx l idxs).
Proof.
  intros Hl. induction idxs as [|a idxs IH]; intros Hs Hr; cbn [take_idx map]; [constructor|].
  inversion Hs as [|? ? Hs' Hf]; subst. inversion Hr as [|? ? Ha Hr']; subst.
  constructor; [apply IH; assumption|]. apply Forall_forall. intros x Hx. apply take_idx_in in Hx. destruct Hx as (b & Hb & ->).
  rewrite Forall_forall in Hf, Hr'. specialize (Hf b Hb). specialize (Hr' b Hb).
  apply ss_nth_le; [exact Hl|lia|lia].
Qed.

Lemma take_idx_forall (Q : N -> Prop) l idxs : Forall Q l -> Forall (fun a => a < N.of_nat (length l)) idxs -> Forall Q (take_idx l idxs).
Proof.
  intros Hl Hr. apply Forall_forall. intros x Hx. apply take_idx_in in Hx. destruct Hx as (a & Ha & ->).
  rewrite Forall_forall in Hl, Hr. apply Hl. apply nth_In. specialize (Hr a Ha). lia.
Qed.

Lemma sslt_ssle l : StronglySorted N.lt l -> StronglySorted N.le l.
Proof.
  induction 1 as [|x l Hs IH Hf]; constructor; [exact IH|]. eapply Forall_impl; [|exact Hf]. cbn. intros; lia.
Qed.

Lemma ss_map_mono (f : N -> N) l : (forall x y, In x l -> In y l -> x <= y -> f x <= f y) -> SSle l -> SSle (map f l).
Proof.
  intros Hf Hs. induction Hs as [|x l Hs IH Hfa]; cbn [map]; [constructor|].
  constructor.
  - apply IH. intros a b Ha Hb. apply Hf; right; assumption.
  - apply Forall_forall. intros y Hy. apply in_map_iff in Hy. destruct Hy as (z & <- & Hz).
    rewrite Forall_forall in Hfa. apply Hf; [left; reflexivity|right; exact Hz|apply Hfa; exact Hz].
Qed.

Lemma ss_msorted_hm l : SSle l -> lt64 l -> Intersect_Correct.msorted l header_mask.
Proof.
  intros Hs H64. apply Intersect_Correct.sorted_msorted. apply StronglySorted_Sorted. unfold mvals.
  apply (ss_map_mono (fun x => N.land x header_mask)); [|exact Hs].
  intros x y Hx Hy Hxy. apply (Hd_mono x y Hxy). unfold lt64 in H64. rewrite Forall_forall in H64. apply H64. exact Hy.
Qed.

Lemma land_wmask x : x < 2^64 -> N.land x wmask = x.
Proof. intros H. change wmask with (N.ones 64). rewrite N.land_ones. apply N.mod_small. exact H. Qed.

Lemma ss_msorted_w l : SSle l -> lt64 l -> Intersect_Correct.msorted l wmask.
Proof.
  intros Hs H64. apply Intersect_Correct.sorted_msorted. apply StronglySorted_Sorted. unfold mvals.
  replace (map (fun x => N.land x wmask) l) with l; [exact Hs|].
  symmetry. rewrite <- (map_id l) at 2. apply map_ext_in. intros x Hx. apply land_wmask. unfold lt64 in H64. rewrite Forall_forall in H64. apply H64. exact Hx.
Qed.

Lemma mrg_in z l r : In z (mrg l r) <-> In z l \/ In z r.
Proof.
  pose proof (mrg_perm l r) as Hp. split.
  - intros H. apply (Permutation_in _ (Permutation_sym Hp)) in H. apply in_app_iff in H. exact H.
  - intros H. apply (Permutation_in _ Hp). apply in_app_iff. exact H.
Qed.
Lemma mrg_length l r : length (mrg l r) = (length l + length r)%nat.
Proof. rewrite <- (Permutation_length (mrg_perm l r)). apply app_length. Qed.
Lemma mrg_lt64 l r : lt64 l -> lt64 r -> lt64 (mrg l r).
Proof.
  unfold lt64. rewrite !Forall_forall. intros Hl Hr z Hz. apply mrg_in in Hz. destruct Hz; auto.
Qed.

(* ---- the pair lists of the kernel specs ---- *)
Section Pairs.
Variables (tf : N -> N) (ML MR : list N).
Let pairs := flat_map (genf tf ML MR) (enum ML).

Lemma pairs_in a b : In (a, b) pairs <->
  a < N.of_nat (length ML) /\ first_index (nth (N.to_nat a) ML 0) ML = Some a /\ first_index (tf (nth (N.to_nat a) ML 0)) MR = Some b.
Proof.
  unfold pairs. rewrite in_flat_map. split.
  - intros ([a0 v] & Hin & Hp). apply in_enum in Hin. destruct Hin as [H1 H2]. apply genf_in in Hp. destruct Hp as (-> & H3 & H4).
    subst v. repeat split; assumption.
  - intros (H1 & H2 & H3). exists (a, nth (N.to_nat a) ML 0). split; [apply in_enum; split; [exact H1|reflexivity]|].
    apply genf_in. repeat split; assumption.
Qed.

Lemma pairs_fst_sorted : StronglySorted N.lt (map fst pairs).
Proof. apply ssorted_map_fst. apply gen_sorted. Qed.

Lemma pairs_fst_range : Forall (fun a => a < N.of_nat (length ML)) (map fst pairs).
Proof.
  apply Forall_forall. intros a Ha. apply in_map_iff in Ha. destruct Ha as ([a' b] & <- & Hin). apply pairs_in in Hin. tauto.
Qed.

Lemma pairs_snd_range : Forall (fun b => b < N.of_nat (length MR)) (map snd pairs).
Proof.
  apply Forall_forall. intros b Hb. apply in_map_iff in Hb. destruct Hb as ([a b'] & <- & Hin). apply pairs_in in Hin.
  destruct Hin as (_ & _ & H). apply first_index_some in H. tauto.
Qed.

Lemma pairs_hit v : In v ML -> In (tf v) MR -> exists a b, In (a, b) pairs /\ nth (N.to_nat a) ML 0 = v.
Proof.
  intros H1 H2. destruct (first_index_ex ML v H1) as [a Ha]. destruct (first_index_ex MR (tf v) H2) as [b Hb].
  pose proof (first_index_some _ _ _ Ha) as (A1 & A2 & _).
  exists a, b. split; [|exact A2]. apply pairs_in. rewrite A2. repeat split; assumption.
Qed.

Lemma pairs_snd_val a b : In (a, b) pairs -> nth (N.to_nat b) MR 0 = tf (nth (N.to_nat a) ML 0).
Proof. intros H. apply pairs_in in H. destruct H as (_ & _ & H). apply first_index_some in H. tauto. Qed.

End Pairs.

Lemma sslt_length : forall l lo n, StronglySorted N.lt l -> Forall (fun a => lo <= a /\ a < n) l -> (length l <= N.to_nat (n - lo))%nat.
Proof.
  induction l as [|x l IH]; intros lo n Hs Hr; cbn [length]; [lia|].
  inversion Hs as [|? ? Hs' Hf]; subst. inversion Hr as [|? ? [Hx1 Hx2] Hr']; subst.
  assert (Hl : (length l <= N.to_nat (n - (x + 1)))%nat).
  { apply IH; [exact Hs'|]. apply Forall_forall. intros a Ha. rewrite Forall_forall in Hf, Hr'. specialize (Hf a Ha). specialize (Hr' a Ha). lia. }
  lia.
Qed.

Lemma sslt_len_le l n : StronglySorted N.lt l -> Forall (fun a => a < N.of_nat n) l -> (length l <= n)%nat.
Proof.
  intros Hs Hr. pose proof (sslt_length l 0 (N.of_nat n) Hs) as H. rewrite N.sub_0_r, Nat2N.id in H. apply H.
  eapply Forall_impl; [|exact Hr]. cbn. intros; lia.
Qed.

(* second components are non-decreasing when the right list is strictly increasing *)
Lemma pairs_snd_sorted tf ML MR :
  (forall a a', a <= a' -> a' < N.of_nat (length ML) -> nth (N.to_nat a) ML 0 <= nth (N.to_nat a') ML 0) ->
  (forall x y, x <= y -> tf x <= tf y) ->
  (forall b b', b < b' -> b' < N.of_nat (length MR) -> nth (N.to_nat b) MR 0 < nth (N.to_nat b') MR 0) ->
  StronglySorted N.le (map snd (flat_map (genf tf ML MR) (enum ML))).
Proof.
  intros HML Htf HMR.
  assert (Hgen : forall q, StronglySorted Intersect_Correct.asc q -> (forall a b, In (a, b) q -> In (a, b) (flat_map (genf tf ML MR) (enum ML))) ->
                 StronglySorted N.le (map snd q)).
  { induction q as [|[a b] q IH]; intros Hs Hsub; cbn [map]; [constructor|].
    inversion Hs as [|? ? Hs' Hf]; subst. constructor.
    - apply IH; [exact Hs'|]. intros a' b' H. apply Hsub. right. exact H.
    - apply Forall_forall. intros b' Hb'. apply in_map_iff in Hb'. destruct Hb' as ([a2 b2] & <- & Hin2). cbn [snd].
      rewrite Forall_forall in Hf. specialize (Hf _ Hin2). unfold Intersect_Correct.asc in Hf. cbn [fst] in Hf.
      pose proof (Hsub a b (or_introl eq_refl)) as P1. pose proof (Hsub a2 b2 (or_intror Hin2)) as P2.
      pose proof (pairs_snd_val tf ML MR _ _ P1) as V1. pose proof (pairs_snd_val tf ML MR _ _ P2) as V2.
      apply (pairs_in tf ML MR) in P1, P2. destruct P1 as (A1 & _ & F1). destruct P2 as (A2 & _ & F2).
      apply first_index_some in F1, F2. destruct F1 as (B1 & _ & _). destruct F2 as (B2 & _ & _).
      destruct (N.le_gt_cases b b2) as [Hle|Hgt]; [exact Hle|].
      specialize (HMR b2 b Hgt B1). rewrite V1, V2 in HMR.
      specialize (HML a a2 ltac:(lia) A2). specialize (Htf _ _ HML). lia. }
  apply Hgen; [apply gen_sorted|]. intros a b H. exact H.
Qed.

(* ---- posting-like lists ---- *)
Definition sm (x : N) : Prop := x + 2^18 < 2^64.
Definition PL (l : list N) : Prop := Forall wform l /\ StronglySorted N.lt (map Hd l) /\ N.of_nat (length l) < 2^50.

Lemma wform_sm w : wform w -> sm w.
Proof. intros (k & b & s & -> & Hk & Hb & Hs & _). unfold sm, word_of. pows. lia. Qed.
Lemma sm_lt64 x : sm x -> x < 2^64.
Proof. unfold sm. lia. Qed.
Lemma sm_Hd x : sm x -> sm (Hd x).
Proof. intros H. pose proof (Hd_le x (sm_lt64 x H)). unfold sm in *. lia. Qed.
Lemma Forall_sm_lt64 l : Forall sm l -> lt64 l.
Proof. intros H. eapply Forall_impl; [|exact H]. apply sm_lt64. Qed.

Lemma Hd_lt_lt x y : x < 2^64 -> y < 2^64 -> Hd x < Hd y -> x < y.
Proof.
  intros Hx Hy H. rewrite !Hd_arith in H by assumption.
  assert (x / 2^18 < y / 2^18) by nia.
  pose proof (N.div_mod x (2^18) ltac:(discriminate)). pose proof (N.mod_lt x (2^18) ltac:(discriminate)).
  pose proof (N.div_mod y (2^18) ltac:(discriminate)). nia.
Qed.

Lemma PL_sm l : PL l -> Forall sm l.
Proof. intros (H & _ & _). eapply Forall_impl; [|exact H]. apply wform_sm. Qed.

Lemma PL_ssle l : PL l -> SSle l.
Proof.
  intros HPL. pose proof (Forall_sm_lt64 l (PL_sm l HPL)) as H64. destruct HPL as (_ & Hs & _).
  induction l as [|x l IH]; [constructor|]. cbn [map] in Hs. inversion Hs as [|? ? Hs' Hf]; subst.
  inversion H64 as [|? ? Hx H64']; subst. constructor; [apply IH; assumption|].
  apply Forall_forall. intros y Hy. rewrite Forall_forall in Hf, H64'.
  assert (Hd x < Hd y) by (apply Hf; apply in_map; exact Hy). apply N.lt_le_incl. apply Hd_lt_lt; auto.
Qed.

Lemma sslt_nth_lt : forall l a b, StronglySorted N.lt l -> (a < b)%nat -> (b < length l)%nat -> nth a l 0 < nth b l 0.
Proof.
  induction l as [|x l IH]; intros a b Hs Hab Hb; cbn [length] in Hb; [lia|].
  inversion Hs as [|? ? Hs' Hf]; subst. destruct b as [|b]; [lia|]. destruct a as [|a]; cbn [nth].
  - rewrite Forall_forall in Hf. apply Hf. apply nth_In. lia.
  - apply IH; [exact Hs'|lia|lia].
Qed.

Lemma hm_ne0 : header_mask <> 0. Proof. rewrite header_mask_val. discriminate. Qed.
Lemma hm_ltW : header_mask < W64. Proof. rewrite header_mask_val. reflexivity. Qed.

Lemma mvals_Hd l : mvals l header_mask = map Hd l.
Proof. reflexivity. Qed.

Section Pair.
Variables curr nxt : list N.
Hypothesis HPc : PL curr.
Hypothesis HPn : PL nxt.

Let c64 := Forall_sm_lt64 curr (PL_sm curr HPc).
Let n64 := Forall_sm_lt64 nxt (PL_sm nxt HPn).

Lemma PL_msorted l : PL l -> Intersect_Correct.msorted l header_mask.
Proof. intros H. apply ss_msorted_hm; [apply PL_ssle; exact H|apply Forall_sm_lt64, PL_sm; exact H]. Qed.

Lemma PL_len62 l : PL l -> N.of_nat (length l) < 2^62.
Proof. intros (_ & _ & H). eapply N.lt_trans; [exact H|reflexivity]. Qed.

(* the three candidate index lists of one direction *)
Lemma idx_lists (l r : list N) (tf : N -> N) : PL l -> PL r -> (forall x y, x <= y -> tf x <= tf y) ->
  let pairs := flat_map (genf tf (map Hd l) (map Hd r)) (enum (map Hd l)) in
  SSle (take_idx l (map fst pairs)) /\ SSle (take_idx r (map snd pairs)) /\
  Forall sm (take_idx l (map fst pairs)) /\ Forall sm (take_idx r (map snd pairs)) /\
  (length (map fst pairs) <= length l)%nat /\ (length (map snd pairs) <= length l)%nat.
Proof.
  intros Hl Hr Htf pairs.
  pose proof (pairs_fst_sorted tf (map Hd l) (map Hd r)) as F1.
  pose proof (pairs_fst_range tf (map Hd l) (map Hd r)) as F2. rewrite map_length in F2.
  pose proof (pairs_snd_range tf (map Hd l) (map Hd r)) as F3. rewrite map_length in F3.
  assert (F4 : StronglySorted N.le (map snd pairs)).
  { apply pairs_snd_sorted; [| exact Htf |].
    - intros a a' Ha Ha'. rewrite map_length in Ha'. change 0 with (Hd 0) at 1 2. rewrite !map_nth.
      apply Hd_mono; [apply ss_nth_le; [apply PL_ssle; exact Hl|lia|lia]|].
      pose proof (Forall_sm_lt64 l (PL_sm l Hl)) as H64. unfold lt64 in H64. rewrite Forall_forall in H64. apply H64, nth_In. lia.
    - intros b b' Hb Hb'. rewrite map_length in Hb'. destruct Hr as (_ & Hs & _).
      apply sslt_nth_lt; [exact Hs|lia|rewrite map_length; lia]. }
  fold pairs in F1, F2, F3, F4.
  split; [apply take_idx_ss; [apply PL_ssle; exact Hl|apply sslt_ssle; exact F1|exact F2]|].
  split; [apply take_idx_ss; [apply PL_ssle; exact Hr|exact F4|exact F3]|].
  split; [apply take_idx_forall; [apply PL_sm; exact Hl|exact F2]|].
  split; [apply take_idx_forall; [apply PL_sm; exact Hr|exact F3]|].
  assert (L1 : (length (map fst pairs) <= length l)%nat) by (apply sslt_len_le; assumption).
  split; [exact L1|]. rewrite map_length in *. exact L1.
Qed.
End Pair.

Definition P_id (l r : list N) := flat_map (genf (fun v => v) (map Hd l) (map Hd r)) (enum (map Hd l)).
Definition P_adj (l r : list N) := flat_map (genf (fun v => v + 2^18) (map Hd l) (map Hd r)) (enum (map Hd l)).

Lemma drop_spec_eq l r : intersect_drop_spec l r header_mask = (map fst (P_id l r), map snd (P_id l r)).
Proof. reflexivity. Qed.
Lemma adj_spec_eq l r : adjacent_spec l r header_mask (2^18) = (map fst (P_adj l r), map snd (P_adj l r)).
Proof. reflexivity. Qed.

Lemma in_map_Hd_nth l a : (N.to_nat a < length l)%nat -> nth (N.to_nat a) (map Hd l) 0 = Hd (nth (N.to_nat a) l 0).
Proof. intros _. change 0 with (Hd 0) at 1. apply map_nth. Qed.

Lemma ia_pair_ok curr nxt : PL curr -> PL nxt ->
  exists lhs rhs, ia_pair curr nxt = AOk (lhs, rhs) /\
    SSle lhs /\ SSle rhs /\ Forall sm lhs /\ Forall sm rhs /\
    (length lhs <= 3 * (length curr + length nxt))%nat /\ (length rhs <= 3 * (length curr + length nxt))%nat /\
    (forall h, In h (map Hd curr) -> In h (map Hd nxt) \/ In (h + 2^18) (map Hd nxt) -> In h (map Hd rhs)) /\
    (forall x, In x lhs -> 2^18 <= x \/ In (Hd x) (map Hd curr)).
Proof.
  intros Hc Hn. unfold ia_pair.
  rewrite (intersect_drop_correct curr nxt header_mask (PL_msorted curr Hc) (PL_msorted nxt Hn) (PL_len62 curr Hc) (PL_len62 nxt Hn)).
  cbn [lift abind]. rewrite drop_spec_eq. cbn [fst snd].
  rewrite (adjacent_correct curr nxt header_mask (PL_msorted curr Hc) (PL_msorted nxt Hn) (PL_len62 curr Hc) (PL_len62 nxt Hn) hm_ne0 hm_ltW).
  cbn [lift abind]. rewrite lowbit_hm, adj_spec_eq. cbn [fst snd].
  rewrite !merge_model. cbn [lift abind].
  rewrite (adjacent_correct nxt curr header_mask (PL_msorted nxt Hn) (PL_msorted curr Hc) (PL_len62 nxt Hn) (PL_len62 curr Hc) hm_ne0 hm_ltW).
  cbn [lift abind]. rewrite lowbit_hm, adj_spec_eq. cbn [fst snd].
  rewrite !merge_model. cbn [lift abind].
  set (IH := map header_of (take_idx curr (map fst (P_id curr nxt)))).
  set (A1l := take_idx curr (map fst (P_adj curr nxt))). set (A1r := take_idx nxt (map snd (P_adj curr nxt))).
  set (A2l := take_idx nxt (map fst (P_adj nxt curr))). set (A2r := take_idx curr (map snd (P_adj nxt curr))).
  eexists _, _. split; [reflexivity|].
  assert (Mid : forall x y : N, x <= y -> (fun v : N => v) x <= (fun v : N => v) y) by (intros; assumption).
  assert (Madd : forall x y : N, x <= y -> (fun v : N => v + 2^18) x <= (fun v : N => v + 2^18) y) by (intros; cbn; lia).
  destruct (idx_lists curr nxt (fun v => v) Hc Hn Mid) as (I1 & _ & I3 & _ & I5 & _). fold (P_id curr nxt) in I1, I3, I5.
  destruct (idx_lists curr nxt (fun v => v + 2^18) Hc Hn Madd) as (B1 & B2 & B3 & B4 & B5 & B6). fold (P_adj curr nxt) in B1, B2, B3, B4, B5, B6.
  destruct (idx_lists nxt curr (fun v => v + 2^18) Hn Hc Madd) as (C1 & C2 & C3 & C4 & C5 & C6). fold (P_adj nxt curr) in C1, C2, C3, C4, C5, C6.
  fold A1l in B1, B3. fold A1r in B2, B4. fold A2l in C1, C3. fold A2r in C2, C4.
  assert (IHs : SSle IH).
  { unfold IH. apply ss_map_mono; [|exact I1]. intros x y Hx Hy Hxy. rewrite !header_of_Hd. apply Hd_mono; [exact Hxy|].
    rewrite Forall_forall in I3. apply sm_lt64, I3, Hy. }
  assert (IHm : Forall sm IH).
  { unfold IH. apply Forall_forall. intros z Hz. apply in_map_iff in Hz. destruct Hz as (w & <- & Hw).
    rewrite header_of_Hd. apply sm_Hd. rewrite Forall_forall in I3. apply I3, Hw. }
  assert (IHl : (length IH <= length curr)%nat) by (unfold IH; rewrite map_length; unfold take_idx; rewrite map_length; exact I5).
  assert (L1l : (length A1l <= length curr)%nat) by (unfold A1l, take_idx; rewrite map_length; exact B5).
  assert (L1r : (length A1r <= length curr)%nat) by (unfold A1r, take_idx; rewrite map_length; exact B6).
  assert (L2l : (length A2l <= length nxt)%nat) by (unfold A2l, take_idx; rewrite map_length; exact C5).
  assert (L2r : (length A2r <= length nxt)%nat) by (unfold A2r, take_idx; rewrite map_length; exact C6).
  split; [apply mrg_ssorted; [apply mrg_ssorted; assumption|assumption]|].
  split; [apply mrg_ssorted; [apply mrg_ssorted; assumption|assumption]|].
  assert (Fm : forall l r, Forall sm l -> Forall sm r -> Forall sm (mrg l r)).
  { intros l r Hl Hr. apply Forall_forall. intros z Hz. apply mrg_in in Hz. rewrite Forall_forall in Hl, Hr. destruct Hz; auto. }
  split; [apply Fm; [apply Fm|]; assumption|]. split; [apply Fm; [apply Fm|]; assumption|].
  split; [rewrite !mrg_length; lia|]. split; [rewrite !mrg_length; lia|].
  split.
  - (* the left header of a shared or adjacent pair is kept on the rhs side *)
    intros h Hh [Hsame|Hadj].
    + destruct (pairs_hit (fun v => v) (map Hd curr) (map Hd nxt) h Hh Hsame) as (a & b & Hin & Ha).
      fold (P_id curr nxt) in Hin.
      assert (Har : (N.to_nat a < length curr)%nat).
      { apply (pairs_in (fun v => v)) in Hin. destruct Hin as (Hlt & _). rewrite map_length in Hlt. lia. }
      rewrite in_map_Hd_nth in Ha by exact Har.
      apply in_map_iff. exists h. split.
      * rewrite <- Ha. apply Hd_idem. pose proof (Forall_sm_lt64 curr (PL_sm curr Hc)) as H64. unfold lt64 in H64.
        rewrite Forall_forall in H64. apply H64, nth_In, Har.
      * apply mrg_in. left. apply mrg_in. left. unfold IH. apply in_map_iff. exists (nth (N.to_nat a) curr 0).
        split; [rewrite header_of_Hd; exact Ha|]. apply take_idx_in. exists a. split; [|reflexivity].
        apply in_map_iff. exists (a, b). split; [reflexivity|exact Hin].
    + destruct (pairs_hit (fun v => v + 2^18) (map Hd curr) (map Hd nxt) h Hh Hadj) as (a & b & Hin & Ha).
      fold (P_adj curr nxt) in Hin.
      assert (Har : (N.to_nat a < length curr)%nat).
      { apply (pairs_in (fun v => v + 2^18)) in Hin. destruct Hin as (Hlt & _). rewrite map_length in Hlt. lia. }
      rewrite in_map_Hd_nth in Ha by exact Har.
      apply in_map_iff. exists (nth (N.to_nat a) curr 0). split; [exact Ha|].
      apply mrg_in. left. apply mrg_in. right. unfold A1l. apply take_idx_in. exists a. split; [|reflexivity].
      apply in_map_iff. exists (a, b). split; [reflexivity|exact Hin].
  - (* elements of the lhs side: above one unit unless they are shared headers of curr *)
    intros x Hx. apply mrg_in in Hx. destruct Hx as [Hx|Hx]; [apply mrg_in in Hx; destruct Hx as [Hx|Hx]|].
    + right. unfold IH in Hx. apply in_map_iff in Hx. destruct Hx as (w & <- & Hw). apply take_idx_in in Hw.
      destruct Hw as (a & Ha & ->). apply in_map_iff in Ha. destruct Ha as ([a' b] & <- & Hin). cbn [fst].
      apply (pairs_in (fun v => v)) in Hin. destruct Hin as (Hlt & _). rewrite map_length in Hlt.
      pose proof (Forall_sm_lt64 curr (PL_sm curr Hc)) as H64. unfold lt64 in H64. rewrite Forall_forall in H64.
      rewrite (header_of_Hd (nth (N.to_nat a') curr 0)). rewrite (Hd_idem (nth (N.to_nat a') curr 0)) by (apply H64, nth_In; lia). apply in_map. apply nth_In. lia.
    + left. unfold A1r in Hx. apply take_idx_in in Hx. destruct Hx as (b & Hb & ->). apply in_map_iff in Hb.
      destruct Hb as ([a b'] & <- & Hin). cbn [snd]. pose proof (pairs_snd_val _ _ _ _ _ Hin) as Hv.
      apply (pairs_in (fun v => v + 2^18)) in Hin. destruct Hin as (_ & _ & Hf). apply first_index_some in Hf. destruct Hf as (Hlt & _). rewrite map_length in Hlt.
      rewrite in_map_Hd_nth in Hv by lia.
      pose proof (Forall_sm_lt64 nxt (PL_sm nxt Hn)) as H64. unfold lt64 in H64. rewrite Forall_forall in H64.
      pose proof (Hd_le (nth (N.to_nat b') nxt 0) ltac:(apply H64, nth_In; lia)). lia.
    + left. unfold A2r in Hx. apply take_idx_in in Hx. destruct Hx as (b & Hb & ->). apply in_map_iff in Hb.
      destruct Hb as ([a b'] & <- & Hin). cbn [snd]. pose proof (pairs_snd_val _ _ _ _ _ Hin) as Hv.
      apply (pairs_in (fun v => v + 2^18)) in Hin. destruct Hin as (_ & _ & Hf). apply first_index_some in Hf. destruct Hf as (Hlt & _). rewrite map_length in Hlt.
      rewrite in_map_Hd_nth in Hv by lia.
      pose proof (Forall_sm_lt64 curr (PL_sm curr Hc)) as H64. unfold lt64 in H64. rewrite Forall_forall in H64.
      pose proof (Hd_le (nth (N.to_nat b') curr 0) ltac:(apply H64, nth_In; lia)). lia.
Qed.

(* ---- ia_fold ---- *)
Definition Good (curr ll lr : list N) : Prop :=
  SSle ll /\ SSle lr /\ Forall sm ll /\ Forall sm lr /\ N.of_nat (length ll) < 2^53 /\ N.of_nat (length lr) < 2^53 /\
  (forall x, In x ll -> 2^18 <= x \/ In (Hd x) (map Hd curr)).

Lemma drop_take l r : SSle l -> Forall sm l -> SSle r -> Forall sm r -> N.of_nat (length l) < 2^53 -> N.of_nat (length r) < 2^53 ->
  exists il, intersect_drop l r header_mask = Done il /\
    SSle (take_idx l (fst il)) /\ Forall sm (take_idx l (fst il)) /\ (length (take_idx l (fst il)) <= length l)%nat /\
    incl (take_idx l (fst il)) l /\
    (forall h, In h (map Hd l) -> In h (map Hd r) -> In h (map Hd (take_idx l (fst il)))).
Proof.
  intros Sl Ml Sr Mr Ll Lr.
  assert (L62 : forall n, n < 2^53 -> n < 2^62) by (intros n Hn; eapply N.lt_trans; [exact Hn|reflexivity]).
  eexists. split.
  { apply intersect_drop_correct; [apply ss_msorted_hm; [exact Sl|apply Forall_sm_lt64; exact Ml]
                                  |apply ss_msorted_hm; [exact Sr|apply Forall_sm_lt64; exact Mr]|apply L62; exact Ll|apply L62; exact Lr]. }
  rewrite drop_spec_eq. cbn [fst].
  pose proof (pairs_fst_sorted (fun v => v) (map Hd l) (map Hd r)) as F1. fold (P_id l r) in F1.
  pose proof (pairs_fst_range (fun v => v) (map Hd l) (map Hd r)) as F2. fold (P_id l r) in F2. rewrite map_length in F2.
  split; [apply take_idx_ss; [exact Sl|apply sslt_ssle; exact F1|exact F2]|].
  split; [apply take_idx_forall; [exact Ml|exact F2]|].
  split; [unfold take_idx; rewrite map_length; apply sslt_len_le; assumption|].
  split.
  - intros x Hx. apply take_idx_in in Hx. destruct Hx as (a & Ha & ->). rewrite Forall_forall in F2. specialize (F2 a Ha). apply nth_In. lia.
  - intros h H1 H2. destruct (pairs_hit (fun v => v) (map Hd l) (map Hd r) h H1 H2) as (a & b & Hin & Ha). fold (P_id l r) in Hin.
    assert (Har : (N.to_nat a < length l)%nat).
    { apply (pairs_in (fun v => v)) in Hin. destruct Hin as (Hlt & _). rewrite map_length in Hlt. lia. }
    rewrite in_map_Hd_nth in Ha by exact Har. apply in_map_iff. exists (nth (N.to_nat a) l 0). split; [exact Ha|].
    apply take_idx_in. exists a. split; [|reflexivity]. apply in_map_iff. exists (a, b). split; [reflexivity|exact Hin].
Qed.

Lemma ia_fold_ok curr : PL curr -> forall rest ll lr, Forall PL rest -> Good curr ll lr ->
  exists ll' lr', ia_fold curr rest (Some (ll, lr)) = AOk (Some (ll', lr')) /\ Good curr ll' lr' /\
    (forall h, In h (map Hd lr) -> In h (map Hd curr) ->
       (forall e, In e rest -> In h (map Hd e) \/ In (h + 2^18) (map Hd e)) -> In h (map Hd lr')).
Proof.
  intros Hc. induction rest as [|nxt more IH]; intros ll lr HF HG.
  - exists ll, lr. cbn [ia_fold]. split; [reflexivity|]. split; [exact HG|]. intros h H _ _. exact H.
  - inversion HF as [|? ? Hn HF']; subst. cbn [ia_fold].
    destruct (ia_pair_ok curr nxt Hc Hn) as (lhs & rhs & Ep & S1 & S2 & M1 & M2 & L1 & L2 & Hkeep & _).
    rewrite Ep. cbn [abind fst snd].
    destruct HG as (G1 & G2 & G3 & G4 & G5 & G6 & G7).
    assert (Lc : N.of_nat (length curr) < 2^50) by (destruct Hc as (_ & _ & H); exact H).
    assert (Ln : N.of_nat (length nxt) < 2^50) by (destruct Hn as (_ & _ & H); exact H).
    assert (Ll : N.of_nat (length lhs) < 2^53) by (change (2^53) with 9007199254740992; change (2^50) with 1125899906842624 in *; lia).
    assert (Lr : N.of_nat (length rhs) < 2^53) by (change (2^53) with 9007199254740992; change (2^50) with 1125899906842624 in *; lia).
    destruct (drop_take ll lhs G1 G3 S1 M1 G5 Ll) as (il & Eil & A1 & A2 & A3 & A4 & _).
    destruct (drop_take lr rhs G2 G4 S2 M2 G6 Lr) as (ir & Eir & B1 & B2 & B3 & _ & B5).
    rewrite Eil, Eir. cbn [lift abind].
    destruct (IH (take_idx ll (fst il)) (take_idx lr (fst ir)) HF') as (ll' & lr' & E & HG' & Hk').
    { repeat split; try assumption; try lia. intros x Hx. apply G7. apply A4. exact Hx. }
    exists ll', lr'. split; [exact E|]. split; [exact HG'|].
    intros h H1 H2 H3. apply Hk'; [|exact H2|intros e He; apply H3; right; exact He].
    apply B5; [exact H1|]. apply Hkeep; [exact H2|]. apply H3. left. reflexivity.
Qed.

Lemma ia_fold_top curr nxt more : PL curr -> Forall PL (nxt :: more) ->
  exists ll lr, ia_fold curr (nxt :: more) None = AOk (Some (ll, lr)) /\ Good curr ll lr /\
    (forall h, In h (map Hd curr) -> (forall e, In e (nxt :: more) -> In h (map Hd e) \/ In (h + 2^18) (map Hd e)) -> In h (map Hd lr)).
Proof.
  intros Hc HF. inversion HF as [|? ? Hn HF']; subst. cbn [ia_fold].
  destruct (ia_pair_ok curr nxt Hc Hn) as (lhs & rhs & Ep & S1 & S2 & M1 & M2 & L1 & L2 & Hkeep & Hlow).
  rewrite Ep. cbn [abind].
  assert (Lc : N.of_nat (length curr) < 2^50) by (destruct Hc as (_ & _ & H); exact H).
  assert (Ln : N.of_nat (length nxt) < 2^50) by (destruct Hn as (_ & _ & H); exact H).
  destruct (ia_fold_ok curr Hc more lhs rhs HF') as (ll & lr & E & HG & Hk).
  { repeat split; try assumption; change (2^53) with 9007199254740992; change (2^50) with 1125899906842624 in *; lia. }
  exists ll, lr. split; [exact E|]. split; [exact HG|].
  intros h H1 H2. apply Hk; [|exact H1|intros e He; apply H2; right; exact He].
  apply Hkeep; [exact H1|]. apply H2. left. reflexivity.
Qed.

(* ---- the candidate headers and the slices ---- *)
Lemma mrgd_ssle : forall l r, SSle l -> SSle r -> SSle (mrgd l r).
Proof.
  unfold SSle. induction l as [|x l IHl]; intros r Hl Hr; [rewrite mrgd_nil_l; exact Hr|].
  induction r as [|y r IHr]; [rewrite mrgd_nil_r; exact Hl|].
  rewrite mrgd_cons. inversion Hl as [|? ? Hl1 Hl2]; inversion Hr as [|? ? Hr1 Hr2]; subst.
  rewrite Forall_forall in Hl2, Hr2.
  destruct (N.ltb_spec x y); [|destruct (N.ltb_spec y x)].
  - constructor; [apply IHl; assumption|].
    apply Forall_forall. intros z Hz. rewrite mrgd_In in Hz. destruct Hz as [Hz|[Hz|Hz]].
    + apply Hl2; assumption. + subst; lia. + apply Hr2 in Hz. lia.
  - constructor; [apply IHr; assumption|].
    apply Forall_forall. intros z Hz. rewrite mrgd_In in Hz. destruct Hz as [[Hz|Hz]|Hz].
    + subst; lia. + apply Hl2 in Hz. lia. + apply Hr2; assumption.
  - assert (x = y) by lia. subst y.
    constructor; [apply IHl; assumption|].
    apply Forall_forall. intros z Hz. rewrite mrgd_In in Hz. destruct Hz as [Hz|Hz]; auto.
Qed.

Lemma mrgd_length : forall l r, (length (mrgd l r) <= length l + length r)%nat.
Proof.
  induction l as [|x l IHl]; intros r; [rewrite mrgd_nil_l; cbn; lia|].
  induction r as [|y r IHr]; [rewrite mrgd_nil_r; cbn; lia|].
  rewrite mrgd_cons. destruct (x <? y); [|destruct (y <? x)]; cbn [length].
  - specialize (IHl (y :: r)). cbn [length] in IHl. lia.
  - cbn [length] in IHr. lia.
  - specialize (IHl r). lia.
Qed.

Lemma wadd_unit x : sm x -> wadd x hdr_unit = x + 2^18.
Proof. intros H. unfold wadd. rewrite hdr_unit_val. apply N.mod_small. exact H. Qed.
Lemma wsub_unit x : 2^18 <= x -> x < 2^64 -> wsub x hdr_unit = x - 2^18.
Proof.
  intros H1 H2. unfold wsub. rewrite hdr_unit_val. change W64 with (2^64). rewrite (N.mod_small (2^18)) by reflexivity.
  replace (x + 2^64 - 2^18) with ((x - 2^18) + 1 * 2^64) by lia. rewrite N.mod_add by discriminate. apply N.mod_small. lia.
Qed.

Lemma headers_ok curr ll lr : Good curr ll lr -> (forall w, In w curr -> 2^18 <= Hd w) ->
  let m3 := mrgd lr (mrgd ll (mrgd (map (fun h => wadd h hdr_unit) lr) (map (fun h => wsub h hdr_unit) ll))) in
  let hs := map (fun h => N.land h header_mask) m3 in
  SSle hs /\ lt64 hs /\ N.of_nat (length hs) < 2^56 /\
  (forall h, In h (map Hd lr) -> In h hs /\ In (h + 2^18) hs).
Proof.
  intros (G1 & G2 & G3 & G4 & G5 & G6 & G7) NW m3 hs.
  assert (Hlow : forall x, In x ll -> 2^18 <= x).
  { intros x Hx. destruct (G7 x Hx) as [H|H]; [exact H|]. apply in_map_iff in H. destruct H as (w & Hw & Hin).
    specialize (NW w Hin). rewrite Hw in NW. rewrite Forall_forall in G3. pose proof (Hd_le x (sm_lt64 x (G3 x Hx))). lia. }
  set (to_rhs := map (fun h => wadd h hdr_unit) lr) in *. set (to_lhs := map (fun h => wsub h hdr_unit) ll) in *.
  assert (Er : to_rhs = map (fun h => h + 2^18) lr).
  { unfold to_rhs. apply map_ext_in. intros x Hx. apply wadd_unit. rewrite Forall_forall in G4. apply G4, Hx. }
  assert (El : to_lhs = map (fun h => h - 2^18) ll).
  { unfold to_lhs. apply map_ext_in. intros x Hx. apply wsub_unit; [apply Hlow, Hx|]. rewrite Forall_forall in G3. apply sm_lt64, G3, Hx. }
  assert (Sr : SSle to_rhs) by (rewrite Er; apply ss_map_mono; [intros; lia|exact G2]).
  assert (Sl : SSle to_lhs).
  { rewrite El. apply ss_map_mono; [|exact G1]. intros x y Hx Hy Hxy. pose proof (Hlow x Hx). pose proof (Hlow y Hy). lia. }
  assert (R64 : lt64 to_rhs).
  { rewrite Er. apply Forall_forall. intros z Hz. apply in_map_iff in Hz. destruct Hz as (x & Ez & Hx). rewrite Forall_forall in G4.
    specialize (G4 x Hx). unfold sm in G4. subst z. exact G4. }
  assert (L64 : lt64 to_lhs).
  { rewrite El. apply Forall_forall. intros z Hz. apply in_map_iff in Hz. destruct Hz as (x & Ez & Hx). rewrite Forall_forall in G3.
    pose proof (sm_lt64 x (G3 x Hx)). subst z. lia. }
  assert (M64 : forall l r, lt64 l -> lt64 r -> lt64 (mrgd l r)).
  { intros l r Hl Hr. apply Forall_forall. intros z Hz. apply mrgd_In in Hz. unfold lt64 in *. rewrite Forall_forall in Hl, Hr. destruct Hz; auto. }
  assert (S3 : SSle m3) by (unfold m3; repeat apply mrgd_ssle; assumption).
  assert (T64 : lt64 m3) by (unfold m3; repeat apply M64; try assumption; apply Forall_sm_lt64; assumption).
  assert (Len : (length m3 <= 2 * length lr + 2 * length ll)%nat).
  { unfold m3. pose proof (mrgd_length lr (mrgd ll (mrgd to_rhs to_lhs))). pose proof (mrgd_length ll (mrgd to_rhs to_lhs)).
    pose proof (mrgd_length to_rhs to_lhs). unfold to_rhs, to_lhs in *. rewrite !map_length in *. lia. }
  split.
  { unfold hs. apply (ss_map_mono (fun h => N.land h header_mask)); [|exact S3]. intros x y Hx Hy Hxy. apply (Hd_mono x y Hxy).
    unfold lt64 in T64. rewrite Forall_forall in T64. apply T64, Hy. }
  split.
  { unfold hs. apply Forall_forall. intros z Hz. apply in_map_iff in Hz. destruct Hz as (x & <- & Hx).
    unfold lt64 in T64. rewrite Forall_forall in T64. pose proof (Hd_le x (T64 x Hx)). specialize (T64 x Hx). unfold Hd in *. lia. }
  split.
  { unfold hs. rewrite map_length. change (2^56) with 72057594037927936. change (2^53) with 9007199254740992 in *. lia. }
  intros h Hh. apply in_map_iff in Hh. destruct Hh as (x & <- & Hx). split.
  - unfold hs. apply (in_map (fun h => N.land h header_mask)). unfold m3. apply mrgd_In. left. exact Hx.
  - rewrite Forall_forall in G4. rewrite <- (Hd_add_unit x (G4 x Hx)).
    unfold hs. apply (in_map (fun h => N.land h header_mask)). unfold m3. apply mrgd_In. right. apply mrgd_In. right. apply mrgd_In. left.
    rewrite Er. apply (in_map (fun h => h + 2^18)). exact Hx.
Qed.

Lemma mvals_wmask_id l : lt64 l -> mvals l wmask = l.
Proof.
  intros H. unfold mvals. rewrite <- (map_id l) at 2. apply map_ext_in. intros x Hx. apply land_wmask.
  unfold lt64 in H. rewrite Forall_forall in H. apply H, Hx.
Qed.

Lemma PL_hdr_ss e : PL e -> SSle (map header_of e) /\ lt64 (map header_of e).
Proof.
  intros HP. pose proof (Forall_sm_lt64 e (PL_sm e HP)) as H64. split.
  - replace (map header_of e) with (map Hd e) by (apply map_ext; intros; symmetry; apply header_of_Hd).
    apply sslt_ssle. destruct HP as (_ & H & _). exact H.
  - apply Forall_forall. intros z Hz. apply in_map_iff in Hz. destruct Hz as (w & <- & Hw). unfold lt64 in H64. rewrite Forall_forall in H64.
    rewrite (header_of_Hd w). pose proof (Hd_le w (H64 w Hw)). specialize (H64 w Hw). lia.
Qed.

Lemma slice_ok e hs : PL e -> SSle hs -> lt64 hs -> N.of_nat (length hs) < 2^62 ->
  exists idxs, slice_header e hs = Done (take_idx e idxs) /\ StronglySorted N.lt idxs /\
    Forall (fun a => a < N.of_nat (length e)) idxs /\
    (forall a, a < N.of_nat (length e) -> In (Hd (nth (N.to_nat a) e 0)) hs -> In a idxs).
Proof.
  intros HP Hs H64 Hlen. destruct (PL_hdr_ss e HP) as [Se S64].
  unfold slice_header.
  rewrite (intersect_keep_correct hs (map header_of e) wmask).
  2:{ apply ss_msorted_w; assumption. } 2:{ apply ss_msorted_w; assumption. } 2:{ exact Hlen. }
  2:{ rewrite map_length. apply PL_len62. exact HP. }
  cbn [bind]. unfold intersect_keep_spec. cbn [snd].
  rewrite (mvals_wmask_id hs H64), (mvals_wmask_id (map header_of e) S64).
  eexists. split; [reflexivity|]. split; [apply filt_sorted|].
  split.
  - apply Forall_forall. intros a Ha. apply (filt_in (fun v => mem_n v hs)) in Ha. destruct Ha as [Ha _]. rewrite map_length in Ha. exact Ha.
  - intros a Ha Hin. apply (filt_in (fun v => mem_n v hs)). rewrite map_length. split; [exact Ha|].
    unfold mem_n. apply existsb_exists. exists (Hd (nth (N.to_nat a) e 0)). split; [exact Hin|].
    apply N.eqb_eq. change 0 with (header_of 0) at 1. rewrite map_nth. apply header_of_Hd.
Qed.

Definition kept_spec (curr : list N) (rest : list (list N)) (e s : list N) : Prop :=
  exists idxs, s = take_idx e idxs /\ StronglySorted N.lt idxs /\ Forall (fun a => a < N.of_nat (length e)) idxs /\
    (forall a h, a < N.of_nat (length e) ->
       (Hd (nth (N.to_nat a) e 0) = h \/ Hd (nth (N.to_nat a) e 0) = h + 2^18) ->
       In h (map Hd curr) -> (forall e', In e' rest -> In h (map Hd e') \/ In (h + 2^18) (map Hd e')) -> In a idxs).

Lemma slice_all_ok hs : SSle hs -> lt64 hs -> N.of_nat (length hs) < 2^62 -> forall encs, Forall PL encs ->
  exists sl, slice_all_headers encs hs = AOk sl /\
    Forall2 (fun e s => exists idxs, s = take_idx e idxs /\ StronglySorted N.lt idxs /\ Forall (fun a => a < N.of_nat (length e)) idxs /\
                         (forall a, a < N.of_nat (length e) -> In (Hd (nth (N.to_nat a) e 0)) hs -> In a idxs)) encs sl.
Proof.
  intros Hs H64 Hl. induction encs as [|e rest IH]; intros HF.
  - exists []. split; [reflexivity|constructor].
  - inversion HF as [|? ? He HF']; subst. destruct (slice_ok e hs He Hs H64 Hl) as (idxs & E & I1 & I2 & I3).
    destruct (IH HF') as (sl & Esl & F2). exists (take_idx e idxs :: sl). cbn [slice_all_headers]. rewrite E. cbn [lift abind]. rewrite Esl. cbn [abind].
    split; [reflexivity|]. constructor; [|exact F2]. exists idxs. repeat split; assumption.
Qed.

Lemma F2_impl {A B} (P Q : A -> B -> Prop) l1 l2 : (forall a b, P a b -> Q a b) -> Forall2 P l1 l2 -> Forall2 Q l1 l2.
Proof. intros H F. induction F; constructor; auto. Qed.

(* ---------- T3: _intersect_all keeps the left bucket of every shared/adjacent alignment, and its right neighbour ---------- *)
Theorem intersect_all_keeps curr nxt more : Forall PL (curr :: nxt :: more) -> (forall w, In w curr -> 2^18 <= Hd w) ->
  exists sl, intersect_all (curr :: nxt :: more) = AOk (concat sl, cum 0 sl) /\
    Forall2 (kept_spec curr (nxt :: more)) (curr :: nxt :: more) sl.
Proof.
  intros HF NW. inversion HF as [|? ? Hc HF']; subst.
  destruct (ia_fold_top curr nxt more Hc HF') as (ll & lr & Efold & HG & Hkeep).
  unfold intersect_all. rewrite Efold. cbn [abind]. cbv zeta.
  rewrite merge_drop_model. cbn [lift abind]. rewrite merge_drop_model. cbn [lift abind]. rewrite merge_drop_model. cbn [lift abind].
  destruct (headers_ok curr ll lr HG NW) as (Hs & H64 & Hlen & Hin). cbv zeta in Hs, H64, Hlen, Hin. cbv zeta.
  set (hs := map (fun h => N.land h header_mask) _) in *.
  assert (Hlen62 : N.of_nat (length hs) < 2^62) by (eapply N.lt_trans; [exact Hlen|reflexivity]).
  destruct (slice_all_ok hs Hs H64 Hlen62 (curr :: nxt :: more) HF) as (sl & Esl & F2).
  rewrite Esl. cbn [abind]. exists sl. split.
  - f_equal. f_equal. apply (fold_cum sl [] 0).
  - eapply F2_impl; [|exact F2]. intros e s (idxs & E1 & E2 & E3 & E4). exists idxs. repeat split; try assumption.
    intros a h Ha Hh Hc' Hall. apply E4; [exact Ha|].
    pose proof (Hin h (Hkeep h Hc' Hall)) as [K1 K2]. destruct Hh as [-> | ->]; assumption.
Qed.

(* ---------- L4: what the words of a correct index say about the documents ---------- *)
Lemma ctz_pos_spec : forall p,
  N.testbit (Npos p) (ctz_pos p) = true /\ (forall k, k < ctz_pos p -> N.testbit (Npos p) k = false) /\
  (forall k, N.testbit (N.land (Npos p) (Pos.pred_N p)) k = andb (N.testbit (Npos p) k) (negb (k =? ctz_pos p))).
Proof.
  induction p as [p IH|p IH|].
  - cbn [ctz_pos]. split; [reflexivity|]. split; [intros k Hk; lia|].
    intros k. change (Pos.pred_N p~1) with (Npos p~0).
    replace (N.land (Npos p~1) (Npos p~0)) with (Npos p~0).
    2:{ change (N.land (Npos p~1) (Npos p~0)) with (Pos.Ndouble (N.land (Npos p) (Npos p))). rewrite N.land_diag. reflexivity. }
    destruct (N.eqb_spec k 0) as [->|Hk]; cbn [negb]; [reflexivity|].
    rewrite andb_true_r. replace k with (N.succ (N.pred k)) by lia.
    change (Npos p~0) with (2 * Npos p). change (Npos p~1) with (2 * Npos p + 1).
    rewrite N.testbit_even_succ, N.testbit_odd_succ by lia. reflexivity.
  - destruct IH as (I1 & I2 & I3). cbn [ctz_pos]. change (Npos p~0) with (2 * Npos p).
    split; [rewrite N.testbit_even_succ by lia; exact I1|]. split.
    + intros k Hk. destruct (N.eq_dec k 0) as [->|Hk0]; [apply N.testbit_even_0|].
      replace k with (N.succ (N.pred k)) by lia. rewrite N.testbit_even_succ by lia. apply I2. lia.
    + intros k.
      replace (N.land (2 * Npos p) (Pos.pred_N p~0)) with (2 * N.land (Npos p) (Pos.pred_N p)).
      2:{ change (Pos.pred_N p~0) with (Npos (Pos.pred_double p)).
          change (N.land (2 * Npos p) (Npos (Pos.pred_double p))) with (Pos.land p~0 (Pos.pred_double p)).
          replace (Pos.land p~0 (Pos.pred_double p)) with (Pos.Ndouble (N.land (Npos p) (Pos.pred_N p))) by (destruct p; reflexivity).
          destruct (N.land (N.pos p) (Pos.pred_N p)); reflexivity. }
      destruct (N.eq_dec k 0) as [->|Hk0].
      * rewrite !N.testbit_even_0. reflexivity.
      * replace k with (N.succ (N.pred k)) by lia. rewrite !N.testbit_even_succ by lia. rewrite I3.
        f_equal. f_equal. destruct (N.eqb_spec (N.pred k) (ctz_pos p)), (N.eqb_spec (N.succ (N.pred k)) (N.succ (ctz_pos p))); try reflexivity; lia.
  - cbn [ctz_pos]. split; [reflexivity|]. split; [intros k Hk; lia|].
    intros k. cbn [Pos.pred_N]. rewrite N.land_0_r, N.bits_0.
    destruct (N.eqb_spec k 0) as [->|Hk]; cbn [negb]; [reflexivity|].
    rewrite andb_true_r. symmetry. apply (N.bits_above_log2 1 k). cbn. lia.
Qed.

Lemma bits_of_spec : forall fuel x, (N.to_nat (popcount x) <= fuel)%nat ->
  (forall b, In b (bits_of fuel x) <-> N.testbit x b = true) /\ StronglySorted N.lt (bits_of fuel x).
Proof.
  induction fuel as [|f IH]; intros x Hf.
  - assert (x = 0). { destruct x as [|p]; [reflexivity|]. pose proof (pop_clear' (Npos p) ltac:(discriminate)). lia. }
    subst x. cbn [bits_of]. split; [|constructor]. intros b. rewrite N.bits_0. split; [intros []|discriminate].
  - cbn [bits_of]. destruct (N.eqb_spec x 0) as [->|Hne].
    + split; [|constructor]. intros b. rewrite N.bits_0. split; [intros []|discriminate].
    + pose proof (pop_clear' x Hne) as Hpc. destruct x as [|p]; [congruence|].
      destruct (ctz_pos_spec p) as (C1 & C2 & C3).
      assert (Eland : N.land (Npos p) (Npos p - 1) = N.land (Npos p) (Pos.pred_N p)) by (rewrite N.sub_1_r, <- N.pos_pred_spec; reflexivity).
      destruct (IH (N.land (Npos p) (Npos p - 1)) ltac:(lia)) as [I1 I2].
      cbn [ctz]. split.
      * intros b. cbn [In]. rewrite I1, Eland, C3. split.
        -- intros [<-|H]; [exact C1|]. apply andb_true_iff in H. tauto.
        -- intros H. destruct (N.eqb_spec b (ctz_pos p)) as [->|Hb]; [left; reflexivity|right]. rewrite H. reflexivity.
      * constructor; [exact I2|]. apply Forall_forall. intros b Hb. apply I1 in Hb. rewrite Eland, C3 in Hb.
        apply andb_true_iff in Hb. destruct Hb as [Hb1 Hb2]. apply negb_true_iff, N.eqb_neq in Hb2.
        destruct (N.lt_trichotomy b (ctz_pos p)) as [Hlt|[E|Hgt]]; [|congruence|exact Hgt].
        rewrite (C2 b Hlt) in Hb1. discriminate.
Qed.

Lemma bits18_in b : In b bits18 <-> b < 18.
Proof.
  split; [apply bits18_lt|]. intros H. unfold bits18. apply in_map_iff. exists (N.to_nat b). split; [lia|]. apply in_seq. lia.
Qed.

Lemma wpay_bit w b : N.testbit (wpay w) b = andb (N.testbit w b) (b <? 18).
Proof.
  unfold wpay. replace (wnot header_mask) with (N.ones 18) by (vm_compute; reflexivity).
  rewrite N.land_spec, ones_bit. reflexivity.
Qed.

Lemma wbase_msb w : wbase w = dec_msb w * lsb_bits.
Proof. reflexivity. Qed.

Lemma wcs_in w c : In c (wcs w) <-> exists b, b < 18 /\ N.testbit w b = true /\ c = b + wbase w.
Proof.
  unfold wcs. rewrite in_map_iff. pose proof (wpay_pc w) as Hpc.
  destruct (bits_of_spec 70 (wpay w) ltac:(lia)) as [Hin _]. split.
  - intros (b & <- & Hb). apply Hin in Hb. rewrite wpay_bit in Hb. apply andb_true_iff in Hb. destruct Hb as [Hb1 Hb2].
    apply N.ltb_lt in Hb2. exists b. repeat split; assumption.
  - intros (b & Hb & Ht & ->). exists b. split; [reflexivity|]. apply Hin. rewrite wpay_bit, Ht. apply N.ltb_lt in Hb. rewrite Hb. reflexivity.
Qed.

Lemma wcs_rows w c : In c (wcs w) <-> In (dkey w, c) (word_rows w).
Proof.
  rewrite wcs_in. unfold word_rows. rewrite in_map_iff. split.
  - intros (b & Hb & Ht & ->). exists b. split; [rewrite wbase_msb; reflexivity|].
    apply filter_In. split; [apply bits18_in; exact Hb|]. rewrite land_bit_test. exact Ht.
  - intros (b & E & Hb). apply filter_In in Hb. destruct Hb as [Hb1 Hb2]. rewrite land_bit_test in Hb2.
    apply bits18_in in Hb1. injection E as E. exists b. repeat split; try assumption. rewrite wbase_msb. symmetry. exact E.
Qed.

(* positions of a term in a document *)
Lemma offsets_spec t : forall d j q, In q (offsets_from j t d) <-> j <= q /\ nth_error d (N.to_nat (q - j)) = Some t.
Proof.
  induction d as [|x d IH]; intros j q; cbn [offsets_from].
  - split; [intros []|]. intros [_ H]. destruct (N.to_nat (q - j)); discriminate.
  - destruct (N.eqb_spec x t) as [->|Hne].
    + cbn [In]. rewrite IH. split.
      * intros [<-|[H1 H2]].
        -- split; [lia|]. replace (N.to_nat (j - j)) with O by lia. reflexivity.
        -- split; [lia|]. replace (N.to_nat (q - j)) with (S (N.to_nat (q - (j + 1)))) by lia. exact H2.
      * intros [H1 H2]. destruct (N.eq_dec q j) as [->|Hq]; [left; reflexivity|right].
        split; [lia|]. replace (N.to_nat (q - j)) with (S (N.to_nat (q - (j + 1)))) in H2 by lia. exact H2.
    + rewrite IH. split.
      * intros [H1 H2]. split; [lia|]. replace (N.to_nat (q - j)) with (S (N.to_nat (q - (j + 1)))) by lia. exact H2.
      * intros [H1 H2]. destruct (N.eq_dec q j) as [->|Hq].
        -- replace (N.to_nat (j - j)) with O in H2 by lia. cbn in H2. congruence.
        -- split; [lia|]. replace (N.to_nat (q - j)) with (S (N.to_nat (q - (j + 1)))) in H2 by lia. exact H2.
Qed.

Lemma tp_from_spec t : forall docs i k q, In (k, q) (tp_from i docs t) <->
  i <= k /\ nth_error (nth (N.to_nat (k - i)) docs []) (N.to_nat q) = Some t /\ (N.to_nat (k - i) < length docs)%nat.
Proof.
  induction docs as [|d r IH]; intros i k q; cbn [tp_from].
  - split; [intros []|]. intros (_ & _ & H). cbn in H. lia.
  - rewrite in_app_iff, in_map_iff, IH. split.
    + intros [(p & E & Hp)|(H1 & H2 & H3)].
      * injection E as <- <-. apply offsets_spec in Hp. destruct Hp as [_ Hp]. rewrite N.sub_0_r in Hp.
        split; [lia|]. replace (N.to_nat (i - i)) with O by lia. cbn [nth length]. split; [exact Hp|lia].
      * split; [lia|]. replace (N.to_nat (k - i)) with (S (N.to_nat (k - (i + 1)))) by lia. cbn [nth length]. split; [exact H2|lia].
    + intros (H1 & H2 & H3). destruct (N.eq_dec k i) as [->|Hk].
      * left. exists q. split; [reflexivity|]. apply offsets_spec. split; [lia|]. rewrite N.sub_0_r.
        replace (N.to_nat (i - i)) with O in H2 by lia. exact H2.
      * right. replace (N.to_nat (k - i)) with (S (N.to_nat (k - (i + 1)))) in H2, H3 by lia. cbn [nth length] in H2, H3.
        split; [lia|]. split; [exact H2|lia].
Qed.

(* an exact occurrence: a start offset *)
Lemma prefix_eqb_spec : forall ph d, prefix_eqb ph d = true -> forall k, (k < length ph)%nat -> nth_error d k = Some (nth k ph 0).
Proof.
  induction ph as [|x ph IH]; intros d H k Hk; [cbn in Hk; lia|].
  destruct d as [|y d]; cbn [prefix_eqb] in H; [discriminate|]. apply andb_true_iff in H. destruct H as [H1 H2].
  apply N.eqb_eq in H1. subst y. destruct k as [|k]; [reflexivity|]. cbn [nth_error nth]. apply IH; [exact H2|cbn [length] in Hk; lia].
Qed.

Lemma occ_pos : forall ph d, occ ph d > 0 -> exists p, forall k, (k < length ph)%nat -> nth_error d (p + k) = Some (nth k ph 0).
Proof.
  induction d as [|x d IH]; intros H; cbn [occ] in H; [lia|].
  destruct (prefix_eqb ph (x :: d)) eqn:E.
  - exists O. intros k Hk. cbn [Nat.add]. apply prefix_eqb_spec; assumption.
  - destruct IH as (p & Hp); [lia|]. exists (S p). intros k Hk. cbn [Nat.add nth_error]. apply Hp. exact Hk.
Qed.

(* ---- words of the form word_of k b s ---- *)
Lemma dkey_word k b s : k < 2^28 -> b < 2^18 -> s < 2^18 -> dkey (word_of k b s) = k.
Proof. intros. apply (dec_key_word k b s); assumption. Qed.
Lemma wbase_word k b s : b < 2^18 -> s < 2^18 -> wbase (word_of k b s) = b * 18.
Proof. intros Hb Hs. rewrite wbase_msb, dec_msb_word by assumption. reflexivity. Qed.

Lemma wform_b w k b s : w = word_of k b s -> b * 18 < 2^18 -> b < 2^18.
Proof. intros _ H. lia. Qed.

Lemma wcs_word k b s c : k < 2^28 -> b * 18 < 2^18 -> s < 2^18 ->
  (In c (wcs (word_of k b s)) <-> exists bit, bit < 18 /\ N.testbit s bit = true /\ c = bit + b * 18).
Proof.
  intros Hk Hb Hs. assert (Hb' : b < 2^18) by lia. rewrite wcs_in, wbase_word by assumption. split.
  - intros (bit & H1 & H2 & H3). exists bit. repeat split; try assumption.
    rewrite <- (lsb_of_word k b s Hs). rewrite N.land_spec, H2. change 262143 with (N.ones 18). rewrite ones_bit.
    apply N.ltb_lt in H1. rewrite H1. reflexivity.
  - intros (bit & H1 & H2 & H3). exists bit. repeat split; try assumption.
    rewrite <- (lsb_of_word k b s Hs) in H2. rewrite N.land_spec in H2. apply andb_true_iff in H2. tauto.
Qed.

Lemma wcs_sorted w : StronglySorted N.lt (wcs w).
Proof.
  unfold wcs. pose proof (wpay_pc w) as Hpc. destruct (bits_of_spec 70 (wpay w) ltac:(lia)) as [_ Hs].
  induction Hs as [|x l Hs IH Hf]; cbn [map]; [constructor|]. constructor; [exact IH|].
  apply Forall_forall. intros y Hy. apply in_map_iff in Hy. destruct Hy as (z & <- & Hz). rewrite Forall_forall in Hf. specialize (Hf z Hz). lia.
Qed.

(* ---- lengths ---- *)
Lemma enc_aux_len : forall ps cur, (length (encode_aux cur ps) <= length ps + match cur with Some _ => 1 | None => 0 end)%nat.
Proof.
  induction ps as [|[k p] rest IH]; intros cur; cbn [encode_aux length].
  - destruct cur as [[[k0 b0] s0]|]; cbn; lia.
  - destruct cur as [[[k0 b0] s0]|].
    + destruct ((k =? k0) && (p / 18 =? b0)).
      * pose proof (IH (Some (k0, b0, N.lor s0 (onehot p)))) as H. cbv beta iota in H. lia.
      * cbn [length]. pose proof (IH (Some (k, p / 18, onehot p))) as H. cbv beta iota in H. lia.
    + pose proof (IH (Some (k, p / 18, onehot p))) as H. cbv beta iota in H. lia.
Qed.
Lemma enc_len ps : (length (encode_spec ps) <= length ps)%nat.
Proof. unfold encode_spec. pose proof (enc_aux_len ps None) as H. cbv beta iota in H. lia. Qed.

Lemma concat_len_bound c : forall docs : list (list N), Forall (fun d => N.of_nat (length d) <= c) docs ->
  N.of_nat (length (concat docs)) <= c * N.of_nat (length docs).
Proof.
  induction docs as [|d r IH]; intros HF; cbn [concat length]; [lia|]. inversion HF; subst. rewrite app_length. specialize (IH H2). lia.
Qed.

Lemma posting_PL docs t : wf_docs docs -> PL (encode_spec (tp_from 0 docs t)).
Proof.
  intros Hwf. destruct (tp_wf docs Hwf t) as [Hs Hb]. split; [apply enc_wform; assumption|]. split.
  - destruct (encode_canonical _ Hs Hb) as [H _].
    replace (map Hd (encode_spec (tp_from 0 docs t))) with (map header_of (encode_spec (tp_from 0 docs t))); [exact H|].
    apply map_ext. intros. apply header_of_Hd.
  - pose proof (enc_len (tp_from 0 docs t)). pose proof (tp_length_le t docs 0). destruct Hwf as [W1 W2].
    pose proof (concat_len_bound 262143 docs W1). change (2^50) with 1125899906842624. change (2^28) with 268435456 in W2. nia.
Qed.

(* ---- what a posting word says about the documents, and back ---- *)
Lemma posting_pos docs t w c : wf_docs docs -> In w (encode_spec (tp_from 0 docs t)) -> In c (wcs w) ->
  nth_error (nth (N.to_nat (dkey w)) docs []) (N.to_nat c) = Some t /\ (N.to_nat (dkey w) < length docs)%nat.
Proof.
  intros Hwf Hw Hc. destruct (tp_wf docs Hwf t) as [Hs Hb].
  apply wcs_rows in Hc.
  assert (Hin : In (dkey w, c) (tp_from 0 docs t)).
  { rewrite <- (rows_encode_spec _ Hs Hb). apply in_flat_map. exists w. split; assumption. }
  apply tp_from_spec in Hin. destruct Hin as (_ & H1 & H2). rewrite N.sub_0_r in H1, H2. split; assumption.
Qed.

Lemma posting_has docs t dd q : wf_docs docs -> (dd < length docs)%nat -> nth_error (nth dd docs []) q = Some t ->
  exists w, In w (encode_spec (tp_from 0 docs t)) /\ dkey w = N.of_nat dd /\ In (N.of_nat q) (wcs w).
Proof.
  intros Hwf Hd Hq. destruct (tp_wf docs Hwf t) as [Hs Hb].
  assert (Hin : In (N.of_nat dd, N.of_nat q) (tp_from 0 docs t)).
  { apply tp_from_spec. rewrite N.sub_0_r, !Nat2N.id. split; [lia|]. split; assumption. }
  rewrite <- (rows_encode_spec _ Hs Hb) in Hin. apply in_flat_map in Hin. destruct Hin as (w & Hw & Hrow).
  exists w. split; [exact Hw|].
  assert (Hk : dkey w = N.of_nat dd).
  { unfold word_rows in Hrow. apply in_map_iff in Hrow. destruct Hrow as (bit & E & _). injection E as E1 _. exact E1. }
  split; [exact Hk|]. apply wcs_rows. rewrite Hk. exact Hrow.
Qed.

(* ---- splitting a key-sorted segment around document d ---- *)
Lemma filter_nil_all {A} (f : A -> bool) l : (forall x, In x l -> f x = false) -> filter f l = [].
Proof. induction l as [|x l IH]; intros H; cbn [filter]; [reflexivity|]. rewrite (H x (or_introl eq_refl)). apply IH. intros y Hy. apply H. right. exact Hy. Qed.

Lemma split3 dN : forall s, StronglySorted (fun x y => dkey x <= dkey y) s ->
  s = filter (fun w => dkey w <? dN) s ++ filter (fun w => dkey w =? dN) s ++ filter (fun w => dN <? dkey w) s.
Proof.
  induction 1 as [|x s Hs IH Hf]; [reflexivity|]. cbn [filter]. rewrite Forall_forall in Hf.
  destruct (N.ltb_spec (dkey x) dN) as [H1|H1].
  - assert (E2 : (dkey x =? dN) = false) by (apply N.eqb_neq; lia). assert (E3 : (dN <? dkey x) = false) by (apply N.ltb_ge; lia).
    rewrite E2, E3. cbn [app]. f_equal. exact IH.
  - destruct (N.eqb_spec (dkey x) dN) as [H2|H2].
    + assert (E3 : (dN <? dkey x) = false) by (apply N.ltb_ge; lia). rewrite E3.
      rewrite (filter_nil_all (fun w => dkey w <? dN) s) in * by (intros y Hy; apply N.ltb_ge; specialize (Hf y Hy); lia).
      cbn [app] in *. f_equal. exact IH.
    + assert (E3 : (dN <? dkey x) = true) by (apply N.ltb_lt; lia). rewrite E3.
      rewrite (filter_nil_all (fun w => dkey w <? dN) s) in * by (intros y Hy; apply N.ltb_ge; specialize (Hf y Hy); lia).
      rewrite (filter_nil_all (fun w => dkey w =? dN) s) in * by (intros y Hy; apply N.eqb_neq; specialize (Hf y Hy); lia).
      cbn [app] in *. f_equal. exact IH.
Qed.

Lemma ss_filter {A} (R : A -> A -> Prop) (f : A -> bool) l : StronglySorted R l -> StronglySorted R (filter f l).
Proof.
  induction 1 as [|x l Hs IH Hf]; cbn [filter]; [constructor|]. destruct (f x); [|exact IH].
  constructor; [exact IH|]. apply Forall_forall. intros y Hy. apply filter_In in Hy. rewrite Forall_forall in Hf. apply Hf. tauto.
Qed.

Lemma ss_app (R : N -> N -> Prop) l1 l2 : StronglySorted R l1 -> StronglySorted R l2 -> (forall a b, In a l1 -> In b l2 -> R a b) ->
  StronglySorted R (l1 ++ l2).
Proof.
  induction 1 as [|x l Hs IH Hf]; intros H2 H12; cbn [app]; [exact H2|].
  constructor; [apply IH; [exact H2|intros a b Ha Hb; apply H12; [right; exact Ha|exact Hb]]|].
  apply Forall_forall. intros y Hy. apply in_app_iff in Hy. destruct Hy as [Hy|Hy]; [rewrite Forall_forall in Hf; apply Hf, Hy|apply H12; [left; reflexivity|exact Hy]].
Qed.

Lemma take_idx_hd_sorted e idxs : StronglySorted N.lt (map Hd e) -> StronglySorted N.lt idxs ->
  Forall (fun a => a < N.of_nat (length e)) idxs -> StronglySorted N.lt (map Hd (take_idx e idxs)).
Proof.
  intros He. induction idxs as [|a idxs IH]; intros Hs Hr; cbn [take_idx map]; [constructor|].
  inversion Hs as [|? ? Hs' Hf]; subst. inversion Hr as [|? ? Ha Hr']; subst.
  constructor; [apply IH; assumption|]. apply Forall_forall. intros y Hy. apply in_map_iff in Hy. destruct Hy as (w & <- & Hw).
  apply take_idx_in in Hw. destruct Hw as (b & Hb & ->). rewrite Forall_forall in Hf, Hr'. specialize (Hf b Hb). specialize (Hr' b Hb).
  pose proof (sslt_nth_lt (map Hd e) (N.to_nat a) (N.to_nat b) He ltac:(lia) ltac:(rewrite map_length; lia)) as H.
  change 0 with (Hd 0) in H at 1 2. rewrite !map_nth in H. exact H.
Qed.

(* keys and buckets of well-formed words *)
Lemma wform_key_le x y : wform x -> wform y -> Hd x < Hd y -> dkey x <= dkey y.
Proof.
  intros (k & b & s & -> & Hk & Hb & Hs & _) (k' & b' & s' & -> & Hk' & Hb' & Hs' & _) H.
  rewrite !Hd_word in H by lia. rewrite !dkey_word by lia. unfold word_of in H. pows. nia.
Qed.

Lemma wform_bucket w dN c : wform w -> dkey w = dN -> In c (wcs w) -> Hd w = word_of dN (c / 18) 0.
Proof.
  intros (k & b & s & -> & Hk & Hb & Hs & _) Hkey Hc. rewrite dkey_word in Hkey by lia. subst k.
  apply wcs_word in Hc; try assumption. destruct Hc as (bit & H1 & _ & ->). rewrite Hd_word by lia.
  f_equal. rewrite N.div_add by discriminate. rewrite N.div_small by exact H1. reflexivity.
Qed.

Lemma run_positions_sorted dN : forall run, Forall wform run -> (forall w, In w run -> dkey w = dN) ->
  StronglySorted N.lt (map Hd run) -> StronglySorted N.lt (concat (map wcs run)).
Proof.
  induction run as [|x run IH]; intros HF Hk Hs; cbn [map concat]; [constructor|].
  inversion HF as [|? ? Hx HF']; subst. cbn [map] in Hs. inversion Hs as [|? ? Hs' Hf]; subst.
  apply ss_app; [apply wcs_sorted|apply IH; [exact HF'|intros w Hw; apply Hk; right; exact Hw|exact Hs']|].
  intros a b Ha Hb. apply in_concat in Hb. destruct Hb as (l & Hl & Hb). apply in_map_iff in Hl. destruct Hl as (y & <- & Hy).
  rewrite Forall_forall in Hf, HF'. specialize (Hf (Hd y) (in_map Hd _ _ Hy)).
  pose proof (Hk x (or_introl eq_refl)) as Kx. pose proof (Hk y (or_intror Hy)) as Ky.
  destruct Hx as (k & bx & sx & -> & Hk1 & Hb1 & Hs1 & _). destruct (HF' y Hy) as (k' & by_ & sy & -> & Hk2 & Hb2 & Hs2 & _).
  rewrite dkey_word in Kx, Ky by lia. subst k k'.
  apply wcs_word in Ha, Hb; try assumption. destruct Ha as (bit1 & A1 & _ & ->). destruct Hb as (bit2 & B1 & _ & ->).
  rewrite !Hd_word in Hf by lia. unfold word_of in Hf. pows. nia.
Qed.

(* ---------- L5: assembling the restricted theorem ---------- *)
Definition tr_of (dN : N) (s : list N) : seg3 :=
  (filter (fun w => dkey w <? dN) s, filter (fun w => dkey w =? dN) s, filter (fun w => dN <? dkey w) s).

Lemma hd_sorted_keys : forall s, Forall wform s -> StronglySorted N.lt (map Hd s) -> StronglySorted (fun x y => dkey x <= dkey y) s.
Proof.
  induction s as [|x s IH]; intros HF Hs; [constructor|]. inversion HF as [|? ? Hx HF']; subst. cbn [map] in Hs.
  inversion Hs as [|? ? Hs' Hf]; subst. constructor; [apply IH; assumption|].
  apply Forall_forall. intros y Hy. rewrite Forall_forall in Hf, HF'. apply wform_key_le; [exact Hx|apply HF', Hy|apply Hf, in_map, Hy].
Qed.

Lemma Forall2_nth {A B} (P : A -> B -> Prop) da db : forall l1 l2, Forall2 P l1 l2 ->
  forall k, (k < length l1)%nat -> P (nth k l1 da) (nth k l2 db).
Proof. induction 1 as [|x y l1 l2 Hxy _ IH]; intros k Hk; cbn [length] in Hk; [lia|]. destruct k; cbn [nth]; [exact Hxy|apply IH; lia]. Qed.
Lemma Forall2_length {A B} (P : A -> B -> Prop) l1 l2 : Forall2 P l1 l2 -> length l1 = length l2.
Proof. induction 1; cbn [length]; congruence. Qed.

(* one sliced segment: a sub-sequence of a posting list that contains a word of document d *)
Section OneSeg.
Variables (docs : list (list N)) (t : N) (dd : nat) (s idxs : list N).
Hypothesis Hwf : wf_docs docs.
Let e := encode_spec (tp_from 0 docs t).
Let dN := N.of_nat dd.
Hypothesis Es : s = take_idx e idxs.
Hypothesis Hidx : StronglySorted N.lt idxs.
Hypothesis Hrange : Forall (fun a => a < N.of_nat (length e)) idxs.

Lemma seg_incl w : In w s -> In w e.
Proof. intros H. rewrite Es in H. apply take_idx_in in H. destruct H as (a & Ha & ->). rewrite Forall_forall in Hrange. specialize (Hrange a Ha). apply nth_In. lia. Qed.

Lemma seg_wform : Forall wform s.
Proof. apply Forall_forall. intros w Hw. apply seg_incl in Hw. destruct (posting_PL docs t Hwf) as (H & _ & _). rewrite Forall_forall in H. apply H, Hw. Qed.

Lemma seg_hd_sorted : StronglySorted N.lt (map Hd s).
Proof. rewrite Es. apply take_idx_hd_sorted; [|exact Hidx|exact Hrange]. destruct (posting_PL docs t Hwf) as (_ & H & _). exact H. Qed.

Lemma seg_split : seg_of (tr_of dN s) = s.
Proof. unfold seg_of, tr_of. symmetry. apply split3. apply hd_sorted_keys; [apply seg_wform|apply seg_hd_sorted]. Qed.

Lemma seg_is_d w : In w s -> dkey w = dN -> seg_d dN (tr_of dN s).
Proof.
  intros Hw Hk. unfold seg_d, tr_of. split; [intros x Hx; apply filter_In in Hx; destruct Hx as [_ Hx]; apply N.ltb_lt; exact Hx|].
  split. { intros E. assert (Hin : In w (filter (fun w0 => dkey w0 =? dN) s)) by (apply filter_In; split; [exact Hw|apply N.eqb_eq; exact Hk]). rewrite E in Hin. destruct Hin. }
  split; [intros x Hx; apply filter_In in Hx; destruct Hx as [_ Hx]; apply N.eqb_eq; exact Hx|].
  destruct (filter (fun w0 => dN <? dkey w0) s) as [|x post] eqn:E; [exact I|].
  assert (Hin : In x (filter (fun w0 => dN <? dkey w0) s)) by (rewrite E; left; reflexivity).
  apply filter_In in Hin. destruct Hin as [_ Hx]. apply N.ltb_lt in Hx. lia.
Qed.

Definition seg_ev : list N := concat (map wcs (filter (fun w => dkey w =? dN) s)).

Lemma seg_ev_pos c : In c seg_ev -> nth_error (nth dd docs []) (N.to_nat c) = Some t.
Proof.
  unfold seg_ev. intros H. apply in_concat in H. destruct H as (l & Hl & Hc). apply in_map_iff in Hl. destruct Hl as (w & <- & Hw).
  apply filter_In in Hw. destruct Hw as [Hw Hk]. apply N.eqb_eq in Hk.
  destruct (posting_pos docs t w c Hwf (seg_incl w Hw) Hc) as [H1 _]. rewrite Hk in H1. unfold dN in H1. rewrite Nat2N.id in H1. exact H1.
Qed.

Lemma seg_ev_lt c : In c seg_ev -> c < N.of_nat (length (nth dd docs [])).
Proof. intros H. apply seg_ev_pos in H. assert (N.to_nat c < length (nth dd docs []))%nat by (apply nth_error_Some; congruence). lia. Qed.

Lemma seg_ev_sorted : StronglySorted N.lt seg_ev.
Proof.
  unfold seg_ev. apply (run_positions_sorted dN).
  - apply Forall_forall. intros w Hw. apply filter_In in Hw. destruct Hw as [Hw _]. pose proof seg_wform as H. rewrite Forall_forall in H. apply H, Hw.
  - intros w Hw. apply filter_In in Hw. destruct Hw as [_ Hk]. apply N.eqb_eq. exact Hk.
  - assert (G : forall l, StronglySorted N.lt (map Hd l) -> StronglySorted N.lt (map Hd (filter (fun w => dkey w =? dN) l))).
    { induction l as [|x l IH]; intros H; cbn [filter map]; [constructor|]. cbn [map] in H. inversion H as [|? ? H' Hf]; subst.
      destruct (dkey x =? dN); [|apply IH; exact H']. cbn [map]. constructor; [apply IH; exact H'|].
      apply Forall_forall. intros y Hy. apply in_map_iff in Hy. destruct Hy as (z & <- & Hz). apply filter_In in Hz. destruct Hz as [Hz _].
      rewrite Forall_forall in Hf. apply Hf. apply in_map. exact Hz. }
    apply G. apply seg_hd_sorted.
Qed.

Lemma seg_ev_len : (length seg_ev <= length (nth dd docs []))%nat.
Proof. apply sslt_len_le; [apply seg_ev_sorted|]. apply Forall_forall. intros c Hc. apply seg_ev_lt. exact Hc. Qed.

Lemma seg_ev_has w c : In w s -> dkey w = dN -> In c (wcs w) -> In c seg_ev.
Proof.
  intros Hw Hk Hc. unfold seg_ev. apply in_concat. exists (wcs w). split; [|exact Hc]. apply in_map. apply filter_In. split; [exact Hw|apply N.eqb_eq; exact Hk].
Qed.
End OneSeg.

Lemma get_all_posts_map ix (f : N -> list N) : forall ts, (forall t, In t ts -> lookup t (ix_posts ix) = Some (f t)) ->
  get_all_posts ix ts = AOk (map f ts).
Proof.
  induction ts as [|t ts IH]; intros H; [reflexivity|]. cbn [get_all_posts map]. unfold get_posts. rewrite (H t (or_introl eq_refl)). cbn [abind].
  rewrite IH by (intros t' Ht'; apply H; right; exact Ht'). reflexivity.
Qed.

Lemma some_bit s : s <> 0 -> s < 2^18 -> exists bit, bit < 18 /\ N.testbit s bit = true.
Proof.
  intros Hnz Hs. exists (N.log2 s). split; [apply N.log2_lt_pow2; lia|apply N.bit_log2; exact Hnz].
Qed.

Lemma nth_map' {A B} (f : A -> B) l k da db : (k < length l)%nat -> nth k (map f l) db = f (nth k l da).
Proof. intros H. rewrite (nth_indep (map f l) db (f da)) by (rewrite map_length; exact H). apply map_nth. Qed.

Lemma no_wrap_posting docs t0 : wf_docs docs -> (forall q, (q < 18)%nat -> nth_error (nth 0 docs []) q <> Some t0) ->
  forall w, In w (encode_spec (tp_from 0 docs t0)) -> 2^18 <= Hd w.
Proof.
  intros Hwf Hnw w Hw. destruct (posting_PL docs t0 Hwf) as (HF & _ & _). rewrite Forall_forall in HF.
  pose proof (HF w Hw) as (k & b & s & E & Hk & Hb & Hs & Hnz). subst w. rewrite Hd_word by lia.
  destruct (N.eq_dec k 0) as [->|Hk0]; [|unfold word_of; pows; nia].
  destruct (N.eq_dec b 0) as [->|Hb0]; [|unfold word_of; pows; nia].
  exfalso. destruct (some_bit s Hnz Hs) as (bit & B1 & B2).
  assert (Hc : In bit (wcs (word_of 0 0 s))).
  { apply wcs_word; try lia. exists bit. repeat split; [exact B1|exact B2|lia]. }
  destruct (posting_pos docs t0 _ bit Hwf Hw Hc) as [H1 _]. rewrite dkey_word in H1 by lia. cbn [N.to_nat] in H1.
  apply (Hnw (N.to_nat bit)); [lia|exact H1].
Qed.

Lemma word_succ_bucket k b : word_of k (b + 1) 0 = word_of k b 0 + 2^18.
Proof. unfold word_of. lia. Qed.

Lemma div18_cases p c : p <= c -> c < 36 -> c / 18 = p / 18 \/ c / 18 = p / 18 + 1.
Proof.
  intros H1 H2. destruct (N.lt_ge_cases c 18) as [Hc|Hc].
  - rewrite (N.div_small c 18), (N.div_small p 18) by lia. left. reflexivity.
  - assert (c / 18 = 1). { symmetry. apply (N.div_unique c 18 1 (c - 18)); lia. }
    destruct (N.lt_ge_cases p 18) as [Hp|Hp].
    + rewrite (N.div_small p 18) by lia. right. lia.
    + assert (p / 18 = 1). { symmetry. apply (N.div_unique p 18 1 (p - 18)); lia. } left. lia.
Qed.

(* ---------- the restricted clause ---------- *)
Theorem slop_keeps_exact_match_partial : forall docs bs ix ts slop v d,
  wf_docs docs -> index false bs docs = AOk ix -> 1 <= slop -> (2 <= length ts)%nat ->
  slop_freqs ix ts slop = AOk v -> (d < length docs)%nat -> occ ts (nth d docs []) > 0 ->
  (* no_alias: every position of document d is below 31, where the 32-bit position mask is injective and one-hot *)
  (length (nth d docs []) <= 31)%nat ->
  (* table_room: the 512-slot span table cannot fill while document d is processed *)
  ((2 ^ length ts - 1) * length (nth d docs []) < 512)%nat ->
  (* no_wrap: (document 0, bucket 0) is not a candidate header, so [last_lhs_headers - 1] does not wrap around *)
  (forall q, (q < 18)%nat -> nth_error (nth 0 docs []) q <> Some (hd 0 ts)) ->
  nth d v 0 <> 0.
Proof.
  intros docs bs ix ts slop v d Hwf Hix _ Hn2 Hsf Hdlt Hocc HL Hroom Hnw.
  destruct (index_any_ok docs bs Hwf) as (ix' & E & Hok). rewrite Hix in E. injection E as <-.
  destruct Hok as (Hposts & _ & Hterms & Hlens).
  set (doc := nth d docs []) in *. set (n := length ts) in *. set (dN := N.of_nat d).
  destruct (occ_pos ts doc Hocc) as (p & Hp).
  assert (Hpn : (p + n <= length doc)%nat).
  { specialize (Hp (n - 1)%nat ltac:(lia)). assert (p + (n - 1) < length doc)%nat by (apply nth_error_Some; congruence). lia. }
  assert (Hdoc_in : In doc docs) by (apply nth_In; exact Hdlt).
  assert (Hts_in : forall t, In t ts -> In t (concat docs)).
  { intros t Ht. destruct (In_nth ts t 0 Ht) as (k & Hk & <-). apply in_concat. exists doc. split; [exact Hdoc_in|].
    eapply nth_error_In. apply Hp. exact Hk. }
  set (enc := fun t => encode_spec (tp_from 0 docs t)).
  (* unfold the query *)
  unfold slop_freqs in Hsf.
  assert (Hknown : forallb (known ix) ts = true).
  { apply forallb_forall. intros t Ht. apply (known_true docs ix t Hterms). apply Hts_in, Ht. }
  rewrite Hknown in Hsf. cbn [negb] in Hsf.
  assert (Hlt2 : Nat.ltb (length ts) 2 = false) by (apply Nat.ltb_ge; exact Hn2). rewrite Hlt2 in Hsf.
  rewrite (get_all_posts_map ix enc) in Hsf.
  2:{ intros t Ht. rewrite (Hposts t (Hts_in t Ht)), term_pairs_tp. reflexivity. }
  cbn [abind] in Hsf.
  destruct (span_search (map enc ts) slop) as [pf| | |] eqn:Ess; cbn [abind] in Hsf; try discriminate.
  apply lift_inv in Hsf.
  (* the postings *)
  destruct ts as [|t0 [|t1 ts']]; [cbn in Hn2; lia|cbn in Hn2; lia|].
  assert (HPL : Forall PL (map enc (t0 :: t1 :: ts'))).
  { apply Forall_forall. intros e He. apply in_map_iff in He. destruct He as (t & <- & _). apply posting_PL. exact Hwf. }
  assert (NW : forall w, In w (enc t0) -> 2^18 <= Hd w) by (apply no_wrap_posting; [exact Hwf|exact Hnw]).
  cbn [map] in HPL, Ess.
  destruct (intersect_all_keeps (enc t0) (enc t1) (map enc ts') HPL NW) as (sl & Eia & F2).
  change (enc t0 :: enc t1 :: map enc ts') with (map enc (t0 :: t1 :: ts')) in *.
  set (ts := t0 :: t1 :: ts') in *.
  assert (Hlen_sl : length sl = n) by (rewrite <- (Forall2_length _ _ _ F2), map_length; reflexivity).
  (* the word of each term that holds its position of the exact occurrence *)
  assert (Hw : forall k, (k < n)%nat -> exists w, In w (enc (nth k ts 0)) /\ dkey w = dN /\ In (N.of_nat (p + k)) (wcs w) /\
                                              Hd w = word_of dN (N.of_nat (p + k) / 18) 0).
  { intros k Hk. destruct (posting_has docs (nth k ts 0) d (p + k) Hwf Hdlt (Hp k Hk)) as (w & W1 & W2 & W3).
    exists w. repeat split; try assumption. apply wform_bucket; [|exact W2|exact W3].
    destruct (posting_PL docs (nth k ts 0) Hwf) as (HF & _ & _). rewrite Forall_forall in HF. apply HF, W1. }
  destruct (Hw 0%nat ltac:(lia)) as (w0 & W01 & W02 & W03 & W04). rewrite Nat.add_0_r in W04. cbn [nth] in W01.
  set (h := word_of dN (N.of_nat p / 18) 0) in *.
  assert (Hbk : forall k, (k < n)%nat -> word_of dN (N.of_nat (p + k) / 18) 0 = h \/ word_of dN (N.of_nat (p + k) / 18) 0 = h + 2^18).
  { intros k Hk. destruct (div18_cases (N.of_nat p) (N.of_nat (p + k)) ltac:(lia) ltac:(lia)) as [E|E]; rewrite E; [left; reflexivity|right; apply word_succ_bucket]. }
  assert (Hh_curr : In h (map Hd (enc t0))) by (rewrite <- W04; apply in_map; exact W01).
  assert (Hh_rest : forall e', In e' (map enc (t1 :: ts')) -> In h (map Hd e') \/ In (h + 2^18) (map Hd e')).
  { intros e' He'. apply In_nth with (d := []) in He'. destruct He' as (j & Hj & <-). rewrite map_length in Hj.
    destruct (Hw (S j) ltac:(cbn [length] in *; unfold n, ts; cbn [length]; lia)) as (w & W1 & _ & _ & W4).
    change (nth (S j) ts 0) with (nth j (t1 :: ts') 0) in W1.
    rewrite (nth_map' enc (t1 :: ts') j 0 []) by exact Hj.
    destruct (Hbk (S j) ltac:(unfold n, ts; cbn [length] in *; lia)) as [E|E]; rewrite E in W4; [left|right]; rewrite <- W4; apply in_map; exact W1. }
  (* the segments around document d *)
  set (trs := map (tr_of dN) sl).
  assert (Hseg : forall k, (k < n)%nat -> exists idxs,
             nth k sl [] = take_idx (enc (nth k ts 0)) idxs /\ StronglySorted N.lt idxs /\
             Forall (fun a => a < N.of_nat (length (enc (nth k ts 0)))) idxs /\
             exists w, In w (nth k sl []) /\ dkey w = dN /\ In (N.of_nat (p + k)) (wcs w)).
  { intros k Hk. pose proof (Forall2_nth _ [] [] _ _ F2 k ltac:(rewrite map_length; exact Hk)) as Hks.
    rewrite (nth_map' enc ts k 0 []) in Hks by exact Hk. destruct Hks as (idxs & E1 & E2 & E3 & E4).
    exists idxs. repeat split; try assumption.
    destruct (Hw k Hk) as (w & W1 & W2 & W3 & W4). exists w. repeat split; try assumption.
    destruct (In_nth _ _ 0 W1) as (a & Ha & Ea). rewrite E1. apply take_idx_in. exists (N.of_nat a). rewrite Nat2N.id. split; [|symmetry; exact Ea].
    apply (E4 (N.of_nat a) h); [lia| |exact Hh_curr|exact Hh_rest].
    rewrite Nat2N.id, Ea, W4. apply Hbk. exact Hk. }
  assert (Hsegs_all : forall s, In s sl -> exists k, (k < n)%nat /\ s = nth k sl []).
  { intros s Hs. destruct (In_nth _ _ [] Hs) as (k & Hk & <-). exists k. split; [lia|reflexivity]. }
  assert (Hmap_seg : map seg_of trs = sl).
  { unfold trs. rewrite map_map. rewrite <- (map_id sl) at 2. apply map_ext_in. intros s Hs.
    destruct (Hsegs_all s Hs) as (k & Hk & ->). destruct (Hseg k Hk) as (idxs & E1 & E2 & E3 & _).
    apply (seg_split docs (nth k ts 0) d (nth k sl []) idxs Hwf E1 E2 E3). }
  assert (Hsegd : Forall (seg_d dN) trs).
  { unfold trs. apply Forall_forall. intros tr Htr. apply in_map_iff in Htr. destruct Htr as (s & <- & Hs).
    destruct (Hsegs_all s Hs) as (k & Hk & ->). destruct (Hseg k Hk) as (idxs & E1 & E2 & E3 & w & W1 & W2 & _).
    apply (seg_is_d d (nth k sl []) w W1 W2). }
  assert (Hlen_trs : length trs = n) by (unfold trs; rewrite map_length; exact Hlen_sl).
  assert (Hevs_nth : forall k, (k < n)%nat -> nth k (seg_evs trs) [] = seg_ev d (nth k sl [])).
  { intros k Hk. unfold seg_evs, trs. rewrite map_map. rewrite (nth_map' _ sl k [] []) by lia. reflexivity. }
  assert (Hevs_all : forall cs, In cs (seg_evs trs) -> exists k, (k < n)%nat /\ cs = seg_ev d (nth k sl [])).
  { intros cs Hcs. destruct (In_nth _ _ [] Hcs) as (k & Hk & <-). unfold seg_evs in Hk. rewrite map_length, Hlen_trs in Hk.
    exists k. split; [exact Hk|apply Hevs_nth; exact Hk]. }
  rewrite <- Hmap_seg in Eia.
  destruct (span_search_target (map enc ts) slop pf trs dN (N.of_nat p) (length doc) Eia Hsegd) as (c & Hin & Hc & Hnd).
  - lia.
  - lia.
  - lia.
  - apply Forall_forall. intros cs Hcs. destruct (Hevs_all cs Hcs) as (k & Hk & ->). destruct (Hseg k Hk) as (idxs & E1 & E2 & E3 & _).
    apply Forall_forall. intros c Hc. pose proof (seg_ev_lt docs (nth k ts 0) d (nth k sl []) idxs Hwf E1 E3 c Hc). fold doc in H. lia.
  - intros k Hk. rewrite Hlen_trs in Hk. rewrite (Hevs_nth k Hk). destruct (Hseg k Hk) as (idxs & E1 & E2 & E3 & w & W1 & W2 & W3).
    replace (N.of_nat p + N.of_nat k) with (N.of_nat (p + k)) by lia. apply (seg_ev_has d (nth k sl []) w _ W1 W2 W3).
  - apply Forall_forall. intros cs Hcs. destruct (Hevs_all cs Hcs) as (k & Hk & ->). destruct (Hseg k Hk) as (idxs & E1 & E2 & E3 & _).
    apply (seg_ev_len docs (nth k ts 0) d (nth k sl []) idxs Hwf E1 E2 E3).
  - rewrite Hlen_trs. exact Hroom.
  - exact Ess.
  - rewrite (store_many_nodup pf _ v d c Hsf Hnd Hin). lia.
Qed.

(* ---------- the give-up path: when the table is full the credited count is still positive ---------- *)
Lemma full_credit_positive : forall sums, sums <> [] -> Forall (fun s => 1 <= s) sums -> 1 <= min_popcount sums.
Proof.
  unfold min_popcount.
  assert (G : forall sums m, Forall (fun s => 1 <= s) sums -> (sums <> [] \/ 1 <= m) -> (m = 0 \/ 1 <= m) ->
              1 <= fold_left (fun m s => if orb (m =? 0) (s <? m) then s else m) sums m).
  { induction sums as [|s sums IH]; intros m HF Hne Hm; cbn [fold_left].
    - destruct Hne as [Hne|Hne]; [congruence|exact Hne].
    - inversion HF as [|? ? Hs HF']; subst. apply IH; [exact HF'| |].
      + right. destruct ((m =? 0) || (s <? m)) eqn:E; [exact Hs|]. apply orb_false_iff in E. destruct E as [E _]. apply N.eqb_neq in E. lia.
      + right. destruct ((m =? 0) || (s <? m)) eqn:E; [exact Hs|]. apply orb_false_iff in E. destruct E as [E _]. apply N.eqb_neq in E. lia. }
  intros sums Hne HF. apply G; [exact HF|left; exact Hne|left; reflexivity].
Qed.

(* ---------- the restrictions are satisfiable, and two of them are needed ---------- *)
(* a corpus inside all three restrictions: the theorem applies, and the model indeed credits document 1 *)
Example partial_nonvacuous :
  exists ix v, index false 100 [[9; 9]; [7; 1; 2; 3; 7]] = AOk ix /\ slop_freqs ix [1; 2; 3] 2 = AOk v /\ nth 1 v 0 <> 0.
Proof.
  assert (E : exists ix, index false 100 [[9; 9]; [7; 1; 2; 3; 7]] = AOk ix /\ exists v, slop_freqs ix [1; 2; 3] 2 = AOk v).
  { eexists. split; [vm_compute; reflexivity|]. eexists. vm_compute. reflexivity. }
  destruct E as (ix & E1 & v & E2). exists ix, v. split; [exact E1|]. split; [exact E2|].
  apply (slop_keeps_exact_match_partial [[9; 9]; [7; 1; 2; 3; 7]] 100 ix [1; 2; 3] 2 v 1).
  - split; [repeat constructor; vm_compute; discriminate|vm_compute; reflexivity].
  - exact E1.
  - lia.
  - cbn; lia.
  - exact E2.
  - cbn; lia.
  - vm_compute. reflexivity.
  - cbn; lia.
  - cbn; lia.
  - intros q Hq. cbn [nth hd]. destruct q as [|[|[|q]]]; cbn; congruence.
Qed.

(* witness A breaks ONLY no_alias (33 > 31); witness C breaks ONLY no_wrap *)
Example witA_other_restrictions_hold :
  Nat.ltb ((2 ^ 2 - 1) * length witA) 512 = true /\
  forallb (fun q => negb (match nth_error witA q with Some 1 => true | _ => false end)) (seq 0 18) = true /\
  length witA = 33%nat.
Proof. vm_compute. repeat split; reflexivity. Qed.
Example witC_other_restrictions_hold :
  Nat.leb (length witC1) 31 = true /\ Nat.ltb ((2 ^ 2 - 1) * length witC1) 512 = true /\ nth_error witC0 1 = Some 1.
Proof. vm_compute. repeat split; reflexivity. Qed.

Print Assumptions span_table_keeps_exact.
Print Assumptions span_search_target.
Print Assumptions intersect_all_keeps.
Print Assumptions full_credit_positive.
Print Assumptions slop_keeps_exact_match_partial.
Print Assumptions partial_nonvacuous.
