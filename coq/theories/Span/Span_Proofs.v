(* Proofs about the slop (span) search model of Span.v:
     A. slop_freqs returns one frequency per row;
     B. every document with a non-zero slop frequency contains each of the phrase's terms.
   Structure of B:
     1. intersect_all returns the concatenation of per-term segments, each segment a sub-multiset of the
        term's postings, with the cumulative segment lengths (starting at 0);
     2. docs_loop only counts a document key k when every term's cursor read, inside that term's segment,
        a word whose key is k;
     3. store_many on a zero buffer leaves non-zero entries only at stored indices;
     4. on a correct index (index_ok) a word with key d in the postings of t means t occurs in document d. *)
From Coq Require Import Lia ZifyN ZifyNat.
From SA Require Import Base.Prelude Gen.SourceConsts Kernels.Intersect Kernels.Linear Kernels.Linear_Proofs
  Codec.Codec Codec.Codec_Spec Codec.Codec_Proofs Index.Index Index.Index_Spec Index.Index_Proofs
  Index.Index_Proofs2 Index.Index_Proofs3 Query.Phrase Span.Span.
Open Scope N_scope.

(* ================= 0. inversion of the two monads ================= *)
Lemma bind_inv {A B} (r : result A) (f : A -> result B) b :
  bind r f = Done b -> exists a, r = Done a /\ f a = Done b.
Proof. destruct r as [a| |]; cbn [bind]; intro H; [exists a; split; [reflexivity|exact H]|discriminate|discriminate]. Qed.

Lemma abind_inv {A B} (r : api A) (f : A -> api B) b :
  abind r f = AOk b -> exists a, r = AOk a /\ f a = AOk b.
Proof. destruct r as [a| | |]; cbn [abind]; intro H; [exists a; split; [reflexivity|exact H]|discriminate..]. Qed.

Lemma lift_inv {A} (r : result A) a : lift r = AOk a -> r = Done a.
Proof. destruct r; cbn [lift]; intro H; [inversion H; reflexivity|discriminate|discriminate]. Qed.

(* ================= 3. the scatter into the zero buffer ================= *)
Lemma store_many_inv : forall ivs dense v, store_many dense ivs = Done v ->
  length v = length dense /\
  forall d, nth d v 0 <> nth d dense 0 -> exists c, In (N.of_nat d, c) ivs.
Proof.
  induction ivs as [|[i c] t IH]; intros dense v H; cbn [store_many] in H.
  - inversion H; subst. split; [reflexivity|]. intros d Hd. congruence.
  - apply bind_inv in H as (d1 & H1 & H2). unfold store in H1.
    destruct (i <? N.of_nat (length dense)) eqn:E; [|discriminate].
    apply N.ltb_lt in E. inversion H1; subst d1. apply IH in H2 as [L Hn].
    rewrite list_set_length in L. split; [exact L|]. intros d Hd.
    destruct (N.eq_dec i (N.of_nat d)) as [->|Hne].
    + exists c. left. reflexivity.
    + destruct (Hn d) as [c' Hc'].
      { rewrite list_set_nth by lia. destruct (Nat.eqb_spec d (N.to_nat i)); [lia|exact Hd]. }
      exists c'. right. exact Hc'.
Qed.

Lemma nth_repeat0 n d : nth d (repeat 0 n) 0 = 0.
Proof. revert d. induction n as [|n IH]; intros [|d]; cbn [repeat nth]; auto. Qed.

(* ================= A. one frequency per row ================= *)
Theorem slop_freqs_length : forall ix ts slop v,
  slop_freqs ix ts slop = AOk v -> length v = length (ix_lens ix).
Proof.
  intros ix ts slop v H. unfold slop_freqs in H.
  destruct (negb (forallb (known ix) ts)).
  - inversion H; subst. apply repeat_length.
  - destruct (Nat.ltb (length ts) 2); [discriminate|].
    apply abind_inv in H as (enc & _ & H). apply abind_inv in H as (pf & _ & H).
    apply lift_inv in H. apply store_many_inv in H as [L _]. rewrite L. apply repeat_length.
Qed.

(* ================= 1a. intersect_keep only returns indices inside its inputs ================= *)
Section KeepRange.
Variables (L R : mem) (mask : N).
Let inR (b : N) : Prop := b < mlen R.

Lemma keep_run_r_range cap : forall fuel target j ro nro j' ro' nro', Forall inR ro ->
  keep_run_r R mask cap fuel target j ro nro = Done (j', ro', nro') -> Forall inR ro'.
Proof.
  induction fuel as [|f IH]; intros target j ro nro j' ro' nro' Hro H; cbn [keep_run_r] in H; [discriminate|].
  destruct (j <? mlen R) eqn:E.
  - apply bind_inv in H as (y & _ & H). destruct (N.land y mask =? target).
    + apply bind_inv in H as (u & _ & H). eapply IH; [|exact H].
      constructor; [apply N.ltb_lt; exact E|exact Hro].
    + inversion H; subst. exact Hro.
  - inversion H; subst. exact Hro.
Qed.

Lemma keep_loop_range cap runfuel : forall fuel i j lo ro nlo nro out, Forall inR ro ->
  keep_loop L R mask cap runfuel fuel i j lo ro nlo nro = Done out -> Forall inR (snd out).
Proof.
  induction fuel as [|f IH]; intros i j lo ro nlo nro out Hro H; cbn [keep_loop] in H; [discriminate|].
  destruct (andb (i <? mlen L) (j <? mlen R)).
  - apply bind_inv in H as (ig & _ & H). apply bind_inv in H as (jg & _ & H).
    apply bind_inv in H as (x & _ & H). apply bind_inv in H as (y & _ & H).
    destruct (N.land x mask <? N.land y mask); [eapply IH; eassumption|].
    destruct (N.land y mask <? N.land x mask); [eapply IH; eassumption|].
    apply bind_inv in H as ([[i3 lo3] nlo3] & _ & H).
    apply bind_inv in H as ([[j3 ro3] nro3] & Hr & H).
    apply keep_run_r_range in Hr; [|exact Hro]. eapply IH; eassumption.
  - inversion H; subst. cbn [snd]. apply Forall_rev. exact Hro.
Qed.
End KeepRange.

Lemma intersect_keep_range l r mask out : intersect_keep l r mask = Done out ->
  Forall (fun b => b < N.of_nat (length r)) (snd out).
Proof.
  unfold intersect_keep. intro H. apply keep_loop_range in H; [|constructor].
  rewrite mlen_mem_of_list in H. exact H.
Qed.

Lemma slice_header_incl ws hs s : slice_header ws hs = Done s -> incl s ws.
Proof.
  unfold slice_header. intro H. apply bind_inv in H as (ix & Hk & H). inversion H; subst s.
  apply intersect_keep_range in Hk. rewrite map_length in Hk.
  intros w Hw. unfold take_idx in Hw. apply in_map_iff in Hw as (b & <- & Hb).
  rewrite Forall_forall in Hk. apply Hk in Hb. apply nth_In. lia.
Qed.

(* ================= 1b. the shape of the result of intersect_all ================= *)
Lemma slice_all_headers_incl hs : forall encs sl, slice_all_headers encs hs = AOk sl ->
  Forall2 (fun e s => incl s e) encs sl.
Proof.
  induction encs as [|e rest IH]; intros sl H; cbn [slice_all_headers] in H.
  - inversion H; subst. constructor.
  - apply abind_inv in H as (s & Hs & H). apply abind_inv in H as (more & Hm & H).
    inversion H; subst sl. apply lift_inv in Hs. constructor; [eapply slice_header_incl; exact Hs|apply IH; exact Hm].
Qed.

(* cumulative lengths starting at a *)
Fixpoint cum (a : N) (sl : list (list N)) : list N :=
  match sl with [] => [a] | s :: r => a :: cum (a + N.of_nat (length s)) r end.

Lemma fold_cum : forall sl pre a,
  fold_left (fun acc s => acc ++ [last acc 0 + N.of_nat (length s)]) sl (pre ++ [a]) = pre ++ cum a sl.
Proof.
  induction sl as [|s r IH]; intros pre a; cbn [fold_left cum]; [reflexivity|].
  rewrite last_last. rewrite (IH (pre ++ [a]) (a + N.of_nat (length s))). rewrite <- app_assoc. reflexivity.
Qed.

Lemma intersect_all_inv encs posns lengths : intersect_all encs = AOk (posns, lengths) ->
  exists sl, Forall2 (fun e s => incl s e) encs sl /\ posns = concat sl /\ lengths = cum 0 sl.
Proof.
  unfold intersect_all. intro H. destruct encs as [|curr [|nxt rest]]; try discriminate.
  apply abind_inv in H as (acc & _ & H). destruct acc as [[ll lr]|]; [|discriminate].
  apply abind_inv in H as (m1 & _ & H). apply abind_inv in H as (m2 & _ & H).
  apply abind_inv in H as (m3 & _ & H). apply abind_inv in H as (sl & Hsl & H).
  inversion H; subst. exists sl. split; [eapply slice_all_headers_incl; exact Hsl|].
  split; [reflexivity|]. apply (fold_cum sl [] 0).
Qed.

Lemma cum_hd a sl : cum a sl = a :: tl (cum a sl).
Proof. destruct sl; reflexivity. Qed.

Lemma cum_length : forall sl a, length (cum a sl) = S (length sl).
Proof. induction sl as [|s r IH]; intro a; cbn [cum length]; [reflexivity|]. now rewrite IH. Qed.

(* ================= 2. the loops ================= *)
(* some word with key k is readable at an index of [lo, hi) *)
Definition seg_has (P : mem) (lo hi k : N) : Prop :=
  exists i w, lo <= i /\ i < hi /\ rd 0 P i = Done w /\ dkey w = k.

Section Loops.
Variable P : mem.

Lemma skip_earlier_ge : forall fuel i hi dk i', skip_earlier P fuel i hi dk = Done i' -> i <= i'.
Proof.
  induction fuel as [|f IH]; intros i hi dk i' H; cbn [skip_earlier] in H; [discriminate|].
  destruct (i <? hi).
  - apply bind_inv in H as (w & _ & H). destruct (dkey w <? dk).
    + apply IH in H. lia.
    + inversion H; lia.
  - inversion H; lia.
Qed.

Lemma give_up_ge : forall fuel i hi lk ck r, give_up P fuel i hi lk ck = Done r ->
  match fst r with Some i' => i <= i' | None => True end.
Proof.
  induction fuel as [|f IH]; intros i hi lk ck r H; cbn [give_up] in H; [discriminate|].
  destruct (i <? hi).
  - apply bind_inv in H as (w & _ & H). destruct (negb (dkey w =? lk)).
    + inversion H; subst. cbn [fst]. lia.
    + apply IH in H. destruct (fst r); [lia|exact I].
  - inversion H; subst. exact I.
Qed.

Lemma words_loop_ge : forall fuel hi tord nt maxw st st',
  words_loop P fuel hi tord nt maxw st = Done st' -> ts_idx st <= ts_idx st'.
Proof.
  induction fuel as [|f IH]; intros hi tord nt maxw st st' H; cbn [words_loop] in H; [discriminate|].
  destruct (ts_idx st <? hi) eqn:Ehi; [|injection H as <-; apply N.le_refl].
  apply N.ltb_lt in Ehi.
  apply bind_inv in H as (w & _ & H). apply bind_inv in H as ([spans1 full1] & _ & H).
  apply bind_inv in H as (ck & _ & H).
  apply bind_inv in H as ([[[[spans2 idx2] ck2] full2] extra] & Hcg & H).
  assert (Hidx : ts_idx st + 1 <= idx2).
  { clear H IH. destruct (SPAN_CAP <=? N.of_nat (length spans1)).
    - destruct (SPAN_CAP <=? N.of_nat (length (compact spans1 maxw))).
      + apply bind_inv in Hcg as (g & Hg & Hcg). apply give_up_ge in Hg.
        apply bind_inv in Hcg as (ex & _ & Hcg).
        injection Hcg as _ Hi _ _ _. rewrite <- Hi. clear Hi.
        destruct (fst g) as [i'|]; [exact Hg|]. clear -Ehi. lia.
      + injection Hcg as _ Hi _ _ _. rewrite <- Hi. apply N.le_refl.
    - injection Hcg as _ Hi _ _ _. rewrite <- Hi. apply N.le_refl. }
  clear Hcg Ehi.
  destruct (negb (ck2 =? ts_curr_key st)).
  - injection H as <-. cbn [ts_idx]. clear -Hidx. lia.
  - apply IH in H. cbn [ts_idx] in H. clear -Hidx H. lia.
Qed.

Lemma terms_loop_inv : forall lens idxs tord nt maxw dk spans full lk sums ap idxs' sp' f' lk' sums' ap',
  length idxs = length lens ->
  terms_loop P lens tord idxs nt maxw dk spans full lk sums ap = Done (idxs', sp', f', lk', sums', ap') ->
  Forall2 N.le idxs idxs' /\
  (ap' = true -> ap = true /\ Forall2 (fun i0 hi => seg_has P i0 hi dk) idxs lens).
Proof.
  induction lens as [|hi lrest IH]; intros idxs tord nt maxw dk spans full lk sums ap idxs' sp' f' lk' sums' ap' Hlen H.
  - destruct idxs as [|i0 irest]; [|discriminate Hlen]. cbn [terms_loop] in H. inversion H; subst.
    split; [constructor|]. intro E. split; [exact E|constructor].
  - destruct idxs as [|i0 irest]; [discriminate Hlen|]. cbn [length] in Hlen. injection Hlen as Hlen.
    cbn [terms_loop] in H.
    apply bind_inv in H as (i & Hskip & H). apply skip_earlier_ge in Hskip.
    apply bind_inv in H as ([stt present] & Hst & H).
    apply bind_inv in H as ([[[[[idxs1 sp1] f1] lk1] sums1] ap1] & Hr & H).
    inversion H; subst. apply IH in Hr; [|exact Hlen]. destruct Hr as [Hle Hap].
    assert (Hstt : i0 <= ts_idx stt /\ (present = true -> seg_has P i0 hi dk)).
    { destruct (hi <=? i) eqn:Ehi.
      - inversion Hst; subst. cbn [ts_idx]. split; [exact Hskip|discriminate].
      - apply N.leb_gt in Ehi. apply bind_inv in Hst as (w0 & Hw0 & Hst).
        destruct (negb (dkey w0 =? dk)) eqn:Ek.
        + inversion Hst; subst. cbn [ts_idx]. split; [exact Hskip|discriminate].
        + apply negb_false_iff, N.eqb_eq in Ek.
          apply bind_inv in Hst as (s & Hs & Hst). inversion Hst; subst.
          apply words_loop_ge in Hs. cbn [ts_idx] in Hs. split; [lia|].
          intros _. exists i, w0. repeat split; assumption. }
    destruct Hstt as [Hi0 Hpres]. split; [constructor; assumption|].
    intro E. destruct (Hap E) as [Hand Hrest]. apply andb_true_iff in Hand as [Hap0 Hp].
    split; [exact Hap0|]. constructor; [apply Hpres; exact Hp|exact Hrest].
Qed.

Lemma add_count_in k c : forall acc k' c', In (k', c') (add_count k c acc) ->
  k' = k \/ exists c'', In (k', c'') acc.
Proof.
  induction acc as [|[k0 c0] rest IH]; intros k' c' H; cbn [add_count] in H.
  - destruct H as [H|[]]. inversion H; subst. left. reflexivity.
  - destruct (k =? k0) eqn:E.
    + destruct H as [H|H].
      * inversion H; subst. right. exists c0. left. reflexivity.
      * right. exists c'. right. exact H.
    + destruct H as [H|H].
      * inversion H; subst. right. exists c'. left. reflexivity.
      * apply IH in H as [H|[c'' H]]; [left; exact H|right; exists c''; right; exact H].
Qed.

Lemma Forall2_le_trans : forall a b c, Forall2 N.le a b -> Forall2 N.le b c -> Forall2 N.le a c.
Proof.
  intros a b c H. revert c. induction H as [|x y a b Hxy _ IH]; intros c Hc; inversion Hc; subst; constructor;
    [lia|apply IH; assumption].
Qed.

Lemma Forall2_len {A B} (R : A -> B -> Prop) : forall a b, Forall2 R a b -> length a = length b.
Proof. intros a b H. induction H; cbn [length]; congruence. Qed.

Lemma Forall2_le_refl : forall a, Forall2 N.le a a.
Proof. induction a; constructor; [lia|assumption]. Qed.

Lemma seg_has_weaken k : forall los idxs his, Forall2 N.le los idxs ->
  Forall2 (fun i0 hi => seg_has P i0 hi k) idxs his -> Forall2 (fun lo hi => seg_has P lo hi k) los his.
Proof.
  intros los idxs his H. revert his. induction H as [|lo i0 los idxs Hle _ IH]; intros his Hs.
  - inversion Hs; subst. constructor.
  - inversion Hs as [|x hi xs hs Hh Ht]; subst. constructor; [|apply IH; exact Ht].
    cbv beta in Hh. destruct Hh as (i & w & H1 & H2 & H3 & H4).
    exists i, w. repeat split; try assumption. lia.
Qed.

Lemma docs_loop_inv his nt maxw los : forall fuel hi0 idxs acc res,
  length idxs = length his -> Forall2 N.le los idxs ->
  (forall k c, In (k, c) acc -> Forall2 (fun lo hi => seg_has P lo hi k) los his) ->
  docs_loop P fuel his hi0 idxs nt maxw acc = Done res ->
  forall k c, In (k, c) res -> Forall2 (fun lo hi => seg_has P lo hi k) los his.
Proof.
  induction fuel as [|f IH]; intros hi0 idxs acc res Hlen Hlos Hacc H; cbn [docs_loop] in H; [discriminate|].
  destruct idxs as [|i0 irest]; [inversion H; subst; exact Hacc|].
  destruct (i0 <? hi0); [|inversion H; subst; exact Hacc].
  apply bind_inv in H as (w & _ & H).
  apply bind_inv in H as ([[[[[idxs1 spans1] full1] lk1] sums1] ap1] & Hr & H).
  apply terms_loop_inv in Hr; [|exact Hlen]. destruct Hr as [Hle Hap].
  eapply IH; [| |  |exact H].
  - rewrite <- Hlen. symmetry. eapply Forall2_len. exact Hle.
  - eapply Forall2_le_trans; eassumption.
  - intros k c Hin. destruct ap1; cbn [negb] in Hin; [|eapply Hacc; exact Hin].
    destruct (Hap eq_refl) as [_ Hsegs].
    assert (Hk : forall cnt, In (k, c) (add_count (dkey w) cnt acc) ->
                 Forall2 (fun lo hi => seg_has P lo hi k) los his).
    { intros cnt Hc. apply add_count_in in Hc as [->|[c'' Hc]]; [|eapply Hacc; exact Hc].
      eapply seg_has_weaken; eassumption. }
    destruct full1; eapply Hk; exact Hin.
Qed.
End Loops.

(* ================= 1c + 2: from cursor ranges back to the segments ================= *)
Lemma removelast_cum a b r : removelast (a :: cum b r) = a :: removelast (cum b r).
Proof. rewrite (cum_hd b r). reflexivity. Qed.

Lemma removelast_cum_length : forall sl a, length (removelast (cum a sl)) = length sl.
Proof.
  induction sl as [|s r IH]; intro a; [reflexivity|].
  cbn [cum]. rewrite removelast_cum. cbn [length]. now rewrite IH.
Qed.

Lemma tl_cum_length sl a : length (tl (cum a sl)) = length sl.
Proof. destruct sl as [|s r]; [reflexivity|]. cbn [cum tl]. rewrite cum_length. reflexivity. Qed.

Lemma rd_seg pre s rest i w :
  N.of_nat (length pre) <= i -> i < N.of_nat (length pre) + N.of_nat (length s) ->
  rd 0 (mem_of_list (pre ++ s ++ rest)) i = Done w -> In w s.
Proof.
  intros Hlo Hhi H. rewrite rd_mem_of_list in H. unfold lrd in H.
  destruct (nth_error (pre ++ s ++ rest) (N.to_nat i)) as [v|] eqn:E; [|discriminate].
  inversion H; subst v. rewrite nth_error_app2 in E by lia. rewrite nth_error_app1 in E by lia.
  eapply nth_error_In. exact E.
Qed.

Lemma segs_have k : forall sl pre,
  Forall2 (fun lo hi => seg_has (mem_of_list (pre ++ concat sl)) lo hi k)
          (removelast (cum (N.of_nat (length pre)) sl)) (tl (cum (N.of_nat (length pre)) sl)) ->
  Forall (fun s => exists w, In w s /\ dkey w = k) sl.
Proof.
  induction sl as [|s r IH]; intros pre H; [constructor|].
  cbn [cum concat] in H. rewrite removelast_cum in H. cbn [tl] in H.
  rewrite (cum_hd _ r) in H at 2. inversion H as [|lo hi los his Hseg Hrest]; subst.
  constructor.
  - destruct Hseg as (i & w & H1 & H2 & H3 & H4). exists w. split; [|exact H4].
    eapply rd_seg; eassumption.
  - apply (IH (pre ++ s)). rewrite app_length, Nat2N.inj_add, <- app_assoc. exact Hrest.
Qed.

Lemma span_search_inv encs slop pf : span_search encs slop = AOk pf ->
  forall k c, In (k, c) pf -> Forall (fun e => exists w, In w e /\ dkey w = k) encs.
Proof.
  unfold span_search. intros H k c Hin.
  apply abind_inv in H as ([posns lengths] & Hia & H). apply lift_inv in H.
  apply intersect_all_inv in Hia as (sl & Hincl & -> & ->).
  assert (Hsegs : Forall2 (fun lo hi => seg_has (mem_of_list (concat sl)) lo hi k)
                          (removelast (cum 0 sl)) (tl (cum 0 sl))).
  { eapply docs_loop_inv; [| | |exact H|exact Hin].
    - rewrite removelast_cum_length, tl_cum_length. reflexivity.
    - apply Forall2_le_refl.
    - intros k0 c0 []. }
  apply (segs_have k sl []) in Hsegs.
  clear -Hincl Hsegs. induction Hincl as [|e s encs sl Hes _ IH]; [constructor|].
  inversion Hsegs as [|? ? Hx Ht]; subst. destruct Hx as (w & Hw & Hk). constructor; [|apply IH; exact Ht].
  exists w. split; [apply Hes; exact Hw|exact Hk].
Qed.

(* ================= 4. keys of the words of a correct index ================= *)
Lemma enc_aux_keys : forall ps cur w, bounded ps ->
  match cur with Some (k, b, s) => k < 2^28 /\ b < 2^18 /\ s < 2^18 | None => True end ->
  In w (encode_aux cur ps) ->
  match cur with Some (k, _, _) => dkey w = k | None => False end \/ In (dkey w) (map fst ps).
Proof.
  induction ps as [|[k p] rest IH]; intros cur w Hb Hcur Hw.
  - destruct cur as [[[k0 b0] s0]|]; cbn [encode_aux] in Hw; [|destruct Hw].
    destruct Hw as [<-|[]]. destruct Hcur as (Hk & Hb0 & Hs0). left. apply (dec_key_word k0 b0 s0); assumption.
  - inversion Hb as [|x l [Hk Hp] Hb' Ex]; subst. cbn [fst snd] in Hk, Hp.
    assert (Hq : p / 18 < 2^18) by (pows; lia).
    assert (Hnew : k < 2^28 /\ p / 18 < 2^18 /\ onehot p < 2^18) by (repeat split; [exact Hk|exact Hq|apply onehot_lt]).
    cbn [map fst In].
    destruct cur as [[[k0 b0] s0]|]; cbn [encode_aux] in Hw.
    + destruct Hcur as (Hk0 & Hb0 & Hs0). destruct ((k =? k0) && (p / 18 =? b0)).
      * apply IH in Hw; [|exact Hb'|repeat split; [exact Hk0|exact Hb0|apply lor_lt18; [exact Hs0|apply onehot_lt]]].
        destruct Hw as [Hw|Hw]; [left; exact Hw|right; right; exact Hw].
      * destruct Hw as [<-|Hw]; [left; apply (dec_key_word k0 b0 s0); assumption|].
        apply IH in Hw; [|exact Hb'|exact Hnew].
        destruct Hw as [Hw|Hw]; [right; left; symmetry; exact Hw|right; right; exact Hw].
    + apply IH in Hw; [|exact Hb'|exact Hnew].
      destruct Hw as [Hw|Hw]; [right; left; symmetry; exact Hw|right; right; exact Hw].
Qed.

Lemma tp_from_key t : forall docs i k, In k (map fst (tp_from i docs t)) ->
  i <= k /\ In t (nth (N.to_nat (k - i)) docs []).
Proof.
  induction docs as [|d r IH]; intros i k H; cbn [tp_from] in H; [destruct H|].
  rewrite map_app, in_app_iff in H. destruct H as [H|H].
  - rewrite map_map in H. cbn [fst] in H. apply in_map_iff in H as (p & <- & Hp).
    split; [lia|]. replace (N.to_nat (i - i)) with O by lia. cbn [nth].
    destruct (in_dec N.eq_dec t d) as [Hin|Hnin]; [exact Hin|].
    apply (offsets_nil_iff t d 0) in Hnin. rewrite Hnin in Hp. destruct Hp.
  - apply IH in H as [Hle Hin]. split; [lia|].
    replace (N.to_nat (k - i)) with (S (N.to_nat (k - (i + 1)))) by lia. exact Hin.
Qed.

Lemma posting_word_doc docs t w : wf_docs docs ->
  In w (encode_spec (term_pairs docs t)) -> In t (nth (N.to_nat (dkey w)) docs []).
Proof.
  intros Hwf Hw. rewrite term_pairs_tp in Hw. destruct (tp_wf docs Hwf t) as [_ Hb].
  apply (enc_aux_keys _ None w Hb I) in Hw. destruct Hw as [[]|Hw].
  apply tp_from_key in Hw as [_ Hin]. replace (dkey w - 0) with (dkey w) in Hin by lia. exact Hin.
Qed.

Lemma get_all_posts_inv ix : forall ts encs, get_all_posts ix ts = AOk encs ->
  Forall2 (fun t e => lookup t (ix_posts ix) = Some e) ts encs.
Proof.
  induction ts as [|t rest IH]; intros encs H; cbn [get_all_posts] in H.
  - inversion H; subst. constructor.
  - apply abind_inv in H as (w & Hw & H). apply abind_inv in H as (ws & Hws & H). inversion H; subst.
    constructor; [|apply IH; exact Hws]. unfold get_posts in Hw.
    destruct (lookup t (ix_posts ix)); [inversion Hw; reflexivity|discriminate].
Qed.

(* ================= B. every matching document contains each of the phrase's terms ================= *)
Theorem slop_match_has_all_terms_ok : forall docs ix ts slop v d,
  wf_docs docs -> index_ok docs ix -> slop_freqs ix ts slop = AOk v ->
  (d < length v)%nat -> nth d v 0 <> 0 -> forall t, In t ts -> In t (nth d docs []).
Proof.
  intros docs ix ts slop v d Hwf Hok H Hd Hnz t Ht. unfold slop_freqs in H.
  destruct (negb (forallb (known ix) ts)).
  { inversion H; subst. rewrite nth_repeat0 in Hnz. congruence. }
  destruct (Nat.ltb (length ts) 2); [discriminate|].
  apply abind_inv in H as (enc & Henc & H). apply abind_inv in H as (pf & Hpf & H).
  apply lift_inv in H. apply store_many_inv in H as [_ Hst].
  destruct (Hst d) as [c Hc]; [rewrite nth_repeat0; exact Hnz|].
  pose proof (span_search_inv enc slop pf Hpf _ _ Hc) as Hall.
  apply get_all_posts_inv in Henc.
  destruct Hok as (Hposts & Habsent & _ & _).
  clear -Hwf Hposts Habsent Henc Hall Ht.
  induction Henc as [|t0 e ts encs Hl _ IH]; [destruct Ht|].
  inversion Hall as [|? ? Hx Hrest]; subst. destruct Ht as [->|Ht]; [|apply IH; assumption].
  destruct Hx as (w & Hw & Hk).
  destruct (in_dec N.eq_dec t (concat docs)) as [Hin|Hnin].
  - rewrite (Hposts t Hin) in Hl. inversion Hl; subst e.
    apply (posting_word_doc docs t w Hwf) in Hw. rewrite Hk, Nat2N.id in Hw. exact Hw.
  - rewrite (Habsent t Hnin) in Hl. discriminate.
Qed.

Theorem slop_match_has_all_terms : forall docs bs ix ts slop v d,
  wf_docs docs -> index false bs docs = AOk ix -> slop_freqs ix ts slop = AOk v ->
  (d < length v)%nat -> nth d v 0 <> 0 -> forall t, In t ts -> In t (nth d docs []).
Proof.
  intros docs bs ix ts slop v d Hwf Hix. destruct (index_any_ok docs bs Hwf) as (ix' & E & Hok).
  rewrite Hix in E. inversion E; subst ix'. apply slop_match_has_all_terms_ok; assumption.
Qed.

(* ================= non-vacuity ================= *)
Example slop_example :
  exists ix, index false 100 [[1;9;2;9;9;3];[1;2;3];[3;2;1];[1;2];[]] = AOk ix /\
             slop_freqs ix [1;2;3] 3 = AOk [2;2;4;0;0].
Proof. eexists. split; [vm_compute; reflexivity|vm_compute; reflexivity]. Qed.

Print Assumptions slop_freqs_length.
Print Assumptions slop_match_has_all_terms.
