(* DIAGNOSTIC VARIANT of the span machine of Span/Span.v, used only by the C15 check's known-finding classifier (D27).
   Identical to Span.v except in [update_spans_v]: when a position is rejected because it is too far from the span, the
   position bit that was just OR-ed in is cleared again (in the source, and in Span.v, it stays and shadows the position
   64 further on).  A clause violation of the implementation is attributed to D27 exactly when the implementation agrees
   with the faithful model AND this variant satisfies the clause on the same input.  No theorem is stated about it.
   (Generated from Span.v by renaming; keep in sync.) *)
From Coq Require Import ZArith.
From SA Require Import Base.Prelude Gen.SourceConsts Kernels.Intersect Kernels.Linear Codec.Codec Index.Index Query.Phrase Span.Span.
Open Scope N_scope.

Fixpoint update_spans_v (old : list span) (room : N) (tmask pm : N) (cp : Z) (nt : N) (maxw : Z) (full : bool)
  : list span * list span * bool * N :=          (* (updated old, appended, full, room left) *)
  match old with
  | [] => ([], [], full, room)
  | s :: rest =>
      let ntv := popcount (sp_terms s) in
      let npv := popcount (sp_posns s) in
      if andb (ntv <? nt) (npv =? nt) then
        let '(r, app, f, rm) := update_spans_v rest room tmask pm cp nt maxw full in (s :: r, app, f, rm)
      else
        let terms' := N.lor (sp_terms s) tmask in
        if popcount terms' <=? ntv then
          (* not a new term: terms |= mask changes nothing *)
          let '(r, app, f, rm) := update_spans_v rest room tmask pm cp nt maxw full in (s :: r, app, f, rm)
        else
          let posns' := N.lor (sp_posns s) pm in
          let newu := popcount posns' in
          let pw := Z.abs (cp - sp_beg s) in
          if npv =? newu then
            (* position seen before: cancel the term bit (the position bit was already set) *)
            let s' := {| sp_terms := N.land terms' (wnot tmask); sp_posns := posns'; sp_beg := sp_beg s; sp_end := sp_end s |} in
            let '(r, app, f, rm) := update_spans_v rest room tmask pm cp nt maxw full in (s' :: r, app, f, rm)
          else if (maxw <? pw)%Z then
            (* too far: cancel the term bit AND the position bit just added *)
            let s' := {| sp_terms := N.land terms' (wnot tmask); sp_posns := N.land posns' (wnot pm); sp_beg := sp_beg s; sp_end := sp_end s |} in
            let '(r, app, f, rm) := update_spans_v rest room tmask pm cp nt maxw full in (s' :: r, app, f, rm)
          else
            let copy := {| sp_terms := terms'; sp_posns := N.land posns' (wnot pm); sp_beg := sp_beg s; sp_end := sp_end s |} in
            let s' := {| sp_terms := terms'; sp_posns := posns'; sp_beg := sp_beg s; sp_end := cp |} in
            if 0 <? room then
              let '(r, app, f, rm) := update_spans_v rest (room - 1) tmask pm cp nt maxw false in (s' :: r, copy :: app, f, rm)
            else
              let '(r, app, f, rm) := update_spans_v rest room tmask pm cp nt maxw true in (s' :: r, app, f, rm)
  end.

Fixpoint bits_loop_v (fuel : nat) (term : N) (base : Z) (tmask : N) (nt : N) (maxw : Z) (spans : list span) (full : bool)
  : result (list span * bool) :=
  match fuel with
  | O => OutOfFuel
  | S f =>
      if term =? 0 then Done (spans, full)
      else if SPAN_CAP <=? N.of_nat (length spans) then Done (spans, true)          (* the D16 guard *)
      else
        let set_idx := ctz term in
        let term' := N.land term (term - 1) in
        let cp := (Z.of_N set_idx + base)%Z in
        let pm := pmask cp in
        do _ <- wr_ok 9 SPAN_CAP (N.of_nat (length spans));
        let fresh_span := {| sp_terms := tmask; sp_posns := pm; sp_beg := cp; sp_end := cp |} in
        let room := SPAN_CAP - (N.of_nat (length spans) + 1) in
        let '(old', app, full', _) := update_spans_v spans room tmask pm cp nt maxw full in
        let spans' := old' ++ fresh_span :: app in
        if SPAN_CAP <=? N.of_nat (length spans') then Done (spans', full')
        else bits_loop_v f term' base tmask nt maxw spans' full'
  end.

(* ---- per-term word loop: while curr_idx[t] < lengths[t+1] ---- *)
Record tstate := { ts_spans : list span; ts_full : bool; ts_last_key : N; ts_curr_key : N; ts_idx : N; ts_sum : N }.

Definition dkey (w : N) : N := N.shiftr (N.land w key_mask) key_shift.

Fixpoint give_up_v (P : mem) (fuel : nat) (i hi last_key curr_key : N) : result (option N * N) :=   (* (new idx, curr_key) *)
  match fuel with
  | O => OutOfFuel
  | S f =>
      if i <? hi then
        do w <- rd 0 P i;
        let k := dkey w in
        if negb (k =? last_key) then Done (Some i, k) else give_up_v P f (i + 1) hi last_key k
      else Done (None, curr_key)
  end.

(* the positions of the words skipped by giving up still count for the estimate (repair of D32: they used to be counted
   only when no other document followed in this term's words, so the estimate depended on the neighbours) *)
Fixpoint give_up_sum_v (P : mem) (fuel : nat) (i hi last_key : N) : result N :=
  match fuel with
  | O => OutOfFuel
  | S f =>
      if i <? hi then
        do w <- rd 0 P i;
        if negb (dkey w =? last_key) then Done 0
        else do r <- give_up_sum_v P f (i + 1) hi last_key; Done (popcount (N.land w (wnot header_mask)) + r)
      else Done 0
  end.

Fixpoint words_loop_v (P : mem) (fuel : nat) (hi : N) (tord : N) (nt : N) (maxw : Z) (st : tstate) : result tstate :=
  match fuel with
  | O => OutOfFuel
  | S f =>
      if ts_idx st <? hi then
        let last_key := ts_curr_key st in
        do w <- rd 0 P (ts_idx st);
        let base := Z.of_N (N.shiftr (N.land w payload_msb_mask) lsb_bits * lsb_bits) in
        let payload := N.land w (wnot header_mask) in
        let tmask := N.shiftl 1 tord in
        do bl <- bits_loop_v 70 payload base tmask nt maxw (ts_spans st) (ts_full st);
        let '(spans1, full1) := bl in
        let idx1 := ts_idx st + 1 in
        do ck <- (if idx1 <? hi then do w2 <- rd 0 P idx1; Done (dkey w2) else Done (ts_curr_key st));
        do cg <- (if SPAN_CAP <=? N.of_nat (length spans1) then
                    let sp2 := compact spans1 maxw in
                    if SPAN_CAP <=? N.of_nat (length sp2) then
                      (* give up: full = True (repair of D26: the table is incomplete for this document) *)
                      do g <- give_up_v P (S (N.to_nat (hi - idx1))) idx1 hi last_key ck;
                      do extra <- give_up_sum_v P (S (N.to_nat (hi - idx1))) idx1 hi last_key;
                      (* for ... else: with no later document the cursor moves to the end of this term's words *)
                      Done (sp2, match fst g with Some i => i | None => hi end, snd g, true, extra)
                    else Done (sp2, idx1, ck, full1, 0)
                  else Done (spans1, idx1, ck, full1, 0));
        let '(spans2, idx2, ck2, full2, extra) := cg in
        let st' := {| ts_spans := spans2; ts_full := full2; ts_last_key := last_key; ts_curr_key := ck2; ts_idx := idx2;
                      ts_sum := ts_sum st + popcount payload + extra |} in
        if negb (ck2 =? last_key) then Done st' else words_loop_v P f hi tord nt maxw st'
      else Done st
  end.

(* ---- one outer iteration: every term at the document the first term is at ---- *)
(* while curr_idx[t] < hi and key(posns[curr_idx[t]]) < doc_key: curr_idx[t] += 1 *)
Fixpoint skip_earlier_v (P : mem) (fuel : nat) (i hi doc_key : N) : result N :=
  match fuel with
  | O => OutOfFuel
  | S f =>
      if i <? hi then do w <- rd 0 P i; if dkey w <? doc_key then skip_earlier_v P f (i + 1) hi doc_key else Done i
      else Done i
  end.

Fixpoint terms_loop_v (P : mem) (lens : list N) (tord : N) (idxs : list N) (nt : N) (maxw : Z) (doc_key : N)
  (spans : list span) (full : bool) (last_key : N) (sums : list N) (all_present : bool)
  : result (list N * list span * bool * N * list N * bool) :=
  match idxs, lens with
  | i0 :: irest, hi :: lrest =>
      do i <- skip_earlier_v P (S (N.to_nat (hi - i0))) i0 hi doc_key;
      do st <- (if hi <=? i then      (* exhausted: not read (repair of D21); the term is absent *)
                  Done ({| ts_spans := spans; ts_full := full; ts_last_key := last_key; ts_curr_key := 0; ts_idx := i; ts_sum := 0 |}, false)
                else
                  do w0 <- rd 0 P i;
                  if negb (dkey w0 =? doc_key) then   (* the term does not occur in this document *)
                    Done ({| ts_spans := spans; ts_full := full; ts_last_key := last_key; ts_curr_key := dkey w0; ts_idx := i; ts_sum := 0 |}, false)
                  else
                    do s <- words_loop_v P (S (N.to_nat (hi - i))) hi tord nt maxw
                              {| ts_spans := spans; ts_full := full; ts_last_key := last_key; ts_curr_key := dkey w0; ts_idx := i; ts_sum := 0 |};
                    Done (s, true));
      let '(stt, present) := st in
      do r <- terms_loop_v P lrest (tord + 1) irest nt maxw doc_key (ts_spans stt) (ts_full stt) (ts_last_key stt)
                (sums ++ [ts_sum stt]) (andb all_present present);
      let '(idxs', sp', f', lk', sums', ap') := r in
      Done (ts_idx stt :: idxs', sp', f', lk', sums', ap')
  | _, _ => Done ([], spans, full, last_key, sums, all_present)
  end.

Definition min_popcount_v (sums : list N) : N :=
  fold_left (fun m s => if orb (m =? 0) (s <? m) then s else m) sums 0.

Fixpoint add_count_v (k c : N) (acc : list (N * N)) : list (N * N) :=       (* Counter: insertion order of first occurrence *)
  match acc with
  | [] => [(k, c)]
  | (k', c') :: rest => if k =? k' then (k', c' + c) :: rest else (k', c') :: add_count_v k c rest
  end.

Fixpoint docs_loop_v (P : mem) (fuel : nat) (his : list N) (hi0 : N) (idxs : list N) (nt : N) (maxw : Z) (acc : list (N * N))
  : result (list (N * N)) :=
  match fuel with
  | O => OutOfFuel
  | S f =>
      match idxs with
      | i0 :: _ =>
          if i0 <? hi0 then
            do w <- rd 0 P i0;
            let doc_key := dkey w in
            do r <- terms_loop_v P his 0 idxs nt maxw doc_key [] false 0 [] true;
            let '(idxs', spans, full, _, sums, all_present) := r in
            let acc' := if negb all_present then acc            (* a document lacking one of the terms cannot match *)
                        else if full then add_count_v doc_key (min_popcount_v sums) acc
                        else add_count_v doc_key (N.of_nat (length (collect spans nt maxw))) acc in
            docs_loop_v P f his hi0 idxs' nt maxw acc'
          else Done acc
      | [] => Done acc
      end
  end.

(* span_search_v(posns_encoded, slop) *)
Definition span_search_v (encs : list (list N)) (slop : N) : api (list (N * N)) :=
  ado pl <- intersect_all encs;
  let '(posns, lengths) := pl in
  let nt := N.of_nat (length lengths - 1) in
  let his := tl lengths in
  let idxs := removelast lengths in
  lift (docs_loop_v (mem_of_list posns) (S (length posns)) his (hd 0 his) idxs nt (Z.of_N (nt + slop)) []).

(* PosnBitArray.phrase_freqs(term_ids, slop > 0) on a freshly built array *)
Definition slop_freqs_v (ix : sindex) (ts : list N) (slop : N) : api (list N) :=
  if negb (forallb (known ix) ts) then AOk (repeat 0 (length (ix_lens ix)))
  else if Nat.ltb (length ts) 2 then AExc ValueError
  else
    ado enc <- get_all_posts ix ts;
    ado pf <- span_search_v enc slop;
    lift (store_many (repeat 0 (length (ix_lens ix))) pf).
