(* Line-level model of slop (span) search:
     searcharray/phrase/spans.py: _intersect_all (71-123), span_search (170-187)
     searcharray/roaringish/spans.pyx: ActiveSpans (30-35), _compact_spans (101-114), _collect_spans (117-146),
       _span_freqs (149-279, with the cursor guard that repairs D16)
   The 512-slot span table is a list of at most 512 records; every store is checked against the capacity
   (buffer 9) and every read of the flattened postings against its length (buffer 0).  No proofs here. *)
From Coq Require Import ZArith.
From SA Require Import Base.Prelude Gen.SourceConsts Kernels.Intersect Kernels.Linear Codec.Codec Index.Index Query.Phrase.
Open Scope N_scope.

Definition SPAN_CAP : N := src_span_cap.

Record span := { sp_terms : N; sp_posns : N; sp_beg : Z; sp_end : Z }.
Definition sp_width (s : span) : Z := Z.abs (sp_end s - sp_beg s).

(* ---- _intersect_all ---- *)
Definition hdr_unit : N := N.shiftl 1 (64 - (key_bits + msb_bits)).      (* 1 << (64 - header_bits) *)

Definition ia_pair (curr nxt : list N) : api (list N * list N) :=
  ado i1 <- lift (intersect_drop curr nxt header_mask);
  let int_headers := map header_of (take_idx curr (fst i1)) in
  ado a1 <- lift (adjacent curr nxt header_mask);                       (* curr_to_right, next_to_left *)
  ado lhs1 <- lift (merge int_headers (take_idx nxt (snd a1)));
  ado rhs1 <- lift (merge int_headers (take_idx curr (fst a1)));
  ado a2 <- lift (adjacent nxt curr header_mask);                       (* next_to_right, curr_to_left *)
  ado lhs2 <- lift (merge lhs1 (take_idx curr (snd a2)));
  ado rhs2 <- lift (merge rhs1 (take_idx nxt (fst a2)));
  AOk (lhs2, rhs2).

Fixpoint ia_fold (curr : list N) (rest : list (list N)) (acc : option (list N * list N)) : api (option (list N * list N)) :=
  match rest with
  | [] => AOk acc
  | nxt :: more =>
      ado lr <- ia_pair curr nxt;
      match acc with
      | None => ia_fold curr more (Some lr)
      | Some (ll, lrh) =>
          ado il <- lift (intersect_drop ll (fst lr) header_mask);
          ado ir <- lift (intersect_drop lrh (snd lr) header_mask);
          ia_fold curr more (Some (take_idx ll (fst il), take_idx lrh (fst ir)))
      end
  end.

Fixpoint slice_all_headers (encs : list (list N)) (hs : list N) : api (list (list N)) :=
  match encs with
  | [] => AOk []
  | e :: rest => ado s <- lift (slice_header e hs); ado more <- slice_all_headers rest hs; AOk (s :: more)
  end.

Definition intersect_all (encs : list (list N)) : api (list N * list N) :=     (* (concatenated words, cumulative lengths) *)
  match encs with
  | curr :: ((_ :: _) as rest) =>
      ado acc <- ia_fold curr rest None;
      match acc with
      | None => AExc ValueError
      | Some (ll, lr) =>
          let to_rhs := map (fun h => wadd h hdr_unit) lr in
          (* repair of D25: a word of (document 0, bucket 0) has no word to its left; subtracting would wrap around *)
          let to_lhs := map (fun h => wsub h hdr_unit) (filter (fun h => hdr_unit <=? h) ll) in
          ado m1 <- lift (merge_drop to_rhs to_lhs);
          ado m2 <- lift (merge_drop ll m1);
          ado m3 <- lift (merge_drop lr m2);
          let all_headers := map (fun h => N.land h header_mask) m3 in
          ado sl <- slice_all_headers encs all_headers;
          AOk (concat sl, fold_left (fun acc s => acc ++ [last acc 0 + N.of_nat (length s)]) sl [0])
      end
  | _ => AExc ValueError
  end.

(* ---- span table helpers ---- *)
Definition compact (spans : list span) (maxw : Z) : list span :=
  filter (fun s => andb (sp_width s <=? maxw)%Z (0 <? popcount (sp_terms s))) spans.

Definition is_complete (s : span) (nt : N) : bool :=
  orb (popcount (sp_terms s) =? nt) (popcount (sp_posns s) =? nt).
Definition overlap (a b : span) : bool := andb (sp_beg a <=? sp_end b)%Z (sp_end a >=? sp_beg b)%Z.

(* one candidate against the collected list: replace the first overlapping WIDER collected span, else append *)
Fixpoint collect_one (s : span) (coll : list span) : list span * bool :=
  match coll with
  | [] => ([], false)
  | c :: rest =>
      if andb (overlap s c) (sp_width s <? sp_width c)%Z then (s :: rest, true)
      else let '(r, b) := collect_one s rest in (c :: r, b)
  end.
Definition collect (spans : list span) (nt : N) (maxw : Z) : list span :=
  fold_left (fun coll s =>
               if andb (is_complete s nt) (sp_width s <? maxw)%Z then
                 let '(c', replaced) := collect_one s coll in if replaced then c' else coll ++ [s]
               else coll) spans [].

(* ---- the position loop: while term != 0 ---- *)
(* _posn_mask:  return (<DTYPE_t>1) << (curr_posn % 64)   (64-bit shift; repair of D24: the int shift aliased
   positions modulo 32 and sign-extended bit 31) *)
Definition pmask (p : Z) : N := N.shiftl 1 (Z.to_N (p mod 64)).

(* update the spans that existed before this position was added (indices < end); appended copies go to [app] *)
Fixpoint update_spans (old : list span) (room : N) (tmask pm : N) (cp : Z) (nt : N) (maxw : Z) (full : bool)
  : list span * list span * bool * N :=          (* (updated old, appended, full, room left) *)
  match old with
  | [] => ([], [], full, room)
  | s :: rest =>
      let ntv := popcount (sp_terms s) in
      let npv := popcount (sp_posns s) in
      if andb (ntv <? nt) (npv =? nt) then
        let '(r, app, f, rm) := update_spans rest room tmask pm cp nt maxw full in (s :: r, app, f, rm)
      else
        let terms' := N.lor (sp_terms s) tmask in
        if popcount terms' <=? ntv then
          (* not a new term: terms |= mask changes nothing *)
          let '(r, app, f, rm) := update_spans rest room tmask pm cp nt maxw full in (s :: r, app, f, rm)
        else
          let posns' := N.lor (sp_posns s) pm in
          let newu := popcount posns' in
          let pw := Z.abs (cp - sp_beg s) in
          if orb (npv =? newu) (maxw <? pw)%Z then
            (* cancel the term bit; the position bit stays OR-ed in, as in the source (KNOWN FINDING D27: after a
               width rejection the stale bit shadows the position 64 further on; see Span/Span_Variant.v) *)
            let s' := {| sp_terms := N.land terms' (wnot tmask); sp_posns := posns'; sp_beg := sp_beg s; sp_end := sp_end s |} in
            let '(r, app, f, rm) := update_spans rest room tmask pm cp nt maxw full in (s' :: r, app, f, rm)
          else
            let copy := {| sp_terms := terms'; sp_posns := N.land posns' (wnot pm); sp_beg := sp_beg s; sp_end := sp_end s |} in
            let s' := {| sp_terms := terms'; sp_posns := posns'; sp_beg := sp_beg s; sp_end := cp |} in
            if 0 <? room then
              let '(r, app, f, rm) := update_spans rest (room - 1) tmask pm cp nt maxw false in (s' :: r, copy :: app, f, rm)
            else
              let '(r, app, f, rm) := update_spans rest room tmask pm cp nt maxw true in (s' :: r, app, f, rm)
  end.

Fixpoint bits_loop (fuel : nat) (term : N) (base : Z) (tmask : N) (nt : N) (maxw : Z) (spans : list span) (full : bool)
  : result (list span * bool) :=
  match fuel with
  | O => OutOfFuel
  | S f =>
      if term =? 0 then Done (spans, full)
      else if SPAN_CAP <=? N.of_nat (length spans) then Done (spans, true)          (* the D16 guard *)
      else
        let set_idx := ctz term in
        let term' := N.land term (term - 1) in
        let cp := (Z.of_N set_idx + base)%Z in
        let pm := pmask cp in
        do _ <- wr_ok 9 SPAN_CAP (N.of_nat (length spans));
        let fresh_span := {| sp_terms := tmask; sp_posns := pm; sp_beg := cp; sp_end := cp |} in
        let room := SPAN_CAP - (N.of_nat (length spans) + 1) in
        let '(old', app, full', _) := update_spans spans room tmask pm cp nt maxw full in
        let spans' := old' ++ fresh_span :: app in
        if SPAN_CAP <=? N.of_nat (length spans') then Done (spans', full')
        else bits_loop f term' base tmask nt maxw spans' full'
  end.

(* ---- per-term word loop: while curr_idx[t] < lengths[t+1] ---- *)
Record tstate := { ts_spans : list span; ts_full : bool; ts_last_key : N; ts_curr_key : N; ts_idx : N; ts_sum : N }.

Definition dkey (w : N) : N := N.shiftr (N.land w key_mask) key_shift.

Fixpoint give_up (P : mem) (fuel : nat) (i hi last_key curr_key : N) : result (option N * N) :=   (* (new idx, curr_key) *)
  match fuel with
  | O => OutOfFuel
  | S f =>
      if i <? hi then
        do w <- rd 0 P i;
        let k := dkey w in
        if negb (k =? last_key) then Done (Some i, k) else give_up P f (i + 1) hi last_key k
      else Done (None, curr_key)
  end.

(* the positions of the words skipped by giving up still count for the estimate (repair of D32: they used to be counted
   only when no other document followed in this term's words, so the estimate depended on the neighbours) *)
Fixpoint give_up_sum (P : mem) (fuel : nat) (i hi last_key : N) : result N :=
  match fuel with
  | O => OutOfFuel
  | S f =>
      if i <? hi then
        do w <- rd 0 P i;
        if negb (dkey w =? last_key) then Done 0
        else do r <- give_up_sum P f (i + 1) hi last_key; Done (popcount (N.land w (wnot header_mask)) + r)
      else Done 0
  end.

Fixpoint words_loop (P : mem) (fuel : nat) (hi : N) (tord : N) (nt : N) (maxw : Z) (st : tstate) : result tstate :=
  match fuel with
  | O => OutOfFuel
  | S f =>
      if ts_idx st <? hi then
        let last_key := ts_curr_key st in
        do w <- rd 0 P (ts_idx st);
        let base := Z.of_N (N.shiftr (N.land w payload_msb_mask) lsb_bits * lsb_bits) in
        let payload := N.land w (wnot header_mask) in
        let tmask := N.shiftl 1 tord in
        do bl <- bits_loop 70 payload base tmask nt maxw (ts_spans st) (ts_full st);
        let '(spans1, full1) := bl in
        let idx1 := ts_idx st + 1 in
        do ck <- (if idx1 <? hi then do w2 <- rd 0 P idx1; Done (dkey w2) else Done (ts_curr_key st));
        do cg <- (if SPAN_CAP <=? N.of_nat (length spans1) then
                    let sp2 := compact spans1 maxw in
                    if SPAN_CAP <=? N.of_nat (length sp2) then
                      (* give up: full = True (repair of D26: the table is incomplete for this document) *)
                      do g <- give_up P (S (N.to_nat (hi - idx1))) idx1 hi last_key ck;
                      do extra <- give_up_sum P (S (N.to_nat (hi - idx1))) idx1 hi last_key;
                      (* for ... else: with no later document the cursor moves to the end of this term's words *)
                      Done (sp2, match fst g with Some i => i | None => hi end, snd g, true, extra)
                    else Done (sp2, idx1, ck, full1, 0)
                  else Done (spans1, idx1, ck, full1, 0));
        let '(spans2, idx2, ck2, full2, extra) := cg in
        let st' := {| ts_spans := spans2; ts_full := full2; ts_last_key := last_key; ts_curr_key := ck2; ts_idx := idx2;
                      ts_sum := ts_sum st + popcount payload + extra |} in
        if negb (ck2 =? last_key) then Done st' else words_loop P f hi tord nt maxw st'
      else Done st
  end.

(* ---- one outer iteration: every term at the document the first term is at ---- *)
(* while curr_idx[t] < hi and key(posns[curr_idx[t]]) < doc_key: curr_idx[t] += 1 *)
Fixpoint skip_earlier (P : mem) (fuel : nat) (i hi doc_key : N) : result N :=
  match fuel with
  | O => OutOfFuel
  | S f =>
      if i <? hi then do w <- rd 0 P i; if dkey w <? doc_key then skip_earlier P f (i + 1) hi doc_key else Done i
      else Done i
  end.

Fixpoint terms_loop (P : mem) (lens : list N) (tord : N) (idxs : list N) (nt : N) (maxw : Z) (doc_key : N)
  (spans : list span) (full : bool) (last_key : N) (sums : list N) (all_present : bool)
  : result (list N * list span * bool * N * list N * bool) :=
  match idxs, lens with
  | i0 :: irest, hi :: lrest =>
      do i <- skip_earlier P (S (N.to_nat (hi - i0))) i0 hi doc_key;
      do st <- (if hi <=? i then      (* exhausted: not read (repair of D21); the term is absent *)
                  Done ({| ts_spans := spans; ts_full := full; ts_last_key := last_key; ts_curr_key := 0; ts_idx := i; ts_sum := 0 |}, false)
                else
                  do w0 <- rd 0 P i;
                  if negb (dkey w0 =? doc_key) then   (* the term does not occur in this document *)
                    Done ({| ts_spans := spans; ts_full := full; ts_last_key := last_key; ts_curr_key := dkey w0; ts_idx := i; ts_sum := 0 |}, false)
                  else
                    do s <- words_loop P (S (N.to_nat (hi - i))) hi tord nt maxw
                              {| ts_spans := spans; ts_full := full; ts_last_key := last_key; ts_curr_key := dkey w0; ts_idx := i; ts_sum := 0 |};
                    Done (s, true));
      let '(stt, present) := st in
      do r <- terms_loop P lrest (tord + 1) irest nt maxw doc_key (ts_spans stt) (ts_full stt) (ts_last_key stt)
                (sums ++ [ts_sum stt]) (andb all_present present);
      let '(idxs', sp', f', lk', sums', ap') := r in
      Done (ts_idx stt :: idxs', sp', f', lk', sums', ap')
  | _, _ => Done ([], spans, full, last_key, sums, all_present)
  end.

Definition min_popcount (sums : list N) : N :=
  fold_left (fun m s => if orb (m =? 0) (s <? m) then s else m) sums 0.

Fixpoint add_count (k c : N) (acc : list (N * N)) : list (N * N) :=       (* Counter: insertion order of first occurrence *)
  match acc with
  | [] => [(k, c)]
  | (k', c') :: rest => if k =? k' then (k', c' + c) :: rest else (k', c') :: add_count k c rest
  end.

Fixpoint docs_loop (P : mem) (fuel : nat) (his : list N) (hi0 : N) (idxs : list N) (nt : N) (maxw : Z) (acc : list (N * N))
  : result (list (N * N)) :=
  match fuel with
  | O => OutOfFuel
  | S f =>
      match idxs with
      | i0 :: _ =>
          if i0 <? hi0 then
            do w <- rd 0 P i0;
            let doc_key := dkey w in
            do r <- terms_loop P his 0 idxs nt maxw doc_key [] false 0 [] true;
            let '(idxs', spans, full, _, sums, all_present) := r in
            let acc' := if negb all_present then acc            (* a document lacking one of the terms cannot match *)
                        else if full then add_count doc_key (min_popcount sums) acc
                        else add_count doc_key (N.of_nat (length (collect spans nt maxw))) acc in
            docs_loop P f his hi0 idxs' nt maxw acc'
          else Done acc
      | [] => Done acc
      end
  end.

(* span_search(posns_encoded, slop) *)
Definition span_search (encs : list (list N)) (slop : N) : api (list (N * N)) :=
  ado pl <- intersect_all encs;
  let '(posns, lengths) := pl in
  let nt := N.of_nat (length lengths - 1) in
  let his := tl lengths in
  let idxs := removelast lengths in
  lift (docs_loop (mem_of_list posns) (S (length posns)) his (hd 0 his) idxs nt (Z.of_N (nt + slop)) []).

(* PosnBitArray.phrase_freqs(term_ids, slop > 0) on a freshly built array *)
Definition slop_freqs (ix : sindex) (ts : list N) (slop : N) : api (list N) :=
  if negb (forallb (known ix) ts) then AOk (repeat 0 (length (ix_lens ix)))
  else if Nat.ltb (length ts) 2 then AExc ValueError
  else
    ado enc <- get_all_posts ix ts;
    ado pf <- span_search enc slop;
    lift (store_many (repeat 0 (length (ix_lens ix))) pf).
