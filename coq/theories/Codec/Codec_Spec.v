(* Spec of the position codec (C13): grouping of strictly increasing (key, position) pairs into
   canonical words, and what counts / keys / slices / boundary-encoding must return. *)
From SA Require Import Base.Prelude Kernels.Spec.
Open Scope N_scope.

Definition word_of (k b s : N) : N := k * 2 ^ 36 + b * 2 ^ 18 + s.
Definition onehot (p : N) : N := N.shiftl 1 (p mod 18).

(* one word per (key, position / 18) group, OR of the one-hot bits *)
Fixpoint encode_aux (cur : option (N * N * N)) (ps : list (N * N)) : list N :=
  match ps with
  | [] => match cur with None => [] | Some (k, b, s) => [word_of k b s] end
  | (k, p) :: rest =>
      match cur with
      | None => encode_aux (Some (k, p / 18, onehot p)) rest
      | Some (k0, b0, s0) =>
          if (k =? k0) && (p / 18 =? b0)
          then encode_aux (Some (k0, b0, N.lor s0 (onehot p))) rest
          else word_of k0 b0 s0 :: encode_aux (Some (k, p / 18, onehot p)) rest
      end
  end.
Definition encode_spec (ps : list (N * N)) : list N := encode_aux None ps.

(* positions grouped by key, keys and positions in input order *)
Fixpoint group_by_key (ps : list (N * N)) : list (N * list N) :=
  match ps with
  | [] => []
  | (k, p) :: t =>
      match group_by_key t with
      | (k', l) :: rest => if k =? k' then (k, p :: l) :: rest else (k, [p]) :: (k', l) :: rest
      | [] => [(k, [p])]
      end
  end.

Definition counts_spec (ps : list (N * N)) : list (N * N) :=
  map (fun kl => (fst kl, N.of_nat (length (snd kl)))) (group_by_key ps).
Definition keys_spec (ps : list (N * N)) : list N := map fst (group_by_key ps).
Definition slice_spec (ps : list (N * N)) (ks : list N) : list N :=
  encode_spec (filter (fun kp => mem_n (fst kp) ks) ps).

Fixpoint prefix_sums (acc : N) (l : list N) : list N :=
  match l with [] => [acc] | x :: t => acc :: prefix_sums (acc + x) t end.
Definition boundaries_spec (segs : list (list (N * N))) : list N * list N :=
  (concat (map encode_spec segs), prefix_sums 0 (map (fun s => N.of_nat (length (encode_spec s))) segs)).

(* well-formedness of codec input *)
Definition lt2 (a b : N * N) : Prop := fst a < fst b \/ (fst a = fst b /\ snd a < snd b).
Fixpoint sorted2 (l : list (N * N)) : Prop :=
  match l with [] => True | a :: t => (match t with [] => True | b :: _ => lt2 a b end) /\ sorted2 t end.
Definition bounded (l : list (N * N)) : Prop := Forall (fun kp => fst kp < 2 ^ 28 /\ snd kp < 2 ^ 18) l.
