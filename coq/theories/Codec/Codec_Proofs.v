(* C13: the position codec.  The numpy-level encoder (Codec.encode) computes the grouping spec,
   decode inverts it, the encoding is canonical, and counts / distinct keys computed on the encoding
   are those of the input.  Layout lemmas and the cur_ok invariant come from notes/prototypes. *)
From SA Require Import Base.Prelude Kernels.Spec Kernels.Linear Codec.Codec Codec.Codec_Spec.
From SA Require Import Kernels.Linear_Proofs.
From Coq Require Import Permutation Sorted.
Open Scope N_scope.

(* ---- sanity of the statements on concrete inputs ---- *)
Definition ex1 : list (N*N) := [(0,0);(0,17);(0,18);(3,5);(3,40);(3,262143)].
Definition ex2 : list (N*N) := [(0,0);(0,1);(268435455,0);(268435455,17);(268435455,18);(268435455,262143)].
Definition chk (ps : list (N*N)) :=
  (if list_eq_dec N.eq_dec (encode (map fst ps) (map snd ps)) (encode_spec ps) then true else false,
   decode (encode_spec ps), group_by_key ps,
   num_values_per_key (encode_spec ps), counts_spec ps,
   keys_unique (encode_spec ps), keys_spec ps).
Example chk_ex1 : chk ex1 =
  (true, [(0, [0; 17; 18]); (3, [5; 40; 262143])], [(0, [0; 17; 18]); (3, [5; 40; 262143])],
   Done [(0, 3); (3, 3)], [(0, 3); (3, 3)], Done [0; 3], [0; 3]).
Proof. vm_compute. reflexivity. Qed.
Example chk_ex2 : chk ex2 =
  (true, [(0, [0; 1]); (268435455, [0; 17; 18; 262143])], [(0, [0; 1]); (268435455, [0; 17; 18; 262143])],
   Done [(0, 2); (268435455, 4)], [(0, 2); (268435455, 4)], Done [0; 268435455], [0; 268435455]).
Proof. vm_compute. reflexivity. Qed.
(* the ps <> [] hypothesis of keys_unique_correct is needed: *)
Example keys_unique_empty : keys_unique (encode_spec []) = Fault Rd 0 0 /\ keys_spec [] = [].
Proof. split; vm_compute; reflexivity. Qed.

(* ================= constants ================= *)
Lemma pow18 : 2^18 = 262144. Proof. reflexivity. Qed.
Lemma pow28 : 2^28 = 268435456. Proof. reflexivity. Qed.
Lemma pow36 : 2^36 = 68719476736. Proof. reflexivity. Qed.
Lemma pow64 : 2^64 = 18446744073709551616. Proof. reflexivity. Qed.
Ltac pows := rewrite ?pow18, ?pow28, ?pow36, ?pow64 in *.

Lemma key_shift_val : key_shift = 36. Proof. reflexivity. Qed.
Lemma msb_bits_val : msb_bits = 18. Proof. reflexivity. Qed.
Lemma lsb_bits_val : lsb_bits = 18. Proof. reflexivity. Qed.
Lemma plm_val : payload_lsb_mask = 262143. Proof. vm_compute. reflexivity. Qed.
Lemma hmask_val : wnot payload_lsb_mask = 18446744073709289472. Proof. vm_compute. reflexivity. Qed.
Lemma key_mask_val : key_mask = 18446744004990074880. Proof. vm_compute. reflexivity. Qed.
Lemma pmm_val : payload_msb_mask = 68719214592. Proof. vm_compute. reflexivity. Qed.

(* ================= layout ================= *)
Lemma land_shiftl_low a n x : x < 2^n -> N.land (N.shiftl a n) x = 0.
Proof.
  intros Hx. apply N.bits_inj; intro i. rewrite N.land_spec, N.bits_0.
  destruct (N.ltb_spec i n) as [Hi|Hi].
  - rewrite N.shiftl_spec_low by assumption. reflexivity.
  - replace (N.testbit x i) with false; [apply andb_false_r|].
    symmetry. destruct (N.eq_dec x 0) as [->|Hnz]; [apply N.bits_0|].
    apply N.bits_above_log2. apply N.lt_le_trans with n; [|assumption].
    apply N.log2_lt_pow2; [lia|assumption].
Qed.

Lemma lor_shiftl_add a n x : x < 2^n -> N.lor (N.shiftl a n) x = a * 2^n + x.
Proof.
  intros Hx. rewrite <- N.lxor_lor by (apply land_shiftl_low; assumption).
  rewrite <- N.add_nocarry_lxor by (apply land_shiftl_low; assumption).
  now rewrite N.shiftl_mul_pow2.
Qed.

Lemma word_of_shift k b s : s < 2^18 -> word_of k b s = N.lor (N.shiftl (k * 2^18 + b) 18) s.
Proof. intros Hs. rewrite lor_shiftl_add by assumption. unfold word_of. pows. lia. Qed.

Lemma word_lt64 k b s : k < 2^28 -> b < 2^18 -> s < 2^18 -> word_of k b s < 2^64.
Proof. intros. unfold word_of. pows. lia. Qed.

Lemma key_of_word k b s : b < 2^18 -> s < 2^18 -> N.shiftr (word_of k b s) 36 = k.
Proof. intros Hb Hs. unfold word_of. rewrite N.shiftr_div_pow2. pows. lia. Qed.

Lemma lsb_of_word k b s : s < 2^18 -> N.land (word_of k b s) 262143 = s.
Proof.
  intros Hs. change 262143 with (N.ones 18). rewrite N.land_ones. unfold word_of. pows. lia.
Qed.

Lemma dec_key_word k b s : k < 2^28 -> b < 2^18 -> s < 2^18 -> dec_key (word_of k b s) = k.
Proof.
  intros Hk Hb Hs. unfold dec_key. rewrite key_mask_val, key_shift_val, N.shiftr_land.
  change (N.shiftr 18446744004990074880 36) with (N.ones 28).
  rewrite N.land_ones, N.shiftr_div_pow2. unfold word_of. pows. lia.
Qed.

Lemma dec_msb_word k b s : b < 2^18 -> s < 2^18 -> dec_msb (word_of k b s) = b.
Proof.
  intros Hb Hs. unfold dec_msb. rewrite pmm_val, msb_bits_val, N.shiftr_land.
  change (N.shiftr 68719214592 18) with (N.ones 18).
  rewrite N.land_ones, N.shiftr_div_pow2. unfold word_of. pows. lia.
Qed.

Lemma header_as_arith w : w < 2^64 -> header_of w = (w / 2^18) * 2^18.
Proof.
  intros Hw. unfold header_of. rewrite hmask_val.
  change 18446744073709289472 with (N.shiftl (N.ones 46) 18).
  rewrite <- N.shiftl_mul_pow2, <- N.shiftr_div_pow2.
  apply N.bits_inj; intro i.
  rewrite N.land_spec.
  destruct (N.ltb_spec i 18) as [Hi|Hi].
  - rewrite !N.shiftl_spec_low by assumption. now rewrite andb_false_r.
  - rewrite !N.shiftl_spec_high' by assumption.
    rewrite N.shiftr_spec'. replace (i - 18 + 18) with i by lia.
    destruct (N.ltb_spec (i-18) 46) as [Hj|Hj].
    + rewrite N.ones_spec_low by assumption. now rewrite andb_true_r.
    + rewrite N.ones_spec_high by assumption. rewrite andb_false_r.
      symmetry. apply N.bits_above_log2.
      destruct (N.eq_dec w 0) as [->|Hnz]; [cbn; lia|].
      apply N.log2_lt_pow2; [lia|].
      eapply N.lt_le_trans; [exact Hw|]. apply N.pow_le_mono_r; lia.
Qed.

Lemma header_of_word k b s : k < 2^28 -> b < 2^18 -> s < 2^18 -> header_of (word_of k b s) = word_of k b 0.
Proof.
  intros Hk Hb Hs. rewrite header_as_arith by (apply word_lt64; assumption).
  unfold word_of. pows. lia.
Qed.

Lemma payload_lsb_of_word k b s : s < 2^18 -> payload_lsb_of (word_of k b s) = s.
Proof. intros Hs. unfold payload_lsb_of. rewrite plm_val. apply lsb_of_word. assumption. Qed.

Lemma onehot_lt p : onehot p < 2^18.
Proof.
  unfold onehot. rewrite N.shiftl_1_l. apply N.pow_lt_mono_r; [lia|]. apply N.mod_lt. lia.
Qed.
Lemma onehot_nz p : onehot p <> 0.
Proof. unfold onehot. rewrite N.shiftl_1_l. apply N.pow_nonzero. lia. Qed.
Lemma testbit_onehot p i : N.testbit (onehot p) i = (i =? p mod 18).
Proof. unfold onehot. rewrite N.shiftl_1_l, N.pow2_bits_eqb. apply N.eqb_sym. Qed.

Lemma lor_lt18 a b : a < 2^18 -> b < 2^18 -> N.lor a b < 2^18.
Proof.
  intros Ha Hb.
  destruct (N.eq_dec a 0) as [->|Ha0]; [now rewrite N.lor_0_l|].
  destruct (N.eq_dec b 0) as [->|Hb0]; [now rewrite N.lor_0_r|].
  assert (La : N.log2 a < 18) by (apply N.log2_lt_pow2; lia).
  assert (Lb : N.log2 b < 18) by (apply N.log2_lt_pow2; lia).
  assert (E : N.lor a b <> 0) by (intro E; apply N.lor_eq_0_iff in E; tauto).
  apply N.log2_lt_pow2; [lia|]. rewrite N.log2_lor. lia.
Qed.

Lemma word_lor k b s s' : s < 2^18 -> s' < 2^18 ->
  N.lor (word_of k b s) (word_of k b s') = word_of k b (N.lor s s').
Proof.
  intros Hs Hs'. rewrite !word_of_shift by (try apply lor_lt18; assumption).
  apply N.bits_inj; intro i. rewrite !N.lor_spec.
  destruct (N.testbit (N.shiftl (k * 2 ^ 18 + b) 18) i), (N.testbit s i), (N.testbit s' i); reflexivity.
Qed.

Lemma word_hdr_eqb k0 b0 k b : b0 < 2^18 -> b < 2^18 ->
  (word_of k0 b0 0 =? word_of k b 0) = ((k =? k0) && (b =? b0)).
Proof.
  intros H0 H. unfold word_of. pows.
  destruct (N.eqb_spec (k0 * 68719476736 + b0 * 262144 + 0) (k * 68719476736 + b * 262144 + 0)),
           (N.eqb_spec k k0), (N.eqb_spec b b0); cbn [andb]; try reflexivity; exfalso; lia.
Qed.

(* ================= 1. encode computes encode_spec ================= *)
Lemma enc_col_word k p : k < 2^28 -> p < 2^18 -> enc_col k p = word_of k (p / 18) 0.
Proof.
  intros Hk Hp. unfold enc_col. rewrite key_shift_val, msb_bits_val, lsb_bits_val.
  assert (E1 : wshl (p / 18) 18 = (p / 18) * 2^18).
  { unfold wshl, W64. rewrite N.shiftl_mul_pow2. apply N.mod_small. pows. lia. }
  assert (E2 : wshl k 36 = N.shiftl k 36).
  { unfold wshl, W64. rewrite N.shiftl_mul_pow2. apply N.mod_small. pows. lia. }
  rewrite E1, E2, N.lor_comm, lor_shiftl_add by (pows; lia).
  unfold word_of. pows. lia.
Qed.

Lemma enc_word k p : k < 2^28 -> p < 2^18 ->
  N.lor (enc_col k p) (enc_val p) = word_of k (p / 18) (onehot p).
Proof.
  intros Hk Hp. rewrite enc_col_word by assumption. change (enc_val p) with (onehot p).
  rewrite (word_of_shift k (p/18) (onehot p)) by apply onehot_lt.
  rewrite (word_of_shift k (p/18) 0) by (pows; lia). now rewrite N.lor_0_r.
Qed.

Definition hdrw (kp : N*N) : N := word_of (fst kp) (snd kp / 18) 0.
Definition wrdw (kp : N*N) : N := word_of (fst kp) (snd kp / 18) (onehot (snd kp)).

Lemma cols_eq ps : bounded ps -> map2 enc_col (map fst ps) (map snd ps) = map hdrw ps.
Proof.
  induction 1 as [|[k p] t [Hk Hp] Hb IH]; [reflexivity|].
  cbn [map map2 fst snd] in *. rewrite IH. unfold hdrw at 1. cbn [fst snd].
  now rewrite enc_col_word.
Qed.

Lemma words_eq ps : bounded ps -> encode_words (map fst ps) (map snd ps) = map wrdw ps.
Proof.
  unfold encode_words.
  induction 1 as [|[k p] t [Hk Hp] Hb IH]; [reflexivity|].
  cbn [map map2 fst snd] in *. rewrite IH. unfold wrdw at 1. cbn [fst snd].
  now rewrite enc_word.
Qed.

(* intermediate: group a column list into runs, OR-ing the values *)
Fixpoint runs (cur acc : N) (cols vals : list N) : list N :=
  match cols, vals with
  | c :: cs, v :: vs => if cur =? c then runs cur (N.lor acc v) cs vs else acc :: runs c v cs vs
  | _, _ => [acc]
  end.

Lemma reduceat_or_cons2 xs a b t :
  reduceat_or xs (a :: b :: t) =
  (if a <? b then fold_or (slice_nat xs (N.to_nat a) (N.to_nat b)) else nth (N.to_nat a) xs 0)
    :: reduceat_or xs (b :: t).
Proof. reflexivity. Qed.
Lemma dnf_cons2 i x y t :
  diff_nonzero_from i (x :: y :: t) =
  if x =? y then diff_nonzero_from (i + 1) (y :: t) else (i + 1) :: diff_nonzero_from (i + 1) (y :: t).
Proof. reflexivity. Qed.

Lemma skipn_app_len {A} (l1 l2 : list A) : skipn (length l1) (l1 ++ l2) = l2.
Proof. induction l1; cbn [length skipn app]; auto. Qed.
Lemma firstn_app_len {A} (l1 l2 : list A) : firstn (length l1) (l1 ++ l2) = l1.
Proof. induction l1; cbn [length firstn app]; [reflexivity|]. now f_equal. Qed.

Lemma reduceat_runs : forall cols vals, length cols = length vals ->
  forall pre grp c n, N.of_nat (length pre + length grp) = n + 1 -> grp <> [] ->
  reduceat_or (pre ++ grp ++ vals) (N.of_nat (length pre) :: diff_nonzero_from n (c :: cols))
  = runs c (fold_or grp) cols vals.
Proof.
  induction cols as [|c' cs IH]; intros [|v vs] Hlen pre grp c n Hn Hg; try discriminate.
  - cbn [diff_nonzero_from reduceat_or runs]. rewrite Nat2N.id, app_nil_r, skipn_app_len. reflexivity.
  - rewrite dnf_cons2. cbn [runs]. cbn [length] in Hlen.
    destruct (c =? c') eqn:E.
    + apply N.eqb_eq in E; subst c'.
      replace (pre ++ grp ++ v :: vs) with (pre ++ (grp ++ [v]) ++ vs)
        by (rewrite <- (app_assoc grp); reflexivity).
      rewrite IH.
      * unfold fold_or. rewrite fold_left_app. reflexivity.
      * lia.
      * rewrite app_length. cbn [length]. lia.
      * destruct grp; discriminate.
    + rewrite reduceat_or_cons2.
      replace (N.of_nat (length pre) <? n + 1) with true
        by (symmetry; apply N.ltb_lt; destruct grp; [congruence|cbn [length] in Hn; lia]).
      f_equal.
      * unfold slice_nat. rewrite Nat2N.id.
        replace (N.to_nat (n + 1) - length pre)%nat with (length grp) by lia.
        rewrite skipn_app_len, firstn_app_len. reflexivity.
      * replace (pre ++ grp ++ v :: vs) with ((pre ++ grp) ++ [v] ++ vs)
          by (rewrite <- app_assoc; reflexivity).
        replace (n + 1) with (N.of_nat (length (pre ++ grp))) at 1 by (rewrite app_length; lia).
        rewrite IH.
        -- unfold fold_or. cbn [fold_left]. rewrite N.lor_0_l. reflexivity.
        -- lia.
        -- rewrite app_length. cbn [length]. lia.
        -- discriminate.
Qed.

Lemma runs_encode_aux : forall rest k0 b0 s0, bounded rest -> b0 < 2^18 -> s0 < 2^18 ->
  runs (word_of k0 b0 0) (word_of k0 b0 s0) (map hdrw rest) (map wrdw rest)
  = encode_aux (Some (k0, b0, s0)) rest.
Proof.
  induction rest as [|[k p] rest IH]; intros k0 b0 s0 Hbd Hb0 Hs0; [reflexivity|].
  inversion Hbd as [|x l [Hk Hp] Hbd' Ex]; subst. cbn [fst snd] in *.
  assert (Hb : p / 18 < 2^18) by (pows; lia).
  cbn [map runs encode_aux]. unfold hdrw at 1, wrdw at 1 2. cbn [fst snd].
  rewrite word_hdr_eqb by assumption.
  destruct ((k =? k0) && (p / 18 =? b0)) eqn:E.
  - apply andb_true_iff in E as [Ek Eb]. apply N.eqb_eq in Ek, Eb. subst k b0.
    rewrite word_lor by (try apply onehot_lt; assumption).
    apply IH; [assumption|assumption|apply lor_lt18; [assumption|apply onehot_lt]].
  - f_equal. apply IH; [assumption|assumption|apply onehot_lt].
Qed.

Theorem encode_correct : forall ps, sorted2 ps -> bounded ps ->
  encode (map fst ps) (map snd ps) = encode_spec ps.
Proof.
  intros ps _ Hbd. destruct ps as [|[k p] rest]; [reflexivity|].
  unfold encode. rewrite cols_eq, words_eq by assumption.
  cbn [map snd]. unfold change_indices. cbn [map].
  inversion Hbd as [|x l [Hk Hp] Hbd' Ex]; subst. cbn [fst snd] in *.
  pose proof (reduceat_runs (map hdrw rest) (map wrdw rest)) as R.
  rewrite !map_length in R. specialize (R eq_refl [] [wrdw (k, p)] (hdrw (k, p)) 0 eq_refl).
  cbn [app length] in R. change (N.of_nat 0) with 0 in R. rewrite R by discriminate.
  unfold fold_or. cbn [fold_left]. rewrite N.lor_0_l.
  unfold hdrw at 1, wrdw at 1. cbn [fst snd].
  unfold encode_spec. cbn [encode_aux].
  apply runs_encode_aux; [assumption|pows; lia|apply onehot_lt].
Qed.

(* ================= the invariant of the encode_aux recursion ================= *)
Definition cur_ok (k b s : N) (rest : list (N*N)) : Prop :=
  k < 2^28 /\ b < 2^18 /\ s < 2^18 /\ s <> 0 /\
  match rest with
  | [] => True
  | (k', p') :: _ => k < k' \/ (k = k' /\ (b < p' / 18 \/
                     (b = p' / 18 /\ forall i, N.testbit s i = true -> i < p' mod 18)))
  end.

Lemma cur_ok_next k' p' s1 rest : sorted2 ((k', p') :: rest) -> bounded ((k', p') :: rest) ->
  s1 < 2^18 -> s1 <> 0 -> (forall i, N.testbit s1 i = true -> i <= p' mod 18) ->
  cur_ok k' (p' / 18) s1 rest.
Proof.
  intros [Hhd Hs'] Hbd Hs1 Hnz Hbits.
  inversion Hbd as [|x l [Hk' Hp'] Hbd' Ex]; subst. cbn [fst snd] in *.
  assert (Hr : p' mod 18 < 18) by (apply N.mod_lt; lia).
  split; [assumption|]. split; [pows; lia|]. split; [assumption|]. split; [assumption|].
  destruct rest as [|[k2 p2] rest2]; [exact I|].
  destruct Hhd as [Hlt|[Heq Hlt]]; cbn [fst snd] in *; [left; exact Hlt|].
  right; split; [exact Heq|].
  destruct (N.lt_ge_cases (p' / 18) (p2 / 18)) as [Hq|Hq]; [left; exact Hq|].
  right. split; [lia|]. intros i Hi. apply Hbits in Hi. lia.
Qed.

Lemma cur_ok_init k p rest : sorted2 ((k, p) :: rest) -> bounded ((k, p) :: rest) ->
  cur_ok k (p / 18) (onehot p) rest.
Proof.
  intros Hs Hb. apply cur_ok_next; try assumption; [apply onehot_lt|apply onehot_nz|].
  intros i Hi. rewrite testbit_onehot in Hi. apply N.eqb_eq in Hi. lia.
Qed.

Lemma encode_aux_same k b s p rest : p / 18 = b ->
  encode_aux (Some (k, b, s)) ((k, p) :: rest) = encode_aux (Some (k, b, N.lor s (onehot p))) rest.
Proof. intros <-. cbn [encode_aux]. now rewrite !N.eqb_refl. Qed.
Lemma encode_aux_diff k b s k' p' rest : (k' =? k) && (p' / 18 =? b) = false ->
  encode_aux (Some (k, b, s)) ((k', p') :: rest)
  = word_of k b s :: encode_aux (Some (k', p' / 18, onehot p')) rest.
Proof. intros E. cbn [encode_aux]. now rewrite E. Qed.

(* induction principle: empty / same header / new header *)
Lemma enc_ind (P : N -> N -> N -> list (N*N) -> Prop) :
  (forall k b s, cur_ok k b s [] -> P k b s []) ->
  (forall k b s p rest, cur_ok k b s ((k, p) :: rest) -> p / 18 = b -> p < 2^18 ->
     (forall i, N.testbit s i = true -> i < p mod 18) ->
     cur_ok k b (N.lor s (onehot p)) rest -> P k b (N.lor s (onehot p)) rest ->
     P k b s ((k, p) :: rest)) ->
  (forall k b s k' p' rest, cur_ok k b s ((k', p') :: rest) ->
     (k' =? k) && (p' / 18 =? b) = false -> (k < k' \/ (k = k' /\ b < p' / 18)) ->
     k' < 2^28 -> p' < 2^18 ->
     cur_ok k' (p' / 18) (onehot p') rest -> P k' (p' / 18) (onehot p') rest ->
     P k b s ((k', p') :: rest)) ->
  forall rest k b s, sorted2 rest -> bounded rest -> cur_ok k b s rest -> P k b s rest.
Proof.
  intros Hnil Hsame Hdiff.
  induction rest as [|[k' p'] rest IH]; intros k b s Hs Hbd Hok; [apply Hnil; assumption|].
  pose proof Hok as (Hk & Hb & Hss & Hnz & Hnext).
  pose proof Hs as [Hhd Hs'].
  inversion Hbd as [|x l [Hk' Hp'] Hbd' Ex]; subst. cbn [fst snd] in *.
  assert (Hr : p' mod 18 < 18) by (apply N.mod_lt; lia).
  destruct ((k' =? k) && (p' / 18 =? b)) eqn:Esame.
  - apply andb_true_iff in Esame as [Ek Eb]. apply N.eqb_eq in Ek, Eb. subst k'.
    assert (Hlow : forall i, N.testbit s i = true -> i < p' mod 18).
    { destruct Hnext as [Hn|[_ [Hn|[_ Hn]]]]; [lia|lia|exact Hn]. }
    assert (Hok' : cur_ok k b (N.lor s (onehot p')) rest).
    { rewrite <- Eb. apply cur_ok_next; try assumption.
      - apply lor_lt18; [assumption|apply onehot_lt].
      - intro E. apply N.lor_eq_0_iff in E. tauto.
      - intros i Hi. rewrite N.lor_spec, testbit_onehot in Hi.
        apply orb_true_iff in Hi as [Hi|Hi]; [apply Hlow in Hi; lia|apply N.eqb_eq in Hi; lia]. }
    apply Hsame; try assumption. apply IH; assumption.
  - assert (Hok' : cur_ok k' (p' / 18) (onehot p') rest) by (apply cur_ok_init; assumption).
    apply Hdiff; try assumption.
    + destruct Hnext as [Hn|[Hn [Hn'|[Hn' _]]]]; [left; exact Hn|right; split; assumption|].
      subst. rewrite !N.eqb_refl in Esame. discriminate.
    + apply IH; assumption.
Qed.

Lemma encode_aux_head : forall rest k b s, s < 2^18 ->
  exists s' tl, encode_aux (Some (k, b, s)) rest = word_of k b s' :: tl /\ s' < 2^18.
Proof.
  induction rest as [|[k' p'] rest IH]; intros k b s Hs; cbn [encode_aux].
  - exists s, []. split; [reflexivity|assumption].
  - destruct ((k' =? k) && (p' / 18 =? b)).
    + apply IH. apply lor_lt18; [assumption|apply onehot_lt].
    + exists s, (encode_aux (Some (k', p' / 18, onehot p')) rest). split; [reflexivity|assumption].
Qed.

(* ================= 2. decode inverts encode_spec ================= *)
Definition bits18 : list N := map N.of_nat (seq 0 18).
Definition bit_list (s : N) : list N := filter (N.testbit s) bits18.
Definition decode_triple (k b s : N) : list (N*N) := map (fun i => (k, i + b * 18)) (bit_list s).
(* rows contributed by one word, in bit order *)
Definition word_rows (w : N) : list (N*N) :=
  map (fun bit => (dec_key w, bit + dec_msb w * lsb_bits))
      (filter (fun bit => negb (N.land w (N.shiftl 1 bit) =? 0)) bits18).

Lemma bits18_lt i : In i bits18 -> i < 18.
Proof. unfold bits18. rewrite in_map_iff. intros (n & <- & Hn). apply in_seq in Hn. lia. Qed.

Lemma land_bit_test w i : negb (N.land w (N.shiftl 1 i) =? 0) = N.testbit w i.
Proof.
  rewrite N.shiftl_1_l.
  destruct (N.testbit w i) eqn:T.
  - apply negb_true_iff, N.eqb_neq. intro E.
    assert (F : N.testbit (N.land w (2 ^ i)) i = true)
      by (rewrite N.land_spec, T, N.pow2_bits_true; reflexivity).
    rewrite E, N.bits_0 in F. discriminate.
  - apply negb_false_iff, N.eqb_eq. apply N.bits_inj; intro j.
    rewrite N.land_spec, N.bits_0, N.pow2_bits_eqb.
    destruct (N.eqb_spec i j) as [<-|]; [now rewrite T|apply andb_false_r].
Qed.

Lemma word_rows_word k b s : k < 2^28 -> b < 2^18 -> s < 2^18 ->
  word_rows (word_of k b s) = decode_triple k b s.
Proof.
  intros Hk Hb Hs. unfold word_rows, decode_triple, bit_list.
  rewrite dec_key_word, dec_msb_word, lsb_bits_val by assumption.
  f_equal. apply filter_ext_in. intros i Hi. apply bits18_lt in Hi.
  rewrite land_bit_test.
  rewrite <- (N.mod_pow2_bits_low (word_of k b s) 18 i) by assumption.
  f_equal. unfold word_of. pows. lia.
Qed.

Lemma bit_list_onehot p : bit_list (onehot p) = [p mod 18].
Proof.
  assert (H : p mod 18 < 18) by (apply N.mod_lt; lia).
  unfold bit_list.
  assert (E : forall i, N.testbit (onehot p) i = (i =? p mod 18)) by apply testbit_onehot.
  rewrite (filter_ext _ _ E).
  remember (p mod 18) as r. clear Heqr E p.
  assert (C : r = 0 \/ r = 1 \/ r = 2 \/ r = 3 \/ r = 4 \/ r = 5 \/ r = 6 \/ r = 7 \/ r = 8 \/ r = 9 \/
              r = 10 \/ r = 11 \/ r = 12 \/ r = 13 \/ r = 14 \/ r = 15 \/ r = 16 \/ r = 17) by lia.
  repeat (destruct C as [->|C]; [reflexivity|]). subst; reflexivity.
Qed.

Lemma filter_seq_lor_high s r :
  r < 18 -> (forall i, N.testbit s i = true -> i < r) ->
  bit_list (N.lor s (N.shiftl 1 r)) = bit_list s ++ [r].
Proof.
  intros Hr Hlow. unfold bit_list, bits18.
  assert (T : forall i, N.testbit (N.lor s (N.shiftl 1 r)) i = N.testbit s i || (i =? r)).
  { intro i. rewrite N.lor_spec, N.shiftl_1_l, N.pow2_bits_eqb. now rewrite (N.eqb_sym r i). }
  rewrite (filter_ext _ _ T).
  set (n := N.to_nat r).
  assert (Hn : (n < 18)%nat) by (unfold n; lia).
  assert (E18 : seq 0 18 = (seq 0 n ++ [n] ++ seq (S n) (18 - S n))%list).
  { replace 18%nat with (n + S (18 - S n))%nat at 1 by lia. rewrite seq_app. reflexivity. }
  rewrite E18. clear E18. remember (18 - S n)%nat as m eqn:Em.
  rewrite !map_app, !filter_app. cbn [map].
  assert (A : forall l, (forall x, In x l -> (x < n)%nat) ->
              filter (fun i => N.testbit s i || (i =? r)) (map N.of_nat l) = filter (N.testbit s) (map N.of_nat l)).
  { induction l as [|x l IH]; intros HL; [reflexivity|]. cbn [map filter].
    assert (Hx : (x < n)%nat) by (apply HL; now left).
    replace (N.of_nat x =? r) with false by (symmetry; apply N.eqb_neq; unfold n in Hx; lia).
    rewrite orb_false_r. rewrite IH by (intros; apply HL; now right). reflexivity. }
  assert (B : forall l, (forall x, In x l -> (n < x)%nat) ->
              filter (fun i => N.testbit s i || (i =? r)) (map N.of_nat l) = [] /\
              filter (N.testbit s) (map N.of_nat l) = []).
  { induction l as [|x l IH]; intros HL; [split; reflexivity|]. cbn [map filter].
    assert (Hx : (n < x)%nat) by (apply HL; now left).
    assert (F : N.testbit s (N.of_nat x) = false).
    { destruct (N.testbit s (N.of_nat x)) eqn:E; [|reflexivity]. apply Hlow in E. unfold n in Hx. lia. }
    rewrite F. replace (N.of_nat x =? r) with false by (symmetry; apply N.eqb_neq; unfold n in Hx; lia).
    cbn [orb]. apply IH. intros; apply HL; now right. }
  rewrite A by (intros x Hx; apply in_seq in Hx; lia).
  destruct (B (seq (S n) m)) as [B1 B2]; [intros x Hx; apply in_seq in Hx; lia|].
  rewrite B1, B2.
  cbn [filter].
  assert (Sr : N.testbit s (N.of_nat n) = false).
  { destruct (N.testbit s (N.of_nat n)) eqn:E; [|reflexivity]. apply Hlow in E. unfold n in E. lia. }
  rewrite Sr. replace (N.of_nat n =? r) with true by (symmetry; apply N.eqb_eq; unfold n; lia).
  cbn [orb app]. rewrite !app_nil_r. f_equal. f_equal. unfold n. lia.
Qed.

Lemma decode_triple_onehot k p : decode_triple k (p / 18) (onehot p) = [(k, p)].
Proof. unfold decode_triple. rewrite bit_list_onehot. cbn [map]. f_equal. f_equal. lia. Qed.

Lemma rows_aux : forall rest k b s, sorted2 rest -> bounded rest -> cur_ok k b s rest ->
  flat_map word_rows (encode_aux (Some (k, b, s)) rest) = decode_triple k b s ++ rest.
Proof.
  apply (enc_ind (fun k b s rest =>
    flat_map word_rows (encode_aux (Some (k, b, s)) rest) = decode_triple k b s ++ rest)).
  - intros k b s (Hk & Hb & Hs & _). cbn [encode_aux flat_map].
    rewrite word_rows_word by assumption. reflexivity.
  - intros k b s p rest _ Eb Hp Hlow _ IH.
    rewrite encode_aux_same by assumption. rewrite IH.
    unfold decode_triple, onehot. rewrite filter_seq_lor_high by (try assumption; apply N.mod_lt; lia).
    rewrite map_app. cbn [map]. rewrite <- app_assoc. cbn [app]. f_equal. f_equal. f_equal. lia.
  - intros k b s k' p' rest (Hk & Hb & Hs & _) E _ _ _ _ IH.
    rewrite encode_aux_diff by assumption. cbn [flat_map].
    rewrite word_rows_word by assumption. rewrite IH, decode_triple_onehot. reflexivity.
Qed.

Lemma rows_encode_spec ps : sorted2 ps -> bounded ps -> flat_map word_rows (encode_spec ps) = ps.
Proof.
  intros Hs Hb. destruct ps as [|[k p] rest]; [reflexivity|].
  unfold encode_spec. cbn [encode_aux].
  inversion Hb as [|x l _ Hb' Ex]; subst. destruct Hs as [Hhd Hs'].
  rewrite rows_aux; [now rewrite decode_triple_onehot|assumption|assumption|].
  apply cur_ok_init; [split|]; assumption.
Qed.

(* swapping the two flat_map loops is a permutation *)
Lemma flat_map_app_perm {A B} (f g : A -> list B) l :
  Permutation (flat_map (fun x => f x ++ g x) l) (flat_map f l ++ flat_map g l).
Proof.
  induction l as [|x t IH]; cbn [flat_map]; [reflexivity|].
  rewrite <- !app_assoc. apply Permutation_app_head.
  etransitivity; [apply Permutation_app_head; exact IH|].
  apply Permutation_app_swap_app.
Qed.

Lemma flat_map_nil {A B} (l : list A) : flat_map (fun _ => @nil B) l = [].
Proof. induction l; cbn [flat_map app]; auto. Qed.

Lemma flat_map_swap {A B C} (f : A -> B -> C) (g : A -> B -> bool) (la : list A) (lb : list B) :
  Permutation (flat_map (fun a => map (f a) (filter (g a) lb)) la)
              (flat_map (fun b => map (fun a => f a b) (filter (fun a => g a b) la)) lb).
Proof.
  induction la as [|a la IH]; cbn [flat_map].
  - cbn [filter map]. now rewrite flat_map_nil.
  - rewrite (flat_map_ext _ (fun b => (if g a b then [f a b] else []) ++
                                      map (fun a0 => f a0 b) (filter (fun a0 => g a0 b) la))).
    + etransitivity; [|apply Permutation_sym, flat_map_app_perm].
      replace (flat_map (fun b => if g a b then [f a b] else []) lb) with (map (f a) (filter (g a) lb)).
      * apply Permutation_app_head. exact IH.
      * clear. induction lb as [|b lb IH]; [reflexivity|]. cbn [filter flat_map].
        destruct (g a b); cbn [map app]; now rewrite IH.
    + intro b. cbn [filter]. destruct (g a b); reflexivity.
Qed.

Lemma rows_perm ws :
  Permutation (flat_map (rows_of_bit ws) (map N.of_nat (seq 0 (N.to_nat lsb_bits))))
              (flat_map word_rows ws).
Proof.
  change (map N.of_nat (seq 0 (N.to_nat lsb_bits))) with bits18.
  exact (flat_map_swap (fun bit w => (dec_key w, bit + dec_msb w * lsb_bits))
                       (fun bit w => negb (N.land w (N.shiftl 1 bit) =? 0)) bits18 ws).
Qed.

(* insertion sort of a permutation of a strictly sorted list *)
Definition kple (a b : N*N) : Prop := kp_leb a b = true.
Lemma kple_iff a b : kple a b <-> (fst a < fst b \/ (fst a = fst b /\ snd a <= snd b)).
Proof.
  unfold kple, kp_leb. rewrite orb_true_iff, andb_true_iff, N.ltb_lt, N.eqb_eq, N.leb_le. reflexivity.
Qed.
Lemma kple_trans a b c : kple a b -> kple b c -> kple a c.
Proof. rewrite !kple_iff. lia. Qed.
Lemma kple_antisym a b : kple a b -> kple b a -> a = b.
Proof.
  rewrite !kple_iff. destruct a as [a1 a2], b as [b1 b2]. cbn [fst snd]. intros H1 H2.
  assert (a1 = b1) by lia. assert (a2 = b2) by lia. subst. reflexivity.
Qed.
Lemma kp_leb_false x a : kp_leb x a = false -> kple a x.
Proof.
  intro H. apply kple_iff. unfold kp_leb in H.
  apply orb_false_iff in H as [H1 H2]. apply N.ltb_ge in H1.
  apply andb_false_iff in H2 as [H2|H2]; [apply N.eqb_neq in H2|apply N.leb_gt in H2]; lia.
Qed.

Lemma lexsort_cons x l : lexsort_kp (x :: l) = insert_kp x (lexsort_kp l).
Proof. reflexivity. Qed.

Lemma insert_perm x l : Permutation (x :: l) (insert_kp x l).
Proof.
  induction l as [|a l IH]; cbn [insert_kp]; [reflexivity|].
  destruct (kp_leb x a); [reflexivity|].
  etransitivity; [apply perm_swap|apply perm_skip; exact IH].
Qed.
Lemma lexsort_perm l : Permutation l (lexsort_kp l).
Proof.
  induction l as [|x l IH]; [reflexivity|]. rewrite lexsort_cons.
  etransitivity; [apply perm_skip; exact IH|apply insert_perm].
Qed.

Lemma insert_sorted_kp x l : Sorted kple l -> Sorted kple (insert_kp x l).
Proof.
  induction l as [|a l IH]; intros Hs; cbn [insert_kp]; [repeat constructor|].
  destruct (kp_leb x a) eqn:E.
  - constructor; [assumption|constructor; exact E].
  - inversion Hs as [|? ? Hs' Hhd]; subst. constructor; [apply IH; assumption|].
    apply kp_leb_false in E.
    destruct l as [|y t]; cbn [insert_kp]; [constructor; exact E|].
    destruct (kp_leb x y); constructor; [exact E|]. inversion Hhd; assumption.
Qed.
Lemma lexsort_sorted l : Sorted kple (lexsort_kp l).
Proof.
  induction l as [|x l IH]; [constructor|]. rewrite lexsort_cons. apply insert_sorted_kp, IH.
Qed.

Lemma sorted_perm_eq : forall l1 l2,
  StronglySorted kple l1 -> StronglySorted kple l2 -> Permutation l1 l2 -> l1 = l2.
Proof.
  induction l1 as [|a t1 IH]; intros l2 S1 S2 P.
  - apply Permutation_nil in P. now subst.
  - destruct l2 as [|b t2]; [apply Permutation_sym, Permutation_nil in P; discriminate|].
    inversion S1 as [|? ? S1' F1]; inversion S2 as [|? ? S2' F2]; subst.
    assert (a = b).
    { assert (Ia : In a (b :: t2)) by (eapply Permutation_in; [exact P|left; reflexivity]).
      assert (Ib : In b (a :: t1)) by (eapply Permutation_in; [apply Permutation_sym; exact P|left; reflexivity]).
      destruct Ia as [->|Ia]; [reflexivity|]. destruct Ib as [->|Ib]; [reflexivity|].
      rewrite Forall_forall in F1, F2. apply kple_antisym; [apply F1|apply F2]; assumption. }
    subst b. f_equal. apply IH; try assumption. eapply Permutation_cons_inv; exact P.
Qed.

Lemma kple_transitive : Relations_1.Transitive kple.
Proof. intros x y z. apply kple_trans. Qed.

Lemma sorted2_Sorted l : sorted2 l -> Sorted kple l.
Proof.
  induction l as [|a l IH]; intros Hs; [constructor|]. destruct Hs as [Hhd Hs].
  constructor; [apply IH; exact Hs|].
  destruct l as [|b t]; constructor. apply kple_iff. unfold lt2 in Hhd. lia.
Qed.

Lemma lexsort_of_perm ps l : sorted2 ps -> Permutation l ps -> lexsort_kp l = ps.
Proof.
  intros Hs P. apply sorted_perm_eq.
  - apply Sorted_StronglySorted; [exact kple_transitive|apply lexsort_sorted].
  - apply Sorted_StronglySorted; [exact kple_transitive|apply sorted2_Sorted; exact Hs].
  - etransitivity; [apply Permutation_sym, lexsort_perm|exact P].
Qed.

Lemma group_sorted_eq l : group_sorted l = group_by_key l.
Proof.
  induction l as [|[k p] t IH]; [reflexivity|]. cbn [group_sorted group_by_key]. now rewrite IH.
Qed.

Theorem decode_encode : forall ps, sorted2 ps -> bounded ps ->
  decode (encode_spec ps) = group_by_key ps.
Proof.
  intros ps Hs Hb. unfold decode.
  rewrite (lexsort_of_perm ps); [apply group_sorted_eq|assumption|].
  etransitivity; [apply rows_perm|]. now rewrite rows_encode_spec.
Qed.

(* ================= 3. the encoding is canonical ================= *)
Definition good_word (w : N) : Prop := payload_lsb_of w <> 0 /\ w < 2^64.

Lemma hdr_lt k b k' b' : b < 2^18 -> b' < 2^18 -> (k < k' \/ (k = k' /\ b < b')) ->
  word_of k b 0 < word_of k' b' 0.
Proof. intros Hb Hb' H. unfold word_of. pows. lia. Qed.

Lemma good_word_of k b s : k < 2^28 -> b < 2^18 -> s < 2^18 -> s <> 0 -> good_word (word_of k b s).
Proof.
  intros Hk Hb Hs Hnz. split; [rewrite payload_lsb_of_word; assumption|apply word_lt64; assumption].
Qed.

Lemma canon_aux : forall rest k b s, sorted2 rest -> bounded rest -> cur_ok k b s rest ->
  exists s' tl, encode_aux (Some (k, b, s)) rest = word_of k b s' :: tl /\ s' < 2^18 /\ s' <> 0 /\
                Sorted N.lt (map header_of (word_of k b s' :: tl)) /\ Forall good_word tl.
Proof.
  apply (enc_ind (fun k b s rest =>
    exists s' tl, encode_aux (Some (k, b, s)) rest = word_of k b s' :: tl /\ s' < 2^18 /\ s' <> 0 /\
                  Sorted N.lt (map header_of (word_of k b s' :: tl)) /\ Forall good_word tl)).
  - intros k b s (Hk & Hb & Hs & Hnz & _). exists s, [].
    cbn [encode_aux map]. repeat split; try assumption; repeat constructor.
  - intros k b s p rest _ Eb _ _ _ IH. rewrite encode_aux_same by assumption. exact IH.
  - intros k b s k' p' rest (Hk & Hb & Hs & Hnz & _) E Hlt Hk' Hp' (_ & Hb' & _) (s' & tl & E' & Hs' & Hnz' & Hsort & Hgood).
    rewrite encode_aux_diff by assumption. rewrite E'.
    exists s, (word_of k' (p' / 18) s' :: tl). repeat split; try assumption.
    + cbn [map] in *. constructor; [exact Hsort|]. constructor.
      rewrite !header_of_word by assumption. apply hdr_lt; assumption.
    + constructor; [apply good_word_of; assumption|exact Hgood].
Qed.

Theorem encode_canonical : forall ps, sorted2 ps -> bounded ps ->
  StronglySorted N.lt (map header_of (encode_spec ps)) /\
  Forall (fun w => payload_lsb_of w <> 0 /\ w < 2^64) (encode_spec ps).
Proof.
  intros ps Hs Hb. destruct ps as [|[k p] rest]; [split; constructor|].
  unfold encode_spec. cbn [encode_aux].
  pose proof (cur_ok_init k p rest Hs Hb) as Hok.
  inversion Hb as [|x l _ Hb' Ex]; subst. destruct Hs as [Hhd Hs'].
  destruct (canon_aux rest _ _ _ Hs' Hb' Hok) as (s' & tl & E & Hs1 & Hnz & Hsort & Hgood).
  rewrite E. split.
  - apply Sorted_StronglySorted; [intros x y z; apply N.lt_trans|exact Hsort].
  - constructor; [|exact Hgood].
    destruct Hok as (Hk & Hbk & _). apply (good_word_of k (p / 18) s'); assumption.
Qed.

(* ================= 4. counts and distinct keys ================= *)
Lemma popcount_double n : popcount (2 * n) = popcount n.
Proof. destruct n; reflexivity. Qed.
Lemma popcount_succ_double n : popcount (2 * n + 1) = popcount n + 1.
Proof. destruct n as [|q]; [reflexivity|]. cbn [N.mul N.add Pos.mul Pos.add popcount pop_pos]. lia. Qed.

Lemma popcount_add_pow2 : forall r s, s < 2^r -> popcount (s + 2^r) = popcount s + 1.
Proof.
  induction r as [|r IH] using N.peano_ind; intros s Hs.
  - change (2^0) with 1 in *. assert (s = 0) by lia. subst. reflexivity.
  - rewrite N.pow_succ_r' in *.
    assert (Hh : s / 2 < 2^r) by (apply N.div_lt_upper_bound; lia).
    assert (Hm : s mod 2 < 2) by (apply N.mod_lt; lia).
    pose proof (N.div_mod s 2 ltac:(lia)) as Hd.
    assert (C : s mod 2 = 0 \/ s mod 2 = 1) by lia. destruct C as [C|C]; rewrite C in Hd.
    + replace (s + 2 * 2^r) with (2 * (s / 2 + 2^r)) by lia.
      rewrite popcount_double, IH by assumption.
      replace s with (2 * (s / 2)) at 2 by lia. now rewrite popcount_double.
    + replace (s + 2 * 2^r) with (2 * (s / 2 + 2^r) + 1) by lia.
      rewrite popcount_succ_double, IH by assumption.
      replace s with (2 * (s / 2) + 1) at 2 by lia. now rewrite popcount_succ_double.
Qed.

Lemma bits_below_lt s r : (forall i, N.testbit s i = true -> i < r) -> s < 2^r.
Proof.
  intros H. destruct (N.eq_dec s 0) as [->|Hnz].
  - apply N.neq_0_lt_0, N.pow_nonzero. lia.
  - apply N.log2_lt_pow2; [lia|]. apply H. apply N.bit_log2. assumption.
Qed.

Lemma popcount_onehot p : popcount (onehot p) = 1.
Proof.
  unfold onehot. rewrite N.shiftl_1_l.
  replace (2 ^ (p mod 18)) with (0 + 2 ^ (p mod 18)) by lia.
  rewrite popcount_add_pow2; [reflexivity|]. apply N.neq_0_lt_0, N.pow_nonzero. lia.
Qed.

Lemma popcount_lor_onehot s p : (forall i, N.testbit s i = true -> i < p mod 18) ->
  popcount (N.lor s (onehot p)) = popcount s + 1.
Proof.
  intros H. apply bits_below_lt in H. unfold onehot.
  rewrite N.lor_comm, lor_shiftl_add by assumption.
  rewrite N.mul_1_l, N.add_comm. apply popcount_add_pow2. assumption.
Qed.

Definition rs_step (k v : N) (r : list (N*N)) : list (N*N) :=
  match r with
  | (k', s) :: rest => if k =? k' then (k, v + s) :: rest else (k, v) :: (k', s) :: rest
  | [] => [(k, v)]
  end.
Lemma runs_sum_cons k v t : runs_sum ((k, v) :: t) = rs_step k v (runs_sum t).
Proof. reflexivity. Qed.
Lemma runs_sum_merge k a c t : runs_sum ((k, a) :: (k, c) :: t) = runs_sum ((k, a + c) :: t).
Proof.
  rewrite !runs_sum_cons. destruct (runs_sum t) as [|[k2 s2] r]; unfold rs_step.
  - now rewrite N.eqb_refl.
  - destruct (k =? k2); rewrite N.eqb_refl; [now rewrite N.add_assoc|reflexivity].
Qed.

Definition ones_of (ps : list (N*N)) : list (N*N) := map (fun kp => (fst kp, 1)) ps.

Lemma counts_spec_runs ps : counts_spec ps = runs_sum (ones_of ps).
Proof.
  unfold counts_spec, ones_of.
  induction ps as [|[k p] t IH]; [reflexivity|].
  cbn [map fst group_by_key]. rewrite runs_sum_cons, <- IH.
  destruct (group_by_key t) as [|[k' l] r]; cbn [map rs_step fst snd length]; [reflexivity|].
  destruct (k =? k'); cbn [map fst snd length]; [|reflexivity].
  f_equal. f_equal. lia.
Qed.

Definition kc_of (w : N) : N * N := (N.shiftr w 36, popcount (N.land w 262143)).
Lemma kc_of_word k b s : b < 2^18 -> s < 2^18 -> kc_of (word_of k b s) = (k, popcount s).
Proof. intros Hb Hs. unfold kc_of. now rewrite key_of_word, lsb_of_word. Qed.

Lemma counts_aux : forall rest k b s, sorted2 rest -> bounded rest -> cur_ok k b s rest ->
  runs_sum (map kc_of (encode_aux (Some (k, b, s)) rest)) = runs_sum ((k, popcount s) :: ones_of rest).
Proof.
  apply (enc_ind (fun k b s rest =>
    runs_sum (map kc_of (encode_aux (Some (k, b, s)) rest)) = runs_sum ((k, popcount s) :: ones_of rest))).
  - intros k b s (_ & Hb & Hs & _). cbn [encode_aux map ones_of]. now rewrite kc_of_word.
  - intros k b s p rest _ Eb _ Hlow _ IH. rewrite encode_aux_same by assumption. rewrite IH.
    unfold ones_of. cbn [map fst]. rewrite runs_sum_merge, popcount_lor_onehot by assumption. reflexivity.
  - intros k b s k' p' rest (_ & Hb & Hs & _) E _ _ _ _ IH.
    rewrite encode_aux_diff by assumption. cbn [map]. rewrite kc_of_word by assumption.
    rewrite runs_sum_cons, IH, popcount_onehot. unfold ones_of. cbn [map fst].
    rewrite (runs_sum_cons k). reflexivity.
Qed.

Theorem counts_correct : forall ps, sorted2 ps -> bounded ps ->
  num_values_per_key (encode_spec ps) = Done (counts_spec ps).
Proof.
  intros ps Hs Hb. unfold num_values_per_key. rewrite popcount64_reduce_correct. f_equal.
  unfold popcount64_reduce_spec. rewrite key_shift_val, plm_val. fold kc_of.
  rewrite counts_spec_runs.
  destruct ps as [|[k p] rest]; [reflexivity|].
  unfold encode_spec. cbn [encode_aux].
  pose proof (cur_ok_init k p rest Hs Hb) as Hok.
  inversion Hb as [|x l _ Hb' Ex]; subst. destruct Hs as [Hhd Hs'].
  rewrite counts_aux by assumption. rewrite popcount_onehot. reflexivity.
Qed.

Lemma dedup_cons2 x y t :
  dedup_adj (x :: y :: t) = if x =? y then dedup_adj (y :: t) else x :: dedup_adj (y :: t).
Proof. reflexivity. Qed.

Lemma group_by_key_head k p t : exists l r, group_by_key ((k, p) :: t) = (k, l) :: r.
Proof.
  cbn [group_by_key]. destruct (group_by_key t) as [|[k' l] r]; [eauto|].
  destruct (k =? k'); eauto.
Qed.

Lemma keys_spec_dedup ps : keys_spec ps = dedup_adj (map fst ps).
Proof.
  unfold keys_spec.
  induction ps as [|[k p] t IH]; [reflexivity|].
  destruct t as [|[k' p'] t']; [reflexivity|].
  destruct (group_by_key_head k' p' t') as (l & r & E).
  cbn [group_by_key] in *. rewrite E in *. cbn [map fst] in *. rewrite dedup_cons2.
  destruct (N.eqb_spec k k') as [->|Hne]; cbn [map fst]; [exact IH|now rewrite IH].
Qed.

Definition key_of (w : N) : N := N.shiftr w 36.

Lemma keys_aux : forall rest k b s, sorted2 rest -> bounded rest -> cur_ok k b s rest ->
  dedup_adj (map key_of (encode_aux (Some (k, b, s)) rest)) = dedup_adj (k :: map fst rest).
Proof.
  apply (enc_ind (fun k b s rest =>
    dedup_adj (map key_of (encode_aux (Some (k, b, s)) rest)) = dedup_adj (k :: map fst rest))).
  - intros k b s (_ & Hb & Hs & _). cbn [encode_aux map]. unfold key_of. now rewrite key_of_word.
  - intros k b s p rest _ Eb _ _ _ IH. rewrite encode_aux_same by assumption. rewrite IH.
    cbn [map fst]. rewrite (dedup_cons2 k k), N.eqb_refl. reflexivity.
  - intros k b s k' p' rest (_ & Hb & Hs & _) E _ _ _ (_ & Hb' & _) IH.
    rewrite encode_aux_diff by assumption.
    destruct (encode_aux_head rest k' (p' / 18) (onehot p') (onehot_lt p')) as (s' & tl & E' & Hs').
    rewrite E' in *. cbn [map fst] in *. unfold key_of at 1 2. unfold key_of at 1 in IH.
    rewrite key_of_word in * by assumption. rewrite key_of_word by assumption.
    rewrite !dedup_cons2. rewrite IH. reflexivity.
Qed.

Lemma encode_spec_nonempty ps : ps <> [] -> encode_spec ps <> [].
Proof.
  destruct ps as [|[k p] rest]; [congruence|]. intros _. unfold encode_spec. cbn [encode_aux].
  destruct (encode_aux_head rest k (p / 18) (onehot p) (onehot_lt p)) as (s' & tl & E & _).
  rewrite E. discriminate.
Qed.

Theorem keys_unique_correct : forall ps, sorted2 ps -> bounded ps -> ps <> [] ->
  keys_unique (encode_spec ps) = Done (keys_spec ps).
Proof.
  intros ps Hs Hb Hne. unfold keys_unique.
  rewrite unique_correct by (left; apply encode_spec_nonempty; assumption). f_equal.
  unfold unique_spec. rewrite key_shift_val. fold key_of. rewrite keys_spec_dedup.
  destruct ps as [|[k p] rest]; [congruence|].
  unfold encode_spec. cbn [encode_aux].
  pose proof (cur_ok_init k p rest Hs Hb) as Hok.
  inversion Hb as [|x l _ Hb' Ex]; subst. destruct Hs as [Hhd Hs'].
  rewrite keys_aux by assumption. reflexivity.
Qed.

(* ================= 5. corollaries on the numpy-level encoder ================= *)
Corollary roundtrip : forall ps, sorted2 ps -> bounded ps ->
  decode (encode (map fst ps) (map snd ps)) = group_by_key ps.
Proof. intros ps Hs Hb. rewrite encode_correct by assumption. apply decode_encode; assumption. Qed.

Corollary encode_canonical_real : forall ps, sorted2 ps -> bounded ps ->
  StronglySorted N.lt (map header_of (encode (map fst ps) (map snd ps))) /\
  Forall (fun w => payload_lsb_of w <> 0 /\ w < 2^64) (encode (map fst ps) (map snd ps)).
Proof. intros ps Hs Hb. rewrite encode_correct by assumption. apply encode_canonical; assumption. Qed.

Corollary counts_correct_real : forall ps, sorted2 ps -> bounded ps ->
  num_values_per_key (encode (map fst ps) (map snd ps)) = Done (counts_spec ps).
Proof. intros ps Hs Hb. rewrite encode_correct by assumption. apply counts_correct; assumption. Qed.

Corollary keys_unique_correct_real : forall ps, sorted2 ps -> bounded ps -> ps <> [] ->
  keys_unique (encode (map fst ps) (map snd ps)) = Done (keys_spec ps).
Proof. intros ps Hs Hb Hne. rewrite encode_correct by assumption. apply keys_unique_correct; assumption. Qed.

(* the hypotheses are satisfiable *)
Example nonvacuous : sorted2 ex1 /\ bounded ex1 /\ sorted2 ex2 /\ bounded ex2.
Proof.
  unfold ex1, ex2, bounded. pows.
  repeat split; cbn [sorted2]; unfold lt2; cbn [fst snd]; repeat split; try lia;
    repeat constructor; cbn [fst snd]; lia.
Qed.

Print Assumptions encode_correct.
Print Assumptions decode_encode.
Print Assumptions encode_canonical.
Print Assumptions counts_correct.
Print Assumptions keys_unique_correct.
Print Assumptions roundtrip.
Print Assumptions encode_canonical_real.
Print Assumptions counts_correct_real.
Print Assumptions keys_unique_correct_real.
