(* C13: the position codec.  The numpy-level encoder (Codec.encode) computes the grouping spec,
   decode inverts it, the encoding is canonical, and counts / distinct keys computed on the encoding
   are those of the input.  Layout lemmas and the cur_ok invariant come from notes/prototypes. *)
From SA Require Import Base.Prelude Kernels.Spec Kernels.Linear Codec.Codec Codec.Codec_Spec.
From SA Require Import Kernels.Linear_Proofs.
From Coq Require Import Permutation Sorted.
Open Scope N_scope.

(* ---- sanity of the statements on concrete inputs ---- *)
Definition ex1 : list (N*N) := [(0,0);(0,17);(0,18);(3,5);(3,40);(3,262143)].
Definition ex2 : list (N*N) := [(0,0);(0,1);(268435455,0);(268435455,17);(268435455,18);(268435455,262143)].
Definition chk (ps : list (N*N)) :=
  (if list_eq_dec N.eq_dec (encode (map fst ps) (map snd ps)) (encode_spec ps) then true else false,
   decode (encode_spec ps), group_by_key ps,
   num_values_per_key (encode_spec ps), counts_spec ps,
   keys_unique (encode_spec ps), keys_spec ps).
Example chk_ex1 : chk ex1 =
  (true, [(0, [0; 17; 18]); (3, [5; 40; 262143])], [(0, [0; 17; 18]); (3, [5; 40; 262143])],
   Done [(0, 3); (3, 3)], [(0, 3); (3, 3)], Done [0; 3], [0; 3]).
Proof. vm_compute. reflexivity. Qed.
Example chk_ex2 : chk ex2 =
  (true, [(0, [0; 1]); (268435455, [0; 17; 18; 262143])], [(0, [0; 1]); (268435455, [0; 17; 18; 262143])],
   Done [(0, 2); (268435455, 4)], [(0, 2); (268435455, 4)], Done [0; 268435455], [0; 268435455]).
Proof. vm_compute. reflexivity. Qed.
(* the ps <> [] hypothesis of keys_unique_correct is needed: *)
Example keys_unique_empty : keys_unique (encode_spec []) = Fault Rd 0 0 /\ keys_spec [] = [].
Proof. split; vm_compute; reflexivity. Qed.

(* ================= constants ================= *)
Lemma pow18 : 2^18 = 262144. Proof. reflexivity. Qed.
Lemma pow28 : 2^28 = 268435456. Proof. reflexivity. Qed.
Lemma pow36 : 2^36 = 68719476736. Proof. reflexivity. Qed.
Lemma pow64 : 2^64 = 18446744073709551616. Proof. reflexivity. Qed.
Ltac pows := rewrite ?pow18, ?pow28, ?pow36, ?pow64 in *.

Lemma key_shift_val : key_shift = 36. Proof. reflexivity. Qed.
Lemma msb_bits_val : msb_bits = 18. Proof. reflexivity. Qed.
Lemma lsb_bits_val : lsb_bits = 18. Proof. reflexivity. Qed.
Lemma plm_val : payload_lsb_mask = 262143. Proof. vm_compute. reflexivity. Qed.
Lemma hmask_val : wnot payload_lsb_mask = 18446744073709289472. Proof. vm_compute. reflexivity. Qed.
Lemma key_mask_val : key_mask = 18446744004990074880. Proof. vm_compute. reflexivity. Qed.
Lemma pmm_val : payload_msb_mask = 68719214592. Proof. vm_compute. reflexivity. Qed.

(* ================= layout ================= *)
Lemma land_shiftl_low a n x : x < 2^n -> N.land (N.shiftl a n) x = 0.
Proof.
  intros Hx. apply N.bits_inj; intro i. rewrite N.land_spec, N.bits_0.
  destruct (N.ltb_spec i n) as [Hi|Hi].
  - rewrite N.shiftl_spec_low by assumption. reflexivity.
  - replace (N.testbit x i) with false; [apply andb_false_r|].
    symmetry. destruct (N.eq_dec x 0) as [->|Hnz]; [apply N.bits_0|].
    apply N.bits_above_log2. apply N.lt_le_trans with n; [|assumption].
    apply N.log2_lt_pow2; [lia|assumption].
Qed.

Lemma lor_shiftl_add a n x : x < 2^n -> N.lor (N.shiftl a n) x = a * 2^n + x.
Proof.
  intros Hx. rewrite <- N.lxor_lor by (apply land_shiftl_low; assumption).
  rewrite <- N.add_nocarry_lxor by (apply land_shiftl_low; assumption).
  now rewrite N.shiftl_mul_pow2.
Qed.

Lemma word_of_shift k b s : s < 2^18 -> word_of k b s = N.lor (N.shiftl (k * 2^18 + b) 18) s.
Proof. intros Hs. rewrite lor_shiftl_add by assumption. unfold word_of. pows. lia. Qed.

Lemma word_lt64 k b s : k < 2^28 -> b < 2^18 -> s < 2^18 -> word_of k b s < 2^64.
Proof. intros. unfold word_of. pows. lia. Qed.

Lemma key_of_word k b s : b < 2^18 -> s < 2^18 -> N.shiftr (word_of k b s) 36 = k.
Proof. intros Hb Hs. unfold word_of. rewrite N.shiftr_div_pow2. pows. lia. Qed.

Lemma lsb_of_word k b s : s < 2^18 -> N.land (word_of k b s) 262143 = s.
Proof.
  intros Hs. change 262143 with (N.ones 18). rewrite N.land_ones. unfold word_of. pows. lia.
Qed.

Lemma dec_key_word k b s : k < 2^28 -> b < 2^18 -> s < 2^18 -> dec_key (word_of k b s) = k.
Proof.
  intros Hk Hb Hs. unfold dec_key. rewrite key_mask_val, key_shift_val, N.shiftr_land.
  change (N.shiftr 18446744004990074880 36) with (N.ones 28).
  rewrite N.land_ones, N.shiftr_div_pow2. unfold word_of. pows. lia.
Qed.

Lemma dec_msb_word k b s : b < 2^18 -> s < 2^18 -> dec_msb (word_of k b s) = b.
Proof.
  intros Hb Hs. unfold dec_msb. rewrite pmm_val, msb_bits_val, N.shiftr_land.
  change (N.shiftr 68719214592 18) with (N.ones 18).
  rewrite N.land_ones, N.shiftr_div_pow2. unfold word_of. pows. lia.
Qed.

Lemma header_as_arith w : w < 2^64 -> header_of w = (w / 2^18) * 2^18.
Proof.
  intros Hw. unfold header_of. rewrite hmask_val.
  change 18446744073709289472 with (N.shiftl (N.ones 46) 18).
  rewrite <- N.shiftl_mul_pow2, <- N.shiftr_div_pow2.
  apply N.bits_inj; intro i.
  rewrite N.land_spec.
  destruct (N.ltb_spec i 18) as [Hi|Hi].
  - rewrite !N.shiftl_spec_low by assumption. now rewrite andb_false_r.
  - rewrite !N.shiftl_spec_high' by assumption.
    rewrite N.shiftr_spec'. replace (i - 18 + 18) with i by lia.
    destruct (N.ltb_spec (i-18) 46) as [Hj|Hj].
    + rewrite N.ones_spec_low by assumption. now rewrite andb_true_r.
    + rewrite N.ones_spec_high by assumption. rewrite andb_false_r.
      symmetry. apply N.bits_above_log2.
      destruct (N.eq_dec w 0) as [->|Hnz]; [cbn; lia|].
      apply N.log2_lt_pow2; [lia|].
      eapply N.lt_le_trans; [exact Hw|]. apply N.pow_le_mono_r; lia.
Qed.

Lemma header_of_word k b s : k < 2^28 -> b < 2^18 -> s < 2^18 -> header_of (word_of k b s) = word_of k b 0.
Proof.
  intros Hk Hb Hs. rewrite header_as_arith by (apply word_lt64; assumption).
  unfold word_of. pows. lia.
Qed.

Lemma payload_lsb_of_word k b s : s < 2^18 -> payload_lsb_of (word_of k b s) = s.
Proof. intros Hs. unfold payload_lsb_of. rewrite plm_val. apply lsb_of_word. assumption. Qed.

Lemma onehot_lt p : onehot p < 2^18.
Proof.
  unfold onehot. rewrite N.shiftl_1_l. apply N.pow_lt_mono_r; [lia|]. apply N.mod_lt. lia.
Qed.
Lemma onehot_nz p : onehot p <> 0.
Proof. unfold onehot. rewrite N.shiftl_1_l. apply N.pow_nonzero. lia. Qed.
Lemma testbit_onehot p i : N.testbit (onehot p) i = (i =? p mod 18).
Proof. unfold onehot. rewrite N.shiftl_1_l, N.pow2_bits_eqb. apply N.eqb_sym. Qed.

Lemma lor_lt18 a b : a < 2^18 -> b < 2^18 -> N.lor a b < 2^18.
Proof.
  intros Ha Hb.
  destruct (N.eq_dec a 0) as [->|Ha0]; [now rewrite N.lor_0_l|].
  destruct (N.eq_dec b 0) as [->|Hb0]; [now rewrite N.lor_0_r|].
  assert (La : N.log2 a < 18) by (apply N.log2_lt_pow2; lia).
  assert (Lb : N.log2 b < 18) by (apply N.log2_lt_pow2; lia).
  assert (E : N.lor a b <> 0) by (intro E; apply N.lor_eq_0_iff in E; tauto).
  apply N.log2_lt_pow2; [lia|]. rewrite N.log2_lor. lia.
Qed.

Lemma word_lor k b s s' : s < 2^18 -> s' < 2^18 ->
  N.lor (word_of k b s) (word_of k b s') = word_of k b (N.lor s s').
Proof.
  intros Hs Hs'. rewrite !word_of_shift by (try apply lor_lt18; assumption).
  apply N.bits_inj; intro i. rewrite !N.lor_spec.
  destruct (N.testbit (N.shiftl (k * 2 ^ 18 + b) 18) i), (N.testbit s i), (N.testbit s' i); reflexivity.
Qed.

Lemma word_hdr_eqb k0 b0 k b : b0 < 2^18 -> b < 2^18 ->
  (word_of k0 b0 0 =? word_of k b 0) = ((k =? k0) && (b =? b0)).
Proof.
  intros H0 H. unfold word_of. pows.
  destruct (N.eqb_spec (k0 * 68719476736 + b0 * 262144 + 0) (k * 68719476736 + b * 262144 + 0)),
           (N.eqb_spec k k0), (N.eqb_spec b b0); cbn [andb]; try reflexivity; exfalso; lia.
Qed.

(* ================= 1. encode computes encode_spec ================= *)
Lemma enc_col_word k p : k < 2^28 -> p < 2^18 -> enc_col k p = word_of k (p / 18) 0.
Proof.
  intros Hk Hp. unfold enc_col. rewrite key_shift_val, msb_bits_val, lsb_bits_val.
  assert (E1 : wshl (p / 18) 18 = (p / 18) * 2^18).
  { unfold wshl, W64. rewrite N.shiftl_mul_pow2. apply N.mod_small. pows. lia. }
  assert (E2 : wshl k 36 = N.shiftl k 36).
  { unfold wshl, W64. rewrite N.shiftl_mul_pow2. apply N.mod_small. pows. lia. }
  rewrite E1, E2, N.lor_comm, lor_shiftl_add by (pows; lia).
  unfold word_of. pows. lia.
Qed.

Lemma enc_word k p : k < 2^28 -> p < 2^18 ->
  N.lor (enc_col k p) (enc_val p) = word_of k (p / 18) (onehot p).
Proof.
  intros Hk Hp. rewrite enc_col_word by assumption. change (enc_val p) with (onehot p).
  rewrite (word_of_shift k (p/18) (onehot p)) by apply onehot_lt.
  rewrite (word_of_shift k (p/18) 0) by (pows; lia). now rewrite N.lor_0_r.
Qed.

Definition hdrw (kp : N*N) : N := word_of (fst kp) (snd kp / 18) 0.
Definition wrdw (kp : N*N) : N := word_of (fst kp) (snd kp / 18) (onehot (snd kp)).

Lemma cols_eq ps : bounded ps -> map2 enc_col (map fst ps) (map snd ps) = map hdrw ps.
Proof.
  induction 1 as [|[k p] t [Hk Hp] Hb IH]; [reflexivity|].
  cbn [map map2 fst snd] in *. rewrite IH. unfold hdrw at 1. cbn [fst snd].
  now rewrite enc_col_word.
Qed.

Lemma words_eq ps : bounded ps -> encode_words (map fst ps) (map snd ps) = map wrdw ps.
Proof.
  unfold encode_words.
  induction 1 as [|[k p] t [Hk Hp] Hb IH]; [reflexivity|].
  cbn [map map2 fst snd] in *. rewrite IH. unfold wrdw at 1. cbn [fst snd].
  now rewrite enc_word.
Qed.

(* intermediate: group a column list into runs, OR-ing the values *)
Fixpoint runs (cur acc : N) (cols vals : list N) : list N :=
  match cols, vals with
  | c :: cs, v :: vs => if cur =? c then runs cur (N.lor acc v) cs vs else acc :: runs c v cs vs
  | _, _ => [acc]
  end.

Lemma reduceat_or_cons2 xs a b t :
  reduceat_or xs (a :: b :: t) =
  (if a <? b then fold_or (slice_nat xs (N.to_nat a) (N.to_nat b)) else nth (N.to_nat a) xs 0)
    :: reduceat_or xs (b :: t).
Proof. reflexivity. Qed.
Lemma dnf_cons2 i x y t :
  diff_nonzero_from i (x :: y :: t) =
  if x =? y then diff_nonzero_from (i + 1) (y :: t) else (i + 1) :: diff_nonzero_from (i + 1) (y :: t).
Proof. reflexivity. Qed.

Lemma skipn_app_len {A} (l1 l2 : list A) : skipn (length l1) (l1 ++ l2) = l2.
Proof. induction l1; cbn [length skipn app]; auto. Qed.
Lemma firstn_app_len {A} (l1 l2 : list A) : firstn (length l1) (l1 ++ l2) = l1.
Proof. induction l1; cbn [length firstn app]; [reflexivity|]. now f_equal. Qed.

Lemma reduceat_runs : forall cols vals, length cols = length vals ->
  forall pre grp c n, N.of_nat (length pre + length grp) = n + 1 -> grp <> [] ->
  reduceat_or (pre ++ grp ++ vals) (N.of_nat (length pre) :: diff_nonzero_from n (c :: cols))
  = runs c (fold_or grp) cols vals.
Proof.
  induction cols as [|c' cs IH]; intros [|v vs] Hlen pre grp c n Hn Hg; try discriminate.
  - cbn [diff_nonzero_from reduceat_or runs]. rewrite Nat2N.id, app_nil_r, skipn_app_len. reflexivity.
  - rewrite dnf_cons2. cbn [runs]. cbn [length] in Hlen.
    destruct (c =? c') eqn:E.
    + apply N.eqb_eq in E; subst c'.
      replace (pre ++ grp ++ v :: vs) with (pre ++ (grp ++ [v]) ++ vs)
        by (rewrite <- (app_assoc grp); reflexivity).
      rewrite IH.
      * unfold fold_or. rewrite fold_left_app. reflexivity.
      * lia.
      * rewrite app_length. cbn [length]. lia.
      * destruct grp; discriminate.
    + rewrite reduceat_or_cons2.
      replace (N.of_nat (length pre) <? n + 1) with true
        by (symmetry; apply N.ltb_lt; destruct grp; [congruence|cbn [length] in Hn; lia]).
      f_equal.
      * unfold slice_nat. rewrite Nat2N.id.
        replace (N.to_nat (n + 1) - length pre)%nat with (length grp) by lia.
        rewrite skipn_app_len, firstn_app_len. reflexivity.
      * replace (pre ++ grp ++ v :: vs) with ((pre ++ grp) ++ [v] ++ vs)
          by (rewrite <- app_assoc; reflexivity).
        replace (n + 1) with (N.of_nat (length (pre ++ grp))) at 1 by (rewrite app_length; lia).
        rewrite IH.
        -- unfold fold_or. cbn [fold_left]. rewrite N.lor_0_l. reflexivity.
        -- lia.
        -- rewrite app_length. cbn [length]. lia.
        -- discriminate.
Qed.

Lemma runs_encode_aux : forall rest k0 b0 s0, bounded rest -> b0 < 2^18 -> s0 < 2^18 ->
  runs (word_of k0 b0 0) (word_of k0 b0 s0) (map hdrw rest) (map wrdw rest)
  = encode_aux (Some (k0, b0, s0)) rest.
Proof.
  induction rest as [|[k p] rest IH]; intros k0 b0 s0 Hbd Hb0 Hs0; [reflexivity|].
  inversion Hbd as [|x l [Hk Hp] Hbd' Ex]; subst. cbn [fst snd] in *.
  assert (Hb : p / 18 < 2^18) by (pows; lia).
  cbn [map runs encode_aux]. unfold hdrw at 1, wrdw at 1 2. cbn [fst snd].
  rewrite word_hdr_eqb by assumption.
  destruct ((k =? k0) && (p / 18 =? b0)) eqn:E.
  - apply andb_true_iff in E as [Ek Eb]. apply N.eqb_eq in Ek, Eb. subst k b0.
    rewrite word_lor by (try apply onehot_lt; assumption).
    apply IH; [assumption|assumption|apply lor_lt18; [assumption|apply onehot_lt]].
  - f_equal. apply IH; [assumption|assumption|apply onehot_lt].
Qed.

Theorem encode_correct : forall ps, sorted2 ps -> bounded ps ->
  encode (map fst ps) (map snd ps) = encode_spec ps.
Proof.
  intros ps _ Hbd. destruct ps as [|[k p] rest]; [reflexivity|].
  unfold encode. rewrite cols_eq, words_eq by assumption.
  cbn [map snd]. unfold change_indices. cbn [map].
  inversion Hbd as [|x l [Hk Hp] Hbd' Ex]; subst. cbn [fst snd] in *.
  pose proof (reduceat_runs (map hdrw rest) (map wrdw rest)) as R.
  rewrite !map_length in R. specialize (R eq_refl [] [wrdw (k, p)] (hdrw (k, p)) 0 eq_refl).
  cbn [app length] in R. change (N.of_nat 0) with 0 in R. rewrite R by discriminate.
  unfold fold_or. cbn [fold_left]. rewrite N.lor_0_l.
  unfold hdrw at 1, wrdw at 1. cbn [fst snd].
  unfold encode_spec. cbn [encode_aux].
  apply runs_encode_aux; [assumption|pows; lia|apply onehot_lt].
Qed.
