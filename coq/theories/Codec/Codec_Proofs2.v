(* C13, remaining clauses: slicing an encoding by a sorted set of keys, and encoding several
   sequences at once with boundaries.  Builds on Codec_Proofs (layout lemmas, enc_ind, encode_correct)
   and on the closed kernel theorems intersect_keep_correct / intersect_drop_correct / merge_drop_correct. *)
From Coq Require Import Sorted Permutation.
From SA Require Import Base.Prelude Kernels.Spec Kernels.Intersect Kernels.Linear
  Kernels.Intersect_Correct Kernels.Linear_Proofs Codec.Codec Codec.Codec_Spec Codec.Codec_Proofs.
Open Scope N_scope.

(* ---- sanity of the statements on concrete inputs ---- *)
Definition starts (segs : list (list (N*N))) : list N :=
  removelast (prefix_sums 0 (map (fun s => N.of_nat (length s)) segs)).
Definition chkb (segs : list (list (N*N))) : bool :=
  let flat := concat segs in
  match encode_b (map fst flat) (map snd flat) (starts segs) with
  | Done (ws, bs) =>
      if list_eq_dec N.eq_dec ws (fst (boundaries_spec segs)) then
        if list_eq_dec N.eq_dec bs (snd (boundaries_spec segs)) then true else false
      else false
  | _ => false
  end.
Example chkb_1 : chkb [[(0,0);(0,17);(0,18);(3,5);(3,40);(3,41)]; [(0,1);(3,41)]] = true.
Proof. vm_compute. reflexivity. Qed.
(* two segments meeting inside one word *)
Example chkb_2 : chkb [[(5,3)]; [(5,4);(5,30)]] = true.
Proof. vm_compute. reflexivity. Qed.
Example chkb_3 : chkb [[(5,3);(5,4);(7,30)]] = true.
Proof. vm_compute. reflexivity. Qed.
Example chkb_4 : chkb [[(5,3)]; [(5,4);(5,30)]; [(5,30);(6,1)]; [(6,2)]] = true.
Proof. vm_compute. reflexivity. Qed.
(* the hypotheses  segs <> []  and  "every segment is non-empty"  are needed: *)
Example chkb_no_segs : chkb [] = false. Proof. vm_compute. reflexivity. Qed.
Example chkb_empty_seg : chkb [[(5,3)]; []; [(5,4);(5,30)]] = false. Proof. vm_compute. reflexivity. Qed.
Example chkb_empty_last : chkb [[(5,3)]; []] = false. Proof. vm_compute. reflexivity. Qed.

Definition chks (ps : list (N*N)) (ks : list N) := (slice_keys (encode_spec ps) ks, slice_spec ps ks).
Example chks_1 : chks ex1 [1;3;7] =
  (Done [206158430240; 206158954512; 209976033792], [206158430240; 206158954512; 209976033792]).
Proof. vm_compute. reflexivity. Qed.
Example chks_2 : chks ex1 [] = (Done [], []) /\ chks [] [1] = (Done [], []).
Proof. split; vm_compute; reflexivity. Qed.
(* keys to slice by must be 64-bit values (they are a uint64 array in the source): *)
Example chks_wide : chks ex1 [18446744073709551616 + 3] =
  (Done [206158430240; 206158954512; 209976033792], []).
Proof. vm_compute. reflexivity. Qed.

Lemma pow62 : 2^62 = 4611686018427387904. Proof. reflexivity. Qed.

(* ================= generic facts ================= *)
Lemma land_wmask x : x < 2^64 -> N.land x wmask = x.
Proof.
  intro H. change wmask with (N.ones 64). rewrite N.land_ones. apply N.mod_small. exact H.
Qed.

Lemma mvals_wmask l : Forall (fun x => x < 2^64) l -> mvals l wmask = l.
Proof.
  unfold mvals. induction 1 as [|x t Hx Ht IH]; [reflexivity|].
  cbn [map]. rewrite IH, land_wmask by assumption. reflexivity.
Qed.

Lemma ss_lt_sorted_le l : StronglySorted N.lt l -> Sorted N.le l.
Proof.
  induction 1 as [|x t Hs IH Hf]; [constructor|]. constructor; [exact IH|].
  destruct t as [|y t']; constructor. inversion Hf; subst. lia.
Qed.

Lemma ss_le_sorted_le l : StronglySorted N.le l -> Sorted N.le l.
Proof. apply StronglySorted_Sorted. Qed.

Lemma sorted_lt_ss l : Sorted N.lt l -> StronglySorted N.lt l.
Proof. apply Sorted_StronglySorted. intros x y z. apply N.lt_trans. Qed.

Lemma msorted_of_ss_lt l : StronglySorted N.lt l -> Forall (fun x => x < 2^64) l -> Intersect_Correct.msorted l wmask.
Proof.
  intros Hs Hf. apply (sorted_msorted l wmask). rewrite mvals_wmask by assumption. apply ss_lt_sorted_le, Hs.
Qed.

Lemma take_idx_cons ws i idx : take_idx ws (i :: idx) = nth (N.to_nat i) ws 0 :: take_idx ws idx.
Proof. reflexivity. Qed.

(* take_idx at the indices selected by a predicate on a mapped view = filter *)
Lemma take_idx_filter (f : N -> N) (Q : N -> bool) : forall t pre,
  take_idx (pre ++ t)
    (map fst (filter (fun iv => Q (snd iv)) (enum_from (N.of_nat (length pre)) (map f t))))
  = filter (fun w => Q (f w)) t.
Proof.
  induction t as [|w t IH]; intros pre; [reflexivity|].
  cbn [map enum_from filter snd].
  replace (pre ++ w :: t) with ((pre ++ [w]) ++ t) by (rewrite <- app_assoc; reflexivity).
  replace (N.succ (N.of_nat (length pre))) with (N.of_nat (length (pre ++ [w])))
    by (rewrite app_length; cbn [length]; lia).
  destruct (Q (f w)).
  - cbn [map fst]. rewrite take_idx_cons.
    rewrite IH. f_equal.
    rewrite Nat2N.id, <- app_assoc. cbn [app]. rewrite app_nth2 by lia.
    replace (length pre - length pre)%nat with 0%nat by lia. reflexivity.
  - apply IH.
Qed.

(* ================= 1. slice by keys ================= *)
Section Slice.
Variable Q : N -> bool.

Lemma encode_aux_fresh l k b s : Forall (fun kp => k < fst kp) l ->
  encode_aux (Some (k, b, s)) l = word_of k b s :: encode_aux None l.
Proof.
  intros H. destruct l as [|[k' p'] l']; [reflexivity|].
  inversion H as [|x y Hk _]; subst. cbn [fst] in Hk. cbn [encode_aux].
  replace (k' =? k) with false by (symmetry; apply N.eqb_neq; lia). reflexivity.
Qed.

Lemma sorted2_lb a t : sorted2 (a :: t) -> Forall (fun kp => fst a <= fst kp) t.
Proof.
  revert a. induction t as [|b t IH]; intros a [Hhd Hs]; [constructor|].
  constructor.
  - unfold lt2 in Hhd. lia.
  - eapply Forall_impl; [|apply IH; exact Hs]. cbn beta. intros c Hc. unfold lt2 in Hhd. lia.
Qed.

Lemma Forall_filter {A} (P : A -> Prop) f l : Forall P l -> Forall P (filter f l).
Proof.
  induction 1 as [|x t Hx Ht IH]; [constructor|]. cbn [filter]. destruct (f x); [constructor|]; assumption.
Qed.

Definition fk (kp : N*N) : bool := Q (fst kp).
Definition fw (w : N) : bool := Q (key_of w).

Lemma filter_aux : forall rest k b s, sorted2 rest -> bounded rest -> cur_ok k b s rest ->
  sorted2 rest ->
  filter fw (encode_aux (Some (k, b, s)) rest)
  = if Q k then encode_aux (Some (k, b, s)) (filter fk rest) else encode_aux None (filter fk rest).
Proof.
  apply (enc_ind (fun k b s rest => sorted2 rest ->
    filter fw (encode_aux (Some (k, b, s)) rest)
    = if Q k then encode_aux (Some (k, b, s)) (filter fk rest) else encode_aux None (filter fk rest))).
  - intros k b s (_ & Hb & Hs & _) _. cbn [encode_aux filter]. unfold fw at 1, key_of.
    rewrite key_of_word by assumption. destruct (Q k); reflexivity.
  - intros k b s p rest _ Eb _ _ _ IH [_ Hs']. rewrite encode_aux_same by assumption.
    rewrite IH by assumption. cbn [filter]. change (fk (k, p)) with (Q k).
    destruct (Q k); [|reflexivity]. rewrite encode_aux_same by assumption. reflexivity.
  - intros k b s k' p' rest (_ & Hb & Hs & _) E Hlt _ _ _ IH Hsrt.
    pose proof Hsrt as [_ Hs']. rewrite encode_aux_diff by assumption.
    cbn [filter]. unfold fw at 1, key_of. rewrite key_of_word by assumption.
    rewrite IH by assumption. change (fk (k', p')) with (Q k').
    destruct (Q k) eqn:Qk, (Q k') eqn:Qk'.
    + rewrite encode_aux_diff by assumption. reflexivity.
    + assert (Hkk : k < k').
      { destruct Hlt as [H|[H _]]; [exact H|]. subst k'. congruence. }
      rewrite encode_aux_fresh; [reflexivity|].
      apply Forall_filter. eapply Forall_impl; [|apply (sorted2_lb _ _ Hsrt)].
      cbn [fst]. intros c Hc. lia.
    + reflexivity.
    + reflexivity.
Qed.

Lemma filter_encode_spec ps : sorted2 ps -> bounded ps ->
  filter fw (encode_spec ps) = encode_spec (filter fk ps).
Proof.
  intros Hs Hb. destruct ps as [|[k p] rest]; [reflexivity|].
  unfold encode_spec. cbn [encode_aux filter]. change (fk (k, p)) with (Q k).
  pose proof (cur_ok_init k p rest Hs Hb) as Hok.
  inversion Hb as [|x l _ Hb' Ex]; subst. destruct Hs as [Hhd Hs'].
  rewrite filter_aux by assumption. destruct (Q k); reflexivity.
Qed.
End Slice.

Lemma encode_aux_length : forall ps cur,
  (length (encode_aux cur ps) <= length ps + match cur with Some _ => 1 | None => 0 end)%nat.
Proof.
  induction ps as [|[k p] rest IH]; intros cur.
  - destruct cur as [[[k b] s]|]; cbn [encode_aux length]; lia.
  - destruct cur as [[[k0 b0] s0]|]; cbn [encode_aux length].
    + destruct ((k =? k0) && (p / 18 =? b0)).
      * specialize (IH (Some (k0, b0, N.lor s0 (onehot p)))). cbn beta iota in IH. lia.
      * cbn [length]. specialize (IH (Some (k, p / 18, onehot p))). cbn beta iota in IH. lia.
    + specialize (IH (Some (k, p / 18, onehot p))). cbn beta iota in IH. lia.
Qed.

Lemma encode_spec_length ps : (length (encode_spec ps) <= length ps)%nat.
Proof. pose proof (encode_aux_length ps None) as H. cbn beta iota in H. unfold encode_spec. lia. Qed.

(* keys of a canonical encoding are non-decreasing 64-bit values *)
Lemma keys_sorted ws :
  StronglySorted N.lt (map header_of ws) -> Forall (fun w => w < 2^64) ws ->
  StronglySorted N.le (map key_of ws).
Proof.
  induction ws as [|w t IH]; intros Hs Hf; cbn [map]; [constructor|].
  cbn [map] in Hs. inversion Hs as [|? ? Hs' Hall]; subst. inversion Hf as [|? ? Hw Hf']; subst.
  constructor; [apply IH; assumption|].
  rewrite Forall_map in *. rewrite Forall_forall in *. intros w' Hin.
  specialize (Hall w' Hin). specialize (Hf' w' Hin). cbn beta in *.
  rewrite !header_as_arith in Hall by assumption.
  unfold key_of. rewrite !N.shiftr_div_pow2. pows. change (2^36) with 68719476736. lia.
Qed.

Lemma keys_of_key_of ws : keys_of ws = map key_of ws.
Proof. reflexivity. Qed.

Theorem slice_keys_correct : forall ps ks, sorted2 ps -> bounded ps ->
  Sorted N.lt ks -> Forall (fun k => k < 2^64) ks ->
  N.of_nat (length ps) < 2^62 -> N.of_nat (length ks) < 2^62 ->
  slice_keys (encode_spec ps) ks = Done (slice_spec ps ks).
Proof.
  intros ps ks Hs Hb Hks Hk64 Hlp Hlk.
  destruct (encode_canonical ps Hs Hb) as [Hcan Hgood].
  set (ws := encode_spec ps) in *.
  assert (Hw64 : Forall (fun w => w < 2^64) ws).
  { eapply Forall_impl; [|exact Hgood]. cbn beta. tauto. }
  assert (Hkeys : StronglySorted N.le (map key_of ws)) by (apply keys_sorted; assumption).
  assert (Hk64' : Forall (fun x => x < 2^64) (map key_of ws)).
  { rewrite Forall_map. eapply Forall_impl; [|exact Hw64]. cbn beta. intros w Hw.
    unfold key_of. rewrite N.shiftr_div_pow2. pows. change (2^36) with 68719476736. lia. }
  unfold slice_keys. rewrite intersect_keep_correct.
  - cbn [bind]. f_equal. unfold intersect_keep_spec. cbn zeta. cbn [snd].
    rewrite keys_of_key_of, !mvals_wmask by assumption.
    unfold enum. change 0 with (N.of_nat (length (@nil N))).
    pose proof (take_idx_filter key_of (fun v => mem_n v ks) ws []) as T.
    cbn [app] in T. rewrite T.
    exact (filter_encode_spec (fun v => mem_n v ks) ps Hs Hb).
  - apply msorted_of_ss_lt; [apply sorted_lt_ss|]; assumption.
  - apply (sorted_msorted (keys_of ws) wmask). rewrite keys_of_key_of, mvals_wmask by assumption.
    apply ss_le_sorted_le. exact Hkeys.
  - exact Hlk.
  - rewrite keys_of_key_of, map_length. unfold ws.
    pose proof (encode_spec_length ps). rewrite pow62 in *. lia.
Qed.

(* ================= 2. encode with boundaries ================= *)
(* ---- diff_nonzero_from ---- *)
Lemma dnf_single i c : diff_nonzero_from i [c] = []. Proof. reflexivity. Qed.

Lemma dnf_shift k : forall l i, map (N.add k) (diff_nonzero_from i l) = diff_nonzero_from (k + i) l.
Proof.
  induction l as [|x t IH]; intros i; [reflexivity|].
  destruct t as [|y t']; [reflexivity|].
  rewrite !dnf_cons2. replace (k + i + 1) with (k + (i + 1)) by lia.
  destruct (x =? y); [apply IH|]. cbn [map]. rewrite IH. reflexivity.
Qed.

Lemma dnf_bounds : forall l i x, In x (diff_nonzero_from i l) -> i < x /\ x < i + N.of_nat (length l).
Proof.
  induction l as [|a t IH]; intros i x H; [destruct H|].
  destruct t as [|b t']; [destruct H|].
  rewrite dnf_cons2 in H.
  assert (A : In x (diff_nonzero_from (i + 1) (b :: t')) ->
              i < x /\ x < i + N.of_nat (length (a :: b :: t'))).
  { intro H'. apply IH in H'. cbn [length] in *. lia. }
  destruct (a =? b); [auto|]. destruct H as [<-|H]; [cbn [length]; lia|auto].
Qed.

Lemma dnf_sorted : forall l i, StronglySorted N.lt (diff_nonzero_from i l).
Proof.
  induction l as [|a t IH]; intros i; [constructor|].
  destruct t as [|b t']; [constructor|].
  rewrite dnf_cons2. destruct (a =? b); [apply IH|]. constructor; [apply IH|].
  apply Forall_forall. intros x Hx. apply dnf_bounds in Hx. lia.
Qed.

Lemma dnf_length : forall l i, (length (diff_nonzero_from i l) <= length l - 1)%nat.
Proof.
  induction l as [|a t IH]; intros i; [cbn; lia|].
  destruct t as [|b t']; [cbn; lia|].
  rewrite dnf_cons2. specialize (IH (i + 1)). cbn [length] in *.
  destruct (a =? b); cbn [length]; lia.
Qed.

Lemma last_cons {A} : forall (t : list A) x c, last (x :: t) c = last t x.
Proof.
  induction t as [|y t' IH]; intros x c; [reflexivity|].
  change (last (x :: y :: t') c) with (last (y :: t') c). rewrite !IH. reflexivity.
Qed.

Lemma dnf_app : forall l1 n c l2,
  diff_nonzero_from n (c :: l1 ++ l2) =
  diff_nonzero_from n (c :: l1) ++ diff_nonzero_from (n + N.of_nat (length l1)) (last l1 c :: l2).
Proof.
  induction l1 as [|x t IH]; intros n c l2.
  - cbn [app length last]. rewrite dnf_single. cbn [app]. f_equal. lia.
  - cbn [app]. rewrite (dnf_cons2 n c x (t ++ l2)), (dnf_cons2 n c x t), IH, last_cons.
    replace (n + N.of_nat (length (x :: t))) with (n + 1 + N.of_nat (length t)) by (cbn [length]; lia).
    destruct (c =? x); reflexivity.
Qed.

Lemma ci_shift off l : map (N.add off) (change_indices l) = off :: diff_nonzero_from off l.
Proof.
  unfold change_indices. cbn [map]. rewrite dnf_shift, N.add_0_r. reflexivity.
Qed.

(* ---- reduceat_or: shifting by a prefix, splitting at an index ---- *)
Lemma skipn_app_plus {A} (pre xs : list A) k : skipn (length pre + k) (pre ++ xs) = skipn k xs.
Proof. induction pre; cbn [length app skipn Nat.add]; auto. Qed.

Lemma reduceat_length xs : forall idx, length (reduceat_or xs idx) = length idx.
Proof. induction idx as [|a t IH]; [reflexivity|]. cbn [reduceat_or length]. now rewrite IH. Qed.

Lemma reduceat_shift xs pre : forall idx,
  reduceat_or (pre ++ xs) (map (N.add (N.of_nat (length pre))) idx) = reduceat_or xs idx.
Proof.
  induction idx as [|a t IH]; [reflexivity|].
  destruct t as [|b t'].
  - cbn [map reduceat_or]. f_equal. f_equal.
    replace (N.to_nat (N.of_nat (length pre) + a)) with (length pre + N.to_nat a)%nat by lia.
    apply skipn_app_plus.
  - cbn [map] in *. rewrite !reduceat_or_cons2, IH. f_equal.
    replace (N.of_nat (length pre) + a <? N.of_nat (length pre) + b) with (a <? b)
      by (destruct (N.ltb_spec a b), (N.ltb_spec (N.of_nat (length pre) + a) (N.of_nat (length pre) + b));
          try reflexivity; lia).
    replace (N.to_nat (N.of_nat (length pre) + a)) with (length pre + N.to_nat a)%nat by lia.
    replace (N.to_nat (N.of_nat (length pre) + b)) with (length pre + N.to_nat b)%nat by lia.
    destruct (a <? b).
    + unfold slice_nat. rewrite skipn_app_plus. f_equal. f_equal. lia.
    + apply app_nth2_plus.
Qed.

Lemma slice_app1 {A} (xs ys : list A) a b : (b <= length xs)%nat ->
  slice_nat (xs ++ ys) a b = slice_nat xs a b.
Proof.
  intro H. unfold slice_nat. rewrite skipn_app, firstn_app.
  replace (b - a - length (skipn a xs))%nat with 0%nat by (rewrite skipn_length; lia).
  cbn [firstn]. apply app_nil_r.
Qed.

Lemma slice_to_end {A} (xs : list A) a : slice_nat xs a (length xs) = skipn a xs.
Proof. unfold slice_nat. apply firstn_all2. rewrite skipn_length. lia. Qed.

Lemma reduceat_split xs ys : forall idx1 idx2, idx1 <> [] ->
  Forall (fun a => a < N.of_nat (length xs)) idx1 ->
  reduceat_or (xs ++ ys) (idx1 ++ N.of_nat (length xs) :: idx2) =
  reduceat_or xs idx1 ++ reduceat_or (xs ++ ys) (N.of_nat (length xs) :: idx2).
Proof.
  induction idx1 as [|a t IH]; intros idx2 Hne Hf; [congruence|].
  inversion Hf as [|? ? Ha Hf']; subst.
  destruct t as [|b t'].
  - cbn [app]. rewrite reduceat_or_cons2. cbn [reduceat_or app]. f_equal.
    replace (a <? N.of_nat (length xs)) with true by (symmetry; apply N.ltb_lt; exact Ha).
    rewrite Nat2N.id, slice_app1, slice_to_end by lia. reflexivity.
  - inversion Hf' as [|? ? Hb _]; subst.
    change ((a :: b :: t') ++ N.of_nat (length xs) :: idx2)
      with (a :: b :: (t' ++ N.of_nat (length xs) :: idx2)).
    rewrite !reduceat_or_cons2.
    change (b :: t' ++ N.of_nat (length xs) :: idx2) with ((b :: t') ++ N.of_nat (length xs) :: idx2).
    rewrite IH by (try discriminate; assumption).
    cbn [app]. f_equal.
    destruct (a <? b); [apply f_equal, slice_app1; lia|apply app_nth1; lia].
Qed.

(* ---- the merged index list, segment by segment ---- *)
Notation seglen s := (N.of_nat (length s)).
Definition nonempty (s : list (N*N)) : Prop := s <> [].

Fixpoint CH (off : N) (segs : list (list (N*N))) : list N :=
  match segs with
  | [] => []
  | s :: t => map (N.add off) (change_indices (map hdrw s)) ++ CH (off + seglen s) t
  end.
Fixpoint ST (off : N) (segs : list (list (N*N))) : list N :=
  match segs with [] => [] | s :: t => off :: ST (off + seglen s) t end.
Definition enc_np (s : list (N*N)) : list N := reduceat_or (map wrdw s) (change_indices (map hdrw s)).

Lemma CH_cons off s t :
  CH off (s :: t) = map (N.add off) (change_indices (map hdrw s)) ++ CH (off + seglen s) t.
Proof. reflexivity. Qed.
Lemma CH_cons' off s t :
  CH off (s :: t) = (off :: diff_nonzero_from off (map hdrw s)) ++ CH (off + seglen s) t.
Proof. rewrite CH_cons, ci_shift. reflexivity. Qed.

Lemma removelast_ps acc x l :
  removelast (prefix_sums acc (x :: l)) = acc :: removelast (prefix_sums (acc + x) l).
Proof. cbn [prefix_sums]. destruct l; reflexivity. Qed.

Lemma starts_ST_gen : forall segs acc,
  removelast (prefix_sums acc (map (fun s : list (N*N) => seglen s) segs)) = ST acc segs.
Proof.
  induction segs as [|s t IH]; intros acc; [reflexivity|].
  cbn [map ST]. rewrite removelast_ps, IH. reflexivity.
Qed.
Lemma starts_ST segs : starts segs = ST 0 segs.
Proof. apply starts_ST_gen. Qed.

Lemma enc_np_spec s : sorted2 s -> bounded s -> s <> [] -> enc_np s = encode_spec s.
Proof.
  intros Hs Hb Hne. rewrite <- (encode_correct s Hs Hb). unfold encode, enc_np.
  rewrite cols_eq, words_eq by assumption.
  destruct s as [|a s']; [congruence|reflexivity].
Qed.

Lemma change_indices_bound l : l <> [] -> Forall (fun a => a < N.of_nat (length l)) (change_indices l).
Proof.
  intro Hne. unfold change_indices. constructor.
  - destruct l; [congruence|cbn [length]; lia].
  - apply Forall_forall. intros x Hx. apply dnf_bounds in Hx. lia.
Qed.

Lemma CH_head off s t : exists idx, CH off (s :: t) = off :: idx.
Proof. rewrite CH_cons'. cbn [app]. eauto. Qed.

Lemma reduceat_CH : forall segs pre, segs <> [] -> Forall nonempty segs ->
  reduceat_or (pre ++ map wrdw (concat segs)) (CH (N.of_nat (length pre)) segs) = concat (map enc_np segs).
Proof.
  induction segs as [|s t IH]; intros pre Hne Hf; [congruence|].
  inversion Hf as [|? ? Hs Hf']; subst.
  destruct t as [|s' t'].
  - cbn [CH concat map]. rewrite !app_nil_r. apply reduceat_shift.
  - rewrite CH_cons.
    destruct (CH_head (N.of_nat (length pre) + seglen s) s' t') as (idx2 & E).
    assert (Hr : s' :: t' <> []) by discriminate.
    set (rest := s' :: t') in *.
    cbn [concat map]. rewrite map_app, app_assoc.
    set (xs := pre ++ map wrdw s).
    assert (Lx : N.of_nat (length pre) + seglen s = N.of_nat (length xs))
      by (unfold xs; rewrite app_length, map_length; lia).
    rewrite Lx in *.
    pose proof (IH xs Hr Hf') as IH'. rewrite E in *.
    rewrite reduceat_split.
    + rewrite IH'. f_equal. unfold xs. apply reduceat_shift.
    + unfold change_indices. cbn [map]. discriminate.
    + rewrite Forall_map. eapply Forall_impl; [|apply change_indices_bound].
      * cbn beta. intros a Ha. rewrite map_length in Ha. unfold xs. rewrite app_length, map_length. lia.
      * intro E0. apply map_eq_nil in E0. exact (Hs E0).
Qed.

(* order and range *)
Lemma ss_app l1 l2 : StronglySorted N.lt l1 -> StronglySorted N.lt l2 ->
  (forall x y, In x l1 -> In y l2 -> x < y) -> StronglySorted N.lt (l1 ++ l2).
Proof.
  induction 1 as [|a t Hs IH Hf]; intros H2 Hlt; cbn [app]; [exact H2|].
  constructor.
  - apply IH; [exact H2|]. intros x y Hx Hy. apply Hlt; [now right|exact Hy].
  - apply Forall_app. split; [exact Hf|]. apply Forall_forall. intros y Hy. apply Hlt; [now left|exact Hy].
Qed.

Lemma concat_length_cons {A} (s : list A) t : length (concat (s :: t)) = (length s + length (concat t))%nat.
Proof. cbn [concat]. apply app_length. Qed.

Lemma ST_props : forall segs, Forall nonempty segs -> forall off,
  StronglySorted N.lt (ST off segs) /\
  Forall (fun x => off <= x /\ x < off + N.of_nat (length (concat segs))) (ST off segs).
Proof.
  induction 1 as [|s t Hs Ht IH]; intros off; [split; constructor|].
  destruct (IH (off + seglen s)) as [S1 F1].
  assert (Hl : 0 < seglen s) by (destruct s; [exfalso; apply Hs; reflexivity|cbn [length]; lia]).
  cbn [ST]. rewrite concat_length_cons. split.
  - constructor; [exact S1|]. eapply Forall_impl; [|exact F1]. cbn beta. intros; lia.
  - constructor; [lia|]. eapply Forall_impl; [|exact F1]. cbn beta. intros; lia.
Qed.

Lemma CH_props : forall segs, Forall nonempty segs -> forall off,
  StronglySorted N.lt (CH off segs) /\
  Forall (fun x => off <= x /\ x < off + N.of_nat (length (concat segs))) (CH off segs).
Proof.
  induction 1 as [|s t Hs Ht IH]; intros off; [split; constructor|].
  destruct (IH (off + seglen s)) as [S1 F1].
  assert (Hl : 0 < seglen s) by (destruct s; [exfalso; apply Hs; reflexivity|cbn [length]; lia]).
  rewrite CH_cons', concat_length_cons.
  assert (B : Forall (fun x => off <= x /\ x < off + seglen s) (off :: diff_nonzero_from off (map hdrw s))).
  { constructor; [lia|]. apply Forall_forall. intros x Hx. apply dnf_bounds in Hx.
    rewrite map_length in Hx. lia. }
  split.
  - apply ss_app.
    + constructor; [apply dnf_sorted|]. apply Forall_forall. intros x Hx. apply dnf_bounds in Hx. lia.
    + exact S1.
    + intros x y Hx Hy. rewrite Forall_forall in B, F1. apply B in Hx. apply F1 in Hy. lia.
  - apply Forall_app. split; (eapply Forall_impl; [|eassumption]); cbn beta; intros; lia.
Qed.

(* membership: the per-segment index list is the union of the global change indices and the starts *)
Lemma CH_mem : forall segs, Forall nonempty segs -> forall n c x,
  In x (CH (n + 1) segs) <->
  In x (diff_nonzero_from n (c :: map hdrw (concat segs))) \/ In x (ST (n + 1) segs).
Proof.
  induction 1 as [|s t Hs Ht IH]; intros n c x.
  - cbn [CH concat map ST]. rewrite dnf_single. cbn [In]. tauto.
  - destruct s as [|a s']; [exfalso; apply Hs; reflexivity|].
    rewrite CH_cons'. cbn [concat ST]. rewrite map_app. cbn [map].
    rewrite (dnf_app (hdrw a :: map hdrw s') n c), dnf_cons2.
    replace (n + 1 + seglen (a :: s')) with (n + N.of_nat (length (hdrw a :: map hdrw s')) + 1)
      by (cbn [length]; rewrite map_length; lia).
    rewrite !in_app_iff.
    rewrite (IH (n + N.of_nat (length (hdrw a :: map hdrw s'))) (last (hdrw a :: map hdrw s') c) x).
    destruct (c =? hdrw a); cbn [In]; tauto.
Qed.

Lemma CH_mem_top segs : segs <> [] -> Forall nonempty segs -> forall x,
  In x (CH 0 segs) <-> In x (change_indices (map hdrw (concat segs))) \/ In x (ST 0 segs).
Proof.
  intros Hne Hf x. destruct segs as [|s t]; [congruence|].
  inversion Hf as [|? ? Hs Ht]; subst.
  destruct s as [|a s']; [exfalso; apply Hs; reflexivity|].
  rewrite CH_cons'. cbn [concat ST]. rewrite map_app. cbn [map]. unfold change_indices.
  change ((hdrw a :: map hdrw s') ++ map hdrw (concat t)) with (hdrw a :: map hdrw s' ++ map hdrw (concat t)).
  rewrite (dnf_app (map hdrw s') 0 (hdrw a)).
  replace (0 + seglen (a :: s')) with (0 + N.of_nat (length (map hdrw s')) + 1)
    by (cbn [length]; rewrite map_length; lia).
  cbn [app In]. rewrite !in_app_iff.
  rewrite (CH_mem t Ht (0 + N.of_nat (length (map hdrw s'))) (last (map hdrw s') (hdrw a)) x).
  tauto.
Qed.

Lemma merge_is_CH segs : segs <> [] -> Forall nonempty segs ->
  merge_drop_spec (change_indices (map hdrw (concat segs))) (ST 0 segs) = CH 0 segs.
Proof.
  intros Hne Hf. unfold merge_drop_spec. apply (ssorted_unique N.lt).
  - intros x. lia.
  - intros x y. lia.
  - apply dedup_adj_sslt, sort_n_ssorted.
  - apply CH_props. exact Hf.
  - intro x. rewrite dedup_adj_In, (CH_mem_top segs Hne Hf x), <- in_app_iff.
    split; apply Permutation_in; [apply Permutation_sym|]; apply sort_n_perm.
Qed.

(* ---- where the starts land in the merged list ---- *)
Definition FI (M : list N) (v : N) : N := match first_index v M with Some b => b | None => 0 end.

Lemma first_index_app : forall pre v t, ~ In v pre ->
  first_index v (pre ++ v :: t) = Some (N.of_nat (length pre)).
Proof.
  induction pre as [|x pre IH]; intros v t Hn; cbn [app first_index length].
  - now rewrite N.eqb_refl.
  - replace (x =? v) with false by (symmetry; apply N.eqb_neq; intro; subst; apply Hn; now left).
    rewrite IH by (intro; apply Hn; now right). cbn [option_map]. f_equal. lia.
Qed.

Lemma first_index_in : forall M v, In v M -> first_index v M <> None.
Proof.
  induction M as [|x M IH]; intros v H; [destruct H|]. cbn [first_index].
  destruct (N.eqb_spec x v); [discriminate|].
  destruct H as [H|H]; [congruence|]. specialize (IH v H).
  destruct (first_index v M); [discriminate|congruence].
Qed.

Lemma dropf_snd ML MR : NoDup ML -> (forall v, In v ML -> first_index v MR <> None) ->
  forall t pre, ML = pre ++ t ->
  map snd (flat_map (dropf ML MR) (enum_from (N.of_nat (length pre)) t)) = map (FI MR) t.
Proof.
  intros Hnd Hin. induction t as [|v t IH]; intros pre E; [reflexivity|].
  cbn [enum_from flat_map map]. rewrite map_app.
  replace (N.succ (N.of_nat (length pre))) with (N.of_nat (length (pre ++ [v])))
    by (rewrite app_length; cbn [length]; lia).
  rewrite IH by (rewrite <- app_assoc; exact E).
  f_equal. unfold dropf, is_first, FI.
  assert (Hn : ~ In v pre).
  { rewrite E in Hnd. apply NoDup_remove_2 in Hnd. intro H. apply Hnd. apply in_or_app. now left. }
  rewrite E, first_index_app, N.eqb_refl by exact Hn.
  assert (Hv : first_index v MR <> None) by (apply Hin; rewrite E; apply in_or_app; right; now left).
  destruct (first_index v MR); [reflexivity|congruence].
Qed.

Lemma ss_lt_nodup l : StronglySorted N.lt l -> NoDup l.
Proof.
  induction 1 as [|a t Hs IH Hf]; constructor; [|exact IH].
  intro H. rewrite Forall_forall in Hf. apply Hf in H. lia.
Qed.

Lemma drop_spec_snd l r : StronglySorted N.lt l ->
  Forall (fun x => x < 2^64) l -> Forall (fun x => x < 2^64) r ->
  (forall v, In v l -> In v r) ->
  snd (intersect_drop_spec l r wmask) = map (FI r) l.
Proof.
  intros Hs Hl Hr Hin. unfold intersect_drop_spec. cbn zeta. cbn [snd].
  rewrite !mvals_wmask by assumption. fold (dropf l r).
  unfold enum. change 0 with (N.of_nat (length (@nil N))).
  apply dropf_snd; [apply ss_lt_nodup; exact Hs| |reflexivity].
  intros v Hv. apply first_index_in, Hin, Hv.
Qed.

Definition nwords (s : list (N*N)) : N := N.of_nat (length (change_indices (map hdrw s))).

Lemma FI_CH : forall segs, Forall nonempty segs -> forall off P, Forall (fun x => x < off) P ->
  map (FI (P ++ CH off segs)) (ST off segs) ++ [N.of_nat (length (P ++ CH off segs))]
  = prefix_sums (N.of_nat (length P)) (map nwords segs).
Proof.
  induction 1 as [|s t Hs Ht IH]; intros off P HP.
  - cbn [CH ST map prefix_sums app]. rewrite app_nil_r. reflexivity.
  - assert (Hl : 0 < seglen s) by (destruct s; [exfalso; apply Hs; reflexivity|cbn [length]; lia]).
    cbn [ST map prefix_sums app]. f_equal.
    + rewrite CH_cons'. cbn [app]. unfold FI. rewrite first_index_app; [reflexivity|].
      intro H. rewrite Forall_forall in HP. apply HP in H. lia.
    + rewrite CH_cons, app_assoc.
      rewrite (IH (off + seglen s) (P ++ map (N.add off) (change_indices (map hdrw s)))).
      * f_equal. rewrite app_length, map_length. unfold nwords. lia.
      * apply Forall_app. split; [eapply Forall_impl; [|exact HP]; cbn beta; intros; lia|].
        rewrite ci_shift. constructor; [lia|].
        apply Forall_forall. intros x Hx. apply dnf_bounds in Hx. rewrite map_length in Hx. lia.
Qed.

Lemma nwords_spec s : sorted2 s -> bounded s -> s <> [] -> nwords s = N.of_nat (length (encode_spec s)).
Proof.
  intros Hs Hb Hne. rewrite <- enc_np_spec by assumption. unfold enc_np, nwords.
  rewrite reduceat_length. reflexivity.
Qed.

Lemma CH_length : forall segs, Forall nonempty segs -> forall off,
  (length (CH off segs) <= length (concat segs))%nat.
Proof.
  induction 1 as [|s t Hs Ht IH]; intros off; [cbn; lia|].
  rewrite CH_cons, concat_length_cons, app_length, map_length. specialize (IH (off + seglen s)).
  unfold change_indices. cbn [length]. pose proof (dnf_length (map hdrw s) 0) as D.
  rewrite map_length in D.
  assert (length s <> 0)%nat by (destruct s; [exfalso; apply Hs; reflexivity|cbn [length]; lia]). lia.
Qed.

Lemma ST_length : forall segs, Forall nonempty segs -> forall off,
  (length (ST off segs) <= length (concat segs))%nat.
Proof.
  induction 1 as [|s t Hs Ht IH]; intros off; [cbn; lia|].
  cbn [ST length]. rewrite concat_length_cons. specialize (IH (off + seglen s)).
  assert (length s <> 0)%nat by (destruct s; [exfalso; apply Hs; reflexivity|cbn [length]; lia]). lia.
Qed.

Lemma Forall_lt64 (l : list N) off n : off + n < 2^62 ->
  Forall (fun x => off <= x /\ x < off + n) l -> Forall (fun x => x < 2^64) l.
Proof.
  intros H F. eapply Forall_impl; [|exact F]. cbn beta. intros a Ha. rewrite pow62 in H. pows. lia.
Qed.

Theorem encode_b_correct : forall segs,
  Forall (fun s => sorted2 s /\ bounded s /\ s <> []) segs -> segs <> [] ->
  N.of_nat (length (concat segs)) < 2^62 ->
  let flat := concat segs in
  encode_b (map fst flat) (map snd flat) (starts segs) = Done (boundaries_spec segs).
Proof.
  intros segs HF Hne Hlen flat. subst flat.
  assert (Hnon : Forall nonempty segs) by (eapply Forall_impl; [|exact HF]; cbn beta; tauto).
  assert (Hbd : bounded (concat segs)).
  { apply Forall_concat. eapply Forall_impl; [|exact HF]. cbn beta. tauto. }
  assert (Hflat : concat segs <> []).
  { destruct segs as [|s t]; [congruence|]. inversion Hnon as [|? ? Hs _]; subst.
    destruct s; [exfalso; apply Hs; reflexivity|]. discriminate. }
  destruct (ST_props segs Hnon 0) as [SS SF]. destruct (CH_props segs Hnon 0) as [CS CF].
  assert (S64 : Forall (fun x => x < 2^64) (ST 0 segs)) by (eapply Forall_lt64; [|exact SF]; exact Hlen).
  assert (C64 : Forall (fun x => x < 2^64) (CH 0 segs)) by (eapply Forall_lt64; [|exact CF]; exact Hlen).
  unfold encode_b. rewrite cols_eq, words_eq, starts_ST by assumption.
  rewrite merge_drop_correct.
  2:{ unfold change_indices. apply StronglySorted_Sorted. constructor; [apply dnf_sorted|].
      apply Forall_forall. intros x Hx. apply dnf_bounds in Hx. lia. }
  2:{ apply StronglySorted_Sorted. exact SS. }
  cbn [bind]. rewrite merge_is_CH by assumption.
  rewrite intersect_drop_correct.
  2:{ apply msorted_of_ss_lt; assumption. }
  2:{ apply msorted_of_ss_lt; assumption. }
  2:{ pose proof (ST_length segs Hnon 0). rewrite pow62 in *. lia. }
  2:{ pose proof (CH_length segs Hnon 0). rewrite pow62 in *. lia. }
  cbn [bind].
  destruct (map snd (concat segs)) eqn:Em; [apply map_eq_nil in Em; congruence|].
  f_equal. unfold boundaries_spec. f_equal.
  - pose proof (reduceat_CH segs [] Hne Hnon) as R. cbn [app length] in R. change (N.of_nat 0) with 0 in R.
    rewrite R. f_equal. apply map_ext_in. intros s Hs.
    rewrite Forall_forall in HF. destruct (HF s Hs) as (H1 & H2 & H3). apply enc_np_spec; assumption.
  - rewrite drop_spec_snd; try assumption.
    + pose proof (FI_CH segs Hnon 0 [] (Forall_nil _)) as R. cbn [app length] in R.
      change (N.of_nat 0) with 0 in R. rewrite R. f_equal. apply map_ext_in. intros s Hs.
      rewrite Forall_forall in HF. destruct (HF s Hs) as (H1 & H2 & H3). apply nwords_spec; assumption.
    + intros v Hv. apply (CH_mem_top segs Hne Hnon v). right. exact Hv.
Qed.

(* the same on the numpy-level encoder *)
Corollary slice_keys_correct_real : forall ps ks, sorted2 ps -> bounded ps ->
  Sorted N.lt ks -> Forall (fun k => k < 2^64) ks ->
  N.of_nat (length ps) < 2^62 -> N.of_nat (length ks) < 2^62 ->
  slice_keys (encode (map fst ps) (map snd ps)) ks = Done (slice_spec ps ks).
Proof. intros. rewrite encode_correct by assumption. apply slice_keys_correct; assumption. Qed.

(* the hypotheses are satisfiable (two segments meeting inside one word) *)
Example nonvacuous_b :
  let segs := [[(5,3)]; [(5,4);(5,30)]] in
  Forall (fun s => sorted2 s /\ bounded s /\ s <> []) segs /\ segs <> [] /\
  N.of_nat (length (concat segs)) < 2^62.
Proof.
  cbn zeta. rewrite pow62. unfold bounded. pows.
  split; [|split; [discriminate|cbn [concat app length]; lia]].
  constructor; [|constructor; [|constructor]].
  - split; [cbn [sorted2]; tauto|]. split; [|discriminate].
    constructor; [cbn [fst snd]; lia|constructor].
  - split; [cbn [sorted2]; unfold lt2; cbn [fst snd]; repeat split; lia|]. split; [|discriminate].
    constructor; [cbn [fst snd]; lia|]. constructor; [cbn [fst snd]; lia|constructor].
Qed.

Print Assumptions slice_keys_correct.
Print Assumptions encode_b_correct.
