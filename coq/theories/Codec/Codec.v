(* Model of searcharray/roaringish/roaringish.py: RoaringishEncoder (lines 66-282), at the level of the
   numpy combinators the code uses (floor_divide, shifts with 64-bit wrap, diff/nonzero, reduceat,
   lexsort/unique/split) and calling the kernel models where the code calls the compiled kernels.
   The layout constants come from Gen/SourceConsts.v (regenerated from the source on every run).
   No proofs here. *)
From SA Require Import Base.Prelude Gen.SourceConsts Kernels.Intersect Kernels.Linear.
Open Scope N_scope.

(* ---- RoaringishEncoder.__init__ ---- *)
Definition key_bits : N := src_key_bits.
Definition msb_bits : N := src_msb_bits.          (* payload_msb_bits = (64 - key_bits) // 2 *)
Definition lsb_bits : N := src_lsb_bits.          (* payload_lsb_bits = (64 - key_bits) - msb_bits *)
Definition key_shift : N := 64 - key_bits.
Definition n_msb_mask (n : N) : N := wadd (wnot (wshl 1 (64 - n))) 1.     (* ~(1 << (64 - n)) + 1 *)
Definition key_mask : N := n_msb_mask key_bits.
Definition payload_msb_mask : N := N.land (n_msb_mask (msb_bits + key_bits)) (wnot key_mask).
Definition payload_lsb_mask : N := (wshl 1 lsb_bits) - 1.
Definition header_mask : N := N.lor key_mask payload_msb_mask.
Definition max_payload : N := 2 ^ lsb_bits - 1.

(* ---- encode (93-142) ---- *)
(* cols = floor_divide(payload, lsb_bits); cols <<= msb_bits; cols |= keys << (64 - key_bits)   [uint64, wrapping] *)
Definition enc_col (k p : N) : N := N.lor (wshl (p / lsb_bits) msb_bits) (wshl k key_shift).
(* values = 1 << (payload % lsb_bits) *)
Definition enc_val (p : N) : N := N.shiftl 1 (p mod lsb_bits).

Fixpoint map2 {A B C} (f : A -> B -> C) (l1 : list A) (l2 : list B) : list C :=
  match l1, l2 with a :: t1, b :: t2 => f a b :: map2 f t1 t2 | _, _ => [] end.

(* np.nonzero(np.diff(cols))[0] + 1 *)
Fixpoint diff_nonzero_from (i : N) (l : list N) : list N :=
  match l with
  | x :: ((y :: _) as t) =>
      if x =? y then diff_nonzero_from (i + 1) t else (i + 1) :: diff_nonzero_from (i + 1) t
  | _ => []
  end.
Definition change_indices (cols : list N) : list N := 0 :: diff_nonzero_from 0 cols.

Definition fold_or (l : list N) : N := fold_left N.lor l 0.
Definition slice_nat {A} (l : list A) (a b : nat) : list A := firstn (b - a) (skipn a l).
(* np.bitwise_or.reduceat(xs, idx) *)
Fixpoint reduceat_or (xs : list N) (idx : list N) : list N :=
  match idx with
  | [] => []
  | a :: t =>
      (match t with
       | [] => fold_or (skipn (N.to_nat a) xs)
       | b :: _ => if a <? b then fold_or (slice_nat xs (N.to_nat a) (N.to_nat b)) else nth (N.to_nat a) xs 0
       end) :: reduceat_or xs t
  end.

Definition encode_words (keys payload : list N) : list N :=
  map2 (fun c p => N.lor c (enc_val p)) (map2 enc_col keys payload) payload.

(* encode(payload, keys) without boundaries *)
Definition encode (keys payload : list N) : list N :=
  match payload with
  | [] => []
  | _ => reduceat_or (encode_words keys payload) (change_indices (map2 enc_col keys payload))
  end.

(* encode(payload, keys, boundaries): several sequences at once; returns (words, new boundaries) *)
Definition encode_b (keys payload boundaries : list N) : result (list N * list N) :=
  let cols := map2 enc_col keys payload in
  let cio := change_indices cols in
  do change <- merge_drop cio boundaries;
  do ix <- intersect_drop boundaries change wmask;
  let new_boundaries := snd ix ++ [N.of_nat (length change)] in
  match payload with
  | [] => Done ([], new_boundaries)
  | _ => Done (reduceat_or (encode_words keys payload) change, new_boundaries)
  end.

(* ---- decode (144-166) ---- *)
Definition dec_key (w : N) : N := N.shiftr (N.land w key_mask) key_shift.
Definition dec_msb (w : N) : N := N.shiftr (N.land w payload_msb_mask) msb_bits.
(* rows (key, posn) contributed by one bit position, in array order *)
Definition rows_of_bit (ws : list N) (bit : N) : list (N * N) :=
  map (fun w => (dec_key w, bit + dec_msb w * lsb_bits))
      (filter (fun w => negb (N.land w (N.shiftl 1 bit) =? 0)) ws).
Definition kp_leb (a b : N * N) : bool :=
  orb (fst a <? fst b) (andb (fst a =? fst b) (snd a <=? snd b)).
Fixpoint insert_kp (x : N * N) (l : list (N * N)) : list (N * N) :=
  match l with [] => [x] | y :: t => if kp_leb x y then x :: l else y :: insert_kp x t end.
Definition lexsort_kp (l : list (N * N)) : list (N * N) := fold_right insert_kp [] l.
(* np.unique(keys, return_index) + np.split: group consecutive equal keys *)
Fixpoint group_sorted (l : list (N * N)) : list (N * list N) :=
  match l with
  | [] => []
  | (k, p) :: t =>
      match group_sorted t with
      | (k', ps) :: rest => if k =? k' then (k, p :: ps) :: rest else (k, [p]) :: (k', ps) :: rest
      | [] => [(k, [p])]
      end
  end.
Definition decode (ws : list N) : list (N * list N) :=
  group_sorted (lexsort_kp (flat_map (rows_of_bit ws) (map N.of_nat (seq 0 (N.to_nat lsb_bits))))).

(* ---- accessors ---- *)
Definition keys_of (ws : list N) : list N := map (fun w => N.shiftr w key_shift) ws.          (* keys() *)
Definition header_of (w : N) : N := N.land w (wnot payload_lsb_mask).                         (* header() *)
Definition payload_lsb_of (w : N) : N := N.land w payload_lsb_mask.
Definition num_values_per_key (ws : list N) : result (list (N * N)) :=
  popcount64_reduce ws key_shift payload_lsb_mask.
Definition keys_unique (ws : list N) : result (list N) := unique ws key_shift.

Definition take_idx (ws : list N) (idx : list N) : list N := map (fun i => nth (N.to_nat i) ws 0) idx.

(* ---- slice (245-282) ---- *)
Definition slice_keys (ws keys : list N) : result (list N) :=
  do ix <- intersect_keep keys (keys_of ws) wmask; Done (take_idx ws (snd ix)).
Definition slice_header (ws hdrs : list N) : result (list N) :=
  do ix <- intersect_keep hdrs (map header_of ws) wmask; Done (take_idx ws (snd ix)).

(* payload range: validation, then the compiled filter *)
Inductive range_res := RangeOk (ws : list N) | RangeValueError.
Definition slice_range (ws : list N) (min_p max_p : option N) : range_res :=
  match min_p, max_p with
  | None, None => RangeOk ws
  | _, _ =>
      if match min_p with Some m => negb (m mod lsb_bits =? 0) | None => false end then RangeValueError
      else if match max_p with Some m => negb (m mod lsb_bits =? lsb_bits - 1) | None => false end then RangeValueError
      else
        let lo := match min_p with Some m => m | None => 0 end in
        let hi := match max_p with Some m => m | None => wmask end in
        (* as in the source: the bounds are word indices, compared with the UNSHIFTED word-index field (D10) *)
        RangeOk (payload_slice ws payload_msb_mask (lo / lsb_bits) (hi / lsb_bits))
  end.
