(* Checked-access model of the pointer walk of searcharray/bm25/bm25.pyx:_bm25_score (lines 11-25)
   as called by the wrapper bm25_score (28-41):
       cdef long length = term_freqs.shape[0]
       _bm25_score(&term_freqs[0], &doc_lens[0], idf, avg_doc_lens, k1, b, length)
   and, in the kernel (boundscheck off),
       for _ in range(length):
           if term_freqs[0] != 0:
               term_freqs[0] = (term_freqs[0] / (term_freqs[0] + (k1 * (one_minus_b + (b * (doc_lens[0] / avg_doc_lens)))))) * idf
           term_freqs += 1
           doc_lens += 1
   BOTH pointers advance  length = len(term_freqs)  times; nothing in the wrapper compares the two
   shapes.  The value-level model  BM25.bm25_kernel  goes through  combine tfs dls , which truncates
   to the shorter vector and so cannot express the requirement  len(doc_lens) >= len(term_freqs).
   Here every element access is checked against the length of the buffer it reads:
     buffer 0 = term_freqs, buffer 1 = doc_lens.
   doc_lens[0] is read ONLY inside the  if term_freqs[0] != 0  branch (a NaN compares unequal to 0
   and takes the branch: is_zero32 is false on it), exactly as in the C code.
   The write  term_freqs[0] = ...  hits the element whose read has just succeeded, so it needs no
   check of its own; the new contents of term_freqs are accumulated (in reverse) in  acc  and
   later reads of term_freqs are at strictly larger indices, hence unaffected by earlier writes.
   No proofs here. *)
From Coq Require Import ZArith NArith List Bool.
From SA Require Import Base.Prelude Score.BM25.
Import ListNotations.

(* checked read of element i of a float buffer *)
Definition frd (buf : N) (l : list f32) (i : nat) : result f32 :=
  match nth_error l i with
  | Some v => Done v
  | None => Fault Rd buf (N.of_nat i)
  end.

(* n remaining iterations, both pointers at offset i *)
Fixpoint bm25_walk (n : nat) (i : nat) (tfs dls : list f32) (avg idf k1 b omb : f32) (acc : list f32)
  : result (list f32) :=
  match n with
  | O => Done (rev acc)
  | S n' =>
      do tf <- frd 0 tfs i;                                    (* term_freqs[0] *)
      if is_zero32 tf then                                     (* if term_freqs[0] != 0: -- not taken *)
        bm25_walk n' (S i) tfs dls avg idf k1 b omb (tf :: acc)
      else
        do dl <- frd 1 dls i;                                  (* doc_lens[0], read in the branch only *)
        bm25_walk n' (S i) tfs dls avg idf k1 b omb (bm25_one tf dl avg idf k1 b omb :: acc)
  end.

(* bm25_score(term_freqs, doc_lens, avg_doc_lens, idf, k1, b): length = term_freqs.shape[0];
   the result is the new contents of term_freqs *)
Definition bm25_score_walk (tfs dls : list f32) (avg idf k1 b : f32) : result (list f32) :=
  bm25_walk (length tfs) 0 tfs dls avg idf k1 b (one_minus b) [].
