(* C04, binary32 side: facts about the bit-exact Flocq model of the BM25 kernel (Score/BM25.v).
   A. zero pattern (tf = 0 scores exactly 0 for ALL parameters), avg = 0 short-circuit,
      finiteness on an explicit input box, zero pattern through the bit-level interface.
   C. (see the end of the file) accuracy w.r.t. the real-number formula [bm25_R] of BM25_Real.v. *)
From Coq Require Import ZArith List Bool Reals Lra Lia.
From Flocq Require Import Core.Core Relative IEEE754.BinarySingleNaN IEEE754.Binary IEEE754.Bits.
From SA Require Import Score.BM25 Score.BM25_Real.
Import ListNotations.
Open Scope Z_scope.

(* ------------------------------------------------------------------------------------------ *)
(** * A.1  tf = ±0 is returned unchanged                                                      *)

Theorem bm25_zero_tf tf dl avg idf k1 b omb :
  is_zero32 tf = true -> bm25_one tf dl avg idf k1 b omb = tf.
Proof. intros H. unfold bm25_one. rewrite H. reflexivity. Qed.

Lemma is_zero32_B2R x : is_zero32 x = true -> B2R 24 128 x = 0%R.
Proof. destruct x; try discriminate. reflexivity. Qed.

Lemma is_zero32_bits x : is_zero32 x = true -> bits_of_b32 x = 0 \/ bits_of_b32 x = 2147483648.
Proof. destruct x as [[|]| | |]; try discriminate; intros _; [right|left]; reflexivity. Qed.

Lemma nth_error_map_combine {A B C} (f : A * B -> C) l1 l2 i a c :
  nth_error l1 i = Some a -> nth_error l2 i = Some c ->
  nth_error (map f (combine l1 l2)) i = Some (f (a, c)).
Proof.
  revert l2 i. induction l1 as [|x l1 IH]; intros [|y l2] [|i]; simpl; try discriminate.
  - intros [= ->] [= ->]. reflexivity.
  - apply IH.
Qed.

Lemma nth_error_lt_Some {A} (l : list A) i : (i < length l)%nat -> exists x, nth_error l i = Some x.
Proof.
  intros H. destruct (nth_error l i) eqn:E. eauto.
  apply nth_error_None in E. lia.
Qed.

(* what the kernel computes at position i *)
Lemma bm25_kernel_nth tfs dls avg idf k1 b i tf dl :
  nth_error tfs i = Some tf -> nth_error dls i = Some dl ->
  nth_error (bm25_kernel tfs dls avg idf k1 b) i = Some (bm25_one tf dl avg idf k1 b (one_minus b)).
Proof.
  intros Ht Hd. unfold bm25_kernel.
  exact (nth_error_map_combine (fun p => bm25_one (fst p) (snd p) avg idf k1 b (one_minus b)) _ _ _ _ _ Ht Hd).
Qed.

(* vector corollary: every position whose tf is a zero keeps that very zero, for ALL avg/idf/k1/b
   (NaN, infinite, k1 rounding to 0 ... included) *)
Theorem bm25_kernel_zero_tf tfs dls avg idf k1 b i tf :
  nth_error tfs i = Some tf -> (i < length dls)%nat -> is_zero32 tf = true ->
  nth_error (bm25_kernel tfs dls avg idf k1 b) i = Some tf.
Proof.
  intros Ht Hi Hz. destruct (nth_error_lt_Some dls i Hi) as [dl Hd].
  rewrite (bm25_kernel_nth _ _ avg idf k1 b _ _ _ Ht Hd). f_equal. apply bm25_zero_tf, Hz.
Qed.

Lemma bm25_kernel_length tfs dls avg idf k1 b :
  length (bm25_kernel tfs dls avg idf k1 b) = Nat.min (length tfs) (length dls).
Proof. unfold bm25_kernel. rewrite map_length. apply combine_length. Qed.

(* ------------------------------------------------------------------------------------------ *)
(** * A.2  avg = 0 short-circuits to +0 everywhere                                            *)

Theorem bm25_similarity_avg_zero tfs dls avg idf k1 b :
  is_zero32 avg = true ->
  bm25_similarity tfs dls avg idf k1 b = map (fun _ => B754_zero 24 128 false) tfs.
Proof. intros H. unfold bm25_similarity. rewrite H. reflexivity. Qed.

Theorem bm25_similarity_avg_nonzero tfs dls avg idf k1 b :
  is_zero32 avg = false ->
  bm25_similarity tfs dls avg idf k1 b =
  bm25_kernel tfs dls avg (f32_of_f64 idf) (f32_of_f64 k1) (f32_of_f64 b).
Proof. intros H. unfold bm25_similarity. rewrite H. reflexivity. Qed.

(* ------------------------------------------------------------------------------------------ *)
(** * A.4  zero pattern through the bit-level interface                                       *)

Lemma f32_of_Z_0 : f32_of_Z 0 = B754_zero 24 128 false.
Proof. vm_compute. reflexivity. Qed.

Theorem score_zero_pattern tfs dls total n idf_bits k1_bits b_bits i :
  nth_error tfs i = Some 0 -> (i < length dls)%nat ->
  nth_error (score_bits tfs dls total n idf_bits k1_bits b_bits) i = Some 0.
Proof.
  intros Ht Hi. unfold score_bits, bm25_similarity.
  destruct (is_zero32 (fdiv (f32_of_Z total) (f32_of_Z n))).
  - rewrite map_map. rewrite nth_error_map.
    rewrite (map_nth_error f32_of_Z _ _ Ht). reflexivity.
  - rewrite nth_error_map.
    destruct (nth_error_lt_Some dls i Hi) as [dl Hd].
    rewrite (bm25_kernel_nth _ _ _ _ _ _ i (f32_of_Z 0) (f32_of_Z dl)).
    + rewrite bm25_zero_tf. rewrite f32_of_Z_0. reflexivity.
      rewrite f32_of_Z_0. reflexivity.
    + apply map_nth_error, Ht.
    + apply map_nth_error, Hd.
Qed.

(* same through [kernel_bits]: a tf whose bit pattern is +0 (0) or -0 (2^31) keeps that pattern *)
Theorem kernel_zero_pattern tf_bits dl_bits avg_bits idf_bits k1_bits b_bits i z :
  nth_error tf_bits i = Some z -> (z = 0 \/ z = 2147483648) -> (i < length dl_bits)%nat ->
  nth_error (kernel_bits tf_bits dl_bits avg_bits idf_bits k1_bits b_bits) i = Some z.
Proof.
  intros Ht Hz Hi. unfold kernel_bits. rewrite nth_error_map.
  destruct (nth_error_lt_Some dl_bits i Hi) as [dl Hd].
  rewrite (bm25_kernel_nth _ _ _ _ _ _ i (b32_of_bits z) (b32_of_bits dl)).
  - rewrite bm25_zero_tf; destruct Hz as [-> | ->]; reflexivity.
  - apply map_nth_error, Ht.
  - apply map_nth_error, Hd.
Qed.

(* ------------------------------------------------------------------------------------------ *)
(** * A.3  finiteness on an explicit box                                                      *)

Local Notation fexp32 := (FLT_exp (3 - 128 - 24) 24).
Local Notation fexp64 := (FLT_exp (3 - 1024 - 53) 53).
Local Notation rnd32 := (round radix2 fexp32 ZnearestE).
Local Notation rnd64 := (round radix2 fexp64 ZnearestE).
Local Notation R32 := (B2R 24 128).
Local Notation R64 := (B2R 53 1024).
Local Notation fin32 := (is_finite 24 128).
Local Notation fin64 := (is_finite 53 1024).

Local Instance prec24_gt_0 : Prec_gt_0 24 := eq_refl.
Local Instance prec53_gt_0 : Prec_gt_0 53 := eq_refl.
Local Instance prec24_lt_emax : Prec_lt_emax 24 128 := eq_refl.
Local Instance prec53_lt_emax : Prec_lt_emax 53 1024 := eq_refl.

Lemma fexp32_eq : SpecFloat.fexp 24 128 = fexp32. Proof. reflexivity. Qed.

(* rounding is monotone and fixes representable numbers: bounds by representable numbers survive *)
Lemma rnd32_le x y : generic_format radix2 fexp32 y -> (x <= y)%R -> (rnd32 x <= y)%R.
Proof. intros. apply round_le_generic; auto with typeclass_instances. Qed.
Lemma rnd32_ge x y : generic_format radix2 fexp32 x -> (x <= y)%R -> (x <= rnd32 y)%R.
Proof. intros. apply round_ge_generic; auto with typeclass_instances. Qed.
Lemma gf32_bpow e : (-149 <= e)%Z -> generic_format radix2 fexp32 (bpow radix2 e).
Proof. intros. apply generic_format_FLT_bpow; auto with typeclass_instances. Qed.
Lemma gf32_0 : generic_format radix2 fexp32 0%R.
Proof. apply generic_format_0. Qed.
Lemma gf32_B2R x : generic_format radix2 fexp32 (R32 x).
Proof. apply (generic_format_B2R 24 128). Qed.

Lemma rnd32_bounds x lo hi :
  generic_format radix2 fexp32 lo -> generic_format radix2 fexp32 hi ->
  (lo <= x <= hi)%R -> (lo <= rnd32 x <= hi)%R.
Proof. intros Hl Hh [H1 H2]. split. apply rnd32_ge; assumption. apply rnd32_le; assumption. Qed.

Lemma Rabs_lt_of_bounds x lo hi M : (lo <= x <= hi)%R -> (- M < lo)%R -> (hi < M)%R -> (Rabs x < M)%R.
Proof. intros. apply Rabs_def1; lra. Qed.

(* the three operations, in "no overflow => finite and correctly rounded" form *)
Lemma fmul_correct x y :
  fin32 x = true -> fin32 y = true ->
  (Rabs (rnd32 (R32 x * R32 y)) < bpow radix2 128)%R ->
  R32 (fmul x y) = rnd32 (R32 x * R32 y) /\ fin32 (fmul x y) = true.
Proof.
  intros Fx Fy H.
  generalize (Bmult_correct 24 128 _ _ binop_nan_pl32 mode_NE x y).
  change (SpecFloat.fexp 24 128) with fexp32. change (round_mode mode_NE) with ZnearestE.
  rewrite Rlt_bool_true by exact H. rewrite Fx, Fy.
  intros (H1 & H2 & _). split; assumption.
Qed.

Lemma fadd_correct x y :
  fin32 x = true -> fin32 y = true ->
  (Rabs (rnd32 (R32 x + R32 y)) < bpow radix2 128)%R ->
  R32 (fadd x y) = rnd32 (R32 x + R32 y) /\ fin32 (fadd x y) = true.
Proof.
  intros Fx Fy H.
  generalize (Bplus_correct 24 128 _ _ binop_nan_pl32 mode_NE x y Fx Fy).
  change (SpecFloat.fexp 24 128) with fexp32. change (round_mode mode_NE) with ZnearestE.
  rewrite Rlt_bool_true by exact H.
  intros (H1 & H2 & _). split; assumption.
Qed.

Lemma fdiv_correct x y :
  fin32 x = true -> R32 y <> 0%R ->
  (Rabs (rnd32 (R32 x / R32 y)) < bpow radix2 128)%R ->
  R32 (fdiv x y) = rnd32 (R32 x / R32 y) /\ fin32 (fdiv x y) = true.
Proof.
  intros Fx Hy H.
  generalize (Bdiv_correct 24 128 _ _ binop_nan_pl32 mode_NE x y Hy).
  change (SpecFloat.fexp 24 128) with fexp32. change (round_mode mode_NE) with ZnearestE.
  rewrite Rlt_bool_true by exact H. rewrite Fx.
  intros (H1 & H2 & _). split; assumption.
Qed.

(* value conversions *)
Lemma rnd64_le x y : generic_format radix2 fexp64 y -> (x <= y)%R -> (rnd64 x <= y)%R.
Proof. intros. apply round_le_generic; auto with typeclass_instances. Qed.
Lemma rnd64_ge x y : generic_format radix2 fexp64 x -> (x <= y)%R -> (x <= rnd64 y)%R.
Proof. intros. apply round_ge_generic; auto with typeclass_instances. Qed.
Lemma gf64_bpow e : (-1074 <= e)%Z -> generic_format radix2 fexp64 (bpow radix2 e).
Proof. intros. apply generic_format_FLT_bpow; auto with typeclass_instances. Qed.
Lemma gf64_0 : generic_format radix2 fexp64 0%R.
Proof. apply generic_format_0. Qed.

Lemma f32_of_f64_correct x :
  fin64 x = true -> (Rabs (rnd32 (R64 x)) < bpow radix2 128)%R ->
  R32 (f32_of_f64 x) = rnd32 (R64 x) /\ fin32 (f32_of_f64 x) = true.
Proof.
  destruct x as [s|s|s pl H|s m e H]; try discriminate; intros _ Hb.
  - simpl. rewrite round_0 by auto with typeclass_instances. auto.
  - unfold f32_of_f64.
    generalize (binary_normalize_correct 24 128 _ _ mode_NE (if s then Z.neg m else Z.pos m) e s).
    change (SpecFloat.fexp 24 128) with fexp32. change (round_mode mode_NE) with ZnearestE.
    replace (F2R (Float radix2 (if s then Z.neg m else Z.pos m) e)) with (R64 (B754_finite 53 1024 s m e H))
      by (destruct s; reflexivity).
    rewrite Rlt_bool_true by exact Hb.
    intros (H1 & H2 & _). split; assumption.
Qed.

Lemma f64_of_f32_correct x :
  fin32 x = true -> (Rabs (rnd64 (R32 x)) < bpow radix2 1024)%R ->
  R64 (f64_of_f32 x) = rnd64 (R32 x) /\ fin64 (f64_of_f32 x) = true.
Proof.
  destruct x as [s|s|s pl H|s m e H]; try discriminate; intros _ Hb.
  - simpl. rewrite round_0 by auto with typeclass_instances. auto.
  - unfold f64_of_f32.
    generalize (binary_normalize_correct 53 1024 _ _ mode_NE (if s then Z.neg m else Z.pos m) e s).
    change (SpecFloat.fexp 53 1024) with fexp64. change (round_mode mode_NE) with ZnearestE.
    replace (F2R (Float radix2 (if s then Z.neg m else Z.pos m) e)) with (R32 (B754_finite 24 128 s m e H))
      by (destruct s; reflexivity).
    rewrite Rlt_bool_true by exact Hb.
    intros (H1 & H2 & _). split; assumption.
Qed.

Lemma f32_of_Z_correct z :
  (Rabs (rnd32 (IZR z)) < bpow radix2 128)%R ->
  R32 (f32_of_Z z) = rnd32 (IZR z) /\ fin32 (f32_of_Z z) = true.
Proof.
  intros Hb. unfold f32_of_Z.
  generalize (binary_normalize_correct 24 128 _ _ mode_NE z 0 false).
  change (SpecFloat.fexp 24 128) with fexp32. change (round_mode mode_NE) with ZnearestE.
  replace (F2R (Float radix2 z 0)) with (IZR z) by (unfold F2R; simpl; ring).
  rewrite Rlt_bool_true by exact Hb.
  intros (H1 & H2 & _). split; assumption.
Qed.

Lemma f64_of_Z_correct z :
  (Rabs (rnd64 (IZR z)) < bpow radix2 1024)%R ->
  R64 (f64_of_Z z) = rnd64 (IZR z) /\ fin64 (f64_of_Z z) = true.
Proof.
  intros Hb. unfold f64_of_Z.
  generalize (binary_normalize_correct 53 1024 _ _ mode_NE z 0 false).
  change (SpecFloat.fexp 53 1024) with fexp64. change (round_mode mode_NE) with ZnearestE.
  replace (F2R (Float radix2 z 0)) with (IZR z) by (unfold F2R; simpl; ring).
  rewrite Rlt_bool_true by exact Hb.
  intros (H1 & H2 & _). split; assumption.
Qed.

Lemma f64_minus_correct x y :
  fin64 x = true -> fin64 y = true ->
  (Rabs (rnd64 (R64 x - R64 y)) < bpow radix2 1024)%R ->
  R64 (b64_minus mode_NE x y) = rnd64 (R64 x - R64 y) /\ fin64 (b64_minus mode_NE x y) = true.
Proof.
  intros Fx Fy H.
  generalize (Bminus_correct 53 1024 _ _ binop_nan_pl64 mode_NE x y Fx Fy).
  change (SpecFloat.fexp 53 1024) with fexp64. change (round_mode mode_NE) with ZnearestE.
  rewrite Rlt_bool_true by exact H.
  intros (H1 & H2 & _). split; assumption.
Qed.

Lemma bpow_0_1 : bpow radix2 0 = 1%R. Proof. reflexivity. Qed.
Lemma gf32_1 : generic_format radix2 fexp32 1%R.
Proof. rewrite <- bpow_0_1. apply gf32_bpow. lia. Qed.
Lemma gf64_1 : generic_format radix2 fexp64 1%R.
Proof. rewrite <- bpow_0_1. apply gf64_bpow. lia. Qed.

Lemma bpow128_big : (2 < bpow radix2 128)%R.
Proof. apply Rlt_le_trans with (bpow radix2 2). simpl; lra. apply bpow_le. lia. Qed.
Lemma bpow1024_big : (2 < bpow radix2 1024)%R.
Proof. apply Rlt_le_trans with (bpow radix2 2). simpl; lra. apply bpow_le. lia. Qed.

(* one_minus b for 0 <= b <= 1: finite and again in [0,1] *)
Lemma one_minus_bounds b :
  fin32 b = true -> (0 <= R32 b <= 1)%R ->
  fin32 (one_minus b) = true /\ (0 <= R32 (one_minus b) <= 1)%R.
Proof.
  intros Fb Hb. unfold one_minus.
  pose proof bpow128_big as B128. pose proof bpow1024_big as B1024.
  (* (double)b *)
  assert (Hd : (0 <= rnd64 (R32 b) <= 1)%R).
  { split. apply rnd64_ge. apply gf64_0. lra. apply rnd64_le. apply gf64_1. lra. }
  destruct (f64_of_f32_correct b Fb) as [Rd Fd].
  { apply Rabs_def1; lra. }
  rewrite <- Rd in Hd.
  (* 1.0 *)
  assert (H1 : (rnd64 (IZR 1) = 1)%R).
  { apply round_generic. auto with typeclass_instances. apply gf64_1. }
  destruct (f64_of_Z_correct 1) as [R1 F1].
  { rewrite H1. rewrite Rabs_R1. lra. }
  rewrite H1 in R1.
  (* 1.0 - (double)b *)
  assert (Hm : (0 <= rnd64 (R64 (f64_of_Z 1) - R64 (f64_of_f32 b)) <= 1)%R).
  { rewrite R1. split. apply rnd64_ge. apply gf64_0. lra. apply rnd64_le. apply gf64_1. lra. }
  destruct (f64_minus_correct _ _ F1 Fd) as [Rm Fm].
  { apply Rabs_def1; lra. }
  rewrite <- Rm in Hm.
  (* (float) *)
  assert (Hf : (0 <= rnd32 (R64 (b64_minus mode_NE (f64_of_Z 1) (f64_of_f32 b))) <= 1)%R).
  { split. apply rnd32_ge. apply gf32_0. lra. apply rnd32_le. apply gf32_1. lra. }
  destruct (f32_of_f64_correct _ Fm) as [Rf Ff].
  { apply Rabs_def1; lra. }
  rewrite <- Rf in Hf. split; assumption.
Qed.

Lemma bpow_m10 : bpow radix2 (-10) = (/ 1024)%R. Proof. reflexivity. Qed.
Lemma bpow_7 : bpow radix2 7 = 128%R. Proof. reflexivity. Qed.
Lemma bpow_18 : bpow radix2 18 = 262144%R. Proof. reflexivity. Qed.
Lemma bpow_28 : bpow radix2 28 = 268435456%R. Proof. reflexivity. Qed.
Lemma bpow_29 : bpow radix2 29 = 536870912%R. Proof. reflexivity. Qed.
Lemma bpow_36 : bpow radix2 36 = 68719476736%R. Proof. reflexivity. Qed.
Lemma bpow_37 : bpow radix2 37 = 137438953472%R. Proof. reflexivity. Qed.
Lemma bpow128_huge : (bpow radix2 37 < bpow radix2 128)%R.
Proof. apply bpow_lt. lia. Qed.

Lemma nonzero_not_is_zero32 x : R32 x <> 0%R -> is_zero32 x = false.
Proof. destruct x; try reflexivity. intros H. elim H. reflexivity. Qed.

(* Core statement, on real-valued bounds of the (finite) inputs:
     1 <= tf <= 2^18, 0 <= dl <= 2^18, avg >= 2^-10, 0 <= k1 <= 2^7, 0 <= b <= 1, 0 <= omb <= 1, idf finite.
   Every intermediate is finite, the result is finite and its magnitude does not exceed |idf|. *)
Theorem bm25_one_finite_core tf dl avg idf k1 b omb :
  fin32 tf = true -> (1 <= R32 tf <= 262144)%R ->
  fin32 dl = true -> (0 <= R32 dl <= 262144)%R ->
  fin32 avg = true -> (/ 1024 <= R32 avg)%R ->
  fin32 idf = true ->
  fin32 k1 = true -> (0 <= R32 k1 <= 128)%R ->
  fin32 b = true -> (0 <= R32 b <= 1)%R ->
  fin32 omb = true -> (0 <= R32 omb <= 1)%R ->
  fin32 (bm25_one tf dl avg idf k1 b omb) = true /\
  (Rabs (R32 (bm25_one tf dl avg idf k1 b omb)) <= Rabs (R32 idf))%R.
Proof.
  intros Ftf Htf Fdl Hdl Favg Havg Fidf Fk1 Hk1 Fb Hb Fomb Homb.
  pose proof bpow128_huge as BIG. rewrite bpow_37 in BIG.
  unfold bm25_one. rewrite nonzero_not_is_zero32 by lra.
  (* q = dl / avg  in [0, 2^28] *)
  assert (Hq : (0 <= rnd32 (R32 dl / R32 avg) <= 268435456)%R).
  { assert (0 < / R32 avg <= 1024)%R.
    { split. apply Rinv_0_lt_compat; lra.
      replace 1024%R with (/ / 1024)%R by lra. apply Rinv_le_contravar; lra. }
    rewrite <- bpow_28. apply rnd32_bounds. apply gf32_0. apply gf32_bpow; lia.
    rewrite bpow_28. unfold Rdiv. nra. }
  destruct (fdiv_correct dl avg Fdl) as [Rq Fq]. lra. apply Rabs_def1; lra.
  rewrite <- Rq in Hq. set (q := fdiv dl avg) in *.
  (* p = b * q  in [0, 2^28] *)
  assert (Hp : (0 <= rnd32 (R32 b * R32 q) <= 268435456)%R).
  { rewrite <- bpow_28. apply rnd32_bounds. apply gf32_0. apply gf32_bpow; lia.
    rewrite bpow_28. nra. }
  destruct (fmul_correct b q Fb Fq) as [Rp Fp]. apply Rabs_def1; lra.
  rewrite <- Rp in Hp. set (p := fmul b q) in *.
  (* s = omb + p  in [0, 2^29] *)
  assert (Hs : (0 <= rnd32 (R32 omb + R32 p) <= 536870912)%R).
  { rewrite <- bpow_29. apply rnd32_bounds. apply gf32_0. apply gf32_bpow; lia.
    rewrite bpow_29. lra. }
  destruct (fadd_correct omb p Fomb Fp) as [Rs Fs]. apply Rabs_def1; lra.
  rewrite <- Rs in Hs. set (s := fadd omb p) in *.
  (* t = k1 * s  in [0, 2^36] *)
  assert (Ht : (0 <= rnd32 (R32 k1 * R32 s) <= 68719476736)%R).
  { rewrite <- bpow_36. apply rnd32_bounds. apply gf32_0. apply gf32_bpow; lia.
    rewrite bpow_36. nra. }
  destruct (fmul_correct k1 s Fk1 Fs) as [Rt Ft]. apply Rabs_def1; lra.
  rewrite <- Rt in Ht. set (t := fmul k1 s) in *.
  (* den = tf + t  in [tf, 2^37]: never below tf because tf is representable *)
  assert (Hden : (R32 tf <= rnd32 (R32 tf + R32 t) <= 137438953472)%R).
  { rewrite <- bpow_37. apply rnd32_bounds. apply gf32_B2R. apply gf32_bpow; lia.
    rewrite bpow_37. lra. }
  destruct (fadd_correct tf t Ftf Ft) as [Rden Fden]. apply Rabs_def1; lra.
  rewrite <- Rden in Hden. set (den := fadd tf t) in *.
  (* r = tf / den  in [0, 1] *)
  assert (Hr : (0 <= rnd32 (R32 tf / R32 den) <= 1)%R).
  { apply rnd32_bounds. apply gf32_0. apply gf32_1.
    assert (0 < / R32 den)%R by (apply Rinv_0_lt_compat; lra).
    split. unfold Rdiv. nra.
    apply Rmult_le_reg_r with (R32 den). lra.
    unfold Rdiv. rewrite Rmult_assoc, Rinv_l by lra. lra. }
  destruct (fdiv_correct tf den Ftf) as [Rr Fr]. lra. apply Rabs_def1; lra.
  rewrite <- Rr in Hr. set (r := fdiv tf den) in *.
  (* r * idf: magnitude at most |idf|, which is representable and below 2^128 *)
  assert (Hres : (Rabs (rnd32 (R32 r * R32 idf)) <= Rabs (R32 idf))%R).
  { apply abs_round_le_generic; auto with typeclass_instances.
    apply generic_format_abs, gf32_B2R.
    rewrite Rabs_mult. rewrite (Rabs_pos_eq (R32 r)) by lra.
    pose proof (Rabs_pos (R32 idf)). nra. }
  destruct (fmul_correct r idf Fr Fidf) as [Rres Fres].
  { eapply Rle_lt_trans. exact Hres. apply (abs_B2R_lt_emax 24 128). }
  rewrite Rres. split; assumption.
Qed.

(* integers below 2^24 in magnitude are binary32 numbers: f32_of_Z is exact on them *)
Lemma gf32_IZR z : (Z.abs z < 16777216)%Z -> generic_format radix2 fexp32 (IZR z).
Proof.
  intros H. apply generic_format_FLT. apply (FLT_spec _ _ _ _ (Float radix2 z 0)).
  unfold F2R; simpl; ring. exact H. simpl; lia.
Qed.

Lemma f32_of_Z_exact z :
  (Z.abs z < 16777216)%Z -> R32 (f32_of_Z z) = IZR z /\ fin32 (f32_of_Z z) = true.
Proof.
  intros H.
  assert (E : rnd32 (IZR z) = IZR z).
  { apply round_generic. auto with typeclass_instances. apply gf32_IZR, H. }
  rewrite <- E at 1. apply f32_of_Z_correct. rewrite E.
  rewrite <- abs_IZR. apply Rlt_trans with (IZR 16777216). apply IZR_lt, H.
  change (IZR 16777216) with (bpow radix2 24). apply bpow_lt. lia.
Qed.

(* A.3, as asked: tf = f32_of_Z n with 1 <= n <= 2^18, dl = f32_of_Z m with 0 <= m <= 2^18,
   avg finite >= 2^-10, idf finite (any sign / magnitude), k1 finite in [0, 2^7], b finite in [0,1],
   one_minus_b computed by the kernel itself *)
Theorem bm25_one_finite n m avg idf k1 b :
  (1 <= n <= 262144)%Z -> (0 <= m <= 262144)%Z ->
  fin32 avg = true -> (bpow radix2 (-10) <= R32 avg)%R ->
  fin32 idf = true ->
  fin32 k1 = true -> (0 <= R32 k1 <= bpow radix2 7)%R ->
  fin32 b = true -> (0 <= R32 b <= 1)%R ->
  fin32 (bm25_one (f32_of_Z n) (f32_of_Z m) avg idf k1 b (one_minus b)) = true.
Proof.
  intros Hn Hm Favg Havg Fidf Fk1 Hk1 Fb Hb.
  rewrite bpow_m10 in Havg. rewrite bpow_7 in Hk1.
  destruct (f32_of_Z_exact n) as [Rn Fn]. lia.
  destruct (f32_of_Z_exact m) as [Rm Fm]. lia.
  destruct (one_minus_bounds b Fb Hb) as [Fo Ho].
  apply bm25_one_finite_core; try assumption.
  - rewrite Rn. split. apply (IZR_le 1); lia. apply (IZR_le n 262144); lia.
  - rewrite Rm. split. apply (IZR_le 0); lia. apply (IZR_le m 262144); lia.
Qed.

(* ... and the magnitude of that score never exceeds |idf| (in particular 0 <= score <= idf needs no
   further case analysis on the parameters) *)
Theorem bm25_one_abs_le_idf n m avg idf k1 b :
  (1 <= n <= 262144)%Z -> (0 <= m <= 262144)%Z ->
  fin32 avg = true -> (bpow radix2 (-10) <= R32 avg)%R ->
  fin32 idf = true ->
  fin32 k1 = true -> (0 <= R32 k1 <= bpow radix2 7)%R ->
  fin32 b = true -> (0 <= R32 b <= 1)%R ->
  (Rabs (R32 (bm25_one (f32_of_Z n) (f32_of_Z m) avg idf k1 b (one_minus b))) <= Rabs (R32 idf))%R.
Proof.
  intros Hn Hm Favg Havg Fidf Fk1 Hk1 Fb Hb.
  rewrite bpow_m10 in Havg. rewrite bpow_7 in Hk1.
  destruct (f32_of_Z_exact n) as [Rn Fn]. lia.
  destruct (f32_of_Z_exact m) as [Rm Fm]. lia.
  destruct (one_minus_bounds b Fb Hb) as [Fo Ho].
  apply bm25_one_finite_core; try assumption.
  - rewrite Rn. split. apply (IZR_le 1); lia. apply (IZR_le n 262144); lia.
  - rewrite Rm. split. apply (IZR_le 0); lia. apply (IZR_le m 262144); lia.
Qed.

(* whole-vector form: integer tfs in [0,2^18] (zeros allowed: they stay +0), integer doc lengths in [0,2^18] *)
Theorem bm25_kernel_all_finite tfs dls avg idf k1 b :
  Forall (fun n => 0 <= n <= 262144)%Z tfs -> Forall (fun m => 0 <= m <= 262144)%Z dls ->
  fin32 avg = true -> (bpow radix2 (-10) <= R32 avg)%R ->
  fin32 idf = true ->
  fin32 k1 = true -> (0 <= R32 k1 <= bpow radix2 7)%R ->
  fin32 b = true -> (0 <= R32 b <= 1)%R ->
  Forall (fun x => fin32 x = true) (bm25_kernel (map f32_of_Z tfs) (map f32_of_Z dls) avg idf k1 b).
Proof.
  intros Ht Hd Favg Havg Fidf Fk1 Hk1 Fb Hb. unfold bm25_kernel.
  revert dls Hd. induction Ht as [|n tfs Hn Ht IH]; intros dls Hd. constructor.
  destruct Hd as [|m dls Hm Hd]. constructor.
  simpl. constructor. 2: apply IH, Hd.
  destruct (Z.eq_dec n 0) as [->|Hn0].
  - rewrite bm25_zero_tf; rewrite f32_of_Z_0; reflexivity.
  - apply bm25_one_finite; try assumption. lia.
Qed.

(* ------------------------------------------------------------------------------------------ *)
(** * Non-vacuity: a concrete instance (tf = 3, dl = 12, avg = 7.5, idf ~ 0.98, k1 = 1.2f, b = 0.75f) *)

Definition ex_avg : f32 := b32_of_bits 0x40F00000.  (* 7.5 *)
Definition ex_idf : f32 := b32_of_bits 0x3F7AE148.  (* 0.98000002 *)
Definition ex_k1  : f32 := b32_of_bits 0x3F99999A.  (* 1.2f *)
Definition ex_b   : f32 := b32_of_bits 0x3F400000.  (* 0.75f *)

(* real value of a concrete binary32 through its computed (sign, mantissa, exponent) triple *)
Lemma R32_of_SF x s m e :
  Binary.B2SF 24 128 x = SpecFloat.S754_finite s m e ->
  R32 x = F2R (Float radix2 (cond_Zopp s (Zpos m)) e) /\ fin32 x = true.
Proof. destruct x; try discriminate. intros [= -> -> ->]. split; reflexivity. Qed.

Lemma ex_avg_val : R32 ex_avg = (15 / 2)%R /\ fin32 ex_avg = true.
Proof.
  destruct (R32_of_SF ex_avg false 15728640 (-21)) as [-> F]. vm_compute; reflexivity.
  split; [|exact F]. unfold F2R; simpl. lra.
Qed.
Lemma ex_idf_val : R32 ex_idf = (16441672 / 16777216)%R /\ fin32 ex_idf = true.
Proof.
  destruct (R32_of_SF ex_idf false 16441672 (-24)) as [-> F]. vm_compute; reflexivity.
  split; [|exact F]. unfold F2R; simpl. lra.
Qed.
Lemma ex_k1_val : R32 ex_k1 = (10066330 / 8388608)%R /\ fin32 ex_k1 = true.
Proof.
  destruct (R32_of_SF ex_k1 false 10066330 (-23)) as [-> F]. vm_compute; reflexivity.
  split; [|exact F]. unfold F2R; simpl. lra.
Qed.
Lemma ex_b_val : R32 ex_b = (3 / 4)%R /\ fin32 ex_b = true.
Proof.
  destruct (R32_of_SF ex_b false 12582912 (-24)) as [-> F]. vm_compute; reflexivity.
  split; [|exact F]. unfold F2R; simpl. lra.
Qed.

(* the hypotheses of [bm25_one_finite] hold for this instance ... *)
Example bm25_one_finite_example_hyps :
  (1 <= 3 <= 262144)%Z /\ (0 <= 12 <= 262144)%Z /\
  fin32 ex_avg = true /\ (bpow radix2 (-10) <= R32 ex_avg)%R /\
  fin32 ex_idf = true /\
  fin32 ex_k1 = true /\ (0 <= R32 ex_k1 <= bpow radix2 7)%R /\
  fin32 ex_b = true /\ (0 <= R32 ex_b <= 1)%R.
Proof.
  destruct ex_avg_val as [-> ?], ex_idf_val as [_ ?], ex_k1_val as [-> ?], ex_b_val as [-> ?].
  rewrite bpow_m10, bpow_7. repeat split; try assumption; try lia; lra.
Qed.

(* ... so the theorem applies (this is an instance of the theorem, not a computation) ... *)
Example bm25_one_finite_example :
  fin32 (bm25_one (f32_of_Z 3) (f32_of_Z 12) ex_avg ex_idf ex_k1 ex_b (one_minus ex_b)) = true.
Proof.
  destruct bm25_one_finite_example_hyps as (H1 & H2 & H3 & H4 & H5 & H6 & H7 & H8 & H9).
  apply bm25_one_finite; assumption.
Qed.

(* ... and agrees with direct evaluation of the model: bits 0x3F1EC8E9 = 0.62025315 (numpy float32 gives the same), finite, below idf *)
Example bm25_one_example_bits :
  bits_of_b32 (bm25_one (f32_of_Z 3) (f32_of_Z 12) ex_avg ex_idf ex_k1 ex_b (one_minus ex_b)) = 0x3F1EC8E9.
Proof. vm_compute. reflexivity. Qed.
Example bm25_one_example_finite_by_computation :
  fin32 (bm25_one (f32_of_Z 3) (f32_of_Z 12) ex_avg ex_idf ex_k1 ex_b (one_minus ex_b)) = true.
Proof. vm_compute. reflexivity. Qed.
Example one_minus_example_bits : bits_of_b32 (one_minus ex_b) = 0x3E800000. (* 0.25 *)
Proof. vm_compute. reflexivity. Qed.

(* ------------------------------------------------------------------------------------------ *)
(** * C.  accuracy of the kernel w.r.t. the real-number formula [bm25_R]                      *)

Section Accuracy.
Local Open Scope R_scope.

(* [near k x y]: x is y up to k accumulated relative roundings, (1-u)^k y <= x <= (1+u)^k y  (y >= 0) *)

Definition u32 : R := / 16777216.   (* 2^-24, the binary32 unit roundoff *)
Definition near (k : nat) (x y : R) : Prop := (1 - u32) ^ k * y <= x <= (1 + u32) ^ k * y.

Lemma u_pos : 0 < u32 < / 1000000. Proof. unfold u32. lra. Qed.
Lemma lo_pos k : 0 < (1 - u32) ^ k. Proof. apply pow_lt. pose proof u_pos. lra. Qed.
Lemma hi_pos k : 0 < (1 + u32) ^ k. Proof. apply pow_lt. pose proof u_pos. lra. Qed.
Lemma lo_le_1 k : (1 - u32) ^ k <= 1.
Proof. pose proof u_pos. pose proof (pow_incr (1 - u32) 1 k) as H1. rewrite pow1 in H1. apply H1. lra. Qed.
Lemma hi_ge_1 k : 1 <= (1 + u32) ^ k.
Proof. apply pow_R1_Rle. pose proof u_pos. lra. Qed.

Lemma near_refl y : near 0 y y.
Proof. unfold near. simpl. lra. Qed.

Lemma near_nonneg k x y : 0 <= y -> near k x y -> 0 <= x.
Proof. intros Hy [H _]. pose proof (lo_pos k). nra. Qed.

Lemma near_S k x y : 0 <= y -> near k x y -> near (S k) x y.
Proof.
  intros Hy [H1 H2]. unfold near. simpl.
  pose proof (lo_pos k) as P. pose proof (hi_pos k) as Q. pose proof u_pos as U.
  set (p := (1 - u32) ^ k) in *. set (q := (1 + u32) ^ k) in *.
  assert (0 <= p * y) by nra. assert (0 <= q * y) by nra.
  assert (0 <= u32 * (p * y)) by nra. assert (0 <= u32 * (q * y)) by nra.
  split; lra.
Qed.

Lemma near_le k k' x y : (k <= k')%nat -> 0 <= y -> near k x y -> near k' x y.
Proof. intros Hk Hy H. induction Hk. exact H. apply near_S; assumption. Qed.

Lemma near_eps k x y e : 0 <= y -> Rabs e <= u32 -> near k x y -> near (S k) (x * (1 + e)) y.
Proof.
  intros Hy He [H1 H2]. unfold near. simpl.
  pose proof (lo_pos k). pose proof (hi_pos k). pose proof u_pos.
  apply Rabs_le_inv in He.
  assert (0 <= x) by nra.
  split.
  - apply Rle_trans with (x * (1 - u32)). nra. nra.
  - apply Rle_trans with (x * (1 + u32)). nra. nra.
Qed.

Lemma near_add k x1 y1 x2 y2 : near k x1 y1 -> near k x2 y2 -> near k (x1 + x2) (y1 + y2).
Proof. intros [A1 A2] [B1 B2]. unfold near. split; lra. Qed.

Lemma near_scale k c x y : 0 <= c -> near k x y -> near k (c * x) (c * y).
Proof. intros Hc [A1 A2]. unfold near. split; nra. Qed.

Lemma lohi2_le_1 k : (1 - u32) ^ (2 * k) * (1 + u32) ^ k <= 1.
Proof.
  rewrite pow_mult, <- Rpow_mult_distr.
  pose proof u_pos. pose proof (pow_incr ((1 - u32) ^ 2 * (1 + u32)) 1 k) as H1. rewrite pow1 in H1. apply H1. nra.
Qed.
Lemma lohi2_ge_1 k : 1 <= (1 - u32) ^ k * (1 + u32) ^ (2 * k).
Proof.
  rewrite pow_mult, <- Rpow_mult_distr. apply pow_R1_Rle.
  pose proof u_pos. nra.
Qed.

Lemma near_inv k x y : 0 < y -> near k x y -> near (2 * k) (/ x) (/ y).
Proof.
  intros Hy [H1 H2]. unfold near.
  pose proof (lo_pos k) as P. pose proof (hi_pos k) as Q.
  pose proof (lo_pos (2 * k)) as P2. pose proof (hi_pos (2 * k)) as Q2.
  pose proof (lohi2_le_1 k) as L. pose proof (lohi2_ge_1 k) as G.
  set (p := (1 - u32) ^ k) in *. set (q := (1 + u32) ^ k) in *.
  set (p2 := (1 - u32) ^ (2 * k)) in *. set (q2 := (1 + u32) ^ (2 * k)) in *.
  assert (Hx : 0 < x) by nra.
  assert (Hiy : 0 < / y) by (apply Rinv_0_lt_compat; assumption).
  assert (Hix : 0 < / x) by (apply Rinv_0_lt_compat; assumption).
  assert (Ey : y * / y = 1) by (apply Rinv_r; lra).
  assert (Ex : x * / x = 1) by (apply Rinv_r; lra).
  split.
  - (* p2 / y <= 1 / x   <=   p2 * x <= y   <=   p2 * q * y <= y *)
    apply Rmult_le_reg_r with (x * y). nra.
    replace (p2 * / y * (x * y)) with (p2 * x * (y * / y)) by ring.
    replace (/ x * (x * y)) with (y * (x * / x)) by ring.
    rewrite Ex, Ey. nra.
  - apply Rmult_le_reg_r with (x * y). nra.
    replace (q2 * / y * (x * y)) with (q2 * x * (y * / y)) by ring.
    replace (/ x * (x * y)) with (y * (x * / x)) by ring.
    rewrite Ex, Ey. nra.
Qed.

Lemma near12_rel x y : 0 <= y -> near 12 x y -> Rabs (x - y) <= / 1048576 * y.
Proof.
  intros Hy [H1 H2].
  assert (L : 1 - / 1048576 <= (1 - u32) ^ 12) by (unfold u32; lra).
  assert (G : (1 + u32) ^ 12 <= 1 + / 1048576) by (unfold u32; lra).
  apply Rabs_le. split; nra.
Qed.

(* one rounding = one more (1+e) factor; exact zeros and the normal range are covered
   (the subnormal range, where only an absolute bound holds, is excluded by the box below) *)
Lemma rnd32_rel x :
  x = 0 \/ bpow radix2 (-126) <= Rabs x -> exists e, Rabs e <= u32 /\ rnd32 x = x * (1 + e).
Proof.
  intros [->|H].
  - exists 0. split. rewrite Rabs_R0. unfold u32; lra.
    rewrite round_0 by auto with typeclass_instances. ring.
  - destruct (relative_error_N_FLT_ex radix2 (-149) 24 prec24_gt_0 (fun x => negb (Z.even x)) x H) as [e [He1 He2]].
    exists e. split; [|exact He2].
    replace u32 with (/ 2 * bpow radix2 (-24 + 1)). exact He1.
    unfold u32. change (bpow radix2 (-24 + 1)) with (/ 8388608). lra.
Qed.

Lemma rnd64_rel x :
  bpow radix2 (-1022) <= Rabs x -> exists e, Rabs e <= u32 /\ rnd64 x = x * (1 + e).
Proof.
  intros H.
  destruct (relative_error_N_FLT_ex radix2 (-1074) 53 prec53_gt_0 (fun x => negb (Z.even x)) x H) as [e [He1 He2]].
  exists e. split; [|exact He2].
  eapply Rle_trans. exact He1.
  change (bpow radix2 (- (53) + 1)) with (/ 4503599627370496). unfold u32. lra.
Qed.

Lemma near_rnd32 k x y :
  0 <= y -> (x = 0 \/ bpow radix2 (-126) <= x) -> near k x y -> near (S k) (rnd32 x) y.
Proof.
  intros Hy Hx Hn. pose proof (near_nonneg k x y Hy Hn) as Hx0.
  destruct (rnd32_rel x) as [e [He ->]].
  { destruct Hx as [?|?]; [left|right]; try assumption. rewrite Rabs_pos_eq; assumption. }
  apply near_eps; assumption.
Qed.

Lemma near_rnd64 k x y :
  0 <= y -> bpow radix2 (-1022) <= x -> near k x y -> near (S k) (rnd64 x) y.
Proof.
  intros Hy Hx Hn. pose proof (near_nonneg k x y Hy Hn) as Hx0.
  destruct (rnd64_rel x) as [e [He ->]].
  { rewrite Rabs_pos_eq; assumption. }
  apply near_eps; assumption.
Qed.

(* range bookkeeping for one correctly rounded operation *)
Lemma bpow128_gt_65536 : 65536 < bpow radix2 128.
Proof. change 65536 with (bpow radix2 16). apply bpow_lt. lia. Qed.

Lemma op_box32 exact lo hi :
  generic_format radix2 fexp32 lo -> generic_format radix2 fexp32 hi ->
  0 <= lo -> hi <= 65536 -> lo <= exact <= hi ->
  Rabs (rnd32 exact) < bpow radix2 128 /\ lo <= rnd32 exact <= hi.
Proof.
  intros Gl Gh Hl Hh Hx. pose proof bpow128_gt_65536.
  assert (lo <= rnd32 exact <= hi) by (apply rnd32_bounds; assumption).
  split; [|assumption]. apply Rabs_def1; lra.
Qed.

Ltac gf_pow2 k := change (generic_format radix2 fexp32 (bpow radix2 k)); apply gf32_bpow; lia.

Lemma small_ge_bpow_m126 x : / 67108864 <= x -> bpow radix2 (-126) <= x.
Proof.
  intros H. eapply Rle_trans; [|exact H].
  change (/ 67108864) with (bpow radix2 (-26)). apply bpow_le. lia.
Qed.

(* a binary32 number is a binary64 number: (double)x is exact *)
Lemma gf64_of_gf32 x : generic_format radix2 fexp32 x -> generic_format radix2 fexp64 x.
Proof.
  apply generic_inclusion_mag. intros _. unfold FLT_exp. lia.
Qed.

Lemma f64_of_f32_exact x : fin32 x = true -> R64 (f64_of_f32 x) = R32 x /\ fin64 (f64_of_f32 x) = true.
Proof.
  intros Fx.
  assert (E : rnd64 (R32 x) = R32 x).
  { apply round_generic. auto with typeclass_instances. apply gf64_of_gf32, gf32_B2R. }
  rewrite <- E at 1. apply f64_of_f32_correct. exact Fx. rewrite E.
  eapply Rlt_trans. apply (abs_B2R_lt_emax 24 128). apply bpow_lt. lia.
Qed.

(* one_minus b = (1 - b)(1+d)(1+e): the double subtraction and the narrowing each round once *)
Lemma one_minus_near b :
  fin32 b = true -> / 16 <= R32 b <= 15 / 16 ->
  fin32 (one_minus b) = true /\ / 16 <= R32 (one_minus b) <= 1 /\
  near 2 (R32 (one_minus b)) (1 - R32 b).
Proof.
  intros Fb Hb. unfold one_minus.
  pose proof bpow128_big as B128. pose proof bpow1024_big as B1024.
  destruct (f64_of_f32_exact b Fb) as [Rd Fd].
  assert (H1 : rnd64 (IZR 1) = 1).
  { apply round_generic. auto with typeclass_instances. apply gf64_1. }
  destruct (f64_of_Z_correct 1) as [R1 F1].
  { rewrite H1. rewrite Rabs_R1. lra. }
  rewrite H1 in R1.
  assert (G64 : generic_format radix2 fexp64 (/ 16)).
  { change (/ 16) with (bpow radix2 (-4)). apply gf64_bpow. lia. }
  assert (G32 : generic_format radix2 fexp32 (/ 16)) by gf_pow2 (-4)%Z.
  (* 1.0 - (double)b *)
  assert (Hm : / 16 <= rnd64 (1 - R32 b) <= 1).
  { split. apply rnd64_ge. exact G64. lra. apply rnd64_le. apply gf64_1. lra. }
  destruct (f64_minus_correct _ _ F1 Fd) as [Rm Fm].
  { rewrite R1, Rd. apply Rabs_def1; lra. }
  rewrite R1, Rd in Rm.
  (* (float) *)
  assert (Hf : / 16 <= rnd32 (rnd64 (1 - R32 b)) <= 1).
  { split. apply rnd32_ge. exact G32. lra. apply rnd32_le. apply gf32_1. lra. }
  destruct (f32_of_f64_correct _ Fm) as [Rf Ff].
  { rewrite Rm. apply Rabs_def1; lra. }
  rewrite Rm in Rf. rewrite Rf.
  split. exact Ff. split. exact Hf.
  apply near_rnd32. lra.
  { right. apply small_ge_bpow_m126. lra. }
  apply near_rnd64. lra.
  { apply Rle_trans with (/ 16); [|lra]. change (/ 16) with (bpow radix2 (-4)). apply bpow_le. lia. }
  apply near_refl.
Qed.

Lemma near_scale_r k c x y : 0 <= c -> near k x y -> near k (x * c) (y * c).
Proof. intros Hc H. rewrite (Rmult_comm x), (Rmult_comm y). apply near_scale; assumption. Qed.

Lemma zero_or_normal x c :
  x = 0 \/ c <= x -> / 67108864 <= c -> x = 0 \/ bpow radix2 (-126) <= x.
Proof. intros [H|H] Hc; [left; exact H|right]. apply small_ge_bpow_m126. lra. Qed.

Lemma Rmult_box a b la ha lb hb :
  0 <= la -> la <= a <= ha -> 0 <= lb -> lb <= b <= hb -> la * lb <= a * b <= ha * hb.
Proof.
  intros Hla [Ha1 Ha2] Hlb [Hb1 Hb2]. split.
  - apply Rmult_le_compat; assumption.
  - apply Rmult_le_compat; lra.
Qed.

(* Accuracy on the explicit box
     tf  in [1, 2^10]      dl in {0} U [1, 2^12]     avg in [1, 2^12]
     idf in [2^-10, 2^5]   k1 in [2^-4, 4]           b   in [2^-4, 1 - 2^-4]      (all finite binary32)
   the kernel's result is finite and within relative error 2^-20 of bm25_R on the inputs' real values
   (12 accumulated roundings at unit roundoff 2^-24). *)
Theorem bm25_accuracy_partial tf dl avg idf k1 b :
  fin32 tf = true -> 1 <= R32 tf <= 1024 ->
  fin32 dl = true -> (R32 dl = 0 \/ 1 <= R32 dl <= 4096) ->
  fin32 avg = true -> 1 <= R32 avg <= 4096 ->
  fin32 idf = true -> / 1024 <= R32 idf <= 32 ->
  fin32 k1 = true -> / 16 <= R32 k1 <= 4 ->
  fin32 b = true -> / 16 <= R32 b <= 15 / 16 ->
  let exact := bm25_R (R32 idf) (R32 tf) (R32 dl) (R32 avg) (R32 k1) (R32 b) in
  let res := bm25_one tf dl avg idf k1 b (one_minus b) in
  fin32 res = true /\ 0 < exact /\ near 12 (R32 res) exact /\
  Rabs (R32 res - exact) <= bpow radix2 (-20) * Rabs exact.
Proof.
  intros Ftf Htf Fdl Hdl Favg Havg Fidf Hidf Fk1 Hk1 Fb Hb exact res.
  destruct (one_minus_near b Fb Hb) as (Fo & Ho & No).
  unfold res, bm25_one. rewrite nonzero_not_is_zero32 by lra.
  set (omb := one_minus b) in *.
  set (T := R32 tf) in *. set (L := R32 dl) in *. set (A := R32 avg) in *.
  set (I := R32 idf) in *. set (K := R32 k1) in *. set (B := R32 b) in *.
  set (Q0 := L / A). set (S0 := 1 - B + B * Q0). set (D0 := T + K * S0).
  (* exact quantities *)
  assert (HiA : / 4096 <= / A <= 1).
  { split. apply Rinv_le_contravar; lra.
    replace 1 with (/ 1) by lra. apply Rinv_le_contravar; lra. }
  assert (HQ0 : 0 <= Q0 <= 4096 /\ (Q0 = 0 \/ / 4096 <= Q0)).
  { unfold Q0, Rdiv. destruct Hdl as [E|Hdl].
    - rewrite E, Rmult_0_l. split. lra. left; reflexivity.
    - pose proof (Rmult_box L (/ A) 1 4096 (/ 4096) 1) as M1. split. lra. right. lra. }
  destruct HQ0 as [BQ0 ZQ0].
  assert (HBQ0 : 0 <= B * Q0) by (apply Rmult_le_pos; lra).
  assert (HS0 : / 16 <= S0) by (unfold S0; lra).
  assert (HKS0 : 0 <= K * S0) by (apply Rmult_le_pos; lra).
  assert (HD0 : 1 <= D0) by (unfold D0; lra).
  (* q = dl / avg *)
  destruct (op_box32 Q0 0 4096) as [Oq Bq];
    [apply gf32_0 | gf_pow2 12%Z | lra | lra | exact BQ0 |].
  destruct (fdiv_correct dl avg Fdl) as [Rq Fq]; [fold A; lra | exact Oq |].
  fold L A Q0 in Rq. rewrite <- Rq in Bq.
  assert (Zq : R32 (fdiv dl avg) = 0 \/ / 4096 <= R32 (fdiv dl avg)).
  { rewrite Rq. destruct ZQ0 as [E|H]; [left|right].
    rewrite E. apply round_0; auto with typeclass_instances.
    apply rnd32_ge. gf_pow2 (-12)%Z. exact H. }
  assert (Nq : near 1 (R32 (fdiv dl avg)) Q0).
  { rewrite Rq. apply near_rnd32. lra. apply (zero_or_normal _ _ ZQ0); lra. apply near_refl. }
  set (q := fdiv dl avg) in *.
  (* p = b * q *)
  assert (HP : 0 <= B * R32 q <= 4096 /\ (B * R32 q = 0 \/ / 65536 <= B * R32 q)).
  { pose proof (Rmult_box B (R32 q) (/ 16) (15 / 16) 0 4096) as M1.
    split. lra. destruct Zq as [E|H]; [left|right]. rewrite E; ring.
    pose proof (Rmult_box B (R32 q) (/ 16) (15 / 16) (/ 4096) 4096) as M2. lra. }
  destruct HP as [BP ZP].
  destruct (op_box32 (B * R32 q) 0 4096) as [Op Bp];
    [apply gf32_0 | gf_pow2 12%Z | lra | lra | exact BP |].
  destruct (fmul_correct b q Fb Fq) as [Rp Fp]; [exact Op|].
  fold B in Rp. rewrite <- Rp in Bp.
  assert (Np : near 2 (R32 (fmul b q)) (B * Q0)).
  { rewrite Rp. apply near_rnd32. exact HBQ0. apply (zero_or_normal _ _ ZP); lra.
    apply near_scale. lra. exact Nq. }
  set (p := fmul b q) in *.
  (* s = omb + p *)
  destruct (op_box32 (R32 omb + R32 p) (/ 16) 8192) as [Os Bs];
    [gf_pow2 (-4)%Z | gf_pow2 13%Z | lra | lra | lra |].
  destruct (fadd_correct omb p Fo Fp) as [Rs Fs]; [exact Os|].
  rewrite <- Rs in Bs.
  assert (Ns : near 3 (R32 (fadd omb p)) S0).
  { rewrite Rs. apply near_rnd32. lra. right; apply small_ge_bpow_m126; lra.
    unfold S0. apply near_add. exact No. exact Np. }
  set (s := fadd omb p) in *.
  (* t = k1 * s *)
  assert (HKs : / 256 <= K * R32 s <= 32768).
  { pose proof (Rmult_box K (R32 s) (/ 16) 4 (/ 16) 8192). lra. }
  destruct (op_box32 (K * R32 s) (/ 256) 32768) as [Ot Bt];
    [gf_pow2 (-8)%Z | gf_pow2 15%Z | lra | lra | exact HKs |].
  destruct (fmul_correct k1 s Fk1 Fs) as [Rt Ft]; [exact Ot|].
  fold K in Rt. rewrite <- Rt in Bt.
  assert (Nt : near 4 (R32 (fmul k1 s)) (K * S0)).
  { rewrite Rt. apply near_rnd32. exact HKS0. right; apply small_ge_bpow_m126; lra.
    apply near_scale. lra. exact Ns. }
  set (t := fmul k1 s) in *.
  (* den = tf + t *)
  destruct (op_box32 (T + R32 t) 1 65536) as [Od Bd];
    [apply gf32_1 | gf_pow2 16%Z | lra | lra | lra |].
  destruct (fadd_correct tf t Ftf Ft) as [Rd Fd]; [exact Od|].
  fold T in Rd. rewrite <- Rd in Bd.
  assert (Nd : near 5 (R32 (fadd tf t)) D0).
  { rewrite Rd. apply near_rnd32. lra. right; apply small_ge_bpow_m126; lra.
    unfold D0. apply near_add. apply (near_le 0 4). lia. lra. apply near_refl. exact Nt. }
  set (den := fadd tf t) in *.
  (* r = tf / den *)
  assert (Hid : / 65536 <= / R32 den <= 1).
  { split. apply Rinv_le_contravar; lra.
    replace 1 with (/ 1) by lra. apply Rinv_le_contravar; lra. }
  assert (HTd : / 65536 <= T / R32 den <= 1024).
  { unfold Rdiv. pose proof (Rmult_box T (/ R32 den) 1 1024 (/ 65536) 1). lra. }
  destruct (op_box32 (T / R32 den) (/ 65536) 1024) as [Or Br];
    [gf_pow2 (-16)%Z | gf_pow2 10%Z | lra | lra | exact HTd |].
  destruct (fdiv_correct tf den Ftf) as [Rr Fr]; [lra | exact Or |].
  fold T in Rr. rewrite <- Rr in Br.
  assert (HiD : 0 < / D0) by (apply Rinv_0_lt_compat; lra).
  assert (HTD : 0 < T * / D0) by (apply Rmult_lt_0_compat; lra).
  assert (Nr : near 11 (R32 (fdiv tf den)) (T * / D0)).
  { rewrite Rr. apply near_rnd32. lra.
    right; apply small_ge_bpow_m126; lra.
    unfold Rdiv. apply near_scale. lra. apply (near_inv 5). lra. exact Nd. }
  set (r := fdiv tf den) in *.
  (* res = r * idf *)
  assert (HrI : / 67108864 <= R32 r * I <= 32768).
  { pose proof (Rmult_box (R32 r) I (/ 65536) 1024 (/ 1024) 32). lra. }
  destruct (op_box32 (R32 r * I) (/ 67108864) 32768) as [Ores Bres];
    [gf_pow2 (-26)%Z | gf_pow2 15%Z | lra | lra | exact HrI |].
  destruct (fmul_correct r idf Fr Fidf) as [Rres Fres]; [exact Ores|].
  fold I in Rres.
  assert (HTDI : 0 < T * / D0 * I) by (apply Rmult_lt_0_compat; lra).
  assert (Nres : near 12 (R32 (fmul r idf)) (T * / D0 * I)).
  { rewrite Rres. apply near_rnd32. lra.
    right; apply small_ge_bpow_m126; lra.
    apply near_scale_r. lra. exact Nr. }
  assert (Eex : exact = T * / D0 * I).
  { unfold exact, bm25_R, D0, S0, Q0, Rdiv. fold I T L A K B.
    replace (B * L * / A) with (B * (L * / A)) by ring. ring. }
  assert (Pex : 0 < exact) by (rewrite Eex; exact HTDI).
  rewrite <- Eex in Nres.
  split. exact Fres. split. exact Pex. split. exact Nres.
  rewrite (Rabs_pos_eq exact) by lra.
  change (bpow radix2 (-20)) with (/ 1048576).
  apply near12_rel. lra. exact Nres.
Qed.

(* the weaker 2^-17 bound asked for in the plan *)
Corollary bm25_accuracy_2pm17 tf dl avg idf k1 b :
  fin32 tf = true -> 1 <= R32 tf <= 1024 ->
  fin32 dl = true -> (R32 dl = 0 \/ 1 <= R32 dl <= 4096) ->
  fin32 avg = true -> 1 <= R32 avg <= 4096 ->
  fin32 idf = true -> / 1024 <= R32 idf <= 32 ->
  fin32 k1 = true -> / 16 <= R32 k1 <= 4 ->
  fin32 b = true -> / 16 <= R32 b <= 15 / 16 ->
  let exact := bm25_R (R32 idf) (R32 tf) (R32 dl) (R32 avg) (R32 k1) (R32 b) in
  Rabs (R32 (bm25_one tf dl avg idf k1 b (one_minus b)) - exact) <= bpow radix2 (-17) * Rabs exact.
Proof.
  intros Ftf Htf Fdl Hdl Favg Havg Fidf Hidf Fk1 Hk1 Fb Hb exact.
  destruct (bm25_accuracy_partial tf dl avg idf k1 b) as (_ & _ & _ & H); try assumption.
  eapply Rle_trans. exact H. apply Rmult_le_compat_r. apply Rabs_pos.
  apply bpow_le. lia.
Qed.

End Accuracy.

(* non-vacuity of the accuracy box: the instance used above lies inside it, and the theorem then bounds
   the distance between the computed 0x3F1EC8E9 and the real-number BM25 of the same (rounded) inputs *)
Example bm25_accuracy_example :
  let res := bm25_one (f32_of_Z 3) (f32_of_Z 12) ex_avg ex_idf ex_k1 ex_b (one_minus ex_b) in
  let exact := bm25_R (16441672 / 16777216) 3 12 (15 / 2) (10066330 / 8388608) (3 / 4) in
  (Rabs (B2R 24 128 res - exact) <= bpow radix2 (-20) * Rabs exact)%R.
Proof.
  destruct ex_avg_val as [Ea Fa], ex_idf_val as [Ei Fi], ex_k1_val as [Ek Fk], ex_b_val as [Eb Fb].
  destruct (f32_of_Z_exact 3) as [E3 F3]. reflexivity.
  destruct (f32_of_Z_exact 12) as [E12 F12]. reflexivity.
  pose proof (bm25_accuracy_partial (f32_of_Z 3) (f32_of_Z 12) ex_avg ex_idf ex_k1 ex_b) as H.
  cbv zeta in H. rewrite Ea, Ei, Ek, Eb, E3, E12 in H.
  cbv zeta. apply H; try assumption; lra.
Qed.

(* ------------------------------------------------------------------------------------------ *)
Print Assumptions bm25_zero_tf.
Print Assumptions bm25_kernel_zero_tf.
Print Assumptions bm25_similarity_avg_zero.
Print Assumptions score_zero_pattern.
Print Assumptions kernel_zero_pattern.
Print Assumptions bm25_one_finite_core.
Print Assumptions bm25_one_finite.
Print Assumptions bm25_one_abs_le_idf.
Print Assumptions bm25_kernel_all_finite.
Print Assumptions bm25_one_finite_example.
Print Assumptions bm25_one_example_bits.
Print Assumptions bm25_accuracy_partial.
Print Assumptions bm25_accuracy_2pm17.
Print Assumptions bm25_accuracy_example.
