(* Model of searcharray/bm25/bm25.pyx (_bm25_score, lines 11-25; wrapper 28-41) and of
   similarity.py:bm25_similarity (24-38) in IEEE-754 binary32 (Flocq), bit for bit:
     cdef float one_minus_b = 1 - b            -- generated C: (float)(1.0 - (double)b)
     tf[0] = (tf[0] / (tf[0] + (k1 * (one_minus_b + (b * (doc_lens[0] / avg_doc_lens)))))) * idf
   all in C float arithmetic (round to nearest even, no FMA contraction on baseline x86-64).
   The Python-float arguments (avg, idf, k1, b) are binary64 values converted to C float.
   idf itself (numpy log) is an INPUT.  No proofs here. *)
From Coq Require Import ZArith List Bool.
From Flocq Require Import IEEE754.BinarySingleNaN IEEE754.Binary IEEE754.Bits.
Import ListNotations.
Open Scope Z_scope.

Definition f32 := binary32.
Definition f64 := binary64.
Definition fmul := b32_mult mode_NE.
Definition fadd := b32_plus mode_NE.
Definition fdiv := b32_div mode_NE.

(* (float) of a double / (double) of a float: correctly rounded value conversion *)
Definition f32_of_f64 (x : f64) : f32 :=
  match x with
  | B754_zero _ _ s => B754_zero 24 128 s
  | B754_infinity _ _ s => B754_infinity 24 128 s
  | B754_nan _ _ _ _ _ => B754_nan 24 128 false 1%positive (eq_refl _)
  | B754_finite _ _ s m e _ =>
      binary_normalize 24 128 (eq_refl _) (eq_refl _) mode_NE (if s then Z.neg m else Z.pos m) e s
  end.
Definition f64_of_f32 (x : f32) : f64 :=
  match x with
  | B754_zero _ _ s => B754_zero 53 1024 s
  | B754_infinity _ _ s => B754_infinity 53 1024 s
  | B754_nan _ _ _ _ _ => B754_nan 53 1024 false 1%positive (eq_refl _)
  | B754_finite _ _ s m e _ =>
      binary_normalize 53 1024 (eq_refl _) (eq_refl _) mode_NE (if s then Z.neg m else Z.pos m) e s
  end.
Definition f32_of_Z (z : Z) : f32 := binary_normalize 24 128 (eq_refl _) (eq_refl _) mode_NE z 0 false.
Definition f64_of_Z (z : Z) : f64 := binary_normalize 53 1024 (eq_refl _) (eq_refl _) mode_NE z 0 false.

(* one_minus_b = (float)(1.0 - (double)b) *)
Definition one_minus (b : f32) : f32 := f32_of_f64 (b64_minus mode_NE (f64_of_Z 1) (f64_of_f32 b)).

Definition is_zero32 (x : f32) : bool := match x with B754_zero _ _ _ => true | _ => false end.

(* if term_freqs[0] != 0: term_freqs[0] = (tf / (tf + k1 * (omb + b * (dl / avg)))) * idf
   (the guard is the repair of D13; a NaN tf compares unequal to 0 and takes the computing branch) *)
Definition bm25_one (tf dl avg idf k1 b omb : f32) : f32 :=
  if is_zero32 tf then tf
  else fmul (fdiv tf (fadd tf (fmul k1 (fadd omb (fmul b (fdiv dl avg)))))) idf.

(* bm25_score(term_freqs, doc_lens, avg, idf, k1, b) over whole vectors (doc_lens walked contiguously) *)
Definition bm25_kernel (tfs dls : list f32) (avg idf k1 b : f32) : list f32 :=
  let omb := one_minus b in
  map (fun p => bm25_one (fst p) (snd p) avg idf k1 b omb) (combine tfs dls).

(* bm25_similarity(k1, b)(tfs, dfs, doc_lens, avg, N): avg == 0 -> zeros; idf passed in as a double *)
Definition bm25_similarity (tfs dls : list f32) (avg : f32) (idf k1 b : f64) : list f32 :=
  if is_zero32 avg then map (fun _ => B754_zero 24 128 false) tfs
  else bm25_kernel tfs dls avg (f32_of_f64 idf) (f32_of_f64 k1) (f32_of_f64 b).

(* bit-level interface used by the correspondence check: counts and lengths are small integers,
   avg = float32(total)/float32(n) (what np.mean of a float32 vector yields while total < 2^24) *)
Definition score_bits (tfs dls : list Z) (total n : Z) (idf_bits k1_bits b_bits : Z) : list Z :=
  let avg := fdiv (f32_of_Z total) (f32_of_Z n) in
  map bits_of_b32
      (bm25_similarity (map f32_of_Z tfs) (map f32_of_Z dls) avg
                       (b64_of_bits idf_bits) (b64_of_bits k1_bits) (b64_of_bits b_bits)).
Definition kernel_bits (tf_bits dl_bits : list Z) (avg_bits idf_bits k1_bits b_bits : Z) : list Z :=
  map bits_of_b32 (bm25_kernel (map b32_of_bits tf_bits) (map b32_of_bits dl_bits) (b32_of_bits avg_bits)
                               (b32_of_bits idf_bits) (b32_of_bits k1_bits) (b32_of_bits b_bits)).
