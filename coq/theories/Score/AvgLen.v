(* The average document length that scoring uses.

   Python (searcharray/indexing.py 221-223 and 284-286):
       doc_lens = np.concatenate(doc_lens)          -- float32 vector of token counts, each 0..262143
       avg_doc_length = np.mean(doc_lens)
   np.mean of a float32 vector = (np.add.reduce in a float32 accumulator) / n, the quotient taken in
   binary32 (numpy/_core/_methods.py:_mean: only float16 input is widened; `ret.dtype.type(ret / rcount)`).
   np.add.reduce is NOT a left-to-right loop: for a contiguous vector it is numpy's pairwise summation
   (loops_utils.h.src:@TYPE@_pairwise_sum): fewer than 8 elements are added one by one to an accumulator
   seeded with -0.0; up to 128 elements go through 8 interleaved accumulators r[j] += a[i+j] that are then
   combined as ((r0+r1)+(r2+r3))+((r4+r5)+(r6+r7)) followed by the tail; longer vectors are split in two
   halves (aligned to a multiple of 8) and the two partial results are added.  Whatever the block sizes,
   the computation is a binary tree of binary32 additions whose leaves are the vector's elements in SOME
   order, possibly together with zero-valued accumulator seeds (+0.0 or -0.0).

   The index model (Index.v) keeps the exact integers (doclengths / total_len / corpus_size) and the
   scoring model (BM25.v:score_bits) uses  avg := fdiv (f32_of_Z total) (f32_of_Z n).
   This file justifies that modelling step:

     1. f32_mean_exact_sum   every bracketing (btree) of binary32 additions over ANY permutation of the
                             lengths, with any number of +0.0 / -0.0 seeds, yields f32_of_Z total, bit for
                             bit, as soon as the lengths are non-negative integers and total < 2^24
                             (every partial sum is then an integer below 2^24, hence a binary32 number,
                             hence every addition is exact).  The left-to-right loop and a recursive
                             halving scheme are given as explicit functions and are instances.
     2. avg_model_is_rounded_mean, avg_model_rel_error
                             fdiv (f32_of_Z total) (f32_of_Z n) is finite and is the round-to-nearest-even
                             binary32 value of the real total / n (0 <= total < 2^24, 0 < n < 2^24);
                             relative error <= 2^-24 when total > 0 (total/n > 2^-24: no underflow).
     3. index_avg_is_rounded_mean
                             the same for an index: the avg inside score_bits / score_bm25 is np.mean's
                             value for every summation order and is the correctly rounded mean of
                             doclengths ix ("the average length that scoring uses equals the mean token
                             count", clause C02, up to the one final binary32 rounding that any float32
                             answer must incur).
     4. Examples by vm_compute against numpy 2.2.6.

   NOT covered (outside these theorems):
     - total_len >= 2^24 (16777216 tokens in the corpus).  Then partial sums stop being representable, each
       float32 addition may round, the result depends on numpy's blocking, and np.mean differs from
       fdiv (f32_of_Z total) (f32_of_Z n) at the ulp level (see [beyond_2p24_sequential_differs]: 66 documents
       of 262143 tokens, numpy's mean is 2 ulp above the model's avg).  The model's avg
       is then still the correctly rounded quotient of the two ROUNDED integers, not of np.mean's sum.
     - corpus_size >= 2^24 rows (float32(n) itself rounds).
     - that numpy's reduction really is such a tree is read off its C source, it is not proved here; nor is
       anything claimed about other BLAS/SIMD builds that would use a wider accumulator (they would be
       exact as well, for the same reason).
   No axioms beyond those of the Coq Reals library (inherited through Flocq). *)
From Coq Require Import ZArith NArith List Bool Reals Lra Lia Permutation.
From Flocq Require Import Core.Core Relative IEEE754.BinarySingleNaN IEEE754.Binary IEEE754.Bits.
From SA Require Import Base.Prelude Index.Index Score.BM25 Score.BM25_Proofs Score.Score.
Import ListNotations.
Open Scope Z_scope.

Local Notation fexp32 := (FLT_exp (3 - 128 - 24) 24).
Local Notation rnd32 := (round radix2 fexp32 ZnearestE).
Local Notation R32 := (B2R 24 128).
Local Notation fin32 := (is_finite 24 128).
Local Notation sign32 := (Bsign 24 128).

Local Existing Instance prec24_gt_0.
Local Existing Instance prec24_lt_emax.

(* ------------------------------------------------------------------------------------------ *)
(** * 0  Definitions: summation orders over binary32                                           *)

Definition pzero : f32 := B754_zero 24 128 false.   (* +0.0f *)
Definition nzero : f32 := B754_zero 24 128 true.    (* -0.0f, numpy's accumulator seed *)

Definition zsum (l : list Z) : Z := fold_right Z.add 0 l.

(* an arbitrary bracketing of additions *)
Inductive btree (A : Type) : Type := Leaf (a : A) | Node (l r : btree A).
Arguments Leaf {A} a.
Arguments Node {A} l r.

Fixpoint leaves {A} (t : btree A) : list A :=
  match t with Leaf a => [a] | Node l r => leaves l ++ leaves r end.

Fixpoint tree_sum (t : btree f32) : f32 :=
  match t with Leaf x => x | Node l r => fadd (tree_sum l) (tree_sum r) end.

(* res = init; for x in xs: res += x *)
Definition seq_sum (init : f32) (xs : list f32) : f32 := fold_left fadd xs init.

(* recursive halving down to blocks of fewer than 8 elements, each block summed sequentially from [init]
   (fuel >= log2 (length xs) reaches the blocks; less fuel only means larger sequential blocks) *)
Fixpoint pw_sum (init : f32) (fuel : nat) (xs : list f32) : f32 :=
  match fuel with
  | O => seq_sum init xs
  | S f =>
      if (length xs <? 8)%nat then seq_sum init xs
      else let h := Nat.div2 (length xs) in
           fadd (pw_sum init f (firstn h xs)) (pw_sum init f (skipn h xs))
  end.

(* both are tree sums *)
Definition seq_tree_from (t : btree f32) (xs : list f32) : btree f32 :=
  fold_left (fun t x => Node t (Leaf x)) xs t.
Definition seq_tree (init : f32) (xs : list f32) : btree f32 := seq_tree_from (Leaf init) xs.
Fixpoint pw_tree (init : f32) (fuel : nat) (xs : list f32) : btree f32 :=
  match fuel with
  | O => seq_tree init xs
  | S f =>
      if (length xs <? 8)%nat then seq_tree init xs
      else let h := Nat.div2 (length xs) in
           Node (pw_tree init f (firstn h xs)) (pw_tree init f (skipn h xs))
  end.

Lemma seq_tree_from_sum xs : forall t, tree_sum (seq_tree_from t xs) = fold_left fadd xs (tree_sum t).
Proof. unfold seq_tree_from. induction xs as [|x xs IH]; intros t; [reflexivity|]. cbn. rewrite IH. reflexivity. Qed.
Lemma seq_tree_from_leaves xs : forall t, leaves (seq_tree_from t xs) = leaves t ++ xs.
Proof.
  unfold seq_tree_from. induction xs as [|x xs IH]; intros t; cbn. now rewrite app_nil_r.
  rewrite IH. cbn. rewrite <- app_assoc. reflexivity.
Qed.
Lemma seq_tree_sum init xs : tree_sum (seq_tree init xs) = seq_sum init xs.
Proof. apply seq_tree_from_sum. Qed.
Lemma seq_tree_leaves init xs : leaves (seq_tree init xs) = init :: xs.
Proof. apply seq_tree_from_leaves. Qed.

Lemma pw_tree_sum init fuel : forall xs, tree_sum (pw_tree init fuel xs) = pw_sum init fuel xs.
Proof.
  induction fuel as [|f IH]; intros xs; cbn [pw_tree pw_sum]. apply seq_tree_sum.
  destruct (length xs <? 8)%nat. apply seq_tree_sum. cbn. rewrite !IH. reflexivity.
Qed.
Lemma pw_tree_leaves init fuel :
  forall xs, exists k, Permutation (leaves (pw_tree init fuel xs)) (repeat init k ++ xs).
Proof.
  induction fuel as [|f IH]; intros xs; cbn [pw_tree].
  - exists 1%nat. rewrite seq_tree_leaves. apply Permutation_refl.
  - destruct (length xs <? 8)%nat.
    + exists 1%nat. rewrite seq_tree_leaves. apply Permutation_refl.
    + set (h := Nat.div2 (length xs)).
      destruct (IH (firstn h xs)) as [k1 P1]. destruct (IH (skipn h xs)) as [k2 P2].
      exists (k1 + k2)%nat. cbn [leaves].
      eapply Permutation_trans. apply Permutation_app; eassumption.
      rewrite repeat_app. rewrite <- (firstn_skipn h xs) at 3.
      rewrite <- !app_assoc. apply Permutation_app_head. apply Permutation_app_swap_app.
Qed.

(* ------------------------------------------------------------------------------------------ *)
(** * 1  Exactness of every summation order below 2^24                                         *)

Lemma small_lt_bpow128 z : Z.abs z < 16777216 -> (Rabs (IZR z) < bpow radix2 128)%R.
Proof.
  intros H. rewrite <- abs_IZR. apply Rlt_trans with (IZR 16777216). apply IZR_lt, H.
  change (IZR 16777216) with (bpow radix2 24). apply bpow_lt. lia.
Qed.

Lemma rnd32_IZR z : Z.abs z < 16777216 -> rnd32 (IZR z) = IZR z.
Proof. intros H. apply round_generic. auto with typeclass_instances. apply gf32_IZR, H. Qed.

Lemma IZR_nonneg_cmp c : 0 <= c -> Rcompare (IZR c) 0 <> Lt.
Proof.
  intros H. destruct (Rcompare_spec (IZR c) 0) as [L| |]; try discriminate.
  exfalso. apply lt_IZR in L. lia.
Qed.

(* float32(z) of a non-negative integer has a clear sign bit (also for z = 0: +0.0) *)
Lemma f32_of_Z_sign z : 0 <= z < 16777216 -> sign32 (f32_of_Z z) = false.
Proof.
  intros H. unfold f32_of_Z.
  generalize (binary_normalize_correct 24 128 _ _ mode_NE z 0 false).
  change (SpecFloat.fexp 24 128) with fexp32. change (round_mode mode_NE) with ZnearestE.
  replace (F2R (Float radix2 z 0)) with (IZR z) by (unfold F2R; simpl; ring).
  rewrite rnd32_IZR by lia. rewrite Rlt_bool_true by (apply small_lt_bpow128; lia).
  intros (_ & _ & H3). etransitivity; [exact H3|].
  pose proof (IZR_nonneg_cmp z (proj1 H)). destruct (Rcompare (IZR z) 0); congruence.
Qed.

(* one exact addition: finite operands, not both negative zeros, real sum a small non-negative integer *)
Lemma fadd_exact_gen x y c :
  fin32 x = true -> fin32 y = true -> sign32 x && sign32 y = false ->
  (R32 x + R32 y = IZR c)%R -> 0 <= c < 16777216 ->
  fadd x y = f32_of_Z c.
Proof.
  intros Fx Fy Hs Hsum Hc.
  generalize (Bplus_correct 24 128 _ _ binop_nan_pl32 mode_NE x y Fx Fy).
  change (SpecFloat.fexp 24 128) with fexp32. change (round_mode mode_NE) with ZnearestE.
  rewrite Hsum, rnd32_IZR by lia. rewrite Rlt_bool_true by (apply small_lt_bpow128; lia).
  intros (H1 & H2 & H3).
  destruct (f32_of_Z_exact c) as [Rc Fc]; [lia|].
  apply B2R_Bsign_inj.
  - exact H2.
  - exact Fc.
  - etransitivity; [exact H1|symmetry; exact Rc].
  - etransitivity; [exact H3|]. rewrite f32_of_Z_sign by lia. rewrite Hs.
    pose proof (IZR_nonneg_cmp c (proj1 Hc)). destruct (Rcompare (IZR c) 0); congruence.
Qed.

Lemma fadd_f32_of_Z a b :
  0 <= a -> 0 <= b -> a + b < 16777216 -> fadd (f32_of_Z a) (f32_of_Z b) = f32_of_Z (a + b).
Proof.
  intros Ha Hb Hs.
  destruct (f32_of_Z_exact a) as [Ra Fa]; [lia|]. destruct (f32_of_Z_exact b) as [Rb Fb]; [lia|].
  apply fadd_exact_gen; try assumption; try lia.
  - rewrite f32_of_Z_sign by lia. reflexivity.
  - rewrite Ra, Rb, plus_IZR. reflexivity.
Qed.

(* a -0.0 accumulator seed disappears at its first addition *)
Lemma fadd_nzero_l b : 0 <= b < 16777216 -> fadd nzero (f32_of_Z b) = f32_of_Z b.
Proof.
  intros Hb. destruct (f32_of_Z_exact b) as [Rb Fb]; [lia|].
  apply fadd_exact_gen; try assumption; try reflexivity.
  - rewrite f32_of_Z_sign by lia. reflexivity.
  - rewrite Rb. cbn. ring.
Qed.
Lemma fadd_nzero_r a : 0 <= a < 16777216 -> fadd (f32_of_Z a) nzero = f32_of_Z a.
Proof.
  intros Ha. destruct (f32_of_Z_exact a) as [Ra Fa]; [lia|].
  apply fadd_exact_gen; try assumption; try reflexivity.
  - rewrite f32_of_Z_sign by lia. reflexivity.
  - rewrite Ra. cbn. ring.
Qed.
Lemma fadd_nzero_nzero : fadd nzero nzero = nzero.
Proof. reflexivity. Qed.

(* leaves: Some z = float32(z), None = a -0.0 seed *)
Definition inj (o : option Z) : f32 := match o with Some z => f32_of_Z z | None => nzero end.
Fixpoint osum (l : list (option Z)) : Z :=
  match l with [] => 0 | Some z :: r => z + osum r | None :: r => osum r end.
Definition is_none (o : option Z) : bool := match o with None => true | Some _ => false end.
Definition allnone (l : list (option Z)) : bool := forallb is_none l.
Definition onat (o : option Z) : Prop := match o with Some z => 0 <= z | None => True end.

Lemma osum_app l1 l2 : osum (l1 ++ l2) = osum l1 + osum l2.
Proof. induction l1 as [|[z|] l1 IH]; cbn; lia. Qed.
Lemma osum_nonneg l : Forall onat l -> 0 <= osum l.
Proof. induction 1 as [|[z|] l H _ IH]; cbn in *; lia. Qed.
Lemma allnone_osum l : allnone l = true -> osum l = 0.
Proof. induction l as [|[z|] l IH]; cbn; intros H; try discriminate; auto. Qed.
Lemma osum_perm l l' : Permutation l l' -> osum l = osum l'.
Proof. induction 1 as [|[x|] l l' _ IH|[x|] [y|] l|]; cbn; lia. Qed.
Lemma allnone_perm l l' : Permutation l l' -> allnone l = allnone l'.
Proof.
  induction 1 as [|x l l' _ IH|x y l|l l' l'' _ IH1 _ IH2]; cbn.
  - reflexivity.
  - fold (allnone l) (allnone l'). rewrite IH. reflexivity.
  - destruct x, y; reflexivity.
  - congruence.
Qed.
Lemma Forall_perm {A} (P : A -> Prop) l l' : Permutation l l' -> Forall P l -> Forall P l'.
Proof.
  intros HP H. rewrite Forall_forall in *. intros x Hx. apply H.
  eapply Permutation_in; [apply Permutation_sym; exact HP|exact Hx].
Qed.

Lemma tree_sum_gen (t : btree f32) :
  forall l, leaves t = map inj l -> Forall onat l -> osum l < 16777216 ->
  tree_sum t = if allnone l then nzero else f32_of_Z (osum l).
Proof.
  induction t as [x|tl IHl tr IHr]; intros l E Hn Hs.
  - destruct l as [|o [|? ?]]; try discriminate. cbn in E. injection E as ->.
    destruct o; cbn; [rewrite Z.add_0_r|]; reflexivity.
  - cbn [leaves] in E. symmetry in E. apply map_eq_app in E. destruct E as (l1 & l2 & -> & E1 & E2).
    apply Forall_app in Hn. destruct Hn as [Hn1 Hn2]. rewrite osum_app in Hs |- *.
    pose proof (osum_nonneg _ Hn1) as P1. pose proof (osum_nonneg _ Hn2) as P2.
    cbn [tree_sum]. rewrite (IHl l1), (IHr l2); auto; try lia.
    unfold allnone at 3. rewrite forallb_app. fold (allnone l1) (allnone l2).
    destruct (allnone l1) eqn:A1, (allnone l2) eqn:A2; cbn [andb].
    + apply fadd_nzero_nzero.
    + rewrite (allnone_osum l1 A1), Z.add_0_l. apply fadd_nzero_l. lia.
    + rewrite (allnone_osum l2 A2), Z.add_0_r. apply fadd_nzero_r. lia.
    + apply fadd_f32_of_Z; lia.
Qed.

Lemma osum_map_Some l : osum (map Some l) = zsum l.
Proof. induction l as [|z l IH]; cbn; [|rewrite IH]; reflexivity. Qed.
Lemma osum_repeat_None k : osum (repeat None k) = 0.
Proof. induction k; cbn; auto. Qed.
Lemma map_repeat' {A B} (f : A -> B) x k : map f (repeat x k) = repeat (f x) k.
Proof. induction k; cbn; [|rewrite IHk]; reflexivity. Qed.
Lemma zsum_app l1 l2 : zsum (l1 ++ l2) = zsum l1 + zsum l2.
Proof. unfold zsum. induction l1 as [|z l1 IH]; cbn; [|rewrite IH]; lia. Qed.
Lemma zsum_repeat_0 j : zsum (repeat 0 j) = 0.
Proof. unfold zsum. induction j; cbn; auto. Qed.
Lemma Forall_repeat {A} (P : A -> Prop) x k : P x -> Forall P (repeat x k).
Proof. intros H. induction k; cbn; constructor; auto. Qed.

(* core: any tree over any permutation of the lengths plus k seeds of -0.0 *)
Theorem tree_sum_exact_nseeded (t : btree f32) (k : nat) (lens : list Z) :
  Permutation (leaves t) (repeat nzero k ++ map f32_of_Z lens) ->
  lens <> [] -> Forall (fun z => 0 <= z) lens -> zsum lens < 16777216 ->
  tree_sum t = f32_of_Z (zsum lens).
Proof.
  intros HP Hne Hnn Hs.
  set (l := repeat None k ++ map Some lens).
  assert (El : repeat nzero k ++ map f32_of_Z lens = map inj l).
  { unfold l. rewrite map_app, map_repeat', map_map. reflexivity. }
  rewrite El in HP. apply Permutation_map_inv in HP. destruct HP as (l3 & E3 & P3).
  assert (Os : osum l = zsum lens).
  { unfold l. rewrite osum_app, osum_repeat_None, osum_map_Some. lia. }
  assert (An : allnone l = false).
  { unfold l, allnone. rewrite forallb_app. destruct lens as [|z r]; [congruence|].
    cbn. apply andb_false_r. }
  assert (Fl : Forall onat l).
  { unfold l. apply Forall_app. split. apply Forall_repeat; exact I.
    rewrite Forall_forall in *. intros o Ho. apply in_map_iff in Ho. destruct Ho as (z & <- & Hz).
    cbn. auto. }
  rewrite (tree_sum_gen t l3 E3).
  - rewrite <- (allnone_perm _ _ P3), An, <- (osum_perm _ _ P3), Os. reflexivity.
  - eapply Forall_perm; eassumption.
  - rewrite <- (osum_perm _ _ P3), Os. exact Hs.
Qed.

(* k seeds of -0.0 and j seeds of +0.0 *)
Theorem tree_sum_exact_seeded (t : btree f32) (k j : nat) (lens : list Z) :
  Permutation (leaves t) (repeat nzero k ++ repeat pzero j ++ map f32_of_Z lens) ->
  (lens <> [] \/ (j > 0)%nat) -> Forall (fun z => 0 <= z) lens -> zsum lens < 16777216 ->
  tree_sum t = f32_of_Z (zsum lens).
Proof.
  intros HP Hne Hnn Hs.
  replace (zsum lens) with (zsum (repeat 0 j ++ lens)) by (rewrite zsum_app, zsum_repeat_0; lia).
  apply (tree_sum_exact_nseeded t k).
  - rewrite map_app, map_repeat'. exact HP.
  - destruct Hne as [H|H]. destruct lens; [congruence|]. now destruct (repeat 0 j).
    destruct j; [lia|discriminate].
  - apply Forall_app. split; [apply Forall_repeat; lia|exact Hnn].
  - rewrite zsum_app, zsum_repeat_0. lia.
Qed.

(* no seeds: non-emptiness is automatic (a tree has a leaf) *)
Theorem tree_sum_exact (t : btree f32) (lens : list Z) :
  Permutation (leaves t) (map f32_of_Z lens) ->
  Forall (fun z => 0 <= z) lens -> zsum lens < 16777216 ->
  tree_sum t = f32_of_Z (zsum lens).
Proof.
  intros HP Hnn Hs. apply (tree_sum_exact_nseeded t 0); auto.
  intros ->. cbn in HP. apply Permutation_sym, Permutation_nil in HP.
  destruct t; cbn in HP; [discriminate|]. apply app_eq_nil in HP. destruct HP as [HP _].
  clear -HP. induction t1; cbn in HP; [discriminate|]. apply app_eq_nil in HP. tauto.
Qed.

Definition len_ok (z : Z) : Prop := 0 <= z <= 262143.
Lemma len_ok_nonneg lens : Forall len_ok lens -> Forall (fun z => 0 <= z) lens.
Proof. apply Forall_impl. unfold len_ok. intros; lia. Qed.

Lemma seq_sum_exact init lens :
  (init = pzero \/ init = nzero /\ lens <> []) ->
  Forall (fun z => 0 <= z) lens -> zsum lens < 16777216 ->
  seq_sum init (map f32_of_Z lens) = f32_of_Z (zsum lens).
Proof.
  intros Hi Hnn Hs. rewrite <- seq_tree_sum.
  destruct Hi as [->|[-> Hne]].
  - apply (tree_sum_exact_seeded _ 0 1); auto. rewrite seq_tree_leaves. apply Permutation_refl.
  - apply (tree_sum_exact_seeded _ 1 0); auto. rewrite seq_tree_leaves. apply Permutation_refl.
Qed.

Lemma pw_tree_leaves_length init fuel :
  forall xs, (length xs < length (leaves (pw_tree init fuel xs)))%nat.
Proof.
  induction fuel as [|f IH]; intros xs; cbn [pw_tree].
  - rewrite seq_tree_leaves. cbn. lia.
  - destruct (length xs <? 8)%nat. rewrite seq_tree_leaves; cbn; lia.
    cbn [leaves]. rewrite app_length.
    pose proof (IH (firstn (Nat.div2 (length xs)) xs)).
    pose proof (IH (skipn (Nat.div2 (length xs)) xs)).
    rewrite <- (firstn_skipn (Nat.div2 (length xs)) xs) at 1. rewrite app_length. lia.
Qed.

Lemma pw_sum_exact init fuel lens :
  (init = pzero \/ init = nzero /\ lens <> []) ->
  Forall (fun z => 0 <= z) lens -> zsum lens < 16777216 ->
  pw_sum init fuel (map f32_of_Z lens) = f32_of_Z (zsum lens).
Proof.
  intros Hi Hnn Hs. rewrite <- pw_tree_sum.
  destruct (pw_tree_leaves init fuel (map f32_of_Z lens)) as [k Pk].
  assert (Hk : (k > 0)%nat).
  { pose proof (pw_tree_leaves_length init fuel (map f32_of_Z lens)) as HL.
    rewrite (Permutation_length Pk), app_length, repeat_length in HL. lia. }
  destruct Hi as [->|[-> Hne]].
  - apply (tree_sum_exact_seeded _ 0 k); auto.
  - apply (tree_sum_exact_seeded _ k 0); auto.
Qed.

(** ** Theorem 1 *)
Theorem f32_mean_exact_sum (lens : list Z) :
  Forall len_ok lens -> zsum lens < 16777216 ->
  (* sequential, accumulator seeded with +0.0 *)
  seq_sum pzero (map f32_of_Z lens) = f32_of_Z (zsum lens) /\
  (* pairwise (recursive halving, sequential blocks), any recursion depth *)
  (forall fuel, pw_sum pzero fuel (map f32_of_Z lens) = f32_of_Z (zsum lens)) /\
  (* every bracketing of every permutation of the elements *)
  (forall t : btree f32, Permutation (leaves t) (map f32_of_Z lens) -> tree_sum t = f32_of_Z (zsum lens)) /\
  (* ... also with k accumulator seeds -0.0 and j seeds +0.0 anywhere in the tree (numpy's blocked
     variant), and the two explicit schemes seeded with -0.0, for a non-empty vector *)
  (lens <> [] ->
     (forall (t : btree f32) k j,
        Permutation (leaves t) (repeat nzero k ++ repeat pzero j ++ map f32_of_Z lens) ->
        tree_sum t = f32_of_Z (zsum lens)) /\
     seq_sum nzero (map f32_of_Z lens) = f32_of_Z (zsum lens) /\
     (forall fuel, pw_sum nzero fuel (map f32_of_Z lens) = f32_of_Z (zsum lens))).
Proof.
  intros Hok Hs. pose proof (len_ok_nonneg _ Hok) as Hnn.
  split; [|split; [|split]].
  - apply seq_sum_exact; auto.
  - intros fuel. apply pw_sum_exact; auto.
  - intros t HP. apply tree_sum_exact; auto.
  - intros Hne. split; [|split].
    + intros t k j HP. apply (tree_sum_exact_seeded t k j); auto.
    + apply seq_sum_exact; auto.
    + intros fuel. apply pw_sum_exact; auto.
Qed.

(* ------------------------------------------------------------------------------------------ *)
(** * 2  The quotient is the correctly rounded mean                                            *)

Lemma mean_bounds total n : 0 <= total -> 0 < n -> (0 <= IZR total / IZR n <= IZR total)%R.
Proof.
  intros Ht Hn.
  assert (1 <= IZR n)%R by (apply IZR_le; lia). assert (0 <= IZR total)%R by (apply IZR_le; lia).
  assert (0 < / IZR n <= 1)%R.
  { split. apply Rinv_0_lt_compat; lra. rewrite <- Rinv_1. apply Rinv_le_contravar; lra. }
  unfold Rdiv. split. apply Rmult_le_pos; lra.
  rewrite <- (Rmult_1_r (IZR total)) at 2. apply Rmult_le_compat_l; lra.
Qed.

(** ** Theorem 2 *)
Theorem avg_model_is_rounded_mean total n :
  0 <= total < 16777216 -> 0 < n < 16777216 ->
  B2R 24 128 (fdiv (f32_of_Z total) (f32_of_Z n))
    = round radix2 (FLT_exp (-149) 24) ZnearestE (IZR total / IZR n)
  /\ is_finite 24 128 (fdiv (f32_of_Z total) (f32_of_Z n)) = true.
Proof.
  intros Ht Hn. change (FLT_exp (-149) 24) with fexp32.
  destruct (f32_of_Z_exact total) as [Rt Ft]; [lia|]. destruct (f32_of_Z_exact n) as [Rn Fn]; [lia|].
  destruct (fdiv_correct (f32_of_Z total) (f32_of_Z n)) as [H1 H2].
  - exact Ft.
  - rewrite Rn. apply not_0_IZR. lia.
  - rewrite Rt, Rn.
    assert (0 <= rnd32 (IZR total / IZR n) <= IZR 16777216)%R as B.
    { apply rnd32_bounds. apply gf32_0.
      change (IZR 16777216) with (bpow radix2 24). apply gf32_bpow. lia.
      destruct (mean_bounds total n) as [L U]; try lia. split; [exact L|].
      eapply Rle_trans; [exact U|]. apply IZR_le. lia. }
    assert (IZR 16777216 < bpow radix2 128)%R.
    { change (IZR 16777216) with (bpow radix2 24). apply bpow_lt. lia. }
    apply Rabs_def1; lra.
  - rewrite H1, Rt, Rn. split; [reflexivity|exact H2].
Qed.

Lemma mean_ge_2pm24 total n :
  0 < total -> 0 < n < 16777216 -> (/ 16777216 < IZR total / IZR n)%R.
Proof.
  intros Ht Hn.
  assert (1 <= IZR total)%R by (apply IZR_le; lia).
  assert (1 <= IZR n)%R by (apply IZR_le; lia).
  assert (IZR n < 16777216)%R by (apply IZR_lt; lia).
  assert (/ 16777216 < / IZR n)%R.
  { apply Rinv_lt_contravar; [|assumption]. apply Rmult_lt_0_compat; lra. }
  unfold Rdiv. apply Rlt_le_trans with (1 * / IZR n)%R; [lra|].
  apply Rmult_le_compat_r; [|assumption]. left. apply Rinv_0_lt_compat. lra.
Qed.

(** ** Corollary: relative error at most 2^-24 (total/n > 2^-24 >> 2^-126: normal range) *)
Corollary avg_model_rel_error total n :
  0 < total < 16777216 -> 0 < n < 16777216 ->
  (Rabs (B2R 24 128 (fdiv (f32_of_Z total) (f32_of_Z n)) - IZR total / IZR n)
     <= bpow radix2 (-24) * (IZR total / IZR n))%R.
Proof.
  intros Ht Hn. destruct (avg_model_is_rounded_mean total n) as [H1 _]; try lia. rewrite H1.
  pose proof (mean_ge_2pm24 total n (proj1 Ht) Hn) as Hx.
  set (x := (IZR total / IZR n)%R) in *.
  assert (Hx0 : (0 < x)%R).
  { eapply Rlt_trans; [|exact Hx]. apply Rinv_0_lt_compat. lra. }
  assert (Hm : (bpow radix2 (-149 + 24 - 1) <= Rabs x)%R).
  { rewrite Rabs_pos_eq by lra. apply Rle_trans with (/ 16777216)%R; [|lra].
    change (/ 16777216)%R with (bpow radix2 (-24)). apply bpow_le. lia. }
  pose proof (relative_error_N_FLT radix2 (-149) 24 prec24_gt_0 (fun z => negb (Z.even z)) x Hm) as HR.
  change (Znearest (fun z => negb (Z.even z))) with ZnearestE in HR.
  rewrite (Rabs_pos_eq x) in HR by lra.
  change (bpow radix2 (Z.opp 24 + 1)) with (/ 8388608)%R in HR.
  change (bpow radix2 (-24)) with (/ 16777216)%R. lra.
Qed.

(* a finite binary32 number with real value 0 is a zero *)
Lemma fin_R0_is_zero32 x : fin32 x = true -> R32 x = 0%R -> is_zero32 x = true.
Proof.
  destruct x as [s|s|s p H|s m e H]; cbn; try discriminate; try reflexivity.
  intros _ H0. exfalso. apply eq_0_F2R in H0. destruct s; discriminate.
Qed.

(* the avg == 0 branch of bm25_similarity is taken exactly for an all-empty corpus *)
Corollary avg_model_zero_iff total n :
  0 <= total < 16777216 -> 0 < n < 16777216 ->
  (is_zero32 (fdiv (f32_of_Z total) (f32_of_Z n)) = true <-> total = 0).
Proof.
  intros Ht Hn. destruct (avg_model_is_rounded_mean total n Ht Hn) as [H1 H2]. split.
  - intros Hz. destruct (Z.eq_dec total 0) as [|Hne]; [assumption|exfalso].
    apply is_zero32_B2R in Hz.
    pose proof (avg_model_rel_error total n) as HR. rewrite Hz in HR.
    pose proof (mean_ge_2pm24 total n) as Hx.
    assert (/ 16777216 < IZR total / IZR n)%R as Hx' by (apply Hx; lia).
    assert (0 < / 16777216)%R by (apply Rinv_0_lt_compat; lra).
    specialize (HR ltac:(lia) Hn). change (bpow radix2 (-24)) with (/ 16777216)%R in HR.
    unfold Rminus in HR. rewrite Rplus_0_l, Rabs_Ropp, Rabs_pos_eq in HR by lra.
    assert (/ 16777216 <= / 2)%R by lra. nra.
  - intros ->. apply fin_R0_is_zero32; [exact H2|]. rewrite H1.
    unfold Rdiv. rewrite Rmult_0_l. apply round_0. auto with typeclass_instances.
Qed.

(* ------------------------------------------------------------------------------------------ *)
(** * 3  In terms of the index model                                                           *)

(* the avg that score_bits / score_bm25 computes from the index statistics *)
Definition index_avg (ix : sindex) : f32 :=
  fdiv (f32_of_Z (Z.of_N (total_len ix))) (f32_of_Z (Z.of_N (corpus_size ix))).

Lemma score_bits_avg tfs dls total n idf_bits k1_bits b_bits :
  score_bits tfs dls total n idf_bits k1_bits b_bits =
  map bits_of_b32
      (bm25_similarity (map f32_of_Z tfs) (map f32_of_Z dls) (fdiv (f32_of_Z total) (f32_of_Z n))
                       (b64_of_bits idf_bits) (b64_of_bits k1_bits) (b64_of_bits b_bits)).
Proof. reflexivity. Qed.

Lemma score_bm25_uses_index_avg ix ts idf_bits k1_bits b_bits :
  score_bm25 ix ts idf_bits k1_bits b_bits =
  abind (all_dfs ix ts) (fun _ =>
  abind (tf_vector ix ts) (fun tfs =>
  AOk (map bits_of_b32
         (bm25_similarity (map f32_of_Z (map Z.of_N tfs)) (map f32_of_Z (map Z.of_N (doclengths ix)))
                          (index_avg ix)
                          (b64_of_bits idf_bits) (b64_of_bits k1_bits) (b64_of_bits b_bits))))).
Proof.
  unfold score_bm25, score_args. destruct (all_dfs ix ts); cbn; try reflexivity.
  destruct (tf_vector ix ts); cbn; reflexivity.
Qed.

Lemma fold_left_Nadd_zsum l : forall a, Z.of_N (fold_left N.add l a) = Z.of_N a + zsum (map Z.of_N l).
Proof.
  induction l as [|x l IH]; intros a; cbn [fold_left map zsum fold_right]. lia.
  rewrite IH, N2Z.inj_add. fold (zsum (map Z.of_N l)). lia.
Qed.
Lemma total_len_zsum ix : Z.of_N (total_len ix) = zsum (map Z.of_N (doclengths ix)).
Proof. unfold total_len, doclengths. rewrite fold_left_Nadd_zsum. reflexivity. Qed.
Lemma corpus_size_length ix : Z.of_N (corpus_size ix) = Z.of_nat (length (doclengths ix)).
Proof. unfold corpus_size, n_docs, doclengths. apply nat_N_Z. Qed.

(* the real mean token count of the corpus *)
Definition mean_len (ix : sindex) : R :=
  (IZR (zsum (map Z.of_N (doclengths ix))) / IZR (Z.of_nat (length (doclengths ix))))%R.

(** ** Theorem 3 *)
Theorem index_avg_is_rounded_mean (ix : sindex) :
  Forall (fun l => (l <= 262143)%N) (doclengths ix) ->
  (total_len ix < 16777216)%N ->
  (0 < corpus_size ix < 16777216)%N ->
  let lens := map Z.of_N (doclengths ix) in
  let fn := f32_of_Z (Z.of_nat (length (doclengths ix))) in
  (* (a) np.mean's float32 computation, in every summation order, is the model's avg *)
  (forall (t : btree f32) k j,
     Permutation (leaves t) (repeat nzero k ++ repeat pzero j ++ map f32_of_Z lens) ->
     fdiv (tree_sum t) fn = index_avg ix) /\
  fdiv (seq_sum pzero (map f32_of_Z lens)) fn = index_avg ix /\
  (forall fuel, fdiv (pw_sum nzero fuel (map f32_of_Z lens)) fn = index_avg ix) /\
  (* (b) which is finite and is the mean token count rounded to nearest-even binary32 *)
  B2R 24 128 (index_avg ix) = round radix2 (FLT_exp (-149) 24) ZnearestE (mean_len ix) /\
  is_finite 24 128 (index_avg ix) = true /\
  (* (c) within 2^-24 relative of the mean, and zero exactly for an all-empty corpus *)
  ((0 < total_len ix)%N ->
     (Rabs (B2R 24 128 (index_avg ix) - mean_len ix) <= bpow radix2 (-24) * mean_len ix)%R) /\
  (is_zero32 (index_avg ix) = true <-> total_len ix = 0%N).
Proof.
  intros Hok Htot Hn lens fn.
  assert (Elen : Z.of_N (total_len ix) = zsum lens) by apply total_len_zsum.
  assert (En : Z.of_N (corpus_size ix) = Z.of_nat (length (doclengths ix))) by apply corpus_size_length.
  assert (Hlok : Forall len_ok lens).
  { unfold lens. rewrite Forall_forall in *. intros z Hz. apply in_map_iff in Hz.
    destruct Hz as (l & <- & Hl). specialize (Hok l Hl). unfold len_ok. lia. }
  assert (Hs : zsum lens < 16777216) by lia.
  assert (Hne : lens <> []).
  { unfold lens. destruct (doclengths ix); [cbn in En; lia|discriminate]. }
  destruct (f32_mean_exact_sum lens Hlok Hs) as (S1 & _ & _ & S4).
  destruct (S4 Hne) as (T1 & _ & T3).
  assert (Eavg : index_avg ix = fdiv (f32_of_Z (zsum lens)) fn).
  { unfold index_avg, fn. rewrite Elen, En. reflexivity. }
  assert (Emean : mean_len ix = (IZR (Z.of_N (total_len ix)) / IZR (Z.of_N (corpus_size ix)))%R).
  { unfold mean_len. fold lens. rewrite Elen, En. reflexivity. }
  destruct (avg_model_is_rounded_mean (Z.of_N (total_len ix)) (Z.of_N (corpus_size ix))) as [R1 R2];
    try lia.
  repeat split.
  - intros t k j HP. rewrite (T1 t k j HP). symmetry. exact Eavg.
  - rewrite S1. symmetry. exact Eavg.
  - intros fuel. rewrite T3. symmetry. exact Eavg.
  - rewrite Emean. exact R1.
  - exact R2.
  - intros Hpos. rewrite Emean. apply avg_model_rel_error; lia.
  - intros Hz. apply (avg_model_zero_iff (Z.of_N (total_len ix)) (Z.of_N (corpus_size ix))) in Hz; lia.
  - intros Hz. apply (avg_model_zero_iff (Z.of_N (total_len ix)) (Z.of_N (corpus_size ix))); lia.
Qed.

(* ------------------------------------------------------------------------------------------ *)
(** * 4  Examples (vm_compute)                                                                  *)

(* /venv/bin/python (numpy 2.2.6):
     np.array([3,0,5,1,262143], dtype=np.float32).mean().view(np.uint32)  ->  1196215910 = 0x474CCE66
     (52430.4: total 262152, n 5; float32(262152)/float32(5) gives the same bits) *)
Definition ex_lens : list Z := [3; 0; 5; 1; 262143].

Example ex_avg_bits_model :
  bits_of_b32 (fdiv (f32_of_Z (zsum ex_lens)) (f32_of_Z 5)) = 1196215910.
Proof. vm_compute. reflexivity. Qed.

Example ex_avg_bits_sequential :
  bits_of_b32 (fdiv (seq_sum nzero (map f32_of_Z ex_lens)) (f32_of_Z 5)) = 1196215910.
Proof. vm_compute. reflexivity. Qed.

(* another bracketing and order: (262143 + (1 + 5)) + (0 + 3) *)
Example ex_avg_bits_tree :
  bits_of_b32 (fdiv (tree_sum (Node (Node (Leaf (f32_of_Z 262143)) (Node (Leaf (f32_of_Z 1)) (Leaf (f32_of_Z 5))))
                                    (Node (Leaf (f32_of_Z 0)) (Leaf (f32_of_Z 3)))))
                    (f32_of_Z 5)) = 1196215910.
Proof. vm_compute. reflexivity. Qed.

(* the same through the index model: an index whose documents have these lengths *)
Example ex_avg_bits_index :
  let ix := {| ix_terms := []; ix_posts := []; ix_lens := [3; 0; 5; 1; 262143]%N |} in
  bits_of_b32 (index_avg ix) = 1196215910.
Proof. vm_compute. reflexivity. Qed.

(* 24 documents: pairwise with blocks of < 8 against sequential and against the model.
   numpy: np.arange(1000, 1024, dtype=np.float32).mean().view(np.uint32) -> 1149034496 = 0x447CE000 (1011.5) *)
Definition ex_lens24 : list Z := map Z.of_nat (seq 1000 24).
Example ex_avg_bits_pairwise :
  bits_of_b32 (fdiv (pw_sum nzero 5 (map f32_of_Z ex_lens24)) (f32_of_Z 24)) = 1149034496 /\
  bits_of_b32 (fdiv (seq_sum pzero (map f32_of_Z ex_lens24)) (f32_of_Z 24)) = 1149034496 /\
  bits_of_b32 (fdiv (f32_of_Z (zsum ex_lens24)) (f32_of_Z 24)) = 1149034496.
Proof. vm_compute. repeat split. Qed.

(* The bound total < 2^24 is needed.  66 documents of 262143 tokens: total = 17301438 (a binary32 number,
   so f32_of_Z total is exact), but the left-to-right float32 loop returns 17301440, and so does numpy's
   blocked reduction; the two averages then differ by 2 ulp:
     np.cumsum(np.full(66, 262143, dtype=np.float32))[-1]            -> 17301440.0
     np.full(66, 262143, dtype=np.float32).sum()                      -> 17301440.0
     np.float32(17301438).view(np.uint32), np.float32(17301440).view(np.uint32) -> 1266941919, 1266941920
     np.full(66, 262143, dtype=np.float32).mean().view(np.uint32)     -> 1216348098   (262143.03)
     (np.float32(17301438)/np.float32(66)).view(np.uint32)            -> 1216348096   (262143.0, the model's avg)
   i.e. for corpora of 2^24 tokens or more score_bits' avg is NOT np.mean's value (modelling gap, outside
   the theorems above). *)
Example beyond_2p24_sequential_differs :
  let lens := repeat 262143 66 in
  zsum lens = 17301438 /\
  bits_of_b32 (f32_of_Z (zsum lens)) = 1266941919 /\
  bits_of_b32 (seq_sum pzero (map f32_of_Z lens)) = 1266941920 /\
  bits_of_b32 (fdiv (f32_of_Z (zsum lens)) (f32_of_Z 66)) = 1216348096 /\
  bits_of_b32 (fdiv (seq_sum pzero (map f32_of_Z lens)) (f32_of_Z 66)) = 1216348098.
Proof. vm_compute. repeat split. Qed.

Print Assumptions f32_mean_exact_sum.
Print Assumptions avg_model_is_rounded_mean.
Print Assumptions avg_model_rel_error.
Print Assumptions index_avg_is_rounded_mean.
