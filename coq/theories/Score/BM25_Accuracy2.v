(* C04, binary32 side, part 2: accuracy of the BM25 kernel w.r.t. [bm25_R] on a box that contains the
   property's domain:
     tf  in [1, 2^18]        dl in {0} U [1, 2^18]     avg in [2^-32, 2^18]
     idf in [2^-64, 2^64]    k1 in [2^-32, 2^10]       b   in [0, 1)          (all finite binary32)
   (worst case of the last product: r >= 2^-62 and idf >= 2^-64 keep r * idf >= 2^-126, still normal).
   The only intermediate that can leave the normal range is  b * (dl / avg)  (b may be tiny or 0);
   its rounding is handled with Flocq's mixed error model  rnd x = x (1 + e) + d, |d| <= 2^-150,
   and the absolute part d is absorbed into the sum  omb + p >= 2^-24  it enters.
   14 accumulated roundings at unit roundoff 2^-24 give relative error <= 2^-20 (a fortiori 2^-17).
   Built on the toolbox of BM25_Proofs.v ([near], [fmul_correct], ...). *)
From Coq Require Import ZArith List Bool Reals Lra Lia.
From Flocq Require Import Core.Core Relative IEEE754.BinarySingleNaN IEEE754.Binary IEEE754.Bits.
From SA Require Import Score.BM25 Score.BM25_Real Score.BM25_Proofs.
Import ListNotations.
Open Scope Z_scope.

Local Notation fexp32 := (FLT_exp (3 - 128 - 24) 24).
Local Notation fexp64 := (FLT_exp (3 - 1024 - 53) 53).
Local Notation rnd32 := (round radix2 fexp32 ZnearestE).
Local Notation rnd64 := (round radix2 fexp64 ZnearestE).
Local Notation R32 := (B2R 24 128).
Local Notation R64 := (B2R 53 1024).
Local Notation fin32 := (is_finite 24 128).
Local Notation fin64 := (is_finite 53 1024).

Local Existing Instance prec24_gt_0.
Local Existing Instance prec53_gt_0.
Local Existing Instance prec24_lt_emax.
Local Existing Instance prec53_lt_emax.

Local Open Scope R_scope.

Ltac gf_pow2 k := change (generic_format radix2 fexp32 (bpow radix2 k)); apply gf32_bpow; lia.
(* [c] is the literal 2^k (k >= -126): a quantity >= c is in the normal range *)
Ltac normal_from c k :=
  apply Rle_trans with c;
  [ change c with (bpow radix2 k); apply bpow_le; lia | try lra ].

(* ------------------------------------------------------------------------------------------ *)
(** * Rounding with a possible underflow: relative part + absolute part                       *)

Lemma rnd32_mixed x :
  exists e d, Rabs e <= u32 /\ Rabs d <= bpow radix2 (-150) /\ rnd32 x = x * (1 + e) + d.
Proof.
  destruct (error_N_FLT radix2 (-149) 24 eq_refl (fun x => negb (Z.even x)) x)
    as (e & d & He & Hd & _ & E).
  exists e, d. split; [|split].
  - replace u32 with (/ 2 * bpow radix2 (-24 + 1)). exact He.
    unfold u32. change (bpow radix2 (-24 + 1)) with (/ 8388608). lra.
  - replace (bpow radix2 (-150)) with (/ 2 * bpow radix2 (-149)). exact Hd.
    change (-150)%Z with (-1 + -149)%Z. rewrite bpow_plus.
    change (bpow radix2 (-1)) with (/ 2). ring.
  - exact E.
Qed.

(* an absolute perturbation that is small against y costs one more (1 +- u) factor *)
Lemma near_abs k x y d :
  0 <= y -> near k x y -> Rabs d <= u32 * ((1 - u32) ^ k * y) -> near (S k) (x + d) y.
Proof.
  intros Hy [H1 H2] Hd. unfold near. simpl.
  pose proof (lo_pos k) as P. pose proof (hi_pos k) as Q.
  pose proof (lo_le_1 k) as P1. pose proof (hi_ge_1 k) as Q1. pose proof u_pos as U.
  apply Rabs_le_inv in Hd.
  set (p := (1 - u32) ^ k) in *. set (q := (1 + u32) ^ k) in *.
  assert (Hpq : p * y <= q * y) by (apply Rmult_le_compat_r; lra).
  assert (Hupq : u32 * (p * y) <= u32 * (q * y)) by (apply Rmult_le_compat_l; lra).
  split; lra.
Qed.

(* range bookkeeping for one correctly rounded operation, any representable bounds below 2^100 *)
Lemma op_box32w exact lo hi :
  generic_format radix2 fexp32 lo -> generic_format radix2 fexp32 hi ->
  0 <= lo -> hi <= bpow radix2 100 -> lo <= exact <= hi ->
  Rabs (rnd32 exact) < bpow radix2 128 /\ lo <= rnd32 exact <= hi.
Proof.
  intros Gl Gh Hl Hh Hx.
  assert (B : bpow radix2 100 < bpow radix2 128) by (apply bpow_lt; lia).
  pose proof (bpow_gt_0 radix2 128).
  assert (lo <= rnd32 exact <= hi) by (apply rnd32_bounds; assumption).
  split; [|assumption]. apply Rabs_def1; lra.
Qed.
Ltac le_pow2 k := change (bpow radix2 k <= bpow radix2 100); apply bpow_le; lia.

(* a binary32 number below 1 is at most pred(1) = 1 - 2^-24 *)
Lemma lt_1_le_pred b : R32 b < 1 -> R32 b <= 1 - / 16777216.
Proof.
  intros H.
  assert (G1 : generic_format radix2 fexp32 (bpow radix2 0)) by (apply gf32_bpow; lia).
  assert (H' : R32 b < bpow radix2 0) by (rewrite bpow_0_1; exact H).
  pose proof (pred_ge_gt radix2 fexp32 (R32 b) (bpow radix2 0) (gf32_B2R b) G1 H') as P.
  rewrite pred_bpow in P. exact P.
Qed.

(* one_minus b on the whole parameter range 0 <= b < 1: finite, in [2^-24, 1], and two roundings
   away from 1 - b (both roundings are in the normal range because 1 - b >= 2^-24) *)
Lemma one_minus_near_wide b :
  fin32 b = true -> 0 <= R32 b < 1 ->
  fin32 (one_minus b) = true /\ / 16777216 <= R32 (one_minus b) <= 1 /\
  near 2 (R32 (one_minus b)) (1 - R32 b) /\ / 16777216 <= 1 - R32 b.
Proof.
  intros Fb [Hb0 Hb1]. pose proof (lt_1_le_pred b Hb1) as Hb2. unfold one_minus.
  pose proof bpow128_big as B128. pose proof bpow1024_big as B1024.
  destruct (f64_of_f32_exact b Fb) as [Rd Fd].
  assert (H1 : rnd64 (IZR 1) = 1).
  { apply round_generic. auto with typeclass_instances. apply gf64_1. }
  destruct (f64_of_Z_correct 1) as [R1 F1].
  { rewrite H1. rewrite Rabs_R1. lra. }
  rewrite H1 in R1.
  assert (G64 : generic_format radix2 fexp64 (/ 16777216)).
  { change (/ 16777216) with (bpow radix2 (-24)). apply gf64_bpow. lia. }
  assert (G32 : generic_format radix2 fexp32 (/ 16777216)) by gf_pow2 (-24)%Z.
  (* 1.0 - (double)b *)
  assert (Hm : / 16777216 <= rnd64 (1 - R32 b) <= 1).
  { split. apply rnd64_ge. exact G64. lra. apply rnd64_le. apply gf64_1. lra. }
  destruct (f64_minus_correct _ _ F1 Fd) as [Rm Fm].
  { rewrite R1, Rd. apply Rabs_def1; lra. }
  rewrite R1, Rd in Rm.
  (* (float) *)
  assert (Hf : / 16777216 <= rnd32 (rnd64 (1 - R32 b)) <= 1).
  { split. apply rnd32_ge. exact G32. lra. apply rnd32_le. apply gf32_1. lra. }
  destruct (f32_of_f64_correct _ Fm) as [Rf Ff].
  { rewrite Rm. apply Rabs_def1; lra. }
  rewrite Rm in Rf. rewrite Rf.
  split. exact Ff. split. exact Hf. split; [|lra].
  apply near_rnd32. lra.
  { right. normal_from (/ 16777216) (-24)%Z. }
  apply near_rnd64. lra.
  { normal_from (/ 16777216) (-24)%Z. }
  apply near_refl.
Qed.

Lemma near14_rel x y : 0 <= y -> near 14 x y -> Rabs (x - y) <= / 1048576 * y.
Proof.
  intros Hy [H1 H2].
  assert (L : 1 - / 1048576 <= (1 - u32) ^ 14) by (unfold u32; lra).
  assert (G : (1 + u32) ^ 14 <= 1 + / 1048576) by (unfold u32; lra).
  apply Rabs_le. split; nra.
Qed.

Lemma tiny_abs_ok S0 d :
  / 16777216 <= S0 -> Rabs d <= bpow radix2 (-150) -> Rabs d <= u32 * ((1 - u32) ^ 2 * S0).
Proof.
  intros HS Hd.
  change (bpow radix2 (-150)) with (/ 1427247692705959881058285969449495136382746624) in Hd.
  assert (C : / 1427247692705959881058285969449495136382746624
              <= u32 * ((1 - u32) ^ 2 * / 16777216)) by (unfold u32; lra).
  eapply Rle_trans. exact Hd. eapply Rle_trans. exact C.
  apply Rmult_le_compat_l. unfold u32; lra.
  apply Rmult_le_compat_l. apply Rlt_le, lo_pos. exact HS.
Qed.

(* ------------------------------------------------------------------------------------------ *)
(** * Accuracy on the wide box                                                                *)

(* Literal form (2^18 = 262144, 2^32 = 4294967296, 2^10 = 1024, 2^64 = 18446744073709551616).
   The kernel's result is finite and within 14 accumulated roundings of bm25_R, hence within
   relative error 2^-20. *)
Theorem bm25_accuracy_wide_core tf dl avg idf k1 b :
  fin32 tf = true -> 1 <= R32 tf <= 262144 ->
  fin32 dl = true -> (R32 dl = 0 \/ 1 <= R32 dl <= 262144) ->
  fin32 avg = true -> / 4294967296 <= R32 avg <= 262144 ->
  fin32 idf = true -> / 18446744073709551616 <= R32 idf <= 18446744073709551616 ->
  fin32 k1 = true -> / 4294967296 <= R32 k1 <= 1024 ->
  fin32 b = true -> 0 <= R32 b < 1 ->
  let exact := bm25_R (R32 idf) (R32 tf) (R32 dl) (R32 avg) (R32 k1) (R32 b) in
  let res := bm25_one tf dl avg idf k1 b (one_minus b) in
  fin32 res = true /\ 0 < exact /\ near 14 (R32 res) exact /\
  Rabs (R32 res - exact) <= bpow radix2 (-20) * Rabs exact.
Proof.
  intros Ftf Htf Fdl Hdl Favg Havg Fidf Hidf Fk1 Hk1 Fb Hb exact res.
  destruct (one_minus_near_wide b Fb Hb) as (Fo & Ho & No & Hb1).
  unfold res, bm25_one. rewrite nonzero_not_is_zero32 by lra.
  set (omb := one_minus b) in *.
  set (T := R32 tf) in *. set (L := R32 dl) in *. set (A := R32 avg) in *.
  set (I := R32 idf) in *. set (K := R32 k1) in *. set (B := R32 b) in *.
  set (Q0 := L / A). set (S0 := 1 - B + B * Q0). set (D0 := T + K * S0).
  (* exact quantities *)
  assert (HiA : / 262144 <= / A <= 4294967296).
  { split. apply Rinv_le_contravar; lra.
    replace 4294967296 with (/ / 4294967296) by lra. apply Rinv_le_contravar; lra. }
  assert (HQ0 : 0 <= Q0 <= 1125899906842624 /\ (Q0 = 0 \/ / 262144 <= Q0)).
  { unfold Q0, Rdiv. destruct Hdl as [E|Hdl].
    - rewrite E, Rmult_0_l. split. lra. left; reflexivity.
    - pose proof (Rmult_box L (/ A) 1 262144 (/ 262144) 4294967296) as M1. split. lra. right. lra. }
  destruct HQ0 as [BQ0 ZQ0].
  assert (HBQ0 : 0 <= B * Q0) by (apply Rmult_le_pos; lra).
  assert (HS0 : / 16777216 <= S0) by (unfold S0; lra).
  assert (HKS0 : 0 <= K * S0) by (apply Rmult_le_pos; lra).
  assert (HD0 : 1 <= D0) by (unfold D0; lra).
  (* q = dl / avg : zero or normal *)
  destruct (op_box32w Q0 0 1125899906842624) as [Oq Bq];
    [apply gf32_0 | gf_pow2 50%Z | lra | le_pow2 50%Z | exact BQ0 |].
  destruct (fdiv_correct dl avg Fdl) as [Rq Fq]; [fold A; lra | exact Oq |].
  fold L A Q0 in Rq. rewrite <- Rq in Bq.
  assert (Zq : R32 (fdiv dl avg) = 0 \/ / 262144 <= R32 (fdiv dl avg)).
  { rewrite Rq. destruct ZQ0 as [E|H]; [left|right].
    rewrite E. apply round_0; auto with typeclass_instances.
    apply rnd32_ge. gf_pow2 (-18)%Z. exact H. }
  assert (Nq : near 1 (R32 (fdiv dl avg)) Q0).
  { rewrite Rq. apply near_rnd32. lra.
    destruct ZQ0 as [E|H]; [left; exact E|right]. normal_from (/ 262144) (-18)%Z.
    apply near_refl. }
  set (q := fdiv dl avg) in *.
  (* p = b * q : may underflow (b tiny); mixed error model *)
  assert (BP : 0 <= B * R32 q <= 1125899906842624).
  { pose proof (Rmult_box B (R32 q) 0 1 0 1125899906842624) as M1. lra. }
  destruct (op_box32w (B * R32 q) 0 1125899906842624) as [Op Bp];
    [apply gf32_0 | gf_pow2 50%Z | lra | le_pow2 50%Z | exact BP |].
  destruct (fmul_correct b q Fb Fq) as [Rp Fp]; [exact Op|].
  fold B in Rp. rewrite <- Rp in Bp.
  destruct (rnd32_mixed (B * R32 q)) as (e & d & He & Hd & Ep).
  rewrite Ep in Rp.
  assert (Np : near 2 (B * R32 q * (1 + e)) (B * Q0)).
  { apply near_eps. exact HBQ0. exact He. apply near_scale. lra. exact Nq. }
  set (p := fmul b q) in *.
  (* s = omb + p : >= 2^-24, the absolute part d of p's error is negligible against it *)
  destruct (op_box32w (R32 omb + R32 p) (/ 16777216) 2251799813685248) as [Os Bs];
    [gf_pow2 (-24)%Z | gf_pow2 51%Z | lra | le_pow2 51%Z | lra |].
  destruct (fadd_correct omb p Fo Fp) as [Rs Fs]; [exact Os|].
  rewrite <- Rs in Bs.
  assert (Ns : near 4 (R32 (fadd omb p)) S0).
  { rewrite Rs. apply near_rnd32. lra.
    right. normal_from (/ 16777216) (-24)%Z.
    rewrite Rp.
    replace (R32 omb + (B * R32 q * (1 + e) + d)) with (R32 omb + B * R32 q * (1 + e) + d) by ring.
    apply near_abs. lra.
    unfold S0. apply near_add. exact No. exact Np.
    apply tiny_abs_ok. exact HS0. exact Hd. }
  set (s := fadd omb p) in *.
  (* t = k1 * s *)
  assert (HKs : / 72057594037927936 <= K * R32 s <= 2305843009213693952).
  { pose proof (Rmult_box K (R32 s) (/ 4294967296) 1024 (/ 16777216) 2251799813685248). lra. }
  destruct (op_box32w (K * R32 s) (/ 72057594037927936) 2305843009213693952) as [Ot Bt];
    [gf_pow2 (-56)%Z | gf_pow2 61%Z | lra | le_pow2 61%Z | exact HKs |].
  destruct (fmul_correct k1 s Fk1 Fs) as [Rt Ft]; [exact Ot|].
  fold K in Rt. rewrite <- Rt in Bt.
  assert (Nt : near 5 (R32 (fmul k1 s)) (K * S0)).
  { rewrite Rt. apply near_rnd32. exact HKS0.
    right. normal_from (/ 72057594037927936) (-56)%Z.
    apply near_scale. lra. exact Ns. }
  set (t := fmul k1 s) in *.
  (* den = tf + t *)
  destruct (op_box32w (T + R32 t) 1 4611686018427387904) as [Od Bd];
    [apply gf32_1 | gf_pow2 62%Z | lra | le_pow2 62%Z | lra |].
  destruct (fadd_correct tf t Ftf Ft) as [Rd Fd]; [exact Od|].
  fold T in Rd. rewrite <- Rd in Bd.
  assert (Nd : near 6 (R32 (fadd tf t)) D0).
  { rewrite Rd. apply near_rnd32. lra.
    right. normal_from 1 0%Z.
    unfold D0. apply near_add. apply (near_le 0 5). lia. lra. apply near_refl. exact Nt. }
  set (den := fadd tf t) in *.
  (* r = tf / den *)
  assert (Hid : / 4611686018427387904 <= / R32 den <= 1).
  { split. apply Rinv_le_contravar; lra.
    replace 1 with (/ 1) by lra. apply Rinv_le_contravar; lra. }
  assert (HTd : / 4611686018427387904 <= T / R32 den <= 262144).
  { unfold Rdiv. pose proof (Rmult_box T (/ R32 den) 1 262144 (/ 4611686018427387904) 1). lra. }
  destruct (op_box32w (T / R32 den) (/ 4611686018427387904) 262144) as [Or Br];
    [gf_pow2 (-62)%Z | gf_pow2 18%Z | lra | le_pow2 18%Z | exact HTd |].
  destruct (fdiv_correct tf den Ftf) as [Rr Fr]; [lra | exact Or |].
  fold T in Rr. rewrite <- Rr in Br.
  assert (HiD : 0 < / D0) by (apply Rinv_0_lt_compat; lra).
  assert (HTD : 0 < T * / D0) by (apply Rmult_lt_0_compat; lra).
  assert (Nr : near 13 (R32 (fdiv tf den)) (T * / D0)).
  { rewrite Rr. apply near_rnd32. lra.
    right. normal_from (/ 4611686018427387904) (-62)%Z.
    unfold Rdiv. apply near_scale. lra. apply (near_inv 6). lra. exact Nd. }
  set (r := fdiv tf den) in *.
  (* res = r * idf *)
  assert (HrI : / 85070591730234615865843651857942052864 <= R32 r * I <= 4835703278458516698824704).
  { pose proof (Rmult_box (R32 r) I (/ 4611686018427387904) 262144
                          (/ 18446744073709551616) 18446744073709551616). lra. }
  destruct (op_box32w (R32 r * I) (/ 85070591730234615865843651857942052864) 4835703278458516698824704)
    as [Ores Bres];
    [gf_pow2 (-126)%Z | gf_pow2 82%Z | lra | le_pow2 82%Z | exact HrI |].
  destruct (fmul_correct r idf Fr Fidf) as [Rres Fres]; [exact Ores|].
  fold I in Rres.
  assert (HTDI : 0 < T * / D0 * I) by (apply Rmult_lt_0_compat; lra).
  assert (Nres : near 14 (R32 (fmul r idf)) (T * / D0 * I)).
  { rewrite Rres. apply near_rnd32. lra.
    right. normal_from (/ 85070591730234615865843651857942052864) (-126)%Z.
    apply near_scale_r. lra. exact Nr. }
  assert (Eex : exact = T * / D0 * I).
  { unfold exact, bm25_R, D0, S0, Q0, Rdiv. fold I T L A K B.
    replace (B * L * / A) with (B * (L * / A)) by ring. ring. }
  assert (Pex : 0 < exact) by (rewrite Eex; exact HTDI).
  rewrite <- Eex in Nres.
  split. exact Fres. split. exact Pex. split. exact Nres.
  rewrite (Rabs_pos_eq exact) by lra.
  change (bpow radix2 (-20)) with (/ 1048576).
  apply near14_rel. lra. exact Nres.
Qed.

(* ------------------------------------------------------------------------------------------ *)
(** * The statements in power-of-two form                                                     *)

Theorem bm25_accuracy_wide_2pm20 : forall tf dl avg idf k1 b,
  fin32 tf = true -> 1 <= R32 tf <= bpow radix2 18 ->
  fin32 dl = true -> (R32 dl = 0 \/ 1 <= R32 dl <= bpow radix2 18) ->
  fin32 avg = true -> bpow radix2 (-32) <= R32 avg <= bpow radix2 18 ->
  fin32 idf = true -> bpow radix2 (-64) <= R32 idf <= bpow radix2 64 ->
  fin32 k1 = true -> bpow radix2 (-32) <= R32 k1 <= bpow radix2 10 ->
  fin32 b = true -> 0 <= R32 b < 1 ->
  let exact := bm25_R (R32 idf) (R32 tf) (R32 dl) (R32 avg) (R32 k1) (R32 b) in
  let res := bm25_one tf dl avg idf k1 b (one_minus b) in
  fin32 res = true /\ 0 < exact /\
  Rabs (R32 res - exact) <= bpow radix2 (-20) * Rabs exact.
Proof.
  intros tf dl avg idf k1 b Ftf Htf Fdl Hdl Favg Havg Fidf Hidf Fk1 Hk1 Fb Hb exact res.
  change (bpow radix2 18) with 262144 in *.
  change (bpow radix2 (-32)) with (/ 4294967296) in *.
  change (bpow radix2 10) with 1024 in *.
  change (bpow radix2 (-64)) with (/ 18446744073709551616) in *.
  change (bpow radix2 64) with 18446744073709551616 in *.
  destruct (bm25_accuracy_wide_core tf dl avg idf k1 b) as (H1 & H2 & _ & H4); try assumption.
  split. exact H1. split. exact H2. exact H4.
Qed.

(* the requested statement (tolerance 2^-17; the 2^-20 bound above is stronger) *)
Theorem bm25_accuracy_wide : forall tf dl avg idf k1 b,
  is_finite 24 128 tf = true -> (1 <= B2R 24 128 tf <= bpow radix2 18)%R ->
  is_finite 24 128 dl = true -> (B2R 24 128 dl = 0 \/ 1 <= B2R 24 128 dl <= bpow radix2 18)%R ->
  is_finite 24 128 avg = true -> (bpow radix2 (-32) <= B2R 24 128 avg <= bpow radix2 18)%R ->
  is_finite 24 128 idf = true -> (bpow radix2 (-64) <= B2R 24 128 idf <= bpow radix2 64)%R ->
  is_finite 24 128 k1 = true -> (bpow radix2 (-32) <= B2R 24 128 k1 <= bpow radix2 10)%R ->
  is_finite 24 128 b = true -> (0 <= B2R 24 128 b < 1)%R ->
  let exact := bm25_R (B2R 24 128 idf) (B2R 24 128 tf) (B2R 24 128 dl) (B2R 24 128 avg)
                      (B2R 24 128 k1) (B2R 24 128 b) in
  (Rabs (B2R 24 128 (bm25_one tf dl avg idf k1 b (one_minus b)) - exact)
   <= bpow radix2 (-17) * Rabs exact)%R.
Proof.
  intros tf dl avg idf k1 b Ftf Htf Fdl Hdl Favg Havg Fidf Hidf Fk1 Hk1 Fb Hb exact.
  destruct (bm25_accuracy_wide_2pm20 tf dl avg idf k1 b) as (_ & _ & H); try assumption.
  eapply Rle_trans. exact H. apply Rmult_le_compat_r. apply Rabs_pos.
  apply bpow_le. lia.
Qed.

(* integer counts: tf = float32(n), dl = float32(m) for 1 <= n <= 2^18, 0 <= m <= 2^18 (exact conversions) *)
Theorem bm25_accuracy_wide_counts : forall n m avg idf k1 b,
  (1 <= n <= 262144)%Z -> (0 <= m <= 262144)%Z ->
  fin32 avg = true -> bpow radix2 (-32) <= R32 avg <= bpow radix2 18 ->
  fin32 idf = true -> bpow radix2 (-64) <= R32 idf <= bpow radix2 64 ->
  fin32 k1 = true -> bpow radix2 (-32) <= R32 k1 <= bpow radix2 10 ->
  fin32 b = true -> 0 <= R32 b < 1 ->
  let exact := bm25_R (R32 idf) (IZR n) (IZR m) (R32 avg) (R32 k1) (R32 b) in
  let res := bm25_one (f32_of_Z n) (f32_of_Z m) avg idf k1 b (one_minus b) in
  fin32 res = true /\ 0 < exact /\
  Rabs (R32 res - exact) <= bpow radix2 (-20) * Rabs exact.
Proof.
  intros n m avg idf k1 b Hn Hm Favg Havg Fidf Hidf Fk1 Hk1 Fb Hb.
  destruct (f32_of_Z_exact n) as [Rn Fn]. lia.
  destruct (f32_of_Z_exact m) as [Rm Fm]. lia.
  pose proof (bm25_accuracy_wide_2pm20 (f32_of_Z n) (f32_of_Z m) avg idf k1 b) as H.
  cbv zeta in H. rewrite Rn, Rm in H. cbv zeta. apply H; try assumption.
  - change (bpow radix2 18) with (IZR 262144). split. apply (IZR_le 1); lia. apply IZR_le; lia.
  - change (bpow radix2 18) with (IZR 262144).
    destruct (Z.eq_dec m 0) as [->|Hm0]. left; reflexivity.
    right. split. apply (IZR_le 1); lia. apply IZR_le; lia.
Qed.

(* ------------------------------------------------------------------------------------------ *)
(** * Default parameters  k1 = 1.2f, b = 0.75f                                                *)

Definition k1_default : f32 := b32_of_bits (0x3F99999A)%Z.  (* 1.2f  = 10066330 / 2^23 *)
Definition b_default  : f32 := b32_of_bits (0x3F400000)%Z.  (* 0.75f = 3/4 exactly    *)

(* they are what the C kernel receives: (float) of the Python doubles 1.2 and 0.75 *)
Lemma k1_default_from_double :
  bits_of_b32 (f32_of_f64 (b64_of_bits (0x3FF3333333333333)%Z)) = bits_of_b32 k1_default.
Proof. vm_compute. reflexivity. Qed.
Lemma b_default_from_double :
  bits_of_b32 (f32_of_f64 (b64_of_bits (0x3FE8000000000000)%Z)) = bits_of_b32 b_default.
Proof. vm_compute. reflexivity. Qed.

Lemma k1_default_val : R32 k1_default = 10066330 / 8388608 /\ fin32 k1_default = true.
Proof. exact ex_k1_val. Qed.
Lemma b_default_val : R32 b_default = 3 / 4 /\ fin32 b_default = true.
Proof. exact ex_b_val. Qed.

(* the kernel against the formula at the parameters it actually uses (the float32 values) *)
Theorem bm25_default_accuracy : forall n m avg idf,
  (1 <= n <= 262144)%Z -> (0 <= m <= 262144)%Z ->
  fin32 avg = true -> bpow radix2 (-32) <= R32 avg <= bpow radix2 18 ->
  fin32 idf = true -> bpow radix2 (-64) <= R32 idf <= bpow radix2 64 ->
  let exact := bm25_R (R32 idf) (IZR n) (IZR m) (R32 avg) (10066330 / 8388608) (3 / 4) in
  let res := bm25_one (f32_of_Z n) (f32_of_Z m) avg idf k1_default b_default (one_minus b_default) in
  fin32 res = true /\ 0 < exact /\
  Rabs (R32 res - exact) <= bpow radix2 (-20) * Rabs exact.
Proof.
  intros n m avg idf Hn Hm Favg Havg Fidf Hidf.
  destruct k1_default_val as [Ek Fk]. destruct b_default_val as [Eb Fb].
  pose proof (bm25_accuracy_wide_counts n m avg idf k1_default b_default) as H.
  cbv zeta in H. rewrite Ek, Eb in H. cbv zeta. apply H; try assumption.
  - change (bpow radix2 (-32)) with (/ 4294967296). change (bpow radix2 10) with 1024. lra.
  - lra.
Qed.

(* changing k1 from 6/5 to the float32 1.2f = 6/5 + 1/20971520 moves the real formula by less than 2^-24 *)
Lemma bm25_R_k1_default_shift idf tf len avg :
  0 < idf -> 0 < tf -> 0 <= len -> 0 < avg ->
  let f := bm25_R idf tf len avg (6 / 5) (3 / 4) in
  let f' := bm25_R idf tf len avg (10066330 / 8388608) (3 / 4) in
  0 < f' <= f /\ (1 - / 16777216) * f <= f'.
Proof.
  intros Hi Ht Hl Ha. unfold bm25_R.
  pose proof (norm_factor_pos (3 / 4) len avg) as HS.
  set (S := 1 - 3 / 4 + 3 / 4 * len / avg) in *.
  assert (S0 : 0 < S) by (apply HS; lra). clear HS.
  set (D := tf + 6 / 5 * S). set (D' := tf + 10066330 / 8388608 * S).
  assert (HD : 0 < D) by (unfold D; lra).
  assert (HDD : D <= D') by (unfold D, D'; lra).
  assert (HD' : 0 < D') by lra.
  assert (HDe : (1 - / 16777216) * D' <= D) by (unfold D, D'; lra).
  assert (HiD : 0 < / D) by (apply Rinv_0_lt_compat; lra).
  assert (HiD' : 0 < / D') by (apply Rinv_0_lt_compat; lra).
  assert (Hx : 0 < idf * tf) by (apply Rmult_lt_0_compat; assumption).
  assert (E1 : / D - / D' = / D * / D' * (D' - D)) by (field; lra).
  assert (E2 : / D' - (1 - / 16777216) * / D = / D * / D' * (D - (1 - / 16777216) * D')) by (field; lra).
  assert (P : 0 < / D * / D') by (apply Rmult_lt_0_compat; assumption).
  assert (L1 : / D' <= / D).
  { assert (0 <= / D * / D' * (D' - D)) by (apply Rmult_le_pos; lra). lra. }
  assert (L2 : (1 - / 16777216) * / D <= / D').
  { assert (0 <= / D * / D' * (D - (1 - / 16777216) * D')) by (apply Rmult_le_pos; lra). lra. }
  unfold Rdiv. split. split.
  - apply Rmult_lt_0_compat; assumption.
  - apply Rmult_le_compat_l; lra.
  - replace ((1 - / 16777216) * (idf * tf * / D)) with (idf * tf * ((1 - / 16777216) * / D)) by ring.
    apply Rmult_le_compat_l; lra.
Qed.

(* the kernel with the default parameters against the formula at the REAL defaults k1 = 1.2, b = 0.75:
   2^-20 (arithmetic) + 2^-24 (k1 is not a binary32 number) < 2^-17 *)
Theorem bm25_default_accuracy_real : forall n m avg idf,
  (1 <= n <= 262144)%Z -> (0 <= m <= 262144)%Z ->
  fin32 avg = true -> bpow radix2 (-32) <= R32 avg <= bpow radix2 18 ->
  fin32 idf = true -> bpow radix2 (-64) <= R32 idf <= bpow radix2 64 ->
  let exact := bm25_R (R32 idf) (IZR n) (IZR m) (R32 avg) (6 / 5) (3 / 4) in
  let res := bm25_one (f32_of_Z n) (f32_of_Z m) avg idf k1_default b_default (one_minus b_default) in
  Rabs (R32 res - exact) <= bpow radix2 (-17) * Rabs exact.
Proof.
  intros n m avg idf Hn Hm Favg Havg Fidf Hidf exact res.
  destruct (bm25_default_accuracy n m avg idf) as (_ & P' & H); try assumption.
  fold res in H.
  set (f' := bm25_R (R32 idf) (IZR n) (IZR m) (R32 avg) (10066330 / 8388608) (3 / 4)) in *.
  destruct (bm25_R_k1_default_shift (R32 idf) (IZR n) (IZR m) (R32 avg)) as [[_ S1] S2].
  - eapply Rlt_le_trans; [|apply Hidf]. apply bpow_gt_0.
  - apply (IZR_lt 0). lia.
  - apply (IZR_le 0). lia.
  - eapply Rlt_le_trans; [|apply Havg]. apply bpow_gt_0.
  - fold exact f' in S1, S2.
    rewrite (Rabs_pos_eq f') in H by lra.
    rewrite (Rabs_pos_eq exact) by lra.
    change (bpow radix2 (-20)) with (/ 1048576) in H.
    change (bpow radix2 (-17)) with (/ 131072).
    apply Rabs_le_inv in H. apply Rabs_le. split; lra.
Qed.

(* ------------------------------------------------------------------------------------------ *)
(** * Non-vacuity: corner instances of the wide box (b = 0; b = pred 1; tiny b with underflowing b*q) *)

Example wide_box_corners :
  let c := fun tf dl avg idf k1 b => bits_of_b32 (bm25_one (b32_of_bits tf) (b32_of_bits dl)
             (b32_of_bits avg) (b32_of_bits idf) (b32_of_bits k1) (b32_of_bits b) (one_minus (b32_of_bits b))) in
  (* tf = 2^18, dl = 2^18, avg = 2^-32, idf = 2^-64, k1 = 2^10, b = 1 - 2^-24 : result ~ 2^-106, normal *)
  (c 0x48800000 0x48800000 0x2F800000 0x1F800000 0x44800000 0x3F7FFFFF)%Z = 0x0A800001%Z /\
  (* b = 0 *)
  (c 0x40400000 0x41400000 0x40F00000 0x3F7AE148 0x3F99999A 0x00000000)%Z = 0x3F333334%Z /\
  (* b = 2^-149 (smallest subnormal): b * (dl/avg) underflows *)
  (c 0x40400000 0x41400000 0x40F00000 0x3F7AE148 0x3F99999A 0x00000001)%Z = 0x3F333334%Z.
Proof. vm_compute. repeat split. Qed.

(* ------------------------------------------------------------------------------------------ *)
Print Assumptions bm25_accuracy_wide_core.
Print Assumptions bm25_accuracy_wide_2pm20.
Print Assumptions bm25_accuracy_wide.
Print Assumptions bm25_accuracy_wide_counts.
Print Assumptions bm25_default_accuracy.
Print Assumptions bm25_default_accuracy_real.
