(* SearchArray.score (postings.py 652-680) for the default / parameterised BM25 similarity on a
   freshly built array: document frequencies, tf vector (term or phrase), doc lengths, avg, N are
   gathered from the index model and handed to the binary32 kernel model.  idf (numpy log) is an input. *)
From Coq Require Import ZArith List Bool.
From SA Require Import Base.Prelude Index.Index Query.Phrase Score.BM25.
Import ListNotations.
Open Scope N_scope.

(* tfs = self.termfreqs(token): a string -> term path, a list of >= 2 -> phrase path *)
Definition tf_vector (ix : sindex) (ts : list N) : api (list N) :=
  match ts with
  | [t] => termfreqs ix t
  | _ => phrase_freqs ix ts
  end.

Fixpoint all_dfs (ix : sindex) (ts : list N) : api (list N) :=
  match ts with
  | [] => AOk []
  | t :: rest => ado d <- docfreq ix t; ado ds <- all_dfs ix rest; AOk (d :: ds)
  end.

(* the statistics a similarity receives: (tfs, dfs, doc_lens, total (avg = total/n), n) *)
Definition score_args (ix : sindex) (ts : list N) : api (list N * list N * list N * N * N) :=
  ado dfs <- all_dfs ix ts;
  ado tfs <- tf_vector ix ts;
  AOk (tfs, dfs, doclengths ix, total_len ix, corpus_size ix).

Definition score_bm25 (ix : sindex) (ts : list N) (idf_bits k1_bits b_bits : Z) : api (list Z) :=
  ado a <- score_args ix ts;
  let '(tfs, dfs, dls, total, n) := a in
  AOk (score_bits (map Z.of_N tfs) (map Z.of_N dls) (Z.of_N total) (Z.of_N n) idf_bits k1_bits b_bits).
