(* Memory safety of the BM25 pointer walk (Score/BM25_Walk.v) and its call sites.
     1. bm25_walk_safe          len(doc_lens) >= len(term_freqs)  ->  no fault, and the result is the
                                value-level model BM25.bm25_kernel (whose  combine  then truncates nothing)
     2. bm25_walk_short_faults  a non-zero term frequency at index len(doc_lens) -> Fault Rd 1 there;
        bm25_walk_fault_iff     exact characterisation: the walk faults iff some term frequency at an
                                index >= len(doc_lens) is non-zero;  a computed example
     3. score_args_lengths / score_args_walk_safe      SearchArray.score on a fresh index (Score/Score.v):
                                the tf vector and the length vector always have the same length
     4. v_score_args_lengths / v_score_args_walk_safe  the same for views (View/View.v) under the
                                boolean shape predicate sarr_len_okb, which of_index (on a correct
                                index) establishes and every select re-establishes. *)
From Coq Require Import ZArith NArith List Bool Lia.
From SA Require Import Base.Prelude Kernels.Linear Kernels.Linear_Proofs
  Codec.Codec Index.Index Index.Index_Spec Index.Index_Proofs2 Query.Phrase Query.Range
  Score.BM25 Score.BM25_Walk Score.Score View.View View.View_Proofs.
Import ListNotations.
Local Open Scope nat_scope.

(* ================= 0. list facts ================= *)
Lemma nth_error_mid {A} (pre : list A) x t : nth_error (pre ++ x :: t) (length pre) = Some x.
Proof. rewrite nth_error_app2 by lia. rewrite Nat.sub_diag. reflexivity. Qed.

Lemma nth_error_end {A} (l : list A) : nth_error l (length l) = None.
Proof. apply nth_error_None. lia. Qed.

Lemma snoc_length {A} (pre : list A) x : length (pre ++ [x]) = S (length pre).
Proof. rewrite app_length. cbn [length]. lia. Qed.

Lemma snoc_app {A} (pre : list A) x t : (pre ++ [x]) ++ t = pre ++ x :: t.
Proof. rewrite <- app_assoc. reflexivity. Qed.

(* ================= 1. the walk is safe when doc_lens is long enough ================= *)
Section Walk.
Variables (avg idf k1 b omb : f32).

Let one (p : f32 * f32) : f32 := bm25_one (fst p) (snd p) avg idf k1 b omb.

Lemma bm25_one_zero tf dl : is_zero32 tf = true -> bm25_one tf dl avg idf k1 b omb = tf.
Proof. intro E. unfold bm25_one. rewrite E. reflexivity. Qed.

(* one iteration with the term_freqs pointer at offset |pre| *)
Lemma walk_step n pre tf t1 dls acc :
  bm25_walk (S n) (length pre) (pre ++ tf :: t1) dls avg idf k1 b omb acc =
  if is_zero32 tf then bm25_walk n (S (length pre)) (pre ++ tf :: t1) dls avg idf k1 b omb (tf :: acc)
  else do dl <- frd 1 dls (length pre);
       bm25_walk n (S (length pre)) (pre ++ tf :: t1) dls avg idf k1 b omb (bm25_one tf dl avg idf k1 b omb :: acc).
Proof. cbn [bm25_walk]. unfold frd at 1. rewrite nth_error_mid. reflexivity. Qed.

(* pointers at offset |pre| = |pre'|; t1 / d1 are what is left of the two buffers *)
Lemma walk_suffix_safe : forall t1 d1 pre pre' acc,
  length pre = length pre' -> length t1 <= length d1 ->
  bm25_walk (length t1) (length pre) (pre ++ t1) (pre' ++ d1) avg idf k1 b omb acc
  = Done (rev acc ++ map one (combine t1 d1)).
Proof.
  induction t1 as [|tf t1 IH]; intros d1 pre pre' acc Hp Hl.
  - cbn [length bm25_walk combine map]. rewrite app_nil_r. reflexivity.
  - destruct d1 as [|dl d1]; [cbn [length] in Hl; lia|].
    cbn [length] in Hl. cbn [length bm25_walk combine map].
    unfold frd at 1. rewrite nth_error_mid. cbn [bind].
    rewrite <- (snoc_app pre tf t1), <- (snoc_app pre' dl d1), <- (snoc_length pre tf).
    destruct (is_zero32 tf) eqn:Ez.
    + rewrite IH by (rewrite ?snoc_length; lia).
      cbn [rev]. rewrite <- app_assoc. cbn [app]. unfold one at 2. cbn [fst snd].
      rewrite bm25_one_zero by exact Ez. reflexivity.
    + unfold frd. rewrite (snoc_app pre' dl d1), (snoc_length pre tf), Hp, nth_error_mid. cbn [bind].
      rewrite <- (snoc_app pre' dl d1), <- Hp, <- (snoc_length pre tf).
      rewrite IH by (rewrite ?snoc_length; lia).
      cbn [rev]. rewrite <- app_assoc. reflexivity.
Qed.

(* ================= 2. a short doc_lens faults ================= *)
(* past the end of doc_lens: zeros are skipped, the first non-zero term frequency faults *)
Definition nonzero32 (x : f32) : bool := negb (is_zero32 x).

Lemma walk_past_end dls : forall t1 pre acc, length dls <= length pre ->
  match find nonzero32 t1 with
  | None => bm25_walk (length t1) (length pre) (pre ++ t1) dls avg idf k1 b omb acc = Done (rev acc ++ t1)
  | Some _ => exists j, length dls <= j /\
      bm25_walk (length t1) (length pre) (pre ++ t1) dls avg idf k1 b omb acc = Fault Rd 1 (N.of_nat j)
  end.
Proof.
  induction t1 as [|tf t1 IH]; intros pre acc Hl.
  - cbn [find length bm25_walk]. rewrite app_nil_r. reflexivity.
  - cbn [find length]. rewrite walk_step.
    unfold nonzero32 at 1. destruct (is_zero32 tf) eqn:Ez; cbn [negb].
    + specialize (IH (pre ++ [tf]) (tf :: acc)). rewrite snoc_app, snoc_length in IH.
      specialize (IH ltac:(lia)).
      destruct (find nonzero32 t1).
      * exact IH.
      * rewrite IH. cbn [rev]. rewrite <- app_assoc. reflexivity.
    + exists (length pre). split; [exact Hl|].
      unfold frd. replace (nth_error dls (length pre)) with (@None f32); [reflexivity|].
      symmetry. apply nth_error_None. exact Hl.
Qed.

(* general position: either doc_lens is long enough or the walk reaches its end *)
Lemma walk_suffix_short : forall d1 t1 pre pre' acc,
  length pre = length pre' -> length d1 <= length t1 ->
  match find nonzero32 (skipn (length d1) t1) with
  | None => bm25_walk (length t1) (length pre) (pre ++ t1) (pre' ++ d1) avg idf k1 b omb acc
            = Done (rev acc ++ map one (combine t1 d1) ++ skipn (length d1) t1)
  | Some _ => exists j, length pre' + length d1 <= j /\
      bm25_walk (length t1) (length pre) (pre ++ t1) (pre' ++ d1) avg idf k1 b omb acc = Fault Rd 1 (N.of_nat j)
  end.
Proof.
  induction d1 as [|dl d1 IH]; intros t1 pre pre' acc Hp Hl.
  - cbn [length skipn]. rewrite app_nil_r.
    pose proof (walk_past_end pre' t1 pre acc ltac:(lia)) as H.
    destruct (find nonzero32 t1).
    + destruct H as (j & Hj & E). exists j. split; [lia|exact E].
    + rewrite H. destruct t1; reflexivity.
  - destruct t1 as [|tf t1]; [cbn [length] in Hl; lia|].
    cbn [length] in Hl. cbn [length skipn combine map]. rewrite walk_step.
    assert (Hd : frd 1 (pre' ++ dl :: d1) (length pre) = Done dl).
    { unfold frd. rewrite Hp, nth_error_mid. reflexivity. }
    specialize (IH t1 (pre ++ [tf]) (pre' ++ [dl])).
    rewrite !snoc_app, !snoc_length in IH.
    destruct (is_zero32 tf) eqn:Ez.
    + specialize (IH (tf :: acc) ltac:(lia) ltac:(lia)).
      destruct (find nonzero32 (skipn (length d1) t1)).
      * destruct IH as (j & Hj & E). exists j. split; [lia|exact E].
      * rewrite IH. cbn [rev]. rewrite <- !app_assoc. cbn [app]. unfold one at 2. cbn [fst snd].
        rewrite bm25_one_zero by exact Ez. reflexivity.
    + rewrite Hd. cbn [bind].
      specialize (IH (bm25_one tf dl avg idf k1 b omb :: acc) ltac:(lia) ltac:(lia)).
      destruct (find nonzero32 (skipn (length d1) t1)).
      * destruct IH as (j & Hj & E). exists j. split; [lia|exact E].
      * rewrite IH. cbn [rev]. rewrite <- !app_assoc. reflexivity.
Qed.

(* the sufficient condition with the exact faulting index *)
Lemma walk_suffix_fault_at : forall d1 t1 pre pre' acc tf,
  length pre = length pre' -> nth_error t1 (length d1) = Some tf -> is_zero32 tf = false ->
  bm25_walk (length t1) (length pre) (pre ++ t1) (pre' ++ d1) avg idf k1 b omb acc
  = Fault Rd 1 (N.of_nat (length pre + length d1)).
Proof.
  induction d1 as [|dl d1 IH]; intros t1 pre pre' acc tf Hp Hn Hz.
  - destruct t1 as [|x t1]; [discriminate|]. cbn [length nth_error] in Hn. injection Hn as ->.
    cbn [length]. rewrite walk_step, Hz.
    unfold frd. rewrite app_nil_r, Hp, nth_error_end. cbn [bind]. rewrite Nat.add_0_r. reflexivity.
  - destruct t1 as [|x t1]; [discriminate|]. cbn [length nth_error] in Hn.
    cbn [length]. rewrite walk_step.
    assert (Hd : frd 1 (pre' ++ dl :: d1) (length pre) = Done dl).
    { unfold frd. rewrite Hp, nth_error_mid. reflexivity. }
    specialize (IH t1 (pre ++ [x]) (pre' ++ [dl])).
    rewrite !snoc_app, !snoc_length in IH.
    replace (length pre + S (length d1)) with (S (length pre) + length d1) by lia.
    destruct (is_zero32 x).
    + apply (IH _ tf); [lia|exact Hn|exact Hz].
    + rewrite Hd. cbn [bind]. apply (IH _ tf); [lia|exact Hn|exact Hz].
Qed.
End Walk.

(* ---- (a) ---- *)
Theorem bm25_walk_safe tfs dls avg idf k1 b :
  length tfs <= length dls ->
  bm25_score_walk tfs dls avg idf k1 b = Done (bm25_kernel tfs dls avg idf k1 b).
Proof.
  intro H. unfold bm25_score_walk, bm25_kernel.
  exact (walk_suffix_safe avg idf k1 b (one_minus b) tfs dls [] [] [] eq_refl H).
Qed.

Corollary bm25_walk_no_fault tfs dls avg idf k1 b :
  length tfs <= length dls -> ~ is_fault (bm25_score_walk tfs dls avg idf k1 b).
Proof. intro H. rewrite bm25_walk_safe by exact H. intro F. exact F. Qed.

(* ---- (b) ---- *)
(* a non-zero term frequency at the first index doc_lens does not have: the read of doc_lens faults THERE *)
Theorem bm25_walk_short_faults tfs dls avg idf k1 b tf :
  nth_error tfs (length dls) = Some tf -> is_zero32 tf = false ->
  bm25_score_walk tfs dls avg idf k1 b = Fault Rd 1 (N.of_nat (length dls)).
Proof.
  intros Hn Hz. unfold bm25_score_walk.
  exact (walk_suffix_fault_at avg idf k1 b (one_minus b) dls tfs [] [] [] tf eq_refl Hn Hz).
Qed.

(* exact characterisation: the walk faults iff some term frequency beyond the end of doc_lens is non-zero
   (the only run-time accident that hides a short doc_lens is an all-zero tail of term_freqs) *)
Theorem bm25_walk_fault_iff tfs dls avg idf k1 b :
  is_fault (bm25_score_walk tfs dls avg idf k1 b) <->
  existsb nonzero32 (skipn (length dls) tfs) = true.
Proof.
  unfold bm25_score_walk.
  destruct (Nat.le_gt_cases (length dls) (length tfs)) as [Hl|Hl].
  - pose proof (walk_suffix_short avg idf k1 b (one_minus b) dls tfs [] [] [] eq_refl Hl) as H.
    cbn [app length] in H.
    destruct (find nonzero32 (skipn (length dls) tfs)) as [x|] eqn:Ef.
    + destruct H as (j & _ & E). rewrite E. cbn [is_fault]. split; [intros _|tauto].
      apply existsb_exists. exists x. apply find_some in Ef. exact Ef.
    + rewrite H. cbn [is_fault]. split; [tauto|]. intro Ex. exfalso.
      apply existsb_exists in Ex. destruct Ex as (x & Hin & Hx).
      pose proof (find_none _ _ Ef x Hin) as Hc. congruence.
  - rewrite skipn_all2 by lia. cbn [existsb].
    pose proof (walk_suffix_safe avg idf k1 b (one_minus b) tfs dls [] [] [] eq_refl ltac:(lia)) as H.
    cbn [app length] in H. rewrite H. cbn [is_fault]. split; [tauto|discriminate].
Qed.

(* and when it does not fault, the entries beyond doc_lens are the (zero) term frequencies themselves *)
Theorem bm25_walk_short_done tfs dls avg idf k1 b :
  length dls <= length tfs -> existsb nonzero32 (skipn (length dls) tfs) = false ->
  bm25_score_walk tfs dls avg idf k1 b = Done (bm25_kernel tfs dls avg idf k1 b ++ skipn (length dls) tfs).
Proof.
  intros Hl Hz. unfold bm25_score_walk, bm25_kernel.
  pose proof (walk_suffix_short avg idf k1 b (one_minus b) dls tfs [] [] [] eq_refl Hl) as H.
  cbn [app length] in H.
  destruct (find nonzero32 (skipn (length dls) tfs)) as [x|] eqn:Ef; [|exact H].
  exfalso. apply find_some in Ef. destruct Ef as [Hin Hx].
  assert (Ex : existsb nonzero32 (skipn (length dls) tfs) = true) by (apply existsb_exists; eauto).
  congruence.
Qed.

(* a computed instance: two non-zero term frequencies, one document length *)
Example bm25_walk_short_example :
  bm25_score_walk [f32_of_Z 1; f32_of_Z 2] [f32_of_Z 3]
                  (f32_of_Z 3) (f32_of_Z 1) (f32_of_Z 1) (f32_of_Z 1) = Fault Rd 1 1%N.
Proof. vm_compute. reflexivity. Qed.

(* the value-level model is silent on the same input: combine truncates *)
Example bm25_kernel_truncates :
  length (bm25_kernel [f32_of_Z 1; f32_of_Z 2] [f32_of_Z 3]
                      (f32_of_Z 3) (f32_of_Z 1) (f32_of_Z 1) (f32_of_Z 1)) = 1.
Proof. unfold bm25_kernel. rewrite map_length. reflexivity. Qed.

(* ================= 3. the call site on a fresh index: SearchArray.score ================= *)
(* a dense buffer keeps its length through every successful store *)
Lemma store_length dense i v d : store dense i v = Done d -> length d = length dense.
Proof.
  unfold store. destruct (N.ltb i (N.of_nat (length dense))); [|discriminate].
  intro H. injection H as <-. apply list_set_length.
Qed.

Lemma store_many_length : forall ivs dense d, store_many dense ivs = Done d -> length d = length dense.
Proof.
  induction ivs as [|[i v] t IH]; intros dense d H; cbn [store_many] in H.
  - injection H as <-. reflexivity.
  - destruct (store dense i v) as [d1| |] eqn:E; cbn [bind] in H; try discriminate.
    rewrite (IH d1 d H). exact (store_length dense i v d1 E).
Qed.

(* as_dense: whatever the indices, a result that is returned has exactly  size  entries *)
Lemma as_dense_length idx vals size d : unpy (as_dense idx vals size) = AOk d -> length d = N.to_nat size.
Proof.
  unfold as_dense. destruct (negb (Nat.eqb (length idx) (length vals))); cbn [unpy]; [discriminate|].
  rewrite scatter_naive_store_many.
  destruct (store_many (repeat 0%N (N.to_nat size)) (combine idx vals)) as [d1| |] eqn:E; cbn [lift]; try discriminate.
  intro H. injection H as <-. rewrite (store_many_length _ _ _ E). apply repeat_length.
Qed.

Lemma termfreqs_length ix t tfs : termfreqs ix t = AOk tfs -> length tfs = length (ix_lens ix).
Proof.
  unfold termfreqs. destruct (negb (known ix t)).
  - intro H. injection H as <-. apply repeat_length.
  - destruct (get_posts ix t) as [w| | |]; cbn [abind]; try discriminate.
    destruct (lift (num_values_per_key w)) as [kc| | |]; cbn [abind]; try discriminate.
    intro H. rewrite (as_dense_length _ _ _ _ H). unfold n_docs. apply Nat2N.id.
Qed.

Lemma phrase_freqs_length ix ts tfs : phrase_freqs ix ts = AOk tfs -> length tfs = length (ix_lens ix).
Proof.
  unfold phrase_freqs. destruct (negb (forallb (known ix) ts)).
  - intro H. injection H as <-. apply repeat_length.
  - destruct (Nat.ltb (length ts) 2); [discriminate|].
    destruct (get_all_posts ix ts) as [enc| | |]; cbn [abind]; try discriminate.
    destruct (compute_phrase_freqs enc) as [pf| | |]; cbn [abind]; try discriminate.
    destruct (store_many (repeat 0%N (length (ix_lens ix))) pf) as [d| |] eqn:E; cbn [lift]; try discriminate.
    intro H. injection H as <-. rewrite (store_many_length _ _ _ E). apply repeat_length.
Qed.

Lemma tf_vector_length ix ts tfs : tf_vector ix ts = AOk tfs -> length tfs = length (ix_lens ix).
Proof.
  unfold tf_vector. destruct ts as [|t [|t' r]].
  - apply phrase_freqs_length.
  - apply termfreqs_length.
  - apply phrase_freqs_length.
Qed.

(* ---- (c) ---- no hypothesis on the index: corpus_size / the buffer sizes are computed from doc_lens itself *)
Theorem score_args_lengths ix ts tfs dfs dls total n :
  score_args ix ts = AOk (tfs, dfs, dls, total, n) -> length tfs = length dls.
Proof.
  unfold score_args.
  destruct (all_dfs ix ts) as [dfs0| | |]; cbn [abind]; try discriminate.
  destruct (tf_vector ix ts) as [tfs0| | |] eqn:E; cbn [abind]; try discriminate.
  intro H. injection H as <- _ <- _ _. unfold doclengths. exact (tf_vector_length ix ts tfs0 E).
Qed.

Lemma f32_vec_length (l : list N) : length (map f32_of_Z (map Z.of_N l)) = length l.
Proof. rewrite !map_length. reflexivity. Qed.

Theorem score_args_walk_correct ix ts tfs dfs dls total n avg idf k1 b :
  score_args ix ts = AOk (tfs, dfs, dls, total, n) ->
  bm25_score_walk (map f32_of_Z (map Z.of_N tfs)) (map f32_of_Z (map Z.of_N dls)) avg idf k1 b
  = Done (bm25_kernel (map f32_of_Z (map Z.of_N tfs)) (map f32_of_Z (map Z.of_N dls)) avg idf k1 b).
Proof.
  intro H. apply bm25_walk_safe. rewrite !f32_vec_length.
  rewrite (score_args_lengths _ _ _ _ _ _ _ H). apply Nat.le_refl.
Qed.

Theorem score_args_walk_safe ix ts tfs dfs dls total n avg idf k1 b :
  score_args ix ts = AOk (tfs, dfs, dls, total, n) ->
  ~ is_fault (bm25_score_walk (map f32_of_Z (map Z.of_N tfs)) (map f32_of_Z (map Z.of_N dls)) avg idf k1 b).
Proof. intro H. rewrite (score_args_walk_correct _ _ _ _ _ _ _ avg idf k1 b H). intro F. exact F. Qed.

(* ================= 4. the call site on a view ================= *)
(* the shape facts the call needs:  doc_lens has one entry per row, and an array that is not a
   selection has a posting buffer of one entry per row (p_max_doc_id + 1 = #rows) unless its dictionary is
   empty (the empty array: max_doc_id = 0 there, but then no phrase has only known terms) *)
Definition sarr_len_okb (a : sarray) : bool :=
  Nat.eqb (length (a_lens a)) (length (a_rows a)) &&
  (a_subset a
   || match a_terms a with [] => true | _ => false end
   || Nat.eqb (N.to_nat (p_max_doc_id (a_posns a) + 1)) (length (a_rows a))).

Lemma gather_length {A} (d : A) l pos : length (View.gather d l pos) = length pos.
Proof. unfold View.gather. apply map_length. Qed.

(* every selection has the shape, whatever it was selected from *)
Lemma select_len_ok a pos a' : select a pos = AOk a' -> sarr_len_okb a' = true.
Proof.
  unfold select.
  match goal with |- abind ?h _ = _ -> _ => destruct h as [h'| | |] end; cbn [abind]; try discriminate.
  intro H. injection H as <-. unfold sarr_len_okb. cbn [a_lens a_rows a_subset orb].
  rewrite !gather_length, Nat.eqb_refl. reflexivity.
Qed.

(* the array made from an index has it as soon as an index without documents has no terms *)
Lemma of_index_len_ok ix avoid : (ix_lens ix = [] -> ix_terms ix = []) -> sarr_len_okb (of_index ix avoid) = true.
Proof.
  intro H. unfold sarr_len_okb, of_index. cbn [a_lens a_rows a_subset a_terms a_posns p_max_doc_id orb].
  rewrite map_length, seq_length, Nat.eqb_refl. cbn [andb].
  destruct (ix_lens ix) as [|x l].
  - rewrite (H eq_refl). reflexivity.
  - apply orb_true_iff. right. apply Nat.eqb_eq. cbn [length]. lia.
Qed.

Lemma of_index_len_ok_index_ok docs ix avoid : index_ok docs ix -> sarr_len_okb (of_index ix avoid) = true.
Proof.
  intros (_ & _ & Ht & Hl). apply of_index_len_ok. rewrite Ht, Hl.
  destruct docs as [|d docs]; [reflexivity|]. cbn [lens_spec map]. discriminate.
Qed.

Lemma select_chain_len_ok : forall keys a v, sarr_len_okb a = true -> select_chain a keys = AOk v -> sarr_len_okb v = true.
Proof.
  induction keys as [|k rest IH]; intros a v Ha H; cbn [select_chain] in H.
  - injection H as <-. exact Ha.
  - destruct (select a k) as [a1| | |] eqn:E; cbn [abind] in H; try discriminate.
    exact (IH a1 v (select_len_ok a k a1 E) H).
Qed.

(* every view of an array built by index(): no condition on the keys *)
Theorem view_len_ok docs bs ix avoid keys v :
  wf_docs docs -> index false bs docs = AOk ix -> select_chain (of_index ix avoid) keys = AOk v ->
  sarr_len_okb v = true.
Proof.
  intros Hwf E Ev. apply (select_chain_len_ok keys (of_index ix avoid) v); [|exact Ev].
  apply (of_index_len_ok_index_ok docs). exact (index_ok_of docs bs ix Hwf E).
Qed.

Lemma v_termfreqs_length a t lo hi tfs : v_termfreqs a t lo hi = AOk tfs -> length tfs = length (a_rows a).
Proof.
  unfold v_termfreqs, nrows. destruct (negb (known_a a t)).
  - intro H. injection H as <-. apply repeat_length.
  - destruct (a_subset a).
    + destruct (get_enc (p_handle (a_posns a)) t) as [enc| | |]; cbn [abind]; try discriminate.
      destruct (lift (slice_keys enc (np_unique (a_rows a)))) as [s| | |]; cbn [abind]; try discriminate.
      destruct (api_of_range (slice_range_w s lo hi)) as [s2| | |]; cbn [abind]; try discriminate.
      destruct (lift (num_values_per_key s2)) as [kc| | |]; cbn [abind]; try discriminate.
      destruct (unpy (as_dense (map fst kc) (map snd kc) (p_max_doc_id (a_posns a) + 1))) as [dense| | |];
        cbn [abind]; try discriminate.
      intro H. injection H as <-. apply gather_length.
    + destruct (get_enc (p_handle (a_posns a)) t) as [enc| | |]; cbn [abind]; try discriminate.
      match goal with |- abind ?s _ = _ -> _ => destruct s as [s2| | |] end; cbn [abind]; try discriminate.
      destruct (lift (num_values_per_key s2)) as [kc| | |]; cbn [abind]; try discriminate.
      intro H. rewrite (as_dense_length _ _ _ _ H). apply Nat2N.id.
Qed.

Lemma forallb_known_nil a ts : a_terms a = [] -> forallb (known_a a) ts = true -> ts = [].
Proof.
  intros Ht H. destruct ts as [|t r]; [reflexivity|]. cbn [forallb] in H.
  unfold known_a in H at 1. rewrite Ht in H. cbn [existsb andb] in H. discriminate.
Qed.

Lemma v_phrase_freqs_length a ts lo hi tfs : sarr_len_okb a = true ->
  v_phrase_freqs a ts lo hi = AOk tfs -> length tfs = length (a_rows a).
Proof.
  intro Hok. unfold v_phrase_freqs, nrows. destruct (forallb (known_a a) ts) eqn:K; cbn [negb].
  2:{ intro H. injection H as <-. apply repeat_length. }
  destruct (Nat.ltb (length ts) 2) eqn:L2; [discriminate|].
  destruct (get_all_enc (p_handle (a_posns a)) ts lo hi) as [enc| | |]; cbn [abind]; try discriminate.
  destruct (compute_phrase_freqs enc) as [pf| | |]; cbn [abind]; try discriminate.
  destruct (store_many (repeat 0%N (N.to_nat (p_max_doc_id (a_posns a) + 1))) pf) as [d| |] eqn:E;
    cbn [lift abind]; try discriminate.
  unfold sarr_len_okb in Hok. apply andb_true_iff in Hok. destruct Hok as [_ Hok].
  destruct (a_subset a).
  - intro H. injection H as <-. apply gather_length.
  - intro H. injection H as <-. rewrite (store_many_length _ _ _ E), repeat_length.
    cbn [orb] in Hok. apply orb_true_iff in Hok. destruct Hok as [Hnil|Heq].
    + destruct (a_terms a) eqn:Et; [|discriminate].
      rewrite (forallb_known_nil a ts Et K) in L2. cbn in L2. discriminate.
    + apply Nat.eqb_eq. exact Heq.
Qed.

Lemma v_tf_vector_length a ts lo hi tfs : sarr_len_okb a = true ->
  v_tf_vector a ts lo hi = AOk tfs -> length tfs = length (a_rows a).
Proof.
  intro Hok. unfold v_tf_vector. destruct ts as [|t [|t' r]].
  - apply v_phrase_freqs_length. exact Hok.
  - apply v_termfreqs_length.
  - apply v_phrase_freqs_length. exact Hok.
Qed.

(* ---- (d) ---- *)
Theorem v_score_args_lengths a ts lo hi tfs dfs dls total n : sarr_len_okb a = true ->
  v_score_args a ts lo hi = AOk (tfs, dfs, dls, total, n) -> length tfs = length dls.
Proof.
  intro Hok. unfold v_score_args.
  destruct (v_all_dfs a ts) as [dfs0| | |]; cbn [abind]; try discriminate.
  destruct (v_tf_vector a ts lo hi) as [tfs0| | |] eqn:E; cbn [abind]; try discriminate.
  intro H. injection H as <- _ <- _ _. unfold v_doclengths.
  rewrite (v_tf_vector_length a ts lo hi tfs0 Hok E).
  unfold sarr_len_okb in Hok. apply andb_true_iff in Hok. destruct Hok as [Hl _].
  apply Nat.eqb_eq in Hl. symmetry. exact Hl.
Qed.

Theorem v_score_args_walk_correct a ts lo hi tfs dfs dls total n avg idf k1 b : sarr_len_okb a = true ->
  v_score_args a ts lo hi = AOk (tfs, dfs, dls, total, n) ->
  bm25_score_walk (map f32_of_Z (map Z.of_N tfs)) (map f32_of_Z (map Z.of_N dls)) avg idf k1 b
  = Done (bm25_kernel (map f32_of_Z (map Z.of_N tfs)) (map f32_of_Z (map Z.of_N dls)) avg idf k1 b).
Proof.
  intros Hok H. apply bm25_walk_safe. rewrite !f32_vec_length.
  rewrite (v_score_args_lengths _ _ _ _ _ _ _ _ _ Hok H). apply Nat.le_refl.
Qed.

Theorem v_score_args_walk_safe a ts lo hi tfs dfs dls total n avg idf k1 b : sarr_len_okb a = true ->
  v_score_args a ts lo hi = AOk (tfs, dfs, dls, total, n) ->
  ~ is_fault (bm25_score_walk (map f32_of_Z (map Z.of_N tfs)) (map f32_of_Z (map Z.of_N dls)) avg idf k1 b).
Proof. intros Hok H. rewrite (v_score_args_walk_correct _ _ _ _ _ _ _ _ _ avg idf k1 b Hok H). intro F. exact F. Qed.

(* end to end: any chain of selections on an array built by index() *)
Corollary view_score_walk_safe docs bs ix avoid keys v ts lo hi tfs dfs dls total n avg idf k1 b :
  wf_docs docs -> index false bs docs = AOk ix -> select_chain (of_index ix avoid) keys = AOk v ->
  v_score_args v ts lo hi = AOk (tfs, dfs, dls, total, n) ->
  ~ is_fault (bm25_score_walk (map f32_of_Z (map Z.of_N tfs)) (map f32_of_Z (map Z.of_N dls)) avg idf k1 b).
Proof.
  intros Hwf E Ev H. apply (v_score_args_walk_safe v ts lo hi tfs dfs dls total n); [|exact H].
  exact (view_len_ok docs bs ix avoid keys v Hwf E Ev).
Qed.

(* the shape predicate is needed: the model of a view passes doc_lens through untouched, so an array whose
   doc_lens is shorter than its rows (here: a correct 2-document index with a_lens cut to one entry)
   violates sarr_len_okb, still answers v_score_args, and the kernel then reads past doc_lens *)
Definition short_lens_array (ix : sindex) : sarray :=
  let a := of_index ix false in
  {| a_terms := a_terms a; a_posns := a_posns a; a_rows := a_rows a; a_subset := false;
     a_lens := firstn 1 (a_lens a); a_total := a_total a; a_n := a_n a; a_avoid_copies := false |}.
Definition short_lens_run :=
  match index false 2 [[1%N; 2%N]; [1%N; 2%N]] with
  | AOk ix =>
      match v_score_args (short_lens_array ix) [1%N; 2%N] None None with
      | AOk (tfs, dfs, dls, total, n) =>
          Some (sarr_len_okb (short_lens_array ix), tfs, dls,
                bm25_score_walk (map f32_of_Z (map Z.of_N tfs)) (map f32_of_Z (map Z.of_N dls))
                                (f32_of_Z 2) (f32_of_Z 1) (f32_of_Z 1) (f32_of_Z 1))
      | _ => None
      end
  | _ => None
  end.
Example short_lens_faults : short_lens_run = Some (false, [1%N; 1%N], [2%N], Fault Rd 1 1%N).
Proof. vm_compute. reflexivity. Qed.

Print Assumptions bm25_walk_safe.
Print Assumptions bm25_walk_short_faults.
Print Assumptions bm25_walk_fault_iff.
Print Assumptions bm25_walk_short_done.
Print Assumptions bm25_walk_short_example.
Print Assumptions score_args_lengths.
Print Assumptions score_args_walk_correct.
Print Assumptions score_args_walk_safe.
Print Assumptions view_len_ok.
Print Assumptions v_score_args_lengths.
Print Assumptions v_score_args_walk_safe.
Print Assumptions view_score_walk_safe.
