(* C04, real-number side: the BM25 formula over R, its zero / sign / bound facts, the legacy
   (k1+1)-scaled variant and positivity of the Lucene idf  ln(1 + (N - df + 1/2)/(df + 1/2)).
   Nothing here mentions floating point; BM25_Proofs.v relates the binary32 kernel to [bm25_R]. *)
From Coq Require Import Reals Lra List.
Import ListNotations.
Open Scope R_scope.

Definition bm25_R (idf tf len avg k1 b : R) : R :=
  idf * tf / (tf + k1 * (1 - b + b * len / avg)).
Definition legacy_R (idf tf len avg k1 b : R) : R :=
  idf * (tf * (k1 + 1)) / (tf + k1 * (1 - b + b * len / avg)).
Definition idf_term (N df : R) : R := ln (1 + (N - df + /2) / (df + /2)).
(* idf of a multi-term query: the sum of the per-term idfs *)
Definition idf_sum (N : R) (dfs : list R) : R := fold_right (fun df acc => idf_term N df + acc) 0 dfs.

(* 5. tf = 0 scores exactly 0, whatever the denominator is (0 / x = 0 in R, also for x = 0) *)
Theorem bm25_R_zero idf len avg k1 b : bm25_R idf 0 len avg k1 b = 0.
Proof. unfold bm25_R, Rdiv. rewrite Rmult_0_r. apply Rmult_0_l. Qed.

Theorem legacy_R_zero idf len avg k1 b : legacy_R idf 0 len avg k1 b = 0.
Proof. unfold legacy_R, Rdiv. rewrite Rmult_0_l, Rmult_0_r. apply Rmult_0_l. Qed.

(* the length-normalisation factor is strictly positive *)
Lemma norm_factor_pos b len avg :
  0 <= b < 1 -> 0 <= len -> 0 < avg -> 0 < 1 - b + b * len / avg.
Proof.
  intros [Hb0 Hb1] Hl Ha.
  assert (0 <= b * len / avg).
  { unfold Rdiv. apply Rmult_le_pos. apply Rmult_le_pos; assumption.
    left. apply Rinv_0_lt_compat. assumption. }
  lra.
Qed.

(* 6. the denominator is strictly positive on the BM25 parameter domain *)
Theorem bm25_R_denominator_pos tf len avg k1 b :
  0 < tf -> 0 < k1 -> 0 <= b < 1 -> 0 <= len -> 0 < avg ->
  0 < tf + k1 * (1 - b + b * len / avg).
Proof.
  intros Ht Hk Hb Hl Ha.
  pose proof (norm_factor_pos b len avg Hb Hl Ha) as Hn.
  pose proof (Rmult_lt_0_compat _ _ Hk Hn). lra.
Qed.

(* ... and strictly larger than tf (this is what keeps the score below idf) *)
Lemma bm25_R_denominator_gt_tf tf len avg k1 b :
  0 < k1 -> 0 <= b < 1 -> 0 <= len -> 0 < avg ->
  tf < tf + k1 * (1 - b + b * len / avg).
Proof.
  intros Hk Hb Hl Ha.
  pose proof (norm_factor_pos b len avg Hb Hl Ha) as Hn.
  pose proof (Rmult_lt_0_compat _ _ Hk Hn). lra.
Qed.

(* 7. legacy = (k1 + 1) * modern -- unconditional: with a zero denominator both sides are 0 in R *)
Theorem legacy_is_k1_plus_1_times_modern idf tf len avg k1 b :
  legacy_R idf tf len avg k1 b = (k1 + 1) * bm25_R idf tf len avg k1 b.
Proof. unfold legacy_R, bm25_R, Rdiv. ring. Qed.

(* 8. the idf of one term is strictly positive whenever 0 <= df <= N *)
Theorem idf_term_arg_gt_1 N df : 0 <= df <= N -> 1 < 1 + (N - df + /2) / (df + /2).
Proof.
  intros [H0 H1].
  assert (0 < (N - df + /2) / (df + /2)).
  { unfold Rdiv. apply Rmult_lt_0_compat. lra. apply Rinv_0_lt_compat. lra. }
  lra.
Qed.

Theorem idf_term_pos N df : 0 <= df <= N -> 0 < idf_term N df.
Proof.
  intros H. unfold idf_term. rewrite <- ln_1.
  apply ln_increasing. lra. apply idf_term_arg_gt_1, H.
Qed.

Lemma idf_sum_nonneg N dfs : Forall (fun df => 0 <= df <= N) dfs -> 0 <= idf_sum N dfs.
Proof.
  induction 1 as [|df dfs H _ IH]; simpl. lra.
  pose proof (idf_term_pos N df H). lra.
Qed.

Theorem idf_sum_pos N dfs :
  dfs <> [] -> Forall (fun df => 0 <= df <= N) dfs -> 0 < idf_sum N dfs.
Proof.
  intros Hne HF. destruct HF as [|df dfs H HF]. congruence.
  simpl. pose proof (idf_term_pos N df H). pose proof (idf_sum_nonneg N dfs HF). lra.
Qed.

(* 9. on the parameter domain the score lies strictly between 0 and idf *)
Theorem bm25_R_bounds idf tf len avg k1 b :
  0 < tf -> 0 < k1 -> 0 <= b < 1 -> 0 <= len -> 0 < avg -> 0 < idf ->
  0 < bm25_R idf tf len avg k1 b < idf.
Proof.
  intros Ht Hk Hb Hl Ha Hi.
  pose proof (bm25_R_denominator_gt_tf tf len avg k1 b Hk Hb Hl Ha) as HD.
  unfold bm25_R. set (D := tf + k1 * (1 - b + b * len / avg)) in *.
  assert (HD0 : 0 < D) by lra.
  split.
  - unfold Rdiv. apply Rmult_lt_0_compat. apply Rmult_lt_0_compat; assumption.
    apply Rinv_0_lt_compat, HD0.
  - apply Rmult_lt_reg_r with D. exact HD0.
    unfold Rdiv. rewrite Rmult_assoc, Rinv_l by lra. rewrite Rmult_1_r.
    apply Rmult_lt_compat_l; assumption.
Qed.

(* the legacy score is likewise bounded by (k1+1)*idf *)
Corollary legacy_R_bounds idf tf len avg k1 b :
  0 < tf -> 0 < k1 -> 0 <= b < 1 -> 0 <= len -> 0 < avg -> 0 < idf ->
  0 < legacy_R idf tf len avg k1 b < (k1 + 1) * idf.
Proof.
  intros Ht Hk Hb Hl Ha Hi. rewrite legacy_is_k1_plus_1_times_modern.
  destruct (bm25_R_bounds idf tf len avg k1 b Ht Hk Hb Hl Ha Hi) as [H0 H1].
  split. apply Rmult_lt_0_compat; lra. apply Rmult_lt_compat_l; lra.
Qed.

(* with the summed idf of a non-empty query whose dfs are admissible, the score is positive and below it *)
Corollary bm25_R_idf_sum_bounds N dfs tf len avg k1 b :
  dfs <> [] -> Forall (fun df => 0 <= df <= N) dfs ->
  0 < tf -> 0 < k1 -> 0 <= b < 1 -> 0 <= len -> 0 < avg ->
  0 < bm25_R (idf_sum N dfs) tf len avg k1 b < idf_sum N dfs.
Proof. intros Hne HF; intros. apply bm25_R_bounds; try assumption. apply idf_sum_pos; assumption. Qed.

Print Assumptions bm25_R_zero.
Print Assumptions bm25_R_denominator_pos.
Print Assumptions legacy_is_k1_plus_1_times_modern.
Print Assumptions idf_term_pos.
Print Assumptions idf_sum_pos.
Print Assumptions bm25_R_bounds.
Print Assumptions legacy_R_bounds.
