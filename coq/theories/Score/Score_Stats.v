(* C04, "the similarity is CALLED with exactly the right statistics".

   SearchArray.score (postings.py 649-680) evaluates, in this order,
       all_dfs  = [self.docfreq(t) for t in tokens]          (0 for a term that is not in the dictionary)
       tfs      = self.termfreqs(token, ...)                 (str -> term path, list of >= 2 -> phrase path;
                                                              a missing term -> a vector of zeros)
       doc_lens = self.doclengths()
       similarity(tfs, all_dfs, doc_lens, self.avg_doc_length, self.corpus_size)
   and Score/Score.v [score_args] is that tuple on the index model.  This file states what the five
   components ARE in terms of the token lists alone (Index/Index_Spec.v, Query/Phrase_Spec.v), for the index
   of EVERY corpus within the limits and every batch size.

   The average length is not a component of the model tuple: the model hands over the pair
   (total, n) = (sum of the lengths, number of rows) and the average is total / n  (avg_doc_length = np.mean of
   the float32 lengths = the correctly rounded total / n while total < 2^24; Score/AvgLen.v; for n = 0 the
   code takes 0).  [score_bits] receives the same pair.

   idf is NOT computed by the model: [score_bm25] takes its binary64 bit pattern as an input and the harness
   (harness/props/c04.py: idf_of) evaluates   np.sum(np.log(1 + (n - dfs + 0.5) / (dfs + 0.5)))   — the
   expression of similarity.py compute_idf (19-21) — on the document frequencies.  What the model does fix is
   WHICH document frequencies: [map (df_spec docs) ts], one per query term, in query order, repeated terms
   repeated.  Section 3 records the real-number formula ([idf_of], [phrase_idf]): a sum over the query's terms,
   hence additive, independent of the order of the terms, and strictly positive.

   Views: the same statement for any chain of row selections is View_Proofs.C06_score_args
   (Props/C06.v: C06_score_statistics): view tf and view lengths, PARENT df / total / n. *)
From Coq Require Import ZArith List Bool Lia Reals Lra Permutation.
From SA Require Import Base.Prelude Index.Index Index.Index_Spec Index.Index_Proofs2 Index.Index_Proofs3
  Query.Phrase Query.Phrase_Spec Query.Phrase_Repeats View.View_Phrase3 Score.BM25 Score.Score Score.BM25_Real.
Import ListNotations.
Open Scope N_scope.

(* ================= 1. the index of a corpus ================= *)
Lemma index_ok_of' docs bs ix : wf_docs docs -> index false bs docs = AOk ix -> index_ok docs ix.
Proof.
  intros Hwf E. destruct (index_any_ok docs bs Hwf) as (ix' & E' & Hok). rewrite E in E'. inversion E'; subst. exact Hok.
Qed.

(* one document frequency per query term, in query order (an absent term: 0 = df_spec) *)
Lemma all_dfs_spec docs ix ts : wf_docs docs -> index_ok docs ix -> all_dfs ix ts = AOk (map (df_spec docs) ts).
Proof.
  intros Hwf Hok. induction ts as [|t r IH]; [reflexivity|].
  cbn [all_dfs map]. rewrite (docfreq_ok docs ix Hwf Hok t). cbn [abind]. rewrite IH. reflexivity.
Qed.

Section OnIndex.
Variables (docs : list (list N)) (bs : nat) (ix : sindex).
Hypothesis Hwf : wf_docs docs.
Hypothesis E : index false bs docs = AOk ix.

(* ================= 2. the statistics ================= *)
(* a single term, present in the corpus or not (absent: tf = zeros = tf_spec, df = 0 = df_spec) *)
Theorem score_args_single_term t :
  score_args ix [t] =
    AOk (tf_spec docs t, [df_spec docs t], lens_spec docs, total_spec docs, N.of_nat (length docs)).
Proof.
  pose proof (index_ok_of' docs bs ix Hwf E) as Hok.
  destruct (doclens_ok docs ix Hok) as (Dl & Dn & Dt).
  unfold score_args. rewrite (all_dfs_spec docs ix [t] Hwf Hok). cbn [abind map tf_vector].
  rewrite (termfreqs_ok docs ix Hwf Hok t). cbn [abind]. rewrite Dl, Dn, Dt. reflexivity.
Qed.

(* two or more terms: the frequency vector is the phrase path's answer, whatever it is *)
Lemma score_args_phrase_raw ts : (2 <= length ts)%nat ->
  score_args ix ts =
    ado tfs <- phrase_freqs ix ts;
    AOk (tfs, map (df_spec docs) ts, lens_spec docs, total_spec docs, N.of_nat (length docs)).
Proof.
  intro Hlen. pose proof (index_ok_of' docs bs ix Hwf E) as Hok.
  destruct (doclens_ok docs ix Hok) as (Dl & Dn & Dt).
  unfold score_args. rewrite (all_dfs_spec docs ix ts Hwf Hok). cbn [abind].
  assert (Etf : tf_vector ix ts = phrase_freqs ix ts).
  { destruct ts as [|a [|b r]]; [cbn [length] in Hlen; lia|cbn [length] in Hlen; lia|reflexivity]. }
  rewrite Etf, Dl, Dn, Dt. reflexivity.
Qed.

(* every phrase of two or more terms (immediate repetitions included, terms present or not): the call succeeds,
   the tf vector is [phrase_freqs ix ts], one entry per document, positive exactly where the phrase occurs and
   between the non-overlapping and the overlapping occurrence counts (C03) *)
Theorem score_args_phrase ts : (2 <= length ts)%nat ->
  exists tfs,
    phrase_freqs ix ts = AOk tfs /\
    score_args ix ts = AOk (tfs, map (df_spec docs) ts, lens_spec docs, total_spec docs, N.of_nat (length docs)) /\
    length tfs = length docs /\
    (forall d, (d < length docs)%nat ->
       (nth d tfs 0 > 0 <-> occ ts (nth d docs []) > 0) /\
       nonoverlapping ts (nth d docs []) <= nth d tfs 0 <= occ ts (nth d docs [])) /\
    (is_const ts = false -> tfs = phrase_spec docs ts).
Proof.
  intro Hlen. pose proof (index_ok_of' docs bs ix Hwf E) as Hok.
  destruct (phrase_repeats_on_index docs ix ts Hwf Hok Hlen) as (tfs & Ep & Hl & Hb).
  exists tfs. split; [exact Ep|]. split; [rewrite (score_args_phrase_raw ts Hlen), Ep; reflexivity|].
  split; [exact Hl|]. split; [exact Hb|].
  intro Hnc. destruct (phrase_exact_nonconst_on_index docs bs ts Hwf Hlen Hnc) as (ix' & E' & Ex).
  rewrite E in E'. inversion E'; subst ix'. rewrite Ep in Ex. inversion Ex. reflexivity.
Qed.

(* the phrase mentions two different terms (every phrase without an immediately repeated term does): the tf vector
   is the occurrence count of the phrase *)
Theorem score_args_phrase_exact ts : (2 <= length ts)%nat -> is_const ts = false ->
  score_args ix ts =
    AOk (phrase_spec docs ts, map (df_spec docs) ts, lens_spec docs, total_spec docs, N.of_nat (length docs)).
Proof.
  intros Hlen Hnc. destruct (score_args_phrase ts Hlen) as (tfs & _ & Ea & _ & _ & Hx).
  rewrite Ea, (Hx Hnc). reflexivity.
Qed.

(* the default / parameterised BM25 of the model is the binary32 kernel on exactly those statistics *)
Definition query_tf_spec (ts : list N) : list N :=
  match ts with [t] => tf_spec docs t | _ => phrase_spec docs ts end.

Theorem score_bm25_on_spec ts idf k1 b :
  (length ts = 1 \/ (2 <= length ts /\ is_const ts = false))%nat ->
  score_bm25 ix ts idf k1 b =
    AOk (score_bits (map Z.of_N (query_tf_spec ts)) (map Z.of_N (lens_spec docs))
                    (Z.of_N (total_spec docs)) (Z.of_N (N.of_nat (length docs))) idf k1 b).
Proof.
  intros [H1|[H2 Hnc]]; unfold score_bm25.
  - destruct ts as [|t [|u r]]; try (cbn [length] in H1; lia).
    rewrite score_args_single_term. reflexivity.
  - rewrite (score_args_phrase_exact ts H2 Hnc). cbn [abind].
    destruct ts as [|a [|c r]]; [cbn [length] in H2; lia|cbn [length] in H2; lia|reflexivity].
Qed.
End OnIndex.

Lemma no_adjacent_repeat_not_const ts : (2 <= length ts)%nat -> no_adjacent_repeat ts = true -> is_const ts = false.
Proof.
  destruct ts as [|a [|c r]]; cbn [length]; try lia. intros _ H.
  cbn [no_adjacent_repeat] in H. apply andb_true_iff in H. destruct H as [H _].
  cbn [is_const forallb]. destruct (a =? c); [discriminate H|reflexivity].
Qed.

(* ================= 3. the idf formula (an input of the model) ================= *)
Open Scope R_scope.
(* similarity.py compute_idf:  np.sum(np.log(1 + (num_docs - dfs + 0.5) / (dfs + 0.5))) *)
Definition idf_of (n df : R) : R := ln (1 + (n - df + 1/2) / (df + 1/2)).
Definition phrase_idf (n : R) (dfs : list R) : R := fold_right Rplus 0 (map (idf_of n) dfs).

Lemma idf_of_is_idf_term n df : idf_of n df = idf_term n df.
Proof. unfold idf_of, idf_term. replace (1/2) with (/2) by lra. reflexivity. Qed.

Lemma phrase_idf_is_idf_sum n dfs : phrase_idf n dfs = idf_sum n dfs.
Proof.
  unfold phrase_idf, idf_sum. induction dfs as [|d r IH]; [reflexivity|].
  cbn [map fold_right]. rewrite IH, idf_of_is_idf_term. reflexivity.
Qed.

Lemma phrase_idf_single n df : phrase_idf n [df] = idf_of n df.
Proof. unfold phrase_idf. cbn [map fold_right]. lra. Qed.

(* a sum over the terms *)
Theorem phrase_idf_app n a b : phrase_idf n (a ++ b) = phrase_idf n a + phrase_idf n b.
Proof.
  unfold phrase_idf. induction a as [|x r IH]; cbn [app map fold_right]; [lra|]. rewrite IH. lra.
Qed.

Theorem phrase_idf_cons n df dfs : phrase_idf n (df :: dfs) = idf_of n df + phrase_idf n dfs.
Proof. reflexivity. Qed.

(* ... in any order *)
Theorem phrase_idf_perm n a b : Permutation a b -> phrase_idf n a = phrase_idf n b.
Proof.
  induction 1 as [|x l l' _ IH|x y l|l l' l'' _ IH1 _ IH2].
  - reflexivity.
  - rewrite !phrase_idf_cons, IH. reflexivity.
  - rewrite !phrase_idf_cons. lra.
  - rewrite IH1. exact IH2.
Qed.

(* strictly positive for every non-empty query whose document frequencies lie in [0, n]
   (the case of df_spec: 0 <= df <= number of rows; n >= 1 is not needed: n = df = 0 gives ln 2) *)
Theorem phrase_idf_pos n dfs : dfs <> [] -> Forall (fun df => 0 <= df <= n) dfs -> 0 < phrase_idf n dfs.
Proof. intros Hne HF. rewrite phrase_idf_is_idf_sum. apply idf_sum_pos; assumption. Qed.

(* the document frequencies of the specification are in that range *)
Lemma df_spec_le docs t : (df_spec docs t <= N.of_nat (length docs))%N.
Proof.
  unfold df_spec. apply N2Z.inj_le. rewrite !nat_N_Z. apply Nat2Z.inj_le.
  induction docs as [|d r IH]; [apply Nat.le_refl|].
  cbn [filter]. destruct (existsb (N.eqb t) d); cbn [length]; lia.
Qed.

Definition R_of_N (x : N) : R := IZR (Z.of_N x).

Theorem query_idf_pos docs ts : ts <> [] ->
  0 < phrase_idf (R_of_N (N.of_nat (length docs))) (map (fun t => R_of_N (df_spec docs t)) ts).
Proof.
  intro Hne. apply phrase_idf_pos.
  - destruct ts; [congruence|discriminate].
  - apply Forall_forall. intros x Hx. apply in_map_iff in Hx. destruct Hx as (t & <- & _).
    unfold R_of_N. pose proof (df_spec_le docs t). split.
    + apply IZR_le. lia.
    + apply IZR_le. lia.
Qed.
Close Scope R_scope.

(* ================= 4. non-vacuity ================= *)
Definition stats_ex_docs : list (list N) := [[1;2;1;2;3];[];[2;1];[1;1;2;7]].
Example stats_ex_wf : wf_docs stats_ex_docs.
Proof. unfold stats_ex_docs. split; [repeat constructor|]; cbn; lia. Qed.
(* phrase [1;2] (two occurrences in document 0, none in [2;1]), a phrase with an absent term, a repeated term *)
Example stats_ex_args :
  match index false 3 stats_ex_docs with
  | AOk ix =>
      score_args ix [1;2] = AOk ([2;0;0;1], [3;3], [5;0;2;4], 11, 4) /\
      score_args ix [2;1] = AOk ([1;0;1;0], [3;3], [5;0;2;4], 11, 4) /\
      score_args ix [1;9] = AOk ([0;0;0;0], [3;0], [5;0;2;4], 11, 4) /\
      score_args ix [1;1;2] = AOk ([0;0;0;1], [3;3;3], [5;0;2;4], 11, 4) /\
      score_args ix [7] = AOk ([0;0;0;1], [1], [5;0;2;4], 11, 4) /\
      score_args ix [9] = AOk ([0;0;0;0], [0], [5;0;2;4], 11, 4)
  | _ => False end.
Proof. vm_compute. repeat split. Qed.
Example stats_ex_spec :
  phrase_spec stats_ex_docs [1;2] = [2;0;0;1] /\ map (df_spec stats_ex_docs) [1;2] = [3;3] /\ lens_spec stats_ex_docs = [5;0;2;4] /\
  total_spec stats_ex_docs = 11 /\ is_const [1;2] = false /\ is_const [1;1;2] = false.
Proof. vm_compute. repeat split. Qed.

Print Assumptions score_args_single_term.
Print Assumptions score_args_phrase.
Print Assumptions score_args_phrase_exact.
Print Assumptions score_bm25_on_spec.
Print Assumptions phrase_idf_app.
Print Assumptions phrase_idf_perm.
Print Assumptions phrase_idf_pos.
Print Assumptions query_idf_pos.
