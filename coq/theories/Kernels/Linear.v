(* Line-level models of merge.pyx, unique.pyx, search.pyx, popcount.pyx, roaringish_ops.pyx and
   scatter_assign.h.  Checked reads and writes; buffers numbered per kernel:
   0 = first input, 1 = second input, 2.. = outputs.  float32 counters are N (all values are
   integers below 2^24 where the code uses them; stated with the theorems).  No proofs here. *)
From SA Require Import Base.Prelude Gen.SourceConsts.
Open Scope N_scope.

(* =========================== merge.pyx =========================== *)
Section Merge.
Variables (L R : mem).
Let nl := mlen L.
Let nr := mlen R.
Variable cap : N.   (* len(lhs) + len(rhs) *)

(* tail copies: while ptr < end: result_ptr[0] = ptr[0]; ... *)
Fixpoint copy_tail (buf : N) (A : mem) (fuel : nat) (i : N) (out : list N) (no : N) : result (list N * N) :=
  match fuel with
  | O => OutOfFuel
  | S f =>
      if i <? mlen A then
        do x <- rd buf A i; do _ <- wr_ok 2 cap no; copy_tail buf A f (i + 1) (x :: out) (no + 1)
      else Done (out, no)
  end.

(* _merge (54-92): on equal heads BOTH are written *)
Fixpoint merge_loop (fuel : nat) (i j : N) (out : list N) (no : N) : result (list N) :=
  match fuel with
  | O => OutOfFuel
  | S f =>
      if andb (i <? nl) (j <? nr) then
        do x <- rd 0 L i; do y <- rd 1 R j;
        if x <? y then do _ <- wr_ok 2 cap no; merge_loop f (i + 1) j (x :: out) (no + 1)
        else if y <? x then do _ <- wr_ok 2 cap no; merge_loop f i (j + 1) (y :: out) (no + 1)
        else do _ <- wr_ok 2 cap no; do _ <- wr_ok 2 cap (no + 1);
             merge_loop f (i + 1) (j + 1) (y :: x :: out) (no + 2)
      else
        (* while lhs_ptr == end_lhs_ptr and rhs_ptr < end_rhs_ptr *)
        do t1 <- (if i =? nl then copy_tail 1 R (S (N.to_nat nr)) j out no else Done (out, no));
        (* while rhs_ptr == end_rhs_ptr and lhs_ptr < end_lhs_ptr; j is at the end iff the first tail ran or j = nr *)
        let j' := if i =? nl then N.max j nr else j in
        do t2 <- (if j' =? nr then copy_tail 0 L (S (N.to_nat nl)) i (fst t1) (snd t1) else Done t1);
        Done (rev (fst t2))
  end.

(* _merge_w_drop (95-132): on equal heads ONE is written *)
Fixpoint merge_drop_loop (fuel : nat) (i j : N) (out : list N) (no : N) : result (list N) :=
  match fuel with
  | O => OutOfFuel
  | S f =>
      if andb (i <? nl) (j <? nr) then
        do x <- rd 0 L i; do y <- rd 1 R j;
        if x <? y then do _ <- wr_ok 2 cap no; merge_drop_loop f (i + 1) j (x :: out) (no + 1)
        else if y <? x then do _ <- wr_ok 2 cap no; merge_drop_loop f i (j + 1) (y :: out) (no + 1)
        else do _ <- wr_ok 2 cap no; merge_drop_loop f (i + 1) (j + 1) (x :: out) (no + 1)
      else
        do t1 <- (if i =? nl then copy_tail 1 R (S (N.to_nat nr)) j out no else Done (out, no));
        let j' := if i =? nl then N.max j nr else j in
        do t2 <- (if j' =? nr then copy_tail 0 L (S (N.to_nat nl)) i (fst t1) (snd t1) else Done t1);
        Done (rev (fst t2))
  end.
End Merge.

Definition merge (l r : list N) : result (list N) :=
  merge_loop (mem_of_list l) (mem_of_list r) (N.of_nat (length l + length r))
    (length l + length r + 1)%nat 0 0 [] 0.
Definition merge_drop (l r : list N) : result (list N) :=
  merge_drop_loop (mem_of_list l) (mem_of_list r) (N.of_nat (length l + length r))
    (length l + length r + 1)%nat 0 0 [] 0.

(* _sort_merge_counts (161-218): ids with float counts; counts modelled as N *)
Section SMC.
Variables (LI LC RI RC : mem).     (* buffers 0,1,2,3; outputs 4 (ids), 5 (counts) *)
Variable cap : N.
Fixpoint smc_tail (bi bc : N) (I Cn : mem) (fuel : nat) (i : N) (out : list (N * N)) (no : N)
  : result (list (N * N) * N) :=
  match fuel with
  | O => OutOfFuel
  | S f =>
      if i <? mlen I then
        do x <- rd bi I i; do c <- rd bc Cn i; do _ <- wr_ok 4 cap no; do _ <- wr_ok 5 cap no;
        smc_tail bi bc I Cn f (i + 1) ((x, c) :: out) (no + 1)
      else Done (out, no)
  end.
Fixpoint smc_loop (fuel : nat) (i j : N) (out : list (N * N)) (no : N) : result (list (N * N)) :=
  match fuel with
  | O => OutOfFuel
  | S f =>
      if andb (i <? mlen LI) (j <? mlen RI) then
        do x <- rd 0 LI i; do y <- rd 2 RI j;
        if x <? y then
          do c <- rd 1 LC i; do _ <- wr_ok 4 cap no; do _ <- wr_ok 5 cap no;
          smc_loop f (i + 1) j ((x, c) :: out) (no + 1)
        else if y <? x then
          do c <- rd 3 RC j; do _ <- wr_ok 4 cap no; do _ <- wr_ok 5 cap no;
          smc_loop f i (j + 1) ((y, c) :: out) (no + 1)
        else
          do c1 <- rd 1 LC i; do c2 <- rd 3 RC j; do _ <- wr_ok 4 cap no; do _ <- wr_ok 5 cap no;
          smc_loop f (i + 1) (j + 1) ((x, c1 + c2) :: out) (no + 1)
      else
        do t1 <- smc_tail 0 1 LI LC (S (N.to_nat (mlen LI))) i out no;
        do t2 <- smc_tail 2 3 RI RC (S (N.to_nat (mlen RI))) j (fst t1) (snd t1);
        Done (rev (fst t2))
  end.
End SMC.
Definition sort_merge_counts (li lc ri rc : list N) : result (list (N * N)) :=
  smc_loop (mem_of_list li) (mem_of_list lc) (mem_of_list ri) (mem_of_list rc)
    (N.of_nat (length li + length ri)) (length li + length ri + 1)%nat 0 0 [] 0.

(* =========================== unique.pyx =========================== *)
Section Unique.
Variable A : mem.
Let n := mlen A.
(* inner: while arr_ptr <= arr_end and (arr_ptr[0] >> rshift) == target: arr_ptr += 1 *)
Fixpoint uniq_skip (rshift : N) (fuel : nat) (target i : N) : result N :=
  match fuel with
  | O => OutOfFuel
  | S f =>
      if i <? n then do x <- rd 0 A i; if N.shiftr x rshift =? target then uniq_skip rshift f target (i + 1) else Done i
      else Done i
  end.
(* _scan_unique (37-53) with rshift = 0; _scan_unique_shifted (87-104) otherwise *)
Fixpoint uniq_loop (rshift : N) (fuel : nat) (i : N) (out : list N) (no : N) : result (list N) :=
  match fuel with
  | O => OutOfFuel
  | S f =>
      if i <? n then
        do x <- rd 0 A i;
        let t := N.shiftr x rshift in
        do _ <- wr_ok 1 n no;
        do i2 <- uniq_skip rshift (S (N.to_nat n)) t (i + 1);
        uniq_loop rshift f i2 (t :: out) (no + 1)
      else Done (rev out)
  end.
End Unique.
(* def unique(arr, rshift=0): the shifted variant starts with an unconditional  arr_ptr[0] >> rshift  *)
Definition unique (a : list N) (rshift : N) : result (list N) :=
  let A := mem_of_list a in
  if 0 <? rshift then
    do _ <- rd 0 A 0;             (* cdef DTYPE_t target_shifted = arr_ptr[0] >> rshift  (value unused when empty) *)
    uniq_loop A rshift (S (length a)) 0 [] 0
  else uniq_loop A 0 (S (length a)) 0 [] 0.

(* =========================== search.pyx =========================== *)
Section Search.
Variable A : mem.
Let n := mlen A.
Variables (target0 mask : N).
Let target := N.land target0 mask.

(* bisection shared by both searches: while i_left + 1 < i_right *)
Fixpoint bisect (fuel : nat) (i_left i_right : N) : result N :=
  match fuel with
  | O => OutOfFuel
  | S f =>
      if i_left + 1 <? i_right then
        let mid := (i_right + i_left) / 2 in
        do v <- rd 0 A mid;
        if target <=? N.land v mask then bisect f i_left mid else bisect f mid i_right
      else Done i_right
  end.

(* _binary_search (19-49) *)
Definition binary_search_core (start : N) : result N :=
  do v <- rd 0 A start;                      (* cdef DTYPE_t value = array[idx_out[0]] *)
  if target <=? N.land v mask then Done start
  else
    let i_right := n - 1 in
    do w <- rd 0 A i_right;
    if N.land w mask <? target then Done i_right
    else bisect 70 start i_right.

(* _galloping_search (63-108) *)
Fixpoint gs_gallop (fuel : nat) (idx delta i_prev value : N) : result (N * N) :=   (* returns (idx, i_prev) *)
  match fuel with
  | O => OutOfFuel
  | S f =>
      if value <? target then
        let i_prev := idx in
        let idx := idx + delta in
        if n <=? idx then
          let idx := n - 1 in
          do v <- rd 0 A idx; Done (idx, i_prev)
        else
          do v <- rd 0 A idx; gs_gallop f idx (delta * 2) i_prev (N.land v mask)
      else Done (idx, i_prev)
  end.
Definition galloping_search_core (start : N) : result N :=
  do v <- rd 0 A start;
  let value := N.land v mask in
  if target <=? value then Done start
  else
    do r <- gs_gallop 70 start 1 start value;
    let '(idx, i_prev) := r in
    bisect 70 i_prev (idx + 1).

(* wrappers (after the fix of D8/D14):
     if i >= len: return i, False
     _search(array, target, mask, &i, len)
     return i, (i < len and (array[i] & mask) == (target & mask)) *)
Definition with_found (start : N) (core : N -> result N) : result (N * bool) :=
  if n <=? start then Done (start, false)
  else
    do i <- core start;
    if i <? n then do v <- rd 0 A i; Done (i, N.land v mask =? target)
    else Done (i, false).
End Search.
Definition binary_search (a : list N) (target mask start : N) : result (N * bool) :=
  let A := mem_of_list a in with_found A target mask start (binary_search_core A target mask).
Definition galloping_search (a : list N) (target mask start : N) : result (N * bool) :=
  let A := mem_of_list a in with_found A target mask start (galloping_search_core A target mask).

(* =========================== popcount.pyx =========================== *)
Definition popcount64 (a : list N) : list N := map popcount a.

(* _popcount_reduce_at (86-110) / _key_sum_over (130-153): [weight] is popcount or identity *)
Section ReduceAt.
Variables (IDS P : mem) (weight : N -> N).
Let n := mlen IDS.
Fixpoint reduce_at_loop (fuel : nat) (k last sum : N) (out : list (N * N)) (no : N) : result (list (N * N)) :=
  match fuel with
  | O => OutOfFuel
  | S f =>
      if k <? n then
        do id <- rd 0 IDS k;
        do st <- (if negb (id =? last) then
                    do _ <- wr_ok 2 n no; Done ((last, sum) :: out, no + 1, 0)
                  else Done (out, no, sum));
        let '(out1, no1, sum1) := st in
        do p <- rd 1 P k;
        reduce_at_loop f (k + 1) id (sum1 + weight p) out1 no1
      else
        do _ <- wr_ok 2 n no; Done (rev ((last, sum) :: out))
  end.
End ReduceAt.
(* wrappers raise ValueError on length mismatch and return empty on empty input *)
Inductive pyres (A : Type) := PyOk (a : A) | PyValueError.
Arguments PyOk {A}. Arguments PyValueError {A}.
Definition reduce_at_wrapper (weight : N -> N) (ids p : list N) : pyres (result (list (N * N))) :=
  if negb (Nat.eqb (length ids) (length p)) then PyValueError
  else match ids with
       | [] => PyOk (Done [])
       | id0 :: _ =>
           PyOk (reduce_at_loop (mem_of_list ids) (mem_of_list p) weight (S (length ids)) 0 id0 0 [] 0)
       end.
Definition popcount_reduce_at := reduce_at_wrapper popcount.
Definition key_sum_over := reduce_at_wrapper (fun x => x).

(* _popcount64_reduce (174-199) *)
Section PCR.
Variables (A : mem) (key_shift value_mask : N).
Let n := mlen A.
(* out holds the finished (key, count) pairs; (cur_key, cur) is the slot being accumulated at index no *)
Fixpoint pcr_loop (fuel : nat) (k last_key cur : N) (out : list (N * N)) (no : N) : result (list (N * N)) :=
  match fuel with
  | O => OutOfFuel
  | S f =>
      if k <? n then
        do w <- rd 0 A k;
        let key := N.shiftr w key_shift in
        let pc := popcount (N.land w value_mask) in
        if key =? last_key then pcr_loop f (k + 1) last_key (cur + pc) out no
        else
          do _ <- wr_ok 1 n (no + 1);
          pcr_loop f (k + 1) key pc ((last_key, cur) :: out) (no + 1)
      else Done (rev ((last_key, cur) :: out))
  end.
End PCR.
Definition popcount64_reduce (a : list N) (key_shift value_mask : N) : result (list (N * N)) :=
  match a with
  | [] => Done []
  | w0 :: _ => pcr_loop (mem_of_list a) key_shift value_mask (S (length a)) 0 (N.shiftr w0 key_shift) 0 [] 0
  end.

(* =========================== roaringish_ops.pyx =========================== *)
(* _payload_slice (32-46) *)
Definition payload_slice (a : list N) (msb_mask lo hi : N) : list N :=
  filter (fun w => andb (lo <=? N.land w msb_mask) (N.land w msb_mask <=? hi)) a.

(* scatter_naive: unrolled chunks of src_scatter_unroll stores, then a tail loop.
   dense is the output array (as a list); index and value k are consumed in order. *)
Fixpoint list_set (l : list N) (i : nat) (v : N) : list N :=
  match l, i with
  | [], _ => []
  | _ :: t, O => v :: t
  | x :: t, S i' => x :: list_set t i' v
  end.
Definition store (dense : list N) (idx v : N) : result (list N) :=
  if idx <? N.of_nat (length dense) then Done (list_set dense (N.to_nat idx) v)
  else Fault Wr 0 idx.
Fixpoint store_many (dense : list N) (ivs : list (N * N)) : result (list N) :=
  match ivs with
  | [] => Done dense
  | (i, v) :: t => do d <- store dense i v; store_many d t
  end.
(* split n items as  (n / U) chunks of U  followed by the tail, exactly as the two loops do *)
Fixpoint chunks_loop (U : nat) (fuel : nat) (dense : list N) (ivs : list (N * N)) : result (list N * list (N * N)) :=
  match fuel with
  | O => Done (dense, ivs)
  | S f => do d <- store_many dense (firstn U ivs); chunks_loop U f d (skipn U ivs)
  end.
Definition scatter_naive (dense : list N) (ivs : list (N * N)) : result (list N) :=
  let U := N.to_nat src_scatter_unroll in
  let nchunks := (length ivs / U)%nat in
  do st <- chunks_loop U nchunks dense ivs;
  store_many (fst st) (snd st).
Definition as_dense (indices values : list N) (size : N) : pyres (result (list N)) :=
  if negb (Nat.eqb (length indices) (length values)) then PyValueError
  else PyOk (scatter_naive (repeat 0 (N.to_nat size)) (combine indices values)).
