(* C12 for the galloping intersections: on masked-sorted inputs shorter than 2^62 the line-level models
   intersect_drop / intersect_keep terminate without fault and return exactly the lists of Spec.v. *)
From SA Require Import Base.Prelude Kernels.Intersect Kernels.Spec.
From Coq Require Import Sorted.
Open Scope N_scope.

Definition msorted (l : list N) (mask : N) : Prop :=
  forall a b, (a <= b)%nat -> (b < length l)%nat -> N.land (nth a l 0) mask <= N.land (nth b l 0) mask.

(* ------------------------------------------------------------------ *)
(* generic list facts                                                  *)
(* ------------------------------------------------------------------ *)
Section Lists.
Context {A : Type} (R : A -> A -> Prop).

Lemma ssorted_snoc : forall l y,
  StronglySorted R l -> Forall (fun x => R x y) l -> StronglySorted R (l ++ [y]).
Proof.
  induction l as [|x t IH]; intros y Hs Hf; cbn [app].
  - constructor; constructor.
  - inversion Hs; subst. inversion Hf; subst. constructor.
    + apply IH; assumption.
    + apply Forall_app. split; [assumption|]. constructor; [assumption|constructor].
Qed.

Lemma ssorted_rev : forall l,
  StronglySorted (fun x y => R y x) l -> StronglySorted R (rev l).
Proof.
  induction l as [|x t IH]; intros Hs; cbn [rev]; [constructor|].
  inversion Hs; subst. apply ssorted_snoc; [apply IH; assumption|].
  apply Forall_forall. intros z Hz. apply in_rev in Hz.
  rewrite Forall_forall in H2. apply H2. exact Hz.
Qed.

Hypothesis Rirr : forall x, ~ R x x.
Hypothesis Rasym : forall x y, R x y -> R y x -> False.

Lemma ssorted_unique : forall l1 l2,
  StronglySorted R l1 -> StronglySorted R l2 -> (forall x, In x l1 <-> In x l2) -> l1 = l2.
Proof.
  induction l1 as [|x t1 IH]; intros l2 H1 H2 Hin.
  - destruct l2 as [|y t2]; [reflexivity|]. exfalso. apply (proj2 (Hin y)). now left.
  - destruct l2 as [|y t2]; [exfalso; apply (proj1 (Hin x)); now left|].
    inversion H1 as [|? ? Hs1 Hf1]; subst. inversion H2 as [|? ? Hs2 Hf2]; subst.
    rewrite Forall_forall in Hf1, Hf2.
    assert (E : x = y).
    { destruct (proj1 (Hin x) (or_introl eq_refl)) as [E|Hx]; [now symmetry|].
      destruct (proj2 (Hin y) (or_introl eq_refl)) as [E|Hy]; [assumption|].
      exfalso. apply (Rasym x y); [apply Hf1, Hy|apply Hf2, Hx]. }
    subst y. f_equal. apply IH; try assumption.
    intro z. split; intro Hz.
    + destruct (proj1 (Hin z) (or_intror Hz)) as [E|Hz2]; [|assumption].
      subst z. exfalso. apply (Rirr x). apply Hf1, Hz.
    + destruct (proj2 (Hin z) (or_intror Hz)) as [E|Hz2]; [|assumption].
      subst z. exfalso. apply (Rirr x). apply Hf2, Hz.
Qed.
End Lists.

(* ------------------------------------------------------------------ *)
(* facts about the positional helpers of Spec.v                        *)
(* ------------------------------------------------------------------ *)
Lemma nth_mvals l mask k : nth k (mvals l mask) 0 = N.land (nth k l 0) mask.
Proof. exact (map_nth (fun x => N.land x mask) l 0 k). Qed.

Lemma length_mvals l mask : length (mvals l mask) = length l.
Proof. apply map_length. Qed.

Lemma first_index_some : forall M v a,
  first_index v M = Some a ->
  a < N.of_nat (length M) /\ nth (N.to_nat a) M 0 = v /\
  (forall a', a' < a -> nth (N.to_nat a') M 0 <> v).
Proof.
  induction M as [|x t IH]; intros v a H; cbn [first_index] in H; [discriminate|].
  destruct (x =? v) eqn:E.
  - inversion H; subst a. apply N.eqb_eq in E. cbn [length]. split; [lia|]. split; [exact E|].
    intros a' Ha. lia.
  - destruct (first_index v t) as [a0|] eqn:F; cbn [option_map] in H; [|discriminate].
    inversion H; subst a. destruct (IH v a0 F) as (H1 & H2 & H3). cbn [length].
    split; [lia|]. split.
    + rewrite N2Nat.inj_succ. exact H2.
    + intros a' Ha. destruct (N.eq_dec a' 0) as [->|Hne].
      * cbn [N.to_nat nth]. apply N.eqb_neq in E. exact E.
      * replace a' with (N.succ (N.pred a')) by lia. rewrite N2Nat.inj_succ. cbn [nth].
        apply H3. lia.
Qed.

Lemma first_index_intro : forall M v a,
  a < N.of_nat (length M) -> nth (N.to_nat a) M 0 = v ->
  (forall a', a' < a -> nth (N.to_nat a') M 0 <> v) ->
  first_index v M = Some a.
Proof.
  induction M as [|x t IH]; intros v a Hlt Hv Hmin; cbn [length] in Hlt; [lia|].
  cbn [first_index]. destruct (x =? v) eqn:E.
  - apply N.eqb_eq in E. destruct (N.eq_dec a 0) as [->|Hne]; [reflexivity|].
    exfalso. apply (Hmin 0); [lia|]. exact E.
  - apply N.eqb_neq in E. destruct (N.eq_dec a 0) as [->|Hne].
    + exfalso. apply E. exact Hv.
    + replace a with (N.succ (N.pred a)) in * by lia. rewrite N2Nat.inj_succ in Hv. cbn [nth] in Hv.
      rewrite (IH v (N.pred a)); [reflexivity| lia | exact Hv |].
      intros a' Ha. specialize (Hmin (N.succ a') ltac:(lia)).
      rewrite N2Nat.inj_succ in Hmin. exact Hmin.
Qed.

Lemma in_enum_from : forall t k a v,
  In (a, v) (enum_from k t) <-> k <= a /\ nth_error t (N.to_nat (a - k)) = Some v.
Proof.
  induction t as [|x t IH]; intros k a v; cbn [enum_from In].
  - split; [tauto|]. intros [_ H]. destruct (N.to_nat (a - k)); discriminate.
  - rewrite IH. split.
    + intros [E|[H1 H2]].
      * inversion E; subst. split; [lia|]. replace (a - a) with 0 by lia. reflexivity.
      * split; [lia|]. replace (a - k) with (N.succ (a - N.succ k)) by lia.
        rewrite N2Nat.inj_succ. exact H2.
    + intros [H1 H2]. destruct (N.eq_dec a k) as [->|Hne].
      * left. replace (k - k) with 0 in H2 by lia. cbn in H2. congruence.
      * right. split; [lia|]. replace (a - k) with (N.succ (a - N.succ k)) in H2 by lia.
        rewrite N2Nat.inj_succ in H2. exact H2.
Qed.

Lemma in_enum : forall M a v,
  In (a, v) (enum M) <-> a < N.of_nat (length M) /\ nth (N.to_nat a) M 0 = v.
Proof.
  intros M a v. unfold enum. rewrite in_enum_from. replace (a - 0) with a by lia. split.
  - intros [_ H]. split.
    + assert (N.to_nat a < length M)%nat by (apply nth_error_Some; congruence). lia.
    + apply nth_error_nth. exact H.
  - intros [H1 H2]. split; [lia|]. rewrite <- H2. apply nth_error_nth'. lia.
Qed.

Lemma mem_n_true : forall M v, mem_n v M = true <-> exists b, b < N.of_nat (length M) /\ nth (N.to_nat b) M 0 = v.
Proof.
  intros M v. unfold mem_n. rewrite existsb_exists. split.
  - intros (x & Hin & E). apply N.eqb_eq in E. subst x.
    destruct (In_nth _ _ 0 Hin) as (n & Hn & En).
    exists (N.of_nat n). rewrite Nat2N.id. split; [lia|exact En].
  - intros (b & Hb & E). exists v. split; [|apply N.eqb_refl].
    rewrite <- E. apply nth_In. lia.
Qed.

(* ------------------------------------------------------------------ *)
(* the kernels on list-backed memories                                 *)
(* ------------------------------------------------------------------ *)
Section C.
Variables (l r : list N) (mask : N).
Let L := mem_of_list l.
Let R := mem_of_list r.
Let nl := N.of_nat (length l).
Let nr := N.of_nat (length r).
Definition ml (a : N) := N.land (nth (N.to_nat a) l 0) mask.
Definition mr (b : N) := N.land (nth (N.to_nat b) r 0) mask.

Hypothesis HsL0 : msorted l mask.
Hypothesis HsR0 : msorted r mask.
Hypothesis Hnl : nl < 2^62.
Hypothesis Hnr : nr < 2^62.

Lemma HsL : forall a b, a <= b -> b < nl -> ml a <= ml b.
Proof. intros a b H1 H2. unfold ml. apply HsL0; unfold nl in H2; lia. Qed.
Lemma HsR : forall a b, a <= b -> b < nr -> mr a <= mr b.
Proof. intros a b H1 H2. unfold mr. apply HsR0; unfold nr in H2; lia. Qed.

Lemma rdL i : i < nl -> rd 0 L i = Done (nth (N.to_nat i) l 0).
Proof. intro H. unfold L. rewrite rd_mem_of_list. apply lrd_ok. exact H. Qed.
Lemma rdR j : j < nr -> rd 1 R j = Done (nth (N.to_nat j) r 0).
Proof. intro H. unfold R. rewrite rd_mem_of_list. apply lrd_ok. exact H. Qed.

(* unfolding equations *)
Lemma gallop_l_S f i j g :
  gallop_l L R mask (S f) i j g =
  if i <? nl then
    do x <- rd 0 L i; do y <- rd 1 R j;
    if N.land x mask <? N.land y mask then gallop_l L R mask f (i + g) j (g * 2) else Done (i, g)
  else Done (i, g).
Proof. reflexivity. Qed.
Lemma gallop_r_S f i j g :
  gallop_r L R mask (S f) i j g =
  if j <? nr then
    do y <- rd 1 R j; do x <- rd 0 L i;
    if N.land y mask <? N.land x mask then gallop_r L R mask f i (j + g) (g * 2) else Done (j, g)
  else Done (j, g).
Proof. reflexivity. Qed.

(* exit facts of the two gallops, with termination: fuel S f suffices when nl + g <= i + g * 2^f *)
Lemma gallop_l_spec : forall f i j g i0,
  j < nr -> nl + g <= i + g * 2 ^ N.of_nat f ->
  i0 <= i - g/2 -> i - g/2 < nl -> g/2 <= i ->
  (i - g/2 = i0 \/ ml (i - g/2) < mr j) ->
  exists i1 g1, gallop_l L R mask (S f) i j g = Done (i1, g1) /\
  i0 <= i1 - g1/2 /\ i1 - g1/2 < nl /\ (i1 - g1/2 = i0 \/ ml (i1 - g1/2) < mr j).
Proof.
  induction f as [|f IH]; intros i j g i0 Hj Hfuel H0 Hlt Hle HQ; rewrite gallop_l_S.
  - cbn [N.of_nat] in Hfuel. rewrite N.pow_0_r, N.mul_1_r in Hfuel.
    destruct (i <? nl) eqn:Hi; [apply N.ltb_lt in Hi; lia|].
    exists i, g. auto.
  - destruct (i <? nl) eqn:Hi.
    + apply N.ltb_lt in Hi. rewrite (rdL i Hi), (rdR j Hj). cbn [bind].
      fold (ml i). fold (mr j).
      destruct (ml i <? mr j) eqn:Hc.
      * apply N.ltb_lt in Hc.
        assert (E: g*2/2 = g) by (rewrite N.div_mul; lia).
        apply IH; try assumption; rewrite ?E.
        -- rewrite Nat2N.inj_succ, N.pow_succ_r' in Hfuel.
           clear - Hfuel. set (P := 2 ^ N.of_nat f) in *.
           replace (g * 2 * P) with (g * (2 * P)) by (rewrite N.mul_assoc; reflexivity).
           set (Q := g * (2 * P)) in *. lia.
        -- replace (i+g-g) with i by lia. lia.
        -- replace (i+g-g) with i by lia. exact Hi.
        -- lia.
        -- replace (i+g-g) with i by lia. right. exact Hc.
      * exists i, g. auto.
    + exists i, g. auto.
Qed.

Lemma gallop_r_spec : forall f i j g j0,
  i < nl -> nr + g <= j + g * 2 ^ N.of_nat f ->
  j0 <= j - g/2 -> j - g/2 < nr -> g/2 <= j ->
  (j - g/2 = j0 \/ mr (j - g/2) < ml i) ->
  exists j1 g1, gallop_r L R mask (S f) i j g = Done (j1, g1) /\
  j0 <= j1 - g1/2 /\ j1 - g1/2 < nr /\ (j1 - g1/2 = j0 \/ mr (j1 - g1/2) < ml i).
Proof.
  induction f as [|f IH]; intros i j g j0 Hi Hfuel H0 Hlt Hle HQ; rewrite gallop_r_S.
  - cbn [N.of_nat] in Hfuel. rewrite N.pow_0_r, N.mul_1_r in Hfuel.
    destruct (j <? nr) eqn:Hj; [apply N.ltb_lt in Hj; lia|].
    exists j, g. auto.
  - destruct (j <? nr) eqn:Hj.
    + apply N.ltb_lt in Hj. rewrite (rdR j Hj), (rdL i Hi). cbn [bind].
      fold (ml i). fold (mr j).
      destruct (mr j <? ml i) eqn:Hc.
      * apply N.ltb_lt in Hc.
        assert (E: g*2/2 = g) by (rewrite N.div_mul; lia).
        apply IH; try assumption; rewrite ?E.
        -- rewrite Nat2N.inj_succ, N.pow_succ_r' in Hfuel.
           clear - Hfuel. set (P := 2 ^ N.of_nat f) in *.
           replace (g * 2 * P) with (g * (2 * P)) by (rewrite N.mul_assoc; reflexivity).
           set (Q := g * (2 * P)) in *. lia.
        -- replace (j+g-g) with j by lia. lia.
        -- replace (j+g-g) with j by lia. exact Hj.
        -- lia.
        -- replace (j+g-g) with j by lia. right. exact Hc.
      * exists j, g. auto.
    + exists j, g. auto.
Qed.

(* one gallop pair from (i, j): the positions the outer loop compares next *)
Lemma gallops : forall i j, i < nl -> j < nr ->
  exists i1 g1 j1 g2,
    gallop_l L R mask GFUEL i j 1 = Done (i1, g1) /\
    gallop_r L R mask GFUEL (i1 - g1/2) j 1 = Done (j1, g2) /\
    let i2 := i1 - g1/2 in let j2 := j1 - g2/2 in
    i <= i2 /\ i2 < nl /\ j <= j2 /\ j2 < nr /\
    (forall a, i <= a -> a < i2 -> ml a < mr j) /\
    (forall b, j <= b -> b < j2 -> mr b < ml i2) /\
    (i2 <> i -> ml i2 < mr j) /\ (j2 <> j -> mr j2 < ml i2).
Proof.
  intros i j Hi Hj.
  assert (P65 : 2 ^ N.of_nat 65 = 36893488147419103232) by (vm_compute; reflexivity).
  assert (P62 : 2 ^ 62 = 4611686018427387904) by (vm_compute; reflexivity).
  assert (D : 1 / 2 = 0) by reflexivity.
  change GFUEL with (S 65).
  destruct (gallop_l_spec 65 i j 1 i Hj) as (i1 & g1 & EL & Hi2a & Hi2b & Hi2c);
    rewrite ?D, ?P65; try (clear - Hi Hnl P62; lia).
  set (i2 := i1 - g1/2) in *.
  destruct (gallop_r_spec 65 i2 j 1 j Hi2b) as (j1 & g2 & ER & Hj2a & Hj2b & Hj2c);
    rewrite ?D, ?P65; try (clear - Hj Hnr P62; lia).
  set (j2 := j1 - g2/2) in *.
  exists i1, g1, j1, g2. split; [exact EL|]. split; [exact ER|].
  cbn zeta. fold i2. fold j2.
  repeat split; try assumption.
  - intros a Ha1 Ha2. destruct Hi2c as [E|Hlt]; [lia|]. pose proof (HsL a i2 ltac:(lia) Hi2b). lia.
  - intros b Hb1 Hb2. destruct Hj2c as [E|Hlt]; [lia|]. pose proof (HsR b j2 ltac:(lia) Hj2b). lia.
  - intro; destruct Hi2c; [lia|assumption].
  - intro; destruct Hj2c; [lia|assumption].
Qed.

(* first-occurrence facts in terms of ml / mr *)
Lemma fi_L v a : first_index v (mvals l mask) = Some a <->
  a < nl /\ ml a = v /\ (forall a', a' < a -> ml a' <> v).
Proof.
  unfold ml, nl. split.
  - intro H. apply first_index_some in H. rewrite length_mvals in H.
    destruct H as (H1 & H2 & H3). rewrite nth_mvals in H2. split; [exact H1|]. split; [exact H2|].
    intros a' Ha. rewrite <- nth_mvals. apply H3. exact Ha.
  - intros (H1 & H2 & H3). apply first_index_intro.
    + rewrite length_mvals. exact H1.
    + rewrite nth_mvals. exact H2.
    + intros a' Ha. rewrite nth_mvals. apply H3. exact Ha.
Qed.
Lemma fi_R v b : first_index v (mvals r mask) = Some b <->
  b < nr /\ mr b = v /\ (forall b', b' < b -> mr b' <> v).
Proof.
  unfold mr, nr. split.
  - intro H. apply first_index_some in H. rewrite length_mvals in H.
    destruct H as (H1 & H2 & H3). rewrite nth_mvals in H2. split; [exact H1|]. split; [exact H2|].
    intros b' Hb. rewrite <- nth_mvals. apply H3. exact Hb.
  - intros (H1 & H2 & H3). apply first_index_intro.
    + rewrite length_mvals. exact H1.
    + rewrite nth_mvals. exact H2.
    + intros b' Hb. rewrite nth_mvals. apply H3. exact Hb.
Qed.

(* ---------------- intersect_drop ---------------- *)
Lemma drop_loop_S cap f i j last lo ro no :
  drop_loop L R mask cap (S f) i j last lo ro no =
  if andb (i <? nl) (j <? nr) then
    do ig <- gallop_l L R mask GFUEL i j 1;
    let i2 := fst ig - snd ig / 2 in
    do jg <- gallop_r L R mask GFUEL i2 j 1;
    let j2 := fst jg - snd jg / 2 in
    do x <- rd 0 L i2; do y <- rd 1 R j2;
    let mx := N.land x mask in let my := N.land y mask in
    if mx <? my then drop_loop L R mask cap f (i2 + 1) j2 last lo ro no
    else if my <? mx then drop_loop L R mask cap f i2 (j2 + 1) last lo ro no
    else
      if fresh mask last mx then
        do _ <- wr_ok 2 cap no; do _ <- wr_ok 3 cap no;
        drop_loop L R mask cap f (i2 + 1) (j2 + 1) (Some x) (i2 :: lo) (j2 :: ro) (no + 1)
      else drop_loop L R mask cap f (i2 + 1) (j2 + 1) last lo ro no
  else Done (rev lo, rev ro).
Proof. reflexivity. Qed.

Definition collected (po : list (N * N)) (v : N) := exists a b, In (a, b) po /\ ml a = v.
Definition pair_ok (a b : N) : Prop :=
  a < nl /\ b < nr /\ ml a = mr b /\
  (forall a', a' < a -> ml a' <> ml a) /\ (forall b', b' < b -> mr b' <> mr b).
Definition desc (p q : N * N) : Prop := fst q < fst p.

Record Inv (i j : N) (last : option N) (po : list (N * N)) (no : N) : Prop := {
  I0 : i <= nl /\ j <= nr /\ no <= i /\ no <= j;
  I1 : forall a b, In (a, b) po -> a < i /\ b < j /\ pair_ok a b;
  I2 : forall a b, a < i -> a < nl -> j <= b -> b < nr -> ml a <= mr b /\ (ml a = mr b -> collected po (ml a));
  I3 : forall a b, b < j -> b < nr -> i <= a -> a < nl -> mr b <= ml a /\ (mr b = ml a -> collected po (mr b));
  I4 : forall a b, a < i -> a < nl -> b < j -> b < nr -> ml a = mr b -> collected po (ml a);
  I5 : match last with
       | None => po = []
       | Some x => collected po (N.land x mask) /\ forall a b, In (a, b) po -> ml a <= N.land x mask
       end;
  I6 : StronglySorted desc po
}.

Definition Post (po : list (N * N)) : Prop :=
  (forall a b, In (a, b) po -> pair_ok a b) /\
  (forall a b, a < nl -> b < nr -> ml a = mr b -> collected po (ml a)) /\
  StronglySorted desc po.

Lemma collected_cons po p v : collected po v -> collected (p :: po) v.
Proof. intros (a & b & Hin & E). exists a, b. split; [now right|exact E]. Qed.

Lemma drop_loop_correct : forall fuel i j last po no,
  Inv i j last po no -> nl + nr < i + j + N.of_nat fuel ->
  exists po', drop_loop L R mask (N.min nl nr) fuel i j last (map fst po) (map snd po) no
              = Done (rev (map fst po'), rev (map snd po')) /\ Post po'.
Proof.
  induction fuel as [|f IH]; intros i j last po no HI Hfuel.
  { destruct HI as [H0 _ _ _ _ _ _]. cbn [N.of_nat] in Hfuel. lia. }
  rewrite drop_loop_S.
  destruct (andb (i <? nl) (j <? nr)) eqn:G.
  2:{ (* loop exit *)
    exists po. split; [reflexivity|]. destruct HI as [H0 H1 H2 H3 H4 H5 H6].
    split; [|split].
    - intros a b Hin. apply (H1 a b Hin).
    - intros a b Ha Hb E.
      apply andb_false_iff in G as [G|G]; apply N.ltb_ge in G.
      + destruct (N.lt_ge_cases b j) as [Hbj|Hbj].
        * apply (H4 a b); try assumption; try lia.
        * apply (H2 a b); try assumption; try lia.
      + destruct (N.lt_ge_cases a i) as [Hai|Hai].
        * apply (H4 a b); try assumption; try lia.
        * rewrite E. apply (H3 a b); try assumption; try lia.
    - exact H6. }
  apply andb_true_iff in G as [Hi Hj]. apply N.ltb_lt in Hi, Hj.
  destruct (gallops i j Hi Hj) as (i1 & g1 & j1 & g2 & EL & ER & HG).
  rewrite EL. cbn [bind fst snd]. rewrite ER. cbn [bind fst snd].
  cbn zeta in HG.
  set (i2 := i1 - g1/2) in *. set (j2 := j1 - g2/2) in *.
  destruct HG as (Hi2a & Hi2b & Hj2a & Hj2b & SkL & SkR & SkL' & SkR').
  rewrite (rdL i2 Hi2b), (rdR j2 Hj2b). cbn [bind].
  fold (ml i2). fold (mr j2).
  destruct HI as [H0 H1 H2 H3 H4 H5 H6].
  destruct (ml i2 <? mr j2) eqn:C1.
  { (* advance left *)
    apply N.ltb_lt in C1. apply IH; [|clear - Hfuel Hi2a Hj2a; lia]. constructor.
    - clear - H0 Hi2a Hi2b Hj2a Hj2b. lia.
    - intros a b Hin. specialize (H1 a b Hin). clear - H1 Hi2a Hj2a. intuition lia.
    - intros a b Ha Hanl Hb Hbnr.
      assert (ml a <= ml i2) by (apply HsL; lia). assert (mr j2 <= mr b) by (apply HsR; lia). split; [lia|intro; lia].
    - intros a b Hb Hbnr Ha Hanl.
      destruct (N.lt_ge_cases b j) as [Hbj|Hbj].
      + apply (H3 a b); try assumption; try lia.
      + pose proof (SkR b Hbj Hb). assert (ml i2 <= ml a) by (apply HsL; lia). split; [lia|intro; lia].
    - intros a b Ha Hanl Hb Hbnr E.
      destruct (N.lt_ge_cases a i) as [Hai|Hai]; destruct (N.lt_ge_cases b j) as [Hbj|Hbj].
      + apply (H4 a b); assumption.
      + apply (H2 a b); try assumption.
      + rewrite E. apply (H3 a b); try assumption; try lia.
      + exfalso. pose proof (SkR b Hbj Hb). assert (ml a <= ml i2) by (apply HsL; lia).
        destruct (N.eq_dec i2 i) as [Ei|Ei].
        * assert (a = i2) by lia. subst a. lia.
        * pose proof (SkL' Ei). assert (mr j <= mr b) by (apply HsR; lia). lia.
    - exact H5.
    - exact H6. }
  apply N.ltb_ge in C1.
  destruct (mr j2 <? ml i2) eqn:C2.
  { (* advance right *)
    apply N.ltb_lt in C2. apply IH; [|clear - Hfuel Hi2a Hj2a; lia]. constructor.
    - clear - H0 Hi2a Hi2b Hj2a Hj2b. lia.
    - intros a b Hin. specialize (H1 a b Hin). clear - H1 Hi2a Hj2a. intuition lia.
    - intros a b Ha Hanl Hb Hbnr.
      destruct (N.lt_ge_cases a i) as [Hai|Hai].
      + apply (H2 a b); try assumption; try lia.
      + pose proof (SkL a Hai Ha). assert (mr j <= mr b) by (apply HsR; lia). split; [lia|intro; lia].
    - intros a b Hb Hbnr Ha Hanl.
      assert (mr b <= mr j2) by (apply HsR; lia). assert (ml i2 <= ml a) by (apply HsL; lia). split; [lia|intro; lia].
    - intros a b Ha Hanl Hb Hbnr E.
      destruct (N.lt_ge_cases a i) as [Hai|Hai]; destruct (N.lt_ge_cases b j) as [Hbj|Hbj].
      + apply (H4 a b); assumption.
      + apply (H2 a b); try assumption.
      + rewrite E. apply (H3 a b); try assumption; try lia.
      + exfalso. pose proof (SkL a Hai Ha). assert (mr j <= mr b) by (apply HsR; lia). lia.
    - exact H5.
    - exact H6. }
  apply N.ltb_ge in C2.
  (* equal: i2 = i and j2 = j necessarily *)
  assert (Ev : ml i2 = mr j2) by lia.
  assert (Ei : i2 = i).
  { destruct (N.eq_dec i2 i) as [|n]; [assumption|]. pose proof (SkL' n). assert (mr j <= mr j2) by (apply HsR; lia). lia. }
  assert (Ej : j2 = j).
  { destruct (N.eq_dec j2 j) as [|n]; [assumption|]. pose proof (SkR' n). lia. }
  clearbody i2 j2. subst i2 j2. clear SkL SkR SkL' SkR' Hi2a Hj2a Hi2b Hj2b EL ER C1 C2.
  assert (Step : forall po' last' no',
            (forall v, collected po v -> collected po' v) -> collected po' (ml i) ->
            (forall a b, In (a, b) po' -> a < i+1 /\ b < j+1 /\ pair_ok a b) ->
            match last' with None => po' = [] | Some x => collected po' (N.land x mask) /\ forall a b, In (a, b) po' -> ml a <= N.land x mask end ->
            StronglySorted desc po' -> no' <= no + 1 ->
            Inv (i+1) (j+1) last' po' no').
  { intros po' last' no' Hmono Hnew H1' H5' H6' Hno. constructor.
    - clear - H0 Hi Hj Hno. lia.
    - exact H1'.
    - intros a b Ha Hanl Hb Hbnr.
      destruct (N.eq_dec a i) as [->|Hne].
      + assert (mr j <= mr b) by (apply HsR; lia). split; [lia|intro; exact Hnew].
      + destruct (H2 a b) as [Hle Hc]; try assumption; try lia. split; [exact Hle|intro E; apply Hmono, Hc, E].
    - intros a b Hb Hbnr Ha Hanl.
      destruct (N.eq_dec b j) as [->|Hne].
      + assert (ml i <= ml a) by (apply HsL; lia). split; [lia|intro E; rewrite <- Ev; exact Hnew].
      + destruct (H3 a b) as [Hle Hc]; try assumption; try lia. split; [exact Hle|intro E; apply Hmono, Hc, E].
    - intros a b Ha Hanl Hb Hbnr E.
      destruct (N.eq_dec a i) as [->|Hna]; [exact Hnew|].
      destruct (N.eq_dec b j) as [->|Hnb].
      + apply Hmono. apply (H2 a j); try assumption; try lia.
      + apply Hmono. apply (H4 a b); try assumption; try lia.
    - exact H5'.
    - exact H6'. }
  set (x := nth (N.to_nat i) l 0) in *.
  assert (Ex : N.land x mask = ml i) by reflexivity.
  destruct (fresh mask last (ml i)) eqn:NB.
  - (* collect *)
    assert (NotColl : ~ collected po (ml i)).
    { intros (a & b & Hin & E). destruct last as [xl|].
      - cbn [fresh] in NB. apply negb_true_iff, N.eqb_neq in NB. destruct H5 as [Hc Hmax]. apply NB.
        destruct Hc as (al & bl & Hinl & El).
        pose proof (Hmax a b Hin) as Hle. rewrite E in Hle.
        destruct (H1 al bl Hinl) as (Hal & _ & Halnl & _).
        assert (ml al <= ml i) by (apply HsL; lia). lia.
      - rewrite H5 in Hin. contradiction. }
    assert (Hcap : no <? N.min nl nr = true) by (apply N.ltb_lt; clear - H0 Hi Hj; lia).
    unfold wr_ok. rewrite Hcap. cbn [bind].
    change (i :: map fst po) with (map fst ((i, j) :: po)).
    change (j :: map snd po) with (map snd ((i, j) :: po)).
    apply IH; [|clear - Hfuel; lia]. apply Step.
    + intros v. apply collected_cons.
    + exists i, j. split; [now left|reflexivity].
    + intros a b [Hin|Hin].
      * inversion Hin; subst a b. split; [lia|]. split; [lia|]. unfold pair_ok.
        repeat split; try assumption.
        -- intros a' Ha' E. apply NotColl. rewrite <- E. apply (H2 a' j); lia.
        -- intros b' Hb' E. apply NotColl. rewrite Ev, <- E. apply (H3 i b'); lia.
      * specialize (H1 a b Hin). clear - H1. intuition lia.
    + split.
      * rewrite Ex. exists i, j. split; [now left|reflexivity].
      * intros a b Hin. rewrite Ex. destruct Hin as [Hin|Hin].
        -- inversion Hin; subst. lia.
        -- destruct (H1 a b Hin) as (Ha & _ & Hanl & _). apply HsL; lia.
    + constructor; [exact H6|]. apply Forall_forall. intros [a b] Hin. unfold desc. cbn [fst].
      destruct (H1 a b Hin) as (Ha & _). exact Ha.
    + lia.
  - (* already collected: skip *)
    assert (Coll : collected po (ml i)).
    { destruct last as [xl|]; cbn [fresh] in NB; [|discriminate].
      apply negb_false_iff, N.eqb_eq in NB.
      destruct H5 as [Hc _]. rewrite NB in Hc. exact Hc. }
    apply IH; [|clear - Hfuel; lia]. apply Step.
    + auto.
    + exact Coll.
    + intros a b Hin. specialize (H1 a b Hin). clear - H1. intuition lia.
    + exact H5.
    + exact H6.
    + lia.
Qed.

(* the executable spec: membership and order of its pair list *)
Definition dropf (ML MR : list N) (iv : N * N) : list (N * N) :=
  let '(a, v) := iv in
  if is_first v a ML
  then match first_index v MR with Some b => [(a, b)] | None => [] end
  else [].
Definition asc (p q : N * N) : Prop := fst p < fst q.

Lemma dropf_in ML MR a0 v a b :
  In (a, b) (dropf ML MR (a0, v)) <-> a = a0 /\ first_index v ML = Some a0 /\ first_index v MR = Some b.
Proof.
  unfold dropf, is_first.
  destruct (first_index v ML) as [a'|] eqn:F1.
  - destruct (a' =? a0) eqn:E.
    + apply N.eqb_eq in E. subst a'. destruct (first_index v MR) as [b'|] eqn:F2; cbn [In].
      * split.
        -- intros [H|[]]. inversion H; subst. auto.
        -- intros (H1 & _ & H3). inversion H3; subst. now left.
      * split; [tauto|]. intros (_ & _ & H). discriminate.
    + apply N.eqb_neq in E. cbn [In]. split; [tauto|]. intros (_ & H & _). congruence.
  - cbn [In]. split; [tauto|]. intros (_ & H & _). discriminate.
Qed.

Lemma flat_lb ML MR : forall t k p, In p (flat_map (dropf ML MR) (enum_from k t)) -> k <= fst p.
Proof.
  intros t k [a b] H. apply in_flat_map in H as ([a0 v] & Hin & Hp).
  apply in_enum_from in Hin as [Hk _]. apply dropf_in in Hp as [-> _]. exact Hk.
Qed.

Lemma flat_sorted ML MR : forall t k, StronglySorted asc (flat_map (dropf ML MR) (enum_from k t)).
Proof.
  induction t as [|x t IH]; intros k; cbn [enum_from flat_map]; [constructor|].
  assert (T : StronglySorted asc (flat_map (dropf ML MR) (enum_from (N.succ k) t))) by apply IH.
  assert (C : forall b, StronglySorted asc ((k, b) :: flat_map (dropf ML MR) (enum_from (N.succ k) t))).
  { intro b. constructor; [exact T|]. apply Forall_forall. intros p Hp. apply flat_lb in Hp.
    unfold asc. cbn [fst]. lia. }
  unfold dropf at 1. destruct (is_first x k ML); [|exact T].
  destruct (first_index x MR); [|exact T]. apply C.
Qed.

Lemma drop_spec_pairs po : Post po ->
  rev po = flat_map (dropf (mvals l mask) (mvals r mask)) (enum (mvals l mask)).
Proof.
  intros (P1 & P2 & P3).
  apply (ssorted_unique asc).
  - intros x. unfold asc. lia.
  - intros x y. unfold asc. lia.
  - apply ssorted_rev. exact P3.
  - apply flat_sorted.
  - intros [a b]. rewrite <- in_rev. split.
    + intro Hin. destruct (P1 a b Hin) as (Ha & Hb & E & Fa & Fb).
      apply in_flat_map. exists (a, ml a). split.
      * apply in_enum. rewrite length_mvals, nth_mvals. split; [exact Ha|reflexivity].
      * apply dropf_in. split; [reflexivity|]. split.
        -- apply fi_L. auto.
        -- apply fi_R. split; [exact Hb|]. split; [now symmetry|]. rewrite E. exact Fb.
    + intro Hin. apply in_flat_map in Hin as ([a0 v] & Hin & Hp).
      apply dropf_in in Hp as (-> & F1 & F2).
      apply fi_L in F1 as (Ha & Ea & Fa). apply fi_R in F2 as (Hb & Eb & Fb).
      destruct (P2 a0 b Ha Hb ltac:(congruence)) as (a' & b' & Hin' & E').
      destruct (P1 a' b' Hin') as (Ha' & Hb' & E'' & Fa' & Fb').
      assert (a' = a0).
      { destruct (N.lt_trichotomy a' a0) as [Hlt|[Heq|Hgt]]; [|exact Heq|].
        - exfalso. apply (Fa a' Hlt). congruence.
        - exfalso. apply (Fa' a0 Hgt). congruence. }
      subst a'.
      assert (b' = b).
      { destruct (N.lt_trichotomy b' b) as [Hlt|[Heq|Hgt]]; [|exact Heq|].
        - exfalso. apply (Fb b' Hlt). congruence.
        - exfalso. apply (Fb' b Hgt). congruence. }
      subst b'. exact Hin'.
Qed.

Theorem intersect_drop_correct_sec : intersect_drop l r mask = Done (intersect_drop_spec l r mask).
Proof.
  unfold intersect_drop, outer_fuel.
  destruct (drop_loop_correct (length l + length r + 2) 0 0 None [] 0) as (po & E & HP).
  - constructor; try (intros; lia).
    + intros a b [].
    + reflexivity.
    + constructor.
  - unfold nl, nr. lia.
  - cbn [map] in E. fold L R nl nr. rewrite E. f_equal.
    unfold intersect_drop_spec. cbn zeta. fold (dropf (mvals l mask) (mvals r mask)).
    rewrite <- (drop_spec_pairs po HP). rewrite !map_rev. reflexivity.
Qed.

(* ---------------- intersect_keep ---------------- *)
Lemma keep_run_l_S cap f target i lo nlo :
  keep_run_l L mask cap (S f) target i lo nlo =
  if i <? nl then
    do x <- rd 0 L i;
    if N.land x mask =? target then
      do _ <- wr_ok 2 cap nlo; keep_run_l L mask cap f target (i + 1) (i :: lo) (nlo + 1)
    else Done (i, lo, nlo)
  else Done (i, lo, nlo).
Proof. reflexivity. Qed.
Lemma keep_run_r_S cap f target j ro nro :
  keep_run_r R mask cap (S f) target j ro nro =
  if j <? nr then
    do y <- rd 1 R j;
    if N.land y mask =? target then
      do _ <- wr_ok 3 cap nro; keep_run_r R mask cap f target (j + 1) (j :: ro) (nro + 1)
    else Done (j, ro, nro)
  else Done (j, ro, nro).
Proof. reflexivity. Qed.

Definition gtN (x y : N) : Prop := y < x.

Lemma keep_run_l_spec : forall fuel cap target i lo nlo,
  nl < i + N.of_nat fuel -> i <= nl -> nlo <= i -> nl <= cap ->
  exists i3 lo3 nlo3, keep_run_l L mask cap fuel target i lo nlo = Done (i3, lo3, nlo3) /\
    i <= i3 /\ i3 <= nl /\ nlo3 <= i3 /\
    (forall a, i <= a -> a < i3 -> ml a = target) /\ (i3 < nl -> ml i3 <> target) /\
    (forall a, In a lo3 <-> In a lo \/ (i <= a /\ a < i3)) /\
    (StronglySorted gtN lo -> (forall a, In a lo -> a < i) -> StronglySorted gtN lo3).
Proof.
  induction fuel as [|f IH]; intros cap target i lo nlo Hfuel Hi Hn Hcap.
  { cbn [N.of_nat] in Hfuel. lia. }
  rewrite keep_run_l_S. destruct (i <? nl) eqn:C.
  - apply N.ltb_lt in C. rewrite (rdL i C). cbn [bind]. fold (ml i).
    destruct (ml i =? target) eqn:E.
    + apply N.eqb_eq in E.
      assert (Hw : nlo <? cap = true) by (apply N.ltb_lt; lia).
      unfold wr_ok. rewrite Hw. cbn [bind].
      destruct (IH cap target (i + 1) (i :: lo) (nlo + 1)) as (i3 & lo3 & nlo3 & EQ & A1 & A2 & A3 & A4 & A5 & A6 & A7);
        try lia.
      exists i3, lo3, nlo3. split; [exact EQ|].
      split; [lia|]. split; [exact A2|]. split; [exact A3|]. split; [|split; [exact A5|split]].
      * intros a Ha1 Ha2. destruct (N.eq_dec a i) as [->|Hne]; [exact E|]. apply A4; lia.
      * intro a. rewrite A6. cbn [In]. split.
        -- intros [[H|H]|H]; [right; lia|now left|right; lia].
        -- intros [H|H]; [left; now right|]. destruct (N.eq_dec a i) as [->|Hne]; [left; now left|right; lia].
      * intros S1 S2. apply A7.
        -- constructor; [exact S1|]. apply Forall_forall. intros a Ha. unfold gtN. apply S2, Ha.
        -- intros a [<-|Ha]; [lia|]. specialize (S2 a Ha). lia.
    + apply N.eqb_neq in E. exists i, lo, nlo. split; [reflexivity|].
      split; [lia|]. split; [lia|]. split; [lia|]. split; [intros; lia|]. split; [intros _; exact E|].
      split; [|auto]. intro a. split; [auto|]. intros [H|H]; [exact H|lia].
  - apply N.ltb_ge in C. exists i, lo, nlo. split; [reflexivity|].
    split; [lia|]. split; [lia|]. split; [lia|]. split; [intros; lia|]. split; [intros; lia|].
    split; [|auto]. intro a. split; [auto|]. intros [H|H]; [exact H|lia].
Qed.

Lemma keep_run_r_spec : forall fuel cap target j ro nro,
  nr < j + N.of_nat fuel -> j <= nr -> nro <= j -> nr <= cap ->
  exists j3 ro3 nro3, keep_run_r R mask cap fuel target j ro nro = Done (j3, ro3, nro3) /\
    j <= j3 /\ j3 <= nr /\ nro3 <= j3 /\
    (forall b, j <= b -> b < j3 -> mr b = target) /\ (j3 < nr -> mr j3 <> target) /\
    (forall b, In b ro3 <-> In b ro \/ (j <= b /\ b < j3)) /\
    (StronglySorted gtN ro -> (forall b, In b ro -> b < j) -> StronglySorted gtN ro3).
Proof.
  induction fuel as [|f IH]; intros cap target j ro nro Hfuel Hj Hn Hcap.
  { cbn [N.of_nat] in Hfuel. lia. }
  rewrite keep_run_r_S. destruct (j <? nr) eqn:C.
  - apply N.ltb_lt in C. rewrite (rdR j C). cbn [bind]. fold (mr j).
    destruct (mr j =? target) eqn:E.
    + apply N.eqb_eq in E.
      assert (Hw : nro <? cap = true) by (apply N.ltb_lt; lia).
      unfold wr_ok. rewrite Hw. cbn [bind].
      destruct (IH cap target (j + 1) (j :: ro) (nro + 1)) as (j3 & ro3 & nro3 & EQ & A1 & A2 & A3 & A4 & A5 & A6 & A7);
        try lia.
      exists j3, ro3, nro3. split; [exact EQ|].
      split; [lia|]. split; [exact A2|]. split; [exact A3|]. split; [|split; [exact A5|split]].
      * intros a Ha1 Ha2. destruct (N.eq_dec a j) as [->|Hne]; [exact E|]. apply A4; lia.
      * intro a. rewrite A6. cbn [In]. split.
        -- intros [[H|H]|H]; [right; lia|now left|right; lia].
        -- intros [H|H]; [left; now right|]. destruct (N.eq_dec a j) as [->|Hne]; [left; now left|right; lia].
      * intros S1 S2. apply A7.
        -- constructor; [exact S1|]. apply Forall_forall. intros a Ha. unfold gtN. apply S2, Ha.
        -- intros a [<-|Ha]; [lia|]. specialize (S2 a Ha). lia.
    + apply N.eqb_neq in E. exists j, ro, nro. split; [reflexivity|].
      split; [lia|]. split; [lia|]. split; [lia|]. split; [intros; lia|]. split; [intros _; exact E|].
      split; [|auto]. intro a. split; [auto|]. intros [H|H]; [exact H|lia].
  - apply N.ltb_ge in C. exists j, ro, nro. split; [reflexivity|].
    split; [lia|]. split; [lia|]. split; [lia|]. split; [intros; lia|]. split; [intros; lia|].
    split; [|auto]. intro a. split; [auto|]. intros [H|H]; [exact H|lia].
Qed.

Lemma keep_loop_S cap rf f i j lo ro nlo nro :
  keep_loop L R mask cap rf (S f) i j lo ro nlo nro =
  if andb (i <? nl) (j <? nr) then
    do ig <- gallop_l L R mask GFUEL i j 1;
    let i2 := fst ig - snd ig / 2 in
    do jg <- gallop_r L R mask GFUEL i2 j 1;
    let j2 := fst jg - snd jg / 2 in
    do x <- rd 0 L i2; do y <- rd 1 R j2;
    let mx := N.land x mask in let my := N.land y mask in
    if mx <? my then keep_loop L R mask cap rf f (i2 + 1) j2 lo ro nlo nro
    else if my <? mx then keep_loop L R mask cap rf f i2 (j2 + 1) lo ro nlo nro
    else
      do a <- keep_run_l L mask cap rf mx i2 lo nlo;
      let '(i3, lo3, nlo3) := a in
      do b <- keep_run_r R mask cap rf mx j2 ro nro;
      let '(j3, ro3, nro3) := b in
      keep_loop L R mask cap rf f i3 j3 lo3 ro3 nlo3 nro3
  else Done (rev lo, rev ro).
Proof. reflexivity. Qed.

Definition inR (a : N) : Prop := exists b, b < nr /\ ml a = mr b.
Definition inL (b : N) : Prop := exists a, a < nl /\ ml a = mr b.

Record KInv (i j : N) (lo ro : list N) (nlo nro : N) : Prop := {
  K0 : i <= nl /\ j <= nr /\ nlo <= i /\ nro <= j;
  K1 : forall a, In a lo -> a < i /\ a < nl /\ inR a;
  K1r : forall b, In b ro -> b < j /\ b < nr /\ inL b;
  K2 : forall a b, a < i -> a < nl -> j <= b -> b < nr -> ml a < mr b;
  K3 : forall a b, b < j -> b < nr -> i <= a -> a < nl -> mr b < ml a;
  K4 : forall a b, a < i -> a < nl -> b < j -> b < nr -> ml a = mr b -> In a lo /\ In b ro;
  K5 : StronglySorted gtN lo /\ StronglySorted gtN ro
}.

Definition KPost (lo ro : list N) : Prop :=
  (forall a, In a lo <-> a < nl /\ inR a) /\
  (forall b, In b ro <-> b < nr /\ inL b) /\
  StronglySorted gtN lo /\ StronglySorted gtN ro.

Lemma keep_loop_correct : forall fuel rf i j lo ro nlo nro,
  KInv i j lo ro nlo nro -> nl + nr < i + j + N.of_nat fuel ->
  nl < N.of_nat rf -> nr < N.of_nat rf ->
  exists lo' ro', keep_loop L R mask (N.max nl nr) rf fuel i j lo ro nlo nro
              = Done (rev lo', rev ro') /\ KPost lo' ro'.
Proof.
  induction fuel as [|f IH]; intros rf i j lo ro nlo nro HI Hfuel Hrf1 Hrf2.
  { destruct HI as [H0 _ _ _ _ _ _]. cbn [N.of_nat] in Hfuel. lia. }
  rewrite keep_loop_S.
  destruct HI as [H0 H1 H1r H2 H3 H4 H5].
  destruct (andb (i <? nl) (j <? nr)) eqn:G.
  2:{ (* loop exit *)
    exists lo, ro. split; [reflexivity|].
    assert (X : forall a b, a < nl -> b < nr -> ml a = mr b -> In a lo /\ In b ro).
    { intros a b Ha Hb E.
      apply andb_false_iff in G as [G|G]; apply N.ltb_ge in G.
      + destruct (N.lt_ge_cases b j) as [Hbj|Hbj].
        * apply (H4 a b); try assumption; try lia.
        * exfalso. pose proof (H2 a b ltac:(lia) Ha Hbj Hb). lia.
      + destruct (N.lt_ge_cases a i) as [Hai|Hai].
        * apply (H4 a b); try assumption; try lia.
        * exfalso. pose proof (H3 a b ltac:(lia) Hb Hai Ha). lia. }
    split; [|split; [|exact H5]].
    - intro a. split.
      + intro Hin. destruct (H1 a Hin) as (_ & Ha & Hr). auto.
      + intros (Ha & b & Hb & E). apply (X a b Ha Hb E).
    - intro b. split.
      + intro Hin. destruct (H1r b Hin) as (_ & Hb & Hl). auto.
      + intros (Hb & a & Ha & E). apply (X a b Ha Hb E). }
  apply andb_true_iff in G as [Hi Hj]. apply N.ltb_lt in Hi, Hj.
  destruct (gallops i j Hi Hj) as (i1 & g1 & j1 & g2 & EL & ER & HG).
  rewrite EL. cbn [bind fst snd]. rewrite ER. cbn [bind fst snd].
  cbn zeta in HG.
  set (i2 := i1 - g1/2) in *. set (j2 := j1 - g2/2) in *.
  destruct HG as (Hi2a & Hi2b & Hj2a & Hj2b & SkL & SkR & SkL' & SkR').
  rewrite (rdL i2 Hi2b), (rdR j2 Hj2b). cbn [bind].
  fold (ml i2). fold (mr j2).
  (* a match strictly inside the skipped block is impossible *)
  assert (NoSk : forall a b, i <= a -> a <= i2 -> j <= b -> b < j2 -> ml a = mr b -> False).
  { intros a b Ha1 Ha2 Hb1 Hb2 E. pose proof (SkR b Hb1 Hb2).
    destruct (N.eq_dec i2 i) as [Ei|Ei].
    - assert (a = i2) by lia. subst a. lia.
    - pose proof (SkL' Ei). assert (mr j <= mr b) by (apply HsR; lia). lia. }
  destruct (ml i2 <? mr j2) eqn:C1.
  { (* advance left *)
    apply N.ltb_lt in C1. apply IH; try assumption; [|clear - Hfuel Hi2a Hj2a; lia]. constructor.
    - clear - H0 Hi2a Hi2b Hj2a Hj2b. lia.
    - intros a Hin. specialize (H1 a Hin). clear - H1 Hi2a. intuition lia.
    - intros b Hin. specialize (H1r b Hin). clear - H1r Hj2a. intuition lia.
    - intros a b Ha Hanl Hb Hbnr.
      assert (ml a <= ml i2) by (apply HsL; lia). assert (mr j2 <= mr b) by (apply HsR; lia). lia.
    - intros a b Hb Hbnr Ha Hanl.
      destruct (N.lt_ge_cases b j) as [Hbj|Hbj].
      + apply (H3 a b); try assumption; try lia.
      + pose proof (SkR b Hbj Hb). assert (ml i2 <= ml a) by (apply HsL; lia). lia.
    - intros a b Ha Hanl Hb Hbnr E.
      destruct (N.lt_ge_cases a i) as [Hai|Hai]; destruct (N.lt_ge_cases b j) as [Hbj|Hbj].
      + apply (H4 a b); assumption.
      + exfalso. pose proof (H2 a b Hai Hanl Hbj Hbnr). lia.
      + exfalso. pose proof (H3 a b Hbj Hbnr Hai Hanl). lia.
      + exfalso. apply (NoSk a b); try assumption; lia.
    - exact H5. }
  apply N.ltb_ge in C1.
  destruct (mr j2 <? ml i2) eqn:C2.
  { (* advance right *)
    apply N.ltb_lt in C2. apply IH; try assumption; [|clear - Hfuel Hi2a Hj2a; lia]. constructor.
    - clear - H0 Hi2a Hi2b Hj2a Hj2b. lia.
    - intros a Hin. specialize (H1 a Hin). clear - H1 Hi2a. intuition lia.
    - intros b Hin. specialize (H1r b Hin). clear - H1r Hj2a. intuition lia.
    - intros a b Ha Hanl Hb Hbnr.
      destruct (N.lt_ge_cases a i) as [Hai|Hai].
      + apply (H2 a b); try assumption; try lia.
      + pose proof (SkL a Hai Ha). assert (mr j <= mr b) by (apply HsR; lia). lia.
    - intros a b Hb Hbnr Ha Hanl.
      assert (mr b <= mr j2) by (apply HsR; lia). assert (ml i2 <= ml a) by (apply HsL; lia). lia.
    - intros a b Ha Hanl Hb Hbnr E.
      destruct (N.lt_ge_cases a i) as [Hai|Hai]; destruct (N.lt_ge_cases b j) as [Hbj|Hbj].
      + apply (H4 a b); assumption.
      + exfalso. pose proof (H2 a b Hai Hanl Hbj Hbnr). lia.
      + exfalso. pose proof (H3 a b Hbj Hbnr Hai Hanl). lia.
      + exfalso. pose proof (SkL a Hai Ha). assert (mr j <= mr b) by (apply HsR; lia). lia.
    - exact H5. }
  apply N.ltb_ge in C2.
  (* equal: i2 = i and j2 = j necessarily *)
  assert (Ev : ml i2 = mr j2) by lia.
  assert (Ei : i2 = i).
  { destruct (N.eq_dec i2 i) as [|n]; [assumption|]. pose proof (SkL' n). assert (mr j <= mr j2) by (apply HsR; lia). lia. }
  assert (Ej : j2 = j).
  { destruct (N.eq_dec j2 j) as [|n]; [assumption|]. pose proof (SkR' n). lia. }
  clearbody i2 j2. subst i2 j2. clear SkL SkR SkL' SkR' Hi2a Hj2a Hi2b Hj2b EL ER C1 C2 NoSk.
  destruct (keep_run_l_spec rf (N.max nl nr) (ml i) i lo nlo) as
    (i3 & lo3 & nlo3 & EQL & A1 & A2 & A3 & A4 & A5 & A6 & A7); try (clear - H0 Hrf1 Hi; lia).
  rewrite EQL. cbn [bind].
  destruct (keep_run_r_spec rf (N.max nl nr) (ml i) j ro nro) as
    (j3 & ro3 & nro3 & EQR & B1 & B2 & B3 & B4 & B5 & B6 & B7); try (clear - H0 Hrf2 Hj; lia).
  rewrite EQR. cbn [bind].
  assert (Hi3 : i < i3).
  { destruct (N.eq_dec i3 i) as [->|]; [exfalso; apply A5; auto|lia]. }
  assert (Hj3 : j < j3).
  { destruct (N.eq_dec j3 j) as [->|]; [exfalso; apply B5; auto|lia]. }
  apply IH; try assumption; [|clear - Hfuel Hi3 Hj3; lia]. constructor.
  - clear - A2 A3 B2 B3. lia.
  - intros a Hin. apply A6 in Hin as [Hin|[Ha1 Ha2]].
    + specialize (H1 a Hin). clear - H1 A1. intuition lia.
    + split; [exact Ha2|]. split; [lia|]. exists j. split; [exact Hj|]. rewrite (A4 a Ha1 Ha2). exact Ev.
  - intros b Hin. apply B6 in Hin as [Hin|[Hb1 Hb2]].
    + specialize (H1r b Hin). clear - H1r B1. intuition lia.
    + split; [exact Hb2|]. split; [lia|]. exists i. split; [exact Hi|]. rewrite (B4 b Hb1 Hb2). reflexivity.
  - intros a b Ha Hanl Hb Hbnr.
    destruct (N.lt_ge_cases a i) as [Hai|Hai].
    + apply (H2 a b); try assumption; lia.
    + rewrite (A4 a Hai Ha). assert (j3 < nr) by lia. specialize (B5 H).
      assert (mr j <= mr j3) by (apply HsR; lia). assert (mr j3 <= mr b) by (apply HsR; lia). lia.
  - intros a b Hb Hbnr Ha Hanl.
    destruct (N.lt_ge_cases b j) as [Hbj|Hbj].
    + apply (H3 a b); try assumption; lia.
    + rewrite (B4 b Hbj Hb). assert (i3 < nl) by lia. specialize (A5 H).
      assert (ml i <= ml i3) by (apply HsL; lia). assert (ml i3 <= ml a) by (apply HsL; lia). lia.
  - intros a b Ha Hanl Hb Hbnr E. rewrite A6, B6.
    destruct (N.lt_ge_cases a i) as [Hai|Hai]; destruct (N.lt_ge_cases b j) as [Hbj|Hbj].
    + destruct (H4 a b); auto.
    + exfalso. pose proof (H2 a b Hai Hanl Hbj Hbnr). lia.
    + exfalso. pose proof (H3 a b Hbj Hbnr Hai Hanl). lia.
    + split; right; lia.
  - destruct H5 as [S1 S2]. split.
    + apply A7; [exact S1|]. intros a Ha. apply (H1 a Ha).
    + apply B7; [exact S2|]. intros b Hb. apply (H1r b Hb).
Qed.

Lemma inR_mem a : mem_n (nth (N.to_nat a) (mvals l mask) 0) (mvals r mask) = true <-> inR a.
Proof.
  rewrite mem_n_true, length_mvals, nth_mvals. unfold inR. fold (ml a). fold nr. split.
  - intros (b & Hb & E). exists b. rewrite nth_mvals in E. fold (mr b) in E. auto.
  - intros (b & Hb & E). exists b. rewrite nth_mvals. fold (mr b). auto.
Qed.
Lemma inL_mem b : mem_n (nth (N.to_nat b) (mvals r mask) 0) (mvals l mask) = true <-> inL b.
Proof.
  rewrite mem_n_true, length_mvals, nth_mvals. unfold inL. fold (mr b). fold nl. split.
  - intros (a & Ha & E). exists a. rewrite nth_mvals in E. fold (ml a) in E. auto.
  - intros (a & Ha & E). exists a. rewrite nth_mvals. fold (ml a). auto.
Qed.
End C.

(* order and membership of  map fst (filter .. (enum ..)) *)
Lemma filt_lb (P : N * N -> bool) : forall t k a, In a (map fst (filter P (enum_from k t))) -> k <= a.
Proof.
  intros t k a H. apply in_map_iff in H as ([a0 v] & <- & Hin). apply filter_In in Hin as [Hin _].
  apply in_enum_from in Hin as [Hk _]. exact Hk.
Qed.
Lemma filt_sorted (P : N * N -> bool) : forall t k, StronglySorted N.lt (map fst (filter P (enum_from k t))).
Proof.
  induction t as [|x t IH]; intros k; cbn [enum_from filter]; [constructor|].
  destruct (P (k, x)); [|apply IH]. cbn [map fst]. constructor; [apply IH|].
  apply Forall_forall. intros a Ha. apply filt_lb in Ha. lia.
Qed.
Lemma filt_in (Q : N -> bool) M a :
  In a (map fst (filter (fun iv => Q (snd iv)) (enum M))) <->
  a < N.of_nat (length M) /\ Q (nth (N.to_nat a) M 0) = true.
Proof.
  rewrite in_map_iff. split.
  - intros ([a0 v] & <- & Hin). apply filter_In in Hin as [Hin HQ]. apply in_enum in Hin as [H1 H2].
    cbn [fst snd] in *. subst v. auto.
  - intros [H1 H2]. exists (a, nth (N.to_nat a) M 0). split; [reflexivity|]. apply filter_In.
    split; [apply in_enum; auto|exact H2].
Qed.

Theorem intersect_drop_correct : forall l r mask,
  msorted l mask -> msorted r mask ->
  N.of_nat (length l) < 2^62 -> N.of_nat (length r) < 2^62 ->
  intersect_drop l r mask = Done (intersect_drop_spec l r mask).
Proof. intros. apply intersect_drop_correct_sec; assumption. Qed.

Theorem intersect_keep_correct : forall l r mask,
  msorted l mask -> msorted r mask ->
  N.of_nat (length l) < 2^62 -> N.of_nat (length r) < 2^62 ->
  intersect_keep l r mask = Done (intersect_keep_spec l r mask).
Proof.
  intros l r mask HsL HsR Hnl Hnr. unfold intersect_keep, outer_fuel.
  destruct (keep_loop_correct l r mask HsL HsR Hnl Hnr (length l + length r + 2) (length l + length r + 2)
              0 0 [] [] 0 0) as (lo & ro & E & P1 & P2 & S1 & S2); try lia.
  - constructor; try (intros; lia).
    + intros a [].
    + intros a [].
    + split; constructor.
  - rewrite E. f_equal. unfold intersect_keep_spec. cbn zeta. f_equal.
    + apply (ssorted_unique N.lt).
      * intros x. lia.
      * intros x y. lia.
      * apply ssorted_rev. exact S1.
      * apply filt_sorted.
      * intro a. rewrite <- in_rev, P1.
        rewrite (filt_in (fun v => mem_n v (mvals r mask))), length_mvals, inR_mem. reflexivity.
    + apply (ssorted_unique N.lt).
      * intros x. lia.
      * intros x y. lia.
      * apply ssorted_rev. exact S2.
      * apply filt_sorted.
      * intro b. rewrite <- in_rev, P2.
        rewrite (filt_in (fun v => mem_n v (mvals l mask))), length_mvals, inL_mem. reflexivity.
Qed.

(* the same statements for the Sorted formulation of the precondition *)
Lemma sorted_msorted l mask : Sorted N.le (mvals l mask) -> msorted l mask.
Proof.
  intro H. apply Sorted_StronglySorted in H; [|intros x y z; apply N.le_trans].
  intros a b Hab Hb. rewrite <- !nth_mvals. rewrite <- (length_mvals l mask) in Hb.
  revert a b Hab Hb. induction H as [|x t Hs IH Hf]; intros a b Hab Hb; cbn [length] in Hb; [lia|].
  destruct b as [|b].
  - assert (a = 0)%nat by lia. subst a. lia.
  - destruct a as [|a]; cbn [nth].
    + rewrite Forall_forall in Hf. apply Hf. apply nth_In. lia.
    + apply IH; lia.
Qed.

Print Assumptions intersect_drop_correct.
Print Assumptions intersect_keep_correct.
