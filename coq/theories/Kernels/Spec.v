(* Set-theoretic definitions of what each sorted-array kernel computes (C12).
   Written over plain lists with positional scans; no pointers, gallops or buffers. *)
From SA Require Import Base.Prelude.
Open Scope N_scope.

Definition mvals (l : list N) (mask : N) : list N := map (fun x => N.land x mask) l.

(* index of the first element equal to v *)
Fixpoint first_index (v : N) (l : list N) : option N :=
  match l with
  | [] => None
  | x :: t => if x =? v then Some 0 else option_map N.succ (first_index v t)
  end.
Definition mem_n (v : N) (l : list N) : bool := existsb (N.eqb v) l.
Definition is_first (v a : N) (l : list N) : bool :=
  match first_index v l with Some a' => a' =? a | None => false end.

(* positions 0..n-1 paired with the elements *)
Fixpoint enum_from (i : N) (l : list N) : list (N * N) :=
  match l with [] => [] | x :: t => (i, x) :: enum_from (N.succ i) t end.
Definition enum (l : list N) := enum_from 0 l.

(* intersect, duplicates dropped: for every common masked value, (first index in lhs, first index in rhs),
   in increasing order of the value's first lhs index *)
Definition intersect_drop_spec (l r : list N) (mask : N) : list N * list N :=
  let ML := mvals l mask in let MR := mvals r mask in
  let pairs := flat_map (fun iv => let '(a, v) := iv in
                 if is_first v a ML
                 then match first_index v MR with Some b => [(a, b)] | None => [] end
                 else []) (enum ML) in
  (map fst pairs, map snd pairs).

(* intersect, duplicates kept: every index whose masked value occurs in the other input *)
Definition intersect_keep_spec (l r : list N) (mask : N) : list N * list N :=
  let ML := mvals l mask in let MR := mvals r mask in
  (map fst (filter (fun iv => mem_n (snd iv) MR) (enum ML)),
   map fst (filter (fun iv => mem_n (snd iv) ML) (enum MR))).

(* adjacent: first-occurrence pairs (a, b) with  ML[a] + delta = MR[b] , delta = lowest set bit of the mask *)
Definition adjacent_spec (l r : list N) (mask delta : N) : list N * list N :=
  let ML := mvals l mask in let MR := mvals r mask in
  let pairs := flat_map (fun iv => let '(a, v) := iv in
                 if is_first v a ML
                 then match first_index (v + delta) MR with Some b => [(a, b)] | None => [] end
                 else []) (enum ML) in
  (map fst pairs, map snd pairs).

(* multiset union of two sorted lists = sorting the concatenation *)
Fixpoint insert_sorted (x : N) (l : list N) : list N :=
  match l with [] => [x] | y :: t => if x <=? y then x :: l else y :: insert_sorted x t end.
Definition sort_n (l : list N) : list N := fold_right insert_sorted [] l.
Definition merge_spec (l r : list N) : list N := sort_n (l ++ r).
(* consecutive duplicates removed *)
Fixpoint dedup_adj (l : list N) : list N :=
  match l with
  | [] => []
  | x :: t => match t with [] => [x] | y :: _ => if x =? y then dedup_adj t else x :: dedup_adj t end
  end.
Definition merge_drop_spec (l r : list N) : list N := dedup_adj (sort_n (l ++ r)).

(* distinct (shifted) values of a sorted array *)
Definition unique_spec (a : list N) (rshift : N) : list N := dedup_adj (map (fun x => N.shiftr x rshift) a).

(* lower bound and presence under a mask, from position start *)
Definition count_lt (t : N) (ml : list N) : N := N.of_nat (length (filter (fun v => v <? t) ml)).
Definition search_spec (a : list N) (target mask start : N) : option N * bool :=
  let ML := mvals a mask in let t := N.land target mask in
  let present := mem_n t ML in
  if existsb (fun v => t <=? v) ML then (Some (N.max start (count_lt t ML)), present)
  else (None, false).

(* one (key, total) pair per run of equal keys *)
Fixpoint runs_sum (kvs : list (N * N)) : list (N * N) :=
  match kvs with
  | [] => []
  | (k, v) :: t =>
      match runs_sum t with
      | (k', s) :: rest => if k =? k' then (k, v + s) :: rest else (k, v) :: (k', s) :: rest
      | [] => [(k, v)]
      end
  end.
Definition popcount_reduce_at_spec (ids p : list N) := runs_sum (combine ids (map popcount p)).
Definition key_sum_over_spec (ids c : list N) := runs_sum (combine ids c).
Definition popcount64_reduce_spec (a : list N) (key_shift value_mask : N) :=
  runs_sum (map (fun w => (N.shiftr w key_shift, popcount (N.land w value_mask))) a).

(* sort_merge_counts on strictly increasing id lists: ids of either side, counts of shared ids added *)
Fixpoint insert_kv (kv : N * N) (l : list (N * N)) : list (N * N) :=
  match l with [] => [kv] | y :: t => if fst kv <=? fst y then kv :: l else y :: insert_kv kv t end.
Definition sort_merge_counts_spec (li lc ri rc : list N) : list (N * N) :=
  runs_sum (fold_right insert_kv [] (combine li lc ++ combine ri rc)).

(* dense vector: position i holds the value of the last pair whose index is i, else 0 *)
Definition as_dense_spec (indices values : list N) (size : N) : list N :=
  map (fun i => match find (fun iv => fst iv =? i) (rev (combine indices values)) with
                | Some iv => snd iv | None => 0 end)
      (map N.of_nat (seq 0 (N.to_nat size))).
