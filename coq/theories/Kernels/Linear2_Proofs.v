(* Proofs about the line-level models of Kernels/Linear2.v (C14):
   popcount64 and payload_slice never fault, never run out of fuel, and return exactly what the list
   models of Kernels/Linear.v ([popcount64] = map popcount, [payload_slice] = filter) return --
   for ARBITRARY inputs: any length, unsorted, any mask, lo > hi, the empty array, and (popcount64) any
   content of the uninitialised np.empty buffer. *)
From SA Require Import Base.Prelude Kernels.Linear Kernels.Linear_Proofs Kernels.Linear2.
Open Scope N_scope.

(* ------------------------------------------------------------------ *)
(* the output buffer                                                   *)
(* ------------------------------------------------------------------ *)
Lemma list_set_app : forall (P : list N) z Z v, list_set (P ++ z :: Z) (length P) v = P ++ v :: Z.
Proof.
  induction P as [|p P IH]; intros z Z v; cbn [app length list_set]; [reflexivity|].
  f_equal. apply IH.
Qed.

Lemma wr_app buf (P : list N) z Z i v : i = N.of_nat (length P) -> wr buf (P ++ z :: Z) i v = Done (P ++ v :: Z).
Proof.
  intros ->. unfold wr. rewrite wr_ok_lt by (rewrite app_length; cbn [length]; lia).
  cbn [bind]. rewrite Nat2N.id, list_set_app. reflexivity.
Qed.

Lemma np_empty_length junk n : length (np_empty junk n) = N.to_nat n.
Proof. unfold np_empty. rewrite map_length, seq_length. reflexivity. Qed.
Lemma np_zeros_length n : length (np_zeros n) = N.to_nat n.
Proof. unfold np_zeros. apply repeat_length. Qed.

Lemma is_done_Done {A} (r : result A) v : r = Done v -> is_done r.
Proof. intros ->. exact I. Qed.

(* ------------------------------------------------------------------ *)
(* popcount64_arr / ctz_arr / clz_arr                                  *)
(* ------------------------------------------------------------------ *)
(* invariant: d = the words consumed, t = the words to come; the counter and both pointer offsets equal |d|;
   the result buffer holds f of the consumed words followed by |t| not yet written words J *)
Lemma unary_arr_loop_ok a f : forall fuel t d J c ap rp,
  a = d ++ t -> c = N.of_nat (length d) -> ap = c -> rp = c -> length J = length t -> (length t < fuel)%nat ->
  unary_arr_loop (mem_of_list a) f fuel c ap rp (map f d ++ J) = Done (map f d ++ map f t).
Proof.
  induction fuel as [|fuel IH]; intros t d J c ap rp Ha Hc Hap Hrp HJ Hf; [lia|].
  cbn [unary_arr_loop]. rewrite !mlen_mem_of_list.
  assert (El : length a = (length d + length t)%nat) by (subst a; apply app_length).
  destruct t as [|x t]; cbn [length] in *.
  - rewrite ltb_false by lia. destruct J; [|discriminate]. reflexivity.
  - destruct J as [|j J]; [discriminate|]. cbn [length] in HJ.
    rewrite ltb_true by lia.
    rewrite (rd_app 0 a d x t) by (try assumption; lia). cbn [bind].
    rewrite wr_app by (rewrite map_length; lia). cbn [bind].
    replace (map f d ++ f x :: J) with (map f (d ++ [x]) ++ J)
      by (rewrite map_app, <- app_assoc; reflexivity).
    rewrite (IH t (d ++ [x]) J); try (rewrite ?app_length; cbn [length]; lia).
    + rewrite map_app, <- app_assoc. reflexivity.
    + rewrite <- app_assoc. exact Ha.
Qed.

Theorem unary_arr_eq : forall f junk a, unary_arr f junk a = Done (map f a).
Proof.
  intros f junk a. unfold unary_arr.
  apply (unary_arr_loop_ok a f (S (length a)) a [] (np_empty junk (mlen (mem_of_list a))) 0 0 0);
    try reflexivity; [|lia].
  rewrite np_empty_length, mlen_mem_of_list, Nat2N.id. reflexivity.
Qed.

(* 2. the line-level model returns exactly the list model, whatever np.empty left in the buffer *)
Theorem popcount64_ll_eq : forall junk a, popcount64_ll junk a = Done (popcount64 a).
Proof. intros. unfold popcount64_ll, popcount64. apply unary_arr_eq. Qed.

(* 1. no fault and no fuel exhaustion, for every input list (no length bound is needed) *)
Theorem popcount64_ll_safe : forall junk a, ~ is_fault (popcount64_ll junk a) /\ is_done (popcount64_ll junk a).
Proof.
  intros junk a. split.
  - eapply not_fault_done. apply popcount64_ll_eq.
  - eapply is_done_Done. apply popcount64_ll_eq.
Qed.

(* ctz_arr / clz_arr: the same loop with any other word function *)
Theorem unary_arr_safe : forall f junk a, ~ is_fault (unary_arr f junk a) /\ is_done (unary_arr f junk a).
Proof.
  intros f junk a. split.
  - eapply not_fault_done. apply unary_arr_eq.
  - eapply is_done_Done. apply unary_arr_eq.
Qed.

(* ------------------------------------------------------------------ *)
(* popcount64_arr_naive (dead code): C int counter                     *)
(* ------------------------------------------------------------------ *)
Lemma naive_loop_ok a : N.of_nat (length a) < 2147483648 -> forall fuel t d J i,
  a = d ++ t -> i = N.of_nat (length d) -> length J = length t -> (length t < fuel)%nat ->
  naive_loop (mem_of_list a) fuel i (map popcount d ++ J) = Done (map popcount d ++ map popcount t).
Proof.
  intros Hn.
  induction fuel as [|fuel IH]; intros t d J i Ha Hi HJ Hf; [lia|].
  cbn [naive_loop]. rewrite !mlen_mem_of_list.
  assert (El : length a = (length d + length t)%nat) by (subst a; apply app_length).
  assert (Hneg : int_neg i = false) by (unfold int_neg; apply N.leb_gt; lia).
  unfold int_sext. rewrite Hneg. cbn [orb].
  destruct t as [|x t]; cbn [length] in *.
  - rewrite ltb_false by lia. destruct J; [|discriminate]. reflexivity.
  - destruct J as [|j J]; [discriminate|]. cbn [length] in HJ.
    rewrite ltb_true by lia.
    rewrite (rd_app 0 a d x t) by assumption. cbn [bind].
    rewrite wr_app by (rewrite map_length; lia). cbn [bind].
    replace (map popcount d ++ popcount x :: J) with (map popcount (d ++ [x]) ++ J)
      by (rewrite map_app, <- app_assoc; reflexivity).
    rewrite (IH t (d ++ [x]) J).
    + rewrite map_app, <- app_assoc. reflexivity.
    + rewrite <- app_assoc. exact Ha.
    + rewrite app_length. cbn [length]. rewrite N.mod_small by lia. lia.
    + lia.
    + lia.
Qed.

Theorem popcount64_naive_ll_eq : forall junk a, N.of_nat (length a) < 2147483648 ->
  popcount64_naive_ll junk a = Done (popcount64 a).
Proof.
  intros junk a Hn. unfold popcount64_naive_ll, popcount64.
  apply (naive_loop_ok a Hn (S (length a)) a [] (np_empty junk (mlen (mem_of_list a))) 0);
    try reflexivity; [|lia].
  rewrite np_empty_length, mlen_mem_of_list, Nat2N.id. reflexivity.
Qed.

(* ... and beyond that the model does fault: after 2^31 iterations the counter is a negative int, the loop
   condition still holds, and the sign-extended index is outside the array.  (Signed overflow is undefined in C;
   the model takes the two's-complement wrap.  The function has no caller, so this is not a C14 finding.) *)
Lemma naive_loop_faults a : 2147483648 <= N.of_nat (length a) -> N.of_nat (length a) < 4611686018427387904 ->
  forall fuel t d J i,
  a = d ++ t -> i = N.of_nat (length d) -> i <= 2147483648 -> length J = length t ->
  2147483648 - i < N.of_nat fuel ->
  is_fault (naive_loop (mem_of_list a) fuel i (map popcount d ++ J)).
Proof.
  intros Hlo Hhi.
  induction fuel as [|fuel IH]; intros t d J i Ha Hi Hi2 HJ Hf; [lia|].
  cbn [naive_loop]. rewrite !mlen_mem_of_list.
  assert (El : length a = (length d + length t)%nat) by (subst a; apply app_length).
  destruct (N.eq_dec i 2147483648) as [E|E].
  - assert (Hneg : int_neg i = true) by (unfold int_neg; apply N.leb_le; lia).
    unfold int_sext. rewrite Hneg. cbn [orb].
    rewrite rd_mem_of_list, lrd_oob by lia. exact I.
  - assert (Hneg : int_neg i = false) by (unfold int_neg; apply N.leb_gt; lia).
    unfold int_sext. rewrite Hneg. cbn [orb].
    destruct t as [|x t]; cbn [length] in *; [lia|].
    destruct J as [|j J]; [discriminate|]. cbn [length] in HJ.
    rewrite ltb_true by lia.
    rewrite (rd_app 0 a d x t) by assumption. cbn [bind].
    rewrite wr_app by (rewrite map_length; lia). cbn [bind].
    replace (map popcount d ++ popcount x :: J) with (map popcount (d ++ [x]) ++ J)
      by (rewrite map_app, <- app_assoc; reflexivity).
    apply (IH t (d ++ [x]) J).
    + rewrite <- app_assoc. exact Ha.
    + rewrite app_length. cbn [length]. rewrite N.mod_small by lia. lia.
    + rewrite N.mod_small by lia. lia.
    + lia.
    + rewrite N.mod_small by lia. lia.
Qed.

Theorem popcount64_naive_ll_faults : forall junk a,
  2147483648 <= N.of_nat (length a) -> N.of_nat (length a) < 4611686018427387904 ->
  is_fault (popcount64_naive_ll junk a).
Proof.
  intros junk a Hlo Hhi. unfold popcount64_naive_ll.
  apply (naive_loop_faults a Hlo Hhi (S (length a)) a [] (np_empty junk (mlen (mem_of_list a))) 0);
    try reflexivity; try lia.
  rewrite np_empty_length, mlen_mem_of_list, Nat2N.id. reflexivity.
Qed.

(* ------------------------------------------------------------------ *)
(* _payload_slice / payload_slice                                      *)
(* ------------------------------------------------------------------ *)
Definition in_range (msb_mask lo hi w : N) : bool :=
  andb (lo <=? N.land w msb_mask) (N.land w msb_mask <=? hi).

(* invariant: d consumed, t to come, ap = |d|; the output buffer is F (the words kept so far, sp = |F| <= |d|)
   followed by the untouched rest Z, and its total length is the allocated |a| *)
Lemma ps_loop_ok a m lo hi : forall fuel t d F Z ap sp,
  a = d ++ t -> ap = N.of_nat (length d) -> sp = N.of_nat (length F) ->
  (length F <= length d)%nat -> (length F + length Z = length a)%nat -> (length t < fuel)%nat ->
  exists Z', ps_loop (mem_of_list a) m lo hi fuel ap sp (F ++ Z) =
             Done ((F ++ filter (in_range m lo hi) t) ++ Z', N.of_nat (length (F ++ filter (in_range m lo hi) t))).
Proof.
  induction fuel as [|fuel IH]; intros t d F Z ap sp Ha Hap Hsp HF HZ Hf; [lia|].
  cbn [ps_loop]. rewrite !mlen_mem_of_list.
  assert (El : length a = (length d + length t)%nat) by (subst a; apply app_length).
  destruct t as [|x t]; cbn [length] in *.
  - rewrite ltb_false by lia. exists Z. cbn [filter]. rewrite app_nil_r. subst sp. reflexivity.
  - rewrite ltb_true by lia.
    rewrite (rd_app 0 a d x t) by assumption. cbn [bind].
    assert (Ha' : a = (d ++ [x]) ++ t) by (rewrite <- app_assoc; exact Ha).
    assert (Hskip : in_range m lo hi x = false ->
              exists Z', ps_loop (mem_of_list a) m lo hi fuel (ap + 1) sp (F ++ Z) =
              Done ((F ++ filter (in_range m lo hi) (x :: t)) ++ Z',
                    N.of_nat (length (F ++ filter (in_range m lo hi) (x :: t))))).
    { intro Hp. cbn [filter]. rewrite Hp.
      apply (IH t (d ++ [x]) F Z); try assumption; rewrite ?app_length; cbn [length]; lia. }
    destruct (lo <=? N.land x m) eqn:E1; cbn [bind andb fst snd].
    + destruct (N.land x m <=? hi) eqn:E2; cbn [bind fst snd].
      * assert (Hp : in_range m lo hi x = true) by (unfold in_range; rewrite E1, E2; reflexivity).
        cbn [filter]. rewrite Hp.
        destruct Z as [|z Z]; [cbn [length] in HZ; lia|].
        rewrite wr_app by exact Hsp. cbn [bind fst snd].
        replace (F ++ x :: Z) with ((F ++ [x]) ++ Z) by (rewrite <- app_assoc; reflexivity).
        replace (F ++ x :: filter (in_range m lo hi) t) with ((F ++ [x]) ++ filter (in_range m lo hi) t)
          by (rewrite <- app_assoc; reflexivity).
        apply (IH t (d ++ [x]) (F ++ [x]) Z); try assumption;
          rewrite ?app_length; cbn [length] in *; lia.
      * apply Hskip. unfold in_range. rewrite E1, E2. reflexivity.
    + apply Hskip. unfold in_range. rewrite E1. reflexivity.
Qed.

Lemma firstn_app_exact {A} (l1 l2 : list A) : firstn (length l1) (l1 ++ l2) = l1.
Proof.
  rewrite firstn_app, Nat.sub_diag, firstn_all. cbn [firstn]. apply app_nil_r.
Qed.

(* 2. exactly the filter model *)
Theorem payload_slice_ll_eq : forall a msb_mask lo hi,
  payload_slice_ll a msb_mask lo hi = Done (payload_slice a msb_mask lo hi).
Proof.
  intros a m lo hi. unfold payload_slice_ll, payload_slice.
  destruct (ps_loop_ok a m lo hi (S (length a)) a [] [] (np_zeros (mlen (mem_of_list a))) 0 0) as [Z' H];
    try reflexivity; try (cbn [length]; lia).
  - cbn [length]. rewrite np_zeros_length, mlen_mem_of_list, Nat2N.id. reflexivity.
  - cbn [app] in H. rewrite H. cbn [bind fst snd]. rewrite Nat2N.id, firstn_app_exact. reflexivity.
Qed.

(* 1. no fault, no fuel exhaustion: unsorted input, any mask, lo > hi, empty array *)
Theorem payload_slice_ll_safe : forall a msb_mask lo hi,
  ~ is_fault (payload_slice_ll a msb_mask lo hi) /\ is_done (payload_slice_ll a msb_mask lo hi).
Proof.
  intros a m lo hi. split.
  - eapply not_fault_done. apply payload_slice_ll_eq.
  - eapply is_done_Done. apply payload_slice_ll_eq.
Qed.

(* non-vacuity witnesses: the models compute, and the checked store is live *)
Example payload_slice_ll_witnesses :
  payload_slice_ll [5;1;9;3;7;2] 15 3 7 = Done [5;3;7] /\
  payload_slice_ll [5;1;9;3;7;2] 15 7 3 = Done [] /\
  payload_slice_ll [] 15 0 3 = Done [] /\
  popcount64_ll (fun _ => 99) [7;0;255;8] = Done [3;0;8;1] /\
  popcount64_ll (fun _ => 99) [] = Done [] /\
  (* the checked store is live: a buffer one word too short is a fault at exactly that word *)
  unary_arr_loop (mem_of_list [7;0;255]) popcount 4 0 0 0 [99;99] = Fault Wr 1 2.
Proof. repeat split; vm_compute; reflexivity. Qed.
