(* Line-level models of the two kernels that Kernels/Linear.v only models as list functions:
     popcount.pyx        popcount64_arr (33-43), popcount64_arr_naive (72-78), wrapper popcount64 (81-85)
                         (ctz_arr 46-56 and clz_arr 59-69 are the same loop with another word function)
     roaringish_ops.pyx  _payload_slice (32-46), wrapper payload_slice (49-55)
   Same conventions as Linear.v: every array read is a checked [rd], every store into an output buffer
   is guarded by [wr_ok] with the capacity the code allocated; buffer 0 = the input, buffer 1 = the output.
   Here the output buffer is an explicit list of exactly the allocated length (np.empty / np.zeros of
   arr.shape[0]), so the final  np.array(result)  /  sliced[:sliced_len]  of the wrappers is modelled too.
   Taking an address ( &result[0], &arr[arr.shape[0]] ) is not an access.  No proofs here. *)
From SA Require Import Base.Prelude Kernels.Linear.
Open Scope N_scope.

(* checked store  B[i] = v  into output buffer number buf; the capacity is the allocated length of B *)
Definition wr (buf : N) (B : list N) (i v : N) : result (list N) :=
  do _ <- wr_ok buf (N.of_nat (length B)) i; Done (list_set B (N.to_nat i) v).

(* np.empty(n, dtype=np.uint64): n words of UNSPECIFIED content (junk k = whatever the allocator left in word k) *)
Definition np_empty (junk : nat -> N) (n : N) : list N := map junk (seq 0 (N.to_nat n)).
(* np.zeros(n, dtype=np.uint64) *)
Definition np_zeros (n : N) : list N := repeat 0 (N.to_nat n).

(* =========================== popcount.pyx =========================== *)
(* popcount64_arr (33-43); ctz_arr (46-56) and clz_arr (59-69) differ only in the builtin [f].
     33  cdef popcount64_arr(DTYPE_t[:] arr):
     34      cdef np.uint64_t[:] result = np.empty(arr.shape[0], dtype=np.uint64)
     36      cdef DTYPE_t* result_ptr = &result[0]
     37      cdef DTYPE_t* arr_ptr = &arr[0]
     39      for _ in range(arr.shape[0]):          C: for (t = 0; t < shape0; t += 1), t : Py_ssize_t
     40          result_ptr[0] = __builtin_popcountll(arr_ptr[0])
     41          result_ptr += 1
     42          arr_ptr += 1
     43      return result
   The loop is NOT unrolled (no tail loop).  The counter and the two pointers are three separate variables
   in the code and in the model: c counts iterations, ap / rp are the offsets of arr_ptr / result_ptr. *)
Section UnaryArr.
Variables (A : mem) (f : N -> N).
Let n := mlen A.                                   (* arr.shape[0] *)
Fixpoint unary_arr_loop (fuel : nat) (c ap rp : N) (R : list N) : result (list N) :=
  match fuel with
  | O => OutOfFuel
  | S fl =>
      if c <? n then                               (* 39 *)
        do x <- rd 0 A ap;                         (* 40  arr_ptr[0] *)
        do R1 <- wr 1 R rp (f x);                  (* 40  result_ptr[0] = ... *)
        unary_arr_loop fl (c + 1) (ap + 1) (rp + 1) R1   (* 41, 42, next iteration *)
      else Done R                                  (* 43 *)
  end.
End UnaryArr.

(* 34, 36, 37 and the wrapper (81-85):  arr = np.ascontiguousarray(arr); return np.array(popcount64_arr(arr))
   -- the WHOLE result buffer is returned, no truncation *)
Definition unary_arr (f : N -> N) (junk : nat -> N) (a : list N) : result (list N) :=
  let A := mem_of_list a in
  let R := np_empty junk (mlen A) in               (* 34 *)
  unary_arr_loop A f (S (length a)) 0 0 0 R.       (* 36: rp = 0, 37: ap = 0 *)
Definition popcount64_ll : (nat -> N) -> list N -> result (list N) := unary_arr popcount.

(* popcount64_arr_naive (72-78) -- cdef, no caller anywhere in the package (dead code):
     73      cdef np.uint64_t[:] result = np.empty(arr.shape[0], dtype=np.uint64)
     74      cdef int i = 0
     76      for i in range(arr.shape[0]):          C: int t; for (t = 0; t < (Py_ssize_t)shape0; t += 1) { i = t;
     77          result[i] = __builtin_popcountll(arr[i])       both indexed through (Py_ssize_t) i
     78      return result
   The counter is a 32-bit C int.  The model keeps its bit pattern (mod 2^32); a pattern >= 2^31 is a negative
   int: it compares below every length and, sign-extended to the 64-bit offset, lies outside every buffer. *)
Definition int_neg (i : N) : bool := 2147483648 <=? i.
Definition int_sext (i : N) : N := if int_neg i then i + 18446744069414584320 else i.   (* + 2^64 - 2^32 *)
Section Naive.
Variable A : mem.
Let n := mlen A.
Fixpoint naive_loop (fuel : nat) (i : N) (R : list N) : result (list N) :=
  match fuel with
  | O => OutOfFuel
  | S fl =>
      if orb (int_neg i) (i <? n) then             (* 76  t < shape0, signed *)
        do x <- rd 0 A (int_sext i);               (* 77  arr[i] *)
        do R1 <- wr 1 R (int_sext i) (popcount x); (* 77  result[i] = *)
        naive_loop fl ((i + 1) mod 4294967296) R1  (* 76  t += 1 on a C int *)
      else Done R                                  (* 78 *)
  end.
End Naive.
Definition popcount64_naive_ll (junk : nat -> N) (a : list N) : result (list N) :=
  let A := mem_of_list a in
  naive_loop A (S (length a)) 0 (np_empty junk (mlen A)).

(* =========================== roaringish_ops.pyx =========================== *)
(* _payload_slice (32-46)
     36      cdef DTYPE_t[:] sliced = np.zeros(arr.shape[0], dtype=np.uint64)
     37      cdef DTYPE_t* sliced_ptr = &sliced[0]
     38      cdef DTYPE_t* arr_ptr = &arr[0]
     40      while arr_ptr < &arr[arr.shape[0]]:
     41          if (arr_ptr[0] & payload_msb_mask) >= min_payload and (arr_ptr[0] & payload_msb_mask) <= max_payload:
     42              sliced_ptr[0] = arr_ptr[0]
     43              sliced_ptr += 1
     44          arr_ptr += 1
     46      return sliced, sliced_ptr - &sliced[0]
   Line 41 reads arr_ptr[0] once, and a second time only when the first comparison holds (short-circuit `and`,
   as in the generated C); line 42 reads it a third time.  All three reads are in the model. *)
Section PayloadSlice.
Variables (A : mem) (msb_mask lo hi : N).
Let n := mlen A.
Fixpoint ps_loop (fuel : nat) (ap sp : N) (B : list N) : result (list N * N) :=
  match fuel with
  | O => OutOfFuel
  | S fl =>
      if ap <? n then                                                   (* 40 *)
        do x <- rd 0 A ap;                                              (* 41  first arr_ptr[0] *)
        do c <- (if lo <=? N.land x msb_mask then
                   do y <- rd 0 A ap; Done (N.land y msb_mask <=? hi)   (* 41  second arr_ptr[0] *)
                 else Done false);
        do st <- (if c : bool then
                    do z <- rd 0 A ap;                                  (* 42  arr_ptr[0] *)
                    do B1 <- wr 1 B sp z;                               (* 42  sliced_ptr[0] = *)
                    Done (B1, sp + 1)                                   (* 43 *)
                  else Done (B, sp));
        ps_loop fl (ap + 1) (snd st) (fst st)                           (* 44 *)
      else Done (B, sp)                                                 (* 46 *)
  end.
End PayloadSlice.

(* wrapper (49-55):  sliced, sliced_len = _payload_slice(arr_view, ...);  return np.array(sliced[:sliced_len]) *)
Definition payload_slice_ll (a : list N) (msb_mask lo hi : N) : result (list N) :=
  let A := mem_of_list a in
  let B0 := np_zeros (mlen A) in                                        (* 36 *)
  do r <- ps_loop A msb_mask lo hi (S (length a)) 0 0 B0;               (* 37: sp = 0, 38: ap = 0 *)
  Done (firstn (N.to_nat (snd r)) (fst r)).                             (* 55  sliced[:sliced_len] *)
