(* C14: memory safety (and termination within the fuel) of the galloping two-pointer kernels of
   Kernels/Intersect.v, for ARBITRARY (unsorted) inputs and any mask.

   One Hoare-style predicate does both jobs:  okp F T P r  says
     - if r is a value, the postcondition P holds of it,
     - if r is a fault, the fault is one allowed by F (F0 allows none),
     - r is OutOfFuel only if the termination hypothesis T is false.  *)
From SA Require Import Base.Prelude Kernels.Intersect.
Open Scope N_scope.

Definition faultp := access -> N -> N -> Prop.
Definition F0 : faultp := fun _ _ _ => False.

Definition okp {A} (F : faultp) (T : Prop) (P : A -> Prop) (r : result A) : Prop :=
  match r with Done a => P a | Fault k b i => F k b i | OutOfFuel => ~ T end.

Lemma okp_bind {A B} F T (P : A -> Prop) (Q : B -> Prop) (r : result A) (k : A -> result B) :
  okp F T P r -> (forall a, P a -> okp F T Q (k a)) -> okp F T Q (bind r k).
Proof. destruct r; cbn; auto. Qed.

Lemma okp_weaken {A} (F F' : faultp) (T T' : Prop) (P P' : A -> Prop) (r : result A) :
  (forall k b i, F k b i -> F' k b i) -> (T' -> T) -> (forall a, P a -> P' a) ->
  okp F T P r -> okp F' T' P' r.
Proof. destruct r; cbn; auto. Qed.

Lemma okp_nofault {A} T P (r : result A) : okp F0 T P r -> ~ is_fault r.
Proof. destruct r; cbn; auto. Qed.

Lemma okp_isdone {A} T P (r : result A) : okp F0 T P r -> T -> is_done r.
Proof. destruct r; cbn; auto. Qed.

Lemma wr_ok_lt buf cap i : i < cap -> wr_ok buf cap i = Done tt.
Proof. intro H. unfold wr_ok. apply N.ltb_lt in H. rewrite H. reflexivity. Qed.

Definition B62 : N := 4611686018427387904.   (* 2^62 *)

Lemma F0_any (F : faultp) : forall k b i, F0 k b i -> F k b i.
Proof. intros k b i []. Qed.

Ltac dif H := match goal with |- okp _ _ _ (if ?c then _ else _) => destruct c eqn:H end.

Section S.
Variables (l r : list N) (mask : N).
Let L := mem_of_list l.
Let R := mem_of_list r.
Let nl := N.of_nat (length l).
Let nr := N.of_nat (length r).
Let gl (a : N) : N := nth (N.to_nat a) l 0.
Let gr (a : N) : N := nth (N.to_nat a) r 0.

Lemma rdL b i : i < nl -> rd b L i = Done (gl i).
Proof. intro H. unfold L. rewrite rd_mem_of_list. apply lrd_ok. exact H. Qed.
Lemma rdR b i : i < nr -> rd b R i = Done (gr i).
Proof. intro H. unfold R. rewrite rd_mem_of_list. apply lrd_ok. exact H. Qed.

(* ---------------- gallop helpers ---------------- *)
(* invariant: i0 + g/2 <= i < nl + g/2 (so i - g/2 is a position in [i0, nl)), and g <= i + 1 (for the fuel) *)
Definition Tg (n : N) (f : nat) (g : N) : Prop := exists f', f = S f' /\ n < g * 2 ^ (N.of_nat f').
Definition Pg (n p0 : N) (p : N * N) : Prop := p0 + snd p / 2 <= fst p /\ fst p < n + snd p / 2.

Lemma Tg_step n f g i : i < n -> g <= i + 1 -> Tg n (S f) g -> Tg n f (g * 2).
Proof.
  intros Hi Hg [f' [E Hlt]]. injection E as E. subst f'. destruct f as [|f''].
  - exfalso. change (N.of_nat 0) with 0 in Hlt. rewrite N.pow_0_r in Hlt. lia.
  - exists f''. split; [reflexivity|].
    rewrite Nat2N.inj_succ, N.pow_succ_r' in Hlt. rewrite <- N.mul_assoc. exact Hlt.
Qed.

Ltac gallop_l_tac :=
  let f := fresh "f" in let IH := fresh "IH" in
  induction f as [|f IH]; intros i j g i0 Hj H1 H2 H3;
  cbn [gallop_l adj_gallop_l ia_gallop_l];
  [ unfold okp; intros [f' [E _]]; discriminate | ];
  change (mlen L) with nl;
  destruct (i <? nl) eqn:Hi;
  [ apply N.ltb_lt in Hi; rewrite (rdL 0 i Hi), (rdR 1 j Hj); cbn [bind];
    match goal with |- okp _ _ _ (if ?c then _ else _) => destruct c end;
    [ eapply okp_weaken; [ | | | apply (IH (i + g) j (g * 2) i0)]; try lia;
      [ auto | apply (Tg_step nl f g i Hi H3) | auto ]
    | unfold okp, Pg; cbn [fst snd]; lia ]
  | apply N.ltb_ge in Hi; unfold okp, Pg; cbn [fst snd]; lia ].

Ltac gallop_r_tac :=
  let f := fresh "f" in let IH := fresh "IH" in
  induction f as [|f IH]; intros i j g j0 Hi H1 H2 H3;
  cbn [gallop_r adj_gallop_r ia_gallop_r];
  [ unfold okp; intros [f' [E _]]; discriminate | ];
  change (mlen R) with nr;
  destruct (j <? nr) eqn:Hj;
  [ apply N.ltb_lt in Hj; rewrite (rdR 1 j Hj), (rdL 0 i Hi); cbn [bind];
    match goal with |- okp _ _ _ (if ?c then _ else _) => destruct c end;
    [ eapply okp_weaken; [ | | | apply (IH i (j + g) (g * 2) j0)]; try lia;
      [ auto | apply (Tg_step nr f g j Hj H3) | auto ]
    | unfold okp, Pg; cbn [fst snd]; lia ]
  | apply N.ltb_ge in Hj; unfold okp, Pg; cbn [fst snd]; lia ].

Lemma gallop_l_ok : forall f i j g i0, j < nr -> i0 + g / 2 <= i -> i < nl + g / 2 -> g <= i + 1 ->
  okp F0 (Tg nl f g) (Pg nl i0) (gallop_l L R mask f i j g).
Proof. gallop_l_tac. Qed.

Lemma gallop_r_ok : forall f i j g j0, i < nl -> j0 + g / 2 <= j -> j < nr + g / 2 -> g <= j + 1 ->
  okp F0 (Tg nr f g) (Pg nr j0) (gallop_r L R mask f i j g).
Proof. gallop_r_tac. Qed.

Lemma adj_gallop_l_ok d : forall f i j g i0, j < nr -> i0 + g / 2 <= i -> i < nl + g / 2 -> g <= i + 1 ->
  okp F0 (Tg nl f g) (Pg nl i0) (adj_gallop_l L R mask d f i j g).
Proof. gallop_l_tac. Qed.

Lemma adj_gallop_r_ok d : forall f i j g j0, i < nl -> j0 + g / 2 <= j -> j < nr + g / 2 -> g <= j + 1 ->
  okp F0 (Tg nr f g) (Pg nr j0) (adj_gallop_r L R mask d f i j g).
Proof. gallop_r_tac. Qed.

Lemma ia_gallop_l_ok d : forall f i j g i0, j < nr -> i0 + g / 2 <= i -> i < nl + g / 2 -> g <= i + 1 ->
  okp F0 (Tg nl f g) (Pg nl i0) (ia_gallop_l L R mask d f i j g).
Proof. gallop_l_tac. Qed.

Lemma ia_gallop_r_ok d : forall f i j g j0, i < nl -> j0 + g / 2 <= j -> j < nr + g / 2 -> g <= j + 1 ->
  okp F0 (Tg nr f g) (Pg nr j0) (ia_gallop_r L R mask d f i j g).
Proof. gallop_r_tac. Qed.

(* the form used by the outer loops: start at gallop 1 with GFUEL, back off by g/2 *)
Let big : Prop := nl < B62 /\ nr < B62.
Definition Pb (n p0 : N) (p : N * N) : Prop := p0 <= fst p - snd p / 2 /\ fst p - snd p / 2 < n.

Lemma Tg_start n : n < B62 -> Tg n GFUEL 1.
Proof.
  intro H. exists 65%nat. split; [reflexivity|].
  change (2 ^ N.of_nat 65) with 36893488147419103232. unfold B62 in H. lia.
Qed.

Lemma Pg_Pb n p0 p : Pg n p0 p -> Pb n p0 p.
Proof. unfold Pg, Pb. lia. Qed.

Ltac start_tac lem i j p0 :=
  intros; eapply okp_weaken; [ | | | apply (lem GFUEL i j 1 p0) ]; try lia;
  [ apply F0_any | intros [B1 B2]; apply Tg_start; assumption | apply Pg_Pb ].

Lemma gallop_l_start F i j : i < nl -> j < nr -> okp F big (Pb nl i) (gallop_l L R mask GFUEL i j 1).
Proof. start_tac gallop_l_ok i j i. Qed.
Lemma gallop_r_start F i j : i < nl -> j < nr -> okp F big (Pb nr j) (gallop_r L R mask GFUEL i j 1).
Proof. start_tac gallop_r_ok i j j. Qed.
Lemma adj_gallop_l_start F d i j : i < nl -> j < nr -> okp F big (Pb nl i) (adj_gallop_l L R mask d GFUEL i j 1).
Proof. start_tac (adj_gallop_l_ok d) i j i. Qed.
Lemma adj_gallop_r_start F d i j : i < nl -> j < nr -> okp F big (Pb nr j) (adj_gallop_r L R mask d GFUEL i j 1).
Proof. start_tac (adj_gallop_r_ok d) i j j. Qed.
Lemma ia_gallop_l_start F d i j : i < nl -> j < nr -> okp F big (Pb nl i) (ia_gallop_l L R mask d GFUEL i j 1).
Proof. start_tac (ia_gallop_l_ok d) i j i. Qed.
Lemma ia_gallop_r_start F d i j : i < nl -> j < nr -> okp F big (Pb nr j) (ia_gallop_r L R mask d GFUEL i j 1).
Proof. start_tac (ia_gallop_r_ok d) i j j. Qed.

(* ---------------- outer loops ---------------- *)
(* termination hypothesis of an outer loop at state (i, j) with the given fuel *)
Let TL (fuel : nat) (i j : N) : Prop :=
  big /\ i <= nl /\ j <= nr /\ nl + nr < N.of_nat fuel + i + j.
Let any {A} : A -> Prop := fun _ => True.

(* close a recursive call: weaken the IH instance *)
Ltac by_IH IH :=
  eapply okp_weaken; [ | | | eapply IH ];
  [ auto | unfold TL, big; lia | auto | .. ]; try lia.

(* the common prefix of drop/keep/adjacent: guard, two gallops, two reads *)
Ltac loop_prefix gl_start gr_start :=
  change (mlen L) with nl; change (mlen R) with nr;
  match goal with |- okp _ _ _ (if (?i <? nl) && (?j <? nr) then _ else _) =>
    let G := fresh "G" in let Hi := fresh "Hi" in let Hj := fresh "Hj" in
    destruct ((i <? nl) && (j <? nr)) eqn:G; [ | exact I ];
    apply andb_true_iff in G as [Hi Hj]; apply N.ltb_lt in Hi, Hj;
    eapply okp_bind;
    [ eapply okp_weaken; [ | | | apply (gl_start F0 i j Hi Hj) ]; [ auto | unfold TL; tauto | intros ? Hx; exact Hx ] | ];
    let i1 := fresh "i1" in let g1 := fresh "g1" in let A1 := fresh "Aa" in let A2 := fresh "Ab" in
    intros [i1 g1] [A1 A2]; cbn [fst snd] in A1, A2 |- *;
    let i2 := fresh "i2" in
    set (i2 := i1 - g1 / 2) in *; clearbody i2;
    eapply okp_bind;
    [ eapply okp_weaken; [ | | | apply (gr_start F0 i2 j A2 Hj) ]; [ auto | unfold TL; tauto | intros ? Hx; exact Hx ] | ];
    let j1 := fresh "j1" in let g2 := fresh "g2" in let B1 := fresh "Ba" in let B2 := fresh "Bb" in
    intros [j1 g2] [B1 B2]; cbn [fst snd] in B1, B2 |- *;
    let j2 := fresh "j2" in
    set (j2 := j1 - g2 / 2) in *; clearbody j2;
    rewrite (rdL 0 i2 A2), (rdR 1 j2 B2); cbn [bind]
  end.

Lemma drop_loop_ok : forall fuel i j last lo ro no, no <= i -> no <= j ->
  okp F0 (TL fuel i j) any (drop_loop L R mask (N.min nl nr) fuel i j last lo ro no).
Proof.
  induction fuel as [|f IH]; intros i j last lo ro no Hni Hnj; cbn [drop_loop].
  - unfold okp, TL, big. lia.
  - loop_prefix gallop_l_start gallop_r_start.
    destruct (_ <? _); [ by_IH IH | ].
    destruct (_ <? _); [ by_IH IH | ].
    destruct (fresh _ _ _); [ | by_IH IH ].
    rewrite !wr_ok_lt by lia. cbn [bind]. by_IH IH.
Qed.

Lemma adj_skip_ok : forall fuel j, j <= nr ->
  okp F0 (nr < N.of_nat fuel + j) (fun j0 => j <= j0 /\ j0 <= nr) (adj_skip R mask fuel j).
Proof.
  induction fuel as [|f IH]; intros j Hj; cbn [adj_skip].
  - unfold okp. lia.
  - change (mlen R) with nr. destruct (j <? nr) eqn:E.
    + apply N.ltb_lt in E. rewrite (rdR 1 j E). cbn [bind].
      destruct (_ =? _); [ | unfold okp; lia ].
      eapply okp_weaken; [ | | | apply (IH (j + 1)) ]; [ auto | lia | cbv beta; lia | lia ].
    + unfold okp. lia.
Qed.

Lemma adj_loop_ok d : forall fuel i j last lo ro no, no <= i -> no <= j ->
  okp F0 (TL fuel i j) any (adj_loop L R mask d (N.min nl nr) fuel i j last lo ro no).
Proof.
  induction fuel as [|f IH]; intros i j last lo ro no Hni Hnj; cbn [adj_loop].
  - unfold okp, TL, big. lia.
  - loop_prefix (fun F => adj_gallop_l_start F d) (fun F => adj_gallop_r_start F d).
    destruct (_ <? _); [ by_IH IH | ].
    destruct (_ <? _); [ by_IH IH | ].
    destruct (fresh _ _ _); [ | by_IH IH ].
    rewrite !wr_ok_lt by lia. cbn [bind]. by_IH IH.
Qed.

(* keep: the two run loops *)
Definition Prun (n i target : N) (g : N -> N) (a : N * list N * N) : Prop :=
  snd a <= fst (fst a) /\ i <= fst (fst a) /\ fst (fst a) <= n /\
  (i < n -> N.land (g i) mask = target -> i < fst (fst a)).

Lemma keep_run_l_ok cap : nl <= cap -> forall fuel target i lo nlo, nlo <= i -> i <= nl ->
  okp F0 (nl < N.of_nat fuel + i) (Prun nl i target gl) (keep_run_l L mask cap fuel target i lo nlo).
Proof.
  intro Hc. induction fuel as [|f IH]; intros target i lo nlo Hn Hi; cbn [keep_run_l].
  - unfold okp. lia.
  - change (mlen L) with nl. destruct (i <? nl) eqn:E.
    + apply N.ltb_lt in E. rewrite (rdL 0 i E). cbn [bind].
      destruct (_ =? _) eqn:Q.
      * rewrite wr_ok_lt by lia. cbn [bind].
        eapply okp_weaken; [ | | | apply (IH target (i + 1)) ]; [ auto | lia | | lia | lia ].
        unfold Prun. intros a (A1 & A2 & A3 & A4). repeat split; lia.
      * apply N.eqb_neq in Q. unfold okp, Prun. cbn [fst snd]. repeat split; try lia.
    + apply N.ltb_ge in E. unfold okp, Prun. cbn [fst snd]. repeat split; lia.
Qed.

Lemma keep_run_r_ok cap : nr <= cap -> forall fuel target j ro nro, nro <= j -> j <= nr ->
  okp F0 (nr < N.of_nat fuel + j) (Prun nr j target gr) (keep_run_r R mask cap fuel target j ro nro).
Proof.
  intro Hc. induction fuel as [|f IH]; intros target j ro nro Hn Hj; cbn [keep_run_r].
  - unfold okp. lia.
  - change (mlen R) with nr. destruct (j <? nr) eqn:E.
    + apply N.ltb_lt in E. rewrite (rdR 1 j E). cbn [bind].
      destruct (_ =? _) eqn:Q.
      * rewrite wr_ok_lt by lia. cbn [bind].
        eapply okp_weaken; [ | | | apply (IH target (j + 1)) ]; [ auto | lia | | lia | lia ].
        unfold Prun. intros a (A1 & A2 & A3 & A4). repeat split; lia.
      * apply N.eqb_neq in Q. unfold okp, Prun. cbn [fst snd]. repeat split; try lia.
    + apply N.ltb_ge in E. unfold okp, Prun. cbn [fst snd]. repeat split; lia.
Qed.

Lemma keep_loop_ok runfuel : forall fuel i j lo ro nlo nro, nlo <= i -> nro <= j ->
  okp F0 (TL fuel i j /\ nl + nr < N.of_nat runfuel) any
    (keep_loop L R mask (N.max nl nr) runfuel fuel i j lo ro nlo nro).
Proof.
  induction fuel as [|f IH]; intros i j lo ro nlo nro Hni Hnj; cbn [keep_loop].
  - unfold okp, TL, big. lia.
  - change (mlen L) with nl; change (mlen R) with nr.
    destruct ((i <? nl) && (j <? nr)) eqn:G; [ | exact I ].
    apply andb_true_iff in G as [Hi Hj]. apply N.ltb_lt in Hi, Hj.
    eapply okp_bind.
    { eapply okp_weaken; [ | | | apply (gallop_l_start F0 i j Hi Hj) ]; [ auto | unfold TL; tauto | intros ? Hx; exact Hx ]. }
    intros [i1 g1] [A1 A2]; cbn [fst snd] in A1, A2 |- *.
    set (i2 := i1 - g1 / 2) in *; clearbody i2.
    eapply okp_bind.
    { eapply okp_weaken; [ | | | apply (gallop_r_start F0 i2 j A2 Hj) ]; [ auto | unfold TL; tauto | intros ? Hx; exact Hx ]. }
    intros [j1 g2] [B1 B2]; cbn [fst snd] in B1, B2 |- *.
    set (j2 := j1 - g2 / 2) in *; clearbody j2.
    rewrite (rdL 0 i2 A2), (rdR 1 j2 B2); cbn [bind].
    dif C1; [ by_IH IH | ].
    dif C2; [ by_IH IH | ].
    apply N.ltb_ge in C1, C2.
    eapply okp_bind.
    { eapply okp_weaken; [ | | | apply (keep_run_l_ok (N.max nl nr)) with (i := i2) ];
        [ auto | unfold TL, big; lia | intros a Ha; exact Ha | lia | lia | lia ]. }
    intros [[i3 lo3] nlo3] (P1 & P2 & P3 & P4). cbn [fst snd] in P1, P2, P3, P4. cbv beta iota.
    eapply okp_bind.
    { eapply okp_weaken; [ | | | apply (keep_run_r_ok (N.max nl nr)) with (j := j2) ];
        [ auto | unfold TL, big; lia | intros a Ha; exact Ha | lia | lia | lia ]. }
    intros [[j3 ro3] nro3] (Q1 & Q2 & Q3 & Q4). cbn [fst snd] in Q1, Q2, Q3, Q4. cbv beta iota.
    specialize (P4 A2 eq_refl).
    by_IH IH.
Qed.

(* ---------------- the fused kernel ---------------- *)
Section IA.
Variable delta : N.
(* every masked lhs value is a 64-bit word (true of the real kernel; NOT implied by the model's types) *)
Let HM : Prop := forall a, N.land (gl a) mask < W64.
Let FA : faultp := fun k b _ => k = Wr /\ b = 4 /\ ~ HM.

Let Iint (i no : N) (last : option N) : Prop :=
  no = 0 \/ exists a, last = Some (gl a) /\ a <= i /\ no <= a + 1.
Let Iadj (j nao : N) (la : option N) : Prop :=
  HM -> nao = 0 \/ exists b a, la = Some (gl a) /\ b <= j /\
                     ladd mask delta (gl a) = N.land (gr b) mask /\ nao <= b + 1.

Lemma fresh_some v mx : fresh mask (Some v) mx = true -> N.land v mask <> mx.
Proof. unfold fresh. intros H E. apply N.eqb_eq in E. rewrite E in H. discriminate. Qed.

Lemma ladd_inj a b : N.land a mask < W64 -> N.land b mask < W64 ->
  ladd mask delta a = ladd mask delta b -> N.land a mask = N.land b mask.
Proof.
  unfold ladd, wadd, W64. generalize (N.land a mask) (N.land b mask). intros u v Hu Hv H. lia.
Qed.

Lemma int_store_bound i i2 no last : Iint i no last -> i <= i2 ->
  fresh mask last (N.land (gl i2) mask) = true -> no <= i2.
Proof.
  intros [H|[a (E & Ha & Hn)]] Hi Hf; [lia|]. subst last. apply fresh_some in Hf.
  assert (a <> i2) by (intro; subst a; apply Hf; reflexivity). lia.
Qed.

Lemma adj_store_bound j j2 i2 nao la : HM -> Iadj j nao la -> j <= j2 ->
  fresh mask la (N.land (gl i2) mask) = true ->
  ladd mask delta (gl i2) = N.land (gr j2) mask -> nao <= j2.
Proof.
  intros hm HI Hj Hf He. destruct (HI hm) as [H|[b [a (E & Hb & Hl & Hn)]]]; [lia|].
  subst la. apply fresh_some in Hf.
  assert (b <> j2).
  { intro; subst b. apply Hf. apply ladd_inj; [apply hm | apply hm | congruence]. }
  lia.
Qed.

Lemma Iint_mono i i' no last : Iint i no last -> i <= i' -> Iint i' no last.
Proof. intros [H|[a (E & Ha & Hn)]] Hi; [left; exact H | right; exists a; repeat split; try assumption; lia]. Qed.
Lemma Iadj_mono j j' nao la : Iadj j nao la -> j <= j' -> Iadj j' nao la.
Proof.
  intros HI Hj hm. destruct (HI hm) as [H|[b [a (E & Hb & Hl & Hn)]]]; [left; exact H|].
  right. exists b, a. repeat split; try assumption; lia.
Qed.

Ltac ia_IH IH :=
  eapply okp_weaken; [ | | | eapply IH ];
  [ auto | unfold TL, big; lia | auto | .. ];
  try lia; try (eapply Iint_mono; [eassumption | lia]); try (eapply Iadj_mono; [eassumption | lia]).

Lemma ia_loop_ok : forall fuel i j last la lo ro alo aro no nao,
  nao <= i -> no <= j -> Iint i no last -> Iadj j nao la ->
  okp FA (TL fuel i j) any
    (ia_loop L R mask delta (N.min nl nr) fuel i j last la lo ro alo aro no nao).
Proof.
  induction fuel as [|f IH]; intros i j last la lo ro alo aro no nao Hai Hnj HI HA; cbn [ia_loop].
  - unfold okp, TL, big. lia.
  - change (mlen L) with nl; change (mlen R) with nr.
    destruct ((i <? nl) && (j <? nr)) eqn:G; [ | exact I ].
    apply andb_true_iff in G as [Hi Hj]. apply N.ltb_lt in Hi, Hj.
    rewrite (rdL 0 i Hi), (rdR 1 j Hj); cbn [bind].
    eapply okp_bind with (P := fun p => (i <= fst p /\ fst p < nl) /\ (j <= snd p /\ snd p < nr)).
    { destruct (negb _).
      - eapply okp_bind.
        { eapply okp_weaken; [ | | | apply (ia_gallop_l_start FA delta i j Hi Hj) ]; [ auto | unfold TL; tauto | intros ? Hx; exact Hx ]. }
        intros [i1 g1] [A1 A2]; cbn [fst snd] in A1, A2 |- *.
        set (i2 := i1 - g1 / 2) in *; clearbody i2.
        eapply okp_bind.
        { eapply okp_weaken; [ | | | apply (ia_gallop_r_start FA delta i2 j A2 Hj) ]; [ auto | unfold TL; tauto | intros ? Hx; exact Hx ]. }
        intros [j1 g2] [B1 B2]; cbn [fst snd] in B1, B2 |- *.
        unfold okp. cbn [fst snd]. lia.
      - unfold okp. cbn [fst snd]. lia. }
    intros [i2 j2] [[A1 A2] [B1 B2]]; cbn [fst snd] in A1, A2, B1, B2. cbv beta iota.
    rewrite (rdL 0 i2 A2), (rdR 1 j2 B2); cbn [bind].
    dif Eadj.
    + apply N.eqb_eq in Eadj.
      dif Efr; [ | ia_IH IH ].
      unfold wr_ok. destruct (nao <? N.min nl nr) eqn:Ecap; cbn [bind].
      * apply N.ltb_lt in Ecap.
        ia_IH IH.
        intro hm. right. exists j2, i2. repeat split; try lia; try assumption.
        pose proof (adj_store_bound j j2 i2 nao la hm HA B1 Efr Eadj). lia.
      * apply N.ltb_ge in Ecap. unfold okp, FA. repeat split. intro hm.
        pose proof (adj_store_bound j j2 i2 nao la hm HA B1 Efr Eadj). lia.
    + dif C1; [ ia_IH IH | ].
      dif C2; [ ia_IH IH | ].
      dif Efr; [ | ia_IH IH ].
      pose proof (int_store_bound i i2 no last HI A1 Efr).
      rewrite !wr_ok_lt by lia. cbn [bind].
      ia_IH IH.
      right. exists i2. repeat split; lia.
Qed.
End IA.

(* ---------------- the four kernels ---------------- *)
Lemma drop_ok : okp F0 big any (intersect_drop l r mask).
Proof.
  unfold intersect_drop. cbv zeta.
  eapply okp_weaken; [ | | | apply drop_loop_ok ]; [ auto | | auto | lia | lia ].
  unfold TL, big, outer_fuel. fold nl nr. lia.
Qed.

Lemma keep_ok : okp F0 big any (intersect_keep l r mask).
Proof.
  unfold intersect_keep. cbv zeta.
  eapply okp_weaken; [ | | | apply keep_loop_ok ]; [ auto | | auto | lia | lia ].
  unfold TL, big, outer_fuel. fold nl nr. lia.
Qed.

Lemma adjacent_ok : okp F0 big any (adjacent l r mask).
Proof.
  unfold adjacent. cbv zeta.
  eapply okp_bind.
  { eapply okp_weaken; [ | | | apply (adj_skip_ok (outer_fuel l r) 0) ]; [ auto | | intros a Ha; exact Ha | lia ].
    unfold outer_fuel. fold nl nr. lia. }
  intros j0 [_ Hj0]. cbv beta.
  eapply okp_weaken; [ | | | apply adj_loop_ok ]; [ auto | | auto | lia | lia ].
  unfold TL, big, outer_fuel. fold nl nr. lia.
Qed.

Lemma ia_ok :
  okp (fun k b _ => k = Wr /\ b = 4 /\ ~ (forall a, N.land (gl a) mask < W64)) big any
      (intersect_with_adjacents l r mask).
Proof.
  unfold intersect_with_adjacents. cbv zeta.
  eapply okp_weaken; [ | | | apply ia_loop_ok ]; [ auto | | auto | lia | lia | left; reflexivity | intro; left; reflexivity ].
  unfold TL, big, outer_fuel. fold nl nr. lia.
Qed.

Lemma land_mask_small x : mask < W64 -> N.land x mask < W64.
Proof.
  intro H. change W64 with (2 ^ 64) in *.
  assert (E : N.land x mask = N.land x mask mod 2 ^ 64).
  { rewrite <- N.land_ones, <- N.land_assoc, N.land_ones, (N.mod_small mask) by exact H. reflexivity. }
  rewrite E. apply N.mod_lt. discriminate.
Qed.

Lemma land_val_small x : x < W64 -> N.land x mask < W64.
Proof.
  intro H. rewrite N.land_comm. change W64 with (2 ^ 64) in *.
  assert (E : N.land mask x = N.land mask x mod 2 ^ 64).
  { rewrite <- N.land_ones, <- N.land_assoc, N.land_ones, (N.mod_small x) by exact H. reflexivity. }
  rewrite E. apply N.mod_lt. discriminate.
Qed.

Lemma words_HM : (mask < W64 \/ Forall (fun x => x < W64) l) -> forall a, N.land (gl a) mask < W64.
Proof.
  intros [H|H] a; [apply land_mask_small; exact H|].
  apply land_val_small. unfold gl.
  destruct (nth_in_or_default (N.to_nat a) l 0) as [Hin|E].
  - rewrite Forall_forall in H. apply H. exact Hin.
  - rewrite E. reflexivity.
Qed.
End S.

(* ============ C14: memory safety for arbitrary inputs ============ *)
Theorem intersect_drop_safe : forall l r mask, ~ is_fault (intersect_drop l r mask).
Proof. intros. eapply okp_nofault. apply drop_ok. Qed.

Theorem intersect_keep_safe : forall l r mask, ~ is_fault (intersect_keep l r mask).
Proof. intros. eapply okp_nofault. apply keep_ok. Qed.

Theorem adjacent_safe : forall l r mask, ~ is_fault (adjacent l r mask).
Proof. intros. eapply okp_nofault. apply adjacent_ok. Qed.

(* The fused kernel: the unconditional statement is FALSE in the model, because list elements and the
   mask are unbounded N while `ladd` wraps at 2^64: two lhs values whose masked parts differ by a
   multiple of 2^64 are both adjacent to the same rhs element, so two adjacency stores happen at the
   same rhs position and the count passes min(nl, nr). *)
Example intersect_with_adjacents_faults_on_non_words :
  intersect_with_adjacents [0; W64] [1] (2 * W64 - 1) = Fault Wr 4 1.
Proof. vm_compute. reflexivity. Qed.

(* What holds for all inputs: never a read fault, never a write fault on the intersect buffers 2/3 or
   on 5; a write fault on 4 only if some masked lhs value is not a 64-bit word. *)
Theorem intersect_with_adjacents_safe_gen : forall l r mask,
  match intersect_with_adjacents l r mask with
  | Fault k b _ => k = Wr /\ b = 4 /\ ~ (forall a, N.land (nth (N.to_nat a) l 0) mask < W64)
  | _ => True
  end.
Proof.
  intros. pose proof (ia_ok l r mask) as H.
  destruct (intersect_with_adjacents l r mask); cbn [okp] in H; auto.
Qed.

(* Safety whenever the mask, or every lhs element, is a 64-bit word (always the case for uint64 arrays) *)
Theorem intersect_with_adjacents_safe : forall l r mask,
  mask < W64 \/ Forall (fun x => x < W64) l ->
  ~ is_fault (intersect_with_adjacents l r mask).
Proof.
  intros l r mask Hw Hf. pose proof (intersect_with_adjacents_safe_gen l r mask) as H.
  destruct (intersect_with_adjacents l r mask); try exact Hf.
  destruct H as (_ & _ & H). apply H. apply words_HM. exact Hw.
Qed.

(* ============ termination within the fuel ============ *)
Theorem intersect_drop_terminates : forall l r mask,
  N.of_nat (length l) < 2 ^ 62 -> N.of_nat (length r) < 2 ^ 62 -> is_done (intersect_drop l r mask).
Proof. intros l r mask H1 H2. eapply okp_isdone; [apply drop_ok|]. split; assumption. Qed.

Theorem intersect_keep_terminates : forall l r mask,
  N.of_nat (length l) < 2 ^ 62 -> N.of_nat (length r) < 2 ^ 62 -> is_done (intersect_keep l r mask).
Proof. intros l r mask H1 H2. eapply okp_isdone; [apply keep_ok|]. split; assumption. Qed.

Theorem adjacent_terminates : forall l r mask,
  N.of_nat (length l) < 2 ^ 62 -> N.of_nat (length r) < 2 ^ 62 -> is_done (adjacent l r mask).
Proof. intros l r mask H1 H2. eapply okp_isdone; [apply adjacent_ok|]. split; assumption. Qed.

Theorem intersect_with_adjacents_terminates : forall l r mask,
  mask < W64 \/ Forall (fun x => x < W64) l ->
  N.of_nat (length l) < 2 ^ 62 -> N.of_nat (length r) < 2 ^ 62 ->
  is_done (intersect_with_adjacents l r mask).
Proof.
  intros l r mask Hw H1 H2.
  pose proof (intersect_with_adjacents_safe l r mask Hw) as Hs.
  pose proof (ia_ok l r mask) as H.
  destruct (intersect_with_adjacents l r mask); cbn [okp is_done is_fault] in *.
  - exact I.
  - apply Hs. exact I.
  - apply H. split; assumption.
Qed.

Print Assumptions intersect_drop_safe.
Print Assumptions intersect_keep_safe.
Print Assumptions adjacent_safe.
Print Assumptions intersect_with_adjacents_safe_gen.
Print Assumptions intersect_with_adjacents_safe.
Print Assumptions intersect_drop_terminates.
Print Assumptions intersect_keep_terminates.
Print Assumptions adjacent_terminates.
Print Assumptions intersect_with_adjacents_terminates.
