(* Proofs about the line-level models of Kernels/Linear.v:
   (A) memory safety for arbitrary inputs (C14), (B) agreement with Kernels/Spec.v on sorted inputs (C12). *)
From Coq Require Import Sorted Permutation.
From SA Require Import Base.Prelude Kernels.Linear Kernels.Spec Gen.SourceConsts.
Open Scope N_scope.

(* ------------------------------------------------------------------ *)
(* generic helpers                                                     *)
(* ------------------------------------------------------------------ *)
Lemma lrd_app buf d x t i : i = N.of_nat (length d) -> lrd buf (d ++ x :: t) i = Done x.
Proof.
  intros ->. unfold lrd. rewrite Nat2N.id. rewrite nth_error_app2 by lia.
  rewrite Nat.sub_diag. reflexivity.
Qed.

Lemma rd_app buf a d x t i : a = d ++ x :: t -> i = N.of_nat (length d) -> rd buf (mem_of_list a) i = Done x.
Proof. intros -> H. rewrite rd_mem_of_list. apply lrd_app. exact H. Qed.

Lemma wr_ok_lt buf cap i : i < cap -> wr_ok buf cap i = Done tt.
Proof. intro H. unfold wr_ok. destruct (N.ltb_spec i cap); [reflexivity|lia]. Qed.

Lemma ltb_true a b : a < b -> (a <? b) = true.
Proof. intro; apply N.ltb_lt; assumption. Qed.
Lemma ltb_false a b : b <= a -> (a <? b) = false.
Proof. intro; apply N.ltb_ge; assumption. Qed.
Lemma eqb_true a b : a = b -> (a =? b) = true.
Proof. intro; apply N.eqb_eq; assumption. Qed.
Lemma eqb_false a b : a <> b -> (a =? b) = false.
Proof. intro; apply N.eqb_neq; assumption. Qed.

Lemma not_fault_done {A} (r : result A) v : r = Done v -> ~ is_fault r.
Proof. intros -> H. exact H. Qed.

(* ------------------------------------------------------------------ *)
(* merge / merge_drop                                                  *)
(* ------------------------------------------------------------------ *)
(* what the two loops compute on ANY pair of lists *)
Fixpoint mrg (l : list N) : list N -> list N :=
  fix go (r : list N) : list N :=
    match l, r with
    | [], _ => r
    | _, [] => l
    | x :: l', y :: r' =>
        if x <? y then x :: mrg l' r
        else if y <? x then y :: go r'
        else x :: y :: mrg l' r'
    end.
Fixpoint mrgd (l : list N) : list N -> list N :=
  fix go (r : list N) : list N :=
    match l, r with
    | [], _ => r
    | _, [] => l
    | x :: l', y :: r' =>
        if x <? y then x :: mrgd l' r
        else if y <? x then y :: go r'
        else x :: mrgd l' r'
    end.

Lemma mrg_nil_l r : mrg [] r = r. Proof. destruct r; reflexivity. Qed.
Lemma mrg_nil_r l : mrg l [] = l. Proof. destruct l; reflexivity. Qed.
Lemma mrg_cons x l y r : mrg (x :: l) (y :: r) =
  if x <? y then x :: mrg l (y :: r) else if y <? x then y :: mrg (x :: l) r else x :: y :: mrg l r.
Proof. reflexivity. Qed.
Lemma mrgd_nil_l r : mrgd [] r = r. Proof. destruct r; reflexivity. Qed.
Lemma mrgd_nil_r l : mrgd l [] = l. Proof. destruct l; reflexivity. Qed.
Lemma mrgd_cons x l y r : mrgd (x :: l) (y :: r) =
  if x <? y then x :: mrgd l (y :: r) else if y <? x then y :: mrgd (x :: l) r else x :: mrgd l r.
Proof. reflexivity. Qed.

Lemma copy_tail_ok cap buf a : forall t d fuel out no i,
  a = d ++ t -> i = N.of_nat (length d) -> (length t < fuel)%nat -> no + N.of_nat (length t) <= cap ->
  copy_tail cap buf (mem_of_list a) fuel i out no = Done (rev t ++ out, no + N.of_nat (length t)).
Proof.
  induction t as [|x t IH]; intros d fuel out no i Ha Hi Hf Hc;
    (destruct fuel as [|fuel]; [cbn [length] in Hf; lia|]); cbn [copy_tail]; rewrite mlen_mem_of_list.
  - rewrite ltb_false by (subst; rewrite app_length; cbn [length]; lia).
    cbn [length rev app]. f_equal. f_equal. lia.
  - rewrite ltb_true by (subst; rewrite app_length; cbn [length]; lia).
    rewrite (rd_app buf a d x t) by assumption. cbn [bind]. cbn [length] in Hc, Hf.
    rewrite wr_ok_lt by lia. cbn [bind].
    rewrite (IH (d ++ [x]) fuel (x :: out) (no + 1) (i + 1)).
    + cbn [rev length]. rewrite <- app_assoc. cbn [app]. f_equal. f_equal. lia.
    + rewrite <- app_assoc. exact Ha.
    + rewrite app_length. cbn [length]. lia.
    + lia.
    + lia.
Qed.

(* the common epilogue of both merge loops *)
Definition merge_epilogue (L R : mem) cap (i j : N) (out : list N) (no : N) : result (list N) :=
  do t1 <- (if i =? mlen L then copy_tail cap 1 R (S (N.to_nat (mlen R))) j out no else Done (out, no));
  let j' := if i =? mlen L then N.max j (mlen R) else j in
  do t2 <- (if j' =? mlen R then copy_tail cap 0 L (S (N.to_nat (mlen L))) i (fst t1) (snd t1) else Done t1);
  Done (rev (fst t2)).

Lemma merge_epilogue_ok ll rr dl l' dr r' cap i j out no :
  ll = dl ++ l' -> rr = dr ++ r' -> i = N.of_nat (length dl) -> j = N.of_nat (length dr) ->
  l' = [] \/ r' = [] ->
  no + N.of_nat (length l') + N.of_nat (length r') <= cap ->
  merge_epilogue (mem_of_list ll) (mem_of_list rr) cap i j out no = Done (rev out ++ l' ++ r').
Proof.
  intros Hl Hr Hi Hj Hnil Hc. unfold merge_epilogue. rewrite !mlen_mem_of_list.
  assert (Ell : length ll = (length dl + length l')%nat) by (subst ll; apply app_length).
  assert (Err : length rr = (length dr + length r')%nat) by (subst rr; apply app_length).
  destruct l' as [|x l'].
  - rewrite eqb_true by (cbn [length] in Ell; lia).
    rewrite (copy_tail_ok cap 1 rr r' dr) by (try assumption; cbn [length] in *; lia).
    cbn [bind fst snd]. rewrite eqb_true by lia.
    rewrite (copy_tail_ok cap 0 ll [] dl) by (try assumption; cbn [length] in *; lia).
    cbn [bind fst rev app]. rewrite rev_app_distr, rev_involutive. reflexivity.
  - destruct Hnil as [Hnil|Hnil]; [discriminate|]. subst r'.
    rewrite eqb_false by (cbn [length] in Ell; lia). cbn [bind fst snd].
    rewrite eqb_true by (cbn [length] in Err; lia).
    rewrite (copy_tail_ok cap 0 ll (x :: l') dl) by (try assumption; cbn [length] in *; lia).
    cbn [bind fst]. rewrite rev_app_distr, rev_involutive, app_nil_r. reflexivity.
Qed.

Lemma merge_loop_S L R cap f i j out no :
  merge_loop L R cap (S f) i j out no =
  if andb (i <? mlen L) (j <? mlen R) then
    do x <- rd 0 L i; do y <- rd 1 R j;
    if x <? y then do _ <- wr_ok 2 cap no; merge_loop L R cap f (i + 1) j (x :: out) (no + 1)
    else if y <? x then do _ <- wr_ok 2 cap no; merge_loop L R cap f i (j + 1) (y :: out) (no + 1)
    else do _ <- wr_ok 2 cap no; do _ <- wr_ok 2 cap (no + 1);
         merge_loop L R cap f (i + 1) (j + 1) (y :: x :: out) (no + 2)
  else merge_epilogue L R cap i j out no.
Proof. reflexivity. Qed.

Lemma merge_loop_ok ll rr : forall fuel dl l' dr r' out i j no,
  ll = dl ++ l' -> rr = dr ++ r' ->
  i = N.of_nat (length dl) -> j = N.of_nat (length dr) -> no = i + j ->
  (length l' + length r' < fuel)%nat ->
  merge_loop (mem_of_list ll) (mem_of_list rr) (N.of_nat (length ll + length rr)) fuel i j out no
  = Done (rev out ++ mrg l' r').
Proof.
  induction fuel as [|fuel IH]; intros dl l' dr r' out i j no Hl Hr Hi Hj Hno Hf; [lia|].
  rewrite merge_loop_S, !mlen_mem_of_list.
  assert (Ell : length ll = (length dl + length l')%nat) by (subst ll; apply app_length).
  assert (Err : length rr = (length dr + length r')%nat) by (subst rr; apply app_length).
  destruct l' as [|x l']; [|destruct r' as [|y r']].
  - rewrite (ltb_false i) by (cbn [length] in Ell; lia). cbn [andb].
    rewrite (merge_epilogue_ok ll rr dl [] dr r') by (auto; cbn [length] in *; lia).
    rewrite mrg_nil_l. reflexivity.
  - rewrite (ltb_false j) by (cbn [length] in Err; lia). rewrite andb_false_r.
    rewrite (merge_epilogue_ok ll rr dl (x :: l') dr []) by (auto; cbn [length] in *; lia).
    rewrite mrg_nil_r, app_nil_r. reflexivity.
  - rewrite (ltb_true i) by (cbn [length] in Ell; lia).
    rewrite (ltb_true j) by (cbn [length] in Err; lia).
    cbn [andb]. rewrite (rd_app 0 ll dl x l'), (rd_app 1 rr dr y r') by assumption. cbn [bind].
    rewrite mrg_cons. cbn [length] in *.
    destruct (x <? y) eqn:Exy; [|destruct (y <? x) eqn:Eyx].
    + rewrite wr_ok_lt by lia. cbn [bind].
      rewrite (IH (dl ++ [x]) l' dr (y :: r')); try assumption;
        try (rewrite ?app_length; cbn [length]; lia).
      * cbn [rev]. rewrite <- app_assoc. reflexivity.
      * rewrite <- app_assoc. assumption.
    + rewrite wr_ok_lt by lia. cbn [bind].
      rewrite (IH dl (x :: l') (dr ++ [y]) r'); try assumption;
        try (rewrite ?app_length; cbn [length]; lia).
      * cbn [rev]. rewrite <- app_assoc. reflexivity.
      * rewrite <- app_assoc. assumption.
    + rewrite !wr_ok_lt by lia. cbn [bind].
      rewrite (IH (dl ++ [x]) l' (dr ++ [y]) r'); try assumption;
        try (rewrite ?app_length; cbn [length]; lia).
      * cbn [rev]. rewrite <- !app_assoc. reflexivity.
      * rewrite <- app_assoc. assumption.
      * rewrite <- app_assoc. assumption.
Qed.

Theorem merge_model l r : merge l r = Done (mrg l r).
Proof.
  unfold merge. rewrite (merge_loop_ok l r _ [] l [] r); try reflexivity. lia.
Qed.

Theorem merge_safe : forall l r, ~ is_fault (merge l r).
Proof. intros l r. eapply not_fault_done. apply merge_model. Qed.

Lemma merge_drop_loop_S L R cap f i j out no :
  merge_drop_loop L R cap (S f) i j out no =
  if andb (i <? mlen L) (j <? mlen R) then
    do x <- rd 0 L i; do y <- rd 1 R j;
    if x <? y then do _ <- wr_ok 2 cap no; merge_drop_loop L R cap f (i + 1) j (x :: out) (no + 1)
    else if y <? x then do _ <- wr_ok 2 cap no; merge_drop_loop L R cap f i (j + 1) (y :: out) (no + 1)
    else do _ <- wr_ok 2 cap no; merge_drop_loop L R cap f (i + 1) (j + 1) (x :: out) (no + 1)
  else merge_epilogue L R cap i j out no.
Proof. reflexivity. Qed.

Lemma merge_drop_loop_ok ll rr : forall fuel dl l' dr r' out i j no,
  ll = dl ++ l' -> rr = dr ++ r' ->
  i = N.of_nat (length dl) -> j = N.of_nat (length dr) -> no <= i + j ->
  (length l' + length r' < fuel)%nat ->
  merge_drop_loop (mem_of_list ll) (mem_of_list rr) (N.of_nat (length ll + length rr)) fuel i j out no
  = Done (rev out ++ mrgd l' r').
Proof.
  induction fuel as [|fuel IH]; intros dl l' dr r' out i j no Hl Hr Hi Hj Hno Hf; [lia|].
  rewrite merge_drop_loop_S, !mlen_mem_of_list.
  assert (Ell : length ll = (length dl + length l')%nat) by (subst ll; apply app_length).
  assert (Err : length rr = (length dr + length r')%nat) by (subst rr; apply app_length).
  destruct l' as [|x l']; [|destruct r' as [|y r']].
  - rewrite (ltb_false i) by (cbn [length] in Ell; lia). cbn [andb].
    rewrite (merge_epilogue_ok ll rr dl [] dr r') by (auto; cbn [length] in *; lia).
    rewrite mrgd_nil_l. reflexivity.
  - rewrite (ltb_false j) by (cbn [length] in Err; lia). rewrite andb_false_r.
    rewrite (merge_epilogue_ok ll rr dl (x :: l') dr []) by (auto; cbn [length] in *; lia).
    rewrite mrgd_nil_r, app_nil_r. reflexivity.
  - rewrite (ltb_true i) by (cbn [length] in Ell; lia).
    rewrite (ltb_true j) by (cbn [length] in Err; lia).
    cbn [andb]. rewrite (rd_app 0 ll dl x l'), (rd_app 1 rr dr y r') by assumption. cbn [bind].
    rewrite mrgd_cons. cbn [length] in *.
    destruct (x <? y) eqn:Exy; [|destruct (y <? x) eqn:Eyx].
    + rewrite wr_ok_lt by lia. cbn [bind].
      rewrite (IH (dl ++ [x]) l' dr (y :: r')); try assumption;
        try (rewrite ?app_length; cbn [length]; lia).
      * cbn [rev]. rewrite <- app_assoc. reflexivity.
      * rewrite <- app_assoc. assumption.
    + rewrite wr_ok_lt by lia. cbn [bind].
      rewrite (IH dl (x :: l') (dr ++ [y]) r'); try assumption;
        try (rewrite ?app_length; cbn [length]; lia).
      * cbn [rev]. rewrite <- app_assoc. reflexivity.
      * rewrite <- app_assoc. assumption.
    + rewrite !wr_ok_lt by lia. cbn [bind].
      rewrite (IH (dl ++ [x]) l' (dr ++ [y]) r'); try assumption;
        try (rewrite ?app_length; cbn [length]; lia).
      * cbn [rev]. rewrite <- !app_assoc. reflexivity.
      * rewrite <- app_assoc. assumption.
      * rewrite <- app_assoc. assumption.
Qed.

Theorem merge_drop_model l r : merge_drop l r = Done (mrgd l r).
Proof.
  unfold merge_drop. rewrite (merge_drop_loop_ok l r _ [] l [] r); try reflexivity; lia.
Qed.

Theorem merge_drop_safe : forall l r, ~ is_fault (merge_drop l r).
Proof. intros l r. eapply not_fault_done. apply merge_drop_model. Qed.

(* ---- the functional merges against the specifications ---- *)
Lemma insert_sorted_perm x l : Permutation (x :: l) (insert_sorted x l).
Proof.
  induction l as [|y t IH]; cbn [insert_sorted]; [reflexivity|].
  destruct (x <=? y); [reflexivity|].
  rewrite perm_swap. apply perm_skip. exact IH.
Qed.
Lemma sort_n_perm l : Permutation l (sort_n l).
Proof.
  induction l as [|x t IH]; cbn [sort_n fold_right]; [reflexivity|].
  fold (sort_n t). rewrite <- insert_sorted_perm. apply perm_skip. exact IH.
Qed.
Lemma insert_sorted_ssorted x l : StronglySorted N.le l -> StronglySorted N.le (insert_sorted x l).
Proof.
  induction 1 as [|y t Hs IH Hf]; cbn [insert_sorted].
  - constructor; constructor.
  - destruct (N.leb_spec x y).
    + constructor; [constructor; assumption|]. constructor; [assumption|].
      eapply Forall_impl; [|exact Hf]. cbn. intros; lia.
    + constructor; [exact IH|].
      eapply Permutation_Forall; [apply insert_sorted_perm|]. constructor; [lia|assumption].
Qed.
Lemma sort_n_ssorted l : StronglySorted N.le (sort_n l).
Proof.
  induction l as [|x t IH]; cbn [sort_n fold_right]; [constructor|].
  apply insert_sorted_ssorted. exact IH.
Qed.

Lemma mrg_perm : forall l r, Permutation (l ++ r) (mrg l r).
Proof.
  induction l as [|x l IHl]; intro r; [rewrite mrg_nil_l; reflexivity|].
  induction r as [|y r IHr]; [rewrite mrg_nil_r, app_nil_r; reflexivity|].
  rewrite mrg_cons. destruct (x <? y); [|destruct (y <? x)].
  - cbn [app]. apply perm_skip. apply IHl.
  - rewrite <- IHr. symmetry. apply Permutation_middle.
  - cbn [app]. apply perm_skip. rewrite <- IHl. symmetry. apply Permutation_middle.
Qed.

Lemma mrg_ssorted : forall l r, StronglySorted N.le l -> StronglySorted N.le r -> StronglySorted N.le (mrg l r).
Proof.
  induction l as [|x l IHl]; intros r Hl Hr; [rewrite mrg_nil_l; exact Hr|].
  induction r as [|y r IHr]; [rewrite mrg_nil_r; exact Hl|].
  rewrite mrg_cons. inversion Hl as [|? ? Hl1 Hl2]; inversion Hr as [|? ? Hr1 Hr2]; subst.
  destruct (N.ltb_spec x y); [|destruct (N.ltb_spec y x)].
  - constructor; [apply IHl; assumption|].
    eapply Permutation_Forall; [apply mrg_perm|]. apply Forall_app. split; [assumption|].
    constructor; [lia|]. eapply Forall_impl; [|exact Hr2]. cbn; intros; lia.
  - constructor; [apply IHr; assumption|].
    eapply Permutation_Forall; [apply mrg_perm|]. apply Forall_app. split; [|assumption].
    constructor; [lia|]. eapply Forall_impl; [|exact Hl2]. cbn; intros; lia.
  - assert (x = y) by lia. subst y.
    constructor; [constructor|].
    + apply IHl; assumption.
    + eapply Permutation_Forall; [apply mrg_perm|]. apply Forall_app. split; assumption.
    + constructor; [lia|]. eapply Permutation_Forall; [apply mrg_perm|]. apply Forall_app. split; assumption.
Qed.

Lemma ssorted_perm_eq : forall l l', StronglySorted N.le l -> StronglySorted N.le l' -> Permutation l l' -> l = l'.
Proof.
  induction l as [|x l IH]; intros l' Hl Hl' Hp.
  - apply Permutation_nil in Hp. subst; reflexivity.
  - destruct l' as [|y l']; [apply Permutation_sym, Permutation_nil in Hp; discriminate|].
    inversion Hl as [|? ? Hl1 Hl2]; inversion Hl' as [|? ? Hr1 Hr2]; subst.
    assert (x = y).
    { assert (Hx : In x (y :: l')) by (eapply Permutation_in; [exact Hp|left; reflexivity]).
      assert (Hy : In y (x :: l)) by (eapply Permutation_in; [symmetry; exact Hp|left; reflexivity]).
      rewrite Forall_forall in Hl2, Hr2.
      destruct Hx as [Hx|Hx]; [congruence|]. destruct Hy as [Hy|Hy]; [congruence|].
      apply Hr2 in Hx. apply Hl2 in Hy. lia. }
    subst y. f_equal. apply IH; try assumption. eapply Permutation_cons_inv; exact Hp.
Qed.

Theorem mrg_spec l r : Sorted N.le l -> Sorted N.le r -> mrg l r = merge_spec l r.
Proof.
  intros Hl Hr. apply ssorted_perm_eq.
  - apply mrg_ssorted; apply Sorted_StronglySorted; try assumption; intros a b c; lia.
  - apply sort_n_ssorted.
  - rewrite <- mrg_perm. apply sort_n_perm.
Qed.

Theorem merge_correct : forall l r, Sorted N.le l -> Sorted N.le r -> merge l r = Done (merge_spec l r).
Proof. intros l r Hl Hr. rewrite merge_model, mrg_spec by assumption. reflexivity. Qed.

(* merge_drop: strictly increasing lists are determined by their elements *)
Lemma dedup_adj_cons2 x y t :
  dedup_adj (x :: y :: t) = if x =? y then dedup_adj (y :: t) else x :: dedup_adj (y :: t).
Proof. reflexivity. Qed.

Lemma dedup_adj_In z : forall l, In z (dedup_adj l) <-> In z l.
Proof.
  induction l as [|x t IH]; [reflexivity|].
  destruct t as [|y t]; [reflexivity|].
  rewrite dedup_adj_cons2. destruct (N.eqb_spec x y).
  - subst y. rewrite IH. cbn [In]. tauto.
  - change (In z (x :: dedup_adj (y :: t))) with (x = z \/ In z (dedup_adj (y :: t))).
    rewrite IH. cbn [In]. tauto.
Qed.

Lemma dedup_adj_sslt : forall l, StronglySorted N.le l -> StronglySorted N.lt (dedup_adj l).
Proof.
  induction l as [|x t IH]; intro Hs; [constructor|].
  destruct t as [|y t]; [constructor; constructor|].
  inversion Hs as [|? ? Hs1 Hs2]; subst.
  rewrite dedup_adj_cons2. destruct (N.eqb_spec x y); [apply IH; assumption|].
  constructor; [apply IH; assumption|].
  apply Forall_forall. intros z Hz. rewrite dedup_adj_In in Hz.
  inversion Hs1 as [|? ? Hs3 Hs4]; subst. inversion Hs2 as [|? ? Hxy Hxt]; subst.
  destruct Hz as [Hz|Hz]; [subst; lia|].
  rewrite Forall_forall in Hs4. apply Hs4 in Hz. lia.
Qed.

Lemma mrgd_In z : forall l r, In z (mrgd l r) <-> In z l \/ In z r.
Proof.
  induction l as [|x l IHl]; intro r; [rewrite mrgd_nil_l; cbn [In]; tauto|].
  induction r as [|y r IHr]; [rewrite mrgd_nil_r; cbn [In]; tauto|].
  rewrite mrgd_cons. destruct (N.ltb_spec x y); [|destruct (N.ltb_spec y x)].
  - change (x = z \/ In z (mrgd l (y :: r)) <-> In z (x :: l) \/ In z (y :: r)).
    rewrite IHl. cbn [In]. tauto.
  - change (y = z \/ In z (mrgd (x :: l) r) <-> In z (x :: l) \/ In z (y :: r)).
    rewrite IHr. cbn [In]. tauto.
  - assert (x = y) by lia. subst y.
    change (x = z \/ In z (mrgd l r) <-> In z (x :: l) \/ In z (x :: r)).
    rewrite IHl. cbn [In]. tauto.
Qed.

Lemma mrgd_sslt : forall l r, StronglySorted N.lt l -> StronglySorted N.lt r -> StronglySorted N.lt (mrgd l r).
Proof.
  induction l as [|x l IHl]; intros r Hl Hr; [rewrite mrgd_nil_l; exact Hr|].
  induction r as [|y r IHr]; [rewrite mrgd_nil_r; exact Hl|].
  rewrite mrgd_cons. inversion Hl as [|? ? Hl1 Hl2]; inversion Hr as [|? ? Hr1 Hr2]; subst.
  rewrite Forall_forall in Hl2, Hr2.
  destruct (N.ltb_spec x y); [|destruct (N.ltb_spec y x)].
  - constructor; [apply IHl; assumption|].
    apply Forall_forall. intros z Hz. rewrite mrgd_In in Hz. destruct Hz as [Hz|[Hz|Hz]].
    + apply Hl2; assumption. + subst; lia. + apply Hr2 in Hz. lia.
  - constructor; [apply IHr; assumption|].
    apply Forall_forall. intros z Hz. rewrite mrgd_In in Hz. destruct Hz as [[Hz|Hz]|Hz].
    + subst; lia. + apply Hl2 in Hz. lia. + apply Hr2; assumption.
  - assert (x = y) by lia. subst y.
    constructor; [apply IHl; assumption|].
    apply Forall_forall. intros z Hz. rewrite mrgd_In in Hz. destruct Hz as [Hz|Hz]; auto.
Qed.

Lemma sslt_In_eq : forall l l', StronglySorted N.lt l -> StronglySorted N.lt l' ->
  (forall z, In z l <-> In z l') -> l = l'.
Proof.
  induction l as [|x l IH]; intros l' Hl Hl' Hin.
  - destruct l' as [|y l']; [reflexivity|]. exfalso. apply (Hin y). left; reflexivity.
  - destruct l' as [|y l']; [exfalso; apply (Hin x); left; reflexivity|].
    inversion Hl as [|? ? Hl1 Hl2]; inversion Hl' as [|? ? Hr1 Hr2]; subst.
    rewrite Forall_forall in Hl2, Hr2.
    assert (x = y).
    { assert (Hx : In x (y :: l')) by (apply Hin; left; reflexivity).
      assert (Hy : In y (x :: l)) by (apply Hin; left; reflexivity).
      destruct Hx as [Hx|Hx]; [congruence|]. destruct Hy as [Hy|Hy]; [congruence|].
      apply Hr2 in Hx. apply Hl2 in Hy. lia. }
    subst y. f_equal. apply IH; try assumption.
    intro z. split; intro Hz.
    + assert (H1 : In z (x :: l')) by (apply Hin; right; assumption).
      destruct H1 as [H1|H1]; [|assumption]. subst z. apply Hl2 in Hz. lia.
    + assert (H1 : In z (x :: l)) by (apply Hin; right; assumption).
      destruct H1 as [H1|H1]; [|assumption]. subst z. apply Hr2 in Hz. lia.
Qed.

Theorem mrgd_spec l r : Sorted N.lt l -> Sorted N.lt r -> mrgd l r = merge_drop_spec l r.
Proof.
  intros Hl Hr. apply sslt_In_eq.
  - apply mrgd_sslt; apply Sorted_StronglySorted; try assumption; intros a b c; lia.
  - apply dedup_adj_sslt, sort_n_ssorted.
  - intro z. unfold merge_drop_spec. rewrite mrgd_In, dedup_adj_In, <- in_app_iff.
    split; apply Permutation_in; [|symmetry]; apply sort_n_perm.
Qed.

Theorem merge_drop_correct : forall l r, Sorted N.lt l -> Sorted N.lt r -> merge_drop l r = Done (merge_drop_spec l r).
Proof. intros l r Hl Hr. rewrite merge_drop_model, mrgd_spec by assumption. reflexivity. Qed.

(* ------------------------------------------------------------------ *)
(* unique                                                              *)
(* ------------------------------------------------------------------ *)
Fixpoint dropw (f : N -> bool) (l : list N) : list N :=
  match l with [] => [] | x :: t => if f x then dropw f t else l end.

Lemma dropw_length f l : (length (dropw f l) <= length l)%nat.
Proof. induction l as [|x t IH]; cbn [dropw]; [lia|]. destruct (f x); cbn [length]; lia. Qed.

Lemma dropw_map f g l : dropw f (map g l) = map g (dropw (fun x => f (g x)) l).
Proof. induction l as [|x t IH]; cbn [dropw map]; [reflexivity|]. destruct (f (g x)); [exact IH|reflexivity]. Qed.

Lemma dedup_adj_dropw : forall m v, dedup_adj (v :: m) = v :: dedup_adj (dropw (N.eqb v) m).
Proof.
  induction m as [|y m IH]; intro v; [reflexivity|].
  rewrite dedup_adj_cons2. cbn [dropw]. rewrite (N.eqb_sym v y).
  destruct (N.eqb_spec y v) as [->|Hne].
  - apply IH.
  - reflexivity.
Qed.

Lemma uniq_skip_ok a rshift target : forall t d fuel i,
  a = d ++ t -> i = N.of_nat (length d) -> (length t < fuel)%nat ->
  exists d', a = d' ++ dropw (fun x => N.shiftr x rshift =? target) t /\ (length d <= length d')%nat /\
             uniq_skip (mem_of_list a) rshift fuel target i = Done (N.of_nat (length d')).
Proof.
  induction t as [|x t IH]; intros d fuel i Ha Hi Hf;
    (destruct fuel as [|fuel]; [cbn [length] in Hf; lia|]); cbn [uniq_skip dropw]; rewrite mlen_mem_of_list.
  - exists d. split; [exact Ha|]. split; [lia|].
    rewrite ltb_false by (subst; rewrite app_length; cbn [length]; lia). subst i; reflexivity.
  - rewrite ltb_true by (subst; rewrite app_length; cbn [length]; lia).
    rewrite (rd_app 0 a d x t) by assumption. cbn [bind].
    destruct (N.shiftr x rshift =? target).
    + destruct (IH (d ++ [x]) fuel (i + 1)) as [d' [H1 [H2 H3]]].
      * rewrite <- app_assoc. exact Ha.
      * rewrite app_length. cbn [length]. lia.
      * cbn [length] in Hf. lia.
      * exists d'. rewrite app_length in H2. cbn [length] in H2. repeat split; try assumption. lia.
    + exists d. split; [exact Ha|]. split; [lia|]. subst i; reflexivity.
Qed.

Lemma uniq_loop_ok a rshift : forall fuel t d out i no,
  a = d ++ t -> i = N.of_nat (length d) -> no <= i -> (length t < fuel)%nat ->
  uniq_loop (mem_of_list a) rshift fuel i out no =
  Done (rev out ++ dedup_adj (map (fun x => N.shiftr x rshift) t)).
Proof.
  induction fuel as [|fuel IH]; intros t d out i no Ha Hi Hno Hf; [lia|].
  cbn [uniq_loop]. rewrite !mlen_mem_of_list.
  assert (El : length a = (length d + length t)%nat) by (subst a; apply app_length).
  destruct t as [|x t].
  - rewrite ltb_false by (cbn [length] in El; lia). cbn [map dedup_adj]. rewrite app_nil_r. reflexivity.
  - cbn [length] in *. rewrite ltb_true by lia.
    rewrite (rd_app 0 a d x t) by assumption. cbn [bind].
    rewrite wr_ok_lt by lia. cbn [bind].
    destruct (uniq_skip_ok a rshift (N.shiftr x rshift) t (d ++ [x]) (S (N.to_nat (N.of_nat (length a)))) (i + 1))
      as [d' [Ha' [Hdd Hs]]].
    + rewrite <- app_assoc. exact Ha.
    + rewrite app_length. cbn [length]. lia.
    + lia.
    + rewrite Hs. cbn [bind].
      assert (Hlen := dropw_length (fun x0 => N.shiftr x0 rshift =? N.shiftr x rshift) t).
      assert (El' := f_equal (@length N) Ha'). rewrite app_length in El'.
      rewrite app_length in Hdd. cbn [length] in Hdd.
      rewrite (IH _ d' _ _ _ Ha' eq_refl) by lia.
      cbn [map rev]. rewrite dedup_adj_dropw, dropw_map, <- app_assoc. cbn [app].
      do 4 f_equal. clear. induction t as [|y t IH]; cbn [dropw]; [reflexivity|].
      rewrite (N.eqb_sym (N.shiftr x rshift)). destruct (N.shiftr y rshift =? N.shiftr x rshift); [exact IH|reflexivity].
Qed.

Theorem unique_correct : forall a rshift, a <> [] \/ rshift = 0 -> unique a rshift = Done (unique_spec a rshift).
Proof.
  intros a rshift H. unfold unique, unique_spec.
  destruct (N.ltb_spec 0 rshift) as [Hr|Hr].
  - destruct H as [H|H]; [|lia]. destruct a as [|x a]; [congruence|].
    rewrite (rd_app 0 (x :: a) [] x a) by reflexivity. cbn [bind].
    rewrite (uniq_loop_ok (x :: a) rshift _ (x :: a) []); try reflexivity; cbn [length]; lia.
  - assert (rshift = 0) by lia. subst rshift.
    rewrite (uniq_loop_ok a 0 _ a []); try reflexivity; cbn [length]; lia.
Qed.

Theorem unique_safe : forall a rshift, a <> [] \/ rshift = 0 -> ~ is_fault (unique a rshift).
Proof. intros a rshift H. eapply not_fault_done. apply unique_correct. exact H. Qed.

Theorem unique_empty_shifted_faults : forall rshift, 0 < rshift -> unique [] rshift = Fault Rd 0 0.
Proof. intros rshift H. unfold unique. rewrite ltb_true by exact H. reflexivity. Qed.

(* ------------------------------------------------------------------ *)
(* runs_sum, popcount64_reduce, popcount_reduce_at / key_sum_over      *)
(* ------------------------------------------------------------------ *)
Lemma runs_sum_cons k v t :
  runs_sum ((k, v) :: t) =
  match runs_sum t with
  | (k', s) :: rest => if k =? k' then (k, v + s) :: rest else (k, v) :: (k', s) :: rest
  | [] => [(k, v)]
  end.
Proof. reflexivity. Qed.

Lemma runs_sum_head k v t : exists v' r, runs_sum ((k, v) :: t) = (k, v') :: r.
Proof.
  rewrite runs_sum_cons. destruct (runs_sum t) as [|[k' s] rest]; [eauto|].
  destruct (k =? k'); eauto.
Qed.

Lemma runs_sum_same k a b t : runs_sum ((k, a) :: (k, b) :: t) = runs_sum ((k, a + b) :: t).
Proof.
  rewrite (runs_sum_cons k a), (runs_sum_cons k b), (runs_sum_cons k (a + b)).
  destruct (runs_sum t) as [|[k' s] rest].
  - rewrite N.eqb_refl. reflexivity.
  - destruct (k =? k'); rewrite N.eqb_refl; [rewrite N.add_assoc|]; reflexivity.
Qed.

Lemma runs_sum_diff k a k' b t : k <> k' -> runs_sum ((k, a) :: (k', b) :: t) = (k, a) :: runs_sum ((k', b) :: t).
Proof.
  intro H. rewrite (runs_sum_cons k a). destruct (runs_sum_head k' b t) as [v' [r ->]].
  rewrite eqb_false by exact H. reflexivity.
Qed.

Lemma pcr_loop_ok a ks vm : forall fuel t d out k lk cur no,
  a = d ++ t -> k = N.of_nat (length d) -> no < k -> (length t < fuel)%nat ->
  pcr_loop (mem_of_list a) ks vm fuel k lk cur out no =
  Done (rev out ++ runs_sum ((lk, cur) :: map (fun w => (N.shiftr w ks, popcount (N.land w vm))) t)).
Proof.
  induction fuel as [|fuel IH]; intros t d out k lk cur no Ha Hk Hno Hf; [lia|].
  cbn [pcr_loop]. rewrite !mlen_mem_of_list.
  assert (El : length a = (length d + length t)%nat) by (subst a; apply app_length).
  destruct t as [|w t]; cbn [length] in *.
  - rewrite ltb_false by lia. cbn [map rev]. reflexivity.
  - rewrite ltb_true by lia. rewrite (rd_app 0 a d w t) by assumption. cbn [bind map].
    destruct (N.eqb_spec (N.shiftr w ks) lk) as [E|E].
    + rewrite (IH t (d ++ [w])); try (rewrite ?app_length; cbn [length]; lia).
      * rewrite E, runs_sum_same. reflexivity.
      * rewrite <- app_assoc. exact Ha.
    + rewrite wr_ok_lt by lia. cbn [bind].
      rewrite (IH t (d ++ [w])); try (rewrite ?app_length; cbn [length]; lia).
      * rewrite runs_sum_diff by congruence. cbn [rev]. rewrite <- app_assoc. reflexivity.
      * rewrite <- app_assoc. exact Ha.
Qed.

Theorem popcount64_reduce_correct : forall a ks vm, popcount64_reduce a ks vm = Done (popcount64_reduce_spec a ks vm).
Proof.
  intros a ks vm. unfold popcount64_reduce, popcount64_reduce_spec.
  destruct a as [|w0 a]; [reflexivity|].
  cbn [pcr_loop]. rewrite !mlen_mem_of_list. cbn [length].
  rewrite ltb_true by lia. rewrite (rd_app 0 (w0 :: a) [] w0 a) by reflexivity. cbn [bind].
  rewrite N.eqb_refl.
  rewrite (pcr_loop_ok (w0 :: a) ks vm _ a [w0]); try reflexivity; cbn [length]; lia.
Qed.

Theorem popcount64_reduce_safe : forall a ks vm, ~ is_fault (popcount64_reduce a ks vm).
Proof. intros. eapply not_fault_done. apply popcount64_reduce_correct. Qed.

Lemma reduce_at_loop_ok ids p w : forall fuel ti tp di dp out k last sum no,
  ids = di ++ ti -> p = dp ++ tp -> length di = length dp -> length ti = length tp ->
  k = N.of_nat (length di) -> no < k -> (length ti < fuel)%nat ->
  reduce_at_loop (mem_of_list ids) (mem_of_list p) w fuel k last sum out no =
  Done (rev out ++ runs_sum ((last, sum) :: combine ti (map w tp))).
Proof.
  induction fuel as [|fuel IH]; intros ti tp di dp out k last sum no Hi Hp Hd Ht Hk Hno Hf; [lia|].
  cbn [reduce_at_loop]. rewrite !mlen_mem_of_list.
  assert (El : length ids = (length di + length ti)%nat) by (subst ids; apply app_length).
  destruct ti as [|id ti]; cbn [length] in *.
  - rewrite ltb_false by lia. rewrite wr_ok_lt by lia. cbn [bind combine rev]. reflexivity.
  - destruct tp as [|pv tp]; [discriminate|]. cbn [length] in *.
    rewrite ltb_true by lia. rewrite (rd_app 0 ids di id ti) by assumption. cbn [bind map combine].
    destruct (N.eqb_spec id last) as [E|E]; cbn [negb bind].
    + rewrite (rd_app 1 p dp pv tp) by (try assumption; lia). cbn [bind].
      rewrite (IH ti tp (di ++ [id]) (dp ++ [pv])); try (rewrite ?app_length; cbn [length]; lia).
      * rewrite E, runs_sum_same. reflexivity.
      * rewrite <- app_assoc. exact Hi.
      * rewrite <- app_assoc. exact Hp.
    + rewrite wr_ok_lt by lia. cbn [bind].
      rewrite (rd_app 1 p dp pv tp) by (try assumption; lia). cbn [bind].
      rewrite (IH ti tp (di ++ [id]) (dp ++ [pv])); try (rewrite ?app_length; cbn [length]; lia).
      * rewrite runs_sum_diff by congruence. cbn [rev]. rewrite <- app_assoc, N.add_0_l. reflexivity.
      * rewrite <- app_assoc. exact Hi.
      * rewrite <- app_assoc. exact Hp.
Qed.

Theorem reduce_at_wrapper_correct : forall w ids p, length ids = length p ->
  reduce_at_wrapper w ids p = PyOk (Done (runs_sum (combine ids (map w p)))).
Proof.
  intros w ids p H. unfold reduce_at_wrapper. rewrite H, Nat.eqb_refl. cbn [negb].
  destruct ids as [|id0 ids]; [reflexivity|]. destruct p as [|p0 p]; [discriminate|].
  cbn [length] in H. f_equal.
  cbn [reduce_at_loop]. rewrite !mlen_mem_of_list. cbn [length].
  rewrite ltb_true by lia. rewrite (rd_app 0 (id0 :: ids) [] id0 ids) by reflexivity. cbn [bind].
  rewrite N.eqb_refl. cbn [negb bind].
  rewrite (rd_app 1 (p0 :: p) [] p0 p) by reflexivity. cbn [bind].
  rewrite (reduce_at_loop_ok (id0 :: ids) (p0 :: p) w _ ids p [id0] [p0]); try reflexivity; cbn [length]; lia.
Qed.

Theorem popcount_reduce_at_correct : forall ids p, length ids = length p ->
  popcount_reduce_at ids p = PyOk (Done (popcount_reduce_at_spec ids p)).
Proof. intros. apply reduce_at_wrapper_correct. assumption. Qed.

Theorem key_sum_over_correct : forall ids c, length ids = length c ->
  key_sum_over ids c = PyOk (Done (key_sum_over_spec ids c)).
Proof.
  intros ids c H. unfold key_sum_over, key_sum_over_spec.
  rewrite reduce_at_wrapper_correct by assumption. rewrite map_id. reflexivity.
Qed.

Theorem reduce_at_length_mismatch : forall w ids p, length ids <> length p -> reduce_at_wrapper w ids p = PyValueError.
Proof.
  intros w ids p H. unfold reduce_at_wrapper.
  destruct (Nat.eqb_spec (length ids) (length p)); [contradiction|reflexivity].
Qed.

Theorem reduce_at_safe : forall w ids p r, reduce_at_wrapper w ids p = PyOk r -> ~ is_fault r.
Proof.
  intros w ids p r H. destruct (Nat.eq_dec (length ids) (length p)) as [E|E].
  - rewrite reduce_at_wrapper_correct in H by exact E. injection H as <-. intro F; exact F.
  - rewrite reduce_at_length_mismatch in H by exact E. discriminate.
Qed.

(* ------------------------------------------------------------------ *)
(* scatter_naive / as_dense                                            *)
(* ------------------------------------------------------------------ *)
Lemma store_many_app : forall l1 l2 d, store_many d (l1 ++ l2) = (do d' <- store_many d l1; store_many d' l2).
Proof.
  induction l1 as [|[i v] l1 IH]; intros l2 d; [reflexivity|].
  cbn [app store_many]. destruct (store d i v); cbn [bind]; [apply IH|reflexivity|reflexivity].
Qed.

Lemma chunks_loop_ok U : forall f d ivs,
  (do st <- chunks_loop U f d ivs; store_many (fst st) (snd st)) = store_many d ivs.
Proof.
  induction f as [|f IH]; intros d ivs; [reflexivity|].
  cbn [chunks_loop].
  transitivity (store_many d (firstn U ivs ++ skipn U ivs)); [|rewrite firstn_skipn; reflexivity].
  rewrite store_many_app. destruct (store_many d (firstn U ivs)); cbn [bind]; [apply IH|reflexivity|reflexivity].
Qed.

Lemma scatter_naive_store_many d ivs : scatter_naive d ivs = store_many d ivs.
Proof. unfold scatter_naive. apply chunks_loop_ok. Qed.

Lemma list_set_length : forall l i v, length (list_set l i v) = length l.
Proof. induction l as [|x l IH]; intros [|i] v; cbn [list_set length]; auto. Qed.

Lemma list_set_nth : forall l i v k, (i < length l)%nat ->
  nth k (list_set l i v) 0 = if Nat.eqb k i then v else nth k l 0.
Proof.
  induction l as [|x l IH]; intros i v k H; cbn [length] in H; [lia|].
  destruct i as [|i]; cbn [list_set]; destruct k as [|k]; cbn [nth Nat.eqb]; try reflexivity.
  apply IH. lia.
Qed.

Lemma find_app {A} (f : A -> bool) : forall l1 l2,
  find f (l1 ++ l2) = match find f l1 with Some x => Some x | None => find f l2 end.
Proof. induction l1 as [|x l1 IH]; intro l2; cbn [app find]; [reflexivity|]. destruct (f x); auto. Qed.

Lemma store_many_ok : forall ivs dense,
  Forall (fun iv => fst iv < N.of_nat (length dense)) ivs ->
  exists d', store_many dense ivs = Done d' /\ length d' = length dense /\
    forall k, (k < length dense)%nat ->
      nth k d' 0 = match find (fun iv => fst iv =? N.of_nat k) (rev ivs) with
                   | Some iv => snd iv | None => nth k dense 0 end.
Proof.
  induction ivs as [|[i v] t IH]; intros dense Hf.
  - exists dense. repeat split.
  - inversion Hf as [|? ? Hi Ht]; subst. cbn [fst] in Hi.
    cbn [store_many]. unfold store. rewrite ltb_true by exact Hi. cbn [bind].
    destruct (IH (list_set dense (N.to_nat i) v)) as [d' [H1 [H2 H3]]].
    { rewrite list_set_length. exact Ht. }
    rewrite list_set_length in H2, H3.
    exists d'. split; [exact H1|]. split; [exact H2|].
    intros k Hk. rewrite (H3 k Hk). cbn [rev]. rewrite find_app.
    destruct (find (fun iv => fst iv =? N.of_nat k) (rev t)); [reflexivity|].
    cbn [find fst snd]. rewrite list_set_nth by lia.
    destruct (N.eqb_spec i (N.of_nat k)); destruct (Nat.eqb_spec k (N.to_nat i)); try reflexivity; lia.
Qed.

Lemma Forall_combine_fst (P : N -> Prop) : forall idx vals,
  Forall P idx -> Forall (fun iv : N * N => P (fst iv)) (combine idx vals).
Proof.
  induction idx as [|i idx IH]; intros vals H; [constructor|].
  destruct vals as [|v vals]; [constructor|]. inversion H; subst.
  cbn [combine]. constructor; [assumption|apply IH; assumption].
Qed.

Theorem scatter_correct : forall idx vals size, Forall (fun i => i < size) idx ->
  scatter_naive (repeat 0 (N.to_nat size)) (combine idx vals) = Done (as_dense_spec idx vals size).
Proof.
  intros idx vals size Hf. rewrite scatter_naive_store_many.
  destruct (store_many_ok (combine idx vals) (repeat 0 (N.to_nat size))) as [d' [H1 [H2 H3]]].
  { rewrite repeat_length, N2Nat.id. apply (Forall_combine_fst (fun i => i < size)). exact Hf. }
  rewrite H1. f_equal. rewrite repeat_length in H2, H3. unfold as_dense_spec.
  apply (nth_ext _ _ 0 ((fun i => match find (fun iv => fst iv =? i) (rev (combine idx vals)) with
                                 | Some iv => snd iv | None => 0 end) (N.of_nat 0%nat))).
  - rewrite !map_length, seq_length. exact H2.
  - intros k Hk. rewrite H2 in Hk. rewrite H3 by exact Hk.
    rewrite (map_nth (fun i => match find (fun iv => fst iv =? i) (rev (combine idx vals)) with
                                 | Some iv => snd iv | None => 0 end)).
    rewrite (map_nth N.of_nat), seq_nth by exact Hk. cbn [Nat.add].
    rewrite nth_repeat. reflexivity.
Qed.

Theorem as_dense_correct : forall idx vals size, length idx = length vals -> Forall (fun i => i < size) idx ->
  as_dense idx vals size = PyOk (Done (as_dense_spec idx vals size)).
Proof.
  intros idx vals size Hl Hf. unfold as_dense. rewrite Hl, Nat.eqb_refl. cbn [negb].
  rewrite scatter_correct by exact Hf. reflexivity.
Qed.

Theorem as_dense_safe : forall idx vals size r, Forall (fun i => i < size) idx -> as_dense idx vals size = PyOk r -> ~ is_fault r.
Proof.
  intros idx vals size r Hf H. unfold as_dense in H.
  destruct (negb (Nat.eqb (length idx) (length vals))); [discriminate|].
  rewrite scatter_correct in H by exact Hf. injection H as <-. intro F; exact F.
Qed.

(* ------------------------------------------------------------------ *)
(* sort_merge_counts                                                   *)
(* ------------------------------------------------------------------ *)
(* what the loop computes on ANY pair of (id, count) lists *)
Fixpoint smcf (l : list (N * N)) : list (N * N) -> list (N * N) :=
  fix go (r : list (N * N)) : list (N * N) :=
    match l, r with
    | [], _ => r
    | _, [] => l
    | a :: l', b :: r' =>
        if fst a <? fst b then a :: smcf l' r
        else if fst b <? fst a then b :: go r'
        else (fst a, snd a + snd b) :: smcf l' r'
    end.
Lemma smcf_nil_l r : smcf [] r = r. Proof. destruct r; reflexivity. Qed.
Lemma smcf_nil_r l : smcf l [] = l. Proof. destruct l; reflexivity. Qed.
Lemma smcf_cons a l b r : smcf (a :: l) (b :: r) =
  if fst a <? fst b then a :: smcf l (b :: r)
  else if fst b <? fst a then b :: smcf (a :: l) r
  else (fst a, snd a + snd b) :: smcf l r.
Proof. reflexivity. Qed.

Lemma smc_tail_ok cap bi bc a c : forall t tc d dc fuel out no i,
  a = d ++ t -> c = dc ++ tc -> length d = length dc -> length t = length tc ->
  i = N.of_nat (length d) -> (length t < fuel)%nat -> no + N.of_nat (length t) <= cap ->
  smc_tail cap bi bc (mem_of_list a) (mem_of_list c) fuel i out no =
  Done (rev (combine t tc) ++ out, no + N.of_nat (length t)).
Proof.
  induction t as [|x t IH]; intros tc d dc fuel out no i Ha Hc Hd Ht Hi Hf Hcap;
    (destruct fuel as [|fuel]; [cbn [length] in Hf; lia|]); cbn [smc_tail]; rewrite mlen_mem_of_list.
  - rewrite ltb_false by (subst; rewrite app_length; cbn [length]; lia).
    cbn [length rev app combine]. f_equal. f_equal. lia.
  - destruct tc as [|y tc]; [discriminate|]. cbn [length] in *.
    rewrite ltb_true by (subst; rewrite app_length; cbn [length]; lia).
    rewrite (rd_app bi a d x t) by assumption. cbn [bind].
    rewrite (rd_app bc c dc y tc) by (try assumption; lia). cbn [bind].
    rewrite !wr_ok_lt by lia. cbn [bind].
    rewrite (IH tc (d ++ [x]) (dc ++ [y]) fuel ((x, y) :: out) (no + 1) (i + 1));
      try (rewrite ?app_length; cbn [length]; lia).
    + cbn [rev combine]. rewrite <- app_assoc. cbn [app]. f_equal. f_equal. lia.
    + rewrite <- app_assoc. exact Ha.
    + rewrite <- app_assoc. exact Hc.
Qed.

Definition smc_epilogue (LI LC RI RC : mem) cap (i j : N) (out : list (N * N)) (no : N) : result (list (N * N)) :=
  do t1 <- smc_tail cap 0 1 LI LC (S (N.to_nat (mlen LI))) i out no;
  do t2 <- smc_tail cap 2 3 RI RC (S (N.to_nat (mlen RI))) j (fst t1) (snd t1);
  Done (rev (fst t2)).

Lemma smc_loop_S LI LC RI RC cap f i j out no :
  smc_loop LI LC RI RC cap (S f) i j out no =
  if andb (i <? mlen LI) (j <? mlen RI) then
    do x <- rd 0 LI i; do y <- rd 2 RI j;
    if x <? y then
      do c <- rd 1 LC i; do _ <- wr_ok 4 cap no; do _ <- wr_ok 5 cap no;
      smc_loop LI LC RI RC cap f (i + 1) j ((x, c) :: out) (no + 1)
    else if y <? x then
      do c <- rd 3 RC j; do _ <- wr_ok 4 cap no; do _ <- wr_ok 5 cap no;
      smc_loop LI LC RI RC cap f i (j + 1) ((y, c) :: out) (no + 1)
    else
      do c1 <- rd 1 LC i; do c2 <- rd 3 RC j; do _ <- wr_ok 4 cap no; do _ <- wr_ok 5 cap no;
      smc_loop LI LC RI RC cap f (i + 1) (j + 1) ((x, c1 + c2) :: out) (no + 1)
  else smc_epilogue LI LC RI RC cap i j out no.
Proof. reflexivity. Qed.

Lemma smc_epilogue_ok li lc ri rc dli tli dlc tlc dri tri drc trc cap i j out no :
  li = dli ++ tli -> lc = dlc ++ tlc -> ri = dri ++ tri -> rc = drc ++ trc ->
  length dli = length dlc -> length tli = length tlc -> length dri = length drc -> length tri = length trc ->
  i = N.of_nat (length dli) -> j = N.of_nat (length dri) ->
  no + N.of_nat (length tli) + N.of_nat (length tri) <= cap ->
  smc_epilogue (mem_of_list li) (mem_of_list lc) (mem_of_list ri) (mem_of_list rc) cap i j out no =
  Done (rev out ++ combine tli tlc ++ combine tri trc).
Proof.
  intros Hli Hlc Hri Hrc H1 H2 H3 H4 Hi Hj Hcap. unfold smc_epilogue. rewrite !mlen_mem_of_list.
  assert (Ell : length li = (length dli + length tli)%nat) by (subst li; apply app_length).
  assert (Err : length ri = (length dri + length tri)%nat) by (subst ri; apply app_length).
  rewrite (smc_tail_ok cap 0 1 li lc tli tlc dli dlc) by (try assumption; lia). cbn [bind fst snd].
  rewrite (smc_tail_ok cap 2 3 ri rc tri trc dri drc) by (try assumption; lia). cbn [bind fst snd].
  rewrite !rev_app_distr, !rev_involutive, app_assoc. reflexivity.
Qed.

Lemma smc_loop_ok li lc ri rc : forall fuel dli tli dlc tlc dri tri drc trc out i j no,
  li = dli ++ tli -> lc = dlc ++ tlc -> ri = dri ++ tri -> rc = drc ++ trc ->
  length dli = length dlc -> length tli = length tlc -> length dri = length drc -> length tri = length trc ->
  i = N.of_nat (length dli) -> j = N.of_nat (length dri) -> no <= i + j ->
  (length tli + length tri < fuel)%nat ->
  smc_loop (mem_of_list li) (mem_of_list lc) (mem_of_list ri) (mem_of_list rc)
    (N.of_nat (length li + length ri)) fuel i j out no =
  Done (rev out ++ smcf (combine tli tlc) (combine tri trc)).
Proof.
  induction fuel as [|fuel IH];
    intros dli tli dlc tlc dri tri drc trc out i j no Hli Hlc Hri Hrc H1 H2 H3 H4 Hi Hj Hno Hf; [lia|].
  rewrite smc_loop_S, !mlen_mem_of_list.
  assert (Ell : length li = (length dli + length tli)%nat) by (subst li; apply app_length).
  assert (Err : length ri = (length dri + length tri)%nat) by (subst ri; apply app_length).
  destruct tli as [|x tli]; [|destruct tri as [|y tri]].
  - rewrite (ltb_false i) by (cbn [length] in Ell; lia). cbn [andb].
    rewrite (smc_epilogue_ok li lc ri rc dli [] dlc tlc dri tri drc trc) by (auto; cbn [length] in *; lia).
    cbn [combine app]. rewrite smcf_nil_l. reflexivity.
  - rewrite (ltb_false j) by (cbn [length] in Err; lia). rewrite andb_false_r.
    rewrite (smc_epilogue_ok li lc ri rc dli (x :: tli) dlc tlc dri [] drc trc) by (auto; cbn [length] in *; lia).
    cbn [combine]. rewrite smcf_nil_r, app_nil_r. reflexivity.
  - destruct tlc as [|cx tlc]; [discriminate|]. destruct trc as [|cy trc]; [discriminate|].
    rewrite (ltb_true i) by (cbn [length] in Ell; lia).
    rewrite (ltb_true j) by (cbn [length] in Err; lia).
    cbn [andb]. rewrite (rd_app 0 li dli x tli), (rd_app 2 ri dri y tri) by assumption. cbn [bind].
    cbn [combine]. rewrite smcf_cons. cbn [fst snd]. cbn [length] in *.
    destruct (x <? y) eqn:Exy; [|destruct (y <? x) eqn:Eyx].
    + rewrite (rd_app 1 lc dlc cx tlc) by (try assumption; lia). cbn [bind].
      rewrite !wr_ok_lt by lia. cbn [bind].
      rewrite (IH (dli ++ [x]) tli (dlc ++ [cx]) tlc dri (y :: tri) drc (cy :: trc)); try assumption;
        try (rewrite ?app_length; cbn [length]; lia).
      * cbn [rev combine]. rewrite <- app_assoc. reflexivity.
      * rewrite <- app_assoc. assumption.
      * rewrite <- app_assoc. assumption.
    + rewrite (rd_app 3 rc drc cy trc) by (try assumption; lia). cbn [bind].
      rewrite !wr_ok_lt by lia. cbn [bind].
      rewrite (IH dli (x :: tli) dlc (cx :: tlc) (dri ++ [y]) tri (drc ++ [cy]) trc); try assumption;
        try (rewrite ?app_length; cbn [length]; lia).
      * cbn [rev combine]. rewrite <- app_assoc. reflexivity.
      * rewrite <- app_assoc. assumption.
      * rewrite <- app_assoc. assumption.
    + rewrite (rd_app 1 lc dlc cx tlc) by (try assumption; lia). cbn [bind].
      rewrite (rd_app 3 rc drc cy trc) by (try assumption; lia). cbn [bind].
      rewrite !wr_ok_lt by lia. cbn [bind].
      rewrite (IH (dli ++ [x]) tli (dlc ++ [cx]) tlc (dri ++ [y]) tri (drc ++ [cy]) trc); try assumption;
        try (rewrite ?app_length; cbn [length]; lia).
      * cbn [rev]. rewrite <- app_assoc. reflexivity.
      * rewrite <- app_assoc. assumption.
      * rewrite <- app_assoc. assumption.
      * rewrite <- app_assoc. assumption.
      * rewrite <- app_assoc. assumption.
Qed.

Theorem sort_merge_counts_model li lc ri rc : length li = length lc -> length ri = length rc ->
  sort_merge_counts li lc ri rc = Done (smcf (combine li lc) (combine ri rc)).
Proof.
  intros H1 H2. unfold sort_merge_counts.
  rewrite (smc_loop_ok li lc ri rc _ [] li [] lc [] ri [] rc); try reflexivity; try assumption; lia.
Qed.

Theorem sort_merge_counts_safe : forall li lc ri rc, length li = length lc -> length ri = length rc ->
  ~ is_fault (sort_merge_counts li lc ri rc).
Proof. intros. eapply not_fault_done. apply sort_merge_counts_model; assumption. Qed.

(* stable merge by key, left side first on ties *)
Fixpoint kmerge (l : list (N * N)) : list (N * N) -> list (N * N) :=
  fix go (r : list (N * N)) : list (N * N) :=
    match l, r with
    | [], _ => r
    | _, [] => l
    | a :: l', b :: r' => if fst a <=? fst b then a :: kmerge l' r else b :: go r'
    end.
Lemma kmerge_nil_l r : kmerge [] r = r. Proof. destruct r; reflexivity. Qed.
Lemma kmerge_nil_r l : kmerge l [] = l. Proof. destruct l; reflexivity. Qed.
Lemma kmerge_cons a l b r : kmerge (a :: l) (b :: r) =
  if fst a <=? fst b then a :: kmerge l (b :: r) else b :: kmerge (a :: l) r.
Proof. reflexivity. Qed.

Definition klt (a b : N * N) : Prop := fst a < fst b.

Lemma kmerge_In kv : forall l r, In kv (kmerge l r) <-> In kv l \/ In kv r.
Proof.
  induction l as [|a l IHl]; intro r; [rewrite kmerge_nil_l; cbn [In]; tauto|].
  induction r as [|b r IHr]; [rewrite kmerge_nil_r; cbn [In]; tauto|].
  rewrite kmerge_cons. destruct (fst a <=? fst b).
  - change (a = kv \/ In kv (kmerge l (b :: r)) <-> In kv (a :: l) \/ In kv (b :: r)).
    rewrite IHl. cbn [In]. tauto.
  - change (b = kv \/ In kv (kmerge (a :: l) r) <-> In kv (a :: l) \/ In kv (b :: r)).
    rewrite IHr. cbn [In]. tauto.
Qed.

Lemma kmerge_Forall (P : N * N -> Prop) l r : Forall P l -> Forall P r -> Forall P (kmerge l r).
Proof.
  rewrite !Forall_forall. intros Hl Hr kv H. rewrite kmerge_In in H. destruct H; auto.
Qed.

Lemma insert_kv_le kv t : Forall (fun b => fst kv <= fst b) t -> insert_kv kv t = kv :: t.
Proof.
  destruct t as [|b t]; intro H; [reflexivity|]. inversion H; subst.
  cbn [insert_kv]. destruct (N.leb_spec (fst kv) (fst b)); [reflexivity|lia].
Qed.

Lemma runs_sum_lt k a t : Forall (fun b => k < fst b) t -> runs_sum ((k, a) :: t) = (k, a) :: runs_sum t.
Proof.
  destruct t as [|[k' b] t]; intro H; [reflexivity|]. inversion H; subst. cbn [fst] in *.
  apply runs_sum_diff. lia.
Qed.

Lemma kmerge_hd_r b l r : Forall (fun a => fst b < fst a) l -> kmerge l (b :: r) = b :: kmerge l r.
Proof.
  destruct l as [|a l]; intro H; [rewrite !kmerge_nil_l; reflexivity|]. inversion H; subst.
  rewrite kmerge_cons. destruct (N.leb_spec (fst a) (fst b)); [lia|reflexivity].
Qed.

Lemma Forall_klt_le k (t : list (N * N)) : Forall (fun b => k < fst b) t -> Forall (fun b => k <= fst b) t.
Proof. apply Forall_impl. intros; lia. Qed.

(* (1) insertion-sorting the concatenation is the stable merge *)
Lemma insert_kv_kmerge kv l : Forall (klt kv) l -> forall r, StronglySorted klt r ->
  insert_kv kv (kmerge l r) = kmerge (kv :: l) r.
Proof.
  intros Hl. induction r as [|b r IHr]; intro Hr.
  - rewrite !kmerge_nil_r. apply insert_kv_le. apply Forall_klt_le. exact Hl.
  - inversion Hr as [|? ? Hr1 Hr2]; subst. rewrite kmerge_cons.
    destruct (N.leb_spec (fst kv) (fst b)).
    + apply insert_kv_le. apply kmerge_Forall; [apply Forall_klt_le; exact Hl|].
      constructor; [assumption|]. eapply Forall_impl; [|exact Hr2]. unfold klt. intros; lia.
    + rewrite kmerge_hd_r by (eapply Forall_impl; [|exact Hl]; unfold klt; intros; lia).
      cbn [insert_kv]. destruct (N.leb_spec (fst kv) (fst b)); [lia|].
      f_equal. apply IHr. exact Hr1.
Qed.

Lemma fold_insert_kv_sorted : forall r, StronglySorted klt r -> fold_right insert_kv [] r = r.
Proof.
  induction 1 as [|b r Hr IH Hf]; [reflexivity|]. cbn [fold_right]. rewrite IH.
  apply insert_kv_le. apply Forall_klt_le. exact Hf.
Qed.

Lemma fold_insert_kv_kmerge : forall l r, StronglySorted klt l -> StronglySorted klt r ->
  fold_right insert_kv [] (l ++ r) = kmerge l r.
Proof.
  induction l as [|a l IH]; intros r Hl Hr.
  - rewrite kmerge_nil_l. apply fold_insert_kv_sorted. exact Hr.
  - inversion Hl; subst. cbn [app fold_right]. rewrite IH by assumption.
    apply insert_kv_kmerge; assumption.
Qed.

(* (2) summing runs of the stable merge is the combining merge *)
Lemma runs_sum_sorted : forall l, StronglySorted klt l -> runs_sum l = l.
Proof.
  induction 1 as [|[k a] l Hl IH Hf]; [reflexivity|]. rewrite runs_sum_lt by exact Hf. rewrite IH. reflexivity.
Qed.

Lemma runs_sum_kmerge : forall l r, StronglySorted klt l -> StronglySorted klt r ->
  runs_sum (kmerge l r) = smcf l r.
Proof.
  induction l as [|[x c1] l IHl]; intros r Hl Hr.
  - rewrite kmerge_nil_l, smcf_nil_l. apply runs_sum_sorted. exact Hr.
  - inversion Hl as [|? ? Hl1 Hl2]; subst.
    induction r as [|[y c2] r IHr].
    + rewrite kmerge_nil_r, smcf_nil_r. apply runs_sum_sorted. exact Hl.
    + inversion Hr as [|? ? Hr1 Hr2]; subst. unfold klt in Hl2, Hr2; cbn [fst] in Hl2, Hr2.
      rewrite kmerge_cons, smcf_cons. cbn [fst snd].
      destruct (N.ltb_spec x y); [|destruct (N.ltb_spec y x)].
      * rewrite (proj2 (N.leb_le x y)) by lia.
        rewrite runs_sum_lt.
        -- rewrite IHl by assumption. reflexivity.
        -- apply kmerge_Forall; [exact Hl2|]. constructor; [cbn [fst]; lia|].
           eapply Forall_impl; [|exact Hr2]. cbn. intros; lia.
      * rewrite (proj2 (N.leb_gt x y)) by lia.
        rewrite runs_sum_lt.
        -- rewrite IHr by assumption. reflexivity.
        -- apply kmerge_Forall; [|exact Hr2]. constructor; [cbn [fst]; lia|].
           eapply Forall_impl; [|exact Hl2]. cbn. intros; lia.
      * assert (x = y) by lia. subst y.
        rewrite (proj2 (N.leb_le x x)) by lia.
        rewrite kmerge_hd_r by exact Hl2.
        rewrite runs_sum_same, runs_sum_lt.
        -- rewrite IHl by assumption. reflexivity.
        -- apply kmerge_Forall; assumption.
Qed.

Lemma combine_sorted : forall li lc, StronglySorted N.lt li -> StronglySorted klt (combine li lc).
Proof.
  induction li as [|x li IH]; intros lc H; [constructor|].
  destruct lc as [|c lc]; [constructor|]. inversion H; subst. cbn [combine].
  constructor; [apply IH; assumption|].
  apply (Forall_combine_fst (fun i => x < i)). assumption.
Qed.

Theorem smcf_spec li lc ri rc : Sorted N.lt li -> Sorted N.lt ri ->
  smcf (combine li lc) (combine ri rc) = sort_merge_counts_spec li lc ri rc.
Proof.
  intros Hl Hr. unfold sort_merge_counts_spec.
  assert (Hl' : StronglySorted klt (combine li lc))
    by (apply combine_sorted, Sorted_StronglySorted; try assumption; intros a b c; lia).
  assert (Hr' : StronglySorted klt (combine ri rc))
    by (apply combine_sorted, Sorted_StronglySorted; try assumption; intros a b c; lia).
  rewrite fold_insert_kv_kmerge, runs_sum_kmerge by assumption. reflexivity.
Qed.

Theorem sort_merge_counts_correct : forall li lc ri rc, length li = length lc -> length ri = length rc ->
  Sorted N.lt li -> Sorted N.lt ri -> sort_merge_counts li lc ri rc = Done (sort_merge_counts_spec li lc ri rc).
Proof.
  intros li lc ri rc H1 H2 Hl Hr. rewrite sort_merge_counts_model, smcf_spec by assumption. reflexivity.
Qed.

(* ------------------------------------------------------------------ *)
(* binary_search / galloping_search                                    *)
(* ------------------------------------------------------------------ *)
Lemma bisect_S A t0 m f l r :
  bisect A t0 m (S f) l r =
  if l + 1 <? r then
    do v <- rd 0 A ((r + l) / 2);
    if N.land t0 m <=? N.land v m then bisect A t0 m f l ((r + l) / 2) else bisect A t0 m f ((r + l) / 2) r
  else Done r.
Proof. reflexivity. Qed.

Lemma gs_gallop_S A t0 m f idx delta ip value :
  gs_gallop A t0 m (S f) idx delta ip value =
  if value <? N.land t0 m then
    if mlen A <=? idx + delta then
      do v <- rd 0 A (mlen A - 1); Done (mlen A - 1, idx)
    else
      do v <- rd 0 A (idx + delta); gs_gallop A t0 m f (idx + delta) (delta * 2) idx (N.land v m)
  else Done (idx, ip).
Proof. reflexivity. Qed.

Lemma rd_in a i : i < N.of_nat (length a) -> rd 0 (mem_of_list a) i = Done (nth (N.to_nat i) a 0).
Proof. intro H. rewrite rd_mem_of_list. apply lrd_ok. exact H. Qed.

Section SearchAny.
Variables (a : list N) (t0 m : N).
Local Notation n := (N.of_nat (length a)).
Local Notation A := (mem_of_list a).

(* ---- arbitrary contents: no read leaves the array ---- *)
Lemma bisect_nofault : forall f l r, r <= n -> ~ is_fault (bisect A t0 m f l r).
Proof.
  induction f as [|f IH]; intros l r Hr; [intro F; exact F|].
  rewrite bisect_S. destruct (N.ltb_spec (l + 1) r); [|intro F; exact F].
  rewrite rd_in by lia. cbn [bind].
  destruct (N.land t0 m <=? _); apply IH; lia.
Qed.

Lemma bisect_total : forall f l r, r <= n -> r - l <= 2 ^ N.of_nat f ->
  exists i, bisect A t0 m (S f) l r = Done i.
Proof.
  induction f as [|f IH]; intros l r Hr Hw; rewrite bisect_S.
  - change (2 ^ N.of_nat 0) with 1 in Hw. rewrite ltb_false by lia. eauto.
  - destruct (N.ltb_spec (l + 1) r); [|eauto].
    rewrite rd_in by lia. cbn [bind].
    rewrite Nat2N.inj_succ, N.pow_succ_r' in Hw. set (P := 2 ^ N.of_nat f) in *.
    destruct (N.land t0 m <=? _); apply IH; lia.
Qed.

Lemma gs_gallop_inv : forall f idx delta ip v, idx < n ->
  match gs_gallop A t0 m f idx delta ip v with
  | Done (i', _) => i' < n
  | Fault _ _ _ => False
  | OutOfFuel => True
  end.
Proof.
  induction f as [|f IH]; intros idx delta ip v Hi; [exact I|].
  rewrite gs_gallop_S. destruct (v <? N.land t0 m); [|exact Hi].
  rewrite mlen_mem_of_list.
  destruct (N.leb_spec n (idx + delta)).
  - rewrite rd_in by lia. cbn [bind]. lia.
  - rewrite rd_in by lia. cbn [bind]. apply IH. assumption.
Qed.

Lemma gs_gallop_total : forall f idx delta ip v, idx < n -> delta <= idx + 1 -> n < delta * 2 ^ N.of_nat f ->
  exists i' p', gs_gallop A t0 m f idx delta ip v = Done (i', p').
Proof.
  induction f as [|f IH]; intros idx delta ip v Hi Hd Hn.
  - change (2 ^ N.of_nat 0) with 1 in Hn. lia.
  - rewrite gs_gallop_S. destruct (v <? N.land t0 m); [|eauto].
    rewrite mlen_mem_of_list.
    destruct (N.leb_spec n (idx + delta)).
    + rewrite rd_in by lia. cbn [bind]. eauto.
    + rewrite rd_in by lia. cbn [bind]. apply IH; try lia.
      rewrite Nat2N.inj_succ, N.pow_succ_r' in Hn. lia.
Qed.
End SearchAny.

Lemma with_found_nofault a t0 m start core :
  (start < N.of_nat (length a) -> ~ is_fault (core start)) ->
  ~ is_fault (with_found (mem_of_list a) t0 m start core).
Proof.
  intro H. unfold with_found. rewrite mlen_mem_of_list.
  destruct (N.leb_spec (N.of_nat (length a)) start); [intro F; exact F|].
  specialize (H H0). destruct (core start) as [i| |]; cbn [bind]; [|exact H|intro F; exact F].
  destruct (N.ltb_spec i (N.of_nat (length a))); [|intro F; exact F].
  rewrite rd_in by assumption. intro F; exact F.
Qed.

Theorem binary_search_safe : forall a t m start, ~ is_fault (binary_search a t m start).
Proof.
  intros a t m start. unfold binary_search. apply with_found_nofault. intro Hs.
  unfold binary_search_core. rewrite mlen_mem_of_list. rewrite rd_in by exact Hs. cbn [bind].
  destruct (N.land t m <=? _); [intro F; exact F|].
  rewrite rd_in by lia. cbn [bind].
  destruct (_ <? N.land t m); [intro F; exact F|].
  apply bisect_nofault. lia.
Qed.

Theorem galloping_search_safe : forall a t m start, ~ is_fault (galloping_search a t m start).
Proof.
  intros a t m start. unfold galloping_search. apply with_found_nofault. intro Hs.
  unfold galloping_search_core. rewrite rd_in by exact Hs. cbn [bind].
  destruct (N.land t m <=? _); [intro F; exact F|].
  pose proof (gs_gallop_inv a t m 70 start 1 start (N.land (nth (N.to_nat start) a 0) m) Hs) as Hg.
  destruct (gs_gallop _ _ _ _ _ _ _ _) as [[i' p']| |]; cbn [bind]; [|destruct Hg|intro F; exact F].
  apply bisect_nofault. lia.
Qed.

(* with the array shorter than 2^62 the fuel is never exhausted either *)
Lemma with_found_total a t0 m start core :
  (start < N.of_nat (length a) -> exists i, core start = Done i) ->
  exists r, with_found (mem_of_list a) t0 m start core = Done r.
Proof.
  intro H. unfold with_found. rewrite mlen_mem_of_list.
  destruct (N.leb_spec (N.of_nat (length a)) start); [eauto|].
  destruct (H H0) as [i ->]. cbn [bind].
  destruct (N.ltb_spec i (N.of_nat (length a))); [|eauto].
  rewrite rd_in by assumption. cbn [bind]. eauto.
Qed.

Theorem binary_search_total : forall a t m start, N.of_nat (length a) < 2 ^ 62 ->
  exists r, binary_search a t m start = Done r.
Proof.
  intros a t m start Hn. change (2 ^ 62) with 4611686018427387904 in Hn.
  unfold binary_search. apply with_found_total. intro Hs.
  unfold binary_search_core. rewrite mlen_mem_of_list. rewrite rd_in by exact Hs. cbn [bind].
  destruct (N.land t m <=? _); [eauto|].
  rewrite rd_in by lia. cbn [bind].
  destruct (_ <? N.land t m); [eauto|].
  apply bisect_total; [lia|]. change (2 ^ N.of_nat 69) with 590295810358705651712. lia.
Qed.

Theorem galloping_search_total : forall a t m start, N.of_nat (length a) < 2 ^ 62 ->
  exists r, galloping_search a t m start = Done r.
Proof.
  intros a t m start Hn. change (2 ^ 62) with 4611686018427387904 in Hn.
  unfold galloping_search. apply with_found_total. intro Hs.
  unfold galloping_search_core. rewrite rd_in by exact Hs. cbn [bind].
  destruct (N.land t m <=? _); [eauto|].
  pose proof (gs_gallop_inv a t m 70 start 1 start (N.land (nth (N.to_nat start) a 0) m) Hs) as Hg.
  destruct (gs_gallop_total a t m 70 start 1 start (N.land (nth (N.to_nat start) a 0) m)) as [i' [p' E]];
    [exact Hs|lia|change (2 ^ N.of_nat 70) with 1180591620717411303424; lia|].
  rewrite E in Hg |- *. cbn [bind].
  apply bisect_total; [lia|]. change (2 ^ N.of_nat 69) with 590295810358705651712. lia.
Qed.

(* ---- sorted contents: lower bound and presence ---- *)
Definition msorted (a : list N) (m : N) : Prop := Sorted N.le (mvals a m).

Lemma filter_all {A} (f : A -> bool) l : Forall (fun x => f x = true) l -> filter f l = l.
Proof. induction 1 as [|x l Hx Hl IH]; cbn [filter]; [reflexivity|]. rewrite Hx, IH. reflexivity. Qed.
Lemma filter_none {A} (f : A -> bool) l : Forall (fun x => f x = false) l -> filter f l = [].
Proof. induction 1 as [|x l Hx Hl IH]; cbn [filter]; [reflexivity|]. rewrite Hx, IH. reflexivity. Qed.
Lemma existsb_none {A} (f : A -> bool) l : Forall (fun x => f x = false) l -> existsb f l = false.
Proof. induction 1 as [|x l Hx Hl IH]; cbn [existsb]; [reflexivity|]. rewrite Hx, IH. reflexivity. Qed.

Lemma sorted_split t : forall ML, StronglySorted N.le ML ->
  exists lo hi, ML = lo ++ hi /\ Forall (fun v => v < t) lo /\ Forall (fun v => t <= v) hi /\ StronglySorted N.le hi.
Proof.
  induction 1 as [|x l Hs IH Hf].
  - exists [], []. repeat split; constructor.
  - destruct IH as [lo [hi [E [Hlo [Hhi Hsh]]]]]. destruct (N.ltb_spec x t).
    + exists (x :: lo), hi. subst l. repeat split; try assumption. constructor; assumption.
    + exists [], (x :: l). repeat split; [constructor| |constructor; assumption].
      constructor; [assumption|]. eapply Forall_impl; [|exact Hf]. cbn. intros; lia.
Qed.

Section SortedFacts.
Variables (t : N) (lo hi : list N).
Hypothesis Hlo : Forall (fun v => v < t) lo.
Hypothesis Hhi : Forall (fun v => t <= v) hi.
Hypothesis Hsh : StronglySorted N.le hi.

Lemma count_lt_split : count_lt t (lo ++ hi) = N.of_nat (length lo).
Proof.
  unfold count_lt. rewrite filter_app, filter_all, filter_none, app_nil_r; [reflexivity| |].
  - eapply Forall_impl; [|exact Hhi]. cbn. intros v Hv. apply N.ltb_ge. exact Hv.
  - eapply Forall_impl; [|exact Hlo]. cbn. intros v Hv. apply N.ltb_lt. exact Hv.
Qed.

Lemma nth_lt_lb i : (i < length (lo ++ hi))%nat -> (nth i (lo ++ hi) 0 < t <-> (i < length lo)%nat).
Proof.
  intro Hi. rewrite app_length in Hi. destruct (Nat.lt_ge_cases i (length lo)) as [H|H].
  - rewrite app_nth1 by exact H. split; [intro; exact H|intros _].
    rewrite Forall_forall in Hlo. apply Hlo. apply nth_In. exact H.
  - rewrite app_nth2 by exact H. split; [|lia]. intro Hc. exfalso.
    rewrite Forall_forall in Hhi. assert (t <= nth (i - length lo) hi 0); [|lia].
    apply Hhi. apply nth_In. lia.
Qed.

Lemma exists_ge_lb : existsb (fun v => t <=? v) (lo ++ hi) = negb (Nat.eqb (length hi) 0).
Proof.
  rewrite existsb_app, existsb_none.
  - destruct hi as [|h hi']; [reflexivity|]. inversion Hhi; subst. cbn [existsb length Nat.eqb negb orb].
    rewrite (proj2 (N.leb_le t h)) by assumption. reflexivity.
  - eapply Forall_impl; [|exact Hlo]. cbn. intros v Hv. apply N.leb_gt. exact Hv.
Qed.

Lemma present_lb : hi <> [] -> (nth (length lo) (lo ++ hi) 0 =? t) = mem_n t (lo ++ hi).
Proof.
  intro Hne. destruct hi as [|h hi']; [congruence|].
  rewrite app_nth2, Nat.sub_diag by lia. cbn [nth].
  unfold mem_n. rewrite existsb_app, existsb_none.
  - cbn [existsb orb]. inversion Hhi; subst. inversion Hsh; subst.
    destruct (N.eqb_spec h t) as [E|E].
    + subst h. rewrite N.eqb_refl. reflexivity.
    + rewrite eqb_false by congruence. cbn [orb]. symmetry. apply existsb_none.
      eapply Forall_impl; [|eassumption]. cbn. intros v Hv. apply N.eqb_neq. lia.
  - eapply Forall_impl; [|exact Hlo]. cbn. intros v Hv. apply N.eqb_neq. lia.
Qed.
End SortedFacts.

Section SearchSorted.
Variables (a : list N) (t0 m : N) (lb : N).
Local Notation n := (N.of_nat (length a)).
Local Notation A := (mem_of_list a).
Local Notation t := (N.land t0 m).
Local Notation mv i := (N.land (nth (N.to_nat i) a 0) m).
Hypothesis F1 : forall i, i < n -> (mv i < t <-> i < lb).
Hypothesis F2 : lb <= n.

Lemma bisect_partial : forall f l r i, l < lb -> lb <= r -> r <= n ->
  bisect A t0 m f l r = Done i -> i = lb.
Proof.
  induction f as [|f IH]; intros l r i Hl Hr Hn; [discriminate|].
  rewrite bisect_S. destruct (N.ltb_spec (l + 1) r).
  - rewrite rd_in by lia. cbn [bind].
    assert (Hm : (r + l) / 2 < n) by lia. pose proof (F1 _ Hm) as Hf.
    match goal with |- context [?x <=? ?y] => destruct (N.leb_spec x y) end; apply IH; lia.
  - intro E. injection E as <-. lia.
Qed.

Lemma gs_gallop_partial : forall f idx delta ip v i' p', idx < n -> v = mv idx -> v < t \/ ip < lb ->
  gs_gallop A t0 m f idx delta ip v = Done (i', p') -> p' < lb /\ lb <= i' + 1 /\ i' < n.
Proof.
  induction f as [|f IH]; intros idx delta ip v i' p' Hi Hv Hd; [discriminate|].
  rewrite gs_gallop_S, mlen_mem_of_list. pose proof (F1 _ Hi) as Hf. rewrite <- Hv in Hf.
  destruct (N.ltb_spec v t).
  - destruct (N.leb_spec n (idx + delta)).
    + rewrite rd_in by lia. cbn [bind]. intro E. injection E as <- <-. lia.
    + rewrite rd_in by lia. cbn [bind]. apply IH; [lia|reflexivity|right; lia].
  - intro E. injection E as <- <-. lia.
Qed.

Hypothesis Hn : n < 4611686018427387904.
Hypothesis F4 : lb < n -> (mv lb =? t) = mem_n t (mvals a m).

Lemma bisect_lb l r : l < lb -> lb <= r -> r <= n -> bisect A t0 m 70 l r = Done lb.
Proof.
  intros Hl Hr Hrn. destruct (bisect_total a t0 m 69 l r Hrn) as [i E].
  - change (2 ^ N.of_nat 69) with 590295810358705651712. lia.
  - rewrite E. f_equal. eapply bisect_partial; eassumption.
Qed.

Lemma with_found_lb start core : start < n -> core start = Done lb ->
  with_found A t0 m start core = if lb <? n then Done (lb, mem_n t (mvals a m)) else Done (lb, false).
Proof.
  intros Hs E. unfold with_found. rewrite mlen_mem_of_list, (proj2 (N.leb_gt n start)) by exact Hs.
  rewrite E. cbn [bind]. destruct (N.ltb_spec lb n) as [H|H]; [|reflexivity].
  rewrite rd_in by exact H. cbn [bind]. rewrite F4 by exact H. reflexivity.
Qed.

Lemma binary_search_lb start : start <= lb ->
  (lb < n -> binary_search a t0 m start = Done (lb, mem_n t (mvals a m))) /\
  (lb = n -> exists i, binary_search a t0 m start = Done (i, false)).
Proof.
  intro Hs. split.
  - intro Hlb. unfold binary_search. assert (Hsn : start < n) by lia.
    rewrite (with_found_lb start); [rewrite ltb_true by assumption; reflexivity|exact Hsn|].
    unfold binary_search_core. rewrite mlen_mem_of_list, rd_in by exact Hsn. cbn [bind].
    pose proof (F1 _ Hsn) as Hf.
    match goal with |- context [?x <=? ?y] => destruct (N.leb_spec x y) end; [f_equal; lia|].
    rewrite rd_in by lia. cbn [bind]. assert (Hl : n - 1 < n) by lia. pose proof (F1 _ Hl) as Hf2.
    match goal with |- context [?x <? ?y] => destruct (N.ltb_spec x y) end; [lia|].
    apply bisect_lb; lia.
  - intro Hlb. unfold binary_search, with_found. rewrite mlen_mem_of_list.
    destruct (N.leb_spec n start) as [Hsn|Hsn]; [eauto|].
    unfold binary_search_core. rewrite mlen_mem_of_list, rd_in by exact Hsn. cbn [bind].
    pose proof (F1 _ Hsn) as Hf.
    match goal with |- context [?x <=? ?y] => destruct (N.leb_spec x y) end; [lia|].
    rewrite rd_in by lia. cbn [bind]. assert (Hl : n - 1 < n) by lia. pose proof (F1 _ Hl) as Hf2.
    match goal with |- context [?x <? ?y] => destruct (N.ltb_spec x y) end; [|lia].
    cbn [bind]. rewrite (ltb_true (n - 1) n) by lia. rewrite rd_in by lia. cbn [bind].
    exists (n - 1). rewrite eqb_false by lia. reflexivity.
Qed.

Lemma galloping_core_lb start : start < n -> start <= lb -> galloping_search_core A t0 m start = Done lb.
Proof.
  intros Hsn Hs. unfold galloping_search_core. rewrite rd_in by exact Hsn. cbn [bind].
  pose proof (F1 _ Hsn) as Hf.
  match goal with |- context [?x <=? ?y] => destruct (N.leb_spec x y) end; [f_equal; lia|].
  destruct (gs_gallop_total a t0 m 70 start 1 start (mv start)) as [i' [p' E]];
    [exact Hsn|lia|change (2 ^ N.of_nat 70) with 1180591620717411303424; lia|].
  rewrite E. cbn [bind].
  apply gs_gallop_partial in E; [|exact Hsn|reflexivity|left; lia].
  apply bisect_lb; lia.
Qed.

Lemma galloping_search_lb start : start <= lb ->
  (lb < n -> galloping_search a t0 m start = Done (lb, mem_n t (mvals a m))) /\
  (lb = n -> exists i, galloping_search a t0 m start = Done (i, false)).
Proof.
  intro Hs. split.
  - intro Hlb. unfold galloping_search. assert (Hsn : start < n) by lia.
    rewrite (with_found_lb start); [rewrite ltb_true by assumption; reflexivity|exact Hsn|].
    apply galloping_core_lb; assumption.
  - intro Hlb. unfold galloping_search.
    destruct (N.leb_spec n start) as [Hsn|Hsn].
    + unfold with_found. rewrite mlen_mem_of_list, (proj2 (N.leb_le n start)) by exact Hsn. eauto.
    + rewrite (with_found_lb start); [rewrite ltb_false by lia; eauto|exact Hsn|].
      apply galloping_core_lb; assumption.
Qed.
End SearchSorted.

Lemma mvals_nth a m i : nth i (mvals a m) 0 = N.land (nth i a 0) m.
Proof. unfold mvals. exact (map_nth (fun x => N.land x m) a 0 i). Qed.

Lemma lb_facts a t0 m : msorted a m ->
  (forall i, i < N.of_nat (length a) ->
     (N.land (nth (N.to_nat i) a 0) m < N.land t0 m <-> i < count_lt (N.land t0 m) (mvals a m))) /\
  count_lt (N.land t0 m) (mvals a m) <= N.of_nat (length a) /\
  (count_lt (N.land t0 m) (mvals a m) < N.of_nat (length a) ->
     (N.land (nth (N.to_nat (count_lt (N.land t0 m) (mvals a m))) a 0) m =? N.land t0 m)
     = mem_n (N.land t0 m) (mvals a m)) /\
  existsb (fun v => N.land t0 m <=? v) (mvals a m) = (count_lt (N.land t0 m) (mvals a m) <? N.of_nat (length a)).
Proof.
  intro Hs. apply Sorted_StronglySorted in Hs; [|intros x y z; lia].
  destruct (sorted_split (N.land t0 m) _ Hs) as [lo [hi [E [Hlo [Hhi Hsh]]]]].
  assert (El : length a = (length lo + length hi)%nat).
  { rewrite <- app_length, <- E. unfold mvals. rewrite map_length. reflexivity. }
  assert (Elb : count_lt (N.land t0 m) (mvals a m) = N.of_nat (length lo))
    by (rewrite E; apply count_lt_split; assumption).
  rewrite Elb. repeat split.
  - rewrite <- mvals_nth, E. intro H1. apply nth_lt_lb in H1; try assumption; [lia|].
    rewrite app_length. lia.
  - rewrite <- mvals_nth, E. intro H1. apply nth_lt_lb; try assumption; [|lia].
    rewrite app_length. lia.
  - lia.
  - intro H. rewrite <- mvals_nth, Nat2N.id. rewrite E. apply present_lb; try assumption.
    intro Hnil. subst hi. cbn [length] in El. lia.
  - rewrite E, exists_ge_lb by assumption.
    destruct hi as [|h hi']; cbn [length Nat.eqb negb] in *; symmetry; [apply ltb_false|apply ltb_true]; lia.
Qed.

Theorem binary_search_correct : forall a t m start,
  msorted a m -> N.of_nat (length a) < 2 ^ 62 -> start <= count_lt (N.land t m) (mvals a m) ->
  match search_spec a t m start with
  | (Some lb, present) => binary_search a t m start = Done (lb, present)
  | (None, _) => exists i, binary_search a t m start = Done (i, false)
  end.
Proof.
  intros a t m start Hs Hn Hst. change (2 ^ 62) with 4611686018427387904 in Hn.
  destruct (lb_facts a t m Hs) as [F1 [F2 [F4 F3]]].
  destruct (binary_search_lb a t m _ F1 F2 Hn F4 start Hst) as [B1 B2].
  unfold search_spec. cbv zeta. rewrite F3.
  destruct (N.ltb_spec (count_lt (N.land t m) (mvals a m)) (N.of_nat (length a))) as [H|H].
  - rewrite N.max_r by exact Hst. apply B1. exact H.
  - apply B2. lia.
Qed.

Theorem galloping_search_correct : forall a t m start,
  msorted a m -> N.of_nat (length a) < 2 ^ 62 -> start <= count_lt (N.land t m) (mvals a m) ->
  match search_spec a t m start with
  | (Some lb, present) => galloping_search a t m start = Done (lb, present)
  | (None, _) => exists i, galloping_search a t m start = Done (i, false)
  end.
Proof.
  intros a t m start Hs Hn Hst. change (2 ^ 62) with 4611686018427387904 in Hn.
  destruct (lb_facts a t m Hs) as [F1 [F2 [F4 F3]]].
  destruct (galloping_search_lb a t m _ F1 F2 Hn F4 start Hst) as [B1 B2].
  unfold search_spec. cbv zeta. rewrite F3.
  destruct (N.ltb_spec (count_lt (N.land t m) (mvals a m)) (N.of_nat (length a))) as [H|H].
  - rewrite N.max_r by exact Hst. apply B1. exact H.
  - apply B2. lia.
Qed.

(* the statement of the brief: start = 0, both searches *)
Theorem search_correct : forall a t m, a <> [] -> msorted a m -> N.of_nat (length a) < 2 ^ 62 ->
  match search_spec a t m 0 with
  | (Some lb, present) => binary_search a t m 0 = Done (lb, present) /\ galloping_search a t m 0 = Done (lb, present)
  | (None, _) => (exists i, binary_search a t m 0 = Done (i, false)) /\ (exists i, galloping_search a t m 0 = Done (i, false))
  end.
Proof.
  intros a t m _ Hs Hn.
  pose proof (binary_search_correct a t m 0 Hs Hn (N.le_0_l _)) as B.
  pose proof (galloping_search_correct a t m 0 Hs Hn (N.le_0_l _)) as G.
  destruct (search_spec a t m 0) as [[lb|] present]; split; assumption.
Qed.

(* start beyond the lower bound: the model answers for position [start], the specification for the whole array *)
Example search_start_past_lb :
  binary_search [1;2;3] 1 wmask 2 = Done (2, false) /\ galloping_search [1;2;3] 1 wmask 2 = Done (2, false) /\
  search_spec [1;2;3] 1 wmask 2 = (Some 2, true).
Proof. vm_compute. repeat split. Qed.
(* target above every element: never present; binary_search stops at the last index, galloping_search at len *)
Example search_above_all :
  binary_search [13;31] 32 wmask 0 = Done (1, false) /\ galloping_search [13;31] 32 wmask 0 = Done (2, false) /\
  search_spec [13;31] 32 wmask 0 = (None, false).
Proof. vm_compute. repeat split. Qed.

(* ------------------------------------------------------------------ *)
(* axiom audit: every line below must print "Closed under the global context" *)
(* ------------------------------------------------------------------ *)
Print Assumptions merge_safe.
Print Assumptions merge_drop_safe.
Print Assumptions sort_merge_counts_safe.
Print Assumptions unique_safe.
Print Assumptions unique_empty_shifted_faults.
Print Assumptions reduce_at_safe.
Print Assumptions popcount64_reduce_safe.
Print Assumptions as_dense_safe.
Print Assumptions binary_search_safe.
Print Assumptions galloping_search_safe.
Print Assumptions binary_search_total.
Print Assumptions galloping_search_total.
Print Assumptions merge_correct.
Print Assumptions merge_drop_correct.
Print Assumptions sort_merge_counts_correct.
Print Assumptions unique_correct.
Print Assumptions popcount_reduce_at_correct.
Print Assumptions key_sum_over_correct.
Print Assumptions reduce_at_length_mismatch.
Print Assumptions popcount64_reduce_correct.
Print Assumptions as_dense_correct.
Print Assumptions binary_search_correct.
Print Assumptions galloping_search_correct.
Print Assumptions search_correct.
