(* Line-level models of searcharray/roaringish/intersect.pyx.
   Pointers are logical element indices (every pointer update in the source is a multiple of the
   stride, so a strided view behaves like the contiguous array of its elements — the harness runs
   the real kernels on strided views to check exactly that).  Every ptr[0] is a checked read, every
   result store a checked write against the capacity the Python wrapper allocates.
   Buffers: 0 = lhs, 1 = rhs, 2 = lhs_out, 3 = rhs_out, 4 = adj_lhs_out, 5 = adj_rhs_out.
   No proofs here. *)
From SA Require Import Base.Prelude.
Open Scope N_scope.

Definition GFUEL : nat := 66.   (* a gallop doubles at most 64 times before passing any 64-bit length *)

Section K.
Variables (L R : mem) (mask : N).
Let nl := mlen L.
Let nr := mlen R.

(* while lhs_ptr < end_lhs_ptr and (lhs_ptr[0] & mask) < (rhs_ptr[0] & mask): lhs_ptr += gallop; gallop *= 2 *)
Fixpoint gallop_l (fuel : nat) (i j g : N) : result (N * N) :=
  match fuel with
  | O => OutOfFuel
  | S f =>
      if i <? nl then
        do x <- rd 0 L i; do y <- rd 1 R j;
        if N.land x mask <? N.land y mask then gallop_l f (i + g) j (g * 2) else Done (i, g)
      else Done (i, g)
  end.

(* while rhs_ptr < end_rhs_ptr and (rhs_ptr[0] & mask) < (lhs_ptr[0] & mask): rhs_ptr += gallop; gallop *= 2 *)
Fixpoint gallop_r (fuel : nat) (i j g : N) : result (N * N) :=
  match fuel with
  | O => OutOfFuel
  | S f =>
      if j <? nr then
        do y <- rd 1 R j; do x <- rd 0 L i;
        if N.land y mask <? N.land x mask then gallop_r f i (j + g) (g * 2) else Done (j, g)
      else Done (j, g)
  end.

(* `not has_last or (last & mask) != (lhs_ptr[0] & mask)`: last is None until the first collect *)
Definition fresh (last : option N) (mx : N) : bool :=
  match last with None => true | Some v => negb (N.land v mask =? mx) end.

(* ---------------- _gallop_intersect_drop (lines 32-74) ---------------- *)
(* state: i j last, reversed outputs, count of stores; cap = capacity of both output buffers *)
Fixpoint drop_loop (cap : N) (fuel : nat) (i j : N) (last : option N) (lo ro : list N) (no : N)
  : result (list N * list N) :=
  match fuel with
  | O => OutOfFuel
  | S f =>
      if andb (i <? nl) (j <? nr) then
        do ig <- gallop_l GFUEL i j 1;
        let i2 := fst ig - snd ig / 2 in
        do jg <- gallop_r GFUEL i2 j 1;
        let j2 := fst jg - snd jg / 2 in
        do x <- rd 0 L i2; do y <- rd 1 R j2;
        let mx := N.land x mask in let my := N.land y mask in
        if mx <? my then drop_loop cap f (i2 + 1) j2 last lo ro no
        else if my <? mx then drop_loop cap f i2 (j2 + 1) last lo ro no
        else
          if fresh last mx then
            do _ <- wr_ok 2 cap no; do _ <- wr_ok 3 cap no;
            drop_loop cap f (i2 + 1) (j2 + 1) (Some x) (i2 :: lo) (j2 :: ro) (no + 1)
          else drop_loop cap f (i2 + 1) (j2 + 1) last lo ro no
      else Done (rev lo, rev ro)
  end.

(* ---------------- _gallop_intersect_keep (lines 77-128) ---------------- *)
(* while lhs_ptr < end_lhs_ptr and (lhs_ptr[0] & mask) == target: store index; advance *)
Fixpoint keep_run_l (cap : N) (fuel : nat) (target i : N) (lo : list N) (nlo : N) : result (N * list N * N) :=
  match fuel with
  | O => OutOfFuel
  | S f =>
      if i <? nl then
        do x <- rd 0 L i;
        if N.land x mask =? target then
          do _ <- wr_ok 2 cap nlo; keep_run_l cap f target (i + 1) (i :: lo) (nlo + 1)
        else Done (i, lo, nlo)
      else Done (i, lo, nlo)
  end.
Fixpoint keep_run_r (cap : N) (fuel : nat) (target j : N) (ro : list N) (nro : N) : result (N * list N * N) :=
  match fuel with
  | O => OutOfFuel
  | S f =>
      if j <? nr then
        do y <- rd 1 R j;
        if N.land y mask =? target then
          do _ <- wr_ok 3 cap nro; keep_run_r cap f target (j + 1) (j :: ro) (nro + 1)
        else Done (j, ro, nro)
      else Done (j, ro, nro)
  end.

Fixpoint keep_loop (cap : N) (runfuel : nat) (fuel : nat) (i j : N) (lo ro : list N) (nlo nro : N)
  : result (list N * list N) :=
  match fuel with
  | O => OutOfFuel
  | S f =>
      if andb (i <? nl) (j <? nr) then
        do ig <- gallop_l GFUEL i j 1;
        let i2 := fst ig - snd ig / 2 in
        do jg <- gallop_r GFUEL i2 j 1;
        let j2 := fst jg - snd jg / 2 in
        do x <- rd 0 L i2; do y <- rd 1 R j2;
        let mx := N.land x mask in let my := N.land y mask in
        if mx <? my then keep_loop cap runfuel f (i2 + 1) j2 lo ro nlo nro
        else if my <? mx then keep_loop cap runfuel f i2 (j2 + 1) lo ro nlo nro
        else
          do a <- keep_run_l cap runfuel mx i2 lo nlo;
          let '(i3, lo3, nlo3) := a in
          do b <- keep_run_r cap runfuel mx j2 ro nro;
          let '(j3, ro3, nro3) := b in
          keep_loop cap runfuel f i3 j3 lo3 ro3 nlo3 nro3
      else Done (rev lo, rev ro)
  end.

(* ---------------- _gallop_adjacent (lines 131-193); contiguous inputs only ---------------- *)
Section Adj.
Variable delta : N.
Definition rsub (y : N) : N := wsub (N.land y mask) delta.     (* (rhs_ptr[0] & mask) - delta, wrapping *)

(* while rhs_ptr < end_rhs_ptr and rhs_ptr[0] & mask == 0: rhs_ptr += 1 *)
Fixpoint adj_skip (fuel : nat) (j : N) : result N :=
  match fuel with
  | O => OutOfFuel
  | S f => if j <? nr then do y <- rd 1 R j; if N.land y mask =? 0 then adj_skip f (j + 1) else Done j else Done j
  end.
Fixpoint adj_gallop_l (fuel : nat) (i j g : N) : result (N * N) :=
  match fuel with
  | O => OutOfFuel
  | S f =>
      if i <? nl then
        do x <- rd 0 L i; do y <- rd 1 R j;
        if N.land x mask <? rsub y then adj_gallop_l f (i + g) j (g * 2) else Done (i, g)
      else Done (i, g)
  end.
Fixpoint adj_gallop_r (fuel : nat) (i j g : N) : result (N * N) :=
  match fuel with
  | O => OutOfFuel
  | S f =>
      if j <? nr then
        do y <- rd 1 R j; do x <- rd 0 L i;
        if rsub y <? N.land x mask then adj_gallop_r f i (j + g) (g * 2) else Done (j, g)
      else Done (j, g)
  end.
Fixpoint adj_loop (cap : N) (fuel : nat) (i j : N) (last : option N) (lo ro : list N) (no : N) : result (list N * list N) :=
  match fuel with
  | O => OutOfFuel
  | S f =>
      if andb (i <? nl) (j <? nr) then
        do ig <- adj_gallop_l GFUEL i j 1;
        let i2 := fst ig - snd ig / 2 in
        do jg <- adj_gallop_r GFUEL i2 j 1;
        let j2 := fst jg - snd jg / 2 in
        do x <- rd 0 L i2; do y <- rd 1 R j2;
        let mx := N.land x mask in let ry := rsub y in
        if mx <? ry then adj_loop cap f (i2 + 1) j2 last lo ro no
        else if ry <? mx then adj_loop cap f i2 (j2 + 1) last lo ro no
        else
          if fresh last mx then
            do _ <- wr_ok 2 cap no; do _ <- wr_ok 3 cap no;
            adj_loop cap f (i2 + 1) (j2 + 1) (Some x) (i2 :: lo) (j2 :: ro) (no + 1)
          else adj_loop cap f (i2 + 1) (j2 + 1) last lo ro no
      else Done (rev lo, rev ro)
  end.

(* ---------------- _gallop_int_and_adj_drop (lines 213-275) ---------------- *)
Definition ladd (x : N) : N := wadd (N.land x mask) delta.     (* (lhs_ptr[0] & mask) + delta, wrapping *)
Fixpoint ia_gallop_l (fuel : nat) (i j g : N) : result (N * N) :=
  match fuel with
  | O => OutOfFuel
  | S f =>
      if i <? nl then
        do x <- rd 0 L i; do y <- rd 1 R j;
        if ladd x <? N.land y mask then ia_gallop_l f (i + g) j (g * 2) else Done (i, g)
      else Done (i, g)
  end.
Fixpoint ia_gallop_r (fuel : nat) (i j g : N) : result (N * N) :=
  match fuel with
  | O => OutOfFuel
  | S f =>
      if j <? nr then
        do y <- rd 1 R j; do x <- rd 0 L i;
        if N.land y mask <? ladd x then ia_gallop_r f i (j + g) (g * 2) else Done (j, g)
      else Done (j, g)
  end.

Record ia_out := { ia_lo : list N; ia_ro : list N; ia_alo : list N; ia_aro : list N }.

Fixpoint ia_loop (cap : N) (fuel : nat) (i j : N) (last last_adj : option N)
  (lo ro alo aro : list N) (no nao : N) : result ia_out :=
  match fuel with
  | O => OutOfFuel
  | S f =>
      if andb (i <? nl) (j <? nr) then
        do x0 <- rd 0 L i; do y0 <- rd 1 R j;
        do ij <- (if negb (N.land x0 mask =? N.land y0 mask) then
                    do ig <- ia_gallop_l GFUEL i j 1;
                    let i2 := fst ig - snd ig / 2 in
                    do jg <- ia_gallop_r GFUEL i2 j 1;
                    Done (i2, fst jg - snd jg / 2)
                  else Done (i, j));
        let '(i2, j2) := ij in
        do x <- rd 0 L i2; do y <- rd 1 R j2;
        let mx := N.land x mask in let my := N.land y mask in
        if ladd x =? my then
          if fresh last_adj mx then
            do _ <- wr_ok 4 cap nao; do _ <- wr_ok 5 cap nao;
            ia_loop cap f (i2 + 1) j2 last (Some x) lo ro (i2 :: alo) (j2 :: aro) no (nao + 1)
          else ia_loop cap f (i2 + 1) j2 last last_adj lo ro alo aro no nao
        else if mx <? my then ia_loop cap f (i2 + 1) j2 last last_adj lo ro alo aro no nao
        else if my <? mx then ia_loop cap f i2 (j2 + 1) last last_adj lo ro alo aro no nao
        else
          if fresh last mx then
            do _ <- wr_ok 2 cap no; do _ <- wr_ok 3 cap no;
            ia_loop cap f i2 (j2 + 1) (Some x) last_adj (i2 :: lo) (j2 :: ro) alo aro (no + 1) nao
          else ia_loop cap f i2 (j2 + 1) last last_adj lo ro alo aro no nao
      else Done {| ia_lo := rev lo; ia_ro := rev ro; ia_alo := rev alo; ia_aro := rev aro |}
  end.
End Adj.
End K.

(* ---------------- Python wrappers (lines 278-390): buffer sizes and fuel ---------------- *)
Definition lowbit (m : N) : N := N.land m (wneg m).       (* mask & -mask *)

Definition outer_fuel (l r : list N) : nat := (length l + length r + 2)%nat.

Definition intersect_drop (l r : list N) (mask : N) : result (list N * list N) :=
  let cap := N.min (N.of_nat (length l)) (N.of_nat (length r)) in
  drop_loop (mem_of_list l) (mem_of_list r) mask cap (outer_fuel l r) 0 0 None [] [] 0.

Definition intersect_keep (l r : list N) (mask : N) : result (list N * list N) :=
  let cap := N.max (N.of_nat (length l)) (N.of_nat (length r)) in
  keep_loop (mem_of_list l) (mem_of_list r) mask cap (outer_fuel l r) (outer_fuel l r) 0 0 [] [] 0 0.

Definition adjacent (l r : list N) (mask : N) : result (list N * list N) :=
  let cap := N.min (N.of_nat (length l)) (N.of_nat (length r)) in
  let ml := mem_of_list l in let mr := mem_of_list r in
  let delta := lowbit mask in
  do j0 <- adj_skip mr mask (outer_fuel l r) 0;
  adj_loop ml mr mask delta cap (outer_fuel l r) 0 j0 None [] [] 0.

Definition intersect_with_adjacents (l r : list N) (mask : N) : result ia_out :=
  let cap := N.min (N.of_nat (length l)) (N.of_nat (length r)) in
  ia_loop (mem_of_list l) (mem_of_list r) mask (lowbit mask) cap (outer_fuel l r) 0 0 None None [] [] [] [] 0 0.
