(* C12 for the adjacency kernels: on masked-sorted inputs shorter than 2^62, under a non-zero 64-bit mask,
   the line-level model `adjacent` returns exactly `adjacent_spec`, and the fused kernel
   `intersect_with_adjacents` returns the intersection (left indices exactly as `intersect_drop_spec`,
   right indices = some occurrence of the common value) together with exactly `adjacent_spec`,
   provided no masked lhs value plus one unit overflows 64 bits.
   Structure: partial correctness by the two-pointer invariant (as in Intersect_Correct.v), termination
   and absence of faults from Intersect_Safe.v. *)
From SA Require Import Base.Prelude Kernels.Intersect Kernels.Spec Kernels.Intersect_Correct.
From SA Require Kernels.Intersect_Safe.
From Coq Require Import Sorted.
Open Scope N_scope.

(* ------------------------------------------------------------------ *)
(* the pair list of the specs, generic in the rhs target  tf v         *)
(* ------------------------------------------------------------------ *)
Definition genf (tf : N -> N) (ML MR : list N) (iv : N * N) : list (N * N) :=
  let '(a, v) := iv in
  if is_first v a ML
  then match first_index (tf v) MR with Some b => [(a, b)] | None => [] end
  else [].

Lemma genf_in tf ML MR a0 v a b :
  In (a, b) (genf tf ML MR (a0, v)) <->
  a = a0 /\ first_index v ML = Some a0 /\ first_index (tf v) MR = Some b.
Proof.
  unfold genf, is_first.
  destruct (first_index v ML) as [a'|] eqn:F1.
  - destruct (a' =? a0) eqn:E.
    + apply N.eqb_eq in E. subst a'. destruct (first_index (tf v) MR) as [b'|] eqn:F2; cbn [In].
      * split.
        -- intros [H|[]]. inversion H; subst. auto.
        -- intros (H1 & _ & H3). inversion H3; subst. now left.
      * split; [tauto|]. intros (_ & _ & H). discriminate.
    + apply N.eqb_neq in E. cbn [In]. split; [tauto|]. intros (_ & H & _). congruence.
  - cbn [In]. split; [tauto|]. intros (_ & H & _). discriminate.
Qed.

Lemma gen_lb tf ML MR : forall t k p, In p (flat_map (genf tf ML MR) (enum_from k t)) -> k <= fst p.
Proof.
  intros t k [a b] H. apply in_flat_map in H as ([a0 v] & Hin & Hp).
  apply in_enum_from in Hin as [Hk _]. apply genf_in in Hp as [-> _]. exact Hk.
Qed.

Lemma gen_sorted tf ML MR : forall t k, StronglySorted asc (flat_map (genf tf ML MR) (enum_from k t)).
Proof.
  induction t as [|x t IH]; intros k; cbn [enum_from flat_map]; [constructor|].
  assert (T : StronglySorted asc (flat_map (genf tf ML MR) (enum_from (N.succ k) t))) by apply IH.
  assert (C : forall b, StronglySorted asc ((k, b) :: flat_map (genf tf ML MR) (enum_from (N.succ k) t))).
  { intro b. constructor; [exact T|]. apply Forall_forall. intros p Hp. apply gen_lb in Hp.
    unfold asc. cbn [fst]. lia. }
  unfold genf at 1. destruct (is_first x k ML); [|exact T].
  destruct (first_index (tf x) MR); [|exact T]. apply C.
Qed.

Lemma ssorted_map_fst : forall q : list (N * N), StronglySorted asc q -> StronglySorted N.lt (map fst q).
Proof.
  induction q as [|p q IH]; intro H; cbn [map]; [constructor|].
  inversion H as [|? ? Hs Hf]; subst. constructor; [apply IH; exact Hs|].
  apply Forall_forall. intros a Ha. apply in_map_iff in Ha as (p' & <- & Hin).
  rewrite Forall_forall in Hf. apply (Hf p' Hin).
Qed.

Lemma first_index_ex : forall M v, In v M -> exists b, first_index v M = Some b.
Proof.
  induction M as [|x t IH]; intros v Hin; [destruct Hin|]. cbn [first_index].
  destruct (x =? v) eqn:E; [eauto|].
  destruct Hin as [Hx|Hin]; [subst x; rewrite N.eqb_refl in E; discriminate|].
  destruct (IH v Hin) as [b ->]. cbn [option_map]. eauto.
Qed.

(* x < y, both multiples of d: at least one unit apart *)
Lemma mult_gap d x y : x mod d = 0 -> y mod d = 0 -> x < y -> x + d <= y.
Proof.
  intros Hx Hy Hlt.
  destruct (N.eq_dec d 0) as [->|Hd]; [lia|].
  apply N.mod_divides in Hx as [c1 ->]; [|exact Hd]. apply N.mod_divides in Hy as [c2 ->]; [|exact Hd].
  assert (c1 < c2) by (apply (N.mul_lt_mono_pos_l d); lia).
  replace (d * c1 + d) with (d * (c1 + 1)) by lia. apply N.mul_le_mono_l. lia.
Qed.


(* ------------------------------------------------------------------ *)
(* lowbit m = m & -m is the lowest set bit: a power of two dividing    *)
(* every value masked by m (no contiguity of the mask needed)          *)
(* ------------------------------------------------------------------ *)
Lemma odd_decomp : forall p : positive, exists k q, Npos p = 2 ^ k * (2 * q + 1).
Proof.
  induction p as [p IH|p IH|].
  - exists 0, (Npos p). rewrite N.pow_0_r. lia.
  - destruct IH as (k & q & E). exists (N.succ k), q. rewrite N.pow_succ_r'.
    replace (N.pos p~0) with (2 * N.pos p) by lia. rewrite E. lia.
  - exists 0, 0. reflexivity.
Qed.

Lemma land_odd_odd q p : N.land (2 * q + 1) (2 * p + 1) = 2 * N.land q p + 1.
Proof.
  apply N.bits_inj. intro n. rewrite N.land_spec.
  destruct (N.eq_dec n 0) as [->|Hn].
  - rewrite !N.testbit_odd_0. reflexivity.
  - replace n with (N.succ (N.pred n)) by lia. rewrite !N.testbit_odd_succ by lia.
    rewrite N.land_spec. reflexivity.
Qed.

Lemma land_compl q n : q < 2 ^ n -> N.land q (N.ones n - q) = 0.
Proof.
  intro Hq. destruct (N.eq_dec q 0) as [->|Hq0]; [apply N.land_0_l|].
  assert (Hl : N.ldiff q (N.ones n) = 0).
  { apply N.ldiff_ones_r_low. apply N.log2_lt_pow2; lia. }
  rewrite (N.sub_nocarry_ldiff _ _ Hl).
  apply N.bits_inj. intro i. rewrite N.land_spec, N.ldiff_spec, N.bits_0.
  destruct (N.testbit q i); [|reflexivity]. cbn. apply andb_false_r.
Qed.

Lemma lowbit_pow2 mask : mask <> 0 -> mask < W64 -> exists k, lowbit mask = 2 ^ k /\ mask mod 2 ^ k = 0.
Proof.
  intros H0 Hlt. destruct mask as [|p]; [contradiction|].
  destruct (odd_decomp p) as (k & q & E). exists k. rewrite E in *. clear E p H0.
  assert (P0 : 2 ^ k <> 0) by (apply N.pow_nonzero; discriminate).
  split; [|rewrite N.mul_comm; apply N.mod_mul; exact P0].
  change W64 with (2 ^ 64) in *.
  assert (Hk : k < 64).
  { destruct (N.lt_ge_cases k 64) as [|G]; [assumption|].
    assert (2 ^ 64 <= 2 ^ k) by (apply N.pow_le_mono_r; [discriminate|exact G]). nia. }
  set (n := 63 - k).
  assert (E64 : 2 ^ 64 = 2 ^ k * (2 * 2 ^ n)).
  { rewrite <- N.pow_succ_r', <- N.pow_add_r. f_equal. unfold n. lia. }
  assert (Hq : q < 2 ^ n).
  { rewrite E64 in Hlt. apply N.mul_lt_mono_pos_l in Hlt; lia. }
  unfold lowbit, wneg. change W64 with (2 ^ 64).
  rewrite (N.mod_small _ _ Hlt).
  assert (Ew : (2 ^ 64 - 2 ^ k * (2 * q + 1)) mod 2 ^ 64 = 2 ^ k * (2 * (N.ones n - q) + 1)).
  { rewrite N.mod_small by lia. rewrite E64. rewrite N.ones_equiv.
    replace (2 * (N.pred (2 ^ n) - q) + 1) with (2 * 2 ^ n - (2 * q + 1)) by lia.
    rewrite N.mul_sub_distr_l. reflexivity. }
  rewrite Ew.
  rewrite !(N.mul_comm (2 ^ k)), <- !N.shiftl_mul_pow2, <- N.shiftl_land, land_odd_odd, land_compl by exact Hq.
  rewrite N.shiftl_mul_pow2. lia.
Qed.

Lemma lowbit_facts mask : mask <> 0 -> mask < W64 ->
  0 < lowbit mask /\ forall x, N.land x mask mod lowbit mask = 0.
Proof.
  intros H0 Hlt. destruct (lowbit_pow2 mask H0 Hlt) as (k & -> & Hm).
  assert (P0 : 2 ^ k <> 0) by (apply N.pow_nonzero; discriminate).
  split; [lia|]. intro x.
  rewrite <- N.land_ones, <- N.land_assoc, N.land_ones, Hm. apply N.land_0_r.
Qed.

(* ------------------------------------------------------------------ *)
Section A.
Variables (l r : list N) (mask delta : N).
Let L := mem_of_list l.
Let R := mem_of_list r.
Let nl := N.of_nat (length l).
Let nr := N.of_nat (length r).
Local Notation xl := (ml l mask).
Local Notation xr := (mr r mask).
Definition el (a : N) := nth (N.to_nat a) l 0.
Definition er (b : N) := nth (N.to_nat b) r 0.

Hypothesis HsL0 : msorted l mask.
Hypothesis HsR0 : msorted r mask.
Hypothesis Hd : 0 < delta.
Hypothesis Hmul : forall x, N.land x mask mod delta = 0.
Hypothesis Hw : forall x, N.land x mask < W64.

Lemma sL : forall a b, a <= b -> b < nl -> xl a <= xl b.
Proof. intros a b H1 H2. unfold ml. apply HsL0; unfold nl in H2; lia. Qed.
Lemma sR : forall a b, a <= b -> b < nr -> xr a <= xr b.
Proof. intros a b H1 H2. unfold mr. apply HsR0; unfold nr in H2; lia. Qed.

Lemma rdL' i : i < nl -> rd 0 L i = Done (el i).
Proof. intro H. unfold L. rewrite rd_mem_of_list. apply lrd_ok. exact H. Qed.
Lemma rdR' j : j < nr -> rd 1 R j = Done (er j).
Proof. intro H. unfold R. rewrite rd_mem_of_list. apply lrd_ok. exact H. Qed.

Lemma gapL a b : xl a < xr b -> xl a + delta <= xr b.
Proof. apply mult_gap; apply Hmul. Qed.
Lemma gapR a b : xr b < xl a + delta -> xr b <= xl a.
Proof. intro H. destruct (N.le_gt_cases (xr b) (xl a)) as [|G]; [assumption|]. apply gapL in G. lia. Qed.
Lemma unit_le b : xr b <> 0 -> delta <= xr b.
Proof.
  intro H. assert (G : 0 + delta <= xr b); [|lia].
  apply mult_gap; [apply N.mod_0_l; lia | apply Hmul | lia].
Qed.

(* ---------------- the spec lists ---------------- *)
Definition gpair_ok (tf : N -> N) (a b : N) : Prop :=
  a < nl /\ b < nr /\ tf (xl a) = xr b /\
  (forall a', a' < a -> xl a' <> xl a) /\ (forall b', b' < b -> xr b' <> xr b).
Definition GPost (tf : N -> N) (po : list (N * N)) : Prop :=
  (forall a b, In (a, b) po -> gpair_ok tf a b) /\
  (forall a b, a < nl -> b < nr -> tf (xl a) = xr b -> collected l mask po (xl a)) /\
  StronglySorted desc po.

Lemma gen_spec_pairs tf po : GPost tf po ->
  rev po = flat_map (genf tf (mvals l mask) (mvals r mask)) (enum (mvals l mask)).
Proof.
  intros (P1 & P2 & P3).
  apply (ssorted_unique asc).
  - intros x. unfold asc. lia.
  - intros x y. unfold asc. lia.
  - apply ssorted_rev. exact P3.
  - apply gen_sorted.
  - intros [a b]. rewrite <- in_rev. split.
    + intro Hin. destruct (P1 a b Hin) as (Ha & Hb & E & Fa & Fb).
      apply in_flat_map. exists (a, xl a). split.
      * apply in_enum. rewrite length_mvals, nth_mvals. split; [exact Ha|reflexivity].
      * apply genf_in. split; [reflexivity|]. split.
        -- apply fi_L. auto.
        -- apply fi_R. split; [exact Hb|]. split; [now symmetry|]. rewrite E. exact Fb.
    + intro Hin. apply in_flat_map in Hin as ([a0 v] & Hin & Hp).
      apply genf_in in Hp as (-> & F1 & F2).
      apply fi_L in F1 as (Ha & Ea & Fa). apply fi_R in F2 as (Hb & Eb & Fb).
      destruct (P2 a0 b Ha Hb ltac:(congruence)) as (a' & b' & Hin' & E').
      destruct (P1 a' b' Hin') as (Ha' & Hb' & E'' & Fa' & Fb').
      assert (a' = a0).
      { destruct (N.lt_trichotomy a' a0) as [Hlt|[Heq|Hgt]]; [|exact Heq|].
        - exfalso. apply (Fa a' Hlt). congruence.
        - exfalso. apply (Fa' a0 Hgt). congruence. }
      subst a'.
      assert (b' = b).
      { destruct (N.lt_trichotomy b' b) as [Hlt|[Heq|Hgt]]; [|exact Heq|].
        - exfalso. apply (Fb b' Hlt). congruence.
        - exfalso. apply (Fb' b Hgt). congruence. }
      subst b'. exact Hin'.
Qed.

Lemma adj_spec_of_post po : GPost (fun v => v + delta) po ->
  (rev (map fst po), rev (map snd po)) = adjacent_spec l r mask delta.
Proof.
  intro HP. unfold adjacent_spec. cbn zeta.
  change (fun iv : N * N => let '(a, v) := iv in
            if is_first v a (mvals l mask)
            then match first_index (v + delta) (mvals r mask) with Some b => [(a, b)] | None => [] end
            else [])
    with (genf (fun v => v + delta) (mvals l mask) (mvals r mask)).
  rewrite <- (gen_spec_pairs _ po HP). rewrite !map_rev. reflexivity.
Qed.

(* intersection pairs whose right component is any occurrence *)
Definition ipair_ok (a b : N) : Prop :=
  a < nl /\ b < nr /\ xl a = xr b /\ (forall a', a' < a -> xl a' <> xl a).
Definition WPost (po : list (N * N)) : Prop :=
  (forall a b, In (a, b) po -> ipair_ok a b) /\
  (forall a b, a < nl -> b < nr -> xl a = xr b -> collected l mask po (xl a)) /\
  StronglySorted desc po.

Lemma weak_spec_fst po : WPost po -> rev (map fst po) = fst (intersect_drop_spec l r mask).
Proof.
  intros (P1 & P2 & P3).
  assert (E : fst (intersect_drop_spec l r mask) =
              map fst (flat_map (genf (fun v => v) (mvals l mask) (mvals r mask)) (enum (mvals l mask))))
    by reflexivity.
  rewrite E. clear E. rewrite <- map_rev.
  apply (ssorted_unique N.lt).
  - intros x. lia.
  - intros x y. lia.
  - apply ssorted_map_fst. apply ssorted_rev. exact P3.
  - apply ssorted_map_fst. apply gen_sorted.
  - intro a. rewrite !in_map_iff. split.
    + intros ([a1 b] & Ea & Hin). cbn [fst] in Ea. subst a1. apply in_rev in Hin.
      destruct (P1 a b Hin) as (Ha & Hb & Ev & Fa).
      destruct (first_index_ex (mvals r mask) (xl a)) as [b0 F0].
      { rewrite Ev. unfold mr. rewrite <- nth_mvals. apply nth_In. rewrite length_mvals. fold nr. lia. }
      exists (a, b0). split; [reflexivity|].
      apply in_flat_map. exists (a, xl a). split.
      * apply in_enum. rewrite length_mvals, nth_mvals. split; [exact Ha|reflexivity].
      * apply genf_in. split; [reflexivity|]. split; [|exact F0]. apply fi_L. auto.
    + intros ([a0 b] & Ea & Hin). cbn [fst] in Ea. subst a0.
      apply in_flat_map in Hin as ([a0 v] & Hin & Hp).
      apply genf_in in Hp as (-> & F1 & F2).
      apply fi_L in F1 as (Ha & Ea & Fa). apply fi_R in F2 as (Hb & Eb & Fb).
      destruct (P2 a0 b Ha Hb ltac:(congruence)) as (a' & b' & Hin' & E').
      destruct (P1 a' b' Hin') as (Ha' & Hb' & E'' & Fa').
      assert (a' = a0).
      { destruct (N.lt_trichotomy a' a0) as [Hlt|[Heq|Hgt]]; [|exact Heq|].
        - exfalso. apply (Fa a' Hlt). congruence.
        - exfalso. apply (Fa' a0 Hgt). congruence. }
      subst a'. exists (a0, b'). split; [reflexivity|]. apply in_rev in Hin'. exact Hin'.
Qed.

(* ---------------- gallops, generic in the comparison ---------------- *)
Fixpoint ggl (test : N -> N -> bool) (fuel : nat) (i j g : N) : result (N * N) :=
  match fuel with
  | O => OutOfFuel
  | S f =>
      if i <? nl then
        do x <- rd 0 L i; do y <- rd 1 R j;
        if test x y then ggl test f (i + g) j (g * 2) else Done (i, g)
      else Done (i, g)
  end.
Fixpoint ggr (test : N -> N -> bool) (fuel : nat) (i j g : N) : result (N * N) :=
  match fuel with
  | O => OutOfFuel
  | S f =>
      if j <? nr then
        do y <- rd 1 R j; do x <- rd 0 L i;
        if test x y then ggr test f i (j + g) (g * 2) else Done (j, g)
      else Done (j, g)
  end.

Lemma ggl_exit test : forall f i j g i0 i1 g1,
  j < nr -> i0 <= i - g/2 -> i - g/2 < nl -> g/2 <= i ->
  (i - g/2 = i0 \/ test (el (i - g/2)) (er j) = true) ->
  ggl test f i j g = Done (i1, g1) ->
  i0 <= i1 - g1/2 /\ i1 - g1/2 < nl /\ (i1 - g1/2 = i0 \/ test (el (i1 - g1/2)) (er j) = true).
Proof.
  induction f as [|f IH]; intros i j g i0 i1 g1 Hj H0 Hlt Hle HQ H; cbn [ggl] in H; [discriminate|].
  destruct (i <? nl) eqn:Hi.
  - apply N.ltb_lt in Hi. rewrite (rdL' i Hi), (rdR' j Hj) in H. cbn [bind] in H.
    destruct (test (el i) (er j)) eqn:Hc.
    + assert (E: g*2/2 = g) by (rewrite N.div_mul; lia).
      apply (IH (i + g) j (g * 2) i0 i1 g1); rewrite ?E; try assumption.
      * replace (i+g-g) with i by lia. lia.
      * replace (i+g-g) with i by lia. exact Hi.
      * lia.
      * replace (i+g-g) with i by lia. right. exact Hc.
    + inversion H; subst. auto.
  - inversion H; subst. auto.
Qed.

Lemma ggr_exit test : forall f i j g j0 j1 g1,
  i < nl -> j0 <= j - g/2 -> j - g/2 < nr -> g/2 <= j ->
  (j - g/2 = j0 \/ test (el i) (er (j - g/2)) = true) ->
  ggr test f i j g = Done (j1, g1) ->
  j0 <= j1 - g1/2 /\ j1 - g1/2 < nr /\ (j1 - g1/2 = j0 \/ test (el i) (er (j1 - g1/2)) = true).
Proof.
  induction f as [|f IH]; intros i j g j0 j1 g1 Hi H0 Hlt Hle HQ H; cbn [ggr] in H; [discriminate|].
  destruct (j <? nr) eqn:Hj.
  - apply N.ltb_lt in Hj. rewrite (rdR' j Hj), (rdL' i Hi) in H. cbn [bind] in H.
    destruct (test (el i) (er j)) eqn:Hc.
    + assert (E: g*2/2 = g) by (rewrite N.div_mul; lia).
      apply (IH i (j + g) (g * 2) j0 j1 g1); rewrite ?E; try assumption.
      * replace (j+g-g) with j by lia. lia.
      * replace (j+g-g) with j by lia. exact Hj.
      * lia.
      * replace (j+g-g) with j by lia. right. exact Hc.
    + inversion H; subst. auto.
  - inversion H; subst. auto.
Qed.

Lemma ggl_start test i j i1 g1 : i < nl -> j < nr -> ggl test GFUEL i j 1 = Done (i1, g1) ->
  i <= i1 - g1/2 /\ i1 - g1/2 < nl /\ (i1 - g1/2 = i \/ test (el (i1 - g1/2)) (er j) = true).
Proof.
  intros Hi Hj H. assert (D : 1 / 2 = 0) by reflexivity.
  apply (ggl_exit test GFUEL i j 1 i i1 g1); rewrite ?D; try assumption; try lia.
Qed.
Lemma ggr_start test i j j1 g1 : i < nl -> j < nr -> ggr test GFUEL i j 1 = Done (j1, g1) ->
  j <= j1 - g1/2 /\ j1 - g1/2 < nr /\ (j1 - g1/2 = j \/ test (el i) (er (j1 - g1/2)) = true).
Proof.
  intros Hi Hj H. assert (D : 1 / 2 = 0) by reflexivity.
  apply (ggr_exit test GFUEL i j 1 j j1 g1); rewrite ?D; try assumption; try lia.
Qed.

Definition t_adj_l (x y : N) : bool := N.land x mask <? rsub mask delta y.
Definition t_adj_r (x y : N) : bool := rsub mask delta y <? N.land x mask.
Definition t_ia_l (x y : N) : bool := ladd mask delta x <? N.land y mask.
Definition t_ia_r (x y : N) : bool := N.land y mask <? ladd mask delta x.

Lemma adj_gl_eq : forall f i j g, adj_gallop_l L R mask delta f i j g = ggl t_adj_l f i j g.
Proof.
  induction f as [|f IH]; intros i j g; [reflexivity|]. cbn [adj_gallop_l ggl]. change (mlen L) with nl.
  destruct (i <? nl); [|reflexivity].
  destruct (rd 0 L i); cbn [bind]; try reflexivity. destruct (rd 1 R j); cbn [bind]; try reflexivity.
  rewrite IH. reflexivity.
Qed.
Lemma adj_gr_eq : forall f i j g, adj_gallop_r L R mask delta f i j g = ggr t_adj_r f i j g.
Proof.
  induction f as [|f IH]; intros i j g; [reflexivity|]. cbn [adj_gallop_r ggr]. change (mlen R) with nr.
  destruct (j <? nr); [|reflexivity].
  destruct (rd 1 R j); cbn [bind]; try reflexivity. destruct (rd 0 L i); cbn [bind]; try reflexivity.
  rewrite IH. reflexivity.
Qed.
Lemma ia_gl_eq : forall f i j g, ia_gallop_l L R mask delta f i j g = ggl t_ia_l f i j g.
Proof.
  induction f as [|f IH]; intros i j g; [reflexivity|]. cbn [ia_gallop_l ggl]. change (mlen L) with nl.
  destruct (i <? nl); [|reflexivity].
  destruct (rd 0 L i); cbn [bind]; try reflexivity. destruct (rd 1 R j); cbn [bind]; try reflexivity.
  rewrite IH. reflexivity.
Qed.
Lemma ia_gr_eq : forall f i j g, ia_gallop_r L R mask delta f i j g = ggr t_ia_r f i j g.
Proof.
  induction f as [|f IH]; intros i j g; [reflexivity|]. cbn [ia_gallop_r ggr]. change (mlen R) with nr.
  destruct (j <? nr); [|reflexivity].
  destruct (rd 1 R j); cbn [bind]; try reflexivity. destruct (rd 0 L i); cbn [bind]; try reflexivity.
  rewrite IH. reflexivity.
Qed.

(* ================================================================== *)
(* adjacent                                                            *)
(* ================================================================== *)
Lemma adj_skip_exit : forall f j j0, j <= nr -> (forall b, b < j -> xr b = 0) ->
  adj_skip R mask f j = Done j0 ->
  j0 <= nr /\ (forall b, b < j0 -> xr b = 0) /\ (j0 < nr -> xr j0 <> 0).
Proof.
  induction f as [|f IH]; intros j j0 Hj Hz H; cbn [adj_skip] in H; [discriminate|].
  change (mlen R) with nr in H.
  destruct (j <? nr) eqn:C.
  - apply N.ltb_lt in C. rewrite (rdR' j C) in H. cbn [bind] in H.
    change (N.land (er j) mask) with (xr j) in H.
    destruct (xr j =? 0) eqn:E.
    + apply N.eqb_eq in E. apply (IH (j + 1) j0); [lia| |exact H].
      intros b Hb. destruct (N.eq_dec b j) as [->|Hne]; [exact E|apply Hz; lia].
    + apply N.eqb_neq in E. inversion H; subst. split; [lia|]. split; [exact Hz|]. intros _. exact E.
  - apply N.ltb_ge in C. inversion H; subst. split; [lia|]. split; [exact Hz|]. intro. lia.
Qed.

Lemma adj_loop_S cap f i j last lo ro no :
  adj_loop L R mask delta cap (S f) i j last lo ro no =
  if andb (i <? nl) (j <? nr) then
    do ig <- ggl t_adj_l GFUEL i j 1;
    let i2 := fst ig - snd ig / 2 in
    do jg <- ggr t_adj_r GFUEL i2 j 1;
    let j2 := fst jg - snd jg / 2 in
    do x <- rd 0 L i2; do y <- rd 1 R j2;
    let mx := N.land x mask in let ry := rsub mask delta y in
    if mx <? ry then adj_loop L R mask delta cap f (i2 + 1) j2 last lo ro no
    else if ry <? mx then adj_loop L R mask delta cap f i2 (j2 + 1) last lo ro no
    else
      if fresh mask last mx then
        do _ <- wr_ok 2 cap no; do _ <- wr_ok 3 cap no;
        adj_loop L R mask delta cap f (i2 + 1) (j2 + 1) (Some x) (i2 :: lo) (j2 :: ro) (no + 1)
      else adj_loop L R mask delta cap f (i2 + 1) (j2 + 1) last lo ro no
  else Done (rev lo, rev ro).
Proof.
  cbn [adj_loop]. change (mlen L) with nl. change (mlen R) with nr.
  destruct (andb (i <? nl) (j <? nr)); [|reflexivity].
  rewrite adj_gl_eq. destruct (ggl t_adj_l GFUEL i j 1) as [[i1 g1]| |]; cbn [bind fst snd]; try reflexivity.
Qed.

Section AdjLoop.
Variable j0 : N.
Hypothesis Hj0 : j0 <= nr.
Hypothesis Hz : forall b, b < j0 -> xr b = 0.
Hypothesis Hnz : forall b, j0 <= b -> b < nr -> xr b <> 0.

Definition ar (b : N) : N := rsub mask delta (er b).

Lemma Har b : j0 <= b -> b < nr -> ar b + delta = xr b.
Proof.
  intros H1 H2. pose proof (unit_le b (Hnz b H1 H2)) as Hle. pose proof (Hw (er b)) as Hlt.
  unfold ar, rsub, wsub. change (N.land (er b) mask) with (xr b) in *.
  revert Hle Hlt. generalize (xr b). intros v Hle Hlt.
  change W64 with 18446744073709551616 in *.
  rewrite (N.mod_small delta) by lia. clear - Hle Hlt. lia.
Qed.

Lemma sA a b : j0 <= a -> a <= b -> b < nr -> ar a <= ar b.
Proof.
  intros H0 H1 H2. pose proof (Har a H0 ltac:(lia)). pose proof (Har b ltac:(lia) H2).
  pose proof (sR a b H1 H2). lia.
Qed.

Definition apair_ok (a b : N) : Prop :=
  a < nl /\ j0 <= b /\ b < nr /\ xl a = ar b /\
  (forall a', a' < a -> xl a' <> xl a) /\ (forall b', j0 <= b' -> b' < b -> ar b' <> ar b).

Record AInv (i j : N) (last : option N) (po : list (N * N)) : Prop := {
  A0 : i <= nl /\ j0 <= j /\ j <= nr;
  A1 : forall a b, In (a, b) po -> a < i /\ b < j /\ apair_ok a b;
  A2 : forall a b, a < i -> a < nl -> j <= b -> b < nr ->
         xl a <= ar b /\ (xl a = ar b -> collected l mask po (xl a));
  A3 : forall a b, j0 <= b -> b < j -> b < nr -> i <= a -> a < nl ->
         ar b <= xl a /\ (ar b = xl a -> collected l mask po (ar b));
  A4 : forall a b, a < i -> a < nl -> j0 <= b -> b < j -> b < nr -> xl a = ar b -> collected l mask po (xl a);
  A5 : match last with
       | None => po = []
       | Some x => collected l mask po (N.land x mask) /\ forall a b, In (a, b) po -> xl a <= N.land x mask
       end;
  A6 : StronglySorted desc po
}.

Definition APost (po : list (N * N)) : Prop :=
  (forall a b, In (a, b) po -> apair_ok a b) /\
  (forall a b, a < nl -> j0 <= b -> b < nr -> xl a = ar b -> collected l mask po (xl a)) /\
  StronglySorted desc po.

Lemma adj_loop_pc : forall fuel i j last po no out,
  AInv i j last po ->
  adj_loop L R mask delta (N.min nl nr) fuel i j last (map fst po) (map snd po) no = Done out ->
  exists po', out = (rev (map fst po'), rev (map snd po')) /\ APost po'.
Proof.
  induction fuel as [|f IH]; intros i j last po no out HI H; [discriminate|].
  rewrite adj_loop_S in H.
  destruct (andb (i <? nl) (j <? nr)) eqn:G.
  2:{ (* loop exit *)
    exists po. split; [inversion H; reflexivity|]. destruct HI as [H0 H1 H2 H3 H4 H5 H6].
    split; [|split].
    - intros a b Hin. apply (H1 a b Hin).
    - intros a b Ha Hb0 Hb E.
      apply andb_false_iff in G as [G|G]; apply N.ltb_ge in G.
      + destruct (N.lt_ge_cases b j) as [Hbj|Hbj].
        * apply (H4 a b); try assumption; try lia.
        * apply (H2 a b); try assumption; try lia.
      + destruct (N.lt_ge_cases a i) as [Hai|Hai].
        * apply (H4 a b); try assumption; try lia.
        * rewrite E. apply (H3 a b); try assumption; try lia.
    - exact H6. }
  apply andb_true_iff in G as [Hi Hj]. apply N.ltb_lt in Hi, Hj.
  destruct HI as [H0 H1 H2 H3 H4 H5 H6].
  destruct (ggl t_adj_l GFUEL i j 1) as [[i1 g1]| |] eqn:EL; cbn [bind fst snd] in H; try discriminate.
  destruct (ggl_start _ i j i1 g1 Hi Hj EL) as (Hi2a & Hi2b & Hi2c).
  set (i2 := i1 - g1/2) in *.
  destruct (ggr t_adj_r GFUEL i2 j 1) as [[j1 g2]| |] eqn:ER; cbn [bind fst snd] in H; try discriminate.
  destruct (ggr_start _ i2 j j1 g2 Hi2b Hj ER) as (Hj2a & Hj2b & Hj2c).
  set (j2 := j1 - g2/2) in *.
  rewrite (rdL' i2 Hi2b), (rdR' j2 Hj2b) in H. cbn [bind] in H.
  change (N.land (el i2) mask) with (xl i2) in H. change (rsub mask delta (er j2)) with (ar j2) in H.
  assert (SkL' : i2 <> i -> xl i2 < ar j).
  { intro n. destruct Hi2c as [E|E]; [contradiction|]. apply N.ltb_lt in E. exact E. }
  assert (SkR' : j2 <> j -> ar j2 < xl i2).
  { intro n. destruct Hj2c as [E|E]; [contradiction|]. apply N.ltb_lt in E. exact E. }
  assert (SkL : forall a, i <= a -> a < i2 -> xl a < ar j).
  { intros a Ha1 Ha2. assert (n : i2 <> i) by lia. pose proof (SkL' n). pose proof (sL a i2 ltac:(lia) Hi2b). lia. }
  assert (SkR : forall b, j <= b -> b < j2 -> ar b < xl i2).
  { intros b Hb1 Hb2. assert (n : j2 <> j) by lia. pose proof (SkR' n). pose proof (sA b j2 ltac:(lia) ltac:(lia) Hj2b). lia. }
  clear Hi2c Hj2c EL ER.
  destruct (xl i2 <? ar j2) eqn:C1.
  { (* advance left *)
    apply N.ltb_lt in C1. refine (IH _ _ _ _ _ _ _ H). constructor.
    - clear - H0 Hi2a Hi2b Hj2a Hj2b. lia.
    - intros a b Hin. specialize (H1 a b Hin). clear - H1 Hi2a Hj2a. intuition lia.
    - intros a b Ha Hanl Hb Hbnr.
      assert (xl a <= xl i2) by (apply sL; lia). assert (ar j2 <= ar b) by (apply sA; lia). split; [lia|intro; lia].
    - intros a b Hb0 Hb Hbnr Ha Hanl.
      destruct (N.lt_ge_cases b j) as [Hbj|Hbj].
      + apply (H3 a b); try assumption; try lia.
      + pose proof (SkR b Hbj Hb). assert (xl i2 <= xl a) by (apply sL; lia). split; [lia|intro; lia].
    - intros a b Ha Hanl Hb0 Hb Hbnr E.
      destruct (N.lt_ge_cases a i) as [Hai|Hai]; destruct (N.lt_ge_cases b j) as [Hbj|Hbj].
      + apply (H4 a b); assumption.
      + apply (H2 a b); try assumption.
      + rewrite E. apply (H3 a b); try assumption; try lia.
      + exfalso. pose proof (SkR b Hbj Hb). assert (xl a <= xl i2) by (apply sL; lia).
        destruct (N.eq_dec i2 i) as [Ei|Ei].
        * assert (a = i2) by lia. subst a. lia.
        * pose proof (SkL' Ei). assert (ar j <= ar b) by (apply sA; lia). lia.
    - exact H5.
    - exact H6. }
  apply N.ltb_ge in C1.
  destruct (ar j2 <? xl i2) eqn:C2.
  { (* advance right *)
    apply N.ltb_lt in C2. refine (IH _ _ _ _ _ _ _ H). constructor.
    - clear - H0 Hi2a Hi2b Hj2a Hj2b. lia.
    - intros a b Hin. specialize (H1 a b Hin). clear - H1 Hi2a Hj2a. intuition lia.
    - intros a b Ha Hanl Hb Hbnr.
      destruct (N.lt_ge_cases a i) as [Hai|Hai].
      + apply (H2 a b); try assumption; try lia.
      + pose proof (SkL a Hai Ha). assert (ar j <= ar b) by (apply sA; lia). split; [lia|intro; lia].
    - intros a b Hb0 Hb Hbnr Ha Hanl.
      assert (ar b <= ar j2) by (apply sA; lia). assert (xl i2 <= xl a) by (apply sL; lia). split; [lia|intro; lia].
    - intros a b Ha Hanl Hb0 Hb Hbnr E.
      destruct (N.lt_ge_cases a i) as [Hai|Hai]; destruct (N.lt_ge_cases b j) as [Hbj|Hbj].
      + apply (H4 a b); assumption.
      + apply (H2 a b); try assumption.
      + rewrite E. apply (H3 a b); try assumption; try lia.
      + exfalso. pose proof (SkL a Hai Ha). assert (ar j <= ar b) by (apply sA; lia). lia.
    - exact H5.
    - exact H6. }
  apply N.ltb_ge in C2.
  (* equal: i2 = i and j2 = j necessarily *)
  assert (Ev : xl i2 = ar j2) by lia.
  assert (Ei : i2 = i).
  { destruct (N.eq_dec i2 i) as [|n]; [assumption|]. pose proof (SkL' n). assert (ar j <= ar j2) by (apply sA; lia). lia. }
  assert (Ej : j2 = j).
  { destruct (N.eq_dec j2 j) as [|n]; [assumption|]. pose proof (SkR' n). lia. }
  clearbody i2 j2. subst i2 j2. clear SkL SkR SkL' SkR' Hi2a Hj2a Hi2b Hj2b C1 C2.
  assert (Step : forall po' last',
            (forall v, collected l mask po v -> collected l mask po' v) -> collected l mask po' (xl i) ->
            (forall a b, In (a, b) po' -> a < i+1 /\ b < j+1 /\ apair_ok a b) ->
            match last' with None => po' = [] | Some x => collected l mask po' (N.land x mask) /\ forall a b, In (a, b) po' -> xl a <= N.land x mask end ->
            StronglySorted desc po' ->
            AInv (i+1) (j+1) last' po').
  { intros po' last' Hmono Hnew H1' H5' H6'. constructor.
    - clear - H0 Hi Hj. lia.
    - exact H1'.
    - intros a b Ha Hanl Hb Hbnr.
      destruct (N.eq_dec a i) as [->|Hne].
      + assert (ar j <= ar b) by (apply sA; lia). split; [lia|intro; exact Hnew].
      + destruct (H2 a b) as [Hle Hc]; try assumption; try lia. split; [exact Hle|intro E; apply Hmono, Hc, E].
    - intros a b Hb0 Hb Hbnr Ha Hanl.
      destruct (N.eq_dec b j) as [->|Hne].
      + assert (xl i <= xl a) by (apply sL; lia). split; [lia|intro E; rewrite <- Ev; exact Hnew].
      + destruct (H3 a b) as [Hle Hc]; try assumption; try lia. split; [exact Hle|intro E; apply Hmono, Hc, E].
    - intros a b Ha Hanl Hb0 Hb Hbnr E.
      destruct (N.eq_dec a i) as [->|Hna]; [exact Hnew|].
      destruct (N.eq_dec b j) as [->|Hnb].
      + apply Hmono. apply (H2 a j); try assumption; try lia.
      + apply Hmono. apply (H4 a b); try assumption; try lia.
    - exact H5'.
    - exact H6'. }
  assert (Ex : N.land (el i) mask = xl i) by reflexivity.
  destruct (fresh mask last (xl i)) eqn:NB.
  - (* collect *)
    assert (NotColl : ~ collected l mask po (xl i)).
    { intros (a & b & Hin & E). destruct last as [x'|].
      - cbn [fresh] in NB. apply negb_true_iff, N.eqb_neq in NB. destruct H5 as [Hc Hmax]. apply NB.
        destruct Hc as (al & bl & Hinl & El).
        pose proof (Hmax a b Hin) as Hle. rewrite E in Hle.
        destruct (H1 al bl Hinl) as (Hal & _ & Halnl & _).
        assert (xl al <= xl i) by (apply sL; lia). lia.
      - rewrite H5 in Hin. contradiction. }
    unfold wr_ok in H. destruct (no <? N.min nl nr); cbn [bind] in H; [|discriminate].
    change (i :: map fst po) with (map fst ((i, j) :: po)) in H.
    change (j :: map snd po) with (map snd ((i, j) :: po)) in H.
    refine (IH _ _ _ _ _ _ _ H). apply Step.
    + intros v. apply collected_cons.
    + exists i, j. split; [now left|reflexivity].
    + intros a b [Hin|Hin].
      * inversion Hin; subst a b. split; [lia|]. split; [lia|]. unfold apair_ok.
        split; [assumption|]. split; [lia|]. split; [assumption|]. split; [assumption|]. split.
        -- intros a' Ha' E. apply NotColl. rewrite <- E. apply (H2 a' j); lia.
        -- intros b' Hb0' Hb' E. apply NotColl. rewrite Ev, <- E. apply (H3 i b'); lia.
      * specialize (H1 a b Hin). clear - H1. intuition lia.
    + split.
      * rewrite Ex. exists i, j. split; [now left|reflexivity].
      * intros a b Hin. rewrite Ex. destruct Hin as [Hin|Hin].
        -- inversion Hin; subst. lia.
        -- destruct (H1 a b Hin) as (Ha & _ & Hanl & _). apply sL; lia.
    + constructor; [exact H6|]. apply Forall_forall. intros [a b] Hin. unfold desc. cbn [fst].
      destruct (H1 a b Hin) as (Ha & _). exact Ha.
  - (* already collected: skip *)
    assert (Coll : collected l mask po (xl i)).
    { destruct last as [x'|]; cbn [fresh] in NB; [|discriminate].
      apply negb_false_iff, N.eqb_eq in NB.
      destruct H5 as [Hc _]. rewrite NB in Hc. exact Hc. }
    refine (IH _ _ _ _ _ _ _ H). apply Step.
    + auto.
    + exact Coll.
    + intros a b Hin. specialize (H1 a b Hin). clear - H1. intuition lia.
    + exact H5.
    + exact H6.
Qed.

(* from the rsub-keyed postcondition to the spec-level one *)
Lemma APost_GPost po : APost po -> GPost (fun v => v + delta) po.
Proof.
  intros (P1 & P2 & P3). split; [|split; [|exact P3]].
  - intros a b Hin. destruct (P1 a b Hin) as (Ha & Hb0 & Hb & E & Fa & Fb).
    pose proof (Har b Hb0 Hb) as Eb.
    split; [exact Ha|]. split; [exact Hb|]. split; [lia|]. split; [exact Fa|].
    intros b' Hb' E'. destruct (N.lt_ge_cases b' j0) as [Hlo|Hhi].
    + rewrite (Hz b' Hlo) in E'. lia.
    + apply (Fb b' Hhi Hb'). pose proof (Har b' Hhi ltac:(lia)). lia.
  - intros a b Ha Hb E. destruct (N.lt_ge_cases b j0) as [Hlo|Hhi].
    + rewrite (Hz b Hlo) in E. lia.
    + apply (P2 a b Ha Hhi Hb). pose proof (Har b Hhi Hb). lia.
Qed.
End AdjLoop.

Theorem adjacent_pc out :
  adjacent l r mask = Done out -> delta = lowbit mask -> out = adjacent_spec l r mask delta.
Proof.
  intros H Ed. unfold adjacent in H. cbv zeta in H. rewrite <- Ed in H. fold L R nl nr in H.
  destruct (adj_skip R mask (outer_fuel l r) 0) as [j0| |] eqn:ES; cbn [bind] in H; try discriminate.
  destruct (adj_skip_exit _ 0 j0 ltac:(lia) ltac:(intros; lia) ES) as (Hj0 & Hz & Hnz0).
  assert (Hnz : forall b, j0 <= b -> b < nr -> xr b <> 0).
  { intros b Hb1 Hb2. assert (j0 < nr) by lia. specialize (Hnz0 H0). pose proof (sR j0 b Hb1 Hb2). lia. }
  destruct (adj_loop_pc j0 Hj0 Hz Hnz (outer_fuel l r) 0 j0 None [] 0 out) as (po & -> & HP).
  - constructor; try (intros; lia).
    + intros a b [].
    + reflexivity.
    + constructor.
  - exact H.
  - apply adj_spec_of_post. apply (APost_GPost j0 Hj0 Hz Hnz). exact HP.
Qed.

(* ================================================================== *)
(* intersect_with_adjacents                                            *)
(* ================================================================== *)
Definition lastinv (last : option N) (po : list (N * N)) : Prop :=
  match last with
  | None => po = []
  | Some x => collected l mask po (N.land x mask) /\ forall a b, In (a, b) po -> xl a <= N.land x mask
  end.

Lemma fresh_notcoll last po k :
  lastinv last po -> (forall a b, In (a, b) po -> a <= k /\ a < nl) -> k < nl ->
  fresh mask last (xl k) = true -> ~ collected l mask po (xl k).
Proof.
  intros HL Hb Hk NB (a & b & Hin & E). destruct last as [x'|]; cbn [lastinv] in HL.
  - cbn [fresh] in NB. apply negb_true_iff, N.eqb_neq in NB. destruct HL as [Hc Hmax]. apply NB.
    destruct Hc as (al & bl & Hinl & El).
    pose proof (Hmax a b Hin) as Hle. rewrite E in Hle.
    destruct (Hb al bl Hinl) as (Hal & Halnl).
    assert (xl al <= xl k) by (apply sL; lia). lia.
  - rewrite HL in Hin. contradiction.
Qed.

Lemma fresh_coll last po v : lastinv last po -> fresh mask last v = false -> collected l mask po v.
Proof.
  intros HL NB. destruct last as [x'|]; cbn [fresh] in NB; [|discriminate].
  apply negb_false_iff, N.eqb_eq in NB. destruct HL as [Hc _]. rewrite NB in Hc. exact Hc.
Qed.

Lemma lastinv_cons po k b :
  (forall a b', In (a, b') po -> a <= k) -> k < nl -> lastinv (Some (el k)) ((k, b) :: po).
Proof.
  intros Hb Hk. cbn [lastinv]. change (N.land (el k) mask) with (xl k). split.
  - exists k, b. split; [now left|reflexivity].
  - intros a b' [Hin|Hin].
    + inversion Hin; subst. lia.
    + apply sL; [apply (Hb a b' Hin)|exact Hk].
Qed.

Lemma ia_loop_S cap f i j last la lo ro alo aro no nao :
  ia_loop L R mask delta cap (S f) i j last la lo ro alo aro no nao =
  if andb (i <? nl) (j <? nr) then
    do x0 <- rd 0 L i; do y0 <- rd 1 R j;
    do ij <- (if negb (N.land x0 mask =? N.land y0 mask) then
                do ig <- ggl t_ia_l GFUEL i j 1;
                let i2 := fst ig - snd ig / 2 in
                do jg <- ggr t_ia_r GFUEL i2 j 1;
                Done (i2, fst jg - snd jg / 2)
              else Done (i, j));
    let '(i2, j2) := ij in
    do x <- rd 0 L i2; do y <- rd 1 R j2;
    let mx := N.land x mask in let my := N.land y mask in
    if ladd mask delta x =? my then
      if fresh mask la mx then
        do _ <- wr_ok 4 cap nao; do _ <- wr_ok 5 cap nao;
        ia_loop L R mask delta cap f (i2 + 1) j2 last (Some x) lo ro (i2 :: alo) (j2 :: aro) no (nao + 1)
      else ia_loop L R mask delta cap f (i2 + 1) j2 last la lo ro alo aro no nao
    else if mx <? my then ia_loop L R mask delta cap f (i2 + 1) j2 last la lo ro alo aro no nao
    else if my <? mx then ia_loop L R mask delta cap f i2 (j2 + 1) last la lo ro alo aro no nao
    else
      if fresh mask last mx then
        do _ <- wr_ok 2 cap no; do _ <- wr_ok 3 cap no;
        ia_loop L R mask delta cap f i2 (j2 + 1) (Some x) la (i2 :: lo) (j2 :: ro) alo aro (no + 1) nao
      else ia_loop L R mask delta cap f i2 (j2 + 1) last la lo ro alo aro no nao
  else Done {| ia_lo := rev lo; ia_ro := rev ro; ia_alo := rev alo; ia_aro := rev aro |}.
Proof.
  cbn [ia_loop]. change (mlen L) with nl. change (mlen R) with nr.
  destruct (andb (i <? nl) (j <? nr)); [|reflexivity].
  destruct (rd 0 L i); cbn [bind]; reflexivity.
Qed.

Section Fused.
Hypothesis Hov : forall a, a < nl -> xl a + delta < W64.

Lemma ladd_ok a : a < nl -> ladd mask delta (el a) = xl a + delta.
Proof.
  intro H. unfold ladd, wadd. change (N.land (el a) mask) with (xl a). apply N.mod_small. apply Hov. exact H.
Qed.

Lemma ia_select i j i2 j2 : i < nl -> j < nr ->
  (if negb (xl i =? xr j) then
     do ig <- ggl t_ia_l GFUEL i j 1;
     let i2 := fst ig - snd ig / 2 in
     do jg <- ggr t_ia_r GFUEL i2 j 1;
     Done (i2, fst jg - snd jg / 2)
   else Done (i, j)) = Done (i2, j2) ->
  i <= i2 /\ i2 < nl /\ j <= j2 /\ j2 < nr /\
  (i2 <> i -> xl i2 + delta < xr j) /\ (j2 <> j -> xr j2 < xl i2 + delta).
Proof.
  intros Hi Hj H. destruct (negb (xl i =? xr j)).
  - destruct (ggl t_ia_l GFUEL i j 1) as [[i1 g1]| |] eqn:EL; cbn [bind fst snd] in H; try discriminate.
    destruct (ggl_start _ i j i1 g1 Hi Hj EL) as (A1 & A2 & A3).
    set (i3 := i1 - g1/2) in *.
    destruct (ggr t_ia_r GFUEL i3 j 1) as [[j1 g2]| |] eqn:ER; cbn [bind fst snd] in H; try discriminate.
    destruct (ggr_start _ i3 j j1 g2 A2 Hj ER) as (B1 & B2 & B3).
    set (j3 := j1 - g2/2) in *.
    inversion H. subst i2 j2.
    split; [exact A1|]. split; [exact A2|]. split; [exact B1|]. split; [exact B2|]. split.
    + intro n. destruct A3 as [E|E]; [contradiction|]. unfold t_ia_l in E. rewrite (ladd_ok i3 A2) in E.
      apply N.ltb_lt in E. exact E.
    + intro n. destruct B3 as [E|E]; [contradiction|]. unfold t_ia_r in E. rewrite (ladd_ok i3 A2) in E.
      apply N.ltb_lt in E. exact E.
  - inversion H. subst i2 j2. repeat split; try assumption; try lia; intro n; contradiction.
Qed.

Definition adjp_ok := gpair_ok (fun v => v + delta).

Record FInv (i j : N) (last la : option N) (po pa : list (N * N)) : Prop := {
  F0 : i <= nl /\ j <= nr;
  F1 : forall a b, In (a, b) po -> a <= i /\ b < j /\ ipair_ok a b;
  F1a : forall a b, In (a, b) pa -> a < i /\ b <= j /\ adjp_ok a b;
  FA : forall a b, a < i -> a < nl -> j <= b -> b < nr ->
         xl a + delta <= xr b /\ (xl a + delta = xr b -> collected l mask pa (xl a));
  FB : forall a b, b < j -> b < nr -> i <= a -> a < nl ->
         xr b <= xl a /\ (xr b = xl a -> collected l mask po (xr b));
  FC : forall a b, a < i -> a < nl -> b < j -> b < nr ->
         (xl a = xr b -> collected l mask po (xl a)) /\ (xl a + delta = xr b -> collected l mask pa (xl a));
  F5 : lastinv last po;
  F5a : lastinv la pa;
  F6 : StronglySorted desc po;
  F6a : StronglySorted desc pa
}.

Lemma ia_loop_pc : forall fuel i j last la po pa no nao o,
  FInv i j last la po pa ->
  ia_loop L R mask delta (N.min nl nr) fuel i j last la
          (map fst po) (map snd po) (map fst pa) (map snd pa) no nao = Done o ->
  exists po' pa',
    o = {| ia_lo := rev (map fst po'); ia_ro := rev (map snd po');
           ia_alo := rev (map fst pa'); ia_aro := rev (map snd pa') |} /\
    WPost po' /\ GPost (fun v => v + delta) pa'.
Proof.
  induction fuel as [|f IH]; intros i j last la po pa no nao o HI H; [discriminate|].
  rewrite ia_loop_S in H.
  destruct HI as [H0 H1 H1a HA HB HC H5 H5a H6 H6a].
  destruct (andb (i <? nl) (j <? nr)) eqn:G.
  2:{ (* loop exit *)
    exists po, pa. split; [inversion H; reflexivity|]. split.
    - split; [|split; [|exact H6]].
      + intros a b Hin. apply (H1 a b Hin).
      + intros a b Ha Hb E.
        apply andb_false_iff in G as [G|G]; apply N.ltb_ge in G.
        * destruct (N.lt_ge_cases b j) as [Hbj|Hbj].
          -- apply (HC a b); try assumption; try lia.
          -- exfalso. destruct (HA a b); try assumption; try lia.
        * destruct (N.lt_ge_cases a i) as [Hai|Hai].
          -- apply (HC a b); try assumption; try lia.
          -- rewrite E. apply (HB a b); try assumption; try lia.
    - split; [|split; [|exact H6a]].
      + intros a b Hin. apply (H1a a b Hin).
      + intros a b Ha Hb E.
        apply andb_false_iff in G as [G|G]; apply N.ltb_ge in G.
        * destruct (N.lt_ge_cases b j) as [Hbj|Hbj].
          -- apply (HC a b); try assumption; try lia.
          -- apply (HA a b); try assumption; try lia.
        * destruct (N.lt_ge_cases a i) as [Hai|Hai].
          -- apply (HC a b); try assumption; try lia.
          -- exfalso. destruct (HB a b); try assumption; try lia. }
  apply andb_true_iff in G as [Hi Hj]. apply N.ltb_lt in Hi, Hj.
  rewrite (rdL' i Hi), (rdR' j Hj) in H. cbn [bind] in H.
  change (N.land (el i) mask) with (xl i) in H. change (N.land (er j) mask) with (xr j) in H.
  match type of H with bind ?sel _ = _ => destruct sel as [[i2 j2]| |] eqn:ES end;
    cbn [bind] in H; try discriminate.
  destruct (ia_select i j i2 j2 Hi Hj ES) as (Hi2a & Hi2b & Hj2a & Hj2b & SkL' & SkR'). clear ES.
  rewrite (rdL' i2 Hi2b), (rdR' j2 Hj2b) in H. cbn [bind] in H.
  rewrite (ladd_ok i2 Hi2b) in H.
  change (N.land (el i2) mask) with (xl i2) in H. change (N.land (er j2) mask) with (xr j2) in H.
  (* at most one pointer moved *)
  assert (OneL : xl i2 < xr j2 -> j2 = j).
  { intro C. destruct (N.eq_dec j2 j) as [|n]; [assumption|]. pose proof (gapR _ _ (SkR' n)). lia. }
  assert (OneR : xr j2 <= xl i2 -> i2 = i).
  { intro C. destruct (N.eq_dec i2 i) as [|n]; [assumption|]. pose proof (SkL' n).
    assert (xr j <= xr j2) by (apply sR; lia). lia. }
  (* advancing the left pointer past i2 *)
  assert (StepL : xl i2 < xr j2 -> forall pa' la',
            (forall v, collected l mask pa v -> collected l mask pa' v) ->
            (xl i2 + delta = xr j2 -> collected l mask pa' (xl i2)) ->
            (forall a b, In (a, b) pa' -> a < i2 + 1 /\ b <= j2 /\ adjp_ok a b) ->
            lastinv la' pa' -> StronglySorted desc pa' ->
            FInv (i2 + 1) j2 last la' po pa').
  { intros C pa' la' Hmono Hnew H1a' H5a' H6a'. pose proof (OneL C) as Ej. subst j2.
    pose proof (gapL _ _ C) as Cg.
    constructor.
    - clear - Hi2b H0. lia.
    - intros a b Hin. specialize (H1 a b Hin). clear - H1 Hi2a. intuition lia.
    - exact H1a'.
    - intros a b Ha Hanl Hb Hbnr.
      assert (xl a <= xl i2) by (apply sL; lia). assert (xr j <= xr b) by (apply sR; lia).
      split; [lia|]. intro E. assert (E1 : xl a = xl i2) by lia. rewrite E1. apply Hnew. lia.
    - intros a b Hb Hbnr Ha Hanl. apply (HB a b); try assumption; try lia.
    - intros a b Ha Hanl Hb Hbnr.
      destruct (N.lt_ge_cases a i) as [Hai|Hai].
      + destruct (HC a b Hai Hanl Hb Hbnr) as [X1 X2]. split; [exact X1|]. intro E. apply Hmono, X2, E.
      + destruct (HB a b Hb Hbnr Hai Hanl) as [Y1 Y2]. split.
        * intro E. rewrite E. apply Y2. lia.
        * intro E. lia.
    - exact H5.
    - exact H5a'.
    - exact H6.
    - exact H6a'. }
  (* advancing the right pointer past j2 *)
  assert (StepR : xr j2 <= xl i2 -> forall po' last',
            (forall v, collected l mask po v -> collected l mask po' v) ->
            (xr j2 = xl i2 -> collected l mask po' (xl i2)) ->
            (forall a b, In (a, b) po' -> a <= i2 /\ b < j2 + 1 /\ ipair_ok a b) ->
            lastinv last' po' -> StronglySorted desc po' ->
            FInv i2 (j2 + 1) last' la po' pa).
  { intros C po' last' Hmono Hnew H1' H5' H6'. pose proof (OneR C) as Ei. subst i2.
    constructor.
    - clear - Hj2b H0. lia.
    - exact H1'.
    - intros a b Hin. specialize (H1a a b Hin). clear - H1a Hj2a. intuition lia.
    - intros a b Ha Hanl Hb Hbnr. apply (HA a b); try assumption; try lia.
    - intros a b Hb Hbnr Ha Hanl.
      destruct (N.lt_ge_cases b j) as [Hbj|Hbj].
      + destruct (HB a b Hbj Hbnr Ha Hanl) as [Y1 Y2]. split; [exact Y1|]. intro E. apply Hmono, Y2, E.
      + assert (xr b <= xr j2) by (apply sR; lia). assert (xl i <= xl a) by (apply sL; lia).
        split; [lia|]. intro E. assert (E1 : xr b = xl i) by lia. rewrite E1. apply Hnew. lia.
    - intros a b Ha Hanl Hb Hbnr.
      destruct (N.lt_ge_cases b j) as [Hbj|Hbj].
      + destruct (HC a b Ha Hanl Hbj Hbnr) as [X1 X2]. split; [|exact X2]. intro E. apply Hmono, X1, E.
      + destruct (HA a b Ha Hanl Hbj Hbnr) as [Z1 Z2]. split; [intro E; lia|exact Z2].
    - exact H5'.
    - exact H5a.
    - exact H6'.
    - exact H6a. }
  destruct (xl i2 + delta =? xr j2) eqn:CA.
  { (* adjacency at (i2, j2) = (i, j) *)
    apply N.eqb_eq in CA.
    assert (C : xl i2 < xr j2) by lia.
    pose proof (OneL C) as Ej. subst j2.
    assert (Ei : i2 = i).
    { destruct (N.eq_dec i2 i) as [|n]; [assumption|]. pose proof (SkL' n). lia. }
    subst i2.
    destruct (fresh mask la (xl i)) eqn:NB.
    - assert (NotColl : ~ collected l mask pa (xl i)).
      { apply (fresh_notcoll la pa i); try assumption.
        intros a b Hin. destruct (H1a a b Hin) as (X & _ & Y & _). split; [lia|exact Y]. }
      unfold wr_ok in H. destruct (nao <? N.min nl nr); cbn [bind] in H; [|discriminate].
      change (i :: map fst pa) with (map fst ((i, j) :: pa)) in H.
      change (j :: map snd pa) with (map snd ((i, j) :: pa)) in H.
      refine (IH _ _ _ _ _ _ _ _ _ _ H). apply (StepL C).
      + intros v. apply collected_cons.
      + intros _. exists i, j. split; [now left|reflexivity].
      + intros a b [Hin|Hin].
        * inversion Hin; subst a b. split; [lia|]. split; [lia|].
          split; [assumption|]. split; [assumption|]. split; [exact CA|]. split.
          -- intros a' Ha' E. apply NotColl. rewrite <- E. apply (HA a' j); try lia.
          -- intros b' Hb' E. destruct (HB i b'); try lia.
        * specialize (H1a a b Hin). clear - H1a. intuition lia.
      + apply lastinv_cons; [|exact Hi]. intros a b' Hin. destruct (H1a a b' Hin) as (X & _). lia.
      + constructor; [exact H6a|]. apply Forall_forall. intros [a b] Hin. unfold desc. cbn [fst].
        destruct (H1a a b Hin) as (Ha & _). exact Ha.
    - assert (Coll : collected l mask pa (xl i)) by (apply (fresh_coll la); assumption).
      refine (IH _ _ _ _ _ _ _ _ _ _ H). apply (StepL C).
      + auto.
      + intros _. exact Coll.
      + intros a b Hin. specialize (H1a a b Hin). clear - H1a. intuition lia.
      + exact H5a.
      + exact H6a. }
  apply N.eqb_neq in CA.
  destruct (xl i2 <? xr j2) eqn:C1.
  { (* left value smaller, not adjacent *)
    apply N.ltb_lt in C1. refine (IH _ _ _ _ _ _ _ _ _ _ H). apply (StepL C1).
    - auto.
    - intro E. contradiction.
    - intros a b Hin. specialize (H1a a b Hin). pose proof (OneL C1). clear - H1a Hi2a H2. intuition lia.
    - exact H5a.
    - exact H6a. }
  apply N.ltb_ge in C1.
  destruct (xr j2 <? xl i2) eqn:C2.
  { (* right value smaller *)
    apply N.ltb_lt in C2. refine (IH _ _ _ _ _ _ _ _ _ _ H). apply StepR; [lia|auto|intro; lia| |exact H5|exact H6].
    intros a b Hin. specialize (H1 a b Hin). clear - H1 Hi2a Hj2a. intuition lia. }
  apply N.ltb_ge in C2.
  (* common value at (i2, j2) = (i, j2) *)
  assert (Ev : xl i2 = xr j2) by lia.
  pose proof (OneR C1) as Ei. subst i2.
  assert (First : forall a', a' < i -> xl a' <> xl i).
  { intros a' Ha' E. destruct (HA a' j2); try lia. }
  destruct (fresh mask last (xl i)) eqn:NB.
  - assert (NotColl : ~ collected l mask po (xl i)).
    { apply (fresh_notcoll last po i); try assumption.
      intros a b Hin. destruct (H1 a b Hin) as (X & _ & Y & _). split; [lia|exact Y]. }
    unfold wr_ok in H. destruct (no <? N.min nl nr); cbn [bind] in H; [|discriminate].
    change (i :: map fst po) with (map fst ((i, j2) :: po)) in H.
    change (j2 :: map snd po) with (map snd ((i, j2) :: po)) in H.
    refine (IH _ _ _ _ _ _ _ _ _ _ H). apply (StepR C1).
    + intros v. apply collected_cons.
    + intros _. exists i, j2. split; [now left|reflexivity].
    + intros a b [Hin|Hin].
      * inversion Hin; subst a b. split; [lia|]. split; [lia|].
        split; [assumption|]. split; [assumption|]. split; [exact Ev|exact First].
      * specialize (H1 a b Hin). clear - H1 Hj2a. intuition lia.
    + apply lastinv_cons; [|exact Hi]. intros a b' Hin. destruct (H1 a b' Hin) as (X & _). lia.
    + constructor; [exact H6|]. apply Forall_forall. intros [a b] Hin. unfold desc. cbn [fst].
      destruct (H1 a b Hin) as (Ha & _ & _ & _ & Ea & _).
      destruct (N.eq_dec a i) as [->|Hne]; [|lia].
      exfalso. apply NotColl. exists i, b. split; [exact Hin|reflexivity].
  - assert (Coll : collected l mask po (xl i)) by (apply (fresh_coll last); assumption).
    refine (IH _ _ _ _ _ _ _ _ _ _ H). apply (StepR C1).
    + auto.
    + intros _. exact Coll.
    + intros a b Hin. specialize (H1 a b Hin). clear - H1 Hj2a. intuition lia.
    + exact H5.
    + exact H6.
Qed.

Theorem ia_pc o : intersect_with_adjacents l r mask = Done o -> delta = lowbit mask ->
  ia_lo o = fst (intersect_drop_spec l r mask) /\
  length (ia_ro o) = length (ia_lo o) /\
  (forall k a b, nth_error (ia_lo o) k = Some a -> nth_error (ia_ro o) k = Some b ->
     b < nr /\ xr b = xl a) /\
  (ia_alo o, ia_aro o) = adjacent_spec l r mask delta.
Proof.
  intros H Ed. unfold intersect_with_adjacents in H. cbv zeta in H. rewrite <- Ed in H. fold L R nl nr in H.
  destruct (ia_loop_pc (outer_fuel l r) 0 0 None None [] [] 0 0 o) as (po & pa & -> & HW & HG).
  - constructor; [lia | intros a b [] | intros a b [] | intros; lia | intros; lia | intros; lia
                 | reflexivity | reflexivity | constructor | constructor].
  - exact H.
  - cbn [ia_lo ia_ro ia_alo ia_aro]. split; [apply weak_spec_fst; exact HW|]. split.
    + rewrite !rev_length, !map_length. reflexivity.
    + split; [|apply adj_spec_of_post; exact HG].
      intros k a b Ka Kb. rewrite <- map_rev in Ka, Kb.
      rewrite nth_error_map in Ka, Kb.
      destruct (nth_error (rev po) k) as [[a1 b1]|] eqn:Ek; cbn [option_map fst snd] in Ka, Kb; [|discriminate].
      inversion Ka; inversion Kb; subst a1 b1.
      apply nth_error_In, in_rev in Ek. destruct HW as (P1 & _).
      destruct (P1 a b Ek) as (_ & Hb & E & _). split; [exact Hb|now symmetry].
Qed.
End Fused.

End A.

(* ================================================================== *)
(* C12, adjacency kernels                                              *)
(* ================================================================== *)
(* No overflow hypothesis is needed here: the kernel only subtracts delta from non-zero masked rhs values
   (the adj_skip pre-loop), which are >= delta, so nothing wraps. *)
Theorem adjacent_correct : forall l r mask,
  msorted l mask -> msorted r mask ->
  N.of_nat (length l) < 2^62 -> N.of_nat (length r) < 2^62 ->
  mask <> 0 -> mask < W64 ->
  adjacent l r mask = Done (adjacent_spec l r mask (lowbit mask)).
Proof.
  intros l r mask HsL HsR Hnl Hnr Hm0 Hmw.
  destruct (lowbit_facts mask Hm0 Hmw) as [Hd Hmul].
  pose proof (Intersect_Safe.adjacent_terminates l r mask Hnl Hnr) as T.
  destruct (adjacent l r mask) as [out| |] eqn:E; cbn [is_done] in T; try contradiction.
  f_equal.
  apply (adjacent_pc l r mask (lowbit mask) HsL HsR Hd Hmul
           (fun x => Intersect_Safe.land_mask_small mask x Hmw) out E eq_refl).
Qed.

(* The right index of an intersection pair is SOME occurrence of the common masked value (the right
   gallop may land inside a run); the adjacency pairs are exactly the first-occurrence pairs. *)
Theorem intersect_with_adjacents_correct : forall l r mask,
  msorted l mask -> msorted r mask ->
  N.of_nat (length l) < 2^62 -> N.of_nat (length r) < 2^62 ->
  mask <> 0 -> mask < W64 ->
  (forall a, In a l -> N.land a mask + lowbit mask < W64) ->
  exists o, intersect_with_adjacents l r mask = Done o /\
    ia_lo o = fst (intersect_drop_spec l r mask) /\
    length (ia_ro o) = length (ia_lo o) /\
    (forall k a b, nth_error (ia_lo o) k = Some a -> nth_error (ia_ro o) k = Some b ->
        b < N.of_nat (length r) /\
        N.land (nth (N.to_nat b) r 0) mask = N.land (nth (N.to_nat a) l 0) mask) /\
    (ia_alo o, ia_aro o) = adjacent_spec l r mask (lowbit mask).
Proof.
  intros l r mask HsL HsR Hnl Hnr Hm0 Hmw Hov.
  destruct (lowbit_facts mask Hm0 Hmw) as [Hd Hmul].
  pose proof (Intersect_Safe.intersect_with_adjacents_terminates l r mask (or_introl Hmw) Hnl Hnr) as T.
  destruct (intersect_with_adjacents l r mask) as [o| |] eqn:E; cbn [is_done] in T; try contradiction.
  exists o. split; [reflexivity|].
  apply (ia_pc l r mask (lowbit mask) HsL HsR Hd Hmul
           (fun x => Intersect_Safe.land_mask_small mask x Hmw)); [|exact E|reflexivity].
  intros a Ha. unfold ml. apply Hov. apply nth_In. lia.
Qed.

(* Each hypothesis is needed:
   - mask = 0:  adjacent [1;2] [1;2] 0 = Done ([],[]) but the spec (delta = 0, all masked values 0) is ([0],[0]);
     the fused kernel then also drops the intersection.
   - overflow (fused kernel only):  with mask 0xF000000000000000 (delta 2^60),
     intersect_with_adjacents [15 * 2^60] [0] mask reports the adjacency (0, 0): 15*2^60 + 2^60 wraps to 0. *)
Example adjacent_mask0 :
  adjacent [1;2] [1;2] 0 = Done ([], []) /\ adjacent_spec [1;2] [1;2] 0 (lowbit 0) = ([0], [0]).
Proof. vm_compute. split; reflexivity. Qed.
Example fused_overflow :
  let m := 17293822569102704640 in let u := 1152921504606846976 in
  lowbit m = u /\
  (exists o, intersect_with_adjacents [15 * u] [0] m = Done o /\ ia_alo o = [0] /\ ia_aro o = [0]) /\
  adjacent_spec [15 * u] [0] m u = ([], []).
Proof. vm_compute. split; [reflexivity|]. split; [|reflexivity]. eexists. split; [reflexivity|]. split; reflexivity. Qed.
(* the intersection's right index is not always the first occurrence *)
Example fused_right_index_any_occurrence :
  exists o, intersect_with_adjacents [0;0;0;2] [1;1;2;2] wmask = Done o /\
    ia_lo o = [3] /\ ia_ro o = [3] /\ intersect_drop_spec [0;0;0;2] [1;1;2;2] wmask = ([3], [2]).
Proof. vm_compute. eexists. split; [reflexivity|]. repeat split; reflexivity. Qed.

(* executable sanity checks of both statements (duplicate runs, zero masked value on the right, a common
   value repeated on the right) under the three masks used by the callers *)
Fixpoint leqN (a b : list N) : bool :=
  match a, b with [] , [] => true | x :: a', y :: b' => (x =? y) && leqN a' b' | _, _ => false end.
Fixpoint all2N (f : N -> N -> bool) (a b : list N) : bool :=
  match a, b with [], [] => true | x :: a', y :: b' => f x y && all2N f a' b' | _, _ => false end.
Definition chk_adj (l r : list N) (mask : N) : bool :=
  match adjacent l r mask with
  | Done (a, b) => let s := adjacent_spec l r mask (lowbit mask) in leqN a (fst s) && leqN b (snd s)
  | _ => false end.
Definition chk_ia (l r : list N) (mask : N) : bool :=
  match intersect_with_adjacents l r mask with
  | Done o => let s := adjacent_spec l r mask (lowbit mask) in
      leqN (ia_lo o) (fst (intersect_drop_spec l r mask)) &&
      all2N (fun a b => (b <? N.of_nat (length r)) && (mr r mask b =? ml l mask a)) (ia_lo o) (ia_ro o) &&
      leqN (ia_alo o) (fst s) && leqN (ia_aro o) (snd s)
  | _ => false end.
Definition hdr_mask : N := 18446744073709289472.      (* delta 2^18 *)
Definition top4_mask : N := 17293822569102704640.     (* 0xF000000000000000, delta 2^60 *)
Definition units (d : N) (vs : list N) : list N :=
  map (fun iv => fst iv * 5 mod d + snd iv * d) (enum vs).   (* v units plus noise below the mask *)
Definition samples : list (list N * list N) :=
  [ ([], []); ([0], []); ([], [1]); ([0], [0]); ([0], [1]); ([1], [0]);
    ([0;0;0;2], [1;1;2;2]); ([0;0;1;1;2], [0;0;1;2;2;3;3]); ([0;1;2;3], [0;0;0;0;1;1;1;1;2;2;2;2;3;3;3;3;4]);
    ([0;0;0;0;0;0;0;0;0;1;5], [0;1;1;1;1;1;1;1;1;1;1;1;2;6;6]); ([3;4;7;7;9], [0;0;4;5;8;8;8;8;8;8;10]);
    ([1;1;1;1;1;1;1;1;2;2;2;2;2;2;2;3], [2;2;2;2;2;2;2;2;2;3;3;3;3;3;3;3;3;4]); ([2;5;9;14], [0;3;6;10;15;15]) ].
Example sanity_checks :
  forallb (fun m => forallb (fun lr => chk_adj (units (lowbit m) (fst lr)) (units (lowbit m) (snd lr)) m &&
                                       chk_ia (units (lowbit m) (fst lr)) (units (lowbit m) (snd lr)) m) samples)
          [wmask; hdr_mask; top4_mask] = true.
Proof. vm_compute. reflexivity. Qed.

Print Assumptions adjacent_correct.
Print Assumptions intersect_with_adjacents_correct.
