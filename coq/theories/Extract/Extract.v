(* Extraction of every executable Model and Spec entry point.  ExtrOcamlBasic only. *)
From Coq Require Import Extraction ExtrOcamlBasic.
From SA Require Import Base.Prelude Solr.MM Solr.MM_Spec Kernels.Intersect Kernels.Linear Kernels.Spec Codec.Codec Codec.Codec_Spec Index.Index Index.Fast Index.Truncate Index.Index_Spec Query.Phrase Query.Phrase_Spec Score.BM25 Score.Score Query.Range Query.Range_Spec View.View View.View_Spec View.Purity Solr.Edismax Solr.Edismax_Spec Solr.Edismax_AnySim Store.Store Conc.Conc Rebuild.Rebuild Span.Span Span.Span_Spec Span.Span_Variant.
(* The ONLY extraction directive beyond ExtrOcamlBasic: Coq's List.rev is quadratic (rev l ++ [x]); it is
   realised by OCaml's linear List.rev (same function: List.rev_alt : rev l = rev_append l []). *)
Extract Inlined Constant rev => "List.rev".
Extraction "samodel.ml"
  mm_f64 solr_mm
  intersect_drop intersect_keep adjacent intersect_with_adjacents lowbit
  merge merge_drop sort_merge_counts unique binary_search galloping_search
  popcount64 popcount_reduce_at key_sum_over popcount64_reduce payload_slice as_dense
  intersect_drop_spec intersect_keep_spec adjacent_spec merge_spec merge_drop_spec unique_spec
  search_spec popcount_reduce_at_spec key_sum_over_spec popcount64_reduce_spec as_dense_spec sort_merge_counts_spec mvals
  encode encode_b decode slice_keys slice_header slice_range num_values_per_key keys_unique
  encode_spec group_by_key counts_spec keys_spec slice_spec boundaries_spec
  index index_g index_opt_g truncate_docs termfreqs docfreq doclengths corpus_size total_len positions
  tf_spec df_spec lens_spec total_spec positions_spec
  phrase_freqs choose_strategy get_all_posts phrase_spec phrase_nonoverlap_spec no_adjacent_repeat
  score_bm25 score_args kernel_bits score_bits
  termfreqs_range phrase_freqs_range tf_range_spec phrase_range_spec aligned
  of_index select_chain copy v_termfreqs v_phrase_freqs v_docfreq v_doclengths v_positions v_score_bm25 v_score_args
  view_docs compose_rows rows0
  run init_pool
  edismax edismax_spec
  edismax_anysim anysim_spec
  mm_create mm_load dir_count
  prog_tf prog_phrase prog_df prog_score prog_select spawn run_sched serial_schedule results
  element_of fill_element rebuild
  slop_freqs slop_freqs_v slop_spec intersect_all span_search.
