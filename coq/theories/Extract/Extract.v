(* Extraction of every executable Model and Spec entry point.  ExtrOcamlBasic only. *)
From Coq Require Import Extraction ExtrOcamlBasic.
From SA Require Import Base.Prelude Solr.MM Solr.MM_Spec.
Extraction "samodel.ml" mm_f64 solr_mm.
