(* C19: an array REBUILT from elements answers like a fresh index of the corresponding documents in their new
   row order.

   Route: an element [e] REPRESENTS a document [d] (el_repr) when, for every term, it carries the canonical
   encoding of the offsets of the term in [d] under SOME row id r < 2^28, and the length of [d].
     1. index_ok' : index_ok with the dictionary clause relaxed to membership (the rebuilt dictionary lists the
        terms in first-occurrence order over the elements, an element lists them in the order of the source
        dictionary);  every query theorem stated from index_ok transfers to index_ok' (the queries read the
        dictionary only through [known]).
     2. rekey j (word_of r b s) = word_of j b s, hence map (rekey j) (encode_spec [(r,p)..]) = encode_spec [(j,p)..].
     3. Forall2 el_repr docs els -> length docs <= 2^28 -> index_ok' docs (rebuild els)      (rebuild_ok)
     4. every element taken out of a view satisfying view_inv represents the document the view shows at that
        row (element_of_ok), and the fill element represents the empty document.
   The end-to-end theorems (single source, take with fill, several sources, answers) are in Rebuild_Proofs2.v. *)
From Coq Require Import Sorted Permutation.
From SA Require Import Base.Prelude Kernels.Spec Kernels.Linear Kernels.Linear_Proofs Codec.Codec Codec.Codec_Spec
  Codec.Codec_Proofs Codec.Codec_Proofs2 Index.Index Index.Index_Spec Index.Index_Proofs Index.Index_Proofs2
  Index.Index_Proofs3 Query.Phrase Query.Phrase_Spec Query.Phrase_Final View.View View.View_Spec View.View_Proofs
  View.View_Phrase Rebuild.Rebuild.
Open Scope N_scope.

(* ================= 1. index_ok' : the dictionary as a set ================= *)
Definition index_ok' (docs : list (list N)) (ix : sindex) : Prop :=
  (forall t, In t (concat docs) -> lookup t (ix_posts ix) = Some (encode_spec (term_pairs docs t))) /\
  (forall t, ~ In t (concat docs) -> lookup t (ix_posts ix) = None) /\
  (forall t, In t (ix_terms ix) <-> In t (concat docs)) /\
  ix_lens ix = lens_spec docs.

Lemma index_ok_weaken docs ix : index_ok docs ix -> index_ok' docs ix.
Proof.
  intros (Hp & Ha & Ht & Hl). split; [exact Hp|]. split; [exact Ha|]. split; [|exact Hl].
  intro t. rewrite Ht, nodup_n_in. cbn [In]. tauto.
Qed.

(* the same postings and lengths under the canonical dictionary *)
Definition canon (docs : list (list N)) (ix : sindex) : sindex :=
  {| ix_terms := nodup_n [] (concat docs); ix_posts := ix_posts ix; ix_lens := ix_lens ix |}.

Lemma canon_ok docs ix : index_ok' docs ix -> index_ok docs (canon docs ix).
Proof.
  intros (Hp & Ha & _ & Hl). unfold index_ok. cbn [canon ix_posts ix_terms ix_lens].
  split; [exact Hp|]. split; [exact Ha|]. split; [reflexivity|exact Hl].
Qed.

Lemma bool_iff_eq (a b : bool) : (a = true <-> b = true) -> a = b.
Proof.
  destruct a, b; intros [H1 H2]; try reflexivity.
  - symmetry. apply H1. reflexivity.
  - apply H2. reflexivity.
Qed.

Lemma known_canon docs ix t : index_ok' docs ix -> known ix t = known (canon docs ix) t.
Proof.
  intros (_ & _ & Ht & _). apply bool_iff_eq. unfold known. cbn [canon ix_terms].
  fold (mem_n t (ix_terms ix)). fold (mem_n t (nodup_n [] (concat docs))).
  rewrite !mem_n_in, Ht, nodup_n_in. cbn [In]. tauto.
Qed.

Lemma termfreqs_canon docs ix t : index_ok' docs ix -> termfreqs ix t = termfreqs (canon docs ix) t.
Proof. intro H. unfold termfreqs, get_posts, n_docs. rewrite (known_canon docs ix t H). reflexivity. Qed.

Lemma docfreq_canon docs ix t : index_ok' docs ix -> docfreq ix t = docfreq (canon docs ix) t.
Proof. intro H. unfold docfreq, get_posts. rewrite (known_canon docs ix t H). reflexivity. Qed.

Lemma positions_canon docs ix t : index_ok' docs ix -> positions ix t = positions (canon docs ix) t.
Proof. intro H. unfold positions. rewrite (known_canon docs ix t H). reflexivity. Qed.

Lemma get_all_posts_canon docs ix : forall ts, get_all_posts ix ts = get_all_posts (canon docs ix) ts.
Proof.
  induction ts as [|t ts IH]; [reflexivity|]. cbn [get_all_posts]. rewrite IH. reflexivity.
Qed.

Lemma phrase_freqs_canon docs ix ph : index_ok' docs ix -> phrase_freqs ix ph = phrase_freqs (canon docs ix) ph.
Proof.
  intro H. unfold phrase_freqs.
  assert (E : forallb (known ix) ph = forallb (known (canon docs ix)) ph).
  { induction ph as [|t ph IH]; [reflexivity|]. cbn [forallb]. rewrite IH, (known_canon docs ix t H). reflexivity. }
  rewrite E, (get_all_posts_canon docs ix ph). reflexivity.
Qed.

(* ---- the query theorems from index_ok' ---- *)
Section Queries'.
Variables (docs : list (list N)) (ix : sindex).
Hypothesis Hwf : wf_docs docs.
Hypothesis Hok : index_ok' docs ix.

Theorem termfreqs_ok' t : termfreqs ix t = AOk (tf_spec docs t).
Proof. rewrite (termfreqs_canon docs ix t Hok). apply termfreqs_ok; [exact Hwf|apply canon_ok; exact Hok]. Qed.

Theorem docfreq_ok' t : docfreq ix t = AOk (df_spec docs t).
Proof. rewrite (docfreq_canon docs ix t Hok). apply docfreq_ok; [exact Hwf|apply canon_ok; exact Hok]. Qed.

Theorem doclens_ok' :
  doclengths ix = lens_spec docs /\ corpus_size ix = N.of_nat (length docs) /\ total_len ix = total_spec docs.
Proof. exact (doclens_ok docs (canon docs ix) (canon_ok docs ix Hok)). Qed.

Theorem positions_ok' t : In t (concat docs) -> positions ix t = AOk (positions_spec docs t).
Proof.
  intro Hi. rewrite (positions_canon docs ix t Hok). apply positions_ok; [exact Hwf|apply canon_ok; exact Hok|exact Hi].
Qed.

Theorem positions_absent' t : ~ In t (concat docs) -> positions ix t = AExc TermMissing.
Proof.
  intro Hn. rewrite (positions_canon docs ix t Hok). apply (positions_absent docs); [apply canon_ok; exact Hok|exact Hn].
Qed.

Theorem phrase_freqs_ok' ph : (2 <= length ph)%nat -> no_adjacent_repeat ph = true ->
  phrase_freqs ix ph = AOk (phrase_spec docs ph).
Proof.
  intros Hl Hr. rewrite (phrase_freqs_canon docs ix ph Hok).
  apply phrase_freqs_on_index; [exact Hwf|apply canon_ok; exact Hok|exact Hl|exact Hr].
Qed.

Theorem phrase_freqs_absent' ph t : In t ph -> ~ In t (concat docs) ->
  phrase_freqs ix ph = AOk (repeat 0 (length docs)).
Proof.
  intros Hi Hn. rewrite (phrase_freqs_canon docs ix ph Hok).
  apply (phrase_freqs_absent docs (canon docs ix) ph t); [apply canon_ok; exact Hok|exact Hi|exact Hn].
Qed.
End Queries'.

(* ================= 2. re-keying a word, and an encoded document ================= *)
Lemma wnot_key_mask_val : wnot key_mask = 68719476735.
Proof. vm_compute. reflexivity. Qed.

Lemma rekey_word r j b s : r < 2^28 -> j < 2^28 -> b < 2^18 -> s < 2^18 -> rekey j (word_of r b s) = word_of j b s.
Proof.
  intros Hr Hj Hb Hs. unfold rekey. rewrite wnot_key_mask_val, key_shift_val.
  change 68719476735 with (N.ones 36). rewrite N.land_ones. unfold wshl, W64, word_of.
  assert (E1 : (r * 2^36 + b * 2^18 + s) mod 2^36 = b * 2^18 + s) by (pows; lia).
  assert (E2 : N.shiftl j 36 mod 18446744073709551616 = N.shiftl j 36).
  { apply N.mod_small. rewrite N.shiftl_mul_pow2. pows. lia. }
  rewrite E1, E2, N.lor_comm, lor_shiftl_add; [lia|pows; lia].
Qed.

(* the key field has 28 bits: row 2^28 is re-keyed exactly like row 0 (why  length docs <= 2^28  is needed) *)
Lemma rekey_wraps w : rekey (2^28) w = rekey 0 w.
Proof. unfold rekey. replace (wshl (2^28) key_shift) with (wshl 0 key_shift) by (vm_compute; reflexivity). reflexivity. Qed.

Lemma rekey_aux r j : r < 2^28 -> j < 2^28 -> forall l b s, b < 2^18 -> s < 2^18 -> Forall (fun p => p < 2^18) l ->
  map (rekey j) (encode_aux (Some (r, b, s)) (map (fun p => (r, p)) l))
  = encode_aux (Some (j, b, s)) (map (fun p => (j, p)) l).
Proof.
  intros Hr Hj. induction l as [|p l IH]; intros b s Hb Hs Hl.
  - cbn [map encode_aux]. now rewrite rekey_word.
  - inversion Hl as [|? ? Hp Hl']; subst. cbn [map encode_aux]. rewrite !N.eqb_refl. cbn [andb].
    destruct (p / 18 =? b).
    + apply IH; try assumption. apply lor_lt18; [assumption|apply onehot_lt].
    + cbn [map]. rewrite rekey_word by assumption. f_equal. apply IH; [|apply onehot_lt|assumption].
      pows. lia.
Qed.

Lemma rekey_encode r j l : r < 2^28 -> j < 2^28 -> Forall (fun p => p < 2^18) l ->
  map (rekey j) (encode_spec (map (fun p => (r, p)) l)) = encode_spec (map (fun p => (j, p)) l).
Proof.
  intros Hr Hj Hl. destruct l as [|p l]; [reflexivity|]. inversion Hl as [|? ? Hp Hl']; subst.
  unfold encode_spec. cbn [map encode_aux]. apply rekey_aux; try assumption; [pows; lia|apply onehot_lt].
Qed.

(* ================= 3. elements that represent documents ================= *)
Definition enc_doc (r t : N) (d : list N) : list N := encode_spec (map (fun p => (r, p)) (offsets_from 0 t d)).

Definition el_repr (d : list N) (e : element) : Prop :=
  N.of_nat (length d) <= 262143 /\ el_len e = N.of_nat (length d) /\
  exists r, r < 2^28 /\ forall t, lookup t (el_terms e) = if mem_n t d then Some (enc_doc r t d) else None.

Lemma fill_repr : el_repr [] fill_element.
Proof.
  split; [cbn; lia|]. split; [reflexivity|]. exists 0. split; [pows; lia|]. intro t. reflexivity.
Qed.

Lemma lookup_some_in {A} t : forall (l : list (N * A)), In t (map fst l) <-> lookup t l <> None.
Proof.
  induction l as [|[k v] l IH]; cbn [map fst In lookup].
  - split; [intros []|intro H; apply H; reflexivity].
  - destruct (N.eqb_spec t k) as [->|Hne].
    + split; [discriminate|left; reflexivity].
    + rewrite <- IH. split; [intros [E|H]; [congruence|exact H]|tauto].
Qed.

Lemma el_repr_terms d e t : el_repr d e -> (In t (map fst (el_terms e)) <-> In t d).
Proof.
  intros (_ & _ & r & _ & Hl). rewrite lookup_some_in, (Hl t). destruct (mem_n t d) eqn:E.
  - apply mem_n_in in E. split; [intros _; exact E|discriminate].
  - split; [intro H; exfalso; apply H; reflexivity|].
    intro H. apply mem_n_in in H. congruence.
Qed.

Lemma offsets_lt18 t d : N.of_nat (length d) <= 262143 -> Forall (fun p => p < 2^18) (offsets_from 0 t d).
Proof.
  intro H. eapply Forall_impl; [|apply (offsets_bounds t d 0)]. cbn beta. intros p Hp. pows. lia.
Qed.

Lemma words_of_term_ok t : forall docs els, Forall2 el_repr docs els ->
  forall j, j + N.of_nat (length docs) <= 2^28 -> words_of_term t j els = encode_spec (tp_from j docs t).
Proof.
  induction 1 as [|d e docs els Hde Hrest IH]; intros j Hj; [reflexivity|].
  cbn [length] in Hj. cbn [words_of_term tp_from].
  destruct Hde as (Hlen & _ & r & Hr & Hlk). rewrite (Hlk t).
  rewrite (encode_spec_app (j + 1)).
  - rewrite IH by lia. f_equal. destruct (mem_n t d) eqn:E.
    + unfold enc_doc. apply rekey_encode; [exact Hr|pows; lia|apply offsets_lt18; exact Hlen].
    + assert (Hn : ~ In t d) by (intro Hi; apply mem_n_in in Hi; congruence).
      apply (offsets_nil_iff t d 0) in Hn. rewrite Hn. reflexivity.
  - rewrite Forall_map. apply Forall_forall. intros p _. cbn [fst]. lia.
  - eapply Forall_impl; [|apply (tp_keys t docs (j + 1))]. cbn beta. intros kp Hk. lia.
Qed.

Lemma repr_terms_iff : forall docs els, Forall2 el_repr docs els ->
  forall t, In t (concat (map (fun e => map fst (el_terms e)) els)) <-> In t (concat docs).
Proof.
  induction 1 as [|d e docs els Hde Hrest IH]; intro t; [reflexivity|].
  cbn [map concat]. rewrite !in_app_iff, IH, (el_repr_terms d e t Hde). reflexivity.
Qed.

Lemma repr_lens : forall docs els, Forall2 el_repr docs els -> map el_len els = lens_spec docs.
Proof.
  induction 1 as [|d e docs els Hde Hrest IH]; [reflexivity|]. cbn [map lens_spec]. fold (lens_spec docs).
  destruct Hde as (_ & El & _). now rewrite El, IH.
Qed.

Lemma repr_wf : forall docs els, Forall2 el_repr docs els -> N.of_nat (length docs) < 2^28 -> wf_docs docs.
Proof.
  intros docs els H Hn. split; [|exact Hn]. induction H as [|d e docs els Hde Hrest IH]; [constructor|].
  cbn [length] in Hn. constructor; [exact (proj1 Hde)|]. apply IH. lia.
Qed.

(* the core: the rebuilt index of representing elements stores the postings of the represented documents *)
Theorem rebuild_ok docs els : Forall2 el_repr docs els -> N.of_nat (length docs) <= 2^28 ->
  index_ok' docs (rebuild els).
Proof.
  intros H Hn. unfold index_ok', rebuild. cbn [ix_posts ix_terms ix_lens].
  set (T := concat (map (fun e => map fst (el_terms e)) els)).
  assert (HT : forall t, In t (nodup_n [] T) <-> In t (concat docs)).
  { intro t. rewrite nodup_n_in. cbn [In]. unfold T. rewrite (repr_terms_iff docs els H t). tauto. }
  split; [|split; [|split]].
  - intros t Ht. rewrite (lookup_map_keys (fun t => words_of_term t 0 els)).
    replace (mem_n t (nodup_n [] T)) with true by (symmetry; apply mem_n_in, HT, Ht).
    rewrite (words_of_term_ok t docs els H 0) by lia. now rewrite term_pairs_tp.
  - intros t Ht. rewrite (lookup_map_keys (fun t => words_of_term t 0 els)).
    destruct (mem_n t (nodup_n [] T)) eqn:E; [|reflexivity]. apply mem_n_in, HT in E. contradiction.
  - exact HT.
  - apply repr_lens. exact H.
Qed.

(* ================= 4. the elements of a view ================= *)
Lemma filter_none {A} (f : A -> bool) l : Forall (fun x => f x = false) l -> filter f l = [].
Proof. induction 1 as [|x l Hx _ IH]; [reflexivity|]. cbn [filter]. now rewrite Hx. Qed.

Lemma tp_single t r : forall docs i, i <= r ->
  filter (keyf (fun k => k =? r)) (tp_from i docs t)
  = map (fun p => (r, p)) (offsets_from 0 t (nth (N.to_nat (r - i)) docs [])).
Proof.
  induction docs as [|d rest IH]; intros i Hi.
  - rewrite nth_nil_nil. reflexivity.
  - cbn [tp_from]. rewrite filter_app, (filter_map_key (fun k => k =? r) i (offsets_from 0 t d)).
    destruct (N.eqb_spec i r) as [->|Hne].
    + replace (N.to_nat (r - r)) with O by lia. cbn [nth]. rewrite filter_none; [apply app_nil_r|].
      eapply Forall_impl; [|apply (tp_keys t rest (r + 1))]. cbn beta. intros kp Hk. unfold keyf.
      apply N.eqb_neq. lia.
    + cbn [app]. rewrite IH by lia. replace (N.to_nat (r - i)) with (S (N.to_nat (r - (i + 1)))) by lia. reflexivity.
Qed.

Section Elements.
Variables (docs : list (list N)) (ix : sindex) (v : sarray) (R : list N).
Hypothesis Hwf : wf_docs docs.
Hypothesis Hok : index_ok docs ix.
Hypothesis Hinv : view_inv docs ix v R.

Definition dview (r : N) : list N := nth (N.to_nat r) docs [].

Lemma fpairs_single Q t r : Q r = true ->
  fpairs docs (fun k => mem_n k [r] && Q k) t = map (fun p => (r, p)) (offsets_from 0 t (dview r)).
Proof.
  intro HQ. unfold fpairs, dview.
  transitivity (filter (keyf (fun k => k =? r)) (tp_from 0 docs t)).
  - apply filter_ext. intros [k p]. unfold keyf. cbn [fst mem_n existsb].
    destruct (N.eqb_spec k r) as [->|Hne]; [rewrite HQ|]; reflexivity.
  - rewrite (tp_single t r docs 0) by lia. rewrite N.sub_0_r. reflexivity.
Qed.

Lemma dview_in_corpus r t : In t (dview r) -> In t (concat docs).
Proof.
  intro H. destruct (in_dec N.eq_dec t (concat docs)) as [Hi|Hn]; [exact Hi|].
  exfalso. exact (nth_docs_absent docs t (N.to_nat r) Hn H).
Qed.

Lemma element_terms_ok h Q r : (forall t, In t (concat docs) -> get_enc h t = AOk (encode_spec (fpairs docs Q t))) ->
  Q r = true -> r < N.of_nat (length docs) ->
  forall ts, (forall t, In t ts -> In t (concat docs)) ->
  exists l, element_terms h r ts = AOk l /\
    forall t, lookup t l = if mem_n t ts && mem_n t (dview r) then Some (enc_doc r t (dview r)) else None.
Proof.
  intros Henc HQ Hr. induction ts as [|x ts IH]; intro Hts.
  - exists []. split; [reflexivity|]. intro t. reflexivity.
  - destruct IH as (more & Em & Hm); [intros t Ht; apply Hts; right; exact Ht|].
    cbn [element_terms]. rewrite Em. cbn [abind]. rewrite (Henc x) by (apply Hts; left; reflexivity).
    rewrite (slice_fpairs docs Hwf Q x [r]); [|repeat constructor|repeat constructor; exact Hr].
    cbn [lift abind]. rewrite (fpairs_single Q x r HQ). fold (enc_doc r x (dview r)).
    destruct (mem_n x (dview r)) eqn:Ex.
    + assert (Hne : enc_doc r x (dview r) <> []).
      { unfold enc_doc. apply encode_spec_nonempty. intro E0. apply map_eq_nil in E0.
        apply (offsets_nil_iff x (dview r) 0) in E0. apply E0. apply mem_n_in. exact Ex. }
      destruct (enc_doc r x (dview r)) as [|w ws] eqn:Ee; [congruence|].
      eexists. split; [reflexivity|]. intro t. cbn [lookup mem_n existsb].
      destruct (N.eqb_spec t x) as [->|Hne'].
      * cbn [orb andb]. rewrite Ex, Ee. reflexivity.
      * cbn [orb]. apply Hm.
    + assert (He : enc_doc r x (dview r) = []).
      { unfold enc_doc. assert (Hn : ~ In x (dview r)) by (intro Hi; apply mem_n_in in Hi; congruence).
        apply (offsets_nil_iff x (dview r) 0) in Hn. rewrite Hn. reflexivity. }
      rewrite He. exists more. split; [reflexivity|]. intro t. rewrite (Hm t). cbn [mem_n existsb].
      destruct (N.eqb_spec t x) as [->|Hne']; [|reflexivity].
      cbn [orb]. fold (mem_n x ts). rewrite Ex, !andb_false_r. reflexivity.
Qed.

Lemma nth_lens r : r < N.of_nat (length docs) -> nth (N.to_nat r) (lens_spec docs) 0 = N.of_nat (length (dview r)).
Proof.
  intro Hr. unfold lens_spec, dview. apply (nth_map_in (fun d : list N => N.of_nat (length d)) docs (N.to_nat r) [] 0). lia.
Qed.

Lemma dview_short r : N.of_nat (length (dview r)) <= 262143.
Proof.
  unfold dview. destruct (nth_in_or_default (N.to_nat r) docs []) as [Hd|Hd]; [|rewrite Hd; cbn; lia].
  destruct Hwf as [Hs _]. rewrite Forall_forall in Hs. exact (Hs _ Hd).
Qed.

(* arr[i] succeeds on every row of the view and represents the document shown at that row *)
Lemma element_of_ok i : (i < length R)%nat ->
  exists e, element_of v i = AOk e /\ el_repr (dview (nth i R 0)) e.
Proof.
  intro Hi. destruct Hinv as [Hrows Hbound Hl Hterms Hroot Htot Hn Hmax Hh].
  destruct (get_enc_inv docs ix Hwf Hok v R Hinv) as (Q & HQ & Henc).
  set (r := nth i R 0). assert (HrR : In r R) by (apply nth_In; exact Hi).
  assert (Hr : r < N.of_nat (length docs)) by (rewrite Forall_forall in Hbound; exact (Hbound r HrR)).
  assert (HQr : Q r = true) by (rewrite Forall_forall in HQ; exact (HQ r HrR)).
  assert (Hdict : forall t, In t (a_terms v) <-> In t (concat docs)).
  { intro t. rewrite Hterms, (proj1 (proj2 (proj2 Hok))), nodup_n_in. cbn [In]. tauto. }
  destruct (element_terms_ok (p_handle (a_posns v)) Q r Henc HQr Hr (a_terms v)) as (l & El & Hlk).
  { intros t Ht. apply Hdict. exact Ht. }
  unfold element_of. rewrite Hrows. rewrite (nth_error_nth' R 0 Hi). fold r. rewrite El. cbn [abind].
  eexists. split; [reflexivity|]. split; [apply dview_short|]. split.
  - cbn [el_len]. rewrite Hl. rewrite (nth_map_in (fun r => nth (N.to_nat r) (lens_spec docs) 0) R i 0 0 Hi).
    fold r. apply nth_lens. exact Hr.
  - exists r. split; [destruct Hwf as [_ Hnd]; lia|]. intro t. cbn [el_terms]. rewrite (Hlk t).
    destruct (mem_n t (dview r)) eqn:Et; [|now rewrite andb_false_r].
    replace (mem_n t (a_terms v)) with true; [reflexivity|]. symmetry. apply mem_n_in, Hdict.
    apply (dview_in_corpus r). apply mem_n_in. exact Et.
Qed.

Lemma rows_length_of_ok i e : element_of v i = AOk e -> (i < length R)%nat.
Proof.
  unfold element_of. rewrite (vi_rows _ _ _ _ Hinv). intro H.
  destruct (nth_error R i) eqn:E; [|discriminate]. apply nth_error_Some. congruence.
Qed.

Lemma element_of_repr i e : element_of v i = AOk e -> el_repr (nth i (map dview R) []) e.
Proof.
  intro H. pose proof (rows_length_of_ok i e H) as Hi. destruct (element_of_ok i Hi) as (e' & E' & Hrep).
  rewrite H in E'. inversion E'; subst e'.
  rewrite (nth_map_in dview R i 0 [] Hi). exact Hrep.
Qed.

Lemma elements_from_ok : forall is, Forall (fun i => (i < length R)%nat) is ->
  exists els, elements_from v is = AOk els /\ Forall2 el_repr (map (fun i => dview (nth i R 0)) is) els.
Proof.
  induction 1 as [|i is Hi _ (els & Ee & Hrep)]; [exists []; split; [reflexivity|constructor]|].
  destruct (element_of_ok i Hi) as (e & Ei & He). cbn [elements_from map]. rewrite Ei. cbn [abind]. rewrite Ee. cbn [abind].
  exists (e :: els). split; [reflexivity|]. constructor; assumption.
Qed.

(* list(arr): total, and element by element the documents the view shows *)
Lemma elements_of_ok : exists els, elements_of v = AOk els /\ Forall2 el_repr (map dview R) els.
Proof.
  unfold elements_of. rewrite (vi_rows _ _ _ _ Hinv).
  destruct (elements_from_ok (seq 0 (length R))) as (els & E & Hrep).
  { apply Forall_forall. intros i Hi. apply in_seq in Hi. lia. }
  exists els. split; [exact E|].
  rewrite <- (map_map (fun i => nth i R 0) dview), map_nth_seq in Hrep. exact Hrep.
Qed.

(* take(indices, allow_fill=True) *)
Definition fill_doc (o : option nat) : list N := match o with Some i => nth i (map dview R) [] | None => [] end.

Lemma take_fill_ok : forall idx, Forall (fun o => match o with Some i => (i < length R)%nat | None => True end) idx ->
  exists els, take_fill_elements v idx = AOk els /\ Forall2 el_repr (map fill_doc idx) els.
Proof.
  induction 1 as [|o idx Ho _ (els & Ee & Hrep)]; [exists []; split; [reflexivity|constructor]|].
  destruct o as [i|]; cbn [take_fill_elements map fill_doc].
  - destruct (element_of_ok i Ho) as (e & Ei & He). rewrite Ei. cbn [abind]. rewrite Ee. cbn [abind].
    exists (e :: els). split; [reflexivity|]. constructor; [|exact Hrep].
    rewrite (nth_map_in dview R i 0 [] Ho). exact He.
  - rewrite Ee. cbn [abind]. exists (fill_element :: els). split; [reflexivity|].
    constructor; [exact fill_repr|exact Hrep].
Qed.

Lemma take_fill_repr : forall idx els, take_fill_elements v idx = AOk els -> Forall2 el_repr (map fill_doc idx) els.
Proof.
  induction idx as [|o idx IH]; intros els H.
  - cbn [take_fill_elements] in H. inversion H; subst. constructor.
  - destruct o as [i|]; cbn [take_fill_elements] in H.
    + destruct (element_of v i) as [e| | |] eqn:Ei; cbn [abind] in H; try discriminate.
      destruct (take_fill_elements v idx) as [es| | |] eqn:Ee; cbn [abind] in H; try discriminate.
      inversion H; subst. cbn [map fill_doc]. constructor; [apply element_of_repr; exact Ei|apply IH; reflexivity].
    + destruct (take_fill_elements v idx) as [es| | |] eqn:Ee; cbn [abind] in H; try discriminate.
      inversion H; subst. cbn [map fill_doc]. constructor; [exact fill_repr|apply IH; reflexivity].
Qed.
End Elements.

Print Assumptions rebuild_ok.
Print Assumptions element_of_ok.
Print Assumptions elements_of_ok.
Print Assumptions take_fill_ok.
Print Assumptions phrase_freqs_ok'.
