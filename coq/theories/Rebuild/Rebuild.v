(* Arrays rebuilt from elements (C19), as the code is after the repairs of D12:
     postings.py: __getitem__(int) -> _row_to_postings_row (214-225): an element carries, per distinct term of
       its document, the already-encoded words of that document (looked up under the row id of the indexed
       corpus) and the document length;  take(allow_fill) builds from the list of taken elements / fill values
     indexing.py: build_index_from_terms_list (298-342); middle_out.py: PosnBitArrayAlreadyEncBuilder:
       words are RE-KEYED to the new row and appended per term, concatenated at build time.
   The rebuilt array is again an [sindex]; every query is the fresh-index query of Index/Index.v.
   No proofs here. *)
From SA Require Import Base.Prelude Kernels.Linear Codec.Codec Index.Index View.View.
Open Scope N_scope.

Record element := { el_terms : list (N * list N); el_len : N }.     (* (term, encoded words of this document) *)
Definition fill_element : element := {| el_terms := []; el_len := 0 |}.     (* Terms({}, encoded=True) *)

(* arr[i] for an integer i *)
Fixpoint element_terms (h : handle) (r : N) (ts : list N) : api (list (N * list N)) :=
  match ts with
  | [] => AOk []
  | t :: rest =>
      ado more <- element_terms h r rest;
      match get_enc h t with
      | AOk enc =>
          ado sl <- lift (slice_keys enc [r]);       (* posns.doc_encoded_posns(term, doc_id = rows[i]) *)
          AOk (match sl with [] => more | _ => (t, sl) :: more end)
      | AExc KeyError => AOk more
      | AExc e => AExc e | AFault k b i => AFault k b i | AFuel => AFuel
      end
  end.
Definition element_of (a : sarray) (i : nat) : api element :=
  match nth_error (a_rows a) i with
  | None => AExc IndexError
  | Some r =>
      ado ts <- element_terms (p_handle (a_posns a)) r (a_terms a);
      AOk {| el_terms := ts; el_len := nth i (a_lens a) 0 |}
  end.
Fixpoint elements_from (a : sarray) (is : list nat) : api (list element) :=
  match is with
  | [] => AOk []
  | i :: rest => ado e <- element_of a i; ado es <- elements_from a rest; AOk (e :: es)
  end.
Definition elements_of (a : sarray) : api (list element) := elements_from a (seq 0 (length (a_rows a))).

(* (posns & ~key_mask) | (doc_id << (64 - key_bits)) *)
Definition rekey (j : N) (w : N) : N := N.lor (N.land w (wnot key_mask)) (wshl j key_shift).

Fixpoint words_of_term (t : N) (j : N) (els : list element) : list N :=
  match els with
  | [] => []
  | e :: rest =>
      (match lookup t (el_terms e) with Some ws => map (rekey j) ws | None => [] end) ++ words_of_term t (j + 1) rest
  end.

(* SearchArray(list_of_elements) *)
Definition rebuild (els : list element) : sindex :=
  let terms := nodup_n [] (concat (map (fun e => map fst (el_terms e)) els)) in
  {| ix_terms := terms;
     ix_posts := map (fun t => (t, words_of_term t 0 els)) terms;
     ix_lens := map el_len els |}.

(* take(indices, allow_fill=True): -1 marks a filled row *)
Fixpoint take_fill_elements (a : sarray) (idx : list (option nat)) : api (list element) :=
  match idx with
  | [] => AOk []
  | None :: rest => ado es <- take_fill_elements a rest; AOk (fill_element :: es)
  | Some i :: rest => ado e <- element_of a i; ado es <- take_fill_elements a rest; AOk (e :: es)
  end.
