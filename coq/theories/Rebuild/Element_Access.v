(* C06, last clause: element access (arr[i]) on any chain of selections returns the document's distinct terms and its
   length.  A corollary of the element representation theorem used for C19 (Rebuild_Proofs2.elements_of_repr). *)
From Coq Require Import Lia.
From SA Require Import Base.Prelude Index.Index Index.Index_Spec View.View View.View_Spec View.View_Proofs
  Rebuild.Rebuild Rebuild.Rebuild_Proofs Rebuild.Rebuild_Proofs2.
Open Scope N_scope.

Definition element_is (d : list N) (e : element) : Prop :=
  el_len e = N.of_nat (length d) /\ forall t, In t (map fst (el_terms e)) <-> In t d.

Lemma el_repr_is d e : el_repr d e -> element_is d e.
Proof.
  intros H. split; [exact (proj1 (proj2 H))|]. intro t. exact (el_repr_terms d e t H).
Qed.

Theorem element_access_ok docs bs ix avoid keys v els :
  wf_docs docs -> index false bs docs = AOk ix -> valid_keys (length docs) keys ->
  select_chain (of_index ix avoid) keys = AOk v -> elements_of v = AOk els ->
  Forall2 element_is (view_docs docs keys) els.
Proof.
  intros Hwf E Hv Ev Ee.
  pose proof (elements_of_repr docs bs ix avoid keys v els Hwf E Hv Ev Ee) as H.
  clear Ee Ev. induction H as [|d e ds es Hde _ IH]; [constructor|].
  constructor; [apply el_repr_is; exact Hde|exact IH].
Qed.
Print Assumptions element_access_ok.
