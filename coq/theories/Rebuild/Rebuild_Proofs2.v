(* C19, end to end: arrays rebuilt from the elements of views (list(arr), take with fill, pd.concat of several
   arrays) store, term by term, the postings of the documents in their NEW row order (index_ok'), and therefore
   answer termfreqs / docfreq / doclengths / positions / phrase_freqs like a fresh index of those documents.

   The bound  rows < 2^28  (<= 2^28 for index_ok' alone) is necessary: the key field has 28 bits and
   Rebuild_Proofs.rekey_wraps shows row 2^28 is re-keyed exactly like row 0.  It does not follow from the
   validity of a key chain (a key may repeat rows), so it is a hypothesis also of the single-source theorem. *)
From Coq Require Import Sorted Permutation.
From SA Require Import Base.Prelude Kernels.Spec Kernels.Linear Kernels.Linear_Proofs Codec.Codec Codec.Codec_Spec
  Codec.Codec_Proofs Codec.Codec_Proofs2 Index.Index Index.Index_Spec Index.Index_Proofs Index.Index_Proofs2
  Index.Index_Proofs3 Query.Phrase Query.Phrase_Spec Query.Phrase_Final View.View View.View_Spec View.View_Proofs
  View.View_Phrase Rebuild.Rebuild Rebuild.Rebuild_Proofs.
Open Scope N_scope.

(* ================= 1. every answer of the rebuilt array ================= *)
Definition answers_like (docs' : list (list N)) (ix : sindex) : Prop :=
  wf_docs docs' /\ index_ok' docs' ix /\
  (forall t, termfreqs ix t = AOk (tf_spec docs' t)) /\
  (forall t, docfreq ix t = AOk (df_spec docs' t)) /\
  (doclengths ix = lens_spec docs' /\ corpus_size ix = N.of_nat (length docs') /\ total_len ix = total_spec docs') /\
  (forall t, In t (concat docs') -> positions ix t = AOk (positions_spec docs' t)) /\
  (forall t, ~ In t (concat docs') -> positions ix t = AExc TermMissing) /\
  (forall ph, (2 <= length ph)%nat -> no_adjacent_repeat ph = true -> phrase_freqs ix ph = AOk (phrase_spec docs' ph)) /\
  (forall ph t, In t ph -> ~ In t (concat docs') -> phrase_freqs ix ph = AOk (repeat 0 (length docs'))).

Theorem answers_of_ok' docs' ix : wf_docs docs' -> index_ok' docs' ix -> answers_like docs' ix.
Proof.
  intros Hwf Hok. split; [exact Hwf|]. split; [exact Hok|].
  split; [intro t; apply termfreqs_ok'; assumption|].
  split; [intro t; apply docfreq_ok'; assumption|].
  split; [apply doclens_ok'; assumption|].
  split; [intros t Ht; apply positions_ok'; assumption|].
  split; [intros t Ht; apply (positions_absent' docs'); assumption|].
  split; [intros ph Hl Hr; apply phrase_freqs_ok'; assumption|].
  intros ph t Hi Hn. apply (phrase_freqs_absent' docs' ix Hok ph t); assumption.
Qed.

Theorem repr_answers docs' els : Forall2 el_repr docs' els -> N.of_nat (length docs') < 2^28 ->
  answers_like docs' (rebuild els).
Proof.
  intros H Hn. apply answers_of_ok'; [exact (repr_wf docs' els H Hn)|]. apply rebuild_ok; [exact H|lia].
Qed.

(* ================= 2. one source: SearchArray(list(view)) ================= *)
Lemma view_docs_dview docs keys : map (dview docs) (compose_rows (rows0 docs) keys) = view_docs docs keys.
Proof. reflexivity. Qed.

Theorem elements_of_total docs bs ix avoid keys v :
  wf_docs docs -> index false bs docs = AOk ix -> valid_keys (length docs) keys ->
  select_chain (of_index ix avoid) keys = AOk v ->
  exists els, elements_of v = AOk els.
Proof.
  intros Hwf E Hv Ev. pose proof (index_ok_of docs bs ix Hwf E) as Hok.
  destruct (C06_invs docs bs ix avoid keys v Hwf E Hv Ev) as (Hinv & _).
  destruct (elements_of_ok docs ix v _ Hwf Hok Hinv) as (els & Ee & _). exists els. exact Ee.
Qed.

Lemma elements_of_repr docs bs ix avoid keys v els :
  wf_docs docs -> index false bs docs = AOk ix -> valid_keys (length docs) keys ->
  select_chain (of_index ix avoid) keys = AOk v -> elements_of v = AOk els ->
  Forall2 el_repr (view_docs docs keys) els.
Proof.
  intros Hwf E Hv Ev Ee. pose proof (index_ok_of docs bs ix Hwf E) as Hok.
  destruct (C06_invs docs bs ix avoid keys v Hwf E Hv Ev) as (Hinv & _).
  destruct (elements_of_ok docs ix v _ Hwf Hok Hinv) as (els' & Ee' & Hrep).
  rewrite Ee in Ee'. inversion Ee'; subst els'. rewrite <- view_docs_dview. exact Hrep.
Qed.

Theorem rebuild_index_ok_single docs bs ix avoid keys v els :
  wf_docs docs -> index false bs docs = AOk ix -> valid_keys (length docs) keys ->
  select_chain (of_index ix avoid) keys = AOk v -> elements_of v = AOk els ->
  N.of_nat (length (view_docs docs keys)) <= 2^28 ->
  index_ok' (view_docs docs keys) (rebuild els).
Proof.
  intros Hwf E Hv Ev Ee Hn. apply rebuild_ok; [|exact Hn]. exact (elements_of_repr docs bs ix avoid keys v els Hwf E Hv Ev Ee).
Qed.

Theorem rebuild_answers_single docs bs ix avoid keys v els :
  wf_docs docs -> index false bs docs = AOk ix -> valid_keys (length docs) keys ->
  select_chain (of_index ix avoid) keys = AOk v -> elements_of v = AOk els ->
  N.of_nat (length (view_docs docs keys)) < 2^28 ->
  answers_like (view_docs docs keys) (rebuild els).
Proof.
  intros Hwf E Hv Ev Ee Hn. apply repr_answers; [|exact Hn]. exact (elements_of_repr docs bs ix avoid keys v els Hwf E Hv Ev Ee).
Qed.

(* the identity rebuild: list(arr) of the fresh array itself *)
Corollary rebuild_answers_fresh docs bs ix avoid els :
  wf_docs docs -> index false bs docs = AOk ix -> elements_of (of_index ix avoid) = AOk els ->
  answers_like docs (rebuild els).
Proof.
  intros Hwf E Ee. rewrite <- (view_docs_nil docs).
  apply (rebuild_answers_single docs bs ix avoid [] (of_index ix avoid) els Hwf E I eq_refl Ee).
  rewrite view_docs_nil. exact (proj2 Hwf).
Qed.

(* ================= 3. take(indices, allow_fill=True) ================= *)
Definition taken_docs (vd : list (list N)) (idx : list (option nat)) : list (list N) :=
  map (fun o => match o with Some i => nth i vd [] | None => [] end) idx.

Lemma taken_docs_fill docs keys idx :
  map (fill_doc docs (compose_rows (rows0 docs) keys)) idx = taken_docs (view_docs docs keys) idx.
Proof. reflexivity. Qed.

Theorem take_fill_total docs bs ix avoid keys v idx :
  wf_docs docs -> index false bs docs = AOk ix -> valid_keys (length docs) keys ->
  select_chain (of_index ix avoid) keys = AOk v ->
  Forall (fun o => match o with Some i => (i < length (view_docs docs keys))%nat | None => True end) idx ->
  exists els, take_fill_elements v idx = AOk els.
Proof.
  intros Hwf E Hv Ev Hidx. pose proof (index_ok_of docs bs ix Hwf E) as Hok.
  destruct (C06_invs docs bs ix avoid keys v Hwf E Hv Ev) as (Hinv & _).
  destruct (take_fill_ok docs ix v _ Hwf Hok Hinv idx) as (els & Ee & _).
  - unfold view_docs in Hidx. rewrite map_length in Hidx. exact Hidx.
  - exists els. exact Ee.
Qed.

Theorem take_fill_answers docs bs ix avoid keys v idx els :
  wf_docs docs -> index false bs docs = AOk ix -> valid_keys (length docs) keys ->
  select_chain (of_index ix avoid) keys = AOk v -> take_fill_elements v idx = AOk els ->
  N.of_nat (length idx) < 2^28 ->
  answers_like (taken_docs (view_docs docs keys) idx) (rebuild els).
Proof.
  intros Hwf E Hv Ev Ee Hn. pose proof (index_ok_of docs bs ix Hwf E) as Hok.
  destruct (C06_invs docs bs ix avoid keys v Hwf E Hv Ev) as (Hinv & _).
  apply repr_answers.
  - rewrite <- taken_docs_fill. exact (take_fill_repr docs ix v _ Hwf Hok Hinv idx els Ee).
  - unfold taken_docs. rewrite map_length. exact Hn.
Qed.

(* ================= 4. several sources and fills: SearchArray(list of elements) / pd.concat ================= *)
Record source := {
  s_docs : list (list N); s_bs : nat; s_ix : sindex; s_avoid : bool; s_keys : list (list N); s_view : sarray }.
Definition source_ok (s : source) : Prop :=
  wf_docs (s_docs s) /\ index false (s_bs s) (s_docs s) = AOk (s_ix s) /\
  valid_keys (length (s_docs s)) (s_keys s) /\
  select_chain (of_index (s_ix s) (s_avoid s)) (s_keys s) = AOk (s_view s).
Definition src_docs (s : source) : list (list N) := view_docs (s_docs s) (s_keys s).

Inductive ref := RefEl (s i : nat) | RefFill.
(* the document a reference names *)
Definition ref_doc (srcs : list source) (r : ref) : list N :=
  match r with
  | RefEl s i => match nth_error srcs s with Some src => nth i (src_docs src) [] | None => [] end
  | RefFill => []
  end.
(* the element a reference names *)
Definition ref_el (srcs : list source) (r : ref) (e : element) : Prop :=
  match r with
  | RefEl s i => exists src, nth_error srcs s = Some src /\ element_of (s_view src) i = AOk e
  | RefFill => e = fill_element
  end.
Definition ref_valid (srcs : list source) (r : ref) : Prop :=
  match r with
  | RefEl s i => exists src, nth_error srcs s = Some src /\ (i < length (src_docs src))%nat
  | RefFill => True
  end.

Lemma source_element src i e : source_ok src -> element_of (s_view src) i = AOk e ->
  el_repr (nth i (src_docs src) []) e.
Proof.
  intros (Hwf & E & Hv & Ev) Ei. pose proof (index_ok_of _ _ _ Hwf E) as Hok.
  destruct (C06_invs _ _ _ _ _ _ Hwf E Hv Ev) as (Hinv & _).
  unfold src_docs. rewrite <- view_docs_dview. exact (element_of_repr _ _ _ _ Hwf Hok Hinv i e Ei).
Qed.

Lemma refs_repr srcs : Forall source_ok srcs -> forall refs els, Forall2 (ref_el srcs) refs els ->
  Forall2 el_repr (map (ref_doc srcs) refs) els.
Proof.
  intros Hs. induction 1 as [|r e refs els Hre _ IH]; [constructor|]. cbn [map]. constructor; [|exact IH].
  destruct r as [s i|]; cbn [ref_el ref_doc] in *.
  - destruct Hre as (src & Es & Ei). rewrite Es. apply source_element; [|exact Ei].
    rewrite Forall_forall in Hs. apply Hs. exact (nth_error_In _ _ Es).
  - subst e. exact fill_repr.
Qed.

Theorem rebuild_index_ok srcs refs els : Forall source_ok srcs -> Forall2 (ref_el srcs) refs els ->
  N.of_nat (length refs) <= 2^28 ->
  index_ok' (map (ref_doc srcs) refs) (rebuild els).
Proof.
  intros Hs Hr Hn. apply rebuild_ok; [exact (refs_repr srcs Hs refs els Hr)|]. rewrite map_length. exact Hn.
Qed.

Theorem rebuild_answers srcs refs els : Forall source_ok srcs -> Forall2 (ref_el srcs) refs els ->
  N.of_nat (length refs) < 2^28 ->
  answers_like (map (ref_doc srcs) refs) (rebuild els).
Proof.
  intros Hs Hr Hn. apply repr_answers; [exact (refs_repr srcs Hs refs els Hr)|]. rewrite map_length. exact Hn.
Qed.

(* the named elements exist whenever the references are in range *)
Theorem rebuild_total srcs refs : Forall source_ok srcs -> Forall (ref_valid srcs) refs ->
  exists els, Forall2 (ref_el srcs) refs els.
Proof.
  intros Hs. induction 1 as [|r refs Hr _ (els & IH)]; [exists []; constructor|].
  destruct r as [s i|]; cbn [ref_valid] in Hr.
  - destruct Hr as (src & Es & Hi).
    assert (Hsrc : source_ok src) by (rewrite Forall_forall in Hs; apply Hs; exact (nth_error_In _ _ Es)).
    destruct Hsrc as (Hwf & E & Hv & Ev). pose proof (index_ok_of _ _ _ Hwf E) as Hok.
    destruct (C06_invs _ _ _ _ _ _ Hwf E Hv Ev) as (Hinv & _).
    unfold src_docs, view_docs in Hi. rewrite map_length in Hi.
    destruct (element_of_ok _ _ _ _ Hwf Hok Hinv i Hi) as (e & Ei & _).
    exists (e :: els). constructor; [|exact IH]. cbn [ref_el]. exists src. split; assumption.
  - exists (fill_element :: els). constructor; [reflexivity|exact IH].
Qed.

(* pd.concat([a; b]): all rows of the first view, then all rows of the second *)
Corollary concat_two_answers a b ea eb : source_ok a -> source_ok b ->
  elements_of (s_view a) = AOk ea -> elements_of (s_view b) = AOk eb ->
  N.of_nat (length (src_docs a) + length (src_docs b)) < 2^28 ->
  answers_like (src_docs a ++ src_docs b) (rebuild (ea ++ eb)).
Proof.
  intros (Hwa & Ea & Hva & Eva) (Hwb & Eb & Hvb & Evb) Eea Eeb Hn.
  apply repr_answers; [|rewrite app_length; exact Hn]. apply Forall2_app.
  - exact (elements_of_repr _ _ _ _ _ _ _ Hwa Ea Hva Eva Eea).
  - exact (elements_of_repr _ _ _ _ _ _ _ Hwb Eb Hvb Evb Eeb).
Qed.

(* ================= 5. the hypotheses are satisfiable; the conclusion computed on a small corpus ================= *)
Definition rb_docs : list (list N) := [[1;2;1;3];[];[2];[1;1;2];[3;1]].
Definition rb_keys : list (list N) := [[4;2;0]].
Definition rb_new : list (list N) := [[3;1];[2];[1;2;1;3];[]].
Definition rb_run (avoid : bool) :=
  match index false 2 rb_docs with
  | AOk ix => match select_chain (of_index ix avoid) rb_keys with
     | AOk v => match take_fill_elements v [Some 0; Some 1; Some 2; None]%nat with
                | AOk els => let r := rebuild els in
                    Some (ix_terms r, termfreqs r 1, docfreq r 3, doclengths r, positions r 1, phrase_freqs r [1;2])
                | _ => None end
     | _ => None end
  | _ => None end.
Example rb_example_docs : taken_docs (view_docs rb_docs rb_keys) [Some 0; Some 1; Some 2; None]%nat = rb_new.
Proof. reflexivity. Qed.
(* the rebuilt dictionary [1;3;2] is NOT the first-occurrence order [3;1;2] of the new documents: index_ok' *)
Example rb_example_run : forall avoid,
  rb_run avoid = Some ([1;3;2], AOk [1;0;2;0], AOk 2, [2;1;4;0], AOk [[1];[];[0;2];[]], AOk [0;0;1;0])
  /\ nodup_n [] (concat rb_new) = [3;1;2].
Proof. intros [|]; vm_compute; split; reflexivity. Qed.

Print Assumptions repr_answers.
Print Assumptions elements_of_total.
Print Assumptions rebuild_index_ok_single.
Print Assumptions rebuild_answers_single.
Print Assumptions rebuild_answers_fresh.
Print Assumptions take_fill_total.
Print Assumptions take_fill_answers.
Print Assumptions rebuild_index_ok.
Print Assumptions rebuild_answers.
Print Assumptions rebuild_total.
Print Assumptions concat_two_answers.
