(* C19, part 3: the rebuilt array answers LITERALLY like the fresh index of the same documents, for every query of the
   model — in particular every phrase (immediate repetitions such as 'a a b' included, any position range) and the
   BM25 scores, which Rebuild_Proofs2.answers_like does not cover.

   Route.  Every query of Index/Index.v, Query/Phrase.v, Query/Range.v, Score/Score.v and every query of View/View.v on
   an UNSLICED array (of_index ix avoid) reads the index only through
       lookup t (ix_posts ix)     known ix t     ix_lens ix
   (never through the order of the posting table or of the dictionary).  Two indexes that agree on these three
   ([same_store]) therefore give the same answer to every query (Section Same: plain congruence, no property of the
   postings is used).  index_ok' docs a (what the rebuilt index satisfies: Rebuild_Proofs.rebuild_ok) and
   index_ok docs b (what the fresh index satisfies: View_Proofs.index_ok_of) determine all three from docs, hence
   same_store a b (same_of_ok).  The C03 facts for phrases with repeated terms (Phrase_Repeats.phrase_repeats_bounds,
   View_Phrase3.phrase_exact_nonconst_on_index), stated for fresh indexes, transfer along the equality. *)
From Coq Require Import ZArith.
From SA Require Import Base.Prelude Kernels.Spec Kernels.Linear Codec.Codec Index.Index Index.Index_Spec Index.Index_Proofs Index.Index_Proofs2
  Index.Index_Proofs3 Query.Phrase Query.Phrase_Spec Query.Phrase_Repeats Query.Range Score.BM25 Score.Score
  View.View View.View_Spec View.View_Proofs View.View_Phrase View.View_Phrase3 Rebuild.Rebuild Rebuild.Rebuild_Proofs Rebuild.Rebuild_Proofs2.
Open Scope N_scope.

(* ================= 1. what the queries read ================= *)
Definition same_store (a b : sindex) : Prop :=
  (forall t, lookup t (ix_posts a) = lookup t (ix_posts b)) /\
  (forall t, known a t = known b t) /\
  ix_lens a = ix_lens b.

Lemma same_of_ok docs a b : index_ok' docs a -> index_ok docs b -> same_store a b.
Proof.
  intros (Hp & Ha & Ht & Hl) (Hp' & Ha' & Ht' & Hl'). split; [|split].
  - intro t. destruct (in_dec N.eq_dec t (concat docs)) as [Hi|Hn].
    + rewrite (Hp t Hi), (Hp' t Hi). reflexivity.
    + rewrite (Ha t Hn), (Ha' t Hn). reflexivity.
  - intro t. apply bool_iff_eq. rewrite (known_iff docs b t Ht'). unfold known. fold (mem_n t (ix_terms a)).
    rewrite mem_n_in. apply Ht.
  - rewrite Hl, Hl'. reflexivity.
Qed.

Lemma same_store_sym a b : same_store a b -> same_store b a.
Proof. intros (H1 & H2 & H3). split; [|split]; [intro t; symmetry; apply H1|intro t; symmetry; apply H2|symmetry; exact H3]. Qed.

(* ================= 2. every query is a function of the three readings ================= *)
Section Same.
Variables a b : sindex.
Hypothesis Hsame : same_store a b.

Let Hlk : forall t, lookup t (ix_posts a) = lookup t (ix_posts b) := proj1 Hsame.
Let Hkn : forall t, known a t = known b t := proj1 (proj2 Hsame).
Let Hlen : ix_lens a = ix_lens b := proj2 (proj2 Hsame).

(* ---- Index/Index.v ---- *)
Lemma get_posts_same t : get_posts a t = get_posts b t.
Proof. unfold get_posts. rewrite (Hlk t). reflexivity. Qed.

Lemma n_docs_same : n_docs a = n_docs b.
Proof. unfold n_docs. rewrite Hlen. reflexivity. Qed.

Theorem termfreqs_same t : termfreqs a t = termfreqs b t.
Proof. unfold termfreqs. rewrite (Hkn t), (get_posts_same t), n_docs_same, Hlen. reflexivity. Qed.

Theorem docfreq_same t : docfreq a t = docfreq b t.
Proof. unfold docfreq. rewrite (Hkn t), (get_posts_same t). reflexivity. Qed.

Theorem doclens_same : doclengths a = doclengths b /\ corpus_size a = corpus_size b /\ total_len a = total_len b.
Proof. unfold doclengths, corpus_size, total_len. rewrite n_docs_same, Hlen. repeat split. Qed.

Theorem positions_same t : positions a t = positions b t.
Proof. unfold positions. rewrite (Hkn t), (Hlk t), Hlen. reflexivity. Qed.

(* ---- Query/Phrase.v, Query/Range.v ---- *)
Lemma get_all_posts_same : forall ts, get_all_posts a ts = get_all_posts b ts.
Proof.
  induction ts as [|t ts IH]; [reflexivity|]. cbn [get_all_posts]. rewrite (get_posts_same t), IH. reflexivity.
Qed.

Lemma all_known_same : forall ts, forallb (known a) ts = forallb (known b) ts.
Proof. induction ts as [|t ts IH]; [reflexivity|]. cbn [forallb]. rewrite (Hkn t), IH. reflexivity. Qed.

(* EVERY term list: known or unknown terms, immediate repetitions, fewer than two terms (the same ValueError) *)
Theorem phrase_freqs_same ph : phrase_freqs a ph = phrase_freqs b ph.
Proof. unfold phrase_freqs. rewrite (all_known_same ph), (get_all_posts_same ph), Hlen. reflexivity. Qed.

Theorem termfreqs_range_same t lo hi : termfreqs_range a t lo hi = termfreqs_range b t lo hi.
Proof.
  unfold termfreqs_range. rewrite (termfreqs_same t), (Hkn t), (get_posts_same t), n_docs_same, Hlen. reflexivity.
Qed.

Lemma slice_all_same lo hi : forall ts, slice_all a ts lo hi = slice_all b ts lo hi.
Proof.
  induction ts as [|t ts IH]; [reflexivity|]. cbn [slice_all]. rewrite (get_posts_same t), IH. reflexivity.
Qed.

Theorem phrase_freqs_range_same ph lo hi : phrase_freqs_range a ph lo hi = phrase_freqs_range b ph lo hi.
Proof.
  unfold phrase_freqs_range. rewrite (phrase_freqs_same ph), (all_known_same ph), (slice_all_same lo hi ph), Hlen.
  reflexivity.
Qed.

(* ---- Score/Score.v: SearchArray.score on the array itself ---- *)
Lemma tf_vector_same ts : tf_vector a ts = tf_vector b ts.
Proof.
  unfold tf_vector. destruct ts as [|t [|u r]]; [apply phrase_freqs_same|apply termfreqs_same|apply phrase_freqs_same].
Qed.

Lemma all_dfs_same : forall ts, all_dfs a ts = all_dfs b ts.
Proof. induction ts as [|t ts IH]; [reflexivity|]. cbn [all_dfs]. rewrite (docfreq_same t), IH. reflexivity. Qed.

(* the statistics handed to a similarity: tf vector (term or phrase), document frequencies, lengths, total, N *)
Theorem score_args_same ts : score_args a ts = score_args b ts.
Proof.
  unfold score_args. destruct doclens_same as (E1 & E2 & E3).
  rewrite (all_dfs_same ts), (tf_vector_same ts), E1, E2, E3. reflexivity.
Qed.

Theorem score_bm25_same ts idf k1 bb : score_bm25 a ts idf k1 bb = score_bm25 b ts idf k1 bb.
Proof. unfold score_bm25. rewrite (score_args_same ts). reflexivity. Qed.

(* ---- View/View.v on the unsliced array: the entry the C06 / C09 / C10 theorems use ---- *)
Lemma known_a_same avoid t : known_a (of_index a avoid) t = known_a (of_index b avoid) t.
Proof. exact (Hkn t). Qed.

Lemma all_known_a_same avoid : forall ts,
  forallb (known_a (of_index a avoid)) ts = forallb (known_a (of_index b avoid)) ts.
Proof. induction ts as [|t ts IH]; [reflexivity|]. cbn [forallb]. rewrite (known_a_same avoid t), IH. reflexivity. Qed.

Lemma get_enc_same avoid t :
  get_enc (p_handle (a_posns (of_index a avoid))) t = get_enc (p_handle (a_posns (of_index b avoid))) t.
Proof. cbn [of_index a_posns p_handle get_enc]. unfold lookup_posts. rewrite (Hlk t). reflexivity. Qed.

Lemma df_root_same avoid t :
  lookup_posts t (p_df_root (a_posns (of_index a avoid))) = lookup_posts t (p_df_root (a_posns (of_index b avoid))).
Proof. cbn [of_index a_posns p_df_root]. unfold lookup_posts. rewrite (Hlk t). reflexivity. Qed.

Lemma rows_same avoid : a_rows (of_index a avoid) = a_rows (of_index b avoid).
Proof. cbn [of_index a_rows]. rewrite Hlen. reflexivity. Qed.

Lemma nrows_same avoid : nrows (of_index a avoid) = nrows (of_index b avoid).
Proof. unfold nrows. rewrite (rows_same avoid). reflexivity. Qed.

Lemma maxdoc_same avoid : p_max_doc_id (a_posns (of_index a avoid)) = p_max_doc_id (a_posns (of_index b avoid)).
Proof. cbn [of_index a_posns p_max_doc_id]. rewrite Hlen. reflexivity. Qed.

Lemma subset_same avoid : a_subset (of_index a avoid) = a_subset (of_index b avoid).
Proof. reflexivity. Qed.

Theorem v_termfreqs_same avoid t lo hi :
  v_termfreqs (of_index a avoid) t lo hi = v_termfreqs (of_index b avoid) t lo hi.
Proof.
  unfold v_termfreqs.
  rewrite (known_a_same avoid t), (nrows_same avoid), (subset_same avoid), (get_enc_same avoid t), (rows_same avoid),
    (maxdoc_same avoid). reflexivity.
Qed.

Lemma get_all_enc_same avoid lo hi : forall ts,
  get_all_enc (p_handle (a_posns (of_index a avoid))) ts lo hi = get_all_enc (p_handle (a_posns (of_index b avoid))) ts lo hi.
Proof.
  induction ts as [|t ts IH]; [reflexivity|]. cbn [get_all_enc]. rewrite (get_enc_same avoid t), IH. reflexivity.
Qed.

(* EVERY term list and EVERY position range *)
Theorem v_phrase_freqs_same avoid ph lo hi :
  v_phrase_freqs (of_index a avoid) ph lo hi = v_phrase_freqs (of_index b avoid) ph lo hi.
Proof.
  unfold v_phrase_freqs.
  rewrite (all_known_a_same avoid ph), (nrows_same avoid), (get_all_enc_same avoid lo hi ph), (maxdoc_same avoid),
    (subset_same avoid), (rows_same avoid). reflexivity.
Qed.

Theorem v_docfreq_same avoid t : v_docfreq (of_index a avoid) t = v_docfreq (of_index b avoid) t.
Proof. unfold v_docfreq. rewrite (known_a_same avoid t), (df_root_same avoid t). reflexivity. Qed.

Theorem v_positions_same avoid t : v_positions (of_index a avoid) t = v_positions (of_index b avoid) t.
Proof.
  unfold v_positions. rewrite (known_a_same avoid t), (get_enc_same avoid t), (rows_same avoid). reflexivity.
Qed.

Theorem v_doclengths_same avoid :
  v_doclengths (of_index a avoid) = v_doclengths (of_index b avoid) /\
  a_total (of_index a avoid) = a_total (of_index b avoid) /\ a_n (of_index a avoid) = a_n (of_index b avoid).
Proof.
  unfold v_doclengths. cbn [of_index a_lens a_total a_n]. destruct doclens_same as (_ & _ & E3).
  rewrite n_docs_same, E3, Hlen. repeat split.
Qed.

Lemma v_tf_vector_same avoid ts lo hi :
  v_tf_vector (of_index a avoid) ts lo hi = v_tf_vector (of_index b avoid) ts lo hi.
Proof.
  unfold v_tf_vector.
  destruct ts as [|t [|u r]]; [apply v_phrase_freqs_same|apply v_termfreqs_same|apply v_phrase_freqs_same].
Qed.

Lemma v_all_dfs_same avoid : forall ts, v_all_dfs (of_index a avoid) ts = v_all_dfs (of_index b avoid) ts.
Proof. induction ts as [|t ts IH]; [reflexivity|]. cbn [v_all_dfs]. rewrite (v_docfreq_same avoid t), IH. reflexivity. Qed.

Theorem v_score_args_same avoid ts lo hi :
  v_score_args (of_index a avoid) ts lo hi = v_score_args (of_index b avoid) ts lo hi.
Proof.
  unfold v_score_args. destruct (v_doclengths_same avoid) as (E1 & E2 & E3).
  rewrite (v_all_dfs_same avoid ts), (v_tf_vector_same avoid ts lo hi), E1, E2, E3. reflexivity.
Qed.

Theorem v_score_bm25_same avoid ts idf k1 bb :
  v_score_bm25 (of_index a avoid) ts idf k1 bb = v_score_bm25 (of_index b avoid) ts idf k1 bb.
Proof. unfold v_score_bm25. rewrite (v_score_args_same avoid ts None None). reflexivity. Qed.
End Same.

(* ---- the bundle: every query of the model ---- *)
Definition same_answers (a b : sindex) : Prop :=
  (forall t, termfreqs a t = termfreqs b t) /\
  (forall t, docfreq a t = docfreq b t) /\
  (doclengths a = doclengths b /\ corpus_size a = corpus_size b /\ total_len a = total_len b) /\
  (forall t, positions a t = positions b t) /\
  (forall ph, phrase_freqs a ph = phrase_freqs b ph) /\
  (forall t lo hi, termfreqs_range a t lo hi = termfreqs_range b t lo hi) /\
  (forall ph lo hi, phrase_freqs_range a ph lo hi = phrase_freqs_range b ph lo hi) /\
  (forall ts, score_args a ts = score_args b ts) /\
  (forall ts idf k1 bb, score_bm25 a ts idf k1 bb = score_bm25 b ts idf k1 bb) /\
  (forall avoid t lo hi, v_termfreqs (of_index a avoid) t lo hi = v_termfreqs (of_index b avoid) t lo hi) /\
  (forall avoid ph lo hi, v_phrase_freqs (of_index a avoid) ph lo hi = v_phrase_freqs (of_index b avoid) ph lo hi) /\
  (forall avoid t, v_docfreq (of_index a avoid) t = v_docfreq (of_index b avoid) t) /\
  (forall avoid t, v_positions (of_index a avoid) t = v_positions (of_index b avoid) t) /\
  (forall avoid ts lo hi, v_score_args (of_index a avoid) ts lo hi = v_score_args (of_index b avoid) ts lo hi) /\
  (forall avoid ts idf k1 bb,
     v_score_bm25 (of_index a avoid) ts idf k1 bb = v_score_bm25 (of_index b avoid) ts idf k1 bb).

Theorem same_store_answers a b : same_store a b -> same_answers a b.
Proof.
  intro H. unfold same_answers.
  split; [exact (termfreqs_same a b H)|]. split; [exact (docfreq_same a b H)|]. split; [exact (doclens_same a b H)|].
  split; [exact (positions_same a b H)|]. split; [exact (phrase_freqs_same a b H)|].
  split; [exact (termfreqs_range_same a b H)|]. split; [exact (phrase_freqs_range_same a b H)|].
  split; [exact (score_args_same a b H)|]. split; [exact (score_bm25_same a b H)|].
  split; [exact (v_termfreqs_same a b H)|]. split; [exact (v_phrase_freqs_same a b H)|].
  split; [exact (v_docfreq_same a b H)|]. split; [exact (v_positions_same a b H)|].
  split; [exact (v_score_args_same a b H)|]. exact (v_score_bm25_same a b H).
Qed.

(* ================= 3. the rebuilt index and the fresh index of the same documents ================= *)
Theorem repr_same_store docs' els bs ix' : Forall2 el_repr docs' els -> N.of_nat (length docs') < 2^28 ->
  index false bs docs' = AOk ix' -> same_store (rebuild els) ix'.
Proof.
  intros H Hn E. apply (same_of_ok docs').
  - apply rebuild_ok; [exact H|lia].
  - exact (index_ok_of docs' bs ix' (repr_wf docs' els H Hn) E).
Qed.

(* the fresh index of the new documents always exists *)
Theorem repr_fresh_exists docs' els bs : Forall2 el_repr docs' els -> N.of_nat (length docs') < 2^28 ->
  exists ix', index false bs docs' = AOk ix'.
Proof.
  intros H Hn. destruct (index_any_ok docs' bs (repr_wf docs' els H Hn)) as (ix' & E & _). exists ix'. exact E.
Qed.

(* several sources and fills (the hypotheses of C19_rebuilt_answers_like_fresh_index) *)
Theorem rebuild_same_store srcs refs els bs ix' :
  Forall source_ok srcs -> Forall2 (ref_el srcs) refs els -> N.of_nat (length refs) < 2^28 ->
  index false bs (map (ref_doc srcs) refs) = AOk ix' -> same_store (rebuild els) ix'.
Proof.
  intros Hs Hr Hn E. apply (repr_same_store (map (ref_doc srcs) refs) els bs ix'); [exact (refs_repr srcs Hs refs els Hr)| |exact E].
  rewrite map_length. exact Hn.
Qed.

Theorem rebuild_same_answers srcs refs els bs ix' :
  Forall source_ok srcs -> Forall2 (ref_el srcs) refs els -> N.of_nat (length refs) < 2^28 ->
  index false bs (map (ref_doc srcs) refs) = AOk ix' -> same_answers (rebuild els) ix'.
Proof. intros Hs Hr Hn E. apply same_store_answers. exact (rebuild_same_store srcs refs els bs ix' Hs Hr Hn E). Qed.

Theorem rebuild_fresh_exists srcs refs els bs :
  Forall source_ok srcs -> Forall2 (ref_el srcs) refs els -> N.of_nat (length refs) < 2^28 ->
  exists ix', index false bs (map (ref_doc srcs) refs) = AOk ix'.
Proof.
  intros Hs Hr Hn. apply (repr_fresh_exists _ els bs (refs_repr srcs Hs refs els Hr)). rewrite map_length. exact Hn.
Qed.

(* phrases: every term list, every position range, both entries *)
Theorem rebuild_phrases_like_fresh srcs refs els bs ix' :
  Forall source_ok srcs -> Forall2 (ref_el srcs) refs els -> N.of_nat (length refs) < 2^28 ->
  index false bs (map (ref_doc srcs) refs) = AOk ix' ->
  (forall ph, phrase_freqs (rebuild els) ph = phrase_freqs ix' ph) /\
  (forall ph lo hi, phrase_freqs_range (rebuild els) ph lo hi = phrase_freqs_range ix' ph lo hi) /\
  (forall avoid ph lo hi,
     v_phrase_freqs (of_index (rebuild els) avoid) ph lo hi = v_phrase_freqs (of_index ix' avoid) ph lo hi).
Proof.
  intros Hs Hr Hn E. pose proof (rebuild_same_store srcs refs els bs ix' Hs Hr Hn E) as H.
  split; [exact (phrase_freqs_same _ _ H)|]. split; [exact (phrase_freqs_range_same _ _ H)|].
  exact (v_phrase_freqs_same _ _ H).
Qed.

(* scores: the statistics a similarity receives (tf vector, dfs, lengths, total, N) and the BM25 scores, both entries *)
Theorem rebuild_scores_like_fresh srcs refs els bs ix' :
  Forall source_ok srcs -> Forall2 (ref_el srcs) refs els -> N.of_nat (length refs) < 2^28 ->
  index false bs (map (ref_doc srcs) refs) = AOk ix' ->
  (forall ts, score_args (rebuild els) ts = score_args ix' ts) /\
  (forall ts idf k1 b, score_bm25 (rebuild els) ts idf k1 b = score_bm25 ix' ts idf k1 b) /\
  (forall avoid ts lo hi,
     v_score_args (of_index (rebuild els) avoid) ts lo hi = v_score_args (of_index ix' avoid) ts lo hi) /\
  (forall avoid ts idf k1 b,
     v_score_bm25 (of_index (rebuild els) avoid) ts idf k1 b = v_score_bm25 (of_index ix' avoid) ts idf k1 b).
Proof.
  intros Hs Hr Hn E. pose proof (rebuild_same_store srcs refs els bs ix' Hs Hr Hn E) as H.
  split; [exact (score_args_same _ _ H)|]. split; [exact (score_bm25_same _ _ H)|].
  split; [exact (v_score_args_same _ _ H)|]. exact (v_score_bm25_same _ _ H).
Qed.

(* ================= 4. the C03 facts for phrases with repeated terms, on the rebuilt index ================= *)
(* every phrase of >= 2 terms ('a a b', 'a a a' included): positive exactly on the documents that contain it,
   between the non-overlapping and the overlapping count; the exact count when two different terms are mentioned *)
Theorem repr_phrase_counts docs' els : Forall2 el_repr docs' els -> N.of_nat (length docs') < 2^28 ->
  forall ph, (2 <= length ph)%nat ->
  (exists res, phrase_freqs (rebuild els) ph = AOk res /\ length res = length docs' /\
     forall d, (d < length docs')%nat ->
       (nth d res 0 > 0 <-> occ ph (nth d docs' []) > 0) /\
       nonoverlapping ph (nth d docs' []) <= nth d res 0 <= occ ph (nth d docs' [])) /\
  (is_const ph = false -> phrase_freqs (rebuild els) ph = AOk (phrase_spec docs' ph)).
Proof.
  intros H Hn ph Hlen. pose proof (repr_wf docs' els H Hn) as Hwf. split.
  - destruct (phrase_repeats_bounds docs' 1%nat ph Hwf Hlen) as (ix' & res & E & Er & Hl & Hb).
    exists res. rewrite (phrase_freqs_same _ _ (repr_same_store docs' els 1%nat ix' H Hn E) ph).
    split; [exact Er|]. split; [exact Hl|exact Hb].
  - intro Hc. destruct (phrase_exact_nonconst_on_index docs' 1%nat ph Hwf Hlen Hc) as (ix' & E & Er).
    rewrite (phrase_freqs_same _ _ (repr_same_store docs' els 1%nat ix' H Hn E) ph). exact Er.
Qed.

Theorem rebuild_phrase_counts srcs refs els :
  Forall source_ok srcs -> Forall2 (ref_el srcs) refs els -> N.of_nat (length refs) < 2^28 ->
  forall ph, (2 <= length ph)%nat ->
  (exists res, phrase_freqs (rebuild els) ph = AOk res /\ length res = length refs /\
     forall d, (d < length refs)%nat ->
       (nth d res 0 > 0 <-> occ ph (nth d (map (ref_doc srcs) refs) []) > 0) /\
       nonoverlapping ph (nth d (map (ref_doc srcs) refs) []) <= nth d res 0 <= occ ph (nth d (map (ref_doc srcs) refs) [])) /\
  (is_const ph = false -> phrase_freqs (rebuild els) ph = AOk (phrase_spec (map (ref_doc srcs) refs) ph)).
Proof.
  intros Hs Hr Hn ph Hlen.
  assert (Hn' : N.of_nat (length (map (ref_doc srcs) refs)) < 2^28) by (rewrite map_length; exact Hn).
  pose proof (repr_phrase_counts _ els (refs_repr srcs Hs refs els Hr) Hn' ph Hlen) as H.
  rewrite map_length in H. exact H.
Qed.

(* ================= 5. take(indices, allow_fill=True) ================= *)
Theorem take_fill_same_store docs bs ix avoid keys v idx els bs' ix' :
  wf_docs docs -> index false bs docs = AOk ix -> valid_keys (length docs) keys ->
  select_chain (of_index ix avoid) keys = AOk v -> take_fill_elements v idx = AOk els ->
  N.of_nat (length idx) < 2^28 ->
  index false bs' (taken_docs (view_docs docs keys) idx) = AOk ix' -> same_store (rebuild els) ix'.
Proof.
  intros Hwf E Hv Ev Ee Hn E'. pose proof (index_ok_of docs bs ix Hwf E) as Hok.
  destruct (C06_invs docs bs ix avoid keys v Hwf E Hv Ev) as (Hinv & _).
  apply (repr_same_store (taken_docs (view_docs docs keys) idx) els bs' ix'); [| |exact E'].
  - rewrite <- taken_docs_fill. exact (take_fill_repr docs ix v _ Hwf Hok Hinv idx els Ee).
  - unfold taken_docs. rewrite map_length. exact Hn.
Qed.

Theorem take_fill_same_answers docs bs ix avoid keys v idx els bs' ix' :
  wf_docs docs -> index false bs docs = AOk ix -> valid_keys (length docs) keys ->
  select_chain (of_index ix avoid) keys = AOk v -> take_fill_elements v idx = AOk els ->
  N.of_nat (length idx) < 2^28 ->
  index false bs' (taken_docs (view_docs docs keys) idx) = AOk ix' -> same_answers (rebuild els) ix'.
Proof.
  intros Hwf E Hv Ev Ee Hn E'. apply same_store_answers.
  exact (take_fill_same_store docs bs ix avoid keys v idx els bs' ix' Hwf E Hv Ev Ee Hn E').
Qed.

(* ================= 6. computed: 'a a b' and 'a a' on a rebuilt array, against the fresh index ================= *)
Definition rb3_docs : list (list N) := [[1;1;2;1;1;1];[];[2];[1;1;2];[3;1;1]].
Definition rb3_new : list (list N) := [[3;1;1];[2];[1;1;2;1;1;1];[]].
Example rb3_run : forall avoid,
  match index false 2 rb3_docs, index false 3 rb3_new with
  | AOk ix, AOk ix' =>
      match select_chain (of_index ix avoid) [[4;2;0]] with
      | AOk v => match take_fill_elements v [Some 0; Some 1; Some 2; None]%nat with
         | AOk els => let r := rebuild els in
             ix_terms r <> ix_terms ix' /\ map fst (ix_posts r) <> map fst (ix_posts ix') /\   (* not the same record *)
             phrase_freqs r [1;1;2] = AOk [0;0;1;0] /\ phrase_freqs ix' [1;1;2] = AOk [0;0;1;0] /\
             phrase_freqs r [1;1] = phrase_freqs ix' [1;1] /\
             (* idf = 1.0, k1 = 1.2, b = 0.75 as binary64 bit patterns; scores as binary32 bit patterns *)
             score_bm25 r [1;1] 4607182418800017408 4608083138725491507 4604930618986332160
               = AOk [1054285892; 0; 1055234222; 0]%Z /\
             score_bm25 ix' [1;1] 4607182418800017408 4608083138725491507 4604930618986332160
               = AOk [1054285892; 0; 1055234222; 0]%Z
         | _ => False end
      | _ => False end
  | _, _ => False end.
Proof. intros [|]; vm_compute; repeat split; discriminate. Qed.

Print Assumptions same_of_ok.
Print Assumptions same_store_answers.
Print Assumptions rebuild_same_store.
Print Assumptions rebuild_phrases_like_fresh.
Print Assumptions rebuild_scores_like_fresh.
Print Assumptions rebuild_phrase_counts.
Print Assumptions take_fill_same_answers.
