(* C06: a selection answers like the parent re-indexed by the same key, with parent statistics.
   List / np.unique / restricted-postings lemmas, the view invariant, its preservation by select (both
   modes: FilteredPosns wrapper and physical slice), every query of a view derived from the invariant,
   and the end-to-end theorems C06_select_total, C06_commute, C06_reindex, C06_parent. *)
From Coq Require Import Sorted Permutation Mergesort.
From SA Require Import Base.Prelude Kernels.Spec Kernels.Linear Kernels.Linear_Proofs
  Codec.Codec Codec.Codec_Spec Codec.Codec_Proofs Codec.Codec_Proofs2
  Index.Index Index.Index_Spec Index.Index_Proofs Index.Index_Proofs2 Index.Index_Proofs3
  Query.Phrase Query.Range Score.BM25 View.View View.View_Spec.
Open Scope N_scope.

(* ================= 0. valid key chains ================= *)
Fixpoint valid_keys (n : nat) (keys : list (list N)) : Prop :=
  match keys with
  | [] => True
  | k :: rest => Forall (fun i => i < N.of_nat n) k /\ valid_keys (length k) rest
  end.

(* ================= 1. generic list facts ================= *)
Lemma filter_filter' {A} (f g : A -> bool) l : filter f (filter g l) = filter (fun x => f x && g x) l.
Proof.
  induction l as [|a l IH]; [reflexivity|]. cbn [filter]. destruct (g a) eqn:G.
  - cbn [filter]. rewrite IH, andb_true_r. reflexivity.
  - rewrite IH, andb_false_r. reflexivity.
Qed.

Lemma nth_map_seq {A} (f : N -> A) d sz i : (i < sz)%nat ->
  nth i (map f (map N.of_nat (seq 0 sz))) d = f (N.of_nat i).
Proof.
  intro H. rewrite map_map.
  rewrite (nth_indep _ d (f (N.of_nat 0))) by (rewrite map_length, seq_length; exact H).
  rewrite (map_nth (fun x => f (N.of_nat x))). rewrite seq_nth by exact H. reflexivity.
Qed.

Lemma map_nth_seq {A} (d : A) : forall l, map (fun i => nth i l d) (seq 0 (length l)) = l.
Proof.
  induction l as [|a l IH]; [reflexivity|]. cbn [length seq map nth]. f_equal.
  rewrite <- seq_shift, map_map. exact IH.
Qed.

Lemma rows0_length docs : length (rows0 docs) = length docs.
Proof. unfold rows0. now rewrite map_length, seq_length. Qed.

Lemma gather_rows0 {A} (d : A) (l : list A) n : n = length l ->
  map (fun r => nth (N.to_nat r) l d) (map N.of_nat (seq 0 n)) = l.
Proof.
  intros ->. rewrite map_map. erewrite map_ext; [apply map_nth_seq|]. intro i. cbn beta. now rewrite Nat2N.id.
Qed.

Lemma rows0_bound docs : Forall (fun r => r < N.of_nat (length docs)) (rows0 docs).
Proof.
  unfold rows0. rewrite Forall_map. apply Forall_forall. intros i Hi. apply in_seq in Hi. lia.
Qed.

(* ================= 2. np.unique ================= *)
Lemma dedup_props : forall l, StronglySorted N.le l ->
  StronglySorted N.lt (dedup_adj l) /\ (forall x, In x (dedup_adj l) <-> In x l).
Proof.
  induction l as [|x t IH]; intros S; [split; [constructor|tauto]|].
  inversion S as [|? ? St Fx]; subst. specialize (IH St). destruct IH as [IS IM].
  destruct t as [|y t'].
  - cbn [dedup_adj]. split; [repeat constructor|tauto].
  - rewrite dedup_cons2. destruct (N.eqb_spec x y) as [->|Hne].
    + split; [exact IS|]. intro z. rewrite IM. cbn [In]. tauto.
    + split.
      * constructor; [exact IS|]. apply Forall_forall. intros z Hz. apply IM in Hz.
        rewrite Forall_forall in Fx. inversion St as [|? ? _ Fy]; subst. rewrite Forall_forall in Fy.
        assert (x <= y) by (apply Fx; left; reflexivity).
        destruct Hz as [<-|Hz]; [lia|]. specialize (Fy z Hz). lia.
      * intro z. change (In z (x :: dedup_adj (y :: t')) <-> In z (x :: y :: t')).
        cbn [In]. rewrite IM. cbn [In]. tauto.
Qed.

Lemma np_sort_SS l : StronglySorted N.le (np_sort l).
Proof.
  apply Sorted_StronglySorted; [intros x y z; apply N.le_trans|].
  eapply Sorted_weaken; [|exact (NSort.Sorted_sort l)]. cbn beta. intros x y H. apply N.leb_le. exact H.
Qed.

Lemma np_unique_SS l : StronglySorted N.lt (np_unique l).
Proof. unfold np_unique. apply dedup_props, np_sort_SS. Qed.

Lemma np_unique_sorted l : Sorted N.lt (np_unique l).
Proof. apply StronglySorted_Sorted, np_unique_SS. Qed.

Lemma np_unique_in l x : In x (np_unique l) <-> In x l.
Proof.
  unfold np_unique. rewrite (proj2 (dedup_props _ (np_sort_SS l))). unfold np_sort. split; intro H.
  - eapply Permutation_in; [apply Permutation_sym, NSort.Permuted_sort|exact H].
  - eapply Permutation_in; [apply NSort.Permuted_sort|exact H].
Qed.

Lemma np_unique_mem l x : mem_n x (np_unique l) = mem_n x l.
Proof.
  destruct (mem_n x l) eqn:E.
  - apply mem_n_in in E. apply mem_n_in, np_unique_in. exact E.
  - destruct (mem_n x (np_unique l)) eqn:E'; [|reflexivity].
    apply mem_n_in in E'. apply (proj1 (np_unique_in l x)) in E'. apply (proj2 (mem_n_in x l)) in E'. congruence.
Qed.

Lemma np_unique_forall (P : N -> Prop) l : Forall P l -> Forall P (np_unique l).
Proof. rewrite !Forall_forall. intros H x Hx. apply H, np_unique_in, Hx. Qed.

(* a strictly increasing list of numbers below n has at most n entries *)
Lemma np_unique_length l n : Forall (fun r => r < N.of_nat n) l -> (length (np_unique l) <= n)%nat.
Proof.
  intro F. rewrite <- (seq_length n 0), <- (map_length N.of_nat (seq 0 n)).
  apply NoDup_incl_length; [apply ss_lt_nodup, np_unique_SS|].
  intros x Hx. apply (proj1 (np_unique_in l x)) in Hx. rewrite Forall_forall in F. specialize (F x Hx).
  apply in_map_iff. exists (N.to_nat x). split; [lia|]. apply in_seq. lia.
Qed.

(* ================= 3. postings restricted to a set of documents ================= *)
Definition keyf {B} (Q : N -> bool) (kp : N * B) : bool := Q (fst kp).
Definition fpairs (docs : list (list N)) (Q : N -> bool) (t : N) : list (N * N) :=
  filter (keyf Q) (tp_from 0 docs t).

Lemma lt2_trans a b c : lt2 a b -> lt2 b c -> lt2 a c.
Proof. unfold lt2. lia. Qed.

Lemma sorted2_SS_lt l : sorted2 l -> StronglySorted lt2 l.
Proof.
  intro H. apply Sorted_StronglySorted; [intros a b c; apply lt2_trans|].
  induction l as [|a t IH]; [constructor|]. destruct H as [Hh Ht]. constructor; [apply IH; exact Ht|].
  destruct t; constructor. exact Hh.
Qed.

Lemma SS_lt_sorted2 l : StronglySorted lt2 l -> sorted2 l.
Proof.
  induction 1 as [|a t S IH F]; [exact I|]. cbn [sorted2]. split; [|exact IH].
  destruct t as [|b t']; [exact I|]. inversion F; assumption.
Qed.

Lemma sorted2_filter (f : N * N -> bool) l : sorted2 l -> sorted2 (filter f l).
Proof. intro H. apply SS_lt_sorted2, SS_filter, sorted2_SS_lt, H. Qed.

Lemma bounded_filter (f : N * N -> bool) l : bounded l -> bounded (filter f l).
Proof. apply Forall_filter. Qed.

Section Corpus.
Variable docs : list (list N).
Hypothesis Hwf : wf_docs docs.

Lemma fpairs_wf Q t : sorted2 (fpairs docs Q t) /\ bounded (fpairs docs Q t).
Proof.
  destruct (tp_wf docs Hwf t) as [Hs Hb]. split; [apply sorted2_filter|apply bounded_filter]; assumption.
Qed.

Lemma fpairs_length Q t : N.of_nat (length (fpairs docs Q t)) < 2^62.
Proof.
  destruct Hwf as [Hshort Hn]. unfold fpairs.
  pose proof (filter_len_le (@keyf N Q) (tp_from 0 docs t)).
  pose proof (tp_length_le t docs 0). pose proof (concat_length_bound docs Hshort).
  rewrite pow62. rewrite pow28 in Hn. nia.
Qed.

Lemma fpairs_true t : fpairs docs (fun _ => true) t = tp_from 0 docs t.
Proof. unfold fpairs. apply filter_true. apply Forall_forall. reflexivity. Qed.

Lemma fpairs_ext Q Q' t : (forall r, r < N.of_nat (length docs) -> Q r = Q' r) -> fpairs docs Q t = fpairs docs Q' t.
Proof.
  intro H. unfold fpairs. apply filter_ext_in. intros kp Hkp. unfold keyf. apply H.
  pose proof (tp_keys t docs 0) as F. rewrite Forall_forall in F. specialize (F kp Hkp). lia.
Qed.

(* slicing the encoding of a restriction by a sorted id list is the encoding of the smaller restriction *)
Lemma slice_fpairs Q t ids : Sorted N.lt ids -> Forall (fun r => r < N.of_nat (length docs)) ids ->
  slice_keys (encode_spec (fpairs docs Q t)) ids = Done (encode_spec (fpairs docs (fun k => mem_n k ids && Q k) t)).
Proof.
  intros Hs Hb. destruct (fpairs_wf Q t) as [Hs2 Hb2]. destruct Hwf as [_ Hn].
  rewrite slice_keys_correct; try assumption.
  - f_equal. unfold slice_spec, fpairs. rewrite filter_filter'. reflexivity.
  - eapply Forall_impl; [|exact Hb]. cbn beta. intros r Hr. pows. lia.
  - apply fpairs_length.
  - assert (L : (length ids <= length docs)%nat).
    { rewrite <- (seq_length (length docs) 0), <- (map_length N.of_nat (seq 0 (length docs))).
      apply NoDup_incl_length; [apply ss_lt_nodup, sorted_lt_ss, Hs|].
      intros x Hx. rewrite Forall_forall in Hb. specialize (Hb x Hx).
      apply in_map_iff. exists (N.to_nat x). split; [lia|]. apply in_seq. lia. }
    rewrite pow62. rewrite pow28 in Hn. lia.
Qed.
End Corpus.

(* ---- the per-document grouping of a restriction ---- *)
Lemma filter_map_key {B} (Q : N -> bool) i (l : list B) :
  filter (keyf Q) (map (fun p => (i, p)) l) = if Q i then map (fun p => (i, p)) l else [].
Proof.
  induction l as [|p l IH]; [now destruct (Q i)|]. cbn [map filter]. unfold keyf at 1. cbn [fst].
  rewrite IH. destruct (Q i); reflexivity.
Qed.

Lemma gk_filter_keys Q t docs i :
  Forall (fun g : N * list N => i <= fst g /\ fst g < i + N.of_nat (length docs)) (filter (keyf Q) (gk_from i docs t)).
Proof. apply Forall_filter, gk_keys. Qed.

Lemma gbk_filter Q t : forall docs i,
  group_by_key (filter (keyf Q) (tp_from i docs t)) = filter (keyf Q) (gk_from i docs t).
Proof.
  induction docs as [|d r IH]; intros i; [reflexivity|]. cbn [tp_from gk_from].
  rewrite filter_app, filter_map_key.
  destruct (offsets_from 0 t d) as [|p l] eqn:E.
  - destruct (Q i); cbn [map app]; apply IH.
  - cbn [filter]. change (keyf Q (i, p :: l)) with (Q i). destruct (Q i) eqn:ES.
    + rewrite gbk_run; [now rewrite IH|discriminate|]. rewrite IH.
      pose proof (gk_filter_keys Q t r (i + 1)) as F.
      destruct (filter (keyf Q) (gk_from (i + 1) r t)) as [|[k' l'] rest]; [exact I|].
      inversion F as [|? ? Hk _]; subst. cbn [fst] in Hk. lia.
    + cbn [app]. apply IH.
Qed.

Lemma nth_nil_nil {A} r : nth r (@nil (list A)) [] = [].
Proof. destruct r; reflexivity. Qed.

Lemma gk_filter_above Q t r i k : k <= i ->
  Forall (fun g : N * N => fst g <> k) (map kc_of_g (filter (keyf Q) (gk_from (i + 1) r t))).
Proof.
  intro H. rewrite Forall_map. eapply Forall_impl; [|apply gk_filter_keys]. cbn beta. intros g Hg.
  unfold kc_of_g. cbn [fst]. lia.
Qed.

(* dense value at a selected document = its term count *)
Lemma dval_gk_filter Q t : forall docs i r, Q (i + N.of_nat r) = true ->
  dval (map kc_of_g (filter (keyf Q) (gk_from i docs t))) (i + N.of_nat r) = count_tok t (nth r docs []).
Proof.
  induction docs as [|d rest IH]; intros i r HS.
  - cbn [gk_from filter map]. rewrite nth_nil_nil. reflexivity.
  - cbn [gk_from]. destruct (offsets_from 0 t d) as [|p l] eqn:E.
    + destruct r as [|r'].
      * cbn [nth]. rewrite count_tok_offsets, E. cbn [length]. apply dval_absent.
        apply gk_filter_above. lia.
      * cbn [nth]. replace (i + N.of_nat (S r')) with (i + 1 + N.of_nat r') in * by lia. apply IH. exact HS.
    + cbn [filter]. change (keyf Q (i, p :: l)) with (Q i). destruct r as [|r'].
      * replace (i + N.of_nat 0) with i in * by lia. rewrite HS. cbn [map nth]. unfold kc_of_g at 1. cbn [fst snd].
        rewrite count_tok_offsets, E. apply dval_cons_same. apply gk_filter_above. lia.
      * cbn [nth]. destruct (Q i).
        -- cbn [map]. unfold kc_of_g at 1. cbn [fst snd]. rewrite dval_cons_other by lia.
           replace (i + N.of_nat (S r')) with (i + 1 + N.of_nat r') in * by lia. apply IH. exact HS.
        -- replace (i + N.of_nat (S r')) with (i + 1 + N.of_nat r') in * by lia. apply IH. exact HS.
Qed.

(* the positions entry of a selected document = the offsets of the term in it *)
Lemma lookup_gk_filter Q t : forall docs i r, Q (i + N.of_nat r) = true ->
  match lookup (i + N.of_nat r) (filter (keyf Q) (gk_from i docs t)) with Some p => p | None => [] end
  = offsets_from 0 t (nth r docs []).
Proof.
  induction docs as [|d rest IH]; intros i r HS.
  - cbn [gk_from filter lookup]. rewrite nth_nil_nil. reflexivity.
  - cbn [gk_from]. destruct (offsets_from 0 t d) as [|p l] eqn:E.
    + destruct r as [|r'].
      * cbn [nth]. rewrite E. rewrite lookup_absent; [reflexivity|].
        eapply Forall_impl; [|apply gk_filter_keys]. cbn beta. intros g Hg. lia.
      * cbn [nth]. replace (i + N.of_nat (S r')) with (i + 1 + N.of_nat r') in * by lia. apply IH. exact HS.
    + cbn [filter]. change (keyf Q (i, p :: l)) with (Q i). destruct r as [|r'].
      * replace (i + N.of_nat 0) with i in * by lia. rewrite HS. cbn [lookup nth]. now rewrite N.eqb_refl, E.
      * cbn [nth]. destruct (Q i).
        -- cbn [lookup]. replace (i + N.of_nat (S r') =? i) with false by (symmetry; apply N.eqb_neq; lia).
           replace (i + N.of_nat (S r')) with (i + 1 + N.of_nat r') in * by lia. apply IH. exact HS.
        -- replace (i + N.of_nat (S r')) with (i + 1 + N.of_nat r') in * by lia. apply IH. exact HS.
Qed.

(* ================= 4. more list facts used by select ================= *)
Lemma lookup_nodup {A} t (w : A) : forall (l : list (N * A)), NoDup (map fst l) -> In (t, w) l -> lookup t l = Some w.
Proof.
  induction l as [|[k v] l IH]; intros ND Hin; [destruct Hin|]. cbn [map fst] in ND. inversion ND as [|? ? Hk ND']; subst.
  cbn [lookup]. destruct Hin as [E|Hin].
  - inversion E; subst. now rewrite N.eqb_refl.
  - destruct (N.eqb_spec t k) as [->|Hne]; [|apply IH; assumption].
    exfalso. apply Hk. apply in_map_iff. exists (k, w). split; [reflexivity|exact Hin].
Qed.

Lemma fold_max_ge : forall l a x, (In x l \/ x <= a) -> x <= fold_left N.max l a.
Proof.
  induction l as [|y l IH]; intros a x H; cbn [fold_left].
  - destruct H as [[]|H]; exact H.
  - apply IH. destruct H as [[->|H]|H]; [right; lia|left; exact H|right; lia].
Qed.

Lemma gather_rows_forall (P : N -> Prop) R pos : Forall P R -> Forall (fun i => i < N.of_nat (length R)) pos ->
  Forall P (gather_rows R pos).
Proof.
  intros HR Hp. unfold gather_rows. rewrite Forall_map. eapply Forall_impl; [|exact Hp]. cbn beta. intros i Hi.
  rewrite Forall_forall in HR. apply HR. apply nth_In. lia.
Qed.

Lemma gather_map {A} (f : N -> A) d R pos : Forall (fun i => i < N.of_nat (length R)) pos ->
  View.gather d (map f R) pos = map f (gather_rows R pos).
Proof.
  intro Hp. unfold View.gather, gather_rows. rewrite map_map. apply map_ext_in. intros i Hi.
  rewrite Forall_forall in Hp. specialize (Hp i Hi).
  rewrite (nth_indep _ d (f 0)) by (rewrite map_length; lia). apply map_nth.
Qed.

(* ================= 5. the view invariant ================= *)
Definition posts_sel (docs : list (list N)) (Q : N -> bool) (b : posts) : Prop :=
  forall t, In t (concat docs) -> lookup t b = Some (encode_spec (fpairs docs Q t)).
Definition posts_good (docs : list (list N)) (Q : N -> bool) (b : posts) : Prop :=
  Forall (fun tw => snd tw = encode_spec (fpairs docs Q (fst tw))) b.

Record view_inv (docs : list (list N)) (ix : sindex) (v : sarray) (R : list N) : Prop := {
  vi_rows : a_rows v = R;
  vi_bound : Forall (fun r => r < N.of_nat (length docs)) R;
  vi_lens : a_lens v = map (fun r => nth (N.to_nat r) (lens_spec docs) 0) R;
  vi_terms : a_terms v = ix_terms ix;
  vi_root : p_df_root (a_posns v) = ix_posts ix;
  vi_total : a_total v = total_spec docs;
  vi_n : a_n v = N.of_nat (length docs);
  vi_max : Forall (fun r => r <= p_max_doc_id (a_posns v)) R;
  vi_handle :
    (a_subset v = false /\ R = rows0 docs /\ p_handle (a_posns v) = HBase (ix_posts ix)) \/
    (a_subset v = true /\ a_avoid_copies v = true /\
     exists Q b, posts_sel docs Q b /\ Forall (fun r => Q r = true) R /\
       (p_handle (a_posns v) = HBase b \/ p_handle (a_posns v) = HFiltered b (np_unique R)))
}.

Section Inv.
Variables (docs : list (list N)) (ix : sindex).
Hypothesis Hwf : wf_docs docs.
Hypothesis Hok : index_ok docs ix.

Let Hposts := proj1 Hok.
Let Hterms := proj1 (proj2 (proj2 Hok)).
Let Hlens := proj2 (proj2 (proj2 Hok)).

Lemma root_sel : posts_sel docs (fun _ => true) (ix_posts ix).
Proof. intros t Ht. rewrite (Hposts t Ht), term_pairs_tp, fpairs_true. reflexivity. Qed.

Lemma of_index_inv avoid : view_inv docs ix (of_index ix avoid) (rows0 docs).
Proof.
  pose proof (lens_length docs ix Hok) as HL. destruct (doclens_ok docs ix Hok) as (_ & Hn & Ht).
  constructor; cbn [of_index a_rows a_lens a_terms a_posns p_df_root a_total a_n p_max_doc_id a_subset p_handle a_avoid_copies].
  - unfold rows0. now rewrite HL.
  - apply rows0_bound.
  - rewrite Hlens. symmetry. unfold rows0. apply gather_rows0. unfold lens_spec. now rewrite map_length.
  - reflexivity.
  - reflexivity.
  - exact Ht.
  - exact Hn.
  - rewrite HL. eapply Forall_impl; [|apply rows0_bound]. cbn beta. intros r Hr. lia.
  - left. repeat split.
Qed.

(* ---- physical slicing of every stored term ---- *)
Lemma slice_all_good Q ids : Sorted N.lt ids -> Forall (fun r => r < N.of_nat (length docs)) ids ->
  forall b, posts_good docs Q b ->
  slice_all_terms b ids =
    AOk (map (fun kv => (fst kv, encode_spec (fpairs docs (fun k => mem_n k ids && Q k) (fst kv)))) b).
Proof.
  intros Hs Hb. induction b as [|[t w] rest IH]; intro G; [reflexivity|].
  inversion G as [|? ? Gw Gr]; subst. cbn [fst snd] in Gw. subst w.
  cbn [slice_all_terms]. rewrite (slice_fpairs docs Hwf Q t ids Hs Hb). cbn [lift abind].
  rewrite (IH Gr). cbn [abind map fst]. reflexivity.
Qed.

Lemma sliced_sel Q Q' b : posts_sel docs Q b ->
  posts_sel docs Q' (map (fun kv => (fst kv, encode_spec (fpairs docs Q' (fst kv)))) b).
Proof.
  intros H t Ht. rewrite (lookup_map_kv (fun k _ => encode_spec (fpairs docs Q' k)) t b).
  rewrite (H t Ht). reflexivity.
Qed.

Lemma root_good : NoDup (map fst (ix_posts ix)) -> posts_good docs (fun _ => true) (ix_posts ix).
Proof.
  intro ND. apply Forall_forall. intros [t w] Hin. cbn [fst snd].
  pose proof (lookup_nodup t w _ ND Hin) as L.
  destruct (in_dec N.eq_dec t (concat docs)) as [Hi|Hn].
  - rewrite (root_sel t Hi) in L. congruence.
  - rewrite (proj1 (proj2 Hok) t Hn) in L. discriminate.
Qed.

(* ---- select preserves the invariant, and never raises / faults on a valid key ---- *)
Lemma select_inv v R pos : NoDup (map fst (ix_posts ix)) ->
  view_inv docs ix v R -> Forall (fun i => i < N.of_nat (length R)) pos ->
  exists v', select v pos = AOk v' /\ view_inv docs ix v' (gather_rows R pos).
Proof.
  intros ND [Hrows Hbound Hl Hterms' Hroot Htot Hn Hmax Hh] Hpos.
  set (R' := gather_rows R pos).
  assert (HR' : View.gather 0 (a_rows v) pos = R') by (rewrite Hrows; reflexivity).
  assert (Hbound' : Forall (fun r => r < N.of_nat (length docs)) R') by (apply gather_rows_forall; assumption).
  assert (Hlens' : View.gather 0 (a_lens v) pos = map (fun r => nth (N.to_nat r) (lens_spec docs) 0) R').
  { rewrite Hl. apply gather_map. exact Hpos. }
  unfold select. rewrite HR', Hlens'. cbv zeta.
  destruct (a_avoid_copies v) eqn:Eav.
  - (* posns.filter(rows) *)
    cbn [abind fst snd]. eexists. split; [reflexivity|].
    constructor; cbn [a_rows a_lens a_terms a_posns p_df_root a_total a_n p_max_doc_id a_subset p_handle a_avoid_copies];
      try assumption; try reflexivity.
    + apply gather_rows_forall; assumption.
    + right. split; [reflexivity|]. split; [reflexivity|].
      destruct Hh as [(_ & HR0 & Eh)|(_ & _ & Q & b & Hsel & HQ & Eh)].
      * exists (fun _ => true), (ix_posts ix). split; [exact root_sel|]. split; [apply Forall_forall; reflexivity|].
        right. rewrite Eh. reflexivity.
      * exists Q, b. split; [exact Hsel|]. split; [apply gather_rows_forall; assumption|].
        right. destruct Eh as [Eh|Eh]; rewrite Eh; reflexivity.
  - (* posns.slice(rows): only a fresh array has avoid_copies = false *)
    destruct Hh as [(Esub & HR0 & Eh)|(_ & Eav' & _)]; [|congruence].
    rewrite Eh.
    rewrite (slice_all_good (fun _ => true) (np_unique R') (np_unique_sorted R') (np_unique_forall _ _ Hbound')
               (ix_posts ix) (root_good ND)).
    cbn [abind fst snd]. eexists. split; [reflexivity|].
    constructor; cbn [a_rows a_lens a_terms a_posns p_df_root a_total a_n p_max_doc_id a_subset p_handle a_avoid_copies];
      try assumption; try reflexivity.
    + apply Forall_forall. intros r Hr. apply fold_max_ge. left. apply np_unique_in. exact Hr.
    + right. split; [reflexivity|]. split; [reflexivity|].
      eexists. eexists. split; [apply (sliced_sel (fun _ => true)); exact root_sel|].
      split; [|left; reflexivity].
      apply Forall_forall. intros r Hr. cbn beta. rewrite np_unique_mem.
      rewrite (proj2 (mem_n_in r R') Hr). reflexivity.
Qed.

(* ---- what the handle of a view returns for a term of the corpus ---- *)
Lemma get_enc_inv v R : view_inv docs ix v R ->
  exists Q, Forall (fun r => Q r = true) R /\
    forall t, In t (concat docs) -> get_enc (p_handle (a_posns v)) t = AOk (encode_spec (fpairs docs Q t)).
Proof.
  intros [Hrows Hbound Hl Hterms' Hroot Htot Hn Hmax Hh].
  destruct Hh as [(_ & HR0 & Eh)|(_ & _ & Q & b & Hsel & HQ & [Eh|Eh])]; rewrite Eh.
  - exists (fun _ => true). split; [apply Forall_forall; reflexivity|]. intros t Ht.
    cbn [get_enc]. unfold lookup_posts. rewrite (root_sel t Ht). reflexivity.
  - exists Q. split; [exact HQ|]. intros t Ht. cbn [get_enc]. unfold lookup_posts. rewrite (Hsel t Ht). reflexivity.
  - exists (fun k => mem_n k (np_unique R) && Q k). split.
    + rewrite Forall_forall in *. intros r Hr. rewrite np_unique_mem, (proj2 (mem_n_in r R) Hr), (HQ r Hr). reflexivity.
    + intros t Ht. cbn [get_enc]. unfold lookup_posts. rewrite (Hsel t Ht). cbn [abind].
      rewrite (slice_fpairs docs Hwf Q t (np_unique R) (np_unique_sorted R) (np_unique_forall _ _ Hbound)).
      reflexivity.
Qed.

Lemma known_a_eq v R t : view_inv docs ix v R -> known_a v t = known ix t.
Proof. intros H. unfold known_a, known. now rewrite (vi_terms _ _ _ _ H). Qed.

Lemma count_tok_absent t d : ~ In t d -> count_tok t d = 0.
Proof. intro H. rewrite count_tok_offsets. apply (offsets_nil_iff t d 0) in H. now rewrite H. Qed.

Lemma nth_docs_absent t r : ~ In t (concat docs) -> ~ In t (nth r docs []).
Proof.
  intros Hn Hi. destruct (nth_in_or_default r docs []) as [Hd|Hd]; [|rewrite Hd in Hi; exact Hi].
  apply Hn. apply in_concat. exists (nth r docs []). split; assumption.
Qed.

Lemma as_dense_dval kc size :
  as_dense_spec (map fst kc) (map snd kc) size = map (dval kc) (map N.of_nat (seq 0 (N.to_nat size))).
Proof. unfold as_dense_spec. rewrite combine_fst_snd. reflexivity. Qed.

Lemma filter_keyf_true {B} Q (l : list (N * B)) : Forall (fun g => Q (fst g) = true) (filter (keyf Q) l).
Proof. apply Forall_forall. intros g Hg. apply filter_In in Hg. exact (proj2 Hg). Qed.

(* ---- C06: term frequencies ---- *)
Theorem tf_inv v R t : view_inv docs ix v R ->
  v_termfreqs v t None None = AOk (map (fun r => count_tok t (nth (N.to_nat r) docs [])) R).
Proof.
  intro Hinv. pose proof Hinv as [Hrows Hbound Hl Hterms' Hroot Htot Hn Hmax Hh].
  unfold v_termfreqs. rewrite (known_a_eq v R t Hinv).
  destruct (in_dec N.eq_dec t (concat docs)) as [Hi|Hni].
  2:{ rewrite (known_false docs ix t Hterms Hni). cbn [negb]. unfold nrows. rewrite Hrows. f_equal.
      clear - Hni. induction R as [|r R IH]; [reflexivity|]. cbn [length repeat map]. rewrite <- IH. f_equal.
      symmetry. apply count_tok_absent, nth_docs_absent. exact Hni. }
  rewrite (known_true docs ix t Hterms Hi). cbn [negb].
  destruct (get_enc_inv v R Hinv) as (Q & HQ & Henc). rewrite (Henc t Hi). cbn [abind].
  destruct (a_subset v) eqn:Esub.
  - (* a view: slice by the unique rows, popcount, scatter, gather *)
    rewrite Hrows.
    rewrite (slice_fpairs docs Hwf Q t (np_unique R) (np_unique_sorted R) (np_unique_forall _ _ Hbound)).
    cbn [lift abind slice_range_w api_of_range].
    set (Q' := fun k => mem_n k (np_unique R) && Q k).
    assert (HQ' : forall r, In r R -> Q' r = true).
    { intros r Hr. unfold Q'. rewrite Forall_forall in HQ. rewrite np_unique_mem, (proj2 (mem_n_in r R) Hr), (HQ r Hr). reflexivity. }
    destruct (fpairs_wf docs Hwf Q' t) as [Hs2 Hb2]. rewrite counts_correct by assumption. cbn [lift abind].
    assert (Ecs : counts_spec (fpairs docs Q' t) = map kc_of_g (filter (keyf Q') (gk_from 0 docs t))).
    { unfold counts_spec, fpairs. rewrite gbk_filter. reflexivity. }
    rewrite Ecs. set (kc := map kc_of_g (filter (keyf Q') (gk_from 0 docs t))).
    rewrite as_dense_correct.
    + cbn [unpy lift abind]. f_equal. rewrite as_dense_dval. unfold View.gather. apply map_ext_in. intros r Hr.
      rewrite Forall_forall in Hmax. specialize (Hmax r Hr).
      rewrite nth_map_seq by lia. rewrite N2Nat.id.
      pose proof (dval_gk_filter Q' t docs 0 (N.to_nat r)) as D. rewrite N.add_0_l, N2Nat.id in D.
      apply D. apply HQ'. exact Hr.
    + now rewrite !map_length.
    + unfold kc. rewrite map_map, Forall_map. eapply Forall_impl; [|apply filter_keyf_true]. cbn beta.
      intros g Hg. unfold kc_of_g. cbn [fst]. unfold Q' in Hg. apply andb_prop in Hg. destruct Hg as [Hg _].
      rewrite np_unique_mem in Hg. apply mem_n_in in Hg. rewrite Forall_forall in Hmax. specialize (Hmax _ Hg). lia.
  - (* the fresh array: exactly the index query *)
    destruct Hh as [(_ & HR0 & Eh)|(Esub' & _)]; [|congruence].
    destruct (tp_wf docs Hwf t) as [Hs Hb].
    assert (EQ : fpairs docs Q t = tp_from 0 docs t).
    { rewrite <- (fpairs_true docs t). apply fpairs_ext. intros r Hr. rewrite Forall_forall in HQ. apply HQ.
      rewrite HR0. unfold rows0. apply in_map_iff. exists (N.to_nat r). split; [lia|]. apply in_seq. lia. }
    rewrite EQ. rewrite counts_correct by assumption. cbn [lift abind].
    unfold nrows. rewrite Hrows, HR0, rows0_length.
    assert (Ecs : counts_spec (tp_from 0 docs t) = map kc_of_g (gk_from 0 docs t)).
    { unfold counts_spec. rewrite gbk_tp. reflexivity. }
    rewrite Ecs. rewrite as_dense_correct.
    + cbn [unpy lift]. f_equal. rewrite as_dense_dval, Nat2N.id. change (gk_from 0 docs t) with (gk_from (N.of_nat 0) docs t). rewrite (dense_gk t docs 0).
      unfold rows0. rewrite <- (map_map (fun r => nth (N.to_nat r) docs []) (count_tok t)).
      rewrite gather_rows0 by reflexivity. reflexivity.
    + now rewrite !map_length.
    + rewrite map_map, Forall_map. eapply Forall_impl; [|apply gk_keys]. cbn beta. intros g Hg.
      unfold kc_of_g. cbn [fst]. lia.
Qed.

(* ---- C06: positions ---- *)
Theorem positions_inv v R t : view_inv docs ix v R -> In t (concat docs) ->
  v_positions v t = AOk (map (fun r => offsets_from 0 t (nth (N.to_nat r) docs [])) R).
Proof.
  intros Hinv Hi. pose proof Hinv as [Hrows Hbound Hl Hterms' Hroot Htot Hn Hmax Hh].
  unfold v_positions. rewrite (known_a_eq v R t Hinv), (known_true docs ix t Hterms Hi). cbn [negb].
  destruct (get_enc_inv v R Hinv) as (Q & HQ & Henc). rewrite (Henc t Hi). cbn [abind]. rewrite Hrows.
  rewrite (slice_fpairs docs Hwf Q t (np_unique R) (np_unique_sorted R) (np_unique_forall _ _ Hbound)).
  cbn [lift abind]. f_equal.
  set (Q' := fun k => mem_n k (np_unique R) && Q k).
  destruct (fpairs_wf docs Hwf Q' t) as [Hs2 Hb2]. rewrite decode_encode by assumption.
  unfold fpairs. rewrite gbk_filter. apply map_ext_in. intros r Hr.
  pose proof (lookup_gk_filter Q' t docs 0 (N.to_nat r)) as D. rewrite N.add_0_l, N2Nat.id in D.
  apply D. unfold Q'. rewrite Forall_forall in HQ. rewrite np_unique_mem, (proj2 (mem_n_in r R) Hr), (HQ r Hr). reflexivity.
Qed.

Theorem positions_inv_absent v R t : view_inv docs ix v R -> ~ In t (concat docs) -> v_positions v t = AExc TermMissing.
Proof.
  intros Hinv Hn. unfold v_positions. rewrite (known_a_eq v R t Hinv), (known_false docs ix t Hterms Hn). reflexivity.
Qed.

(* ---- C06: parent statistics ---- *)
Theorem docfreq_inv v R t : view_inv docs ix v R -> v_docfreq v t = AOk (df_spec docs t).
Proof.
  intro Hinv. rewrite <- (docfreq_ok docs ix Hwf Hok t). unfold v_docfreq, docfreq, get_posts, lookup_posts.
  rewrite (known_a_eq v R t Hinv), (vi_root _ _ _ _ Hinv). reflexivity.
Qed.

Theorem doclengths_inv v R : view_inv docs ix v R ->
  v_doclengths v = map (fun r => N.of_nat (length (nth (N.to_nat r) docs []))) R.
Proof.
  intro Hinv. unfold v_doclengths. rewrite (vi_lens _ _ _ _ Hinv). apply map_ext_in. intros r Hr.
  pose proof (vi_bound _ _ _ _ Hinv) as Hb. rewrite Forall_forall in Hb. specialize (Hb r Hr).
  unfold lens_spec. rewrite (nth_indep _ 0 (N.of_nat (length (@nil N)))) by (rewrite map_length; lia).
  apply (map_nth (fun d => N.of_nat (length d))).
Qed.

(* ---- chains ---- *)
Lemma select_chain_inv : NoDup (map fst (ix_posts ix)) -> forall keys v R,
  view_inv docs ix v R -> valid_keys (length R) keys ->
  exists v', select_chain v keys = AOk v' /\ view_inv docs ix v' (compose_rows R keys).
Proof.
  intros ND. induction keys as [|k rest IH]; intros v R Hinv Hv.
  - exists v. split; [reflexivity|exact Hinv].
  - destruct Hv as [Hk Hrest]. destruct (select_inv v R k ND Hinv Hk) as (v1 & E1 & Hinv1).
    cbn [select_chain compose_rows]. rewrite E1. cbn [abind]. apply IH; [exact Hinv1|].
    unfold gather_rows. rewrite map_length. exact Hrest.
Qed.
End Inv.

(* ================= 6. the stored dictionary has one entry per term ================= *)
(* (needed only for the physical-slice mode, which walks over every stored entry) *)
Lemma NoDup_app' {A} (l1 l2 : list A) : NoDup l1 -> NoDup l2 -> (forall x, In x l1 -> ~ In x l2) -> NoDup (l1 ++ l2).
Proof.
  induction l1 as [|a l1 IH]; intros N1 N2 D; [exact N2|]. inversion N1 as [|? ? Ha N1']; subst.
  cbn [app]. constructor.
  - rewrite in_app_iff. intros [H|H]; [contradiction|]. apply (D a); [left; reflexivity|exact H].
  - apply IH; [assumption|assumption|]. intros x Hx. apply D. right. exact Hx.
Qed.

Lemma NoDup_keys_filter {A} (f : N * A -> bool) l : NoDup (map fst l) -> NoDup (map fst (filter f l)).
Proof.
  induction l as [|a l IH]; intro ND; [constructor|]. cbn [map] in ND. inversion ND as [|? ? Ha ND']; subst.
  cbn [filter]. destruct (f a); [|apply IH; exact ND']. cbn [map]. constructor; [|apply IH; exact ND'].
  intro H. apply Ha. apply in_map_iff in H. destruct H as (x & E & Hx). apply filter_In in Hx.
  apply in_map_iff. exists x. tauto.
Qed.

Lemma lookup_none_notin {A} k : forall (l : list (N * A)), lookup k l = None -> ~ In k (map fst l).
Proof.
  induction l as [|[k' v] l IH]; intros H Hin; [exact Hin|]. cbn [lookup] in H. cbn [map fst In] in Hin.
  destruct (N.eqb_spec k k') as [->|Hne]; [discriminate|]. destruct Hin as [E|Hin]; [congruence|]. exact (IH H Hin).
Qed.

Lemma concat_posts_nodup lhs rhs : NoDup (map fst lhs) -> NoDup (map fst rhs) -> NoDup (map fst (concat_posts lhs rhs)).
Proof.
  intros N1 N2. unfold concat_posts. destruct lhs as [|kv0 lhs0] eqn:E; [exact N2|]. rewrite <- E in *. clear E kv0 lhs0.
  rewrite map_app, !map_map. cbn [fst]. apply NoDup_app'.
  - exact N1.
  - apply (NoDup_keys_filter _ rhs N2).
  - intros x H1 H2. apply in_map_iff in H2. destruct H2 as (kv & <- & Hkv). apply filter_In in Hkv.
    destruct Hkv as [_ Hl]. destruct (lookup (fst kv) lhs) eqn:L; [discriminate|].
    exact (lookup_none_notin _ _ L H1).
Qed.

Lemma batch_posts_keys beg b ts : map fst (batch_posts beg b ts) = ts.
Proof. unfold batch_posts. rewrite map_map. cbn [fst]. apply map_id. Qed.

Lemma index_batches_nodup bs : (1 <= bs)%nat -> forall fuel rest done posts beg lens r,
  wf_docs (done ++ rest) -> (rest <> [] -> beg = N.of_nat (length done)) ->
  NoDup (map fst posts) ->
  index_batches false (N.of_nat bs) beg (batches_of bs fuel rest) posts lens = AOk r ->
  NoDup (map fst (fst r)).
Proof.
  intros Hbs. induction fuel as [|f IH]; intros rest done posts beg lens r Hwf Hbeg ND E.
  - cbn [batches_of index_batches] in E. inversion E; subst. exact ND.
  - destruct rest as [|x r0] eqn:Er.
    + cbn [batches_of index_batches] in E. inversion E; subst. exact ND.
    + rewrite <- Er in *. assert (Hne : rest <> []) by (rewrite Er; discriminate).
      assert (Eb : batches_of bs (S f) rest = firstn bs rest :: batches_of bs f (skipn bs rest)).
      { rewrite Er. reflexivity. }
      clear Er x r0. rewrite Eb in E. cbn [index_batches] in E.
      set (b := firstn bs rest) in *. set (rest' := skipn bs rest) in *.
      assert (Esplit : rest = b ++ rest') by (symmetry; apply firstn_skipn).
      rewrite (Hbeg Hne) in E.
      assert (Hwfb : wf_docs (done ++ b)).
      { apply (wf_app_l _ rest'). rewrite <- app_assoc, <- Esplit. exact Hwf. }
      destruct Hwfb as [Hsb Hnb]. pose proof Hsb as Hsb'. apply Forall_app in Hsb'. destruct Hsb' as [_ Hshort].
      rewrite app_length in Hnb.
      destruct (build_batch_correct (N.of_nat (length done)) b Hshort) as (ts & K & Hk & EB); [lia|].
      rewrite EB in E. cbn [abind b_posts b_lens] in E.
      apply (IH rest' (done ++ b) _ _ _ r) in E; [exact E| | |].
      * rewrite <- app_assoc, <- Esplit. exact Hwf.
      * intro Hr. rewrite app_length. unfold b. rewrite firstn_length_le; [lia|].
        destruct (Nat.le_gt_cases bs (length rest)) as [Hle|Hgt]; [exact Hle|].
        exfalso. apply Hr. unfold rest'. apply skipn_all2. lia.
      * apply concat_posts_nodup; [exact ND|]. rewrite batch_posts_keys. apply sorted_lt_nodup. exact K.
Qed.

Lemma index_nodup docs bs ix : wf_docs docs -> index false bs docs = AOk ix -> NoDup (map fst (ix_posts ix)).
Proof.
  intros Hwf E. unfold index in E. unfold doc in E.
  destruct (index_batches false (N.of_nat (Nat.max 1 bs)) 0 (batches_of (Nat.max 1 bs) (length docs) docs) [] []) as [r| | |] eqn:EB;
    cbn [abind] in E; try discriminate.
  inversion E; subst. cbn [ix_posts].
  apply (index_batches_nodup (Nat.max 1 bs) ltac:(lia) (length docs) docs [] [] 0 [] r); [exact Hwf|reflexivity|constructor|exact EB].
Qed.

(* ================= 7. C06 ================= *)
Lemma index_ok_of docs bs ix : wf_docs docs -> index false bs docs = AOk ix -> index_ok docs ix.
Proof.
  intros Hwf E. destruct (index_any_ok docs bs Hwf) as (ix' & E' & Hok). rewrite E in E'. inversion E'; subst. exact Hok.
Qed.

(* the answers of a view, in terms of the documents it shows *)
Lemma tf_view docs keys t :
  map (fun r => count_tok t (nth (N.to_nat r) docs [])) (compose_rows (rows0 docs) keys) = tf_spec (view_docs docs keys) t.
Proof. unfold tf_spec, view_docs. now rewrite map_map. Qed.
Lemma positions_view docs keys t :
  map (fun r => offsets_from 0 t (nth (N.to_nat r) docs [])) (compose_rows (rows0 docs) keys)
  = positions_spec (view_docs docs keys) t.
Proof. unfold positions_spec, view_docs. now rewrite map_map. Qed.
Lemma lens_view docs keys :
  map (fun r => N.of_nat (length (nth (N.to_nat r) docs []))) (compose_rows (rows0 docs) keys)
  = lens_spec (view_docs docs keys).
Proof. unfold lens_spec, view_docs. now rewrite map_map. Qed.

(* no exception and no fault: a valid key chain always yields a view, and the view satisfies the invariant *)
Theorem C06_select_inv docs bs ix avoid keys :
  wf_docs docs -> index false bs docs = AOk ix -> valid_keys (length docs) keys ->
  exists v, select_chain (of_index ix avoid) keys = AOk v /\
            view_inv docs ix v (compose_rows (rows0 docs) keys).
Proof.
  intros Hwf E Hv. pose proof (index_ok_of docs bs ix Hwf E) as Hok.
  apply (select_chain_inv docs ix Hwf Hok (index_nodup docs bs ix Hwf E)).
  - apply of_index_inv. exact Hok.
  - rewrite rows0_length. exact Hv.
Qed.

Theorem C06_select_total docs bs ix avoid keys :
  wf_docs docs -> index false bs docs = AOk ix -> valid_keys (length docs) keys ->
  exists v, select_chain (of_index ix avoid) keys = AOk v.
Proof.
  intros Hwf E Hv. destruct (C06_select_inv docs bs ix avoid keys Hwf E Hv) as (v & Ev & _). exists v. exact Ev.
Qed.

Theorem C06_commute docs bs ix avoid keys v :
  wf_docs docs -> index false bs docs = AOk ix -> valid_keys (length docs) keys ->
  select_chain (of_index ix avoid) keys = AOk v ->
  a_rows v = compose_rows (rows0 docs) keys /\
  (forall t, v_termfreqs v t None None = AOk (tf_spec (view_docs docs keys) t)) /\
  (forall t, In t (concat docs) -> v_positions v t = AOk (positions_spec (view_docs docs keys) t)) /\
  v_doclengths v = lens_spec (view_docs docs keys) /\
  (forall t, v_docfreq v t = AOk (df_spec docs t)) /\
  a_total v = total_spec docs /\ a_n v = N.of_nat (length docs).
Proof.
  intros Hwf E Hv Ev. pose proof (index_ok_of docs bs ix Hwf E) as Hok.
  destruct (C06_select_inv docs bs ix avoid keys Hwf E Hv) as (v' & Ev' & Hinv).
  rewrite Ev in Ev'. inversion Ev'; subst v'. clear Ev'.
  split; [exact (vi_rows _ _ _ _ Hinv)|].
  split; [intro t; rewrite <- tf_view; eapply tf_inv; eassumption|].
  split; [intros t Ht; rewrite <- positions_view; eapply positions_inv; eassumption|].
  split; [rewrite <- lens_view; eapply doclengths_inv; eassumption|].
  split; [intro t; eapply docfreq_inv; eassumption|].
  split; [exact (vi_total _ _ _ _ Hinv)|exact (vi_n _ _ _ _ Hinv)].
Qed.

(* terms outside the corpus: positions raises, as on the parent (C05) *)
Theorem C06_positions_absent docs bs ix avoid keys v t :
  wf_docs docs -> index false bs docs = AOk ix -> valid_keys (length docs) keys ->
  select_chain (of_index ix avoid) keys = AOk v -> ~ In t (concat docs) ->
  v_positions v t = AExc TermMissing.
Proof.
  intros Hwf E Hv Ev Hn. pose proof (index_ok_of docs bs ix Hwf E) as Hok.
  destruct (C06_select_inv docs bs ix avoid keys Hwf E Hv) as (v' & Ev' & Hinv).
  rewrite Ev in Ev'. inversion Ev'; subst v'. eapply positions_inv_absent; eassumption.
Qed.

(* ---- the parent's answers, re-indexed by the composed key ---- *)
Lemma reindex_map {B} (f : list N -> B) (dflt : B) docs keys :
  dflt = f [] ->
  map (fun r => f (nth (N.to_nat r) docs [])) (compose_rows (rows0 docs) keys)
  = reindex dflt (map f docs) docs keys.
Proof.
  intros ->. unfold reindex. apply map_ext. intro r. symmetry. apply (map_nth f).
Qed.

Lemma tf_reindex docs keys t : tf_spec (view_docs docs keys) t = reindex 0 (tf_spec docs t) docs keys.
Proof. rewrite <- tf_view. unfold tf_spec. apply (reindex_map (count_tok t)). reflexivity. Qed.
Lemma positions_reindex docs keys t :
  positions_spec (view_docs docs keys) t = reindex [] (positions_spec docs t) docs keys.
Proof. rewrite <- positions_view. unfold positions_spec. apply (reindex_map (offsets_from 0 t)). reflexivity. Qed.
Lemma lens_reindex docs keys : lens_spec (view_docs docs keys) = reindex 0 (lens_spec docs) docs keys.
Proof. rewrite <- lens_view. unfold lens_spec. apply (reindex_map (fun d => N.of_nat (length d))). reflexivity. Qed.

Corollary C06_reindex docs bs ix avoid keys v :
  wf_docs docs -> index false bs docs = AOk ix -> valid_keys (length docs) keys ->
  select_chain (of_index ix avoid) keys = AOk v ->
  (forall t, v_termfreqs v t None None = AOk (reindex 0 (tf_spec docs t) docs keys)) /\
  (forall t, In t (concat docs) -> v_positions v t = AOk (reindex [] (positions_spec docs t) docs keys)) /\
  v_doclengths v = reindex 0 (lens_spec docs) docs keys.
Proof.
  intros Hwf E Hv Ev. destruct (C06_commute docs bs ix avoid keys v Hwf E Hv Ev) as (_ & Htf & Hp & Hl & _).
  split; [intro t; rewrite <- tf_reindex; apply Htf|].
  split; [intros t Ht; rewrite <- positions_reindex; apply Hp; exact Ht|].
  rewrite <- lens_reindex. exact Hl.
Qed.

(* the same, against the parent's own (proved) answers: termfreqs / positions / doclengths of the index *)
Corollary C06_parent docs bs ix avoid keys v :
  wf_docs docs -> index false bs docs = AOk ix -> valid_keys (length docs) keys ->
  select_chain (of_index ix avoid) keys = AOk v ->
  (forall t, exists ptf, termfreqs ix t = AOk ptf /\ v_termfreqs v t None None = AOk (reindex 0 ptf docs keys)) /\
  (forall t, In t (concat docs) ->
     exists pp, positions ix t = AOk pp /\ v_positions v t = AOk (reindex [] pp docs keys)) /\
  v_doclengths v = reindex 0 (doclengths ix) docs keys /\
  (forall t, v_docfreq v t = docfreq ix t) /\
  a_total v = total_len ix /\ a_n v = corpus_size ix.
Proof.
  intros Hwf E Hv Ev. pose proof (index_ok_of docs bs ix Hwf E) as Hok.
  destruct (C06_commute docs bs ix avoid keys v Hwf E Hv Ev) as (_ & _ & _ & _ & Hdf & Htot & Hn).
  destruct (C06_reindex docs bs ix avoid keys v Hwf E Hv Ev) as (Htf & Hp & Hl).
  destruct (doclens_ok docs ix Hok) as (Dl & Dn & Dt).
  split; [intro t; exists (tf_spec docs t); split; [apply termfreqs_ok; assumption|apply Htf]|].
  split; [intros t Ht; exists (positions_spec docs t); split; [apply positions_ok; assumption|apply Hp; exact Ht]|].
  split; [rewrite Dl; exact Hl|].
  split; [intro t; rewrite Hdf; symmetry; apply docfreq_ok; assumption|].
  split; [rewrite Dt; exact Htot|rewrite Dn; exact Hn].
Qed.

(* the statistics a BM25-family scorer receives for a single term on a view:
   view term frequencies and view lengths, PARENT document frequency, total length and corpus size *)
Corollary C06_score_args docs bs ix avoid keys v t :
  wf_docs docs -> index false bs docs = AOk ix -> valid_keys (length docs) keys ->
  select_chain (of_index ix avoid) keys = AOk v ->
  v_score_args v [t] None None =
    AOk (tf_spec (view_docs docs keys) t, [df_spec docs t], lens_spec (view_docs docs keys),
         total_spec docs, N.of_nat (length docs)).
Proof.
  intros Hwf E Hv Ev. destruct (C06_commute docs bs ix avoid keys v Hwf E Hv Ev) as (_ & Htf & _ & Hl & Hdf & Htot & Hn).
  unfold v_score_args. cbn [v_all_dfs v_tf_vector]. rewrite Hdf. cbn [abind]. rewrite Htf. cbn [abind].
  now rewrite Hl, Htot, Hn.
Qed.

(* the hypotheses are satisfiable, and the conclusion is the computed value on a small corpus, both modes *)
Definition ex_docs : list (list N) := [[1;2;1;3];[];[2];[1;1;2];[3;1]].
Definition ex_keys : list (list N) := [[4;2;0;0];[1;0;3]].
Definition ex_run (avoid : bool) :=
  match index false 2 ex_docs with
  | AOk ix => match select_chain (of_index ix avoid) ex_keys with
              | AOk v => Some (a_rows v, v_termfreqs v 1 None None, v_positions v 1, v_docfreq v 1, v_doclengths v)
              | _ => None end
  | _ => None end.
Example C06_example_wf : wf_docs ex_docs /\ valid_keys (length ex_docs) ex_keys.
Proof.
  split; [split; [repeat constructor; cbn; lia|rewrite pow28; cbn; lia]|].
  cbn [valid_keys length ex_docs ex_keys]. repeat split; repeat constructor; cbn; lia.
Qed.
Example C06_example_run : forall avoid,
  ex_run avoid = Some ([2;4;0], AOk [0;1;2], AOk [[];[1];[0;2]], AOk 3, [1;2;4]).
Proof. intros [|]; vm_compute; reflexivity. Qed.

Print Assumptions C06_select_total.
Print Assumptions C06_commute.
Print Assumptions C06_positions_absent.
Print Assumptions C06_reindex.
Print Assumptions C06_parent.
Print Assumptions C06_score_args.
