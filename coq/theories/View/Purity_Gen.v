(* C07, generalised: the purity theorems of View/Purity_Proofs.v with the two premises on the immutable
   postings RESTRICTED TO A DOMAIN, and the operations restricted so that they instantiate the premises only
   inside that domain.
     R : list N -> Prop                                    admissible row vectors
     Q : list N -> option N -> option N -> list N -> Prop  admissible (phrase, lo, hi, rows of the view queried)
     slice_idem_on    = slice_idem_hyp  for row vectors in R only
     phrase_local_on  = phrase_local_hyp for row vectors in R and (ts, lo, hi, rows) in Q only
   The invariant is strengthened by "the row vector of every array of the pool is in R" ([InvR]).  What an
   operation needs is a function of the SHAPE of the pool only: for every array, whether it is a view and its
   row vector ([shape_of]).  Shapes evolve independently of caches and handles ([shape_step], [shape_of_step]),
   so the domain of a whole history is a static predicate on (initial shape, operations) ([ops_dom]).
   [op_dom]:  OPhrase / OScore with >= 2 terms ON A VIEW must be in Q (on a root array: no condition);
              OSelect must produce a row vector in R;  every other operation is unrestricted.
   With R, Q := True the old statements come back ([history_free_from_gen] ...). *)
From Coq Require Import ZArith.
From SA Require Import Base.Prelude Kernels.Spec Kernels.Linear Codec.Codec Index.Index Query.Phrase Query.Range
  Score.BM25 View.View View.Purity View.Purity_Proofs.
Open Scope N_scope.

(* ================= shapes ================= *)
Definition shape := list (bool * list N).     (* per array: (is it a view?, its row vector) *)
Definition shape_of (p : pool) : shape := map (fun a => (a_subset (pa_arr a), a_rows (pa_arr a))) (arrays p).

Definition shape_step (sh : shape) (o : op) : shape :=
  match o with
  | OSelect ai pos =>
      match nth_error sh ai with Some (_, rows) => sh ++ [(true, gather 0 rows pos)] | None => sh end
  | OCopy ai => match nth_error sh ai with Some x => sh ++ [x] | None => sh end
  | _ => sh
  end.
Fixpoint shape_run (sh : shape) (ops : list op) : shape :=
  match ops with [] => sh | o :: rest => shape_run (shape_step sh o) rest end.

Lemma shape_of_nth p ai a : nth_error (arrays p) ai = Some a ->
  nth_error (shape_of p) ai = Some (a_subset (pa_arr a), a_rows (pa_arr a)).
Proof. intro H. unfold shape_of. rewrite nth_error_map, H. reflexivity. Qed.
Lemma shape_of_nth_none p ai : nth_error (arrays p) ai = None -> nth_error (shape_of p) ai = None.
Proof. intro H. unfold shape_of. rewrite nth_error_map, H. reflexivity. Qed.

Lemma shape_of_arrays_eq p p' : arrays p' = arrays p -> shape_of p' = shape_of p.
Proof. intro E. unfold shape_of. rewrite E. reflexivity. Qed.

Lemma shape_step_ext sh o : exists extra, shape_step sh o = sh ++ extra.
Proof.
  assert (N0 : exists extra : shape, sh = sh ++ extra) by (exists []; rewrite app_nil_r; reflexivity).
  destruct o; cbn [shape_step]; try exact N0.
  - destruct (nth_error sh a) as [[b rows]|]; [eexists; reflexivity|exact N0].
  - destruct (nth_error sh a) as [x|]; [eexists; reflexivity|exact N0].
Qed.

(* the shape after a step is [shape_step] of the shape before: it does not depend on caches or handles *)
Lemma shape_of_step good_posts p o r p' : Inv good_posts p -> step p o = (r, p') ->
  shape_of p' = shape_step (shape_of p) o.
Proof.
  intros HI H.
  destruct o as [ai t lo hi|ai ts lo hi|ai t|ai t|ai|ai ts idf k1 b|ai pos|ai|ai];
    unfold step, with_array in H; cbn [shape_step].
  - destruct (nth_error (arrays p) ai) as [a|] eqn:En; [|inv_pair H; reflexivity].
    destruct (m_termfreqs p a t lo hi) as [v p1] eqn:E. inv_pair H.
    destruct (m_termfreqs_pure good_posts _ _ _ _ _ _ _ HI (nth_error_In _ _ En) E) as ((_ & A & _) & _).
    apply shape_of_arrays_eq. exact A.
  - destruct (nth_error (arrays p) ai) as [a|] eqn:En; [|inv_pair H; reflexivity].
    destruct (m_phrase p a ts lo hi) as [v p1] eqn:E. inv_pair H.
    destruct (m_phrase_pure good_posts _ _ _ _ _ _ _ HI (nth_error_In _ _ En) E) as ((_ & A & _) & _).
    apply shape_of_arrays_eq. exact A.
  - destruct (nth_error (arrays p) ai) as [a|] eqn:En; [|inv_pair H; reflexivity].
    destruct (m_positions p a t) as [v p1] eqn:E. inv_pair H.
    destruct (m_positions_pure good_posts _ _ _ _ _ HI (nth_error_In _ _ En) E) as ((_ & A & _) & _).
    apply shape_of_arrays_eq. exact A.
  - destruct (nth_error (arrays p) ai) as [a|] eqn:En; [|inv_pair H; reflexivity].
    destruct (m_docfreq p a t) as [v p1] eqn:E. inv_pair H.
    destruct (m_docfreq_pure good_posts _ _ _ _ _ HI (nth_error_In _ _ En) E) as ((_ & A & _) & _).
    apply shape_of_arrays_eq. exact A.
  - destruct (nth_error (arrays p) ai) as [a|] eqn:En; inv_pair H; reflexivity.
  - destruct (nth_error (arrays p) ai) as [a|] eqn:En; [|inv_pair H; reflexivity].
    destruct (m_score p a ts idf k1 b) as [v p1] eqn:E. inv_pair H.
    destruct (m_score_pure good_posts _ _ _ _ _ _ _ _ HI (nth_error_In _ _ En) E) as ((_ & A & _) & _).
    apply shape_of_arrays_eq. exact A.
  - destruct (m_select p ai pos) as [v p1] eqn:E. inv_pair H. rewrite m_select_eq in E.
    destruct (nth_error (arrays p) ai) as [a|] eqn:En.
    + rewrite (shape_of_nth _ _ _ En). cbv zeta in E. inv_pair E.
      unfold shape_of, put_ps. cbn [arrays]. rewrite map_app. reflexivity.
    + rewrite (shape_of_nth_none _ _ En). inv_pair E. reflexivity.
  - destruct (m_copy p ai) as [v p1] eqn:E. inv_pair H. unfold m_copy in E.
    destruct (nth_error (arrays p) ai) as [a|] eqn:En.
    + rewrite (shape_of_nth _ _ _ En). inv_pair E. unfold shape_of. cbn [arrays]. rewrite map_app. reflexivity.
    + rewrite (shape_of_nth_none _ _ En). inv_pair E. reflexivity.
  - destruct (m_warm p ai) as [v p1] eqn:E. inv_pair H.
    destruct (m_warm_pure good_posts _ _ _ _ HI E) as (_ & A & _). apply shape_of_arrays_eq. exact A.
Qed.

Lemma shape_of_run good_posts ops : forall p outs p', Inv good_posts p -> run p ops = (outs, p') ->
  shape_of p' = shape_run (shape_of p) ops.
Proof.
  induction ops as [|o rest IH]; intros p outs p' HI H.
  - inv_pair H. reflexivity.
  - rewrite run_cons in H. inv_pair H. cbn [shape_run].
    destruct (step p o) as [r1 p1] eqn:Es. cbn [fst snd].
    destruct (step_inv good_posts _ _ _ _ HI Es) as (I1 & _).
    rewrite <- (shape_of_step good_posts _ _ _ _ HI Es).
    destruct (run p1 rest) as [outs1 p2] eqn:Er. cbn [snd]. eapply IH; eassumption.
Qed.

Lemma shape_of_init ix cg : shape_of (init_pool ix cg) = [(false, map N.of_nat (seq 0 (length (ix_lens ix))))].
Proof. reflexivity. Qed.

(* ================= the generalised development ================= *)
Section Gen.
Variable good_posts : posts -> N -> Prop.
Variable R : list N -> Prop.
Variable Q : list N -> option N -> option N -> list N -> Prop.
Local Notation INV := (Inv good_posts).

(* H1 on R: slicing well-formed postings by the same sorted distinct id set twice is slicing once *)
Definition slice_idem_on : Prop :=
  forall base maxd t w rows sl, good_posts base maxd -> R rows -> lookup_posts t base = AOk w ->
    slice_keys w (np_unique rows) = Done sl -> slice_keys sl (np_unique rows) = Done sl.
(* H2 on R, Q: phrase counts of a document depend only on that document's postings *)
Definition phrase_local_on : Prop :=
  forall base maxd ts lo hi rows, good_posts base maxd -> (2 <= length ts)%nat -> R rows -> Q ts lo hi rows ->
    (ado enc <- get_all_enc (HBase base) ts lo hi;
     ado pf <- compute_phrase_freqs enc;
     ado dense <- lift (store_many (repeat 0 (N.to_nat (maxd + 1))) pf);
     AOk (gather 0 dense rows))
    = (ado enc <- get_all_enc (HFiltered base (np_unique rows)) ts lo hi;
       ado pf <- compute_phrase_freqs enc;
       ado dense <- lift (store_many (repeat 0 (N.to_nat (maxd + 1))) pf);
       AOk (gather 0 dense rows)).

(* the strengthened invariant: the row vector of every array is in R *)
Definition shape_ok (sh : shape) : Prop := Forall (fun x => R (snd x)) sh.
Definition InvR (p : pool) : Prop := INV p /\ shape_ok (shape_of p).

(* the operations that instantiate the premises inside the domain only *)
Definition op_dom (sh : shape) (o : op) : Prop :=
  match o with
  | OPhrase ai ts lo hi =>
      forall rows, nth_error sh ai = Some (true, rows) -> (2 <= length ts)%nat -> Q ts lo hi rows
  | OScore ai ts _ _ _ =>
      forall rows, nth_error sh ai = Some (true, rows) -> (2 <= length ts)%nat -> Q ts None None rows
  | OSelect ai pos =>
      forall b rows, nth_error sh ai = Some (b, rows) -> R (gather 0 rows pos)
  | _ => True
  end.
Fixpoint ops_dom (sh : shape) (ops : list op) : Prop :=
  match ops with [] => True | o :: rest => op_dom sh o /\ ops_dom (shape_step sh o) rest end.

Lemma shape_ok_in p a : shape_ok (shape_of p) -> In a (arrays p) -> R (a_rows (pa_arr a)).
Proof.
  unfold shape_ok, shape_of. rewrite Forall_map, Forall_forall. intros H Ha. exact (H a Ha).
Qed.

Lemma shape_step_ok sh o : shape_ok sh -> op_dom sh o -> shape_ok (shape_step sh o).
Proof.
  intros Hs Hd. unfold shape_ok in *. destruct o; cbn [shape_step op_dom] in *; try exact Hs.
  - destruct (nth_error sh a) as [[b rows]|] eqn:En; [|exact Hs].
    apply Forall_app. split; [exact Hs|]. constructor; [|constructor]. cbn [snd]. exact (Hd b rows eq_refl).
  - destruct (nth_error sh a) as [x|] eqn:En; [|exact Hs].
    apply Forall_app. split; [exact Hs|]. constructor; [|constructor].
    rewrite Forall_forall in Hs. apply Hs. eapply nth_error_In; exact En.
Qed.

(* the domain of a query is stable under growth of the pool *)
Lemma op_dom_ext sh extra o ai : (ai < length sh)%nat ->
  match o with OTf a _ _ _ | OPhrase a _ _ _ | OPos a _ | ODf a _ | OLens a | OScore a _ _ _ _ => a = ai | _ => False end ->
  op_dom sh o -> op_dom (sh ++ extra) o.
Proof.
  intros Hl Hi Hd. destruct o; cbn [op_dom] in *; try exact I; try contradiction; subst ai;
    intros rows Hn; rewrite nth_error_app1 in Hn by exact Hl; apply Hd; exact Hn.
Qed.

Lemma op_dom_mono p p' o r0 : (exists extra, arrays p' = arrays p ++ extra) -> pure_answer p o = Some r0 ->
  op_dom (shape_of p) o -> op_dom (shape_of p') o.
Proof.
  intros (extra & E) Hp Hd.
  assert (Es : shape_of p' = shape_of p ++ map (fun a => (a_subset (pa_arr a), a_rows (pa_arr a))) extra).
  { unfold shape_of. rewrite E, map_app. reflexivity. }
  rewrite Es.
  destruct o as [ai t lo hi|ai ts lo hi|ai t|ai t|ai|ai ts idf k1 b|ai pos|ai|ai];
    unfold pure_answer in Hp; cbv beta iota zeta in Hp; try discriminate Hp;
    (destruct (nth_error (arrays p) ai) as [x|] eqn:En; [|discriminate Hp]);
    (apply (op_dom_ext _ _ _ ai); [|reflexivity|exact Hd]);
    unfold shape_of; rewrite map_length; apply nth_error_Some; congruence.
Qed.

(* ================= the answers of the queries that use a premise ================= *)
Lemma m_termfreqs_ans p a t lo hi r p' : INV p -> In a (arrays p) -> m_termfreqs p a t lo hi = (r, p') ->
  slice_idem_on -> R (a_rows (pa_arr a)) -> r = v_termfreqs (pa_arr a) t lo hi.
Proof.
  intros HI Ha H Hidem HR. pose proof HI as (Hst & Har).
  destruct (Har a Ha) as (Hpid & Hh & Hm & Hsub & Hids & Hr & Hdf).
  destruct (Hst _ Hpid) as (Hgood & Hc & _).
  unfold m_termfreqs, v_termfreqs in *.
  destruct (negb (known_a (pa_arr a) t)).
  { inv_pair H. reflexivity. }
  destruct (a_subset (pa_arr a)) eqn:Esub.
  - destruct (read_enc (get_ps p (pa_pid a)) t) as [enc s1] eqn:Er.
    destruct (read_enc_spec _ _ _ _ Hc Er) as (Him & _ & Hc1 & ->). inv_pair H.
    rewrite Hh, Hm.
    destruct (cur_handle_cases (get_ps p (pa_pid a))) as [->|(_ & ids & Hi & -> & ->)]; [reflexivity|].
    rewrite (Hids ids Hi). cbn [get_enc].
    destruct (lookup_posts t (ps_base (get_ps p (pa_pid a)))) as [w| | |] eqn:El; cbn [abind]; try reflexivity.
    destruct (slice_keys w (np_unique (a_rows (pa_arr a)))) as [sl| |] eqn:Es; cbn [lift abind]; try reflexivity.
    rewrite (Hidem _ _ _ _ _ _ Hgood HR El Es). reflexivity.
  - assert (Hnone : ps_ids (get_ps p (pa_pid a)) = None).
    { destruct (ps_ids (get_ps p (pa_pid a))); [discriminate|reflexivity]. }
    assert (Hcur : cur_handle (get_ps p (pa_pid a)) = handle_of (get_ps p (pa_pid a))).
    { unfold cur_handle, handle_of. rewrite Hnone. destruct (ps_filtered_now _); reflexivity. }
    assert (Hbase : handle_of (get_ps p (pa_pid a)) = HBase (ps_base (get_ps p (pa_pid a)))).
    { unfold handle_of. rewrite Hnone. reflexivity. }
    destruct lo as [lo|]; [|destruct hi as [hi|]].
    + destruct (read_enc (get_ps p (pa_pid a)) t) as [enc s1] eqn:Er.
      destruct (read_enc_spec _ _ _ _ Hc Er) as (Him & _ & Hc1 & ->). inv_pair H.
      rewrite Hh, Hcur. reflexivity.
    + destruct (read_enc (get_ps p (pa_pid a)) t) as [enc s1] eqn:Er.
      destruct (read_enc_spec _ _ _ _ Hc Er) as (Him & _ & Hc1 & ->). inv_pair H.
      rewrite Hh, Hcur. reflexivity.
    + destruct (tf_with_cache (get_ps p (pa_pid a)) t) as [kc s1] eqn:Et.
      destruct (tf_with_cache_spec _ _ _ _ Hc Hnone Et) as (Him & _ & Hc1 & ->). inv_pair H.
      rewrite Hh, Hbase. unfold tf_answer. cbn [get_enc].
      destruct (lookup_posts t (ps_base (get_ps p (pa_pid a)))); reflexivity.
Qed.

Lemma m_positions_ans p a t r p' : INV p -> In a (arrays p) -> m_positions p a t = (r, p') ->
  slice_idem_on -> R (a_rows (pa_arr a)) -> r = v_positions (pa_arr a) t.
Proof.
  intros HI Ha H Hidem HR. pose proof HI as (Hst & Har).
  destruct (Har a Ha) as (Hpid & Hh & Hm & Hsub & Hids & Hr & Hdf).
  destruct (Hst _ Hpid) as (Hgood & Hc & _).
  unfold m_positions, v_positions in *.
  destruct (negb (known_a (pa_arr a) t)).
  { inv_pair H. reflexivity. }
  destruct (read_enc (get_ps p (pa_pid a)) t) as [enc s1] eqn:Er.
  destruct (read_enc_spec _ _ _ _ Hc Er) as (Him & _ & Hc1 & ->). inv_pair H.
  rewrite Hh.
  destruct (cur_handle_cases (get_ps p (pa_pid a))) as [->|(_ & ids & Hi & -> & ->)].
  { destruct (get_enc (handle_of (get_ps p (pa_pid a))) t) as [w|e| |]; try reflexivity.
    destruct e; reflexivity. }
  rewrite (Hids ids Hi). cbn [get_enc].
  destruct (lookup_posts t (ps_base (get_ps p (pa_pid a)))) as [w|e| |] eqn:El; cbn [abind].
  - destruct (slice_keys w (np_unique (a_rows (pa_arr a)))) as [sl| |] eqn:Es; cbn [lift abind]; try reflexivity.
    rewrite (Hidem _ _ _ _ _ _ Hgood HR El Es). reflexivity.
  - destruct e; reflexivity.
  - reflexivity.
  - reflexivity.
Qed.

Lemma m_phrase_ans p a ts lo hi r p' : INV p -> In a (arrays p) -> m_phrase p a ts lo hi = (r, p') ->
  phrase_local_on -> R (a_rows (pa_arr a)) ->
  (a_subset (pa_arr a) = true -> (2 <= length ts)%nat -> Q ts lo hi (a_rows (pa_arr a))) ->
  r = v_phrase_freqs (pa_arr a) ts lo hi.
Proof.
  intros HI Ha H Hph HR HQ. pose proof HI as (Hst & Har).
  destruct (Har a Ha) as (Hpid & Hh & Hm & Hsub & Hids & Hr & Hdf).
  destruct (Hst _ Hpid) as (Hgood & Hc & _).
  unfold m_phrase, v_phrase_freqs in *.
  destruct (negb (forallb (known_a (pa_arr a)) ts)).
  { inv_pair H. reflexivity. }
  destruct (Nat.ltb (length ts) 2) eqn:Elen.
  { inv_pair H. reflexivity. }
  destruct (read_all_enc (get_ps p (pa_pid a)) ts lo hi) as [encs s1] eqn:Er.
  destruct (read_all_enc_spec _ _ _ _ _ _ Hc Er) as (Him & _ & Hc1 & ->). inv_pair H.
  rewrite Hh, Hm.
  destruct (cur_handle_cases (get_ps p (pa_pid a))) as [->|(_ & ids & Hi & -> & ->)]; [reflexivity|].
  rewrite Hi in Hsub. apply Nat.ltb_ge in Elen. specialize (HQ Hsub Elen).
  rewrite Hsub. rewrite (Hids ids Hi). cbv beta iota.
  apply Hph; assumption.
Qed.

Lemma m_score_ans p a ts idf k1 b r p' : INV p -> In a (arrays p) -> m_score p a ts idf k1 b = (r, p') ->
  slice_idem_on -> phrase_local_on -> R (a_rows (pa_arr a)) ->
  (a_subset (pa_arr a) = true -> (2 <= length ts)%nat -> Q ts None None (a_rows (pa_arr a))) ->
  r = v_score_bm25 (pa_arr a) ts idf k1 b.
Proof.
  intros HI Ha H Hidem Hph HR HQ. unfold m_score in H.
  destruct (m_all_dfs p a ts) as [dfs p1] eqn:E1.
  destruct (m_all_dfs_pure good_posts _ _ _ _ _ HI Ha E1) as (U1 & ->).
  assert (Ha1 : In a (arrays p1)) by (destruct U1 as (_ & -> & _); exact Ha).
  destruct (match ts with [t] => m_termfreqs p1 a t None None | _ => m_phrase p1 a ts None None end)
    as [tfs p2] eqn:E2.
  assert (A : tfs = v_tf_vector (pa_arr a) ts None None).
  { unfold v_tf_vector. destruct ts as [|t [|t2 rest]].
    - exact (m_phrase_ans _ _ _ _ _ _ _ (proj1 U1) Ha1 E2 Hph HR HQ).
    - exact (m_termfreqs_ans _ _ _ _ _ _ _ (proj1 U1) Ha1 E2 Hidem HR).
    - exact (m_phrase_ans _ _ _ _ _ _ _ (proj1 U1) Ha1 E2 Hph HR HQ). }
  inv_pair H.
  unfold v_score_bm25, v_score_args.
  destruct (v_all_dfs (pa_arr a) ts); cbn [abind]; try reflexivity.
  destruct (v_tf_vector (pa_arr a) ts None None); reflexivity.
Qed.

(* ================= one step ================= *)
Lemma step_ans p o r p' : InvR p -> op_dom (shape_of p) o -> step p o = (r, p') ->
  slice_idem_on -> phrase_local_on -> forall r0, pure_answer p o = Some r0 -> r = r0.
Proof.
  intros (HI & Hsh) Hd H H1 H2 r0 Hr.
  destruct o as [ai t lo hi|ai ts lo hi|ai t|ai t|ai|ai ts idf k1 b|ai pos|ai|ai];
    unfold step, with_array, pure_answer in *; cbv beta iota zeta in *; try discriminate Hr;
    (destruct (nth_error (arrays p) ai) as [a|] eqn:En; cbn [option_map] in Hr; [|discriminate Hr]);
    pose proof (nth_error_In _ _ En) as Ha; pose proof (shape_ok_in _ _ Hsh Ha) as HR; inv_pair Hr.
  - destruct (m_termfreqs p a t lo hi) as [v p1] eqn:E. inv_pair H.
    rewrite (m_termfreqs_ans _ _ _ _ _ _ _ HI Ha E H1 HR). reflexivity.
  - destruct (m_phrase p a ts lo hi) as [v p1] eqn:E. inv_pair H.
    rewrite (m_phrase_ans _ _ _ _ _ _ _ HI Ha E H2 HR); [reflexivity|].
    intros Es Hl. cbn [op_dom] in Hd. apply Hd; [|exact Hl]. rewrite (shape_of_nth _ _ _ En), Es. reflexivity.
  - destruct (m_positions p a t) as [v p1] eqn:E. inv_pair H.
    rewrite (m_positions_ans _ _ _ _ _ HI Ha E H1 HR). reflexivity.
  - destruct (m_docfreq p a t) as [v p1] eqn:E. inv_pair H.
    destruct (m_docfreq_pure good_posts _ _ _ _ _ HI Ha E) as (_ & ->). reflexivity.
  - inv_pair H. reflexivity.
  - destruct (m_score p a ts idf k1 b) as [v p1] eqn:E. inv_pair H.
    rewrite (m_score_ans _ _ _ _ _ _ _ _ HI Ha E H1 H2 HR); [reflexivity|].
    intros Es Hl. cbn [op_dom] in Hd. apply Hd; [|exact Hl]. rewrite (shape_of_nth _ _ _ En), Es. reflexivity.
Qed.

(* ================= theorems that need no fact about the postings ================= *)
Theorem step_inv_gen p o r p' : InvR p -> op_dom (shape_of p) o -> step p o = (r, p') ->
  InvR p' /\ (exists extra, arrays p' = arrays p ++ extra) /\ heap_le p p'.
Proof.
  intros (HI & Hsh) Hd H. destruct (step_inv good_posts _ _ _ _ HI H) as (X & Y & Z).
  split; [|split; [exact Y|exact Z]]. split; [exact X|].
  rewrite (shape_of_step good_posts _ _ _ _ HI H). apply shape_step_ok; assumption.
Qed.

Theorem run_inv_gen ops : forall p outs p', InvR p -> ops_dom (shape_of p) ops -> run p ops = (outs, p') ->
  InvR p' /\ (exists extra, arrays p' = arrays p ++ extra) /\ heap_le p p' /\ length outs = length ops.
Proof.
  induction ops as [|o rest IH]; intros p outs p' HI Hd H.
  - inv_pair H. split; [exact HI|]. split; [exists []; rewrite app_nil_r; reflexivity|].
    split; [apply heap_le_refl|reflexivity].
  - rewrite run_cons in H. inv_pair H. cbn [ops_dom] in Hd. destruct Hd as (Hd1 & Hd2).
    destruct (step p o) as [r1 p1] eqn:Es. cbn [fst snd].
    destruct (step_inv_gen _ _ _ _ HI Hd1 Es) as (I1 & (e1 & A1) & L1).
    rewrite <- (shape_of_step good_posts _ _ _ _ (proj1 HI) Es) in Hd2.
    destruct (run p1 rest) as [outs1 p2] eqn:Er. cbn [fst snd].
    destruct (IH _ _ _ I1 Hd2 Er) as (I2 & (e2 & A2) & L2 & Hlen).
    split; [exact I2|]. split; [exists (e1 ++ e2); rewrite A2, A1, app_assoc; reflexivity|].
    split; [eapply heap_le_trans; eassumption|]. cbn [length]. rewrite Hlen. reflexivity.
Qed.

Lemma ops_dom_firstn ops : forall sh k, ops_dom sh ops -> ops_dom sh (firstn k ops).
Proof.
  induction ops as [|o rest IH]; intros sh k H; [destruct k; exact I|].
  destruct k as [|k]; [exact I|]. cbn [firstn ops_dom] in *. destruct H as (H1 & H2). split; [exact H1|].
  apply IH. exact H2.
Qed.

(* ================= the answers: premises H1 on R, H2 on R, Q ================= *)
Section Answers.
Hypothesis slice_idem : slice_idem_on.
Hypothesis phrase_local : phrase_local_on.

Theorem step_pure_gen p o r p' : InvR p -> op_dom (shape_of p) o -> step p o = (r, p') ->
  InvR p' /\ (forall r0, pure_answer p o = Some r0 -> r = r0) /\
  (exists extra, arrays p' = arrays p ++ extra) /\ heap_le p p'.
Proof.
  intros HI Hd H. destruct (step_inv_gen _ _ _ _ HI Hd H) as (X & Y & Z).
  split; [exact X|]. split; [|split; [exact Y|exact Z]].
  exact (step_ans _ _ _ _ HI Hd H slice_idem phrase_local).
Qed.

(* every output of a run is the pure answer at the pool reached just before it *)
Theorem run_pure_gen ops : forall p outs p', InvR p -> ops_dom (shape_of p) ops -> run p ops = (outs, p') ->
  InvR p' /\
  forall k o r, nth_error ops k = Some o -> nth_error outs k = Some r ->
    forall r0, pure_answer (snd (run p (firstn k ops))) o = Some r0 -> r = r0.
Proof.
  induction ops as [|o rest IH]; intros p outs p' HI Hd H.
  - inv_pair H. split; [exact HI|]. intros k o r Ho. destruct k; discriminate Ho.
  - rewrite run_cons in H. inv_pair H. cbn [ops_dom] in Hd. destruct Hd as (Hd1 & Hd2).
    destruct (step p o) as [r1 p1] eqn:Es. cbn [fst snd].
    destruct (step_pure_gen _ _ _ _ HI Hd1 Es) as (I1 & A1 & _).
    rewrite <- (shape_of_step good_posts _ _ _ _ (proj1 HI) Es) in Hd2.
    destruct (run p1 rest) as [outs1 p2] eqn:Er. cbn [fst snd].
    destruct (IH _ _ _ I1 Hd2 Er) as (I2 & A2).
    split; [exact I2|]. intros k o' r' Ho Hr r0 Hp. destruct k as [|k].
    + cbn [nth_error] in Ho, Hr. inv_pair Ho. inv_pair Hr. cbn [firstn run snd] in Hp. apply A1. exact Hp.
    + cbn [nth_error] in Ho, Hr. cbn [firstn] in Hp. rewrite run_cons in Hp. cbn [snd] in Hp.
      rewrite Es in Hp. cbn [snd] in Hp. eapply A2; eassumption.
Qed.

(* ... hence also the pure answer at the INITIAL pool, for every query on an array that existed initially *)
Corollary run_pure_initial_gen ops p outs p' : InvR p -> ops_dom (shape_of p) ops -> run p ops = (outs, p') ->
  forall k o r, nth_error ops k = Some o -> nth_error outs k = Some r ->
    forall r0, pure_answer p o = Some r0 -> r = r0.
Proof.
  intros HI Hd H k o r Ho Hr r0 Hp.
  destruct (run_pure_gen _ _ _ _ HI Hd H) as (_ & A). apply (A k o r Ho Hr).
  destruct (run p (firstn k ops)) as [outs_k pk] eqn:Ek. cbn [snd].
  destruct (run_inv_gen _ _ _ _ HI (ops_dom_firstn _ _ k Hd) Ek) as (_ & Hext & _).
  eapply pure_answer_mono; eassumption.
Qed.

(* repeating a query after any sequence of in-domain operations returns what it returned the first time *)
Theorem repeat_same_gen p q r1 p1 ops outs p2 r2 p3 : InvR p -> pure_answer p q <> None ->
  op_dom (shape_of p) q -> ops_dom (shape_of p1) ops ->
  step p q = (r1, p1) -> run p1 ops = (outs, p2) -> step p2 q = (r2, p3) -> r2 = r1.
Proof.
  intros HI Hq Hdq Hdo H1 Hrun H2. destruct (pure_answer p q) as [r0|] eqn:E; [|contradiction].
  destruct (step_pure_gen _ _ _ _ HI Hdq H1) as (I1 & A1 & X1 & _).
  destruct (run_inv_gen _ _ _ _ I1 Hdo Hrun) as (I2 & X2 & _).
  assert (E2 : pure_answer p2 q = Some r0).
  { eapply pure_answer_mono; [exact X2|]. eapply pure_answer_mono; [exact X1|exact E]. }
  assert (Hdq2 : op_dom (shape_of p2) q).
  { eapply op_dom_mono; [exact X2| |].
    - eapply pure_answer_mono; [exact X1|exact E].
    - eapply op_dom_mono; [exact X1|exact E|exact Hdq]. }
  destruct (step_pure_gen _ _ _ _ I2 Hdq2 H2) as (_ & A2 & _).
  rewrite (A1 r0 E). apply A2. exact E2.
Qed.

(* no sequence of in-domain operations changes the answer of a later in-domain query *)
Theorem history_free_gen p q ops outs p' : InvR p -> pure_answer p q <> None ->
  op_dom (shape_of p) q -> ops_dom (shape_of p) ops ->
  run p ops = (outs, p') -> fst (step p' q) = fst (step p q).
Proof.
  intros HI Hq Hdq Hdo Hrun. destruct (pure_answer p q) as [r0|] eqn:E; [|contradiction].
  destruct (run_inv_gen _ _ _ _ HI Hdo Hrun) as (I' & X & _).
  destruct (step p q) as [r1 p1] eqn:E1. destruct (step p' q) as [r2 p2] eqn:E2. cbn [fst].
  destruct (step_pure_gen _ _ _ _ HI Hdq E1) as (_ & A1 & _).
  assert (Hdq' : op_dom (shape_of p') q) by (eapply op_dom_mono; eassumption).
  destruct (step_pure_gen _ _ _ _ I' Hdq' E2) as (_ & A2 & _).
  rewrite (A1 r0 E). apply A2. eapply pure_answer_mono; eassumption.
Qed.

(* the same inside one run: the first and the last output of  q :: ops ++ [q]  coincide *)
Corollary repeat_in_run_gen p q ops outs p' : InvR p -> pure_answer p q <> None ->
  ops_dom (shape_of p) (q :: ops ++ [q]) ->
  run p (q :: ops ++ [q]) = (outs, p') ->
  exists r, nth_error outs 0 = Some r /\ nth_error outs (S (length ops)) = Some r /\ pure_answer p q = Some r.
Proof.
  intros HI Hq Hd Hrun. destruct (pure_answer p q) as [r0|] eqn:E; [|contradiction].
  destruct (run_inv_gen _ _ _ _ HI Hd Hrun) as (_ & _ & _ & Hlen).
  cbn [length] in Hlen. rewrite app_length in Hlen. cbn [length] in Hlen.
  assert (O1 : nth_error (q :: ops ++ [q]) 0 = Some q) by reflexivity.
  assert (O2 : nth_error (q :: ops ++ [q]) (S (length ops)) = Some q).
  { cbn [nth_error]. rewrite nth_error_app2 by lia. rewrite Nat.sub_diag. reflexivity. }
  destruct (nth_error outs 0) as [ra|] eqn:Ea; [|apply nth_error_None in Ea; lia].
  destruct (nth_error outs (S (length ops))) as [rb|] eqn:Eb; [|apply nth_error_None in Eb; lia].
  rewrite (run_pure_initial_gen _ _ _ _ HI Hd Hrun _ _ _ O1 Ea r0 E).
  rewrite (run_pure_initial_gen _ _ _ _ HI Hd Hrun _ _ _ O2 Eb r0 E).
  exists r0. repeat split.
Qed.
End Answers.
End Gen.

(* ================= sanity: with the full domain the old statements come back ================= *)
Section Full.
Variable good_posts : posts -> N -> Prop.
Let RT : list N -> Prop := fun _ => True.
Let QT : list N -> option N -> option N -> list N -> Prop := fun _ _ _ _ => True.

Lemma slice_idem_on_full : slice_idem_hyp good_posts -> slice_idem_on good_posts RT.
Proof. intros H base maxd t w rows sl Hg _. exact (H base maxd t w rows sl Hg). Qed.
Lemma phrase_local_on_full : phrase_local_hyp good_posts -> phrase_local_on good_posts RT QT.
Proof. intros H base maxd ts lo hi rows Hg Hl _ _. exact (H base maxd ts lo hi rows Hg Hl). Qed.
Lemma slice_idem_full_on : slice_idem_on good_posts RT -> slice_idem_hyp good_posts.
Proof. intros H base maxd t w rows sl Hg. exact (H base maxd t w rows sl Hg I). Qed.
Lemma phrase_local_full_on : phrase_local_on good_posts RT QT -> phrase_local_hyp good_posts.
Proof. intros H base maxd ts lo hi rows Hg Hl. exact (H base maxd ts lo hi rows Hg Hl I I). Qed.

Lemma InvR_full p : Inv good_posts p -> InvR good_posts RT p.
Proof. intro H. split; [exact H|]. apply Forall_forall. intros x _. exact I. Qed.
Lemma op_dom_full sh o : op_dom RT QT sh o.
Proof. destruct o; cbn [op_dom]; try exact I; intros; exact I. Qed.
Lemma ops_dom_full ops : forall sh, ops_dom RT QT sh ops.
Proof. induction ops as [|o rest IH]; intro sh; cbn [ops_dom]; [exact I|]. split; [apply op_dom_full|apply IH]. Qed.

Corollary step_pure_from_gen : slice_idem_hyp good_posts -> phrase_local_hyp good_posts ->
  forall p o r p', Inv good_posts p -> step p o = (r, p') ->
  Inv good_posts p' /\ (forall r0, pure_answer p o = Some r0 -> r = r0) /\
  (exists extra, arrays p' = arrays p ++ extra) /\ heap_le p p'.
Proof.
  intros H1 H2 p o r p' HI H.
  destruct (step_pure_gen good_posts RT QT (slice_idem_on_full H1) (phrase_local_on_full H2) p o r p'
              (InvR_full _ HI) (op_dom_full _ _) H) as ((X & _) & Y).
  split; [exact X|exact Y].
Qed.

Corollary repeat_same_from_gen : slice_idem_hyp good_posts -> phrase_local_hyp good_posts ->
  forall p q r1 p1 ops outs p2 r2 p3, Inv good_posts p -> pure_answer p q <> None ->
  step p q = (r1, p1) -> run p1 ops = (outs, p2) -> step p2 q = (r2, p3) -> r2 = r1.
Proof.
  intros H1 H2 p q r1 p1 ops outs p2 r2 p3 HI Hq.
  apply (repeat_same_gen good_posts RT QT (slice_idem_on_full H1) (phrase_local_on_full H2) p q r1 p1 ops outs p2 r2 p3
           (InvR_full _ HI) Hq (op_dom_full _ _) (ops_dom_full _ _)).
Qed.

Corollary history_free_from_gen : slice_idem_hyp good_posts -> phrase_local_hyp good_posts ->
  forall p q ops outs p', Inv good_posts p -> pure_answer p q <> None ->
  run p ops = (outs, p') -> fst (step p' q) = fst (step p q).
Proof.
  intros H1 H2 p q ops outs p' HI Hq.
  apply (history_free_gen good_posts RT QT (slice_idem_on_full H1) (phrase_local_on_full H2) p q ops outs p'
           (InvR_full _ HI) Hq (op_dom_full _ _) (ops_dom_full _ _)).
Qed.
End Full.

Print Assumptions shape_of_step.
Print Assumptions step_inv_gen.
Print Assumptions step_pure_gen.
Print Assumptions run_pure_gen.
Print Assumptions repeat_same_gen.
Print Assumptions history_free_gen.
Print Assumptions history_free_from_gen.
