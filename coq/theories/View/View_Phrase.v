(* C06, the phrase clause: the phrase frequencies of a view are the phrase frequencies of the documents it
   shows (in both selection modes), and a view's BM25 scores are the parent's scores gathered at the rows.

   Pieces composed here:
     View_Proofs.view_inv / select_inv       the view invariant and its preservation by select
     (new, section 2)  enc_inv               what the handle returns AND the fact that every document id
                                             with a posting left in the handle is <= p_max_doc_id (view_inv does
                                             not record this for a physically sliced handle; it is needed
                                             because the scatter  phrase_freqs[ids] = counts  faults otherwise)
     Phrase_Proofs3.phrase_on_encoded        the bigram chain on encoded (doc, position) lists
     Phrase_Final.compute_phrase_freqs_keys  listed ids are keys of input words
     Phrase_Final.store_zeros                the scatter into the zero buffer *)
From Coq Require Import Sorted Permutation.
From SA Require Import Base.Prelude Kernels.Spec Kernels.Linear Kernels.Linear_Proofs Codec.Codec Codec.Codec_Spec
  Codec.Codec_Proofs Codec.Codec_Proofs2 Index.Index Index.Index_Spec Index.Index_Proofs Index.Index_Proofs2
  Index.Index_Proofs3 Query.Phrase Query.Phrase_Spec Query.Phrase_Proofs Query.Phrase_Proofs2 Query.Phrase_Proofs3
  Query.Phrase_Final Query.Range Score.BM25 View.View View.View_Spec View.View_Proofs.
Open Scope N_scope.

(* ================= 1. the phrase pipeline on postings restricted to a set of documents ================= *)
Section Pipe.
Variable docs : list (list N).
Hypothesis Hwf : wf_docs docs.

Lemma fpairs_good Q t : good_term (fpairs docs Q t).
Proof.
  destruct (fpairs_wf docs Hwf Q t) as [S B]. split; [exact S|]. split; [exact B|]. split.
  - unfold fpairs. apply Forall_filter. apply tp_posn_bound. apply wf_short. exact Hwf.
  - apply fpairs_length. exact Hwf.
Qed.

Lemma fpairs_in Q t kp : In kp (fpairs docs Q t) -> In kp (tp_from 0 docs t) /\ Q (fst kp) = true.
Proof. unfold fpairs. intro H. apply filter_In in H. exact H. Qed.

Lemma adj_distinct_fpairs Q : forall ph, no_adjacent_repeat ph = true -> adj_distinct (map (fpairs docs Q) ph).
Proof.
  induction ph as [|x t IH]; intro H; [exact I|]. destruct t as [|y t']; [exact I|].
  cbn [no_adjacent_repeat] in H. apply andb_true_iff in H. destruct H as [Hxy H].
  specialize (IH H). cbn [map] in *. cbn [adj_distinct]. split; [|exact IH].
  intros kp H1 H2. apply fpairs_in in H1. apply fpairs_in in H2.
  pose proof (tp_distinct _ _ _ _ _ (proj1 H1) (proj1 H2)) as E. subst y.
  rewrite N.eqb_refl in Hxy. discriminate.
Qed.

(* the rows of a selected document r in the restricted list of t are the offsets of t in document r *)
Lemma fpairs_doc Q t r : Q r = true ->
  map snd (filter (fun kp => fst kp =? r) (fpairs docs Q t)) = offsets t (nth (N.to_nat r) docs []).
Proof.
  intro HQ. unfold fpairs. rewrite filter_filter'.
  rewrite (filter_ext_in _ (fun kp : N * N => fst kp =? r)).
  - rewrite tp_filter. destruct (N.ltb_spec r 0) as [Hlt|_]; [lia|]. rewrite N.sub_0_r.
    unfold offsets. apply offsets_from_eq.
  - intros kp _. unfold keyf. destruct (N.eqb_spec (fst kp) r) as [->|Hne]; [rewrite HQ|]; reflexivity.
Qed.

Lemma forall2_fpairs Q r : Q r = true -> forall ph,
  Forall2 (fun t ps => map snd (filter (fun kp => fst kp =? r) ps) = offsets t (nth (N.to_nat r) docs []))
          ph (map (fpairs docs Q) ph).
Proof.
  intros HQ ph. induction ph as [|t rest IH]; cbn [map]; constructor; [|exact IH]. apply fpairs_doc. exact HQ.
Qed.

(* chain + scatter: whenever every document with a posting left is <= maxd, the chain succeeds, the scatter
   into the zero buffer of maxd + 1 entries succeeds, and the entry of every selected document r <= maxd
   is the number of occurrences of the phrase in document r *)
Lemma phrase_pipeline Q maxd ph :
  (2 <= length ph)%nat -> no_adjacent_repeat ph = true ->
  (forall k, k < N.of_nat (length docs) -> Q k = true -> k <= maxd) ->
  exists pf dense,
    compute_phrase_freqs (map encode_spec (map (fpairs docs Q) ph)) = AOk pf /\
    store_many (repeat 0 (N.to_nat (maxd + 1))) pf = Done dense /\
    length dense = N.to_nat (maxd + 1) /\
    forall r, Q r = true -> r <= maxd -> nth (N.to_nat r) dense 0 = occ ph (nth (N.to_nat r) docs []).
Proof.
  intros Hlen Hrep Hmax.
  set (pss := map (fpairs docs Q) ph).
  assert (Hg : Forall good_term pss).
  { apply Forall_map. apply Forall_forall. intros t _. apply fpairs_good. }
  assert (Hlen' : (2 <= length pss)%nat) by (unfold pss; rewrite map_length; exact Hlen).
  pose proof (adj_distinct_fpairs Q ph Hrep) as Hadj. fold pss in Hadj.
  destruct (phrase_on_encoded pss Hlen' Hg Hadj) as (res & E & Hs & Hocc).
  assert (Hkeys : Forall (fun iv => fst iv < N.of_nat (N.to_nat (maxd + 1))) res).
  { apply Forall_forall. intros iv Hiv.
    destruct (compute_phrase_freqs_keys (map encode_spec pss) res) with (k := fst iv) as (P & w & HP & Hw & Ek).
    - rewrite map_length. exact Hlen'.
    - apply Forall_map. eapply Forall_impl; [|exact Hg]. intros ps (S1 & B1 & M1 & L1).
      apply encode_spec_canonical; assumption.
    - apply adj_distinct_disj; assumption.
    - exact E.
    - apply in_map. exact Hiv.
    - apply in_map_iff in HP. destruct HP as (ps & <- & Hps). unfold pss in Hps.
      apply in_map_iff in Hps. destruct Hps as (t & <- & _).
      destruct (fpairs_wf docs Hwf Q t) as [S B].
      destruct (encode_word_pair _ w S B Hw) as (p & Hin).
      apply fpairs_in in Hin. destruct Hin as [Hin HQ]. cbn [fst] in HQ.
      pose proof (tp_keys t docs 0) as TK. rewrite Forall_forall in TK. specialize (TK _ Hin).
      cbn [fst] in TK. rewrite Ek in *.
      assert (fst iv <= maxd) by (apply Hmax; [lia|exact HQ]). lia. }
  destruct (store_zeros res (N.to_nat (maxd + 1)) (ss_lt_nodup' _ Hs) Hkeys) as (d' & Es & Ld & Hn).
  exists res, d'. split; [exact E|]. split; [exact Es|]. split; [exact Ld|].
  intros r HQ Hr. rewrite Hn by lia. rewrite N2Nat.id. apply Hocc. apply forall2_fpairs. exact HQ.
Qed.
End Pipe.

(* ================= 2. the strengthened handle invariant ================= *)
(* what the handle returns for a corpus term, with the bound on the documents left in it, and the exact
   buffer size of an un-selected array *)
Definition enc_inv (docs : list (list N)) (v : sarray) (R : list N) : Prop :=
  exists Q, Forall (fun r => Q r = true) R /\
    (forall t, In t (concat docs) -> get_enc (p_handle (a_posns v)) t = AOk (encode_spec (fpairs docs Q t))) /\
    (forall k, k < N.of_nat (length docs) -> Q k = true -> k <= p_max_doc_id (a_posns v)) /\
    (a_subset v = false -> p_max_doc_id (a_posns v) = N.of_nat (length docs) - 1).

Section Inv2.
Variables (docs : list (list N)) (ix : sindex).
Hypothesis Hwf : wf_docs docs.
Hypothesis Hok : index_ok docs ix.
Hypothesis ND : NoDup (map fst (ix_posts ix)).

Lemma rows0_in r : r < N.of_nat (length docs) -> In r (rows0 docs).
Proof. intro H. unfold rows0. apply in_map_iff. exists (N.to_nat r). split; [lia|]. apply in_seq. lia. Qed.

Lemma of_index_enc_inv avoid : enc_inv docs (of_index ix avoid) (rows0 docs).
Proof.
  pose proof (lens_length docs ix Hok) as HL.
  exists (fun _ => true). split; [apply Forall_forall; reflexivity|]. split; [|split].
  - intros t Ht. cbn [of_index a_posns p_handle get_enc]. unfold lookup_posts.
    rewrite (root_sel docs ix Hok t Ht). reflexivity.
  - intros k Hk _. cbn [of_index a_posns p_max_doc_id]. rewrite HL. lia.
  - intros _. cbn [of_index a_posns p_max_doc_id]. rewrite HL. reflexivity.
Qed.

(* a view whose handle is a FilteredPosns wrapper: the documents left are rows of the view *)
Lemma enc_inv_filtered v R b ids : view_inv docs ix v R -> a_subset v = true ->
  p_handle (a_posns v) = HFiltered b ids -> enc_inv docs v R.
Proof.
  intros [Hrows Hbound Hl Hterms' Hroot Htot Hn Hmax Hh] Esub Eh.
  destruct Hh as [(Esub' & _)|(_ & _ & Q & b' & Hsel & HQ & [Eh'|Eh'])]; [congruence|congruence|].
  exists (fun k => mem_n k (np_unique R) && Q k). split; [|split; [|split]].
  - rewrite Forall_forall in *. intros r Hr. rewrite np_unique_mem, (proj2 (mem_n_in r R) Hr), (HQ r Hr). reflexivity.
  - intros t Ht. rewrite Eh'. cbn [get_enc]. unfold lookup_posts. rewrite (Hsel t Ht). cbn [abind].
    rewrite (slice_fpairs docs Hwf Q t (np_unique R) (np_unique_sorted R) (np_unique_forall _ _ Hbound)).
    reflexivity.
  - intros k _ Hk. apply andb_prop in Hk. destruct Hk as [Hk _]. rewrite np_unique_mem in Hk.
    apply mem_n_in in Hk. rewrite Forall_forall in Hmax. apply Hmax. exact Hk.
  - intro H. congruence.
Qed.

(* select establishes the strengthened invariant (whatever the mode) *)
Lemma select_enc_inv v R pos v' : view_inv docs ix v R -> Forall (fun i => i < N.of_nat (length R)) pos ->
  select v pos = AOk v' -> view_inv docs ix v' (gather_rows R pos) /\ enc_inv docs v' (gather_rows R pos).
Proof.
  intros Hinv Hpos Hsel.
  destruct (select_inv docs ix Hwf Hok v R pos ND Hinv Hpos) as (v'' & E & Hinv').
  rewrite Hsel in E. inversion E; subst v''. clear E. split; [exact Hinv'|].
  pose proof Hinv as [Hrows Hbound Hl Hterms' Hroot Htot Hn Hmax Hh].
  set (R' := gather_rows R pos) in *.
  assert (HR' : View.gather 0 (a_rows v) pos = R') by (rewrite Hrows; reflexivity).
  assert (Hbound' : Forall (fun r => r < N.of_nat (length docs)) R') by (apply gather_rows_forall; assumption).
  unfold select in Hsel. rewrite HR' in Hsel. cbv zeta in Hsel.
  destruct (a_avoid_copies v) eqn:Eav.
  - cbn [abind fst snd] in Hsel. inversion Hsel as [Ev']. clear Hsel. subst v'.
    eapply enc_inv_filtered; [exact Hinv'| |]; reflexivity.
  - destruct Hh as [(Esub & HR0 & Eh)|(_ & Eav' & _)]; [|congruence].
    rewrite Eh in Hsel.
    rewrite (slice_all_good docs Hwf (fun _ => true) (np_unique R') (np_unique_sorted R')
               (np_unique_forall _ _ Hbound') (ix_posts ix) (root_good docs ix Hok ND)) in Hsel.
    cbn [abind fst snd] in Hsel. inversion Hsel as [Ev']. clear Hsel. subst v'.
    exists (fun k => mem_n k (np_unique R') && true). split; [|split; [|split]].
    + apply Forall_forall. intros r Hr. rewrite np_unique_mem, (proj2 (mem_n_in r R') Hr). reflexivity.
    + intros t Ht. cbn [a_posns p_handle get_enc]. unfold lookup_posts.
      rewrite (sliced_sel docs (fun _ => true) _ (ix_posts ix) (root_sel docs ix Hok) t Ht). reflexivity.
    + intros k _ Hk. cbn [a_posns p_max_doc_id]. apply andb_prop in Hk. destruct Hk as [Hk _].
      apply mem_n_in in Hk. apply fold_max_ge. left. exact Hk.
    + cbn [a_subset]. discriminate.
Qed.

Lemma select_chain_inv2 : forall keys v R v',
  view_inv docs ix v R -> enc_inv docs v R -> valid_keys (length R) keys -> select_chain v keys = AOk v' ->
  view_inv docs ix v' (compose_rows R keys) /\ enc_inv docs v' (compose_rows R keys).
Proof.
  induction keys as [|k rest IH]; intros v R v' Hinv Henc Hv Hsel.
  - cbn [select_chain] in Hsel. inversion Hsel; subst. split; assumption.
  - destruct Hv as [Hk Hrest]. cbn [select_chain] in Hsel.
    destruct (select v k) as [v1| | |] eqn:E1; cbn [abind] in Hsel; try discriminate.
    destruct (select_enc_inv v R k v1 Hinv Hk E1) as (Hinv1 & Henc1).
    cbn [compose_rows]. apply (IH v1 (gather_rows R k) v'); try assumption.
    unfold gather_rows. rewrite map_length. exact Hrest.
Qed.

(* ---- C06: phrase frequencies, from the two invariants ---- *)
Lemma get_all_enc_sel h Q : (forall t, In t (concat docs) -> get_enc h t = AOk (encode_spec (fpairs docs Q t))) ->
  forall ph, (forall t, In t ph -> In t (concat docs)) ->
  get_all_enc h ph None None = AOk (map encode_spec (map (fpairs docs Q) ph)).
Proof.
  intros Henc ph. induction ph as [|t r IH]; intro H; [reflexivity|].
  cbn [get_all_enc map]. rewrite Henc by (apply H; now left). cbn [abind].
  rewrite IH by (intros; apply H; now right). reflexivity.
Qed.

Lemma occ_rows_absent t ph R : In t ph -> ~ In t (concat docs) ->
  map (fun r : N => occ ph (nth (N.to_nat r) docs [])) R = repeat 0 (length R).
Proof.
  intros Hin Hnot. induction R as [|r R IH]; [reflexivity|]. cbn [map length repeat]. rewrite IH. f_equal.
  apply (occ_absent t ph Hin). apply nth_docs_absent. exact Hnot.
Qed.

Theorem phrase_inv v R ph : view_inv docs ix v R -> enc_inv docs v R ->
  (2 <= length ph)%nat -> no_adjacent_repeat ph = true ->
  v_phrase_freqs v ph None None = AOk (map (fun r => occ ph (nth (N.to_nat r) docs [])) R).
Proof.
  intros Hinv Henc Hlen Hrep. pose proof Hinv as [Hrows Hbound Hl Hterms' Hroot Htot Hn Hmax Hh].
  pose proof Hok as (_ & _ & Hterms & _).
  unfold v_phrase_freqs.
  assert (EK : forallb (known_a v) ph = forallb (known ix) ph).
  { clear - Hinv. induction ph as [|t r IH]; [reflexivity|]. cbn [forallb].
    now rewrite IH, (known_a_eq docs ix v R t Hinv). }
  rewrite EK. destruct (forallb (known ix) ph) eqn:K; cbn [negb].
  2:{ destruct (forallb_false _ _ K) as (t & Hin & Hk).
      assert (Hnot : ~ In t (concat docs)).
      { intro Hc. rewrite (known_true docs ix t Hterms Hc) in Hk. discriminate. }
      unfold nrows. rewrite Hrows. f_equal. symmetry. apply (occ_rows_absent t); assumption. }
  assert (Hall : forall t, In t ph -> In t (concat docs)).
  { intros t Hin. rewrite forallb_forall in K. apply (known_iff docs ix t Hterms). apply K. exact Hin. }
  destruct (Nat.ltb_spec (length ph) 2) as [Hlt|_]; [lia|].
  destruct Henc as (Q & HQ & Henc & Hmaxd & Hfresh).
  rewrite (get_all_enc_sel _ Q Henc ph Hall). cbn [abind].
  destruct (phrase_pipeline docs Hwf Q (p_max_doc_id (a_posns v)) ph Hlen Hrep Hmaxd) as (pf & dense & E & Es & Ld & Hd).
  rewrite E. cbn [abind]. rewrite Es. cbn [lift abind].
  assert (G : View.gather 0 dense R = map (fun r => occ ph (nth (N.to_nat r) docs [])) R).
  { unfold View.gather. apply map_ext_in. intros r Hr. rewrite Forall_forall in HQ, Hmax.
    apply Hd; [apply HQ|apply Hmax]; exact Hr. }
  destruct (a_subset v) eqn:Esub.
  - rewrite Hrows. f_equal. exact G.
  - (* the un-selected array: the buffer has exactly one entry per document *)
    destruct Hh as [(_ & HR0 & _)|(Esub' & _)]; [|congruence].
    specialize (Hfresh eq_refl).
    assert (Hne : docs <> []).
    { intro E0. destruct ph as [|t ph']; [cbn [length] in Hlen; lia|].
      specialize (Hall t (or_introl eq_refl)). rewrite E0 in Hall. exact Hall. }
    assert (Ld' : length dense = length docs).
    { rewrite Ld, Hfresh. destruct docs; [congruence|]. cbn [length]. lia. }
    f_equal. rewrite <- G, HR0. unfold View.gather, rows0. symmetry. apply gather_rows0. symmetry. exact Ld'.
Qed.
End Inv2.

(* ================= 3. C06, phrase clause ================= *)
Lemma phrase_view docs keys ph :
  map (fun r => occ ph (nth (N.to_nat r) docs [])) (compose_rows (rows0 docs) keys) = phrase_spec (view_docs docs keys) ph.
Proof. unfold phrase_spec, view_docs. now rewrite map_map. Qed.

Lemma C06_invs docs bs ix avoid keys v :
  wf_docs docs -> index false bs docs = AOk ix -> valid_keys (length docs) keys ->
  select_chain (of_index ix avoid) keys = AOk v ->
  view_inv docs ix v (compose_rows (rows0 docs) keys) /\ enc_inv docs v (compose_rows (rows0 docs) keys).
Proof.
  intros Hwf E Hv Ev. pose proof (index_ok_of docs bs ix Hwf E) as Hok.
  apply (select_chain_inv2 docs ix Hwf Hok (index_nodup docs bs ix Hwf E) keys (of_index ix avoid)).
  - apply of_index_inv. exact Hok.
  - apply of_index_enc_inv. exact Hok.
  - rewrite rows0_length. exact Hv.
  - exact Ev.
Qed.

Theorem C06_phrase : forall docs bs ix avoid keys v ph,
  wf_docs docs -> index false bs docs = AOk ix -> valid_keys (length docs) keys ->
  select_chain (of_index ix avoid) keys = AOk v ->
  (2 <= length ph)%nat -> no_adjacent_repeat ph = true ->
  v_phrase_freqs v ph None None = AOk (phrase_spec (view_docs docs keys) ph).
Proof.
  intros docs bs ix avoid keys v ph Hwf E Hv Ev Hlen Hrep.
  pose proof (index_ok_of docs bs ix Hwf E) as Hok.
  destruct (C06_invs docs bs ix avoid keys v Hwf E Hv Ev) as (Hinv & Henc).
  rewrite <- phrase_view. apply (phrase_inv docs ix Hwf Hok v _ ph Hinv Henc Hlen Hrep).
Qed.

(* ================= 4. the statistics a scorer receives for a phrase; scores commute with selection ================= *)
Lemma view_docs_nil docs : view_docs docs [] = docs.
Proof. unfold view_docs. cbn [compose_rows]. unfold rows0. apply gather_rows0. reflexivity. Qed.

Lemma phrase_reindex docs keys ph : phrase_spec (view_docs docs keys) ph = reindex 0 (phrase_spec docs ph) docs keys.
Proof. rewrite <- phrase_view. unfold phrase_spec. apply (reindex_map (occ ph)). reflexivity. Qed.

Lemma all_dfs_inv docs ix v R : wf_docs docs -> index_ok docs ix -> view_inv docs ix v R ->
  forall ts, v_all_dfs v ts = AOk (map (df_spec docs) ts).
Proof.
  intros Hwf Hok Hinv. induction ts as [|t r IH]; [reflexivity|].
  cbn [v_all_dfs map]. rewrite (docfreq_inv docs ix Hwf Hok v R t Hinv). cbn [abind]. rewrite IH. reflexivity.
Qed.

Lemma tf_vector_phrase v ts lo hi : (2 <= length ts)%nat -> v_tf_vector v ts lo hi = v_phrase_freqs v ts lo hi.
Proof. intro H. destruct ts as [|a [|b r]]; cbn [length] in H; try lia; reflexivity. Qed.

Corollary C06_score_args_phrase docs bs ix avoid keys v ph :
  wf_docs docs -> index false bs docs = AOk ix -> valid_keys (length docs) keys ->
  select_chain (of_index ix avoid) keys = AOk v ->
  (2 <= length ph)%nat -> no_adjacent_repeat ph = true ->
  v_score_args v ph None None =
    AOk (phrase_spec (view_docs docs keys) ph, map (df_spec docs) ph, lens_spec (view_docs docs keys),
         total_spec docs, N.of_nat (length docs)).
Proof.
  intros Hwf E Hv Ev Hlen Hrep. pose proof (index_ok_of docs bs ix Hwf E) as Hok.
  destruct (C06_invs docs bs ix avoid keys v Hwf E Hv Ev) as (Hinv & _).
  destruct (C06_commute docs bs ix avoid keys v Hwf E Hv Ev) as (_ & _ & _ & Hl & _ & Htot & Hn).
  unfold v_score_args. rewrite (all_dfs_inv docs ix v _ Hwf Hok Hinv). cbn [abind].
  rewrite (tf_vector_phrase v ph None None Hlen).
  rewrite (C06_phrase docs bs ix avoid keys v ph Hwf E Hv Ev Hlen Hrep). cbn [abind].
  now rewrite Hl, Htot, Hn.
Qed.

(* ---- score_bits is computed row by row ---- *)
Lemma combine_map_same {A B C} (f : A -> B) (g : A -> C) (l : list A) :
  combine (map f l) (map g l) = map (fun x => (f x, g x)) l.
Proof. induction l as [|a l IH]; [reflexivity|]. cbn [map combine]. now rewrite IH. Qed.

Lemma nth_map_in {A B} (f : A -> B) l i da db : (i < length l)%nat -> nth i (map f l) db = f (nth i l da).
Proof. intro H. rewrite (nth_indep _ db (f da)) by (rewrite map_length; exact H). apply map_nth. Qed.

Lemma rowwise_gather {A B C} (h : A * B -> C) (xs : list A) (ys : list B) da db dc (R : list N) :
  length xs = length ys -> Forall (fun r => r < N.of_nat (length xs)) R ->
  map h (combine (map (fun r => nth (N.to_nat r) xs da) R) (map (fun r => nth (N.to_nat r) ys db) R))
  = map (fun r => nth (N.to_nat r) (map h (combine xs ys)) dc) R.
Proof.
  intros L F. rewrite combine_map_same, map_map. apply map_ext_in. intros r Hr.
  rewrite Forall_forall in F. specialize (F r Hr).
  rewrite (nth_map_in h _ _ (da, db) dc) by (rewrite combine_length; lia).
  rewrite combine_nth by exact L. reflexivity.
Qed.

Lemma score_bits_length tfs dls total n idf k1 b : length tfs = length dls ->
  length (score_bits tfs dls total n idf k1 b) = length tfs.
Proof.
  intro L. unfold score_bits, bm25_similarity, bm25_kernel. cbv zeta.
  destruct (is_zero32 _); rewrite ?map_length, ?combine_length, ?map_length; lia.
Qed.

Lemma lift_gather (tfs : list N) (R : list N) :
  map f32_of_Z (map Z.of_N (map (fun r => nth (N.to_nat r) tfs 0) R))
  = map (fun r => nth (N.to_nat r) (map f32_of_Z (map Z.of_N tfs)) (f32_of_Z 0)) R.
Proof.
  induction R as [|r R IH]; [reflexivity|]. cbn [map]. rewrite IH. f_equal.
  change (f32_of_Z 0) with (f32_of_Z (Z.of_N 0)). rewrite (map_nth f32_of_Z), (map_nth Z.of_N). reflexivity.
Qed.

Lemma score_bits_gather (tfs dls : list N) total n idf k1 b (R : list N) :
  length tfs = length dls -> Forall (fun r => r < N.of_nat (length tfs)) R ->
  score_bits (map Z.of_N (map (fun r => nth (N.to_nat r) tfs 0) R))
             (map Z.of_N (map (fun r => nth (N.to_nat r) dls 0) R)) total n idf k1 b
  = map (fun r => nth (N.to_nat r) (score_bits (map Z.of_N tfs) (map Z.of_N dls) total n idf k1 b) 0%Z) R.
Proof.
  intros L F. unfold score_bits, bm25_similarity, bm25_kernel. cbv zeta.
  rewrite !lift_gather.
  set (X := map f32_of_Z (map Z.of_N tfs)). set (Y := map f32_of_Z (map Z.of_N dls)).
  assert (LX : length X = length tfs) by (unfold X; now rewrite !map_length).
  assert (LY : length Y = length dls) by (unfold Y; now rewrite !map_length).
  destruct (is_zero32 _).
  - rewrite !map_map. apply map_ext_in. intros r Hr. rewrite Forall_forall in F. specialize (F r Hr).
    symmetry. rewrite (nth_map_in _ X _ (f32_of_Z 0) 0%Z) by lia. reflexivity.
  - rewrite !map_map. apply rowwise_gather; [lia|]. rewrite LX. exact F.
Qed.

Lemma tf_spec_length docs t : length (tf_spec docs t) = length docs.
Proof. unfold tf_spec. apply map_length. Qed.
Lemma lens_spec_length docs : length (lens_spec docs) = length docs.
Proof. unfold lens_spec. apply map_length. Qed.
Lemma phrase_spec_length docs ph : length (phrase_spec docs ph) = length docs.
Proof. unfold phrase_spec. apply map_length. Qed.

(* the score arguments of a view and of its parent, for a single term or a phrase without adjacent repeat *)
Lemma score_args_both docs bs ix avoid keys v ts :
  wf_docs docs -> index false bs docs = AOk ix -> valid_keys (length docs) keys ->
  select_chain (of_index ix avoid) keys = AOk v ->
  (1 <= length ts)%nat -> no_adjacent_repeat ts = true ->
  exists tfs, length tfs = length docs /\
    v_score_args (of_index ix avoid) ts None None =
      AOk (tfs, map (df_spec docs) ts, lens_spec docs, total_spec docs, N.of_nat (length docs)) /\
    v_score_args v ts None None =
      AOk (reindex 0 tfs docs keys, map (df_spec docs) ts, reindex 0 (lens_spec docs) docs keys,
           total_spec docs, N.of_nat (length docs)).
Proof.
  intros Hwf E Hv Ev Hlen Hrep.
  assert (Ev0 : select_chain (of_index ix avoid) [] = AOk (of_index ix avoid)) by reflexivity.
  assert (Hv0 : valid_keys (length docs) []) by exact I.
  destruct ts as [|t [|t2 rest]]; [cbn [length] in Hlen; lia| |].
  - exists (tf_spec docs t). split; [apply tf_spec_length|]. split.
    + rewrite (C06_score_args docs bs ix avoid [] _ t Hwf E Hv0 Ev0). now rewrite view_docs_nil.
    + rewrite (C06_score_args docs bs ix avoid keys v t Hwf E Hv Ev). now rewrite tf_reindex, lens_reindex.
  - set (ph := t :: t2 :: rest) in *. assert (Hl2 : (2 <= length ph)%nat) by (unfold ph; cbn [length]; lia).
    exists (phrase_spec docs ph). split; [apply phrase_spec_length|]. split.
    + rewrite (C06_score_args_phrase docs bs ix avoid [] _ ph Hwf E Hv0 Ev0 Hl2 Hrep). now rewrite view_docs_nil.
    + rewrite (C06_score_args_phrase docs bs ix avoid keys v ph Hwf E Hv Ev Hl2 Hrep).
      now rewrite phrase_reindex, lens_reindex.
Qed.

(* C06, scores: the BM25 scores of a view are the parent's scores gathered at the (composed) rows, bit for bit,
   for the empty query (both raise), a single term, and any phrase without an immediately repeated term *)
Theorem C06_score_commutes docs bs ix avoid keys v ts idf k1 b :
  wf_docs docs -> index false bs docs = AOk ix -> valid_keys (length docs) keys ->
  select_chain (of_index ix avoid) keys = AOk v ->
  no_adjacent_repeat ts = true ->
  v_score_bm25 v ts idf k1 b =
    ado s <- v_score_bm25 (of_index ix avoid) ts idf k1 b;
    AOk (map (fun r => nth (N.to_nat r) s 0%Z) (compose_rows (rows0 docs) keys)).
Proof.
  intros Hwf E Hv Ev Hrep.
  destruct ts as [|t0 rest0] eqn:Ets.
  { (* score([]) raises ValueError on the view and on the parent *)
    unfold v_score_bm25, v_score_args, v_tf_vector, v_phrase_freqs. cbn [v_all_dfs abind forallb negb length Nat.ltb Nat.leb].
    reflexivity. }
  rewrite <- Ets in *. assert (Hlen : (1 <= length ts)%nat) by (rewrite Ets; cbn [length]; lia). clear Ets t0 rest0.
  destruct (score_args_both docs bs ix avoid keys v ts Hwf E Hv Ev Hlen Hrep) as (tfs & Ltf & Ep & Evw).
  destruct (C06_invs docs bs ix avoid keys v Hwf E Hv Ev) as (Hinv & _).
  unfold v_score_bm25. rewrite Ep, Evw. cbn [abind]. f_equal. unfold reindex.
  apply score_bits_gather.
  - rewrite Ltf, lens_spec_length. reflexivity.
  - rewrite Ltf. exact (vi_bound _ _ _ _ Hinv).
Qed.

(* the parent's score vector has one entry per document *)
Lemma parent_score_length docs bs ix avoid ts idf k1 b s :
  wf_docs docs -> index false bs docs = AOk ix -> no_adjacent_repeat ts = true ->
  v_score_bm25 (of_index ix avoid) ts idf k1 b = AOk s -> length s = length docs.
Proof.
  intros Hwf E Hrep Hs.
  destruct ts as [|t0 rest0] eqn:Ets.
  { unfold v_score_bm25, v_score_args, v_tf_vector, v_phrase_freqs in Hs.
    cbn [v_all_dfs abind forallb negb length Nat.ltb Nat.leb] in Hs. discriminate. }
  rewrite <- Ets in *. assert (Hlen : (1 <= length ts)%nat) by (rewrite Ets; cbn [length]; lia). clear Ets t0 rest0.
  destruct (score_args_both docs bs ix avoid [] (of_index ix avoid) ts Hwf E I eq_refl Hlen Hrep) as (tfs & Ltf & Ep & _).
  unfold v_score_bm25 in Hs. rewrite Ep in Hs. cbn [abind] in Hs. inversion Hs; subst s.
  rewrite score_bits_length; rewrite !map_length; [exact Ltf|]. rewrite Ltf, lens_spec_length. reflexivity.
Qed.

(* ================= 5. the hypotheses are satisfiable; the conclusions are the computed values ================= *)
Definition exp_docs : list (list N) := [[1;2;1;2;3];[];[2;1;2];[1;1;2;3];[3;1;2]].
Definition exp_keys : list (list N) := [[4;2;0;0;3];[1;0;3;4]].
Definition exp_run (avoid : bool) :=
  match index false 2 exp_docs with
  | AOk ix => match select_chain (of_index ix avoid) exp_keys with
              | AOk v => Some (a_rows v, v_phrase_freqs v [1;2] None None, v_phrase_freqs v [1;2;3] None None,
                               v_phrase_freqs v [1;9] None None)
              | _ => None end
  | _ => None end.
Example C06_phrase_example_wf : wf_docs exp_docs /\ valid_keys (length exp_docs) exp_keys.
Proof.
  split; [split; [repeat constructor; cbn; lia|rewrite pow28; cbn; lia]|].
  cbn [valid_keys length exp_docs exp_keys]. repeat split; repeat constructor; cbn; lia.
Qed.
Example C06_phrase_example_run : forall avoid,
  exp_run avoid = Some ([2;4;0;3], AOk [1;1;2;1], AOk [0;0;1;1], AOk [0;0;0;0]) /\
  phrase_spec (view_docs exp_docs exp_keys) [1;2] = [1;1;2;1] /\
  phrase_spec (view_docs exp_docs exp_keys) [1;2;3] = [0;0;1;1].
Proof. intros [|]; vm_compute; repeat split; reflexivity. Qed.

Print Assumptions C06_phrase.
Print Assumptions C06_score_args_phrase.
Print Assumptions C06_score_commutes.
