(* Query-time state machine (C07, C20): the mutable parts of PosnBitArray / FilteredPosns and how every
   read-only operation reads and writes them (middle_out.py 291-317, 337-364, 481-528; postings.py 343-358,
   532-544, 607-708).  Pure answers are the functions of View/View.v; here each operation goes through
   the caches and the current postings handle exactly as the code does, so that "the answer does not
   depend on the history" is a theorem about this machine and not a definition.  No proofs here. *)
From Coq Require Import ZArith.
From SA Require Import Base.Prelude Kernels.Spec Kernels.Linear Codec.Codec Index.Index Query.Phrase Query.Range
  Score.BM25 View.View.
Open Scope N_scope.

(* mutable state of one PosnBitArray object *)
Record pstate := {
  ps_base : posts;                       (* the un-filtered postings this object can fall back to *)
  ps_ids : option (list N);              (* Some ids: the handle is (or was created as) FilteredPosns(base, ids) *)
  ps_filtered_now : bool;                (* is encoded_term_posns currently the FilteredPosns wrapper? filter() resets it *)
  ps_sliced : list (N * list N);         (* FilteredPosns.sliced: term -> filtered postings *)
  ps_dfcache : list (N * N);             (* docfreq_cache *)
  ps_tfcache : list (N * list (N * N));  (* termfreq_cache: term -> sparse (doc id, count) *)
  ps_cache_gt : N;                       (* cache_gt_than *)
  ps_max_doc_id : N;
  ps_root : option nat;                  (* df_source: index of the root object in the heap, None = self *)
}.

(* an array of the pool: immutable row vector etc. plus the heap index of its PosnBitArray *)
Record parray := { pa_arr : sarray; pa_pid : nat }.
Record pool := { heap : list pstate; arrays : list parray }.

Definition set_nth {A} (l : list A) (i : nat) (x : A) : list A := firstn i l ++ x :: skipn (S i) l.
Definition dummy_ps : pstate :=
  {| ps_base := []; ps_ids := None; ps_filtered_now := false; ps_sliced := []; ps_dfcache := []; ps_tfcache := [];
     ps_cache_gt := 25; ps_max_doc_id := 0; ps_root := None |}.
Definition get_ps (p : pool) (i : nat) : pstate := nth i (heap p) dummy_ps.
Definition put_ps (p : pool) (i : nat) (s : pstate) : pool := {| heap := set_nth (heap p) i s; arrays := arrays p |}.

(* ---- self.encoded_term_posns[term_id] through the CURRENT handle; fills FilteredPosns.sliced ---- *)
Definition read_enc (s : pstate) (t : N) : api (list N) * pstate :=
  match ps_filtered_now s, ps_ids s with
  | true, Some ids =>
      match lookup t (ps_sliced s) with
      | Some w => (AOk w, s)
      | None =>
          match lookup_posts t (ps_base s) with
          | AOk w =>
              match slice_keys w ids with
              | Done sl => (AOk sl,
                            {| ps_base := ps_base s; ps_ids := ps_ids s; ps_filtered_now := true;
                               ps_sliced := (t, sl) :: ps_sliced s; ps_dfcache := ps_dfcache s;
                               ps_tfcache := ps_tfcache s; ps_cache_gt := ps_cache_gt s;
                               ps_max_doc_id := ps_max_doc_id s; ps_root := ps_root s |})
              | other => (lift other, s)
              end
          | e => (e, s)
          end
      end
  | _, _ => (lookup_posts t (ps_base s), s)
  end.

(* ---- docfreq on the root object: cache hit, or compute and maybe cache ---- *)
Definition df_on_root (s : pstate) (t : N) : api N * pstate :=
  match lookup t (ps_dfcache s) with
  | Some d => (AOk d, s)
  | None =>
      match lookup_posts t (ps_base s) with
      | AOk w =>
          match keys_unique w with
          | Done ks =>
              let d := N.of_nat (length ks) in
              (AOk d,
               if ps_cache_gt s <? N.of_nat (length w)
               then {| ps_base := ps_base s; ps_ids := ps_ids s; ps_filtered_now := ps_filtered_now s;
                       ps_sliced := ps_sliced s; ps_dfcache := (t, d) :: ps_dfcache s; ps_tfcache := ps_tfcache s;
                       ps_cache_gt := ps_cache_gt s; ps_max_doc_id := ps_max_doc_id s; ps_root := ps_root s |}
               else s)
          | other => (lift (do _ <- other; Done 0), s)
          end
      | AExc e => (AExc e, s)
      | AFault k b i => (AFault k b i, s)
      | AFuel => (AFuel, s)
      end
  end.

Definition root_of (p : pool) (pid : nat) : nat := match ps_root (get_ps p pid) with Some r => r | None => pid end.

Definition m_docfreq (p : pool) (a : parray) (t : N) : api N * pool :=
  if negb (known_a (pa_arr a) t) then (AOk 0, p)
  else
    let r := root_of p (pa_pid a) in
    let '(out, s') := df_on_root (get_ps p r) t in
    (out, put_ps p r s').

(* ---- _termfreqs_with_cache (501-509): only reached by non-subset arrays without a range ---- *)
Definition tf_with_cache (s : pstate) (t : N) : api (list (N * N)) * pstate :=
  match lookup t (ps_tfcache s) with
  | Some kc => (AOk kc, s)
  | None =>
      let '(enc, s1) := read_enc s t in
      match enc with
      | AOk w =>
          match num_values_per_key w with
          | Done kc =>
              (AOk kc,
               if existsb (fun e => fst e =? t) (ps_dfcache s1)          (* _is_cached: term in docfreq_cache *)
               then {| ps_base := ps_base s1; ps_ids := ps_ids s1; ps_filtered_now := ps_filtered_now s1;
                       ps_sliced := ps_sliced s1; ps_dfcache := ps_dfcache s1; ps_tfcache := (t, kc) :: ps_tfcache s1;
                       ps_cache_gt := ps_cache_gt s1; ps_max_doc_id := ps_max_doc_id s1; ps_root := ps_root s1 |}
               else s1)
          | other => (lift other, s1)
          end
      | AExc e => (AExc e, s1)
      | AFault k b i => (AFault k b i, s1)
      | AFuel => (AFuel, s1)
      end
  end.

(* ---- SearchArray.termfreqs(str, range) through the state ---- *)
Definition m_termfreqs (p : pool) (a : parray) (t : N) (min_p max_p : option N) : api (list N) * pool :=
  let arr := pa_arr a in
  if negb (known_a arr t) then (AOk (repeat 0 (nrows arr)), p)
  else
    let s := get_ps p (pa_pid a) in
    if a_subset arr then
      let '(enc, s1) := read_enc s t in
      (ado w <- enc;
       ado sl <- lift (slice_keys w (np_unique (a_rows arr)));
       ado s2 <- api_of_range (slice_range_w sl min_p max_p);
       ado kc <- lift (num_values_per_key s2);
       ado dense <- unpy (as_dense (map fst kc) (map snd kc) (ps_max_doc_id s + 1));
       AOk (gather 0 dense (a_rows arr)),
       put_ps p (pa_pid a) s1)
    else
      match min_p, max_p with
      | None, None =>
          let '(kc, s1) := tf_with_cache s t in
          (ado kc' <- kc; unpy (as_dense (map fst kc') (map snd kc') (N.of_nat (nrows arr))), put_ps p (pa_pid a) s1)
      | _, _ =>
          let '(enc, s1) := read_enc s t in
          (ado w <- enc;
           ado s2 <- api_of_range (slice_range_w w min_p max_p);
           ado kc <- lift (num_values_per_key s2);
           unpy (as_dense (map fst kc) (map snd kc) (N.of_nat (nrows arr))),
           put_ps p (pa_pid a) s1)
      end.

(* ---- phrase ---- *)
Fixpoint read_all_enc (s : pstate) (ts : list N) (min_p max_p : option N) : api (list (list N)) * pstate :=
  match ts with
  | [] => (AOk [], s)
  | t :: rest =>
      let '(enc, s1) := read_enc s t in
      match enc with
      | AOk w =>
          match (match min_p, max_p with None, None => AOk w | _, _ => api_of_range (slice_range_w w min_p max_p) end) with
          | AOk w' => let '(r, s2) := read_all_enc s1 rest min_p max_p in (ado ws <- r; AOk (w' :: ws), s2)
          | AExc e => (AExc e, s1) | AFault k b i => (AFault k b i, s1) | AFuel => (AFuel, s1)
          end
      | AExc e => (AExc e, s1) | AFault k b i => (AFault k b i, s1) | AFuel => (AFuel, s1)
      end
  end.
Definition m_phrase (p : pool) (a : parray) (ts : list N) (min_p max_p : option N) : api (list N) * pool :=
  let arr := pa_arr a in
  if negb (forallb (known_a arr) ts) then (AOk (repeat 0 (nrows arr)), p)
  else if Nat.ltb (length ts) 2 then (AExc ValueError, p)
  else
    let s := get_ps p (pa_pid a) in
    let '(encs, s1) := read_all_enc s ts min_p max_p in
    (ado enc <- encs;
     ado pf <- compute_phrase_freqs enc;
     ado dense <- lift (store_many (repeat 0 (N.to_nat (ps_max_doc_id s + 1))) pf);
     if a_subset arr then AOk (gather 0 dense (a_rows arr)) else AOk dense,
     put_ps p (pa_pid a) s1).

(* ---- positions ---- *)
Definition m_positions (p : pool) (a : parray) (t : N) : api (list (list N)) * pool :=
  let arr := pa_arr a in
  if negb (known_a arr t) then (AExc TermMissing, p)
  else
    let s := get_ps p (pa_pid a) in
    let '(enc, s1) := read_enc s t in
    (match enc with
     | AExc KeyError => AOk (map (fun _ => []) (a_rows arr))
     | other =>
         ado w <- other;
         ado sl <- lift (slice_keys w (np_unique (a_rows arr)));
         let decoded := decode sl in
         AOk (map (fun r => match lookup r decoded with Some q => q | None => [] end) (a_rows arr))
     end, put_ps p (pa_pid a) s1).

(* ---- score: docfreqs first (fills the df cache), then the tf vector, then the kernel on a FRESH vector ---- *)
Fixpoint m_all_dfs (p : pool) (a : parray) (ts : list N) : api (list N) * pool :=
  match ts with
  | [] => (AOk [], p)
  | t :: rest =>
      let '(d, p1) := m_docfreq p a t in
      let '(ds, p2) := m_all_dfs p1 a rest in
      (ado d' <- d; ado ds' <- ds; AOk (d' :: ds'), p2)
  end.
Definition m_score (p : pool) (a : parray) (ts : list N) (idf_bits k1_bits b_bits : Z) : api (list Z) * pool :=
  let '(dfs, p1) := m_all_dfs p a ts in
  let '(tfs, p2) := match ts with [t] => m_termfreqs p1 a t None None | _ => m_phrase p1 a ts None None end in
  (ado _ <- dfs; ado tf <- tfs;
   AOk (score_bits (map Z.of_N tf) (map Z.of_N (a_lens (pa_arr a))) (Z.of_N (a_total (pa_arr a))) (Z.of_N (a_n (pa_arr a)))
                   idf_bits k1_bits b_bits), p2).

(* ---- __getitem__ with avoid_copies: posns.filter(rows) UN-FILTERS the parent's handle, then wraps the base ---- *)
Definition m_select (p : pool) (ai : nat) (pos : list N) : api unit * pool :=
  match nth_error (arrays p) ai with
  | None => (AExc IndexError, p)
  | Some a =>
      let arr := pa_arr a in
      let rows' := gather 0 (a_rows arr) pos in
      let s := get_ps p (pa_pid a) in
      (* parent: if isinstance(enc, FilteredPosns): self.encoded_term_posns = enc.base *)
      let s_parent := {| ps_base := ps_base s; ps_ids := ps_ids s; ps_filtered_now := false; ps_sliced := ps_sliced s;
                         ps_dfcache := ps_dfcache s; ps_tfcache := ps_tfcache s; ps_cache_gt := ps_cache_gt s;
                         ps_max_doc_id := ps_max_doc_id s; ps_root := ps_root s |} in
      let p1 := put_ps p (pa_pid a) s_parent in
      let s_new := {| ps_base := ps_base s; ps_ids := Some (np_unique rows'); ps_filtered_now := true; ps_sliced := [];
                      ps_dfcache := []; ps_tfcache := []; ps_cache_gt := 25; ps_max_doc_id := ps_max_doc_id s;
                      ps_root := Some (root_of p (pa_pid a)) |} in
      let arr' := {| a_terms := a_terms arr;
                     a_posns := {| p_handle := HFiltered (ps_base s) (np_unique rows'); p_max_doc_id := ps_max_doc_id s;
                                   p_df_root := p_df_root (a_posns arr) |};
                     a_rows := rows'; a_subset := true; a_lens := gather 0 (a_lens arr) pos;
                     a_total := a_total arr; a_n := a_n arr; a_avoid_copies := true |} in
      (AOk tt, {| heap := heap p1 ++ [s_new];
                  arrays := arrays p1 ++ [{| pa_arr := arr'; pa_pid := length (heap p1) |}] |})
  end.

(* copy(): a new array object sharing the same PosnBitArray (avoid_copies=True) *)
Definition m_copy (p : pool) (ai : nat) : api unit * pool :=
  match nth_error (arrays p) ai with
  | None => (AExc IndexError, p)
  | Some a => (AOk tt, {| heap := heap p; arrays := arrays p ++ [a] |})
  end.

(* warm() on a root array: for every term with more than src_warm_gt words: docfreq, then termfreqs *)
Fixpoint warm_terms (s : pstate) (ts : list (N * list N)) : pstate :=
  match ts with
  | [] => s
  | (t, w) :: rest =>
      if 255 <? N.of_nat (length w) then
        let '(_, s1) := df_on_root s t in
        let '(_, s2) := tf_with_cache s1 t in
        warm_terms s2 rest
      else warm_terms s rest
  end.
Definition m_warm (p : pool) (ai : nat) : api unit * pool :=
  match nth_error (arrays p) ai with
  | None => (AExc IndexError, p)
  | Some a =>
      if a_subset (pa_arr a) then (AOk tt, p)      (* warm on a view is not part of the modelled op set *)
      else let s := get_ps p (pa_pid a) in (AOk tt, put_ps p (pa_pid a) (warm_terms s (ps_base s)))
  end.

(* ---- operations and outputs ---- *)
Inductive op :=
| OTf (a : nat) (t : N) (min_p max_p : option N)
| OPhrase (a : nat) (ts : list N) (min_p max_p : option N)
| OPos (a : nat) (t : N)
| ODf (a : nat) (t : N)
| OLens (a : nat)
| OScore (a : nat) (ts : list N) (idf k1 b : Z)
| OSelect (a : nat) (pos : list N)
| OCopy (a : nat)
| OWarm (a : nat).
Inductive out :=
| RVec (v : api (list N)) | RPos (v : api (list (list N))) | RNum (v : api N) | RBits (v : api (list Z)) | RUnit (v : api unit).

Definition with_array (p : pool) (ai : nat) (f : parray -> out * pool) : out * pool :=
  match nth_error (arrays p) ai with Some a => f a | None => (RUnit (AExc IndexError), p) end.

Definition step (p : pool) (o : op) : out * pool :=
  match o with
  | OTf ai t lo hi => with_array p ai (fun a => let '(r, p') := m_termfreqs p a t lo hi in (RVec r, p'))
  | OPhrase ai ts lo hi => with_array p ai (fun a => let '(r, p') := m_phrase p a ts lo hi in (RVec r, p'))
  | OPos ai t => with_array p ai (fun a => let '(r, p') := m_positions p a t in (RPos r, p'))
  | ODf ai t => with_array p ai (fun a => let '(r, p') := m_docfreq p a t in (RNum r, p'))
  | OLens ai => with_array p ai (fun a => (RVec (AOk (a_lens (pa_arr a))), p))
  | OScore ai ts idf k1 b => with_array p ai (fun a => let '(r, p') := m_score p a ts idf k1 b in (RBits r, p'))
  | OSelect ai pos => let '(r, p') := m_select p ai pos in (RUnit r, p')
  | OCopy ai => let '(r, p') := m_copy p ai in (RUnit r, p')
  | OWarm ai => let '(r, p') := m_warm p ai in (RUnit r, p')
  end.

Fixpoint run (p : pool) (ops : list op) : list out * pool :=
  match ops with
  | [] => ([], p)
  | o :: rest => let '(r, p1) := step p o in let '(rs, p2) := run p1 rest in (r :: rs, p2)
  end.

(* the initial pool: one freshly indexed root array *)
Definition init_pool (ix : sindex) (cache_gt : N) : pool :=
  {| heap := [{| ps_base := ix_posts ix; ps_ids := None; ps_filtered_now := false; ps_sliced := []; ps_dfcache := [];
                 ps_tfcache := []; ps_cache_gt := cache_gt; ps_max_doc_id := N.of_nat (length (ix_lens ix)) - 1;
                 ps_root := None |}];
     arrays := [{| pa_arr := of_index ix true; pa_pid := 0 |}] |}.

(* the history-free answer of the same query (what the theorem compares with) *)
Definition pure_answer (p : pool) (o : op) : option out :=
  let arr ai := option_map pa_arr (nth_error (arrays p) ai) in
  match o with
  | OTf ai t lo hi => option_map (fun a => RVec (v_termfreqs a t lo hi)) (arr ai)
  | OPhrase ai ts lo hi => option_map (fun a => RVec (v_phrase_freqs a ts lo hi)) (arr ai)
  | OPos ai t => option_map (fun a => RPos (v_positions a t)) (arr ai)
  | ODf ai t => option_map (fun a => RNum (v_docfreq a t)) (arr ai)
  | OLens ai => option_map (fun a => RVec (AOk (v_doclengths a))) (arr ai)
  | OScore ai ts idf k1 b => option_map (fun a => RBits (v_score_bm25 a ts idf k1 b)) (arr ai)
  | _ => None
  end.
