(* Spec for C06: a selection answers like the parent re-indexed by the same key. *)
From SA Require Import Base.Prelude Index.Index_Spec.
Open Scope N_scope.
Definition gather_rows (rows : list N) (pos : list N) : list N := map (fun i => nth (N.to_nat i) rows 0) pos.
Fixpoint compose_rows (rows : list N) (keys : list (list N)) : list N :=
  match keys with [] => rows | k :: rest => compose_rows (gather_rows rows k) rest end.
Definition rows0 (docs : list (list N)) : list N := map N.of_nat (seq 0 (length docs)).
(* the documents a view shows, in view order *)
Definition view_docs (docs : list (list N)) (keys : list (list N)) : list (list N) :=
  map (fun r => nth (N.to_nat r) docs []) (compose_rows (rows0 docs) keys).
(* re-indexing a parent answer vector by the composed key *)
Definition reindex {A} (dflt : A) (answer : list A) (docs : list (list N)) (keys : list (list N)) : list A :=
  map (fun r => nth (N.to_nat r) answer dflt) (compose_rows (rows0 docs) keys).
