(* Locality of the phrase pipeline for ARBITRARY phrases (immediate repetitions allowed) and ARBITRARY position
   ranges: purity premise H2 ([Purity_Gen.phrase_local_on]) for the postings of an indexed corpus with no
   restriction on the phrase or the range, built on Query/Phrase_Repeats.v.

   Why it holds although the strategy (left-to-right / right-to-left) is chosen from posting-list LENGTHS, which
   change under filtering, and although the two directions could in principle report different counts for
   phrases with repetitions:
     - a phrase with two DIFFERENT terms ('a a b', 'b a a a', ...; [is_const ph = false]) cannot occur at two
       adjacent offsets, so ALL its occurrences form a family of pairwise disjoint matches; the lower bound of
       Phrase_Repeats.compute_phrase_freqs_bounds then meets the upper bound: the count is EXACTLY the number of
       chain matches, whichever direction runs ([exact_nonconst], [phrase_exact_nonconst_on_index]);
     - a phrase that is ONE term repeated ('a a', 'a a a', ...) is read as k copies of the same posting list, so the
       chooser always goes left to right ([choose_const]); the first step reports the same-term count, which
       is a function of the words of the document only ([S_count_words]); in every later step the same-term
       branch cannot fire on an intersected word ([mid_same_empty]: the least position of the continuation
       would have a predecessor in the continuation), so those steps count all matches ([compute_const]).
   Position ranges are word filters (Range_Proofs.slice_range_w_aligned) and commute with the row filter; an
   unaligned range raises ValueError through either handle.

   Main results (all closed):
     exact_nonconst, compute_const        the two halves above, on arbitrary canonical posting lists
     phrase_local_lists                   two versions of per-term posting lists with the same words for the
                                          selected documents give the same counts for those documents
     phrase_local_holds_wide              H2 for the postings of an indexed corpus: every phrase, every range
     phrase_pipeline_nonconst             one filter PER TERM (mixed handles), phrases with two different terms
     compute_sub, phrase_pipeline_const   one filter PER TERM, one term repeated: the lists are restrictions of ONE
                                          list to whole documents ([sub_of]); either direction may run, the
                                          same-term branch still cannot fire mid-chain ([mid_same_empty_sub] and
                                          its mirror image [mid_same_empty_subL]), and the first step of either
                                          direction reports the same-term count of the un-restricted list
     phrase_exact_nonconst_on_index       C03, first sentence, extended to every phrase that is not a^k *)
From Coq Require Import Sorted Permutation.
From SA Require Import Base.Prelude Kernels.Spec Kernels.Linear Kernels.Linear_Proofs Codec.Codec Codec.Codec_Spec
  Codec.Codec_Proofs Codec.Codec_Proofs2 Index.Index Index.Index_Spec Index.Index_Proofs Index.Index_Proofs2
  Index.Index_Proofs3 Query.Phrase Query.Phrase_Spec Query.Phrase_Proofs Query.Phrase_Proofs2 Query.Phrase_Proofs3
  Query.Phrase_Final Query.Phrase_Repeats Query.Range Query.Range_Spec Query.Range_Proofs Score.BM25 View.View View.View_Spec
  View.View_Proofs View.View_Phrase View.Purity View.Purity_Proofs View.View_Phrase2 View.Purity_Gen.
Open Scope N_scope.


(* ================= 1. phrases that are not one term repeated: the answer is exact ================= *)
Definition is_const (ph : list N) : bool := match ph with [] => true | a :: r => forallb (N.eqb a) r end.

(* every position a posting list holds for document d is an occurrence of its term in doc *)
Definition genuine (ph : list N) (Ps : list (list N)) (d : N) (doc : list N) : Prop :=
  Forall2 (fun t P => forall p, In p (dposns P d) -> nth_error doc (N.to_nat p) = Some t) ph Ps.

Lemma match_at_genuine d doc : forall ph Ps, genuine ph Ps d doc -> forall o, match_at Ps d o = true ->
  prefix_eqb ph (skipn (N.to_nat o) doc) = true.
Proof.
  induction 1 as [|t P ph' more Ht _ IH]; intros o H; [reflexivity|].
  cbn [match_at] in H. apply andb_true_iff in H. destruct H as [H1 H2]. apply mem_n_In in H1.
  specialize (Ht o H1). rewrite (skipn_cons_nth doc _ t Ht). cbn [prefix_eqb]. rewrite N.eqb_refl. cbn [andb].
  specialize (IH (o + 1) H2). replace (N.to_nat (o + 1)) with (S (N.to_nat o)) in IH by lia. exact IH.
Qed.

Lemma prefix_twice : forall ph x t, prefix_eqb ph (x :: t) = true -> prefix_eqb ph t = true ->
  forallb (N.eqb x) ph = true.
Proof.
  induction ph as [|p pt IH]; intros x t H1 H2; [reflexivity|].
  cbn [prefix_eqb] in H1. apply andb_true_iff in H1. destruct H1 as [E1 H1]. apply N.eqb_eq in E1. subst p.
  destruct t as [|y t']; [discriminate H2|]. cbn [prefix_eqb] in H2.
  apply andb_true_iff in H2. destruct H2 as [E2 H2]. apply N.eqb_eq in E2. subst y.
  cbn [forallb]. rewrite N.eqb_refl. cbn [andb]. exact (IH x t' H1 H2).
Qed.

Lemma prefix_twice_const ph l : ph <> [] -> prefix_eqb ph l = true -> prefix_eqb ph (skipn 1 l) = true ->
  is_const ph = true.
Proof.
  intros Hne H1 H2. destruct l as [|x t]; [destruct ph; [congruence|discriminate H1]|].
  cbn [skipn] in H2. pose proof (prefix_twice ph x t H1 H2) as H.
  destruct ph as [|a r]; [reflexivity|]. cbn [forallb] in H. apply andb_true_iff in H. destruct H as [Ea H].
  apply N.eqb_eq in Ea. subst a. exact H.
Qed.

Lemma ss_lt_gap2 l : StronglySorted N.lt l -> (forall o, In o l -> In (o + 1) l -> False) -> StronglySorted gap2 l.
Proof.
  induction 1 as [|a t Hs IH Hf]; intro H; [constructor|]. constructor.
  - apply IH. intros o H1 H2. apply (H o); right; assumption.
  - apply Forall_forall. intros b Hb. rewrite Forall_forall in Hf. specialize (Hf b Hb).
    unfold gap2. destruct (N.eq_dec b (a + 1)) as [->|Hne]; [|lia].
    exfalso. apply (H a); [now left|right; exact Hb].
Qed.

Lemma In_phrase_matches Ps d o : Ps <> [] -> (In o (phrase_matches Ps d) <-> match_at Ps d o = true).
Proof.
  intro Hne. destruct Ps as [|P more]; [congruence|]. cbn [phrase_matches]. rewrite filter_In. split; [tauto|].
  intro H. split; [|exact H]. cbn [match_at] in H. apply andb_true_iff in H. apply mem_n_In. tauto.
Qed.

Lemma phrase_matches_sorted Ps d : Forall canonical Ps -> StronglySorted N.lt (phrase_matches Ps d).
Proof.
  intro Hc. destruct Ps as [|P more]; [constructor|]. cbn [phrase_matches]. apply ss_filter, dposns_sorted.
  inversion Hc as [|? ? (Hw & _) _]; subst. exact Hw.
Qed.

Lemma nonconst_gap2 ph Ps d doc : Forall canonical Ps -> Ps <> [] -> is_const ph = false -> genuine ph Ps d doc ->
  StronglySorted gap2 (phrase_matches Ps d).
Proof.
  intros Hc Hne Hnc Hg. apply ss_lt_gap2; [apply phrase_matches_sorted; exact Hc|].
  intros o H1 H2. apply In_phrase_matches in H1; [|exact Hne]. apply In_phrase_matches in H2; [|exact Hne].
  pose proof (match_at_genuine d doc ph Ps Hg o H1) as P1.
  pose proof (match_at_genuine d doc ph Ps Hg (o + 1) H2) as P2.
  replace (N.to_nat (o + 1)) with (1 + N.to_nat o)%nat in P2 by lia. rewrite <- skipn_add in P2.
  assert (Hph : ph <> []) by (intro; subst; discriminate Hnc).
  rewrite (prefix_twice_const ph _ Hph P1 P2) in Hnc. discriminate.
Qed.

(* whichever strategy runs: for a phrase with at least two different terms the count reported for document d
   is exactly the number of chain matches (no two of them are adjacent, so they form a disjoint family) *)
Theorem exact_nonconst ph Ps res d doc : Forall canonical Ps -> Ps <> [] -> answer_bounds res Ps ->
  is_const ph = false -> genuine ph Ps d doc ->
  look0 d res = N.of_nat (length (phrase_matches Ps d)).
Proof.
  intros Hc Hne Hb Hnc Hg. destruct (Hb d) as [Hup Hlow]. apply N.le_antisymm; [exact Hup|].
  apply Hlow; [apply (nonconst_gap2 ph Ps d doc); assumption|].
  intros o Ho. apply In_phrase_matches in Ho; assumption.
Qed.

(* ================= 2. chain matches depend on the positions of the document only ================= *)
Lemma match_at_ext d : forall Ps Ps', Forall2 (fun P P' => dposns P d = dposns P' d) Ps Ps' ->
  forall o, match_at Ps d o = match_at Ps' d o.
Proof.
  induction 1 as [|P P' Ps Ps' E _ IH]; intro o; [reflexivity|]. cbn [match_at]. rewrite E, IH. reflexivity.
Qed.

Lemma phrase_matches_ext d Ps Ps' : Forall2 (fun P P' => dposns P d = dposns P' d) Ps Ps' ->
  phrase_matches Ps d = phrase_matches Ps' d.
Proof.
  intro HF. pose proof (match_at_ext d Ps Ps' HF) as Hm.
  destruct HF as [|P P' Ps Ps' E HF]; [reflexivity|]. cbn [phrase_matches]. rewrite E.
  apply filter_ext. exact Hm.
Qed.

(* keeping the words of some documents *)
Definition kfilter (Qd : N -> bool) (ws : list N) : list N := filter (fun w => Qd (key w)) ws.

Lemma kfilter_doc Qd ws d : Qd d = true ->
  filter (fun w => key w =? d) (kfilter Qd ws) = filter (fun w => key w =? d) ws.
Proof.
  intro HQ. unfold kfilter. rewrite filter_filter. apply filter_ext. intro w.
  destruct (N.eqb_spec (key w) d) as [->|]; [rewrite HQ; reflexivity|apply andb_false_r].
Qed.

Lemma dposns_kfilter Qd ws d : Qd d = true -> dposns (kfilter Qd ws) d = dposns ws d.
Proof. intro HQ. unfold dposns. rewrite kfilter_doc by exact HQ. reflexivity. Qed.

Lemma wf_post_filter (f : N -> bool) ws : wf_post ws -> wf_post (filter f ws).
Proof. intros [H1 H2]. split; [apply ss_map_filter; exact H1|apply Forall_filter'; exact H2]. Qed.

Lemma canonical_filter (f : N -> bool) ws : canonical ws -> canonical (filter f ws).
Proof.
  intros (H1 & H2 & H3). split; [apply wf_post_filter; exact H1|]. split; [apply Forall_filter'; exact H2|].
  pose proof (filter_length_le' f ws). rewrite pow62 in *. lia.
Qed.

Lemma has_filter (f : N -> bool) ws d p : has (filter f ws) d p -> has ws d p.
Proof. intros (w & Hw & H). apply filter_In in Hw. exists w. tauto. Qed.

(* ================= 3. one term repeated: 'a a', 'a a a', ... ================= *)
(* ---- a step that is not in the same-term branch (or has no intersected word) counts all matches ---- *)
Lemma any_counts_ordinary A B : wf_post A -> wf_post B ->
  is_same (ipairs A B) = false \/ ipairs A B = [] ->
  forall d, look0 d (any_counts A B) = N.of_nat (length (matched A B d)).
Proof.
  intros HA HB Hc d. destruct (any_counts_look0 A B) as [_ H]. rewrite H, (matched_nsum A B HA HB).
  apply nsum_ext_in. intros x Hx. destruct (key x =? d); [|reflexivity]. f_equal.
  unfold gw, pcw. destruct (partner_i B x) as [y|] eqn:E; [|reflexivity].
  destruct Hc as [Hc|Hc].
  - unfold gfun. rewrite Hc. reflexivity.
  - pose proof (partner_pair A B x y Hx E) as Hp. rewrite Hc in Hp. destruct Hp.
Qed.

(* ---- in the middle of the chain of one repeated term the same-term branch never fires on a word ---- *)
Lemma ss_head_min a l x : StronglySorted N.lt (a :: l) -> In x (a :: l) -> a <= x.
Proof.
  intros H [<-|Hx]; [lia|]. apply StronglySorted_inv in H. destruct H as [_ Hf].
  rewrite Forall_forall in Hf. specialize (Hf x Hx). lia.
Qed.

Lemma mid_same_empty A L : canonical A -> wf_post L -> (forall d p, has L d p -> has A d p) ->
  is_same (ipairs (step_next CR L A) A) = true -> ipairs (step_next CR L A) A = [].
Proof.
  intros (HA & Hnz & _) HL Hsub Hsame.
  set (lhs := step_next CR L A) in *.
  assert (Hwl : wf_post lhs) by (apply step_next_wf; assumption).
  destruct (ipairs lhs A) as [|[x0 y0] rest] eqn:Eip; [reflexivity|]. exfalso.
  assert (Hp0 : In (x0, y0) (ipairs lhs A)) by (rewrite Eip; now left).
  (* every word of lhs carries the header of a word of A, hence IS that word *)
  assert (Heq : forall z, In z lhs -> In z A).
  { intros z Hz. destruct (step_next_side CR L A z HL HA Hz) as (w & Hw & Eh). cbn [side] in Hw.
    assert (Hp : In (z, w) (ipairs lhs A)) by (apply In_ipairs; [exact HA|]; repeat split; auto).
    rewrite <- Eip in Hsame. pose proof (is_same_true _ Hsame _ Hp) as E. cbn [fst snd] in E. subst w. exact Hw. }
  apply (In_ipairs lhs A x0 y0 HA) in Hp0. destruct Hp0 as (Hx0 & _ & _).
  pose proof (Heq x0 Hx0) as Hx0A.
  (* x0 has a position; take the least position of its document in lhs *)
  set (d := key x0).
  assert (Hne : exists q, In q (dposns lhs d)).
  { rewrite Forall_forall in Hnz. specialize (Hnz x0 Hx0A).
    pose proof (N.bit_log2 (lsb x0) Hnz) as Hbit. rewrite lsb_testbit in Hbit.
    apply andb_true_iff in Hbit. destruct Hbit as [Hi Ht]. apply N.ltb_lt in Hi.
    exists (18 * bucket x0 + N.log2 (lsb x0)). apply In_dposns. exists x0. split; [exact Hx0|].
    split; [reflexivity|]. split; [lia|].
    replace ((18 * bucket x0 + N.log2 (lsb x0)) mod 18) with (N.log2 (lsb x0)) by lia. exact Ht. }
  pose proof (dposns_sorted lhs d Hwl) as Hsort.
  destruct (dposns lhs d) as [|q0 qs] eqn:Edp; [destruct Hne as (q & [])|]. clear Hne.
  assert (Hq0 : has lhs d q0) by (apply In_dposns; rewrite Edp; now left).
  pose proof Hq0 as Hq0'. unfold lhs in Hq0'. apply (step_has CR L A HL HA) in Hq0'.
  destruct Hq0' as (p & Ep & HpL & HqA). cbn [off] in Ep.
  pose proof (Hsub d p HpL) as HpA.
  (* p is a position of lhs as well: contradiction with the minimality of q0 = p + 1 *)
  assert (Hplhs : has lhs d p).
  { destruct HpA as (w & HwA & Kw & Bw & Tw). destruct (wf_in _ _ HA HwA) as [Hw64 Hwb].
    assert (Hz : exists z, In z lhs /\ hdr z = hdr w).
    { destruct (N.eq_dec (p mod 18) 17) as [E17|N17].
      - (* previous bucket: the intersected pair (w', w) leaves a word with that header in lhs *)
        destruct HpL as (w' & Hw'L & Kw' & Bw' & Tw'). destruct (wf_in _ _ HL Hw'L) as [Hw'64 _].
        assert (Hh : hdr w = hdr w') by (apply (hdr_eq_iff w w' Hw64 Hw'64); split; congruence).
        assert (Hp : In (w', w) (ipairs L A)) by (apply In_ipairs; [exact HA|]; repeat split; auto).
        set (wi := contI CR (w', w)).
        assert (Hwi : In wi (NI CR L A)) by (unfold NI; apply in_map; exact Hp).
        assert (Hhi : hdr wi = hdr w') by (apply contI_hdr; auto).
        exists (if memh wi (NA CR L A) then N.lor wi (cbit CR) else wi). split.
        + apply In_step_next. left. exists wi. split; [exact Hwi|reflexivity].
        + destruct (memh wi (NA CR L A)); [rewrite hdr_lor_cbit|]; congruence.
      - (* same bucket as q0: the word of lhs holding q0 *)
        destruct Hq0 as (z & Hz & Kz & Bz & Tz). exists z. split; [exact Hz|].
        destruct (wf_in _ _ Hwl Hz) as [Hz64 _]. apply (hdr_eq_iff z w Hz64 Hw64). split; [congruence|].
        rewrite Bz, Bw, Ep. assert (p mod 18 < 18) by (apply N.mod_lt; lia).
        pose proof (N.div_mod p 18 ltac:(lia)). pose proof (N.div_mod (p + 1) 18 ltac:(lia)).
        assert ((p + 1) mod 18 = p mod 18 + 1) by lia. lia. }
    destruct Hz as (z & Hz & Ehz). pose proof (Heq z Hz) as HzA.
    assert (z = w) by (apply (hdr_inj_in A); assumption). subst z.
    exists w. repeat split; assumption. }
  apply In_dposns in Hplhs. rewrite Edp in Hplhs. pose proof (ss_head_min q0 qs p Hsort Hplhs). lia.
Qed.

(* ---- the loop on  A, A, ..., A ---- *)
Lemma l2r_pos_length_le : forall rest M d, (length (l2r_pos M rest d) <= length M)%nat.
Proof.
  intros rest M d. rewrite l2r_pos_spec, map_length. apply filter_length_le'.
Qed.

Lemma l2r_loop_const A : canonical A -> forall m L acc,
  wf_post L -> N.of_nat (length L) < 2 ^ 62 -> (forall d p, has L d p -> has A d p) -> acc_ok acc ->
  (forall d, look0 d acc <= N.of_nat (length (dposns (step_next CR L A) d))) ->
  exists res, l2r_loop (step_next CR L A) (repeat A m) (Some acc) = AOk res /\ acc_ok res /\
    incl (map fst res) (map fst acc) /\
    forall d, look0 d res =
              N.min (look0 d acc) (N.of_nat (length (l2r_pos (dposns (step_next CR L A) d) (repeat A m) d))).
Proof.
  intros HcA. pose proof HcA as (HA & HnzA & HlA).
  induction m as [|m IH]; intros L acc HL HlL Hsub Hok Hub.
  - exists acc. split; [reflexivity|]. split; [exact Hok|]. split; [apply incl_refl|].
    intro d. cbn [repeat l2r_pos]. specialize (Hub d). lia.
  - set (lhs := step_next CR L A) in *.
    assert (Hwl : wf_post lhs) by (apply step_next_wf; assumption).
    assert (Hll : N.of_nat (length lhs) < 2 ^ 62).
    { pose proof (step_next_length CR L A HL HA) as Hl. cbn [side] in Hl. fold lhs in Hl. rewrite pow62 in *. lia. }
    assert (Hsub' : forall d p, has lhs d p -> has A d p).
    { intros d q Hq. apply (step_has CR L A HL HA) in Hq. destruct Hq as (p & -> & _ & H2). exact H2. }
    cbn [repeat l2r_loop]. rewrite (bigram_freqs_any CR lhs A Hwl HA Hll HlA). cbn [abind fst snd].
    destruct (intersect_acc acc (any_counts lhs A) Hok (any_counts_acc_ok lhs A Hwl HA))
      as (acc' & E & Hok' & Hincl & Hmin).
    rewrite E. cbn [abind].
    assert (Hord : forall d, look0 d (any_counts lhs A) = N.of_nat (length (matched lhs A d))).
    { apply any_counts_ordinary; try assumption.
      destruct (is_same (ipairs lhs A)) eqn:S; [right|left; reflexivity].
      apply (mid_same_empty A L HcA HL Hsub). exact S. }
    destruct (IH lhs acc' Hwl Hll Hsub' Hok') as (res & Er & Hres & Hincl' & Hd).
    + intro d. rewrite Hmin, Hord, step_next_dposns, map_length by assumption. apply N.le_min_r.
    + exists res. split; [exact Er|]. split; [exact Hres|]. split; [eapply incl_tran; eassumption|].
      intro d. rewrite Hd, Hmin, Hord. cbn [l2r_pos]. rewrite <- step_CR_dposns by assumption.
      pose proof (l2r_pos_length_le (repeat A m) (dposns (step_next CR lhs A) d) d) as Hle.
      remember (length (l2r_pos (dposns (step_next CR lhs A) d) (repeat A m) d)) as X eqn:EX. clear EX.
      rewrite (step_next_dposns CR lhs A d Hwl HA), map_length in Hle. lia.
Qed.

Lemma ipairs_self A x y : wf_post A -> In (x, y) (ipairs A A) -> y = x.
Proof.
  intros HA H. apply (In_ipairs A A x y HA) in H. destruct H as (Hx & Hy & E).
  apply (hdr_inj_in A); assumption.
Qed.

(* the count of the first step (a, a) *)
Definition S_count (A : list N) (d : N) : N := look0 d (any_counts A A).

Theorem phrase_l2r_const A m : canonical A ->
  exists res, phrase_l2r (A :: A :: repeat A m) = AOk res /\ acc_ok res /\ keys_from res A /\
    forall d, look0 d res = N.min (S_count A d) (N.of_nat (length (phrase_matches (A :: A :: repeat A m) d))).
Proof.
  intros HcA. pose proof HcA as (HA & HnzA & HlA).
  cbn [phrase_l2r l2r_loop]. rewrite (bigram_freqs_any CR A A HA HA HlA HlA).
  cbn [abind fst snd intersect_matches].
  destruct (l2r_loop_const A HcA m A (any_counts A A)) as (res & Er & Hres & Hincl & Hd); try assumption.
  - intros d p H. exact H.
  - apply any_counts_acc_ok; assumption.
  - intro d. rewrite step_next_dposns, map_length by assumption. apply any_counts_upper; assumption.
  - exists res. split; [exact Er|]. split; [exact Hres|]. split.
    + intros k Hk. apply Hincl in Hk. apply (any_counts_keys A A HA HA) in Hk. tauto.
    + intro d. rewrite Hd. unfold S_count. f_equal. f_equal.
      rewrite step_CR_dposns by assumption.
      change (l2r_pos (map (fun q => q + 1) (filter (fun p => mem_n (p + 1) (dposns A d)) (dposns A d))) (repeat A m) d)
        with (l2r_pos (dposns A d) (A :: repeat A m) d).
      rewrite l2r_pos_spec, map_length, pm_head. reflexivity.
Qed.

(* equal lists: the chooser picks left-to-right *)
Lemma argmin_len_const b : forall l i bi, Forall (fun x : list N => length x = b) l -> argmin_len i bi b l = bi.
Proof.
  induction l as [|x t IH]; intros i bi H; [reflexivity|]. inversion H as [|? ? Hx Ht]; subst.
  cbn [argmin_len]. rewrite Nat.ltb_irrefl. apply IH. exact Ht.
Qed.

Lemma choose_const A n : choose_strategy (A :: repeat A n) = L2R.
Proof.
  unfold choose_strategy, shortest_index. rewrite argmin_len_const; [reflexivity|].
  apply Forall_forall. intros x Hx. apply repeat_spec in Hx. subst. reflexivity.
Qed.

Theorem compute_const A m : canonical A ->
  exists res, compute_phrase_freqs (A :: A :: repeat A m) = AOk res /\ acc_ok res /\ keys_from res A /\
    forall d, look0 d res = N.min (S_count A d) (N.of_nat (length (phrase_matches (A :: A :: repeat A m) d))).
Proof.
  intro HcA. unfold compute_phrase_freqs.
  change (A :: A :: repeat A m) with (A :: repeat A (S m)). rewrite choose_const.
  change (A :: repeat A (S m)) with (A :: A :: repeat A m). apply phrase_l2r_const. exact HcA.
Qed.

(* ---- S_count depends on the words of the document only ---- *)
Lemma find_filter_imp {X} (pred f : X -> bool) : forall l, (forall y, In y l -> pred y = true -> f y = true) ->
  find pred (filter f l) = find pred l.
Proof.
  induction l as [|y l IH]; intro H; [reflexivity|]. cbn [filter find].
  destruct (pred y) eqn:Py.
  - rewrite (H y (or_introl eq_refl) Py). cbn [find]. rewrite Py. reflexivity.
  - destruct (f y); cbn [find]; rewrite ?Py; apply IH; intros z Hz; apply H; right; exact Hz.
Qed.

Lemma nsum_filter_key (g : N -> N) d A :
  nsum (fun x => if key x =? d then g x else 0) A = nsum g (filter (fun w => key w =? d) A).
Proof. symmetry. apply nsum_filter. Qed.

Lemma is_same_intro ps : (forall p, In p ps -> fst p = snd p) -> is_same ps = true.
Proof.
  intro H. unfold is_same, list_eqb. rewrite !map_length, Nat.eqb_refl. cbn [andb].
  rewrite combine_fst_snd. apply forallb_forall. intros p Hp. apply N.eqb_eq. apply H. exact Hp.
Qed.

Lemma S_count_words A d : wf_post A ->
  S_count A d = nsum (fun x => same_term_adjusted x x +
                               match sel_a (filter (fun w => key w =? d) A) x with Some _ => 1 | None => 0 end)
                     (filter (fun w => key w =? d) A).
Proof.
  intro HA. unfold S_count. destruct (any_counts_look0 A A) as [_ H]. rewrite H, nsum_filter_key.
  apply nsum_ext_in. intros x Hx. apply filter_In in Hx. destruct Hx as [HxA Hk]. apply N.eqb_eq in Hk.
  destruct (wf_in _ _ HA HxA) as [Hx64 Hxb]. f_equal.
  - unfold gw. assert (E : partner_i A x = Some x).
    { unfold partner_i, partner. apply find_nodup; [apply wf_nodup; exact HA|exact HxA|reflexivity]. }
    rewrite E. unfold gfun. cbn [fst snd].
    rewrite is_same_intro; [reflexivity|].
    intros [a b] Hp. cbn [fst snd]. symmetry. apply (ipairs_self A a b HA Hp).
  - unfold adw, sel_a, partner_a, partner. rewrite find_filter_imp; [reflexivity|].
    intros y Hy Hp. apply N.eqb_eq in Hp. destruct (wf_in _ _ HA Hy) as [Hy64 _].
    apply (proj1 (hdr_next_iff x y Hx64 Hy64 Hxb)) in Hp. apply N.eqb_eq. lia.
Qed.

Lemma S_count_local A A' d : wf_post A -> wf_post A' ->
  filter (fun w => key w =? d) A = filter (fun w => key w =? d) A' -> S_count A d = S_count A' d.
Proof. intros HA HA' E. rewrite (S_count_words A d HA), (S_count_words A' d HA'), E. reflexivity. Qed.

(* ================= 4. locality of the chain, document by document ================= *)
Definition doc_words (d : N) (ws : list N) : list N := filter (fun w => key w =? d) ws.

Lemma dposns_doc_words d ws ws' : doc_words d ws = doc_words d ws' -> dposns ws d = dposns ws' d.
Proof. unfold dposns, doc_words. intros ->. reflexivity. Qed.

Lemma has_doc_words d ws ws' p : doc_words d ws = doc_words d ws' -> has ws d p -> has ws' d p.
Proof. intros E H. apply In_dposns. rewrite <- (dposns_doc_words d ws ws' E). apply In_dposns. exact H. Qed.

Lemma is_const_repeat ph : is_const ph = true -> ph = repeat (hd 0 ph) (length ph).
Proof.
  destruct ph as [|a r]; [reflexivity|]. cbn [is_const hd length repeat]. intro H. f_equal.
  induction r as [|b r IH]; [reflexivity|]. cbn [forallb] in H. apply andb_true_iff in H. destruct H as [E H].
  apply N.eqb_eq in E. subst b. cbn [length repeat]. f_equal. apply IH. exact H.
Qed.

Lemma map_repeat {X Y} (f : X -> Y) a n : map f (repeat a n) = repeat (f a) n.
Proof. induction n as [|n IH]; [reflexivity|]. cbn [repeat map]. rewrite IH. reflexivity. Qed.

Section Local.
(* one posting list per term, in two versions that hold the same words for the documents selected by Qd *)
Variables (F F' : N -> list N) (Qd : N -> bool) (doc : N -> list N).
Hypothesis HF : forall t, canonical (F t).
Hypothesis HF' : forall t, canonical (F' t).
Hypothesis Hsame : forall t d, Qd d = true -> doc_words d (F' t) = doc_words d (F t).
Hypothesis Hgen : forall t d p, has (F t) d p -> nth_error (doc d) (N.to_nat p) = Some t.

Lemma genuine_F ph d : genuine ph (map F ph) d (doc d).
Proof.
  induction ph as [|t r IH]; cbn [map]; constructor; [|exact IH].
  intros p Hp. apply In_dposns in Hp. exact (Hgen t d p Hp).
Qed.
Lemma genuine_F' ph d : Qd d = true -> genuine ph (map F' ph) d (doc d).
Proof.
  intro HQ. induction ph as [|t r IH]; cbn [map]; constructor; [|exact IH].
  intros p Hp. apply In_dposns in Hp. apply (Hgen t d p). apply (has_doc_words d (F' t)); [|exact Hp].
  apply Hsame. exact HQ.
Qed.
Lemma dposns_FF' ph d : Qd d = true -> Forall2 (fun P P' => dposns P d = dposns P' d) (map F ph) (map F' ph).
Proof.
  intro HQ. induction ph as [|t r IH]; cbn [map]; constructor; [|exact IH].
  symmetry. apply dposns_doc_words. apply Hsame. exact HQ.
Qed.

(* EVERY phrase of two or more terms: the chain on the two versions reports the same count for every
   selected document (whichever strategy each run takes) *)
Theorem phrase_local_lists ph : (2 <= length ph)%nat ->
  exists ra rb, compute_phrase_freqs (map F ph) = AOk ra /\ compute_phrase_freqs (map F' ph) = AOk rb /\
    acc_ok ra /\ acc_ok rb /\
    (forall k, In k (map fst ra) -> exists t w, In w (F t) /\ key w = k) /\
    (forall k, In k (map fst rb) -> exists t w, In w (F' t) /\ key w = k) /\
    forall d, Qd d = true -> look0 d ra = look0 d rb.
Proof.
  intro Hlen.
  assert (Hca : Forall canonical (map F ph)) by (apply Forall_map, Forall_forall; intros t _; apply HF).
  assert (Hcb : Forall canonical (map F' ph)) by (apply Forall_map, Forall_forall; intros t _; apply HF').
  destruct (compute_phrase_freqs_bounds (map F ph)) as (ra & Ea & Hoka & Hka & Hba);
    [rewrite map_length; exact Hlen|exact Hca|].
  destruct (compute_phrase_freqs_bounds (map F' ph)) as (rb & Eb & Hokb & Hkb & Hbb);
    [rewrite map_length; exact Hlen|exact Hcb|].
  exists ra, rb. split; [exact Ea|]. split; [exact Eb|]. split; [exact Hoka|]. split; [exact Hokb|].
  split; [|split].
  - intros k Hk. destruct (Hka k Hk) as (P & w & HP & Hw & Ek). apply in_map_iff in HP.
    destruct HP as (t & <- & _). exists t, w. tauto.
  - intros k Hk. destruct (Hkb k Hk) as (P & w & HP & Hw & Ek). apply in_map_iff in HP.
    destruct HP as (t & <- & _). exists t, w. tauto.
  - intros d HQ.
    assert (Hne : forall G : N -> list N, map G ph <> []) by (intros G E; destruct ph; [cbn in Hlen; lia|discriminate]).
    pose proof (phrase_matches_ext d _ _ (dposns_FF' ph d HQ)) as Epm.
    destruct (is_const ph) eqn:C.
    + (* one term repeated: both runs go left to right *)
      pose proof (is_const_repeat ph C) as Eph. set (a := hd 0 ph) in *.
      destruct (length ph) as [|[|m]] eqn:El; try lia.
      rewrite Eph, !map_repeat in Ea, Eb, Epm. cbn [repeat] in Ea, Eb, Epm.
      destruct (compute_const (F a) m (HF a)) as (ra' & Ea' & _ & _ & Ha).
      destruct (compute_const (F' a) m (HF' a)) as (rb' & Eb' & _ & _ & Hb).
      rewrite Ea in Ea'. inversion Ea'; subst ra'. rewrite Eb in Eb'. inversion Eb'; subst rb'.
      rewrite Ha, Hb, Epm. f_equal; [|cbn [map]; rewrite ?map_repeat; reflexivity].
      symmetry. apply S_count_local; [apply HF'|apply HF|]. apply Hsame. exact HQ.
    + rewrite (exact_nonconst ph (map F ph) ra d (doc d) Hca (Hne F) Hba C (genuine_F ph d)).
      rewrite (exact_nonconst ph (map F' ph) rb d (doc d) Hcb (Hne F') Hbb C (genuine_F' ph d HQ)).
      rewrite Epm. reflexivity.
Qed.
End Local.

(* ================= 5. scatter and gather ================= *)
Definition pipe (encs : api (list (list N))) (maxd : N) (rows : list N) : api (list N) :=
  ado enc <- encs;
  ado pf <- compute_phrase_freqs enc;
  ado dense <- lift (store_many (repeat 0 (N.to_nat (maxd + 1))) pf);
  AOk (gather 0 dense rows).

Lemma pipe_eq e1 e2 r1 r2 maxd rows :
  compute_phrase_freqs e1 = AOk r1 -> compute_phrase_freqs e2 = AOk r2 -> acc_ok r1 -> acc_ok r2 ->
  (forall k, In k (map fst r1) -> k <= maxd) -> (forall k, In k (map fst r2) -> k <= maxd) ->
  Forall (fun r => r <= maxd) rows -> (forall r, In r rows -> look0 r r1 = look0 r r2) ->
  pipe (AOk e1) maxd rows = pipe (AOk e2) maxd rows.
Proof.
  intros E1 E2 [S1 _] [S2 _] K1 K2 Hrows Heq. unfold pipe. cbn [abind]. rewrite E1, E2. cbn [abind].
  assert (B : forall r, (forall k, In k (map fst r) -> k <= maxd) ->
              Forall (fun iv : N * N => fst iv < N.of_nat (N.to_nat (maxd + 1))) r).
  { intros r K. apply Forall_forall. intros iv Hiv. specialize (K (fst iv) (in_map fst _ _ Hiv)). lia. }
  destruct (store_zeros r1 (N.to_nat (maxd + 1)) (ss_lt_nodup' _ S1) (B r1 K1)) as (d1 & Es1 & L1 & N1).
  destruct (store_zeros r2 (N.to_nat (maxd + 1)) (ss_lt_nodup' _ S2) (B r2 K2)) as (d2 & Es2 & L2 & N2).
  rewrite Es1, Es2. cbn [lift abind]. f_equal. unfold gather. apply map_ext_in. intros r Hr.
  rewrite Forall_forall in Hrows. specialize (Hrows r Hr).
  rewrite N1, N2 by lia. rewrite N2Nat.id. apply Heq. exact Hr.
Qed.

(* ================= 6. reading the postings, with a position range ================= *)
Definition ranged (lo hi : option N) (w : list N) : api (list N) :=
  match lo, hi with None, None => AOk w | _, _ => api_of_range (slice_range_w w lo hi) end.
Definition rpred (lo hi : option N) : N -> bool :=
  match lo, hi with None, None => fun _ => true | _, _ => fwb (bq (lo0 lo / 18) (hi0 hi / 18)) end.
Definition Rf (lo hi : option N) (ws : list N) : list N := filter (rpred lo hi) ws.

Lemma ranged_cases lo hi :
  (forall ws, ranged lo hi ws = AOk (Rf lo hi ws)) \/ (forall ws, ranged lo hi ws = AExc ValueError).
Proof.
  destruct (aligned lo hi) eqn:Al.
  - left. intro ws. unfold ranged, Rf, rpred.
    destruct lo as [l|], hi as [h|]; try (rewrite slice_range_w_aligned by (congruence || exact Al); reflexivity).
    rewrite Phrase_Proofs2.filter_true. reflexivity.
  - right. intro ws. unfold ranged.
    destruct lo as [l|], hi as [h|]; try (rewrite slice_range_w_unaligned by exact Al; reflexivity).
    discriminate Al.
Qed.

Lemma get_all_enc_unfold h t rest lo hi :
  get_all_enc h (t :: rest) lo hi =
  (ado w <- get_enc h t; ado s <- ranged lo hi w; ado ws <- get_all_enc h rest lo hi; AOk (s :: ws)).
Proof. reflexivity. Qed.

Section Read.
Variables (C : list N) (h : handle) (E : N -> list N) (lo hi : option N).
Hypothesis Hin : forall t, In t C -> get_enc h t = AOk (E t).
Hypothesis Hout : forall t, ~ In t C -> get_enc h t = AExc KeyError.

Lemma gae_ok : (forall ws, ranged lo hi ws = AOk (Rf lo hi ws)) ->
  forall ts, (forall t, In t ts -> In t C) -> get_all_enc h ts lo hi = AOk (map (fun t => Rf lo hi (E t)) ts).
Proof.
  intros Hr. induction ts as [|t r IH]; intro H; [reflexivity|].
  rewrite get_all_enc_unfold, Hin by (apply H; now left). cbn [abind]. rewrite Hr. cbn [abind].
  rewrite IH by (intros; apply H; now right). reflexivity.
Qed.

Lemma gae_absent : (forall ws, ranged lo hi ws = AOk (Rf lo hi ws)) ->
  forall ts, (exists t, In t ts /\ ~ In t C) -> get_all_enc h ts lo hi = AExc KeyError.
Proof.
  intros Hr. induction ts as [|t r IH]; intros (t0 & H0 & Hn0); [destruct H0|].
  rewrite get_all_enc_unfold. destruct (in_dec N.eq_dec t C) as [Hi|Hn].
  - rewrite (Hin t Hi). cbn [abind]. rewrite Hr. cbn [abind]. rewrite IH; [reflexivity|].
    exists t0. split; [|exact Hn0]. destruct H0 as [<-|H0]; [contradiction|exact H0].
  - rewrite (Hout t Hn). reflexivity.
Qed.

Lemma gae_bad : (forall ws, ranged lo hi ws = AExc ValueError) ->
  forall t r, get_all_enc h (t :: r) lo hi = if in_dec N.eq_dec t C then AExc ValueError else AExc KeyError.
Proof.
  intros Hr t r. rewrite get_all_enc_unfold. destruct (in_dec N.eq_dec t C) as [Hi|Hn].
  - rewrite (Hin t Hi). cbn [abind]. rewrite Hr. reflexivity.
  - rewrite (Hout t Hn). reflexivity.
Qed.
End Read.

(* ================= 7. the postings of a corpus, whole and restricted to a row set ================= *)
Section Corpus.
Variable docs : list (list N).
Hypothesis Hwf : wf_docs docs.
Variables (lo hi : option N).

Definition encQ (Q : N -> bool) (t : N) : list N := Rf lo hi (encode_spec (fpairs docs Q t)).
Definition docN (d : N) : list N := nth (N.to_nat d) docs [].

Lemma encQ_canonical Q t : canonical (encQ Q t).
Proof.
  unfold encQ, Rf. apply canonical_filter. destruct (fpairs_good docs Hwf Q t) as (S1 & B1 & M1 & L1).
  apply encode_spec_canonical; assumption.
Qed.

Lemma key_of_key w : key_of w = key w.
Proof. reflexivity. Qed.

Lemma doc_words_enc Q t d : Q d = true ->
  doc_words d (encode_spec (fpairs docs Q t)) = encode_spec (filter (fun kp => fst kp =? d) (tp_from 0 docs t)).
Proof.
  intro HQ. destruct (fpairs_wf docs Hwf Q t) as [S B]. unfold doc_words.
  change (filter (fun w => key w =? d) (encode_spec (fpairs docs Q t)))
    with (filter (fw (fun k => k =? d)) (encode_spec (fpairs docs Q t))).
  rewrite (filter_encode_spec (fun k => k =? d) _ S B). f_equal. unfold fpairs. rewrite filter_filter'.
  apply filter_ext. intro kp. unfold fk, keyf. destruct (N.eqb_spec (fst kp) d) as [->|]; [rewrite HQ|]; reflexivity.
Qed.

Lemma filter_comm {X} (f g : X -> bool) l : filter f (filter g l) = filter g (filter f l).
Proof. rewrite !filter_filter'. apply filter_ext. intro x. apply andb_comm. Qed.

Lemma doc_words_encQ Q Q' t d : Q d = true -> Q' d = true -> doc_words d (encQ Q' t) = doc_words d (encQ Q t).
Proof.
  intros HQ HQ'. unfold encQ, Rf, doc_words. rewrite !(filter_comm _ (rpred lo hi)).
  fold (doc_words d (encode_spec (fpairs docs Q' t))).
  fold (doc_words d (encode_spec (fpairs docs Q t))). rewrite !doc_words_enc by assumption. reflexivity.
Qed.

Lemma encQ_genuine Q t d p : has (encQ Q t) d p -> nth_error (docN d) (N.to_nat p) = Some t.
Proof.
  intro H. unfold encQ, Rf in H. apply has_filter in H. destruct (fpairs_wf docs Hwf Q t) as [S B].
  apply (encode_spec_has _ S B) in H. apply fpairs_in in H. destruct H as [H _].
  assert (Hp : In p (map snd (filter (fun kp => fst kp =? d) (tp_from 0 docs t)))).
  { apply in_map_iff. exists (d, p). split; [reflexivity|]. apply filter_In. split; [exact H|apply N.eqb_refl]. }
  rewrite tp_filter in Hp. destruct (N.ltb_spec d 0); [lia|]. rewrite N.sub_0_r, offsets_from_eq in Hp.
  apply In_offsets_from in Hp. destruct Hp as [_ Hp]. rewrite N.sub_0_r in Hp. exact Hp.
Qed.

Lemma encQ_key Q t w : In w (encQ Q t) -> key w < N.of_nat (length docs).
Proof.
  intro H. unfold encQ, Rf in H. apply filter_In in H. destruct H as [H _].
  destruct (fpairs_wf docs Hwf Q t) as [S B]. destruct (encode_word_pair _ w S B H) as (p & Hin).
  apply fpairs_in in Hin. destruct Hin as [Hin _].
  pose proof (tp_keys t docs 0) as TK. rewrite Forall_forall in TK. specialize (TK _ Hin). cbn [fst] in TK. lia.
Qed.
End Corpus.

(* ================= 8. H2 for every phrase and every position range ================= *)
Definition any_phrase (ts : list N) (lo hi : option N) (rows : list N) : Prop := True.
Definition rows_within (docs : list (list N)) (rows : list N) : Prop :=
  Forall (fun r => r < N.of_nat (length docs)) rows.

Theorem phrase_local_holds_wide : forall docs,
  phrase_local_on (good_posts_of docs) (rows_within docs) any_phrase.
Proof.
  intros docs base maxd0 ts lo hi rows (bs & ix & Hwf & E & -> & ->) Hlen Hrows _.
  unfold rows_within in Hrows.
  pose proof (index_ok_of docs bs ix Hwf E) as Hok. pose proof Hok as (Hp & Ha & Hterms & _).
  set (maxd := N.of_nat (length docs) - 1).
  set (ids := np_unique rows).
  assert (Hids : Sorted N.lt ids) by apply np_unique_sorted.
  assert (Hidb : Forall (fun r => r < N.of_nat (length docs)) ids) by (apply np_unique_forall; exact Hrows).
  set (Q1 := fun _ : N => true). set (Q2 := fun k => mem_n k ids && Q1 k).
  set (h1 := HBase (ix_posts ix)). set (h2 := HFiltered (ix_posts ix) ids).
  assert (Hin1 : forall t, In t (concat docs) -> get_enc h1 t = AOk (encode_spec (fpairs docs Q1 t))).
  { intros t Ht. unfold h1. cbn [get_enc]. unfold lookup_posts. rewrite (root_sel docs ix Hok t Ht). reflexivity. }
  assert (Hin2 : forall t, In t (concat docs) -> get_enc h2 t = AOk (encode_spec (fpairs docs Q2 t))).
  { intros t Ht. unfold h2, Q2, Q1. cbn [get_enc]. unfold lookup_posts. rewrite (root_sel docs ix Hok t Ht). cbn [abind].
    rewrite (slice_fpairs docs Hwf (fun _ => true) t ids Hids Hidb). reflexivity. }
  assert (Hout1 : forall t, ~ In t (concat docs) -> get_enc h1 t = AExc KeyError).
  { intros t Ht. unfold h1. cbn [get_enc]. unfold lookup_posts. rewrite (Ha t Ht). reflexivity. }
  assert (Hout2 : forall t, ~ In t (concat docs) -> get_enc h2 t = AExc KeyError).
  { intros t Ht. unfold h2. cbn [get_enc]. unfold lookup_posts. rewrite (Ha t Ht). reflexivity. }
  fold h1 h2 ids.
  change (pipe (get_all_enc h1 ts lo hi) maxd rows = pipe (get_all_enc h2 ts lo hi) maxd rows).
  destruct (ranged_cases lo hi) as [Hr|Hr].
  - destruct (forallb (fun t => if in_dec N.eq_dec t (concat docs) then true else false) ts) eqn:K.
    + assert (Hall : forall t, In t ts -> In t (concat docs)).
      { intros t Hin. rewrite forallb_forall in K. specialize (K t Hin).
        destruct (in_dec N.eq_dec t (concat docs)); [assumption|discriminate]. }
      rewrite (gae_ok _ h1 _ lo hi Hin1 Hr ts Hall), (gae_ok _ h2 _ lo hi Hin2 Hr ts Hall).
      fold (encQ docs lo hi Q1). fold (encQ docs lo hi Q2).
      assert (HQ2 : forall r, In r rows -> Q2 r = true).
      { intros r Hr'. unfold Q2, Q1, ids. rewrite np_unique_mem, (proj2 (mem_n_in r rows) Hr'). reflexivity. }
      destruct (phrase_local_lists (encQ docs lo hi Q1) (encQ docs lo hi Q2) Q2 (docN docs)) with (ph := ts)
        as (ra & rb & Ea & Eb & Oa & Ob & Ka & Kb & Heq).
      * intro t. apply encQ_canonical. exact Hwf.
      * intro t. apply encQ_canonical. exact Hwf.
      * intros t d Hd. apply doc_words_encQ; [exact Hwf|reflexivity|exact Hd].
      * intros t d p. apply encQ_genuine. exact Hwf.
      * exact Hlen.
      * apply (pipe_eq _ _ ra rb); try assumption.
        -- intros k Hk. destruct (Ka k Hk) as (t & w & Hw & <-).
           pose proof (encQ_key docs Hwf lo hi Q1 t w Hw). unfold maxd. lia.
        -- intros k Hk. destruct (Kb k Hk) as (t & w & Hw & <-).
           pose proof (encQ_key docs Hwf lo hi Q2 t w Hw). unfold maxd. lia.
        -- eapply Forall_impl; [|exact Hrows]. cbn beta. intros r Hr'. unfold maxd. lia.
        -- intros r Hr'. apply Heq. apply HQ2. exact Hr'.
    + destruct (forallb_false _ _ K) as (t & Hin & Hk).
      assert (Hnot : ~ In t (concat docs)) by (destruct (in_dec N.eq_dec t (concat docs)); [discriminate|assumption]).
      rewrite (gae_absent _ h1 _ lo hi Hin1 Hout1 Hr ts), (gae_absent _ h2 _ lo hi Hin2 Hout2 Hr ts);
        [reflexivity|exists t; split; assumption|exists t; split; assumption].
  - destruct ts as [|t r]; [cbn [length] in Hlen; lia|].
    rewrite (gae_bad _ h1 _ lo hi Hin1 Hout1 Hr t r), (gae_bad _ h2 _ lo hi Hin2 Hout2 Hr t r). reflexivity.
Qed.

(* ================= 9. one filter PER TERM (the mixed-handle case), phrases with two different terms ================= *)
Section MixedWide.
Variable docs : list (list N).
Hypothesis Hwf : wf_docs docs.

Lemma offsets_genuine t doc p : In p (offsets t doc) -> nth_error doc (N.to_nat p) = Some t.
Proof. unfold offsets. intro H. apply In_offsets_from in H. destruct H as [_ H]. rewrite N.sub_0_r in H. exact H. Qed.

(* chain + scatter when term i is restricted by its own filter Q_i, every Q_i containing the rows, for a phrase
   that is not one term repeated: the entry of every row r <= maxd is EXACTLY the number of occurrences *)
Lemma phrase_pipeline_nonconst maxd ph pss (rows : list N) :
  (2 <= length ph)%nat -> is_const ph = false ->
  (forall k, k < N.of_nat (length docs) -> k <= maxd) ->
  Forall2 (fun t ps => exists Q, ps = fpairs docs Q t /\ forall r, In r rows -> Q r = true) ph pss ->
  exists pf dense,
    compute_phrase_freqs (map encode_spec pss) = AOk pf /\
    store_many (repeat 0 (N.to_nat (maxd + 1))) pf = Done dense /\
    length dense = N.to_nat (maxd + 1) /\
    forall r, In r rows -> r <= maxd -> nth (N.to_nat r) dense 0 = occ ph (nth (N.to_nat r) docs []).
Proof.
  intros Hlen Hnc Hmax HF.
  assert (Hg : Forall good_term pss).
  { clear - HF Hwf. induction HF as [|t ps ph pss Hps _ IH]; constructor; [|exact IH].
    destruct Hps as (Q & -> & _). apply fpairs_good. exact Hwf. }
  assert (Hlen' : (2 <= length (map encode_spec pss))%nat).
  { rewrite map_length. clear - HF Hlen. induction HF; cbn [length] in *; [lia|].
    destruct l; inversion HF; subst; cbn [length] in *; lia. }
  assert (Hcan : Forall canonical (map encode_spec pss)).
  { apply Forall_map. eapply Forall_impl; [|exact Hg]. intros ps (S1 & B1 & M1 & L1).
    apply encode_spec_canonical; assumption. }
  destruct (compute_phrase_freqs_bounds (map encode_spec pss) Hlen' Hcan) as (res & E & [Hs Hf28] & Hkeys & Hb).
  assert (Hkb : Forall (fun iv => fst iv < N.of_nat (N.to_nat (maxd + 1))) res).
  { apply Forall_forall. intros iv Hiv.
    destruct (Hkeys (fst iv) (in_map fst _ _ Hiv)) as (P & w & HP & Hw & Ek).
    apply in_map_iff in HP. destruct HP as (ps & <- & Hps).
    assert (Hq : exists t Q, ps = fpairs docs Q t).
    { clear - HF Hps. induction HF as [|t p ph pss Hp _ IH]; [destruct Hps|].
      destruct Hps as [<-|Hps]; [destruct Hp as (Q & -> & _); eauto|apply IH; exact Hps]. }
    destruct Hq as (t & Q & ->).
    destruct (fpairs_wf docs Hwf Q t) as [S B].
    destruct (encode_word_pair _ w S B Hw) as (p & Hin).
    apply fpairs_in in Hin. destruct Hin as [Hin _].
    pose proof (tp_keys t docs 0) as TK. rewrite Forall_forall in TK. specialize (TK _ Hin).
    cbn [fst] in TK. rewrite Ek in *.
    assert (fst iv <= maxd) by (apply Hmax; lia). lia. }
  destruct (store_zeros res (N.to_nat (maxd + 1)) (ss_lt_nodup' _ Hs) Hkb) as (d' & Es & Ld & Hn).
  exists res, d'. split; [exact E|]. split; [exact Es|]. split; [exact Ld|].
  intros r Hr Hle. rewrite Hn by lia. rewrite N2Nat.id. fold (look0 r res).
  set (doc := nth (N.to_nat r) docs []).
  assert (HF2 : Forall2 (fun t P => dposns P r = offsets t doc) ph (map encode_spec pss)).
  { clear - HF Hr Hwf. induction HF as [|t ps ph pss Hps _ IH]; cbn [map]; constructor; [|exact IH].
    destruct Hps as (Q & -> & HQ). destruct (fpairs_wf docs Hwf Q t) as [S B].
    rewrite encode_spec_dposns by assumption. apply fpairs_doc; try exact Hwf. apply HQ. exact Hr. }
  assert (Hgen : genuine ph (map encode_spec pss) r doc).
  { clear - HF2. induction HF2 as [|t P ph Ps E _ IH]; constructor; [|exact IH].
    intros p Hp. rewrite E in Hp. apply offsets_genuine. exact Hp. }
  assert (Hne : map encode_spec pss <> []) by (intro E0; rewrite E0 in Hlen'; cbn in Hlen'; lia).
  rewrite (exact_nonconst ph _ res r doc Hcan Hne Hb Hnc Hgen).
  apply phrase_matches_occ; [|exact HF2]. intro; subst ph; discriminate Hnc.
Qed.
End MixedWide.

(* bonus: on the index of a corpus, a phrase with at least two different terms ('a a b', 'b a a a', ...)
   gets EXACTLY the number of contiguous occurrences, like the phrases without immediate repetition *)
Theorem phrase_exact_nonconst_on_index : forall docs bs ph, wf_docs docs -> (2 <= length ph)%nat -> is_const ph = false ->
  exists ix, index false bs docs = AOk ix /\ phrase_freqs ix ph = AOk (phrase_spec docs ph).
Proof.
  intros docs bs ph Hwf Hlen Hnc. destruct (index_any_ok docs bs Hwf) as (ix & E & Hok).
  exists ix. split; [exact E|].
  destruct (forallb (known ix) ph) eqn:K.
  - pose proof Hok as (Hp & Ha & Ht & Hl).
    assert (HL : length (ix_lens ix) = length docs) by (rewrite Hl; apply map_length).
    assert (Hall : forall t, In t ph -> In t (concat docs)).
    { intros t Hin. rewrite forallb_forall in K. apply (known_iff docs ix t Ht). apply K. exact Hin. }
    unfold phrase_freqs. rewrite K, HL. cbn [negb].
    destruct (Nat.ltb_spec (length ph) 2) as [Hlt|_]; [lia|].
    rewrite (get_all_posts_ok docs ix Hok ph Hall). cbn [abind].
    set (rows := map N.of_nat (seq 0 (length docs))).
    assert (Hrows : forall k, (k < length docs)%nat -> In (N.of_nat k) rows).
    { intros k Hk. unfold rows. apply in_map. apply in_seq. lia. }
    destruct (phrase_pipeline_nonconst docs Hwf (N.of_nat (length docs) - 1) ph (map (term_pairs docs) ph) rows Hlen Hnc)
      as (pf & dense & Ec & Es & Ld & Hv).
    + intros k Hk. lia.
    + clear. induction ph as [|t r IH]; cbn [map]; constructor; [|exact IH].
      exists (fun _ => true). split; [rewrite term_pairs_tp, fpairs_true; reflexivity|reflexivity].
    + rewrite Ec. cbn [abind].
      replace (N.to_nat (N.of_nat (length docs) - 1 + 1)) with (length docs) in Es, Ld.
      2:{ destruct docs as [|d0 r0]; [|cbn [length]; lia]. exfalso.
          (* an empty corpus has no term, so [Hall] contradicts 2 <= length ph *)
          destruct ph as [|t r]; [cbn in Hlen; lia|]. exact (Hall t (or_introl eq_refl)). }
      rewrite Es. cbn [lift]. f_equal. unfold phrase_spec.
      apply (nth_ext _ _ 0 (occ ph [])); [rewrite map_length; exact Ld|].
      intros k Hk. rewrite Ld in Hk. rewrite (map_nth (occ ph)).
      rewrite <- (Nat2N.id k) at 1. rewrite Hv; [rewrite Nat2N.id; reflexivity|apply Hrows; exact Hk|lia].
  - destruct (forallb_false _ _ K) as (t & Hin & Hk).
    assert (Hnot : ~ In t (concat docs)).
    { intro Hc. destruct Hok as (_ & _ & Ht & _). rewrite (known_true docs ix t Ht Hc) in Hk. discriminate. }
    rewrite (phrase_freqs_absent docs ix ph t Hok Hin Hnot). f_equal. unfold phrase_spec. symmetry.
    apply (occ_absent_all t); assumption.
Qed.

(* ================= 11. one term repeated, read through DIFFERENT filters (mixed handles) ================= *)
(* P is the posting list A restricted to a set of whole documents *)
Definition present (d : N) (P : list N) : Prop := exists w, In w P /\ key w = d.
Definition sub_of (A P : list N) : Prop :=
  canonical P /\ (forall w, In w P -> In w A) /\ (forall d, present d P -> doc_words d P = doc_words d A).

Lemma sub_of_refl A : canonical A -> sub_of A A.
Proof. intro H. split; [exact H|]. split; [auto|reflexivity]. Qed.

Lemma sub_of_kfilter A Qd : canonical A -> sub_of A (kfilter Qd A).
Proof.
  intro H. split; [apply canonical_filter; exact H|]. split.
  - intros w Hw. apply filter_In in Hw. tauto.
  - intros d (w & Hw & Hk). apply filter_In in Hw. destruct Hw as [_ HQ]. rewrite Hk in HQ.
    unfold doc_words. apply kfilter_doc. exact HQ.
Qed.

Lemma sub_word A P d w : sub_of A P -> present d P -> In w A -> key w = d -> In w P.
Proof.
  intros (_ & _ & Hd) Hp Hw Hk. specialize (Hd d Hp).
  assert (H : In w (doc_words d A)) by (apply filter_In; split; [exact Hw|apply N.eqb_eq; exact Hk]).
  rewrite <- Hd in H. apply filter_In in H. tauto.
Qed.

Lemma sub_has A P d p : sub_of A P -> has P d p -> has A d p.
Proof. intros (_ & Hin & _) (w & Hw & H). exists w. split; [apply Hin; exact Hw|exact H]. Qed.

Lemma has_present P d p : has P d p -> present d P.
Proof. intros (w & Hw & Hk & _). exists w. tauto. Qed.

Lemma exists_min (l : list N) : l <> [] -> exists m, In m l /\ forall x, In x l -> m <= x.
Proof.
  induction l as [|a l IH]; [congruence|]. intros _. destruct l as [|b l'].
  - exists a. split; [now left|]. intros x [<-|[]]. lia.
  - destruct (IH ltac:(discriminate)) as (m & Hm & Hle). destruct (N.le_ge_cases a m).
    + exists a. split; [now left|]. intros x [<-|Hx]; [lia|]. specialize (Hle x Hx). lia.
    + exists m. split; [now right|]. intros x [<-|Hx]; [lia|]. exact (Hle x Hx).
Qed.
Lemma exists_max (l : list N) : l <> [] -> exists m, In m l /\ forall x, In x l -> x <= m.
Proof.
  induction l as [|a l IH]; [congruence|]. intros _. destruct l as [|b l'].
  - exists a. split; [now left|]. intros x [<-|[]]. lia.
  - destruct (IH ltac:(discriminate)) as (m & Hm & Hle). destruct (N.le_ge_cases a m).
    + exists m. split; [now right|]. intros x [<-|Hx]; [lia|]. exact (Hle x Hx).
    + exists a. split; [now left|]. intros x [<-|Hx]; [lia|]. specialize (Hle x Hx). lia.
Qed.

Lemma word_position P w : wf_post P -> In w P -> lsb w <> 0 -> exists q, has P (key w) q.
Proof.
  intros HP Hw Hnz. pose proof (N.bit_log2 (lsb w) Hnz) as Hbit. rewrite lsb_testbit in Hbit.
  apply andb_true_iff in Hbit. destruct Hbit as [Hi Ht]. apply N.ltb_lt in Hi.
  exists (18 * bucket w + N.log2 (lsb w)). exists w. split; [exact Hw|]. split; [reflexivity|]. split; [lia|].
  replace ((18 * bucket w + N.log2 (lsb w)) mod 18) with (N.log2 (lsb w)) by lia. exact Ht.
Qed.

Lemma hdr_key a b : a < 18446744073709551616 -> b < 18446744073709551616 -> hdr a = hdr b -> key a = key b.
Proof. intros Ha Hb E. apply (hdr_eq_iff a b Ha Hb) in E. tauto. Qed.

Section Sub.
Variable A : list N.
Hypothesis HcA : canonical A.

(* ---- left to right: the same-term branch never fires on a word in the middle of the chain ---- *)
Lemma mid_same_empty_sub P P' L : sub_of A P -> sub_of A P' -> wf_post L ->
  (forall d p, has L d p -> has A d p) ->
  is_same (ipairs (step_next CR L P) P') = true -> ipairs (step_next CR L P) P' = [].
Proof.
  intros HsP HsP' HL Hsub Hsame.
  pose proof HsP as ((HP & _ & _) & _ & _). pose proof HsP' as ((HP' & HnzP' & _) & _ & _).
  set (lhs := step_next CR L P) in *.
  assert (Hwl : wf_post lhs) by (apply step_next_wf; assumption).
  destruct (ipairs lhs P') as [|[x0 y0] rest] eqn:Eip; [reflexivity|]. exfalso.
  assert (Hp0 : In (x0, y0) (ipairs lhs P')) by (rewrite Eip; now left).
  rewrite <- Eip in Hsame.
  pose proof (is_same_true _ Hsame _ Hp0) as E0. cbn [fst snd] in E0. subst y0.
  apply (In_ipairs lhs P' x0 x0 HP') in Hp0. destruct Hp0 as (Hx0 & Hx0' & _).
  set (d := key x0).
  assert (PrP' : present d P') by (exists x0; split; [exact Hx0'|reflexivity]).
  destruct (wf_in _ _ Hwl Hx0) as [Hx064 _].
  assert (PrP : present d P).
  { destruct (step_next_side CR L P x0 HL HP Hx0) as (w & Hw & Eh). cbn [side] in Hw.
    destruct (wf_in _ _ HP Hw) as [Hw64 _]. exists w. split; [exact Hw|]. symmetry. apply hdr_key; assumption. }
  assert (Hne : dposns lhs d <> []).
  { rewrite Forall_forall in HnzP'. destruct (word_position lhs x0 Hwl Hx0 (HnzP' x0 Hx0')) as (q & Hq).
    apply In_dposns in Hq. fold d in Hq. intro E. rewrite E in Hq. destruct Hq. }
  destruct (exists_min _ Hne) as (q0 & Hq0in & Hmin).
  assert (Hq0 : has lhs d q0) by (apply In_dposns; exact Hq0in).
  pose proof Hq0 as Hq0'. unfold lhs in Hq0'. apply (step_has CR L P HL HP) in Hq0'.
  destruct Hq0' as (p & Ep & HpL & HqP). cbn [off] in Ep.
  pose proof (Hsub d p HpL) as HpA.
  assert (Hplhs : has lhs d p).
  { destruct HpA as (w & HwA & Kw & Bw & Tw).
    pose proof (sub_word A P d w HsP PrP HwA Kw) as HwP.
    pose proof (sub_word A P' d w HsP' PrP' HwA Kw) as HwP'.
    destruct (wf_in _ _ HP HwP) as [Hw64 Hwb].
    assert (Hz : exists z, In z lhs /\ hdr z = hdr w).
    { destruct (N.eq_dec (p mod 18) 17) as [E17|N17].
      - destruct HpL as (w' & Hw'L & Kw' & Bw' & Tw'). destruct (wf_in _ _ HL Hw'L) as [Hw'64 _].
        assert (Hh : hdr w = hdr w') by (apply (hdr_eq_iff w w' Hw64 Hw'64); split; congruence).
        assert (Hp : In (w', w) (ipairs L P)) by (apply In_ipairs; [exact HP|]; repeat split; auto).
        set (wi := contI CR (w', w)).
        assert (Hwi : In wi (NI CR L P)) by (unfold NI; apply in_map; exact Hp).
        assert (Hhi : hdr wi = hdr w') by (apply contI_hdr; auto).
        exists (if memh wi (NA CR L P) then N.lor wi (cbit CR) else wi). split.
        + apply In_step_next. left. exists wi. split; [exact Hwi|reflexivity].
        + destruct (memh wi (NA CR L P)); [rewrite hdr_lor_cbit|]; congruence.
      - destruct Hq0 as (z & Hz & Kz & Bz & Tz). exists z. split; [exact Hz|].
        destruct (wf_in _ _ Hwl Hz) as [Hz64 _]. apply (hdr_eq_iff z w Hz64 Hw64). split; [congruence|].
        rewrite Bz, Bw, Ep. assert (p mod 18 < 18) by (apply N.mod_lt; lia).
        pose proof (N.div_mod p 18 ltac:(lia)). pose proof (N.div_mod (p + 1) 18 ltac:(lia)).
        assert ((p + 1) mod 18 = p mod 18 + 1) by lia. lia. }
    destruct Hz as (z & Hz & Ehz).
    assert (Hpz : In (z, w) (ipairs lhs P')) by (apply In_ipairs; [exact HP'|]; repeat split; auto).
    pose proof (is_same_true _ Hsame _ Hpz) as Ez. cbn [fst snd] in Ez. subst z.
    exists w. repeat split; assumption. }
  apply In_dposns in Hplhs. specialize (Hmin p Hplhs). lia.
Qed.

(* ---- right to left: the mirror image (greatest position of the continuation) ---- *)
Lemma mid_same_empty_subL P P0 R : sub_of A P -> sub_of A P0 -> wf_post R ->
  (forall d p, has R d p -> has A d p) ->
  is_same (ipairs P (step_next CL P0 R)) = true -> ipairs P (step_next CL P0 R) = [].
Proof.
  intros HsP HsP0 HR Hsub Hsame.
  pose proof HsP as ((HP & HnzP & _) & _ & _). pose proof HsP0 as ((HP0 & _ & _) & _ & _).
  set (rhs := step_next CL P0 R) in *.
  assert (Hwr : wf_post rhs) by (apply step_next_wf; assumption).
  destruct (ipairs P rhs) as [|[x0 y0] rest] eqn:Eip; [reflexivity|]. exfalso.
  assert (Hp0 : In (x0, y0) (ipairs P rhs)) by (rewrite Eip; now left).
  rewrite <- Eip in Hsame.
  pose proof (is_same_true _ Hsame _ Hp0) as E0. cbn [fst snd] in E0. subst y0.
  apply (In_ipairs P rhs x0 x0 Hwr) in Hp0. destruct Hp0 as (Hx0 & Hx0' & _).
  set (d := key x0).
  assert (PrP : present d P) by (exists x0; split; [exact Hx0|reflexivity]).
  assert (Hne : dposns rhs d <> []).
  { rewrite Forall_forall in HnzP. destruct (word_position rhs x0 Hwr Hx0' (HnzP x0 Hx0)) as (q & Hq).
    apply In_dposns in Hq. fold d in Hq. intro E. rewrite E in Hq. destruct Hq. }
  destruct (exists_max _ Hne) as (q0 & Hq0in & Hmax).
  assert (Hq0 : has rhs d q0) by (apply In_dposns; exact Hq0in).
  pose proof Hq0 as Hq0'. unfold rhs in Hq0'. apply (step_has CL P0 R HP0 HR) in Hq0'.
  destruct Hq0' as (p & Ep & HpP0 & HqR). cbn [off] in Ep. rewrite N.add_0_r in Ep. subst p.
  pose proof (has_present _ _ _ HpP0) as PrP0.
  pose proof (Hsub d (q0 + 1) HqR) as HqA.
  assert (Hnext : has rhs d (q0 + 1)).
  { destruct HqA as (w & HwA & Kw & Bw & Tw).
    pose proof (sub_word A P d w HsP PrP HwA Kw) as HwP.
    pose proof (sub_word A P0 d w HsP0 PrP0 HwA Kw) as HwP0.
    destruct (wf_in _ _ HP HwP) as [Hw64 Hwb].
    assert (Hz : exists z, In z rhs /\ hdr z = hdr w).
    { destruct (N.eq_dec (q0 mod 18) 17) as [E17|N17].
      - destruct HqR as (r & HrR & Kr & Br & Tr). destruct (wf_in _ _ HR HrR) as [Hr64 _].
        assert (Hh : hdr r = hdr w) by (apply (hdr_eq_iff r w Hr64 Hw64); split; congruence).
        assert (Hp : In (w, r) (ipairs P0 R)) by (apply In_ipairs; [exact HR|]; repeat split; auto).
        set (wi := contI CL (w, r)).
        assert (Hwi : In wi (NI CL P0 R)) by (unfold NI; apply in_map; exact Hp).
        assert (Hhi : hdr wi = hdr w) by (apply contI_hdr; auto).
        exists (if memh wi (NA CL P0 R) then N.lor wi (cbit CL) else wi). split.
        + apply In_step_next. left. exists wi. split; [exact Hwi|reflexivity].
        + destruct (memh wi (NA CL P0 R)); [rewrite hdr_lor_cbit|]; congruence.
      - destruct Hq0 as (z & Hz & Kz & Bz & Tz). exists z. split; [exact Hz|].
        destruct (wf_in _ _ Hwr Hz) as [Hz64 _]. apply (hdr_eq_iff z w Hz64 Hw64). split; [congruence|].
        rewrite Bz, Bw. assert (q0 mod 18 < 18) by (apply N.mod_lt; lia).
        pose proof (N.div_mod q0 18 ltac:(lia)). pose proof (N.div_mod (q0 + 1) 18 ltac:(lia)).
        assert ((q0 + 1) mod 18 = q0 mod 18 + 1) by lia. lia. }
    destruct Hz as (z & Hz & Ehz).
    assert (Hpz : In (w, z) (ipairs P rhs)) by (apply In_ipairs; [exact Hwr|]; repeat split; auto).
    pose proof (is_same_true _ Hsame _ Hpz) as Ez. cbn [fst snd] in Ez. subst z.
    exists w. repeat split; assumption. }
  apply In_dposns in Hnext. specialize (Hmax (q0 + 1) Hnext). lia.
Qed.

(* ---- the first step between two restrictions of A: the same-term count of A, document by document ---- *)
Lemma any_counts_sub P0 P1 d : sub_of A P0 -> sub_of A P1 -> present d P0 -> present d P1 ->
  look0 d (any_counts P0 P1) = S_count A d.
Proof.
  intros Hs0 Hs1 Pr0 Pr1. pose proof HcA as (HA & _ & _).
  pose proof Hs0 as ((H0 & _ & _) & Hin0 & Hd0). pose proof Hs1 as ((H1 & _ & _) & Hin1 & Hd1).
  rewrite (S_count_words A d HA). destruct (any_counts_look0 P0 P1) as [_ H]. rewrite H, nsum_filter_key.
  fold (doc_words d P0). fold (doc_words d A). rewrite (Hd0 d Pr0).
  apply nsum_ext_in. intros x Hx. apply filter_In in Hx. destruct Hx as [HxA Hk]. apply N.eqb_eq in Hk.
  pose proof (sub_word A P1 d x Hs1 Pr1 HxA Hk) as Hx1.
  destruct (wf_in _ _ H1 Hx1) as [Hx64 Hxb]. f_equal.
  - unfold gw. assert (E : partner_i P1 x = Some x).
    { unfold partner_i, partner. apply find_nodup; [apply wf_nodup; exact H1|exact Hx1|reflexivity]. }
    rewrite E. unfold gfun. cbn [fst snd]. rewrite is_same_intro; [reflexivity|].
    intros [a b] Hp. cbn [fst snd]. apply (In_ipairs P0 P1 a b H1) in Hp. destruct Hp as (Ha & Hb & Eh).
    symmetry. apply (hdr_inj_in A); auto.
  - rewrite <- (Hd1 d Pr1). unfold adw, sel_a, partner_a, partner. unfold doc_words.
    rewrite find_filter_imp; [reflexivity|].
    intros y Hy Hp. apply N.eqb_eq in Hp. destruct (wf_in _ _ H1 Hy) as [Hy64 _].
    apply (proj1 (hdr_next_iff x y Hx64 Hy64 Hxb)) in Hp. apply N.eqb_eq. lia.
Qed.

(* ---- the loops ---- *)
Lemma l2r_loop_sub : forall rest L P acc, Forall (sub_of A) rest -> sub_of A P ->
  wf_post L -> N.of_nat (length L) < 2 ^ 62 -> (forall d p, has L d p -> has A d p) -> acc_ok acc ->
  (forall d, look0 d acc <= N.of_nat (length (dposns (step_next CR L P) d))) ->
  exists res, l2r_loop (step_next CR L P) rest (Some acc) = AOk res /\
    forall d, look0 d res =
              N.min (look0 d acc) (N.of_nat (length (l2r_pos (dposns (step_next CR L P) d) rest d))).
Proof.
  induction rest as [|P' more IH]; intros L P acc Hrest HsP HL HlL Hsub Hok Hub.
  - exists acc. split; [reflexivity|]. intro d. cbn [l2r_pos]. specialize (Hub d). lia.
  - inversion Hrest as [|? ? HsP' Hrest']; subst.
    pose proof HsP as ((HP & _ & HlP) & _ & _). pose proof HsP' as ((HP' & _ & HlP') & _ & _).
    set (lhs := step_next CR L P) in *.
    assert (Hwl : wf_post lhs) by (apply step_next_wf; assumption).
    assert (Hll : N.of_nat (length lhs) < 2 ^ 62).
    { pose proof (step_next_length CR L P HL HP) as Hl. cbn [side] in Hl. fold lhs in Hl. rewrite pow62 in *. lia. }
    assert (Hsub' : forall d p, has lhs d p -> has A d p).
    { intros d q Hq. apply (step_has CR L P HL HP) in Hq. destruct Hq as (p & -> & _ & H2).
      apply (sub_has A P); assumption. }
    cbn [l2r_loop]. rewrite (bigram_freqs_any CR lhs P' Hwl HP' Hll HlP'). cbn [abind fst snd].
    destruct (intersect_acc acc (any_counts lhs P') Hok (any_counts_acc_ok lhs P' Hwl HP'))
      as (acc' & E & Hok' & Hincl & Hmin).
    rewrite E. cbn [abind].
    assert (Hord : forall d, look0 d (any_counts lhs P') = N.of_nat (length (matched lhs P' d))).
    { apply any_counts_ordinary; try assumption.
      destruct (is_same (ipairs lhs P')) eqn:S; [right|left; reflexivity].
      apply (mid_same_empty_sub P P' L HsP HsP' HL Hsub). exact S. }
    destruct (IH lhs P' acc' Hrest' HsP' Hwl Hll Hsub' Hok') as (res & Er & Hd).
    + intro d. rewrite Hmin, Hord, step_next_dposns, map_length by assumption. apply N.le_min_r.
    + exists res. split; [exact Er|].
      intro d. rewrite Hd, Hmin, Hord. cbn [l2r_pos]. rewrite <- step_CR_dposns by assumption.
      pose proof (l2r_pos_length_le more (dposns (step_next CR lhs P') d) d) as Hle.
      remember (length (l2r_pos (dposns (step_next CR lhs P') d) more d)) as X eqn:EX. clear EX.
      rewrite (step_next_dposns CR lhs P' d Hwl HP'), map_length in Hle. lia.
Qed.

Lemma r2l_pos_length_le : forall rest M d, Forall wf_post rest -> (length (r2l_pos M rest d) <= length M)%nat.
Proof.
  induction rest as [|P more IH]; intros M d H; [cbn [r2l_pos]; lia|].
  inversion H as [|? ? HP Hm]; subst. cbn [r2l_pos].
  eapply Nat.le_trans; [apply IH; exact Hm|]. apply r2l_shrinks. apply ss_lt_nodup', dposns_sorted. exact HP.
Qed.

Lemma r2l_loop_sub : forall rest R P acc, Forall (sub_of A) rest -> sub_of A P ->
  wf_post R -> N.of_nat (length R) < 2 ^ 62 -> (forall d p, has R d p -> has A d p) -> acc_ok acc ->
  (forall d, look0 d acc <= N.of_nat (length (dposns (step_next CL P R) d))) ->
  exists res, r2l_loop (step_next CL P R) rest (Some acc) = AOk res /\
    forall d, look0 d res =
              N.min (look0 d acc) (N.of_nat (length (r2l_pos (dposns (step_next CL P R) d) rest d))).
Proof.
  induction rest as [|P' more IH]; intros R P acc Hrest HsP HR HlR Hsub Hok Hub.
  - exists acc. split; [reflexivity|]. intro d. cbn [r2l_pos]. specialize (Hub d). lia.
  - inversion Hrest as [|? ? HsP' Hrest']; subst.
    pose proof HsP as ((HP & _ & HlP) & _ & _). pose proof HsP' as ((HP' & _ & HlP') & _ & _).
    set (rhs := step_next CL P R) in *.
    assert (Hwr : wf_post rhs) by (apply step_next_wf; assumption).
    assert (Hlr : N.of_nat (length rhs) < 2 ^ 62).
    { pose proof (step_next_length CL P R HP HR) as Hl. cbn [side] in Hl. fold rhs in Hl. rewrite pow62 in *. lia. }
    assert (Hsub' : forall d p, has rhs d p -> has A d p).
    { intros d q Hq. apply (step_has CL P R HP HR) in Hq. destruct Hq as (p & -> & H1 & _).
      cbn [off]. rewrite N.add_0_r. apply (sub_has A P); assumption. }
    cbn [r2l_loop]. rewrite (bigram_freqs_any CL P' rhs HP' Hwr HlP' Hlr). cbn [abind fst snd].
    destruct (intersect_acc acc (any_counts P' rhs) Hok (any_counts_acc_ok P' rhs HP' Hwr))
      as (acc' & E & Hok' & Hincl & Hmin).
    rewrite E. cbn [abind].
    assert (Hord : forall d, look0 d (any_counts P' rhs) = N.of_nat (length (matched P' rhs d))).
    { apply any_counts_ordinary; try assumption.
      destruct (is_same (ipairs P' rhs)) eqn:S; [right|left; reflexivity].
      apply (mid_same_empty_subL P' P R HsP' HsP HR Hsub). exact S. }
    destruct (IH rhs P' acc' Hrest' HsP' Hwr Hlr Hsub' Hok') as (res & Er & Hd).
    + intro d. rewrite Hmin, Hord, step_next_dposns, map_length by assumption. apply N.le_min_r.
    + exists res. split; [exact Er|].
      intro d. rewrite Hd, Hmin, Hord. cbn [r2l_pos]. rewrite <- step_CL_dposns by assumption.
      assert (Hwm : Forall wf_post more).
      { eapply Forall_impl; [|exact Hrest']. intros Pm ((Hw & _) & _). exact Hw. }
      pose proof (r2l_pos_length_le more (dposns (step_next CL P' rhs) d) d Hwm) as Hle.
      remember (length (r2l_pos (dposns (step_next CL P' rhs) d) more d)) as X eqn:EX. clear EX.
      rewrite (step_next_dposns CL P' rhs d HP' Hwr), map_length in Hle. lia.
Qed.

(* ---- both directions, hence the chooser ---- *)
Theorem phrase_l2r_sub P1 P2 more : Forall (sub_of A) (P1 :: P2 :: more) ->
  exists res, phrase_l2r (P1 :: P2 :: more) = AOk res /\
    forall d, look0 d res = N.min (look0 d (any_counts P1 P2)) (N.of_nat (length (phrase_matches (P1 :: P2 :: more) d))).
Proof.
  intro Hall. inversion Hall as [|? ? Hs1 Hall1]; subst. inversion Hall1 as [|? ? Hs2 Hall2]; subst.
  pose proof Hs1 as ((Hw1 & _ & Hl1) & _ & _). pose proof Hs2 as ((Hw2 & _ & Hl2) & _ & _).
  cbn [phrase_l2r l2r_loop]. rewrite (bigram_freqs_any CR P1 P2 Hw1 Hw2 Hl1 Hl2).
  cbn [abind fst snd intersect_matches].
  destruct (l2r_loop_sub more P1 P2 (any_counts P1 P2)) as (res & Er & Hd); try assumption.
  - intros d p. apply (sub_has A P1). exact Hs1.
  - apply any_counts_acc_ok; assumption.
  - intro d. rewrite step_next_dposns, map_length by assumption. apply any_counts_upper; assumption.
  - exists res. split; [exact Er|]. intro d. rewrite Hd. f_equal. f_equal.
    rewrite step_CR_dposns by assumption.
    change (l2r_pos (map (fun q => q + 1) (filter (fun p => mem_n (p + 1) (dposns P2 d)) (dposns P1 d))) more d)
      with (l2r_pos (dposns P1 d) (P2 :: more) d).
    rewrite l2r_pos_spec, map_length, pm_head. reflexivity.
Qed.

Theorem phrase_r2l_sub Pn Pm front : Forall (sub_of A) (Pn :: Pm :: front) ->
  exists res, phrase_r2l (rev (Pn :: Pm :: front)) = AOk res /\
    forall d, look0 d res =
              N.min (look0 d (any_counts Pm Pn)) (N.of_nat (length (phrase_matches (rev (Pn :: Pm :: front)) d))).
Proof.
  intro Hall. inversion Hall as [|? ? Hsn Hall1]; subst. inversion Hall1 as [|? ? Hsm Hall2]; subst.
  pose proof Hsn as ((Hwn & _ & Hln) & _ & _). pose proof Hsm as ((Hwm & _ & Hlm) & _ & _).
  unfold phrase_r2l. rewrite rev_involutive.
  cbn [r2l_loop]. rewrite (bigram_freqs_any CL Pm Pn Hwm Hwn Hlm Hln).
  cbn [abind fst snd intersect_matches].
  destruct (r2l_loop_sub front Pn Pm (any_counts Pm Pn)) as (res & Er & Hd); try assumption.
  - intros d p. apply (sub_has A Pn). exact Hsn.
  - apply any_counts_acc_ok; assumption.
  - intro d. rewrite step_next_dposns, map_length by assumption. apply any_counts_upper; assumption.
  - exists res. split; [exact Er|]. intro d. rewrite Hd. f_equal. f_equal. f_equal.
    rewrite step_CL_dposns by assumption.
    change (r2l_pos (filter (fun p => mem_n (p + 1) (dposns Pn d)) (dposns Pm d)) front d)
      with (r2l_pos (dposns Pn d) (Pm :: front) d).
    rewrite <- pm_single. change (rev (Pn :: Pm :: front)) with (rev (Pm :: front) ++ [Pn]).
    set (F := rev (Pm :: front)).
    assert (EF : Pm :: front = rev F) by (unfold F; symmetry; apply rev_involutive).
    rewrite EF. apply r2l_pos_spec. discriminate.
Qed.

(* restrictions of A, two or more, in any mix: for a document present in all of them the count is the one of
   A, A, ..., A *)
Theorem compute_sub Ps : (2 <= length Ps)%nat -> Forall (sub_of A) Ps ->
  exists res, compute_phrase_freqs Ps = AOk res /\
    forall d, (forall P, In P Ps -> present d P) ->
      look0 d res = N.min (S_count A d) (N.of_nat (length (phrase_matches Ps d))).
Proof.
  intros Hlen Hall. unfold compute_phrase_freqs. destruct (choose_strategy Ps).
  - destruct Ps as [|P1 [|P2 more]]; cbn [length] in Hlen; try lia.
    destruct (phrase_l2r_sub P1 P2 more Hall) as (res & E & Hd). exists res. split; [exact E|].
    intros d Hpr. rewrite Hd. f_equal. inversion Hall as [|? ? Hs1 Hall1]; subst. inversion Hall1 as [|? ? Hs2 _]; subst.
    apply any_counts_sub; try assumption; apply Hpr; [now left|right; now left].
  - pose proof (rev_involutive Ps) as E. pose proof (rev_length Ps) as L.
    pose proof (Forall_rev Hall) as Hall'.
    destruct (rev Ps) as [|Pn [|Pm front]] eqn:ER; cbn [length] in L; try lia.
    rewrite <- E.
    destruct (phrase_r2l_sub Pn Pm front Hall') as (res & Er & Hd). exists res. split; [exact Er|].
    intros d Hpr. rewrite Hd. f_equal. inversion Hall' as [|? ? Hsn Hall1]; subst. inversion Hall1 as [|? ? Hsm _]; subst.
    assert (Hin : forall P, In P (Pn :: Pm :: front) -> In P (rev (Pn :: Pm :: front))) by (intros P HP; apply -> in_rev; exact HP).
    apply any_counts_sub; try assumption; apply Hpr, Hin; [right; now left|now left].
Qed.
End Sub.

(* ================= 12. one filter per term, one term repeated: the pipeline ================= *)
Section MixedConst.
Variable docs : list (list N).
Hypothesis Hwf : wf_docs docs.

Definition enc_all (t : N) : list N := encode_spec (tp_from 0 docs t).
(* the value every row gets for the phrase  t t ... t  (k terms), whatever filters the terms are read through *)
Definition cval (t : N) (k : nat) (r : N) : N :=
  N.min (S_count (enc_all t) r) (N.of_nat (length (phrase_matches (repeat (enc_all t) k) r))).

Lemma enc_all_canonical t : canonical (enc_all t).
Proof.
  unfold enc_all. rewrite <- (fpairs_true docs t).
  destruct (fpairs_good docs Hwf (fun _ => true) t) as (S1 & B1 & M1 & L1). apply encode_spec_canonical; assumption.
Qed.

Lemma enc_kfilter Q t : encode_spec (fpairs docs Q t) = kfilter Q (enc_all t).
Proof.
  destruct (tp_wf docs Hwf t) as [S B]. unfold enc_all, kfilter, fpairs. symmetry.
  exact (filter_encode_spec Q (tp_from 0 docs t) S B).
Qed.

Lemma phrase_pipeline_const maxd a pss (rows : list N) :
  (2 <= length pss)%nat -> (forall k, k < N.of_nat (length docs) -> k <= maxd) ->
  Forall (fun ps => exists Q, ps = fpairs docs Q a /\ forall r, In r rows -> Q r = true) pss ->
  exists pf dense,
    compute_phrase_freqs (map encode_spec pss) = AOk pf /\
    store_many (repeat 0 (N.to_nat (maxd + 1))) pf = Done dense /\
    length dense = N.to_nat (maxd + 1) /\
    forall r, In r rows -> r <= maxd -> nth (N.to_nat r) dense 0 = cval a (length pss) r.
Proof.
  intros Hlen Hmax HF. set (A := enc_all a). pose proof (enc_all_canonical a) as HcA. fold A in HcA.
  set (Ps := map encode_spec pss).
  assert (HPs : forall P, In P Ps -> exists Q, P = kfilter Q A /\ forall r, In r rows -> Q r = true).
  { intros P HP. apply in_map_iff in HP. destruct HP as (ps & <- & Hps). rewrite Forall_forall in HF.
    destruct (HF ps Hps) as (Q & -> & HQ). exists Q. split; [apply enc_kfilter|exact HQ]. }
  assert (Hsub : Forall (sub_of A) Ps).
  { apply Forall_forall. intros P HP. destruct (HPs P HP) as (Q & -> & _). apply sub_of_kfilter. exact HcA. }
  assert (Hcan : Forall canonical Ps) by (eapply Forall_impl; [|exact Hsub]; intros P (H & _); exact H).
  assert (Hlen' : (2 <= length Ps)%nat) by (unfold Ps; rewrite map_length; exact Hlen).
  destruct (compute_phrase_freqs_bounds Ps Hlen' Hcan) as (res & E & [Hs Hf28] & Hkeys & Hb).
  destruct (compute_sub A HcA Ps Hlen' Hsub) as (res' & E' & Hval). rewrite E in E'. inversion E'; subst res'. clear E'.
  assert (Hkb : Forall (fun iv => fst iv < N.of_nat (N.to_nat (maxd + 1))) res).
  { apply Forall_forall. intros iv Hiv.
    destruct (Hkeys (fst iv) (in_map fst _ _ Hiv)) as (P & w & HP & Hw & Ek).
    destruct (HPs P HP) as (Q & -> & _). apply filter_In in Hw. destruct Hw as [Hw _].
    unfold A, enc_all in Hw. destruct (tp_wf docs Hwf a) as [S B].
    destruct (encode_word_pair _ w S B Hw) as (p & Hin).
    pose proof (tp_keys a docs 0) as TK. rewrite Forall_forall in TK. specialize (TK _ Hin).
    cbn [fst] in TK. rewrite Ek in *.
    assert (fst iv <= maxd) by (apply Hmax; lia). lia. }
  destruct (store_zeros res (N.to_nat (maxd + 1)) (ss_lt_nodup' _ Hs) Hkb) as (d' & Es & Ld & Hn).
  exists res, d'. split; [exact E|]. split; [exact Es|]. split; [exact Ld|].
  intros r Hr Hle. rewrite Hn by lia. rewrite N2Nat.id. fold (look0 r res). unfold cval. fold A.
  assert (Epm : phrase_matches Ps r = phrase_matches (repeat A (length pss)) r).
  { apply phrase_matches_ext. unfold Ps. clear - HF Hr Hwf. induction HF as [|ps pss Hps _ IH]; [constructor|].
    cbn [map length repeat]. constructor; [|exact IH]. destruct Hps as (Q & -> & HQ).
    rewrite enc_kfilter by exact Hwf. apply dposns_kfilter. apply HQ. exact Hr. }
  destruct (dposns A r) as [|p0 ps0] eqn:Edp.
  - (* the term does not occur in document r: no match, both sides 0 *)
    assert (E0 : phrase_matches (repeat A (length pss)) r = []).
    { destruct (length pss) as [|k]; [reflexivity|]. cbn [repeat phrase_matches]. rewrite Edp. reflexivity. }
    destruct (Hb r) as [Hup _]. rewrite Epm, E0 in Hup. rewrite E0. cbn [length N.of_nat] in *. lia.
  - rewrite <- Epm. apply Hval. intros P HP. destruct (HPs P HP) as (Q & -> & HQ).
    assert (Hp0 : has A r p0) by (apply In_dposns; rewrite Edp; now left).
    destruct Hp0 as (w & Hw & Hk & _). exists w. split; [|exact Hk].
    apply filter_In. split; [exact Hw|]. rewrite Hk. apply HQ. exact Hr.
Qed.
End MixedConst.

(* ================= 13. a concrete view ================= *)
(* rows [4;1;1] of a corpus with runs inside a word, two runs in one word and a run across the boundary 17|18:
   the same vectors through the un-filtered and through the filtered handle, for 'a a', 'a a a' and 'a a b' *)
Definition run_view (h : handle) (ts : list N) : api (list N) := pipe (get_all_enc h ts None None) 4 [4;1;1].
Example phrase_local_instance :
  let docs := [[1;1;1;1;1]; [1;1;1;2;1;1;1]; [2;1;1]; [1;2;1]; repeat 2 17 ++ [1;1;1;2]] in
  match index false 100 docs with
  | AOk ix =>
      let hb := HBase (ix_posts ix) in
      let hf := HFiltered (ix_posts ix) (np_unique [4;1;1]) in
      (run_view hb [1;1] = AOk [2;3;3]) /\ (run_view hf [1;1] = AOk [2;3;3]) /\
      (run_view hb [1;1;1] = AOk [1;2;2]) /\ (run_view hf [1;1;1] = AOk [1;2;2]) /\
      (run_view hb [1;1;2] = AOk [1;1;1]) /\ (run_view hf [1;1;2] = AOk [1;1;1])
  | _ => False
  end.
Proof. vm_compute. repeat split; reflexivity. Qed.

Print Assumptions exact_nonconst.
Print Assumptions compute_const.
Print Assumptions phrase_local_lists.
Print Assumptions phrase_local_holds_wide.
Print Assumptions phrase_pipeline_nonconst.
Print Assumptions compute_sub.
Print Assumptions phrase_pipeline_const.
Print Assumptions phrase_exact_nonconst_on_index.
