(* C07 for indexed corpora, PREMISE-FREE, with NO restriction on phrases or position ranges.
   View/Purity_Gen.v is instantiated with
     good_posts := good_posts_of docs                (the postings of  index false bs docs)
     R          := rows_in docs                      (row ids within the corpus)
     Q          := any_phrase                        (True: every phrase, every position range)
   The premises are discharged by Purity_Indexed.slice_idem_on_indexed and View_Phrase3.phrase_local_holds_wide
   (the latter rests on Query/Phrase_Repeats.v: phrases with immediately repeated terms).

   The operation domain ([sel_okb], [sels_okb]; boolean, static) now restricts SELECTIONS only:
     OTf, OPhrase, OScore (any array, any terms, any range), OPos, ODf, OLens, OCopy, OWarm : always in the domain
     OSelect ai pos : the selected row ids are < n  (n = number of documents)
   and on a NON-EMPTY corpus every history is in the domain ([all_ops_in_domain_nonempty]), so the theorems
   hold for every history whatsoever ([indexed_history_free_any], [indexed_run_pure_any], ...).
   The restricted check of Purity_Indexed.v implies this one ([ops_okb_sels_okb]). *)
From Coq Require Import Sorted Permutation QArith.
From SA Require Import Base.Prelude Kernels.Spec Kernels.Linear Codec.Codec Codec.Codec_Proofs Index.Index Index.Index_Spec
  Index.Index_Proofs Index.Index_Proofs2 Index.Index_Proofs3 Query.Phrase Query.Phrase_Spec Query.Range Score.BM25
  View.View View.View_Spec View.View_Proofs View.View_Phrase View.Purity View.Purity_Proofs View.View_Phrase2
  View.Purity_Gen View.Purity_Indexed View.View_Phrase3.
Open Scope N_scope.

(* ================= the domain ================= *)
Definition sel_okb (n : N) (sh : shape) (o : op) : bool :=
  match o with
  | OSelect ai pos =>
      match nth_error sh ai with
      | Some (_, rows) => forallb (fun r => r <? n) (gather 0 rows pos)
      | None => true
      end
  | _ => true
  end.
Fixpoint sels_okb (n : N) (sh : shape) (ops : list op) : bool :=
  match ops with [] => true | o :: rest => sel_okb n sh o && sels_okb n (shape_step sh o) rest end.

Definition ops_in_domain2 (docs : list (list N)) (ops : list op) : Prop :=
  sels_okb (N.of_nat (length docs)) (shape0 (length docs)) ops = true.
Definition op_in_domain_after2 (docs : list (list N)) (ops : list op) (q : op) : Prop :=
  sel_okb (N.of_nat (length docs)) (shape_run (shape0 (length docs)) ops) q = true.

Lemma sels_okb_app n ops1 : forall sh ops2,
  sels_okb n sh (ops1 ++ ops2) = sels_okb n sh ops1 && sels_okb n (shape_run sh ops1) ops2.
Proof.
  induction ops1 as [|o rest IH]; intros sh ops2; cbn [app sels_okb shape_run]; [reflexivity|].
  rewrite IH, andb_assoc. reflexivity.
Qed.

(* the old (restricted) check implies the new one *)
Lemma op_okb_sel_okb n sh o : op_okb n sh o = true -> sel_okb n sh o = true.
Proof. destruct o; cbn [op_okb sel_okb]; intro H; try reflexivity. exact H. Qed.
Lemma ops_okb_sels_okb n ops : forall sh, ops_okb n sh ops = true -> sels_okb n sh ops = true.
Proof.
  induction ops as [|o rest IH]; intros sh H; [reflexivity|]. cbn [ops_okb sels_okb] in *.
  apply andb_true_iff in H. destruct H as [H1 H2]. rewrite (op_okb_sel_okb _ _ _ H1), (IH _ H2). reflexivity.
Qed.

Section Dom2.
Variable docs : list (list N).
Local Notation n := (N.of_nat (length docs)).
Local Notation OPDOM := (op_dom (rows_in docs) any_phrase).
Local Notation OPSDOM := (ops_dom (rows_in docs) any_phrase).

Lemma sel_okb_dom sh o : sel_okb n sh o = true -> OPDOM sh o.
Proof.
  intro H. destruct o as [ai t lo hi|ai ts lo hi|ai t|ai t|ai|ai ts idf k1 b|ai pos|ai|ai];
    cbn [sel_okb op_dom] in *; try exact I.
  - intros rows _ _. exact I.
  - intros rows _ _. exact I.
  - intros b rows Hn. rewrite Hn in H. unfold rows_in. apply Forall_forall. intros r Hr.
    rewrite forallb_forall in H. specialize (H r Hr). apply N.ltb_lt in H. exact H.
Qed.

Lemma sels_okb_dom ops : forall sh, sels_okb n sh ops = true -> OPSDOM sh ops.
Proof.
  induction ops as [|o rest IH]; intros sh H; cbn [sels_okb ops_dom] in *; [exact I|].
  apply andb_true_iff in H. destruct H as (H1 & H2). split; [apply sel_okb_dom; exact H1|apply IH; exact H2].
Qed.

(* on a non-empty corpus every operation, hence every history, is in the domain *)
Lemma sel_okb_nonempty sh o : docs <> [] -> shape_ok (rows_in docs) sh -> sel_okb n sh o = true.
Proof.
  intros Hne Hs. destruct o; cbn [sel_okb]; try reflexivity.
  destruct (nth_error sh a) as [[b rows]|] eqn:En; [|reflexivity].
  apply rows_in_okb. apply gather_rows_in_nonempty; [exact Hne|].
  unfold shape_ok in Hs. rewrite Forall_forall in Hs. exact (Hs _ (nth_error_In _ _ En)).
Qed.

Lemma sels_okb_nonempty ops : docs <> [] -> forall sh, shape_ok (rows_in docs) sh -> sels_okb n sh ops = true.
Proof.
  intro Hne. induction ops as [|o rest IH]; intros sh Hs; [reflexivity|]. cbn [sels_okb].
  rewrite (sel_okb_nonempty sh o Hne Hs). cbn [andb]. apply IH.
  apply (shape_step_ok (rows_in docs) any_phrase sh o Hs). apply sel_okb_dom. apply sel_okb_nonempty; assumption.
Qed.

Theorem all_ops_in_domain_nonempty ops : docs <> [] -> ops_in_domain2 docs ops.
Proof. intro Hne. apply sels_okb_nonempty; [exact Hne|apply shape0_ok]. Qed.

Lemma shape_run_ok ops : forall sh, shape_ok (rows_in docs) sh -> OPSDOM sh ops -> shape_ok (rows_in docs) (shape_run sh ops).
Proof.
  induction ops as [|o rest IH]; intros sh Hs Hd; [exact Hs|]. cbn [shape_run ops_dom] in *.
  destruct Hd as [H1 H2]. apply IH; [apply (shape_step_ok (rows_in docs) any_phrase); assumption|exact H2].
Qed.

Theorem any_op_in_domain_after_nonempty ops q : docs <> [] -> op_in_domain_after2 docs ops q.
Proof.
  intro Hne. apply sel_okb_nonempty; [exact Hne|]. apply shape_run_ok; [apply shape0_ok|].
  apply sels_okb_dom. apply all_ops_in_domain_nonempty. exact Hne.
Qed.

(* ================= the two premises hold on the domain ================= *)
Theorem phrase_local_on_indexed2 : phrase_local_on (good_posts_of docs) (rows_in docs) any_phrase.
Proof. exact (phrase_local_holds_wide docs). Qed.

(* ================= reachable pools satisfy the strengthened invariant ================= *)
Lemma indexed_reach2 bs ix cg ops outs p : wf_docs docs -> index false bs docs = AOk ix ->
  ops_in_domain2 docs ops -> run (init_pool ix cg) ops = (outs, p) ->
  InvR (good_posts_of docs) (rows_in docs) p /\ shape_of p = shape_run (shape0 (length docs)) ops /\
  (exists extra, arrays p = arrays (init_pool ix cg) ++ extra) /\ length outs = length ops.
Proof.
  intros Hwf E Hd Hrun. pose proof (indexed_init_inv docs bs ix cg Hwf E) as HI.
  pose proof (shape_of_init_docs docs bs ix cg Hwf E) as Hs0.
  assert (Hd' : OPSDOM (shape_of (init_pool ix cg)) ops) by (rewrite Hs0; apply sels_okb_dom; exact Hd).
  destruct (run_inv_gen _ _ _ _ _ _ _ HI Hd' Hrun) as (I1 & X & _ & Hlen).
  split; [exact I1|]. split; [|split; [exact X|exact Hlen]].
  rewrite (shape_of_run _ _ _ _ _ (proj1 HI) Hrun), Hs0. reflexivity.
Qed.

(* ================= premise-free theorems ================= *)
Theorem indexed_step_pure2 bs ix cg ops outs p q r p' :
  wf_docs docs -> index false bs docs = AOk ix ->
  ops_in_domain2 docs ops -> run (init_pool ix cg) ops = (outs, p) ->
  op_in_domain_after2 docs ops q -> step p q = (r, p') ->
  (forall r0, pure_answer p q = Some r0 -> r = r0) /\
  InvR (good_posts_of docs) (rows_in docs) p' /\ (exists extra, arrays p' = arrays p ++ extra) /\ heap_le p p'.
Proof.
  intros Hwf E Hd Hrun Hq Hstep.
  destruct (indexed_reach2 bs ix cg ops outs p Hwf E Hd Hrun) as (HI & Hs & _).
  assert (Hq' : OPDOM (shape_of p) q) by (rewrite Hs; apply sel_okb_dom; exact Hq).
  destruct (step_pure_gen _ _ _ (slice_idem_on_indexed docs) phrase_local_on_indexed2 _ _ _ _ HI Hq' Hstep)
    as (X & A & Y & Z).
  split; [exact A|]. split; [exact X|]. split; [exact Y|exact Z].
Qed.

Theorem indexed_run_pure2 bs ix cg ops outs p' :
  wf_docs docs -> index false bs docs = AOk ix ->
  ops_in_domain2 docs ops -> run (init_pool ix cg) ops = (outs, p') ->
  forall k o r, nth_error ops k = Some o -> nth_error outs k = Some r ->
    forall r0, pure_answer (snd (run (init_pool ix cg) (firstn k ops))) o = Some r0 -> r = r0.
Proof.
  intros Hwf E Hd Hrun. pose proof (indexed_init_inv docs bs ix cg Hwf E) as HI.
  assert (Hd' : OPSDOM (shape_of (init_pool ix cg)) ops).
  { rewrite (shape_of_init_docs docs bs ix cg Hwf E). apply sels_okb_dom. exact Hd. }
  exact (proj2 (run_pure_gen _ _ _ (slice_idem_on_indexed docs) phrase_local_on_indexed2 _ _ _ _ HI Hd' Hrun)).
Qed.

Corollary indexed_run_pure_initial2 bs ix cg ops outs p' :
  wf_docs docs -> index false bs docs = AOk ix ->
  ops_in_domain2 docs ops -> run (init_pool ix cg) ops = (outs, p') ->
  forall k o r, nth_error ops k = Some o -> nth_error outs k = Some r ->
    forall r0, pure_answer (init_pool ix cg) o = Some r0 -> r = r0.
Proof.
  intros Hwf E Hd Hrun. pose proof (indexed_init_inv docs bs ix cg Hwf E) as HI.
  assert (Hd' : OPSDOM (shape_of (init_pool ix cg)) ops).
  { rewrite (shape_of_init_docs docs bs ix cg Hwf E). apply sels_okb_dom. exact Hd. }
  exact (run_pure_initial_gen _ _ _ (slice_idem_on_indexed docs) phrase_local_on_indexed2 _ _ _ _ HI Hd' Hrun).
Qed.

Theorem indexed_history_free2 bs ix cg ops1 outs1 p1 ops2 outs2 p2 q :
  wf_docs docs -> index false bs docs = AOk ix ->
  ops_in_domain2 docs (ops1 ++ ops2) ->
  run (init_pool ix cg) ops1 = (outs1, p1) -> run p1 ops2 = (outs2, p2) ->
  op_in_domain_after2 docs ops1 q -> pure_answer p1 q <> None ->
  fst (step p2 q) = fst (step p1 q).
Proof.
  intros Hwf E Hd Hrun1 Hrun2 Hq Hpa. unfold ops_in_domain2 in Hd. rewrite sels_okb_app in Hd.
  apply andb_true_iff in Hd. destruct Hd as (Hd1 & Hd2).
  destruct (indexed_reach2 bs ix cg ops1 outs1 p1 Hwf E Hd1 Hrun1) as (HI & Hs & _).
  apply (history_free_gen _ _ _ (slice_idem_on_indexed docs) phrase_local_on_indexed2 p1 q ops2 outs2 p2 HI Hpa).
  - rewrite Hs. apply sel_okb_dom. exact Hq.
  - rewrite Hs. apply sels_okb_dom. exact Hd2.
  - exact Hrun2.
Qed.

Theorem indexed_repeat_same2 bs ix cg ops1 outs1 p1 q r1 p1' ops2 outs2 p2 r2 p3 :
  wf_docs docs -> index false bs docs = AOk ix ->
  ops_in_domain2 docs (ops1 ++ q :: ops2) ->
  run (init_pool ix cg) ops1 = (outs1, p1) -> pure_answer p1 q <> None ->
  step p1 q = (r1, p1') -> run p1' ops2 = (outs2, p2) -> step p2 q = (r2, p3) -> r2 = r1.
Proof.
  intros Hwf E Hd Hrun1 Hpa H1 Hrun2 H2. unfold ops_in_domain2 in Hd. rewrite sels_okb_app in Hd.
  apply andb_true_iff in Hd. destruct Hd as (Hd1 & Hd2). cbn [sels_okb] in Hd2.
  apply andb_true_iff in Hd2. destruct Hd2 as (Hq & Hd2).
  destruct (indexed_reach2 bs ix cg ops1 outs1 p1 Hwf E Hd1 Hrun1) as (HI & Hs & _).
  apply (repeat_same_gen _ _ _ (slice_idem_on_indexed docs) phrase_local_on_indexed2 p1 q r1 p1' ops2 outs2 p2 r2 p3 HI Hpa).
  - rewrite Hs. apply sel_okb_dom. exact Hq.
  - rewrite (shape_of_step _ _ _ _ _ (proj1 HI) H1), Hs. apply sels_okb_dom. exact Hd2.
  - exact H1.
  - exact Hrun2.
  - exact H2.
Qed.

(* ---- non-empty corpus: no domain condition at all ---- *)
Theorem indexed_run_pure_any bs ix cg ops outs p' :
  wf_docs docs -> docs <> [] -> index false bs docs = AOk ix -> run (init_pool ix cg) ops = (outs, p') ->
  forall k o r, nth_error ops k = Some o -> nth_error outs k = Some r ->
    forall r0, pure_answer (snd (run (init_pool ix cg) (firstn k ops))) o = Some r0 -> r = r0.
Proof.
  intros Hwf Hne E Hrun. apply (indexed_run_pure2 bs ix cg ops outs p' Hwf E); [|exact Hrun].
  apply all_ops_in_domain_nonempty. exact Hne.
Qed.

Theorem indexed_history_free_any bs ix cg ops1 outs1 p1 ops2 outs2 p2 q :
  wf_docs docs -> docs <> [] -> index false bs docs = AOk ix ->
  run (init_pool ix cg) ops1 = (outs1, p1) -> run p1 ops2 = (outs2, p2) -> pure_answer p1 q <> None ->
  fst (step p2 q) = fst (step p1 q).
Proof.
  intros Hwf Hne E Hrun1 Hrun2 Hpa.
  apply (indexed_history_free2 bs ix cg ops1 outs1 p1 ops2 outs2 p2 q Hwf E); try assumption.
  - apply all_ops_in_domain_nonempty. exact Hne.
  - apply any_op_in_domain_after_nonempty. exact Hne.
Qed.

Theorem indexed_repeat_same_any bs ix cg ops1 outs1 p1 q r1 p1' ops2 outs2 p2 r2 p3 :
  wf_docs docs -> docs <> [] -> index false bs docs = AOk ix ->
  run (init_pool ix cg) ops1 = (outs1, p1) -> pure_answer p1 q <> None ->
  step p1 q = (r1, p1') -> run p1' ops2 = (outs2, p2) -> step p2 q = (r2, p3) -> r2 = r1.
Proof.
  intros Hwf Hne E Hrun1 Hpa H1 Hrun2 H2.
  apply (indexed_repeat_same2 bs ix cg ops1 outs1 p1 q r1 p1' ops2 outs2 p2 r2 p3 Hwf E); try assumption.
  apply all_ops_in_domain_nonempty. exact Hne.
Qed.
End Dom2.

(* ================= non-vacuity ================= *)
(* the histories that Purity_Indexed.ex_out_of_domain rejects (ranged or repeated-term phrases ON A VIEW) are now
   in the domain; a selection on an empty corpus is still rejected *)
Example ex_now_in_domain :
  sels_okb 5 (shape0 5) [OSelect 0 [1;2]; OPhrase 1 [1;2] (Some 0) None] = true /\
  sels_okb 5 (shape0 5) [OSelect 0 [1;2]; OPhrase 1 [1;1;2] None None] = true /\
  sels_okb 5 (shape0 5) [OSelect 0 [1;2]; OScore 1 [2;2] 0 0 0] = true /\
  sels_okb 0 (shape0 0) [OSelect 0 [0]] = false.
Proof. vm_compute. repeat split; reflexivity. Qed.

(* a repeated-term phrase with a position range on a view of a view, before and after a history that selects
   from that view (which resets its handle) *)
Example ex_repeated_phrase_history_free : forall ix cg outs1 p1 outs2 p2 q,
  index false 100 ex_docs = AOk ix ->
  run (init_pool ix cg) [OSelect 0 [4;2;0;0;3]; OSelect 1 [1;0;3;4;9]] = (outs1, p1) ->
  run p1 [OPhrase 2 [1;1] None None; OSelect 2 [0;1]; OPhrase 2 [1;1;2] (Some 0) (Some 17); OWarm 0] = (outs2, p2) ->
  pure_answer p1 q <> None ->
  fst (step p2 q) = fst (step p1 q).
Proof.
  intros ix cg outs1 p1 outs2 p2 q E H1 H2 Hq.
  eapply (indexed_history_free_any ex_docs 100 ix cg); [exact ex_wf|discriminate|exact E|exact H1|exact H2|exact Hq].
Qed.

Print Assumptions phrase_local_on_indexed2.
Print Assumptions all_ops_in_domain_nonempty.
Print Assumptions indexed_step_pure2.
Print Assumptions indexed_run_pure2.
Print Assumptions indexed_history_free2.
Print Assumptions indexed_repeat_same2.
Print Assumptions indexed_run_pure_any.
Print Assumptions indexed_history_free_any.
Print Assumptions indexed_repeat_same_any.
