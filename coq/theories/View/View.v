(* Model of row selection (views) and of every query on a view, as the code is after the repairs of
   D3 (document frequencies come from the root postings), D4/D5 (postings are filtered by the sorted
   de-duplicated row ids and answers are gathered by the row vector), D6 (positions always take the
   fill path), D17 (the BM25 kernel receives a contiguous copy of the lengths) and D20:
     postings.py: __getitem__ (343-358), take (509-530), copy (532-544), termfreqs (607-638), docfreq,
                  doclengths, score (652-680), positions (682-687), _phrase_freq (689-708)
     middle_out.py: FilteredPosns (291-317), PosnBitArray.filter / slice / docfreq / termfreqs /
                    phrase_freqs / positions;  row_viewable_matrix.py: RowViewableMatrix.slice
   pandas' normalisation of a key (slice / mask / negative ints -> positions) is done by the harness.
   Caches are not part of this model (they are transparent: View/Purity.v).  No proofs here. *)
From Coq Require Import ZArith.
From SA Require Import Base.Prelude Kernels.Spec Kernels.Linear Codec.Codec Index.Index Query.Phrase Query.Range Score.BM25.
Open Scope N_scope.

Definition posts := list (N * list N).

(* encoded_term_posns of a PosnBitArray: an ArrayDict / dict, or a FilteredPosns wrapper *)
Inductive handle :=
| HBase (p : posts)
| HFiltered (base : posts) (ids : list N).     (* ids = np.unique(doc_ids) *)

Record pba := {
  p_handle : handle;
  p_max_doc_id : N;
  p_df_root : posts;          (* df_source: the root postings document frequencies are computed from *)
}.

Record sarray := {
  a_terms : list N;           (* term dictionary *)
  a_posns : pba;
  a_rows : list N;            (* term_mat.rows: parent row id of every row *)
  a_subset : bool;            (* term_mat.subset *)
  a_lens : list N;            (* doc_lens (of this array's rows) *)
  a_total : N;                (* avg_doc_length = a_total / a_n, inherited *)
  a_n : N;                    (* corpus_size, inherited *)
  a_avoid_copies : bool;
}.

Definition of_index (ix : sindex) (avoid_copies : bool) : sarray :=
  {| a_terms := ix_terms ix;
     a_posns := {| p_handle := HBase (ix_posts ix); p_max_doc_id := N.of_nat (length (ix_lens ix)) - 1;
                   p_df_root := ix_posts ix |};
     a_rows := map N.of_nat (seq 0 (length (ix_lens ix)));
     a_subset := false;
     a_lens := ix_lens ix;
     a_total := total_len ix;
     a_n := n_docs ix;
     a_avoid_copies := avoid_copies |}.

(* np.unique: sorted distinct values *)
Definition np_unique (l : list N) : list N := dedup_adj (np_sort l).

Definition lookup_posts (t : N) (p : posts) : api (list N) :=
  match lookup t p with Some w => AOk w | None => AExc KeyError end.

(* self.encoded_term_posns[term_id] *)
Definition get_enc (h : handle) (t : N) : api (list N) :=
  match h with
  | HBase p => lookup_posts t p
  | HFiltered base ids => ado w <- lookup_posts t base; lift (slice_keys w ids)
  end.

Definition handle_terms (h : handle) : list N :=
  match h with HBase p => map fst p | HFiltered b _ => map fst b end.

(* ---- __getitem__(key) for a non-integer key, key already normalised to positions ---- *)
Definition gather {A} (dflt : A) (l : list A) (pos : list N) : list A := map (fun i => nth (N.to_nat i) l dflt) pos.

Fixpoint slice_all_terms (p : posts) (ids : list N) : api posts :=
  match p with
  | [] => AOk []
  | (t, w) :: rest => ado s <- lift (slice_keys w ids); ado r <- slice_all_terms rest ids; AOk ((t, s) :: r)
  end.

Definition select (a : sarray) (pos : list N) : api sarray :=
  let rows' := gather 0 (a_rows a) pos in
  let ids := np_unique rows' in
  let pb := a_posns a in
  ado h' <- (if a_avoid_copies a then
               (* posns.filter(rows): wraps the UN-filtered base *)
               AOk (HFiltered (match p_handle pb with HBase p => p | HFiltered b _ => b end) ids,
                    p_max_doc_id pb)
             else
               (* posns.slice(rows): physically sliced postings, max_doc_id = max(ids) (0 when empty) *)
               ado all <- (match p_handle pb with
                           | HBase p => slice_all_terms p ids
                           | HFiltered b fids =>
                               ado s1 <- slice_all_terms b fids; slice_all_terms s1 ids
                           end);
               AOk (HBase all, fold_left N.max ids 0));
  AOk {| a_terms := a_terms a;
         a_posns := {| p_handle := fst h'; p_max_doc_id := snd h'; p_df_root := p_df_root pb |};
         a_rows := rows';
         a_subset := true;
         a_lens := gather 0 (a_lens a) pos;
         a_total := a_total a; a_n := a_n a;
         a_avoid_copies := true |}.       (* SearchArray([], tokenizer=...) : the constructor default *)

(* copy(): same rows and postings (deep copies are semantically identical) *)
Definition copy (a : sarray) : sarray := a.

(* ---- queries ---- *)
Definition known_a (a : sarray) (t : N) : bool := existsb (N.eqb t) (a_terms a).
Definition nrows (a : sarray) : nat := length (a_rows a).

(* SearchArray.termfreqs(str, min_posn, max_posn) *)
Definition v_termfreqs (a : sarray) (t : N) (min_p max_p : option N) : api (list N) :=
  if negb (known_a a t) then AOk (repeat 0 (nrows a))
  else if a_subset a then
    let ids := np_unique (a_rows a) in
    ado enc <- get_enc (p_handle (a_posns a)) t;
    ado s <- lift (slice_keys enc ids);
    ado s2 <- api_of_range (slice_range_w s min_p max_p);
    ado kc <- lift (num_values_per_key s2);
    ado dense <- unpy (as_dense (map fst kc) (map snd kc) (p_max_doc_id (a_posns a) + 1));
    AOk (gather 0 dense (a_rows a))
  else
    ado enc <- get_enc (p_handle (a_posns a)) t;
    ado s2 <- (match min_p, max_p with
               | None, None => AOk enc
               | _, _ => api_of_range (slice_range_w enc min_p max_p) end);
    ado kc <- lift (num_values_per_key s2);
    unpy (as_dense (map fst kc) (map snd kc) (N.of_nat (nrows a))).

(* SearchArray._phrase_freq / PosnBitArray.phrase_freqs with slop = 0 *)
Fixpoint get_all_enc (h : handle) (ts : list N) (min_p max_p : option N) : api (list (list N)) :=
  match ts with
  | [] => AOk []
  | t :: rest =>
      ado w <- get_enc h t;
      ado s <- (match min_p, max_p with
                | None, None => AOk w
                | _, _ => api_of_range (slice_range_w w min_p max_p) end);
      ado ws <- get_all_enc h rest min_p max_p;
      AOk (s :: ws)
  end.
Definition v_phrase_freqs (a : sarray) (ts : list N) (min_p max_p : option N) : api (list N) :=
  if negb (forallb (known_a a) ts) then AOk (repeat 0 (nrows a))
  else if Nat.ltb (length ts) 2 then AExc ValueError
  else
    ado enc <- get_all_enc (p_handle (a_posns a)) ts min_p max_p;
    ado pf <- compute_phrase_freqs enc;
    ado dense <- lift (store_many (repeat 0 (N.to_nat (p_max_doc_id (a_posns a) + 1))) pf);
    if a_subset a then AOk (gather 0 dense (a_rows a)) else AOk dense.

Definition v_tf_vector (a : sarray) (ts : list N) (min_p max_p : option N) : api (list N) :=
  match ts with [t] => v_termfreqs a t min_p max_p | _ => v_phrase_freqs a ts min_p max_p end.

(* docfreq: always from the root postings *)
Definition v_docfreq (a : sarray) (t : N) : api N :=
  if negb (known_a a t) then AOk 0
  else ado w <- lookup_posts t (p_df_root (a_posns a)); ado ks <- lift (keys_unique w); AOk (N.of_nat (length ks)).

Definition v_doclengths (a : sarray) : list N := a_lens a.

(* positions(token): slice by the unique rows, decode, then one entry per row (fill path) *)
Definition v_positions (a : sarray) (t : N) : api (list (list N)) :=
  if negb (known_a a t) then AExc TermMissing
  else
    match get_enc (p_handle (a_posns a)) t with
    | AExc KeyError => AOk (map (fun _ => []) (a_rows a))
    | other =>
        ado enc <- other;
        ado s <- lift (slice_keys enc (np_unique (a_rows a)));
        let decoded := decode s in
        AOk (map (fun r => match lookup r decoded with Some p => p | None => [] end) (a_rows a))
    end.

Fixpoint v_all_dfs (a : sarray) (ts : list N) : api (list N) :=
  match ts with
  | [] => AOk []
  | t :: rest => ado d <- v_docfreq a t; ado ds <- v_all_dfs a rest; AOk (d :: ds)
  end.

(* score with the BM25 family: statistics = (tf of the view, parent dfs, view lengths, parent avg, parent N) *)
Definition v_score_args (a : sarray) (ts : list N) (min_p max_p : option N)
  : api (list N * list N * list N * N * N) :=
  ado dfs <- v_all_dfs a ts;
  ado tfs <- v_tf_vector a ts min_p max_p;
  AOk (tfs, dfs, v_doclengths a, a_total a, a_n a).
Definition v_score_bm25 (a : sarray) (ts : list N) (idf_bits k1_bits b_bits : Z) : api (list Z) :=
  ado x <- v_score_args a ts None None;
  let '(tfs, dfs, dls, total, n) := x in
  AOk (score_bits (map Z.of_N tfs) (map Z.of_N dls) (Z.of_N total) (Z.of_N n) idf_bits k1_bits b_bits).

(* a chain of selections applied to a fresh index *)
Fixpoint select_chain (a : sarray) (keys : list (list N)) : api sarray :=
  match keys with
  | [] => AOk a
  | k :: rest => ado a' <- select a k; select_chain a' rest
  end.
